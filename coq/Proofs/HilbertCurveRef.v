(* The classical Hilbert curve of Spec/Curve.v: for EVERY order p it stays in the
   grid, starts at (0,0), ends at (2^p - 1, 0), and consecutive points are grid
   neighbours (induction on p over the quadrant recursion). *)
From Coq Require Import NArith List Bool Arith Lia.
From SP Require Import Model.Hilbert Spec.Curve.
Import ListNotations.
Local Open Scope N_scope.

Definition quad (s q : N) (xy : N * N) : N * N :=
  let '(x, y) := xy in
  if q =? 0 then (y, x)
  else if q =? 1 then (x, y + s)
  else if q =? 2 then (x + s, y + s)
  else (2 * s - 1 - y, s - 1 - x).

Lemma quad0 : forall s x y, quad s 0 (x, y) = (y, x). Proof. reflexivity. Qed.
Lemma quad1 : forall s x y, quad s 1 (x, y) = (x, y + s). Proof. reflexivity. Qed.
Lemma quad2 : forall s x y, quad s 2 (x, y) = (x + s, y + s). Proof. reflexivity. Qed.
Lemma quad3 : forall s x y, quad s 3 (x, y) = (2 * s - 1 - y, s - 1 - x). Proof. reflexivity. Qed.

Lemma hilbert_ref_S : forall k d,
    hilbert_ref (S k) d
    = quad (2 ^ N.of_nat k) (d / 4 ^ N.of_nat k) (hilbert_ref k (d mod 4 ^ N.of_nat k)).
Proof. intros. cbn [hilbert_ref]. unfold quad. now destruct (hilbert_ref k _). Qed.

Definition adj (a b : N * N) : Prop :=
  (fst a = fst b /\ (snd a + 1 = snd b \/ snd b + 1 = snd a)) \/
  (snd a = snd b /\ (fst a + 1 = fst b \/ fst b + 1 = fst a)).

Definition curve_ok (p : nat) : Prop :=
  hilbert_ref p 0 = (0, 0) /\
  hilbert_ref p (4 ^ N.of_nat p - 1) = (2 ^ N.of_nat p - 1, 0) /\
  forall d, d < 4 ^ N.of_nat p ->
            (fst (hilbert_ref p d) < 2 ^ N.of_nat p /\ snd (hilbert_ref p d) < 2 ^ N.of_nat p) /\
            (d + 1 < 4 ^ N.of_nat p -> adj (hilbert_ref p d) (hilbert_ref p (d + 1))).

Lemma quad_adj : forall s q a b, q < 4 ->
    fst a < s -> snd a < s -> fst b < s -> snd b < s ->
    adj a b -> adj (quad s q a) (quad s q b).
Proof.
  intros s q [x y] [x' y'] Hq Hx Hy Hx' Hy' H. unfold adj, quad in *. cbn [fst snd] in *.
  destruct (N.eqb_spec q 0); [cbn [fst snd]; lia|].
  destruct (N.eqb_spec q 1); [cbn [fst snd]; lia|].
  destruct (N.eqb_spec q 2); [cbn [fst snd]; lia|].
  cbn [fst snd]. lia.
Qed.

Lemma quad_range : forall s q a, q < 4 -> fst a < s -> snd a < s ->
    fst (quad s q a) < 2 * s /\ snd (quad s q a) < 2 * s.
Proof.
  intros s q [x y] Hq Hx Hy. unfold quad. cbn [fst snd] in *.
  destruct (N.eqb_spec q 0); [cbn [fst snd]; lia|].
  destruct (N.eqb_spec q 1); [cbn [fst snd]; lia|].
  destruct (N.eqb_spec q 2); [cbn [fst snd]; lia|].
  cbn [fst snd]. lia.
Qed.

Lemma curve_ok_all : forall p, curve_ok p.
Proof.
  induction p as [|k IH].
  - unfold curve_ok. cbn [hilbert_ref N.of_nat]. rewrite !N.pow_0_r.
    split; [reflexivity|]. split; [reflexivity|].
    intros d Hd. cbn [fst snd]. split; [lia|]. intros Hd1. lia.
  - destruct IH as (IH0 & IHe & IHd).
    set (s := 2 ^ N.of_nat k) in *. set (m := 4 ^ N.of_nat k) in *.
    assert (Hs : 0 < s) by (apply N.neq_0_lt_0, N.pow_nonzero; lia).
    assert (Hm : 0 < m) by (apply N.neq_0_lt_0, N.pow_nonzero; lia).
    assert (Hs2 : 2 ^ N.of_nat (S k) = 2 * s) by (now rewrite Nat2N.inj_succ, N.pow_succ_r').
    assert (Hm4 : 4 ^ N.of_nat (S k) = 4 * m) by (now rewrite Nat2N.inj_succ, N.pow_succ_r').
    assert (Hdm : forall d q r, d = m * q + r -> r < m -> d / m = q /\ d mod m = r).
    { intros d q r Hd Hr. split; [symmetry; eapply N.div_unique|symmetry; eapply N.mod_unique]; eauto. }
    unfold curve_ok. rewrite Hs2, Hm4. split; [|split].
    + (* start *)
      rewrite hilbert_ref_S. fold s m.
      destruct (Hdm 0 0 0) as [-> ->]; [lia|lia|]. rewrite IH0. reflexivity.
    + (* end *)
      rewrite hilbert_ref_S. fold s m.
      destruct (Hdm (4 * m - 1) 3 (m - 1)) as [-> ->]; [lia|lia|]. rewrite IHe.
      rewrite quad3. f_equal; lia.
    + intros d Hd.
      pose proof (N.div_mod d m ltac:(lia)) as Hdiv.
      pose proof (N.mod_lt d m ltac:(lia)) as Hr.
      set (q := d / m) in *. set (r := d mod m) in *.
      assert (Hq : q < 4) by nia.
      destruct (IHd r Hr) as [[Hrx Hry] Hradj].
      split.
      * rewrite hilbert_ref_S. fold s m q r. now apply quad_range.
      * intros Hd1. rewrite !hilbert_ref_S. fold s m q r.
        destruct (N.lt_ge_cases (r + 1) m) as [Hin|Hout].
        -- (* same quadrant *)
           destruct (Hdm (d + 1) q (r + 1)) as [-> ->]; [lia|lia|].
           destruct (IHd (r + 1) Hin) as [[Hrx' Hry'] _].
           apply quad_adj; auto.
        -- (* last point of quadrant q, first point of quadrant q + 1 *)
           assert (Er : r = m - 1) by lia.
           destruct (Hdm (d + 1) (q + 1) 0) as [-> ->]; [lia|lia|].
           rewrite Er, IHe, IH0.
           assert (Hq3 : q < 3) by nia.
           assert (Hcases : q = 0 \/ q = 1 \/ q = 2) by lia.
           unfold adj.
           destruct Hcases as [E|[E|E]]; rewrite E.
           ++ change (0 + 1) with 1. rewrite quad0, quad1. cbn [fst snd]. lia.
           ++ change (1 + 1) with 2. rewrite quad1, quad2. cbn [fst snd]. lia.
           ++ change (2 + 1) with 3. rewrite quad2, quad3. cbn [fst snd]. lia.
Qed.

Definition as_list (xy : N * N) : list N := [fst xy; snd xy].

Lemma adj_neighbours : forall a b, adj a b -> neighbours (as_list a) (as_list b).
Proof.
  intros [x y] [x' y'] H. unfold adj in H. cbn [fst snd] in H.
  unfold neighbours, as_list. cbn [fst snd length]. split; [reflexivity|].
  destruct H as [[Hx Hy]|[Hy Hx]].
  - exists 1%nat. split; [lia|]. split; [exact Hy|].
    intros [|[|j]] Hj; cbn [nth]; try congruence; now destruct j.
  - exists 0%nat. split; [lia|]. split; [exact Hx|].
    intros [|[|j]] Hj; cbn [nth]; try congruence; now destruct j.
Qed.

Theorem hilbert_ref_adjacent : forall p d, d + 1 < 4 ^ N.of_nat p ->
    neighbours (as_list (hilbert_ref p d)) (as_list (hilbert_ref p (d + 1))).
Proof.
  intros p d Hd. destruct (curve_ok_all p) as (_ & _ & H).
  apply adj_neighbours. apply H; lia.
Qed.

Theorem hilbert_ref_range : forall p d, d < 4 ^ N.of_nat p ->
    fst (hilbert_ref p d) < 2 ^ N.of_nat p /\ snd (hilbert_ref p d) < 2 ^ N.of_nat p.
Proof. intros p d Hd. destruct (curve_ok_all p) as (_ & _ & H). now apply H. Qed.

Theorem hilbert_ref_ends : forall p,
    hilbert_ref p 0 = (0, 0) /\ hilbert_ref p (4 ^ N.of_nat p - 1) = (2 ^ N.of_nat p - 1, 0).
Proof. intros p. destruct (curve_ok_all p) as (H0 & He & _). now split. Qed.

(* C07_adjacent_partial: at any order p at which the model agrees with the classical
   curve (proved for p <= 7: classical_upto; checked on samples of the real code for
   every p <= 31), consecutive distances are grid neighbours. *)
Theorem adjacent_if_classical : forall p,
    (forall h, distance p 2 h ->
               coordinate_from_distance p 2 h = [fst (hilbert_ref p h); snd (hilbert_ref p h)]) ->
    forall h, distance p 2 (h + 1) ->
              neighbours (coordinate_from_distance p 2 h) (coordinate_from_distance p 2 (h + 1)).
Proof.
  intros p Hcl h Hh. unfold distance in *.
  assert (H4 : 2 ^ N.of_nat (2 * p) = 4 ^ N.of_nat p).
  { change 4 with (2 ^ 2). rewrite <- N.pow_mul_r. f_equal. lia. }
  rewrite !Hcl by (unfold distance; lia).
  apply (hilbert_ref_adjacent p h). lia.
Qed.
