(* Non-vacuity of the convex-polygon theorem: a convex pentagon with a
   triangular hole, and points whose rightward ray runs exactly through
   vertices of the shell and of the hole. *)
From Coq Require Import ZArith List Bool Arith Reals Lra Lia.
From SP Require Import Model.Num Model.PointKernels Spec.PointShapeSpec Spec.Winding Spec.ConvexSpec
                       Proofs.ConvexPolygon Proofs.ConvexSubdivide Proofs.ConvexGlue.
Import ListNotations.

Ltac geo := unfold turn, orient, inj; cbn [fst snd negb]; lra.
Ltac all_edges := repeat (apply Forall_cons; [try geo|]); try apply Forall_nil.
Ltac some_edge := repeat first [ apply Exists_cons_hd; solve [geo] | apply Exists_cons_tl ].

Definition pent_values : list Z :=
  [0; 0; 6; 0; 8; 4; 4; 8; -2; 4; 0; 0;   2; 2; 3; 5; 5; 2; 2; 2]%Z.
Definition pent_offs : list nat := [0; 12; 20]%nat.
Definition pent_shell : list rpt := map inj [(0, 0); (6, 0); (8, 4); (4, 8); (-2, 4)]%Z.
Definition pent_hole : list rpt := map inj [(2, 2); (3, 5); (5, 2)]%Z.

Lemma pent_rings :
  map ring_of (rings_of pent_values pent_offs) = convex_polygon pent_shell [pent_hole].
Proof. reflexivity. Qed.

Lemma pent_shell_convex : convex_ring true pent_shell.
Proof.
  split; [cbn; lia|]. unfold pent_shell. cbn [map ordered_triples ordered_pairs].
  repeat split; all_edges.
Qed.

Lemma pent_hole_convex : convex_ring false pent_hole.
Proof.
  split; [cbn; lia|]. unfold pent_hole. cbn [map ordered_triples ordered_pairs].
  repeat split; all_edges.
Qed.

Lemma pent_hole_inside : ring_inside_convex true pent_shell pent_hole.
Proof.
  unfold ring_inside_convex, pent_shell, pent_hole. cbn [map close_ring app consec].
  repeat (apply Forall_cons; [cbn [fst snd]; all_edges|]). apply Forall_nil.
Qed.

(* (1,4): strictly inside the shell, strictly outside the hole.  Its ray runs
   through the hole, then exactly through the shell vertex (8,4); the shell
   vertex (-2,4) is level with it on the other side. *)
Lemma pent_in_1_4 :
  strictly_inside_convex true pent_shell (IZR 1, IZR 4) /\
  outside_holes false [pent_hole] (IZR 1, IZR 4).
Proof.
  split.
  - unfold strictly_inside_convex, pent_shell. cbn [map close_ring app consec]. all_edges.
  - apply Forall_cons; [|apply Forall_nil].
    unfold strictly_outside_convex, pent_hole. cbn [map close_ring app consec]. some_edge.
Qed.

(* (1,5): the ray runs exactly through the apex (3,5) of the hole *)
Lemma pent_in_1_5 :
  strictly_inside_convex true pent_shell (IZR 1, IZR 5) /\
  outside_holes false [pent_hole] (IZR 1, IZR 5).
Proof.
  split.
  - unfold strictly_inside_convex, pent_shell. cbn [map close_ring app consec]. all_edges.
  - apply Forall_cons; [|apply Forall_nil].
    unfold strictly_outside_convex, pent_hole. cbn [map close_ring app consec]. some_edge.
Qed.

(* (3,4): strictly inside the hole; the ray leaves through a hole edge and
   then runs exactly through the shell vertex (8,4) *)
Lemma pent_hole_3_4 :
  strictly_inside_convex true pent_shell (IZR 3, IZR 4) /\
  strictly_inside_convex false pent_hole (IZR 3, IZR 4).
Proof.
  split.
  - unfold strictly_inside_convex, pent_shell. cbn [map close_ring app consec]. all_edges.
  - unfold strictly_inside_convex, pent_hole. cbn [map close_ring app consec]. all_edges.
Qed.

(* (-3,4): strictly outside the shell; the ray runs through the shell vertex
   (-2,4), through the hole, and through the shell vertex (8,4) *)
Lemma pent_out_m3_4 : strictly_outside_convex true pent_shell (IZR (-3), IZR 4).
Proof.
  unfold strictly_outside_convex, pent_shell. cbn [map close_ring app consec]. some_edge.
Qed.

(* the hypotheses of polygon_convex_with_convex_holes hold of the pentagon,
   and its three conclusions give the code's answers *)
Theorem convex_pentagon_with_hole :
  map ring_of (rings_of pent_values pent_offs) = convex_polygon pent_shell [pent_hole] /\
  convex_ring true pent_shell /\ Forall (convex_ring (negb true)) [pent_hole] /\
  Forall (ring_inside_convex true pent_shell) [pent_hole] /\
  (strictly_inside_convex true pent_shell (IZR 1, IZR 4) /\
   outside_holes false [pent_hole] (IZR 1, IZR 4) /\
   point_intersects_polygon 1 4 pent_values pent_offs = true) /\
  (strictly_inside_convex true pent_shell (IZR 1, IZR 5) /\
   outside_holes false [pent_hole] (IZR 1, IZR 5) /\
   point_intersects_polygon 1 5 pent_values pent_offs = true) /\
  (strictly_inside_convex false pent_hole (IZR 3, IZR 4) /\
   point_intersects_polygon 3 4 pent_values pent_offs = false) /\
  (strictly_outside_convex true pent_shell (IZR (-3), IZR 4) /\
   point_intersects_polygon (-3) 4 pent_values pent_offs = false).
Proof.
  assert (Hh : Forall (convex_ring (negb true)) [pent_hole])
    by (apply Forall_cons; [exact pent_hole_convex | apply Forall_nil]).
  assert (Hi : Forall (ring_inside_convex true pent_shell) [pent_hole])
    by (apply Forall_cons; [exact pent_hole_inside | apply Forall_nil]).
  pose proof (fun x y => polygon_convex_with_convex_holes x y pent_values pent_offs true
                pent_shell [pent_hole] pent_rings pent_shell_convex Hh) as T. cbv zeta in T.
  split; [exact pent_rings|]. split; [exact pent_shell_convex|]. split; [exact Hh|].
  split; [exact Hi|]. split; [|split; [|split]].
  - destruct pent_in_1_4 as [H1 H2]. split; [exact H1|]. split; [exact H2|].
    exact (proj1 (T 1%Z 4%Z) H1 H2).
  - destruct pent_in_1_5 as [H1 H2]. split; [exact H1|]. split; [exact H2|].
    exact (proj1 (T 1%Z 5%Z) H1 H2).
  - destruct pent_hole_3_4 as [H1 H2]. split; [exact H2|].
    apply (proj2 (proj2 (T 3%Z 4%Z)) [] pent_hole [] eq_refl H1 H2); apply Forall_nil.
  - split; [exact pent_out_m3_4|].
    exact (proj1 (proj2 (T (-3)%Z 4%Z)) pent_out_m3_4 Hi).
Qed.

(* the same four answers by evaluating the model *)
Example pent_computed :
  map (fun p => point_intersects_polygon (fst p) (snd p) pent_values pent_offs)
      [(1, 4); (1, 5); (3, 4); (-3, 4)]%Z = [true; true; false; false].
Proof. vm_compute; reflexivity. Qed.

(* ---- an extra vertex on an edge, exactly at the height of the point ----
   the square (0,0) (4,0) (4,4) (0,4) with the vertex (4,2) inserted on its
   right-hand edge: the ray from (1,2) runs exactly through the inserted
   vertex *)
Definition sq_values : list Z := [0; 0; 4; 0; 4; 2; 4; 4; 0; 4; 0; 0]%Z.
Definition sq_offs : list nat := [0; 12]%nat.
Definition sq_shell : list rpt := map inj [(0, 0); (4, 0); (4, 4); (0, 4)]%Z.

Lemma sq_refines :
  Forall2 refines (map ring_of (rings_of sq_values sq_offs)) (convex_polygon sq_shell []).
Proof.
  apply Forall2_cons; [|apply Forall2_nil].
  apply (refines_insert [inj (0, 0)%Z] (inj (4, 0)%Z) (inj (4, 2)%Z) (inj (4, 4)%Z)
                        [inj (0, 4)%Z; inj (0, 0)%Z]); [|apply refines_refl].
  exists (/ 2)%R. unfold inj; cbn [fst snd]. repeat split; lra.
Qed.

Lemma sq_shell_convex : convex_ring true sq_shell.
Proof.
  split; [cbn; lia|]. unfold sq_shell. cbn [map ordered_triples ordered_pairs].
  repeat split; all_edges.
Qed.

Theorem square_with_extra_vertex :
  Forall2 refines (map ring_of (rings_of sq_values sq_offs)) (convex_polygon sq_shell []) /\
  convex_ring true sq_shell /\
  strictly_inside_convex true sq_shell (IZR 1, IZR 2) /\
  point_intersects_polygon 1 2 sq_values sq_offs = true.
Proof.
  assert (Hin : strictly_inside_convex true sq_shell (IZR 1, IZR 2)).
  { unfold strictly_inside_convex, sq_shell. cbn [map close_ring app consec]. all_edges. }
  split; [exact sq_refines|]. split; [exact sq_shell_convex|]. split; [exact Hin|].
  refine (proj1 (polygon_convex_refined 1 2 sq_values sq_offs true sq_shell []
                   sq_refines sq_shell_convex (Forall_nil _)) Hin _).
  apply Forall_nil.
Qed.

(* ---- a non-convex ring cut into two convex pieces ----
   The hexagon-like "L" (0,0) (4,0) (5,1) (4,2) (2,2) (2,4) (0,4), reflex at
   (2,2), cut along the diagonal (0,0)-(2,2) into the convex pentagon
   (0,0) (4,0) (5,1) (4,2) (2,2) and the convex quadrilateral
   (2,2) (2,4) (0,4) (0,0).
   (1,1) lies ON the diagonal; its ray runs exactly through the vertex (5,1).
   (1,2) lies strictly inside the quadrilateral; its ray runs exactly through
   the reflex vertex (2,2) and then along the horizontal edge (2,2)-(4,2). *)
Definition ell_values : list Z := [0; 0; 4; 0; 5; 1; 4; 2; 2; 2; 2; 4; 0; 4; 0; 0]%Z.
Definition ell_offs : list nat := [0; 16]%nat.
Definition ell_q1 : list rpt := map inj [(0, 0); (4, 0); (5, 1); (4, 2); (2, 2)]%Z.
Definition ell_q2 : list rpt := map inj [(2, 2); (2, 4); (0, 4); (0, 0)]%Z.
Definition ell_ring : list rpt := ring_of ell_values.

Lemma ell_rings : map ring_of (rings_of ell_values ell_offs) = ell_ring :: [].
Proof. reflexivity. Qed.

Lemma ell_decomposes : decomposes ell_ring (map close_ring [ell_q1; ell_q2]).
Proof.
  apply (dec_split (inj (0, 0)%Z) [inj (4, 0)%Z; inj (5, 1)%Z; inj (4, 2)%Z] (inj (2, 2)%Z)
                   [inj (2, 4)%Z; inj (0, 4)%Z] [close_ring ell_q1] [close_ring ell_q2]);
    apply dec_one.
Qed.

Lemma ell_convex : Forall (convex_ring true) [ell_q1; ell_q2].
Proof.
  apply Forall_cons; [|apply Forall_cons; [|apply Forall_nil]].
  - split; [cbn; lia|]. unfold ell_q1. cbn [map ordered_triples ordered_pairs].
    repeat split; all_edges.
  - split; [cbn; lia|]. unfold ell_q2. cbn [map ordered_triples ordered_pairs].
    repeat split; all_edges.
Qed.

Lemma ell_on_diagonal :
  on_edge_of_convex ell_q1 (inj (2, 2)%Z) (inj (0, 0)%Z) (IZR 1, IZR 1) /\
  on_edge_of_convex ell_q2 (inj (0, 0)%Z) (inj (2, 2)%Z) (IZR 1, IZR 1).
Proof.
  split.
  - exists [(inj (0, 0)%Z, inj (4, 0)%Z); (inj (4, 0)%Z, inj (5, 1)%Z);
            (inj (5, 1)%Z, inj (4, 2)%Z); (inj (4, 2)%Z, inj (2, 2)%Z)], [].
    split; [reflexivity|]. split.
    + exists (/ 2)%R. unfold inj; cbn [fst snd]. repeat split; lra.
    + cbn [app]. all_edges.
  - exists [(inj (2, 2)%Z, inj (2, 4)%Z); (inj (2, 4)%Z, inj (0, 4)%Z);
            (inj (0, 4)%Z, inj (0, 0)%Z)], [].
    split; [reflexivity|]. split.
    + exists (/ 2)%R. unfold inj; cbn [fst snd]. repeat split; lra.
    + cbn [app]. all_edges.
Qed.

Lemma ell_in_q2 :
  strictly_inside_convex true ell_q2 (IZR 1, IZR 2) /\ away (IZR 1, IZR 2) ([ell_q1] ++ []).
Proof.
  split.
  - unfold strictly_inside_convex, ell_q2. cbn [map close_ring app consec]. all_edges.
  - apply Forall_cons; [|apply Forall_nil]. exists 1%R, (-1)%R, 0%R. split.
    + unfold ell_q1. cbn [map close_ring app]. unfold inj; cbn [fst snd].
      repeat (apply Forall_cons; [cbn [fst snd]; lra|]). apply Forall_nil.
    + cbn [fst snd]. lra.
Qed.

Theorem ell_shape :
  map ring_of (rings_of ell_values ell_offs) = [ell_ring] /\
  decomposes ell_ring (map close_ring [ell_q1; ell_q2]) /\
  Forall (convex_ring true) [ell_q1; ell_q2] /\
  (on_edge_of_convex ell_q1 (inj (2, 2)%Z) (inj (0, 0)%Z) (IZR 1, IZR 1) /\
   on_edge_of_convex ell_q2 (inj (0, 0)%Z) (inj (2, 2)%Z) (IZR 1, IZR 1) /\
   point_intersects_polygon 1 1 ell_values ell_offs = true) /\
  (strictly_inside_convex true ell_q2 (IZR 1, IZR 2) /\ away (IZR 1, IZR 2) [ell_q1] /\
   point_intersects_polygon 1 2 ell_values ell_offs = true).
Proof.
  pose proof (fun x y => polygon_decomposed x y ell_values ell_offs ell_ring [] [ell_q1; ell_q2]
                ell_rings (or_introl ell_decomposes) ell_convex) as T. cbv zeta in T.
  split; [exact ell_rings|]. split; [exact ell_decomposes|]. split; [exact ell_convex|]. split.
  - destruct ell_on_diagonal as [H1 H2]. split; [exact H1|]. split; [exact H2|].
    destruct (T 1%Z 1%Z (Forall_nil _) (Forall_nil _)) as [_ [T2 _]].
    apply (T2 [] ell_q1 [] ell_q2 [] (inj (2, 2)%Z) (inj (0, 0)%Z) eq_refl H1 H2). apply Forall_nil.
  - destruct ell_in_q2 as [H1 H2]. split; [exact H1|]. split; [exact H2|].
    destruct (T 1%Z 2%Z (Forall_nil _) (Forall_nil _)) as [T1 _].
    exact (T1 [ell_q1] ell_q2 [] eq_refl H1 H2).
Qed.

Example ell_computed :
  map (fun p => point_intersects_polygon (fst p) (snd p) ell_values ell_offs)
      [(1, 1); (1, 2); (3, 3); (5, 2)]%Z = [true; true; false; false].
Proof. vm_compute; reflexivity. Qed.
