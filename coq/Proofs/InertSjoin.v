(* Lemma library for C17, part 7: sjoin — the pair table with inert rows on
   either side is the renumbered pair table without them (from the enumeration
   [pair_enum] that C05_pairs_exact establishes). *)
From Coq Require Import ZArith List Bool Arith Lia.
From SP Require Import Model.Num Model.Arrow Model.Bounds Model.PointKernels Model.PointShape
                       Model.Sjoin Model.Inert Spec.SjoinSpec Spec.InertSpec
                       Proofs.BoundsProofs Proofs.InertProofs.
Import ListNotations.
Local Open Scope nat_scope.

(* ================================================================== *)
(** * 1. the renumbering is a bijection onto the rows that stay          *)
(* ================================================================== *)
Section Renumber.
  Variable A : Type.
  Variable inert : A -> bool.
  Let N := fun x => negb (inert x).

  Lemma positions_from_nth : forall l k i d,
    i < length (filter N l) ->
    let j := nth i (positions_from N k l) 0 in
    k <= j < k + length l /\ nth (j - k) l d = nth i (filter N l) d.
  Proof.
    induction l as [|x t IH]; intros k i d Hi; [cbn in Hi; lia|].
    assert (HN : N x = negb (inert x)) by reflexivity.
    cbn [positions_from filter] in *. rewrite HN in *.
    destruct (inert x) eqn:E; cbn [negb] in *.
    - destruct (IH (S k) i d Hi) as [Hr Hv]. cbn zeta in *. cbn [length]. split; [lia|].
      set (j := nth i (positions_from N (S k) t) 0) in *.
      replace (j - k) with (S (j - S k)) by lia. exact Hv.
    - destruct i as [|i]; cbn [nth length] in *.
      + split; [lia|]. rewrite Nat.sub_diag. reflexivity.
      + destruct (IH (S k) i d ltac:(lia)) as [Hr Hv]. cbn zeta in *. split; [lia|].
        set (j := nth i (positions_from N (S k) t) 0) in *.
        replace (j - k) with (S (j - S k)) by lia. exact Hv.
  Qed.

  Lemma positions_from_onto : forall l k j d,
    k <= j < k + length l -> inert (nth (j - k) l d) = false ->
    exists i, i < length (filter N l) /\ nth i (positions_from N k l) 0 = j.
  Proof.
    induction l as [|x t IH]; intros k j d Hj Hn; [cbn in Hj; lia|].
    assert (HN : N x = negb (inert x)) by reflexivity.
    cbn [positions_from filter length] in *. rewrite HN.
    destruct (Nat.eq_dec j k) as [->|Hne].
    - rewrite Nat.sub_diag in Hn. cbn [nth] in Hn. rewrite Hn. cbn [negb length nth].
      exists 0. split; [lia | reflexivity].
    - replace (j - k) with (S (j - S k)) in Hn by lia. cbn [nth] in Hn.
      destruct (IH (S k) j d ltac:(lia) Hn) as (i & Hi & Hv).
      destruct (inert x); cbn [negb length nth].
      + exists i. split; assumption.
      + exists (S i). split; [lia | exact Hv].
  Qed.

  (* the i-th row that stays sits at position [renumber flags i] of the long list *)
  Lemma renumber_nth : forall l i d,
    i < length (filter N l) ->
    renumber (map inert l) i < length l /\
    nth (renumber (map inert l) i) l d = nth i (filter N l) d.
  Proof.
    intros l i d Hi. unfold renumber. rewrite kept_positions_map. unfold positions.
    destruct (positions_from_nth l 0 i d Hi) as [Hr Hv]. cbn zeta in *.
    rewrite Nat.sub_0_r in Hv. unfold N in *. split; [lia | exact Hv].
  Qed.

  (* every row that stays is hit *)
  Lemma renumber_onto : forall l j d,
    j < length l -> inert (nth j l d) = false ->
    exists i, i < length (filter N l) /\ renumber (map inert l) i = j.
  Proof.
    intros l j d Hj Hn. unfold renumber. rewrite kept_positions_map. unfold positions.
    apply (positions_from_onto l 0 j d); [lia | rewrite Nat.sub_0_r; exact Hn].
  Qed.
End Renumber.

(* ================================================================== *)
(** * 2. hitb depends on the decoded element only                        *)
(* ================================================================== *)

Definition hit_of (p : option (num * num)) (sh : shape) : bool :=
  match p with
  | Some (Some x, Some y) =>
      match point_intersects x y sh with Some (Value true) => true | _ => false end
  | _ => false
  end.

Lemma hitb_decode : forall a sh l, l < fa_len a ->
  hitb a sh l = hit_of (nth l (fa_decode a) None) sh.
Proof.
  intros a sh l Hl. unfold fa_decode. rewrite (nth_map_seq _ _ (fa_len a) l None Hl).
  unfold hitb, element_intersects.
  destruct (isna_at (fa_valid a) (fa_off a) l); [reflexivity|].
  unfold hit_of.
  destruct (nth (2 * (fa_off a + l)) (fa_vals a) None) as [x|]; [|reflexivity].
  destruct (nth (2 * (fa_off a + l) + 1) (fa_vals a) None) as [y|]; [|reflexivity].
  destruct (point_intersects x y sh) as [[[|]|]|]; reflexivity.
Qed.

Lemma hit_of_inert : forall p sh, inert_pt p = true -> hit_of p sh = false.
Proof.
  intros [[[x|] [y|]]|] sh H; try reflexivity; cbn in H; discriminate H.
Qed.

(* a right geometry is missing *)
Definition rmissing (o : option shape) : bool :=
  match o with None => true | Some _ => false end.

Lemma nth_error_nth_some : forall A (l : list (option A)) r v,
  nth_error l r = Some (Some v) <-> (r < length l /\ nth r l None = Some v).
Proof.
  intros A l r v. split.
  - intros H. split; [apply nth_error_Some; rewrite H; discriminate|].
    apply (nth_error_nth l r None) in H. exact H.
  - intros [Hr Hn]. rewrite (nth_error_nth' l None Hr). rewrite Hn. reflexivity.
Qed.

(* ================================================================== *)
(** * 3. the pair table with inert rows on either side                   *)
(* ================================================================== *)
Section Pairs.
  Variables (a a' : fixarr) (rgeoms rgeoms' : list (option shape)).
  Variables (ps ps' : list (nat * nat)).
  (* the left array and the right geometries with inert rows inserted anywhere *)
  Hypothesis HL : insert_inert inert_pt (fa_decode a) (fa_decode a').
  Hypothesis HR : insert_inert rmissing rgeoms rgeoms'.
  (* both pair tables are exact (C05_pairs_exact) *)
  Hypothesis Hps : pair_enum a rgeoms ps.
  Hypothesis Hps' : pair_enum a' rgeoms' ps'.

  Let renL := renumber (map inert_pt (fa_decode a')).
  Let renR := renumber (map rmissing rgeoms').

  Lemma sjoin_pairs_renumbered : forall l' r',
    In (l', r') ps' <-> exists l r, In (l, r) ps /\ l' = renL l /\ r' = renR r.
  Proof.
    intros l' r'. unfold insert_inert in HL, HR.
    destruct Hps as [_ Hen]. destruct Hps' as [_ Hen'].
    rewrite Hen'. split.
    - intros (Hl' & sh & Hr' & Hh).
      rewrite hitb_decode in Hh by exact Hl'.
      assert (Hni : inert_pt (nth l' (fa_decode a') None) = false).
      { destruct (inert_pt (nth l' (fa_decode a') None)) eqn:E; [|reflexivity].
        rewrite (hit_of_inert _ sh E) in Hh. discriminate Hh. }
      destruct (renumber_onto _ inert_pt (fa_decode a') l' None
                  ltac:(rewrite fa_decode_length; exact Hl') Hni) as (l & Hl & Hrl).
      destruct (renumber_nth _ inert_pt (fa_decode a') l None Hl) as [_ Hvl].
      rewrite HL in Hl, Hvl. rewrite fa_decode_length in Hl.
      apply nth_error_nth_some in Hr'. destruct Hr' as [Hr'lt Hr'v].
      assert (Hnr : rmissing (nth r' rgeoms' None) = false) by (rewrite Hr'v; reflexivity).
      destruct (renumber_onto _ rmissing rgeoms' r' None Hr'lt Hnr) as (r & Hr & Hrr).
      destruct (renumber_nth _ rmissing rgeoms' r None Hr) as [_ Hvr].
      rewrite HR in Hr, Hvr.
      exists l, r. split; [|split; [symmetry; exact Hrl | symmetry; exact Hrr]].
      apply Hen. split; [exact Hl|]. exists sh. split.
      + apply nth_error_nth_some. split; [exact Hr|].
        rewrite <- Hvr. fold renR. unfold renR. rewrite Hrr. exact Hr'v.
      + rewrite hitb_decode by exact Hl. rewrite <- Hvl. rewrite Hrl. exact Hh.
    - intros (l & r & Hin & -> & ->). apply Hen in Hin.
      destruct Hin as (Hl & sh & Hr & Hh).
      rewrite hitb_decode in Hh by exact Hl.
      assert (Hl2 : l < length (filter (fun x => negb (inert_pt x)) (fa_decode a')))
        by (rewrite HL, fa_decode_length; exact Hl).
      destruct (renumber_nth _ inert_pt (fa_decode a') l None Hl2) as [Hlt Hvl].
      rewrite HL in Hvl. rewrite fa_decode_length in Hlt.
      apply nth_error_nth_some in Hr. destruct Hr as [Hrlt Hrv].
      assert (Hr2 : r < length (filter (fun x => negb (rmissing x)) rgeoms'))
        by (rewrite HR; exact Hrlt).
      destruct (renumber_nth _ rmissing rgeoms' r None Hr2) as [Hrlt' Hvr].
      rewrite HR in Hvr.
      split; [exact Hlt|]. exists sh. split.
      + apply nth_error_nth_some. split; [exact Hrlt'|]. unfold renR. rewrite Hvr. exact Hrv.
      + rewrite hitb_decode by exact Hlt. unfold renL. rewrite Hvl. exact Hh.
  Qed.
End Pairs.
