(* C01 for points and multipoints: exact characterisation, any box. *)
From Coq Require Import ZArith List Bool Arith Lia ZifyBool.
From SP Require Import Model.Num Model.Arrow Model.Bounds Model.PointKernels
                       Model.Intersect Spec.BoundsSpec Spec.IntersectSpec Proofs.IntersectBase.
Import ListNotations.

(* ---------------------------------------------------------------- offsets of a wf array *)
Lemma length_slice {A} (s e : nat) (l : list A) :
  length (slice s e l) = Nat.min (e - s) (length l - s).
Proof. unfold slice. now rewrite firstn_length, skipn_length. Qed.

Lemma length_fold_getn : forall rest (o0 : list nat),
  length (fold_left (fun flat offs => map (getn offs) flat) rest o0) = length o0.
Proof.
  induction rest as [|o rest IH]; intro o0; simpl; [reflexivity|].
  now rewrite IH, map_length.
Qed.

Lemma wf_first_level : forall a, wf_listarr a = true ->
  exists o rest, la_offs a = o :: rest /\ (la_off a + la_len a < length o)%nat.
Proof.
  intros a H. unfold wf_listarr in H. destruct (la_offs a) as [|o rest] eqn:E; [discriminate|].
  exists o, rest. split; [reflexivity|].
  apply andb_prop in H. destruct H as [H _]. simpl in H.
  apply andb_prop in H. destruct H as [H _]. apply andb_prop in H. destruct H as [H _].
  now apply Nat.ltb_lt in H.
Qed.

Lemma length_outer_offsets : forall a, wf_listarr a = true ->
  length (buffer_outer_offsets a) = S (la_len a).
Proof.
  intros a H. destruct (wf_first_level a H) as (o & rest & E & L).
  unfold buffer_outer_offsets, buffer_offsets. rewrite E.
  rewrite length_fold_getn, length_slice. lia.
Qed.

Lemma length_first_offsets : forall a o0 rest, wf_listarr a = true ->
  buffer_offsets a = o0 :: rest -> length o0 = S (la_len a).
Proof.
  intros a o0 rest H E. destruct (wf_first_level a H) as (o & rest' & E' & L).
  unfold buffer_offsets in E. rewrite E' in E. inversion E; subst.
  rewrite length_slice. lia.
Qed.

(* reading the whole-array result at position i *)
Lemma nth_map_opairs (K : nat * nat -> bool) : forall oo i, (S i < length oo)%nat ->
  nth i (map K (combine (removelast oo) (tl oo))) false = K (getn oo i, getn oo (S i)).
Proof.
  intros oo i H. rewrite combine_removelast_tl.
  rewrite (nth_indep _ false (K (0%nat, 0%nat))) by (rewrite map_length, length_opairs; lia).
  rewrite map_nth, nth_opairs by assumption. reflexivity.
Qed.

Lemma nth_map_seq {B} (f : nat -> B) : forall n i d, (i < n)%nat ->
  nth i (map f (seq 0 n)) d = f i.
Proof.
  intros n i d H. rewrite (nth_indep _ d (f 0%nat)) by (now rewrite map_length, seq_length).
  now rewrite map_nth, seq_nth.
Qed.

(* ---------------------------------------------------------------- the closed tests *)
Open Scope Z_scope.

Lemma in_rect_spec : forall x0 y0 x1 y1 p,
  in_rect x0 y0 x1 y1 p = true <-> (x0 <= fst p <= x1 /\ y0 <= snd p <= y1).
Proof. intros x0 y0 x1 y1 [x y]. unfold in_rect. simpl. lia. Qed.

Lemma point_test_spec : forall b p,
  point_test b p = true <-> exists q, p = Some q /\ zbox_has b q.
Proof.
  intros [[[x0 y0] x1] y1] p. unfold point_test. rewrite orient_box_spec.
  destruct p as [[x y]|].
  - split.
    + intro H. exists (x, y). split; [reflexivity|]. unfold zbox_has. simpl. lia.
    + intros (q & E & H). inversion E; subst. unfold zbox_has in H. simpl in H. lia.
  - split; [discriminate|]. intros (q & E & _). discriminate.
Qed.

Lemma perform_multipoint_spec : forall x0 y0 x1 y1 vals s e,
  perform_multipoint x0 y0 x1 y1 vals s e = true <->
  exists p, In p (zpairs (slice s e vals)) /\ (x0 <= fst p <= x1 /\ y0 <= snd p <= y1).
Proof.
  intros. unfold perform_multipoint. rewrite existsb_exists.
  split; intros (p & Hin & H); exists p; (split; [assumption|]); now apply in_rect_spec.
Qed.

Lemma multipoint_kernel_spec : forall b vals s e,
  multipoint_kernel b vals (s, e) = true <->
  exists p, In p (zpairs (slice s e vals)) /\ zbox_has b p.
Proof.
  intros [[[x0 y0] x1] y1] vals s e. unfold multipoint_kernel. rewrite orient_box_spec.
  rewrite perform_multipoint_spec. unfold zbox_has. reflexivity.
Qed.

(* ---------------------------------------------------------------- MultiPointArray *)
Theorem multipoint_array_correct : forall a b r,
  multipoint_array a b None = Some r ->
  exists vals, finite_vals (buffer_values a) = Some vals /\
  length r = la_len a /\
  forall i, (i < la_len a)%nat ->
    (nth i r false = true <->
     exists p, In p (zpairs (elem_coords a vals i)) /\ zbox_has b p).
Proof.
  intros a b r H. unfold multipoint_array in H.
  destruct (wf_listarr a) eqn:W; cbn [negb] in H; [|discriminate].
  destruct (finite_vals (buffer_values a)) as [vals|]; [|discriminate].
  rewrite starts_stops_none in H. inversion H; subst; clear H.
  exists vals. split; [reflexivity|].
  rewrite multipoints_as_map. pose proof (length_outer_offsets a W) as L.
  split.
  - rewrite map_length, combine_length, length_removelast, length_tl. lia.
  - intros i Hi. rewrite nth_map_opairs by lia. apply multipoint_kernel_spec.
Qed.

(* a missing element (validity bit clear; its slot spans an empty range, which
   is what pyarrow produces and the harness asserts) and an empty element
   are never reported *)
Lemma zpairs_slice_empty : forall (vals : list Z) s, zpairs (slice s s vals) = [].
Proof. intros. unfold slice. now rewrite Nat.sub_diag. Qed.

Theorem multipoint_array_empty : forall a b r vals i,
  multipoint_array a b None = Some r ->
  finite_vals (buffer_values a) = Some vals -> (i < la_len a)%nat ->
  elem_coords a vals i = [] -> nth i r false = false.
Proof.
  intros a b r vals i H F Hi E.
  destruct (multipoint_array_correct a b r H) as (vals' & F' & _ & Hc).
  rewrite F in F'. inversion F'; subst vals'.
  destruct (nth i r false) eqn:N; [|reflexivity].
  apply (Hc i Hi) in N. destruct N as (p & Hin & _). rewrite E in Hin. destruct Hin.
Qed.

Lemma nulls_empty_at : forall a i, nulls_empty a = true -> (i < la_len a)%nat ->
  isna_at (la_valid a) (la_off a) i = true ->
  getn (buffer_outer_offsets a) i = getn (buffer_outer_offsets a) (S i).
Proof.
  intros a i H Hi Hna. unfold nulls_empty in H. rewrite forallb_forall in H.
  specialize (H i). rewrite in_seq in H. specialize (H ltac:(lia)).
  rewrite Hna in H. simpl in H. now apply Nat.eqb_eq in H.
Qed.

Theorem multipoint_array_missing : forall a b r i,
  multipoint_array a b None = Some r -> nulls_empty a = true -> (i < la_len a)%nat ->
  isna_at (la_valid a) (la_off a) i = true -> nth i r false = false.
Proof.
  intros a b r i H Hn Hi Hna.
  destruct (multipoint_array_correct a b r H) as (vals & F & _ & _).
  apply (multipoint_array_empty a b r vals i H F Hi).
  unfold elem_coords. rewrite (nulls_empty_at a i Hn Hi Hna).
  unfold slice. now rewrite Nat.sub_diag.
Qed.

(* ---------------------------------------------------------------- PointArray *)
Lemma all_some_nth {A} : forall (l : list (option A)) r, all_some l = Some r ->
  length r = length l /\ forall i d, (i < length l)%nat -> nth i l None = Some (nth i r d).
Proof.
  induction l as [|[v|] l IH]; intros r H; simpl in H.
  - inversion H; subst. split; [reflexivity|]. intros i d Hi. simpl in Hi. lia.
  - destruct (all_some l) as [r'|]; [|discriminate]. inversion H; subst.
    destruct (IH r' eq_refl) as [L N]. split; [simpl; now rewrite L|].
    intros [|i] d Hi; [reflexivity|]. simpl. apply N. simpl in Hi. lia.
  - discriminate.
Qed.

Theorem point_array_correct : forall a b r,
  point_array a b None = Some r ->
  length r = fa_len a /\
  forall i, (i < fa_len a)%nat ->
    (nth i r false = true <->
     exists x y, point_slot a i = Some (Some (x, y)) /\ zbox_has b (x, y)).
Proof.
  intros a b r H. unfold point_array in H.
  destruct (wf_fixarr a) eqn:W; cbn [negb] in H; [|discriminate].
  destruct (all_some _) as [slots|] eqn:AS; [|discriminate].
  simpl in H. inversion H; subst; clear H.
  destruct (all_some_nth _ _ AS) as [L N]. rewrite map_length, seq_length in L.
  split; [now rewrite map_length|].
  intros i Hi.
  rewrite <- (point_test_none b) at 1. rewrite map_nth.
  specialize (N i None). rewrite map_length, seq_length in N. specialize (N Hi).
  rewrite nth_map_seq in N by assumption.
  rewrite point_test_spec. rewrite N. split.
  - intros ([x y] & E & Hb). exists x, y. rewrite E. split; [reflexivity | assumption].
  - intros (x & y & E & Hb). exists (x, y). inversion E as [E']. split; [exact E' | assumption].
Qed.

Theorem point_array_missing : forall a b r i,
  point_array a b None = Some r -> (i < fa_len a)%nat ->
  isna_at (fa_valid a) (fa_off a) i = true -> nth i r false = false.
Proof.
  intros a b r i H Hi Hna. destruct (point_array_correct a b r H) as [_ Hc].
  destruct (nth i r false) eqn:N; [|reflexivity].
  apply (Hc i Hi) in N. destruct N as (x & y & E & _).
  unfold point_slot in E. rewrite Hna in E. discriminate.
Qed.

(* the slot read by the model is the decoded element of Model/Arrow.v *)
Lemma nth_firstn_lt {A} : forall n (l : list A) i d, (i < n)%nat ->
  nth i (firstn n l) d = nth i l d.
Proof.
  induction n as [|n IH]; intros l i d H; [lia|].
  destruct l as [|a l]; [now destruct i|]. destruct i as [|i]; [reflexivity|].
  simpl. apply IH. lia.
Qed.

Lemma nth_skipn_add {A} : forall s (l : list A) i d, nth i (skipn s l) d = nth (s + i) l d.
Proof.
  induction s as [|s IH]; intros l i d; [reflexivity|].
  destruct l as [|a l]; [now destruct i|]. simpl. apply IH.
Qed.

Lemma nth_slice {A} : forall (l : list A) s e i d, (s + i < e)%nat ->
  nth i (slice s e l) d = nth (s + i) l d.
Proof.
  intros l s e i d H1. unfold slice.
  rewrite nth_firstn_lt by lia. apply nth_skipn_add.
Qed.

Theorem point_slot_decode : forall a i, wf_fixarr a = true -> (i < fa_len a)%nat ->
  forall x y, point_slot a i = Some (Some (x, y)) <->
              nth i (fa_decode a) None = Some (Some x, Some y).
Proof.
  intros a i W Hi x y. unfold wf_fixarr in W. apply andb_prop in W. destruct W as [W _].
  apply Nat.leb_le in W.
  unfold point_slot, fa_decode.
  rewrite nth_map_seq by assumption.
  destruct (isna_at (fa_valid a) (fa_off a) i); [split; discriminate|].
  unfold fa_flat_values. destruct (Nat.eqb_spec (fa_len a) 0); [lia|].
  rewrite !nth_slice by lia.
  replace (2 * fa_off a + 2 * i)%nat with (2 * (fa_off a + i))%nat by lia.
  replace (2 * fa_off a + (2 * i + 1))%nat with (2 * (fa_off a + i) + 1)%nat by lia.
  destruct (nth (2 * (fa_off a + i)) (fa_vals a) None) as [vx|],
           (nth (2 * (fa_off a + i) + 1) (fa_vals a) None) as [vy|];
    split; intro E; inversion E; subst; reflexivity.
Qed.
