(* Alignment of bounds rows with part files: DaskGeoDataFrame.to_parquet
   (part.j.parquet <-> row j, through the JSON round trip and the natural sort of
   a directory listing) and pack_partitions_to_parquet (non-empty output
   partitions renamed to part.0 .. part.(m-1), their bounds collected in the
   same order). *)
From Coq Require Import ZArith NArith Arith List Bool Ascii String Lia Permutation.
From SP Require Import Model.Num Model.Arrow Model.Bounds Model.NatSort Model.MetaCodec
  Proofs.NatSortProofs Proofs.MetaCodecProofs.
Import ListNotations.
Local Open Scope nat_scope.

(* ---------- to_parquet_dask ---------- *)

(* bs = the extents of partitions 0..n-1 (DaskGeoSeries.partition_bounds); Dask
   writes partition j to part.j.parquet; whatever order the directory is listed
   in, the j-th piece loaded is part.j.parquet and the j-th row loaded is bs[j] *)
Theorem to_parquet_alignment : forall dir (bs : list bbox) listing,
  Permutation listing (seq 0 (List.length bs)) ->
  sort_pieces (map (fun i => part_path dir (N.of_nat i)) listing) =
    map (fun i => part_path dir (N.of_nat i)) (seq 0 (List.length bs)) /\
  load (dump bs) = Some bs.
Proof.
  intros dir bs listing Hp. split; [now apply sort_parts | apply load_dump].
Qed.

(* ---------- pack_partitions_to_parquet ---------- *)

Definition somes {A} (l : list (option A)) : list A :=
  flat_map (fun o => match o with Some i => [i] | None => [] end) l.

Definition getl (col : string) (m : colbounds) : list bbox :=
  match cb_get col m with Some r => r | None => [] end.

(* the bounds an output partition reports for a column *)
Definition col_in (col : string) (tb : list (string * bbox)) : list bbox :=
  map snd (filter (fun cb => String.eqb col (fst cb)) tb).

Lemma getl_append : forall col c v acc,
  getl col (cb_append c v acc) = if String.eqb col c then getl col acc ++ v else getl col acc.
Proof.
  intros col c v acc. unfold getl. induction acc as [|[c' v'] acc IH]; cbn.
  - destruct (String.eqb col c); reflexivity.
  - destruct (String.eqb c c') eqn:E; cbn.
    + apply String.eqb_eq in E. subst c'. destruct (String.eqb col c); reflexivity.
    + destruct (String.eqb col c') eqn:E'; [|exact IH].
      apply String.eqb_eq in E'. subst c'.
      rewrite String.eqb_sym in E. now rewrite E.
Qed.

Lemma getl_fold_tb : forall col tb acc,
  getl col (fold_left (fun acc' '(c, b) => cb_append c [b] acc') tb acc) =
  getl col acc ++ col_in col tb.
Proof.
  intros col tb. induction tb as [|[c b] tb IH]; intros acc; cbn.
  - now rewrite app_nil_r.
  - rewrite IH, getl_append. unfold col_in. cbn.
    destruct (String.eqb col c); cbn; [now rewrite <- app_assoc | reflexivity].
Qed.

Lemma getl_fold_infos : forall {K C} col (kept : list (K * (C * list (string * bbox)))) acc,
  getl col (fold_left (fun acc '(_, (_, tb)) =>
                         fold_left (fun acc' '(c, b) => cb_append c [b] acc') tb acc) kept acc) =
  getl col acc ++ flat_map (fun k => col_in col (snd (snd k))) kept.
Proof.
  intros K C col kept. induction kept as [|[p [c tb]] kept IH]; intros acc; cbn.
  - now rewrite app_nil_r.
  - rewrite IH, getl_fold_tb, <- app_assoc. reflexivity.
Qed.

Lemma kept_snd : forall {A} (ps : list string) (wi : list (option A)),
  List.length ps = List.length wi ->
  map snd (flat_map (fun '(p, w) => match w with Some i => [(p, i)] | None => [] end)
                    (combine ps wi)) = somes wi.
Proof.
  induction ps as [|p ps IH]; intros [|w wi] H; cbn in *; try reflexivity; try discriminate.
  destruct w; cbn; rewrite IH by lia; reflexivity.
Qed.

Lemma firstn_seq' : forall m n s, m <= n -> firstn m (seq s n) = seq s m.
Proof.
  induction m as [|m IH]; intros n s H; [reflexivity|].
  destruct n; [lia|]. cbn. f_equal. apply IH. lia.
Qed.

Lemma somes_length : forall {A} (l : list (option A)), List.length (somes l) <= List.length l.
Proof.
  unfold somes. induction l as [|[a|] l IH]; cbn in *; lia.
Qed.

Theorem pack_alignment : forall {C} dir (wi : list (option (C * list (string * bbox)))),
  let '(files, all_bounds) := pack_layout dir wi in
  let m := List.length (somes wi) in
  (* the files of the dataset are part.0 .. part.(m-1) ... *)
  map (fun f => snd (fst f)) files = map (fun k => part_path dir (N.of_nat k)) (seq 0 m) /\
  (* ... holding the non-empty output partitions in their order ... *)
  map snd files = map fst (somes wi) /\
  (* ... and the bounds recorded for a column are theirs, in the same order *)
  forall col, getl col all_bounds = flat_map (fun i => col_in col (snd i)) (somes wi).
Proof.
  intros C dir wi. unfold pack_layout.
  set (paths := map (fun k => part_path dir (N.of_nat k)) (seq 0 (List.length wi))).
  set (kept := flat_map (fun '(p, w) => match w with Some i => [(p, i)] | None => [] end)
                        (combine paths wi)).
  assert (Hpl : List.length paths = List.length wi)
    by (unfold paths; now rewrite map_length, seq_length).
  assert (Hks : map snd kept = somes wi) by (apply kept_snd; exact Hpl).
  assert (Hkl : List.length kept = List.length (somes wi))
    by (now rewrite <- Hks, map_length).
  assert (Hout : firstn (List.length kept) paths =
                 map (fun k => part_path dir (N.of_nat k)) (seq 0 (List.length (somes wi)))).
  { unfold paths. rewrite firstn_map, Hkl, firstn_seq' by apply somes_length. reflexivity. }
  rewrite Hout.
  set (outs := map (fun k => part_path dir (N.of_nat k)) (seq 0 (List.length (somes wi)))).
  assert (Hol : List.length outs = List.length kept)
    by (unfold outs; now rewrite map_length, seq_length).
  split; [|split].
  - rewrite map_map.
    transitivity (map snd (combine kept outs)).
    + apply map_ext. intros [[p1 [c tb]] p2]. reflexivity.
    + apply map_snd_combine. lia.
  - rewrite map_map. rewrite <- Hks, map_map.
    transitivity (map (fun k => fst (snd k)) (map fst (combine kept outs))).
    + rewrite map_map. apply map_ext. intros [[p1 [c tb]] p2]. reflexivity.
    + rewrite map_fst_combine by lia. reflexivity.
  - intros col. rewrite getl_fold_infos. cbn [getl cb_get app].
    rewrite <- Hks, flat_map_concat_map, flat_map_concat_map, map_map. reflexivity.
Qed.

(* when every output partition reports exactly one box for the column (the
   case of the real writer: one total_bounds per geometry column) the recorded
   rows are those boxes, one per file *)
Corollary pack_alignment_rows : forall {C} dir (wi : list (option (C * list (string * bbox)))) col
                                      (f : C * list (string * bbox) -> bbox),
  (forall i, In i (somes wi) -> col_in col (snd i) = [f i]) ->
  getl col (snd (pack_layout dir wi)) = map f (somes wi).
Proof.
  intros C dir wi col f H.
  pose proof (pack_alignment dir wi) as P. destruct (pack_layout dir wi) as [files ab].
  destruct P as (_ & _ & P). cbn [snd]. rewrite P. clear P.
  revert H. generalize (somes wi). intros l. induction l as [|i l IH]; intros H; [reflexivity|].
  cbn [flat_map map]. rewrite H by now left. cbn [app]. f_equal.
  apply IH. intros j Hj. apply H. now right.
Qed.
