(* List and bit-vector lemmas used by the proofs about Model/Hilbert.v. *)
From Coq Require Import NArith List Bool Arith Lia.
From SP Require Import Model.Hilbert.
Import ListNotations.
Local Open Scope N_scope.

(* ---- getc / setc -------------------------------------------------------- *)
Lemma setc_length : forall c i v, length (setc c i v) = length c.
Proof. induction c as [|x c IH]; intros [|i] v; simpl; auto. Qed.

Lemma getc_setc_same : forall c i v, (i < length c)%nat -> getc (setc c i v) i = v.
Proof.
  unfold getc. induction c as [|x c IH]; intros [|i] v H; simpl in *; try lia; auto.
  apply IH. lia.
Qed.

Lemma getc_setc_other : forall c i j v, i <> j -> getc (setc c i v) j = getc c j.
Proof.
  unfold getc. induction c as [|x c IH]; intros [|i] [|j] v H; simpl; auto; try congruence.
Qed.

Lemma setc_setc_same : forall c i v w, setc (setc c i v) i w = setc c i w.
Proof. induction c as [|x c IH]; intros [|i] v w; simpl; auto. now rewrite IH. Qed.

Lemma setc_getc_id : forall c i, setc c i (getc c i) = c.
Proof.
  unfold getc. induction c as [|x c IH]; intros [|i]; simpl; auto. now rewrite IH.
Qed.

Lemma setc_app_mid : forall pre a rest v, setc (pre ++ a :: rest) (length pre) v = pre ++ v :: rest.
Proof. induction pre as [|x pre IH]; intros; simpl; auto. now rewrite IH. Qed.

Lemma getc_app_mid : forall pre a rest, getc (pre ++ a :: rest) (length pre) = a.
Proof. unfold getc. induction pre as [|x pre IH]; intros; simpl; auto. Qed.

Lemma Forall_setc : forall (P : N -> Prop) c i v, Forall P c -> P v -> Forall P (setc c i v).
Proof.
  induction c as [|x c IH]; intros [|i] v Hc Hv; simpl; auto;
    inversion Hc; subst; constructor; auto.
Qed.

Lemma Forall_getc : forall (P : N -> Prop) c i, P 0 -> Forall P c -> P (getc c i).
Proof.
  unfold getc. induction c as [|x c IH]; intros [|i] H0 Hc; simpl; auto;
    inversion Hc; subst; auto.
Qed.

(* ---- "fits in p bits" --------------------------------------------------- *)
Definition fits (p : N) (x : N) : Prop := N.shiftr x p = 0.

Lemma fits_lt : forall p x, fits p x <-> x < 2 ^ p.
Proof.
  intros p x. unfold fits. rewrite N.shiftr_div_pow2.
  assert (2 ^ p <> 0) by (apply N.pow_nonzero; lia).
  split; intro H0.
  - apply N.div_small_iff; assumption.
  - apply N.div_small_iff; assumption.
Qed.

Lemma fits_0 : forall p, fits p 0.
Proof. intros. unfold fits. apply N.shiftr_0_l. Qed.

Lemma fits_lxor : forall p x y, fits p x -> fits p y -> fits p (N.lxor x y).
Proof. unfold fits. intros p x y Hx Hy. now rewrite N.shiftr_lxor, Hx, Hy. Qed.

Lemma fits_land_r : forall p x y, fits p y -> fits p (N.land x y).
Proof. unfold fits. intros p x y Hy. now rewrite N.shiftr_land, Hy, N.land_0_r. Qed.

Lemma fits_shiftr : forall p x k, fits p x -> fits p (N.shiftr x k).
Proof.
  unfold fits. intros p x k H. rewrite N.shiftr_shiftr, N.add_comm, <- N.shiftr_shiftr, H.
  apply N.shiftr_0_l.
Qed.

Lemma fits_mono : forall p q x, p <= q -> fits p x -> fits q x.
Proof.
  intros p q x Hpq. rewrite !fits_lt. intro H.
  eapply N.lt_le_trans; [exact H|]. apply N.pow_le_mono_r; lia.
Qed.

Lemma fits_ones : forall k p, k <= p -> fits p (2 ^ k - 1).
Proof.
  intros k p H. apply fits_lt.
  assert (2 ^ k <= 2 ^ p) by (apply N.pow_le_mono_r; lia).
  assert (0 < 2 ^ k) by (apply N.neq_0_lt_0, N.pow_nonzero; lia). lia.
Qed.

(* ---- masks: Q = 2^k, P = Q - 1 ----------------------------------------- *)
Lemma ones_land_pow2 : forall k, N.land (2 ^ k - 1) (2 ^ k) = 0.
Proof.
  intros k. apply N.bits_inj. intro m. rewrite N.land_spec, N.bits_0.
  replace (2 ^ k - 1) with (N.ones k) by (rewrite N.ones_equiv; lia).
  rewrite N.pow2_bits_eqb.
  destruct (N.eqb_spec k m) as [->|Hne].
  - rewrite N.ones_spec_high by lia. reflexivity.
  - apply andb_false_r.
Qed.

Lemma land_lxor_masked : forall a m Q, N.land m Q = 0 -> N.land (N.lxor a m) Q = N.land a Q.
Proof.
  intros a m Q H. apply N.bits_inj. intro i.
  assert (Hi : N.testbit (N.land m Q) i = false) by (rewrite H; apply N.bits_0).
  rewrite N.land_spec in Hi. rewrite !N.land_spec, N.lxor_spec.
  destruct (N.testbit a i), (N.testbit m i), (N.testbit Q i); simpl in *; congruence.
Qed.

Lemma land_land_masked : forall x P Q, N.land P Q = 0 -> N.land (N.land x P) Q = 0.
Proof. intros. now rewrite <- N.land_assoc, H, N.land_0_r. Qed.

Lemma lxor_cancel_r : forall a t, N.lxor (N.lxor a t) t = a.
Proof. intros. now rewrite N.lxor_assoc, N.lxor_nilpotent, N.lxor_0_r. Qed.

Lemma lxor_both : forall a b t, N.lxor (N.lxor a t) (N.lxor b t) = N.lxor a b.
Proof.
  intros. rewrite N.lxor_assoc, (N.lxor_comm t), N.lxor_assoc, N.lxor_nilpotent, N.lxor_0_r.
  reflexivity.
Qed.

(* ---- folds -------------------------------------------------------------- *)
(* a pass of steps followed by the inverse steps in the opposite order *)
Lemma fold_cancel : forall {A} (g g' : A -> nat -> A) (Inv : A -> Prop) (ks : list nat),
    (forall a k, Inv a -> In k ks -> g' (g a k) k = a /\ Inv (g a k)) ->
    forall a, Inv a -> fold_left g' (rev ks) (fold_left g ks a) = a.
Proof.
  intros A g g' Inv ks. induction ks as [|k r IH]; intros H a Ha; simpl.
  - reflexivity.
  - rewrite fold_left_app. simpl.
    destruct (H a k Ha (or_introl eq_refl)) as [Hk HI].
    rewrite IH; auto. intros b j Hb Hj. apply H; auto. now right.
Qed.

Lemma fold_inv : forall {A} (g : A -> nat -> A) (Inv : A -> Prop) (ks : list nat),
    (forall a k, Inv a -> In k ks -> Inv (g a k)) ->
    forall a, Inv a -> Inv (fold_left g ks a).
Proof.
  intros A g Inv ks. induction ks as [|k r IH]; intros H a Ha; simpl; auto.
  apply IH; [|apply H; auto; now left]. intros b j Hb Hj. apply H; auto. now right.
Qed.
