(* C04: the root box of the spatial index is total_bounds (finite
   coordinates), so that an omitted slice end means the same extent with and
   without an index. *)
From Coq Require Import ZArith List Bool Arith Lia ZifyBool Permutation.
From SP Require Import Model.Num Model.Arrow Model.Bounds Model.PointKernels
     Model.Intersect Model.Rtree Model.Cx.
From SP Require Import Spec.BoundsSpec Spec.Boxes Spec.IntersectSpec Spec.CxSpec.
From SP Require Import Proofs.BoundsProofs Proofs.RtreeLists Proofs.RtreeProofs
     Proofs.IntersectBase Proofs.IntersectBounds Proofs.IntersectPoints Proofs.IntersectPolygon
     Proofs.CxLists Proofs.CxProofs Proofs.CxKinds Proofs.CxBounds.
Import ListNotations.
Local Open Scope nat_scope.

(* ----------------------------------------------------- union of two boxes *)
(* NaN-ignoring min / max, shaped like col_nanmin / col_nanmax of Model/Rtree.v *)
Definition mn (x y : num) : num :=
  match x, y with
  | None, m => m
  | Some a, None => Some a
  | Some a, Some m => Some (Z.min a m)
  end.
Definition mx (x y : num) : num :=
  match x, y with
  | None, m => m
  | Some a, None => Some a
  | Some a, Some m => Some (Z.max a m)
  end.
Definition bunion (p q : bbox) : bbox :=
  let '(a1, b1, c1, d1) := p in
  let '(a2, b2, c2, d2) := q in
  (mn a1 a2, mn b1 b2, mx c1 c2, mx d1 d2).

Lemma cols_fold : forall bs : list bbox,
  unpack4 (page_box 2 (map row_of_bbox bs)) = fold_right bunion nanbox bs.
Proof.
  induction bs as [|[[[a b] c] d] t IH]; [reflexivity|].
  cbn [fold_right]. rewrite <- IH. unfold unpack4, page_box. cbn. reflexivity.
Qed.

(* ------------------------------------------- the kernel box as a fold of pairs *)
Definition zb_of_pairs (ps : list pt) : bbox :=
  match ps with
  | [] => nanbox
  | (x, y) :: t =>
      let '(a, b, c, d) := zb_loop t x x y y in (Some a, Some c, Some b, Some d)
  end.

Lemma zbounds_pairs : forall seg, zbounds seg = zb_of_pairs (zpairs seg).
Proof.
  intros [|x [|y t]]; try reflexivity.
  unfold zbounds, total_bounds_interleaved. simpl map. cbn [tbi_loop omin omax zpairs zb_of_pairs].
  rewrite tbi_loop_some.
  destruct (zb_loop (zpairs t) x x y y) as [[[a b] c] d]. reflexivity.
Qed.

Lemma zb_loop_acc : forall t xm xM ym yM u U v V,
  zb_loop t (Z.min xm u) (Z.max xM U) (Z.min ym v) (Z.max yM V) =
  let '(a, b, c, d) := zb_loop t u U v V in
  (Z.min xm a, Z.max xM b, Z.min ym c, Z.max yM d).
Proof.
  induction t as [|[x y] t IH]; intros; [reflexivity|].
  cbn [zb_loop]. rewrite <- !Z.min_assoc, <- !Z.max_assoc. apply IH.
Qed.

Lemma zb_loop_app : forall t1 t2 xm xM ym yM,
  zb_loop (t1 ++ t2) xm xM ym yM =
  let '(a, b, c, d) := zb_loop t1 xm xM ym yM in zb_loop t2 a b c d.
Proof.
  induction t1 as [|[x y] t1 IH]; intros; [reflexivity|]. cbn [app zb_loop]. apply IH.
Qed.

Lemma zb_of_pairs_app : forall p1 p2,
  zb_of_pairs (p1 ++ p2) = bunion (zb_of_pairs p1) (zb_of_pairs p2).
Proof.
  intros [|[x y] t1] p2.
  - cbn [app zb_of_pairs]. destruct (zb_of_pairs p2) as [[[a b] c] d]. reflexivity.
  - cbn [app zb_of_pairs]. rewrite zb_loop_app.
    destruct (zb_loop t1 x x y y) as [[[a b] c] d].
    destruct p2 as [|[x2 y2] t2]; [reflexivity|].
    cbn [zb_loop zb_of_pairs].
    pose proof (zb_loop_acc t2 a b c d x2 x2 y2 y2) as H. rewrite H.
    destruct (zb_loop t2 x2 x2 y2 y2) as [[[a2 b2] c2] d2]. reflexivity.
Qed.

Lemma zbounds_app : forall l1 l2, Nat.even (length l1) = true ->
  zbounds (l1 ++ l2) = bunion (zbounds l1) (zbounds l2).
Proof.
  intros l1 l2 E. rewrite !zbounds_pairs, zpairs_app by exact E. apply zb_of_pairs_app.
Qed.

Lemma zbounds_concat : forall segs,
  Forall (fun r => Nat.even (length r) = true) segs ->
  zbounds (concat segs) = fold_right bunion nanbox (map zbounds segs).
Proof.
  induction segs as [|s t IH]; intros H; [reflexivity|].
  inversion H; subst. cbn [concat map fold_right].
  rewrite zbounds_app by assumption. now rewrite IH.
Qed.

(* a kernel box is all-NaN or all-finite: the index keeps it as it is *)
Lemma norm_zb : forall seg, norm_row (row_of_bbox (zbounds seg)) = row_of_bbox (zbounds seg).
Proof.
  intros seg. destruct (zpairs seg) as [|p ps] eqn:E.
  - rewrite (zbounds_nil seg E). reflexivity.
  - destruct (zbounds_cons seg p ps E) as (a & b & c & d & Eb & _). rewrite Eb. reflexivity.
Qed.

Lemma root_of_segs : forall segs keys ps,
  Forall (fun r => Nat.even (length r) = true) segs ->
  Permutation keys (seq 0 (length segs)) ->
  unpack4 (total_bounds (build 2 (map row_of_bbox (map zbounds segs)) keys ps))
  = zbounds (concat segs).
Proof.
  intros segs keys ps E P.
  rewrite C03_total_bounds_box.
  - rewrite zbounds_concat by exact E. rewrite <- cols_fold. f_equal. f_equal.
    rewrite !map_map. apply map_ext. intros seg. apply norm_zb.
  - lia.
  - apply Forall_forall. intros r Hr. rewrite map_map in Hr. apply in_map_iff in Hr.
    destruct Hr as [seg [<- _]]. destruct (zbounds seg) as [[[a b] c] d]. reflexivity.
  - now rewrite !map_length.
Qed.

(* --------------------------------------------------------------- list arrays *)
Lemma bounds_rings : forall (vals : list Z) offs,
  bounds_interleaved (map Some vals) offs = map zbounds (rings_of vals offs).
Proof.
  intros vals. induction offs as [|x [|y t] IH]; try reflexivity.
  change (bounds_interleaved (map Some vals) (x :: y :: t))
    with (total_bounds_interleaved (slice x y (map Some vals))
          :: bounds_interleaved (map Some vals) (y :: t)).
  change (rings_of vals (x :: y :: t)) with (slice x y vals :: rings_of vals (y :: t)).
  cbn [map]. rewrite IH. f_equal. unfold zbounds. now rewrite slice_map.
Qed.

Lemma length_rings : forall (vals : list Z) offs, length (rings_of vals offs) = length offs - 1.
Proof.
  intros vals. induction offs as [|x [|y t] IH]; try reflexivity.
  change (rings_of vals (x :: y :: t)) with (slice x y vals :: rings_of vals (y :: t)).
  cbn [length] in *. rewrite IH. lia.
Qed.

Lemma la_root_is_extent : forall a vals keys ps,
  wf_listarr a = true -> finite_vals (buffer_values a) = Some vals ->
  even_outer a = true ->
  Permutation keys (seq 0 (la_len a)) ->
  unpack4 (total_bounds (build 2 (map row_of_bbox (la_bounds a)) keys ps)) = la_total_bounds a.
Proof.
  intros a vals keys ps W F Ev P.
  destruct (wf_outer a W) as (L & M & B & R).
  set (oo := buffer_outer_offsets a) in *.
  pose proof (finite_vals_map _ _ F) as EV.
  assert (LV : length vals = length (la_vals a)).
  { unfold buffer_values in EV. rewrite EV. now rewrite map_length. }
  unfold la_bounds. fold oo. rewrite EV, bounds_rings.
  rewrite root_of_segs.
  - rewrite rings_concat by exact M.
    unfold la_total_bounds, flat_values. rewrite R. fold oo. rewrite EV, slice_map.
    unfold zbounds. f_equal. f_equal. f_equal.
    + destruct oo as [|h t]; [cbn in L; lia | reflexivity].
    + rewrite last_nth_pred, L. unfold getn. f_equal. lia.
  - apply rings_even; [exact M | exact Ev | lia].
  - rewrite length_rings, L. replace (la_len a + 1 - 1) with (la_len a) by lia. exact P.
Qed.

(* -------------------------------------------------------------- point arrays *)
Definition pt_seg (s : option pt) : list Z :=
  match s with None => [] | Some (x, y) => [x; y] end.

Lemma fa_root_is_extent : forall a slots keys ps,
  wf_fixarr a = true ->
  all_some (map (point_slot a) (seq 0 (fa_len a))) = Some slots ->
  Permutation keys (seq 0 (fa_len a)) ->
  unpack4 (total_bounds (build 2 (map row_of_bbox (fa_bounds a)) keys ps)) = fa_total_bounds a.
Proof.
  intros a slots keys ps W AS P.
  pose proof (slots_len a slots AS) as SL.
  (* the decoded elements, slot by slot *)
  assert (D : map point_coords (fa_decode a) = map (fun s => map Some (pt_seg s)) slots).
  { rewrite <- (map_nth_seq _ slots None), SL. unfold fa_decode. rewrite !map_map.
    apply map_ext_in. intros i Hi. apply in_seq in Hi.
    pose proof (slot_nth a slots AS i ltac:(lia)) as S.
    destruct (nth i slots None) as [[x y]|] eqn:E.
    - apply (point_slot_decode a i W ltac:(lia)) in S. unfold fa_decode in S.
      rewrite IntersectPoints.nth_map_seq in S by lia. rewrite S. reflexivity.
    - unfold point_slot in S.
      destruct (isna_at (fa_valid a) (fa_off a) i); [reflexivity|].
      destruct (nth (2 * i) (fa_flat_values a) None), (nth (2 * i + 1) (fa_flat_values a) None);
        discriminate S. }
  assert (Ev : Forall (fun r => Nat.even (length r) = true) (map pt_seg slots)).
  { apply Forall_forall. intros r Hr. apply in_map_iff in Hr. destruct Hr as [[[x y]|] [<- _]]; reflexivity. }
  assert (RB : fa_bounds a = map zbounds (map pt_seg slots)).
  { rewrite fa_bounds_rows by exact W.
    rewrite <- (map_map point_coords total_bounds_interleaved), D, !map_map.
    apply map_ext. intros s. reflexivity. }
  rewrite RB, root_of_segs; [|exact Ev|now rewrite map_length, SL].
  unfold fa_total_bounds. rewrite fa_valid_flat_coords by exact W.
  unfold fa_valid_coords. rewrite D. unfold zbounds. f_equal.
  rewrite concat_map, map_map. reflexivity.
Qed.

(* ------------------------------------------------------------------ every class *)
Definition g_even_outer (g : garr) : Prop :=
  match g with
  | GPoint _ => True
  | GMultiPoint a | GLine a | GMultiLine a | GPolygon a | GMultiPolygon a => even_outer a = true
  end.

Theorem root_is_extent : forall g keys ps,
  g_modelled g -> g_even_outer g ->
  Permutation keys (seq 0 (g_len g)) ->
  extent_of (build_sindex (new_obj g) keys ps) = g_total_bounds g.
Proof.
  intros g keys ps M E P. unfold extent_of. cbn [build_sindex new_obj go_sindex go_data].
  unfold sindex_build.
  destruct g as [a|a|a|a|a|a]; cbn [g_bounds g_total_bounds g_len] in *; cbn in M, E.
  - destruct M as [W [slots AS]]. eapply fa_root_is_extent; eassumption.
  - destruct M as [W [vals F]]. eapply la_root_is_extent; eassumption.
  - destruct M as [W [vals F]]. eapply la_root_is_extent; eassumption.
  - destruct M as [[W [vals F]] _]. eapply la_root_is_extent; eassumption.
  - destruct M as [[W [vals F]] _]. eapply la_root_is_extent; eassumption.
  - destruct M as [[W [vals F]] _]. eapply la_root_is_extent; eassumption.
Qed.

(* omitted ends included: with index = without index, for every (keys, page_size) *)
Theorem index_irrelevant_open_ends : forall g keys ps xs ys ex0 ey0 ex1 ey1,
  g_modelled g -> g_even_outer g ->
  Permutation keys (seq 0 (g_len g)) ->
  key_has_step xs = false -> key_has_step ys = false ->
  g_total_bounds g = (Some ex0, Some ey0, Some ex1, Some ey1) ->
  positive_box (spec_box xs ys (ex0, ey0, ex1, ey1)) ->
  cx_positions (build_sindex (new_obj g) keys ps) xs ys = cx_positions (new_obj g) xs ys.
Proof.
  intros g keys ps xs ys ex0 ey0 ex1 ey1 M E P Sx Sy ET Pos.
  eapply index_irrelevant_key; try eassumption.
  apply root_is_extent; assumption.
Qed.

(* the statement of C04 in one piece: for a container whose rows are aligned with
   a modelled geometry array with an extent, and a key denoting a box of positive
   width and height, .cx returns the intersecting rows in their original order,
   with any index configuration and without index *)
Theorem cx_headline : forall A g (rows : list A) keys ps xs ys ex0 ey0 ex1 ey1,
  g_modelled g -> g_even_outer g ->
  length rows = g_len g ->
  Permutation keys (seq 0 (g_len g)) ->
  key_has_step xs = false -> key_has_step ys = false ->
  g_total_bounds g = (Some ex0, Some ey0, Some ex1, Some ey1) ->
  positive_box (spec_box xs ys (ex0, ey0, ex1, ey1)) ->
  cx_rows (new_obj g) rows xs ys = Some (rows_spec g (spec_box xs ys (ex0, ey0, ex1, ey1)) rows) /\
  cx_rows (build_sindex (new_obj g) keys ps) rows xs ys
  = Some (rows_spec g (spec_box xs ys (ex0, ey0, ex1, ey1)) rows).
Proof.
  intros A g rows keys ps xs ys ex0 ey0 ex1 ey1 M E L P Sx Sy ET Pos.
  pose proof (selects_exact_noindex_key g xs ys ex0 ey0 ex1 ey1 M Sx Sy ET) as H0.
  split.
  - apply rows_travel; assumption.
  - apply rows_travel; [assumption|].
    rewrite (index_irrelevant_open_ends g keys ps xs ys ex0 ey0 ex1 ey1) by assumption.
    exact H0.
Qed.
