(* C06: elementwise operations commute with concatenation. *)
From Coq Require Import List.
From SP Require Import Model.Num Model.Bounds Model.DaskModel.
Import ListNotations.

(* [map_ops_concat]: bounds, area, length, intersects_bounds(box) are computed row by
   row (map_partitions of an elementwise function), hence computing them on the
   partitions and concatenating is computing them on the concatenated frame — for
   every list of partitions, empty ones included. *)
Lemma map_ops_concat_lemma : forall (R B : Type) (f : R -> B) (parts : list (list R)),
  concat (dask_map R f parts) = pandas_map R f (concat parts).
Proof.
  intros R B f parts. unfold dask_map, pandas_map. symmetry. apply concat_map.
Qed.
