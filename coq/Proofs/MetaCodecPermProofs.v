(* The document order of the JSON objects does not matter: any permutation of
   the entries of the four column objects loads to the frame that was dumped. *)
From Coq Require Import ZArith NArith Arith List Bool Ascii String Lia Sorted Permutation.
From SP Require Import Model.Num Model.Arrow Model.Bounds Model.NatSort Model.MetaCodec
  Proofs.NatSortProofs Proofs.MetaCodecProofs.
Import ListNotations.
Local Open Scope nat_scope.

Lemma lookup_in : forall e k v,
  NoDup (map fst e) -> In (k, v) e -> lookup k e = v.
Proof.
  induction e as [|[k' v'] e IH]; intros k v Hnd Hin; [destruct Hin|].
  cbn in *. inversion Hnd as [|? ? Hk Hnd']; subst.
  destruct Hin as [E|Hin].
  - injection E as -> ->. now rewrite String.eqb_refl.
  - destruct (String.eqb k k') eqn:E.
    + apply String.eqb_eq in E. subst k'. exfalso. apply Hk.
      apply in_map_iff. exists (k, v). auto.
    + now apply IH.
Qed.

Lemma lookup_absent : forall e k, ~ In k (map fst e) -> lookup k e = None.
Proof.
  induction e as [|[k' v'] e IH]; intros k H; [reflexivity|]. cbn in *.
  destruct (String.eqb k k') eqn:E.
  - apply String.eqb_eq in E. subst. tauto.
  - apply IH. tauto.
Qed.

Lemma lookup_perm : forall e e' k,
  Permutation e e' -> NoDup (map fst e) -> lookup k e = lookup k e'.
Proof.
  intros e e' k Hp Hnd.
  assert (Hnd' : NoDup (map fst e')) by (eapply Permutation_NoDup; [apply Permutation_map; exact Hp | exact Hnd]).
  destruct (in_dec string_dec k (map fst e)) as [Hin|Hout].
  - apply in_map_iff in Hin as ([k0 v] & E & Hin). cbn in E. subst k0.
    rewrite (lookup_in e k v Hnd Hin). symmetry. apply lookup_in; [assumption|].
    eapply Permutation_in; eauto.
  - rewrite (lookup_absent e k Hout). symmetry. apply lookup_absent.
    intros H. apply Hout. eapply Permutation_in; [symmetry; apply Permutation_map; exact Hp | exact H].
Qed.

Lemma dump_col_nodup : forall f bs, NoDup (map fst (dump_col f bs)).
Proof. intros. rewrite dump_col_keys. apply keys_NoDup. Qed.

Lemma parse_all_map : forall l,
  parse_all (map (fun i => dec (N.of_nat i)) l) = Some (map N.of_nat l).
Proof.
  induction l as [|i l IH]; cbn; [reflexivity|]. now rewrite parse_int_dec, IH.
Qed.

Theorem load_dump_perm : forall bs e0 e1 e2 e3,
  Permutation e0 (dump_col bx0 bs) -> Permutation e1 (dump_col by0 bs) ->
  Permutation e2 (dump_col bx1 bs) -> Permutation e3 (dump_col by1 bs) ->
  load {| jx0 := e0; jy0 := e1; jx1 := e2; jy1 := e3 |} = Some bs.
Proof.
  intros bs e0 e1 e2 e3 P0 P1 P2 P3. unfold load. cbn [jx0 jy0 jx1 jy1].
  set (n := List.length bs).
  assert (K : forall e f, Permutation e (dump_col f bs) -> Permutation (map fst e) (keys n)).
  { intros e f P. unfold n. rewrite <- (dump_col_keys f bs). now apply Permutation_map. }
  pose proof (K _ _ P0) as K0. pose proof (K _ _ P1) as K1.
  pose proof (K _ _ P2) as K2. pose proof (K _ _ P3) as K3.
  assert (Hidx : uniq [] (map fst e0 ++ map fst e1 ++ map fst e2 ++ map fst e3) = map fst e0).
  { apply uniq_nodup_then_known.
    - eapply Permutation_NoDup; [symmetry; exact K0 | apply keys_NoDup].
    - intros x _ [].
    - intros x Hx. left. eapply Permutation_in; [symmetry; exact K0|].
      rewrite !in_app_iff in Hx.
      destruct Hx as [Hx|[Hx|Hx]];
        [exact (Permutation_in _ K1 Hx) | exact (Permutation_in _ K2 Hx) | exact (Permutation_in _ K3 Hx)]. }
  rewrite Hidx.
  (* the labels of e0 are the decimal strings of a permutation sg of 0..n-1 *)
  unfold keys in K0. apply Permutation_map_inv in K0 as (sg & Esg & Psg).
  rewrite Esg, parse_all_map.
  (* every lookup can be done in the dumped column *)
  assert (L : forall e f, Permutation e (dump_col f bs) ->
                forall k, lookup k e = lookup k (dump_col f bs)).
  { intros e f P k. symmetry. apply lookup_perm; [now symmetry | apply dump_col_nodup]. }
  rewrite (map_ext _ (fun k => (lookup k (dump_col bx0 bs), lookup k (dump_col by0 bs),
                                lookup k (dump_col bx1 bs), lookup k (dump_col by1 bs))))
    by (intros k; now rewrite (L _ _ P0), (L _ _ P1), (L _ _ P2), (L _ _ P3)).
  set (row := fun k => (lookup k (dump_col bx0 bs), lookup k (dump_col by0 bs),
                        lookup k (dump_col bx1 bs), lookup k (dump_col by1 bs))).
  rewrite map_map.
  (* combine of two maps over sg is one map over sg *)
  assert (Hc : combine (map N.of_nat sg) (map (fun i => row (dec (N.of_nat i))) sg) =
               map (fun i => (N.of_nat i, row (dec (N.of_nat i)))) sg).
  { clear. induction sg as [|i sg IH]; [reflexivity|]. cbn. now rewrite IH. }
  rewrite Hc.
  rewrite (sort_by_map (fun i => (N.of_nat i, row (dec (N.of_nat i)))) Nat.ltb).
  - rewrite (sort_perm_seq sg n) by (now symmetry).
    rewrite map_map. cbn [snd].
    assert (Hrows : map (fun k => row k) (keys n) = bs).
    { apply map4; unfold dump_col; fold (keys n);
        apply lookup_map_combine; try apply keys_NoDup;
        now rewrite keys_length, map_length. }
    unfold keys in Hrows. rewrite map_map in Hrows. now rewrite Hrows.
  - intros x y _ _. cbn [fst].
    destruct (Nat.ltb x y) eqn:E.
    + apply Nat.ltb_lt in E. apply N.ltb_lt. lia.
    + apply Nat.ltb_ge in E. apply N.ltb_ge. lia.
Qed.
