(* Lemma library for C14, part 4: the real-valued meaning of the length terms.
   Uses the standard library's axiomatisation of R. *)
From Coq Require Import ZArith List Bool Arith Lia Reals Lra.
From SP Require Import Model.Num Model.Arrow Model.Measures Proofs.BoundsProofs
  Spec.MeasuresSpec.
Import ListNotations.
Local Open Scope R_scope.

(* the sum of the Euclidean lengths of the segments between consecutive vertices
   whose both ends are finite *)
Fixpoint seg_lengths_R (ps : list (num * num)) : R :=
  match ps with
  | p :: ((q :: _) as t) =>
      match fst p, snd p, fst q, snd q with
      | Some a, Some b, Some c, Some d => dist_R a b c d + seg_lengths_R t
      | _, _, _, _ => seg_lengths_R t
      end
  | _ => 0
  end.

Lemma sqrt_sqdist : forall a b c d, sqrt (IZR (sqdist a b c d)) = dist_R a b c d.
Proof.
  intros. unfold sqdist, dist_R. rewrite plus_IZR, !mult_IZR, !minus_IZR. reflexivity.
Qed.

Lemma length_R_cons : forall t ts, length_R (t :: ts) = sqrt (IZR t) + length_R ts.
Proof. reflexivity. Qed.

(* the list of squared terms stands for the geometric length *)
Theorem length_R_segments : forall ps, length_R (seg_terms ps) = seg_lengths_R ps.
Proof.
  induction ps as [|p t IH]; [reflexivity|].
  destruct t as [|q t']; [reflexivity|].
  change (seg_terms (p :: q :: t')) with
    (match fst p, snd p, fst q, snd q with
     | Some a, Some b, Some c, Some d => sqdist a b c d :: seg_terms (q :: t')
     | _, _, _, _ => seg_terms (q :: t')
     end).
  change (seg_lengths_R (p :: q :: t')) with
    (match fst p, snd p, fst q, snd q with
     | Some a, Some b, Some c, Some d => dist_R a b c d + seg_lengths_R (q :: t')
     | _, _, _, _ => seg_lengths_R (q :: t')
     end).
  destruct (fst p), (snd p), (fst q), (snd q); try exact IH.
  rewrite length_R_cons, sqrt_sqdist, IH. reflexivity.
Qed.

Lemma sqrt_is_square : forall t, is_square t = true -> sqrt (IZR t) = IZR (Z.sqrt t).
Proof.
  intros t H. unfold is_square in H. apply Z.eqb_eq in H.
  rewrite <- H at 1. rewrite mult_IZR. apply sqrt_square.
  apply IZR_le. apply Z.sqrt_nonneg.
Qed.

(* when every term is a perfect square the length is the exact integer the model
   (and, on such inputs, the float computation) returns *)
Theorem exact_sum_correct : forall ts s, exact_sum ts = Some s -> length_R ts = IZR s.
Proof.
  intros ts s H. unfold exact_sum in H.
  destruct (forallb is_square ts) eqn:E; [|discriminate].
  injection H as <-.
  induction ts as [|t ts IH]; [reflexivity|].
  cbn [forallb] in E. apply andb_true_iff in E. destruct E as [E1 E2].
  rewrite length_R_cons, (sqrt_is_square t E1), (IH E2).
  cbn [map fold_right]. rewrite plus_IZR. reflexivity.
Qed.

Lemma length_R_app : forall l1 l2, length_R (l1 ++ l2) = length_R l1 + length_R l2.
Proof.
  induction l1 as [|x t IH]; intros l2.
  - cbn [app]. unfold length_R at 2. cbn. lra.
  - cbn [app]. rewrite !length_R_cons, IH. lra.
Qed.
