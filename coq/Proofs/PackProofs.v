(* C10: the tree pack_partitions_to_parquet leaves, for every number of partitions, every
   assignment matrix, the three temp-directory modes, any task order and any prior tree.

   Method: a tree is described extensionally by a [spec] (path -> option node); every
   filesystem operation of the procedure is shown to succeed under conditions on the spec
   and to transform it by a simple combinator ([s_set], [s_rm], [s_mk]); the phases of the
   procedure are folds of such combinators whose value at a path is computed by
   classifying the path. *)
From Coq Require Import ZArith List Bool Arith Lia Permutation.
From SP Require Import Harness Model.FS Model.PackFS Spec.PackSpec Proofs.FSProofs.
Import ListNotations.

(* ------------------------------------------------------------------ specs *)
Definition spec := path -> option node.
Definition models (f : fs) (S : spec) : Prop := forall q, node_at f q = S q.
Definition good (f : fs) (S : spec) : Prop := models f S /\ nodup_keys f = true.

Definition s_set (p : path) (n : node) (S : spec) : spec :=
  fun q => if path_eqb p q then Some n else S q.
Definition s_rm (p : path) (S : spec) : spec :=
  fun q => if is_prefix p q then None else S q.
Definition s_mk (p : path) (S : spec) : spec :=
  fun q => if on_the_way q p then Some Dir else S q.

Definition s_isfile (S : spec) (q : path) : bool :=
  match S q with Some (File _) => true | _ => false end.

Lemma existsb_path_In : forall q l, existsb (path_eqb q) l = true <-> In q l.
Proof.
  intros q l. rewrite existsb_exists. split.
  - intros [x [Hx E]]. apply path_eqb_eq in E. subst. exact Hx.
  - intro H. exists q. split; [exact H|apply path_eqb_refl].
Qed.

Lemma on_the_way_prefixes : forall q p, existsb (path_eqb q) (prefixes p) = on_the_way q p.
Proof.
  intros q p. destruct (existsb (path_eqb q) (prefixes p)) eqn:E.
  - apply existsb_path_In in E. apply prefixes_spec in E as [Hq Hp]. unfold on_the_way.
    destruct q; [contradiction|]. symmetry. exact Hp.
  - unfold on_the_way. destruct q as [|a q]; [reflexivity|].
    destruct (is_prefix (a :: q) p) eqn:Hp; [|reflexivity].
    assert (In (a :: q) (prefixes p)) by (apply prefixes_spec; split; [discriminate|exact Hp]).
    apply existsb_path_In in H. congruence.
Qed.

(* ------------------------------------------------------------------ key uniqueness *)
Lemma assoc_None_upsert : forall f p n q, assoc (upsert f p n) q = None -> assoc f q = None.
Proof.
  intros f p n q H. rewrite assoc_upsert in H. destruct (path_eqb p q); [discriminate|exact H].
Qed.

Lemma nodup_upsert : forall f p n, nodup_keys f = true -> nodup_keys (upsert f p n) = true.
Proof.
  induction f as [|[k m] f IH]; intros p n H; simpl in *.
  - reflexivity.
  - destruct (assoc f k) eqn:Ek; [discriminate|].
    destruct (path_eqb_spec k p) as [->|NE]; simpl.
    + rewrite Ek. exact H.
    + rewrite assoc_upsert. destruct (path_eqb_spec p k); [congruence|]. rewrite Ek. apply IH. exact H.
Qed.

Lemma nodup_filter : forall (g : path -> bool) f, nodup_keys f = true ->
  nodup_keys (filter (fun e => g (fst e)) f) = true.
Proof.
  intros g. induction f as [|[k m] f IH]; intro H; simpl in *; [reflexivity|].
  destruct (assoc f k) eqn:Ek; [discriminate|].
  destruct (g k) eqn:Gk; simpl; [|apply IH; exact H].
  rewrite (assoc_filter g). rewrite Gk, Ek. apply IH. exact H.
Qed.

Lemma nodup_rm_tree : forall f p, nodup_keys f = true -> nodup_keys (rm_tree f p) = true.
Proof. intros. unfold rm_tree. apply (nodup_filter (fun k => negb (is_prefix p k))). assumption. Qed.

Lemma nodup_mk_all : forall qs f f', nodup_keys f = true -> mk_all f qs = Some f' -> nodup_keys f' = true.
Proof.
  induction qs as [|k qs IH]; intros f f' H E; simpl in E.
  - injection E as <-. exact H.
  - destruct (node_at f k) as [[c|]|]; [discriminate|eapply IH; eauto|].
    eapply IH; [|exact E]. apply nodup_upsert. exact H.
Qed.

Lemma nodup_keys_NoDup : forall f, nodup_keys f = true -> NoDup (map fst f).
Proof.
  induction f as [|[k m] f IH]; intro H; simpl in *; [constructor|].
  destruct (assoc f k) eqn:Ek; [discriminate|]. constructor; [|apply IH; exact H].
  intro Hin. apply in_map_iff in Hin as [[k' m'] [E Hin]]. simpl in E. subst k'.
  clear IH H. induction f as [|[j x] f IH]; simpl in *; [contradiction|].
  destruct (path_eqb_spec j k) as [->|NE]; [discriminate|].
  destruct Hin as [E|Hin]; [injection E as -> _; contradiction|]. apply IH; assumption.
Qed.

Lemma In_keys_assoc : forall f k, In k (map fst f) <-> assoc f k <> None.
Proof.
  induction f as [|[j x] f IH]; intro k; simpl.
  - split; [contradiction|congruence].
  - destruct (path_eqb_spec j k) as [->|NE].
    + split; [discriminate|auto].
    + rewrite <- IH. split; [intros [E|H]; [contradiction|exact H]|auto].
Qed.

(* ------------------------------------------------------------------ the operations on specs *)
Lemma models_root : forall f S, models f S -> S [] = Some Dir.
Proof. intros f S H. rewrite <- H. reflexivity. Qed.

(* rm_retry *)
Lemma rm_models : forall f S p, good f S -> p <> [] ->
  (S p = None -> forall q, is_prefix p q = true -> S q = None) ->
  exists f', body_rm pure_prims p f = OK tt f' /\ good f' (s_rm p S).
Proof.
  intros f S p [HM HN] Hp Hclosed. unfold body_rm, bind. simpl. unfold lift_m, lift_q.
  destruct (exists_b f p) eqn:Ex.
  - unfold rm. destruct p as [|a p]; [contradiction|].
    unfold exists_b in Ex. destruct (node_at f (a :: p)) eqn:En; [|discriminate].
    assert (G : exists_b (rm_tree f (a :: p)) (a :: p) = false).
    { unfold exists_b. rewrite node_at_rm_tree by discriminate. rewrite is_prefix_refl. reflexivity. }
    rewrite G. exists (rm_tree f (a :: p)). split; [reflexivity|]. split; [|apply nodup_rm_tree; exact HN].
    intro q. rewrite node_at_rm_tree by discriminate. unfold s_rm. rewrite HM. reflexivity.
  - rewrite Ex. exists f. split; [reflexivity|]. split; [|exact HN].
    intro q. unfold s_rm. destruct (is_prefix p q) eqn:Epq; [|apply HM].
    rewrite HM. apply Hclosed; [|exact Epq]. rewrite <- HM. unfold exists_b in Ex.
    destruct (node_at f p); [discriminate|reflexivity].
Qed.

(* mkdirs_retry *)
Lemma mkdirs_models : forall f S p, good f S ->
  (forall q, on_the_way q p = true -> s_isfile S q = false) ->
  exists f', body_mkdirs pure_prims p f = OK tt f' /\ good f' (s_mk p S).
Proof.
  intros f S p [HM HN] Hfiles. unfold body_mkdirs. simpl. unfold lift_m, makedirs.
  destruct (mk_all_success (prefixes p) f (prefixes_nonnil p)) as [f' E].
  { intros q Hq. apply existsb_path_In in Hq. rewrite on_the_way_prefixes in Hq.
    specialize (Hfiles q Hq). unfold s_isfile in Hfiles. unfold isfile_b. rewrite HM. exact Hfiles. }
  rewrite E. exists f'. split; [reflexivity|]. split; [|eapply nodup_mk_all; eauto].
  intro q. rewrite (mk_all_spec _ _ _ (prefixes_nonnil p) E). rewrite on_the_way_prefixes.
  unfold s_mk. rewrite HM. reflexivity.
Qed.

(* any of the writers: open(path, 'wb') ... close *)
Lemma write_models : forall f S p c, good f S -> p <> [] ->
  S (parent p) = Some Dir -> S p <> Some Dir ->
  exists f', p_write pure_prims p c f = OK tt f' /\ good f' (s_set p (File c) S).
Proof.
  intros f S p c [HM HN] Hp Hpar Hnd. simpl. unfold lift_m.
  rewrite write_intro; [|exact Hp| |].
  - exists (upsert f p (File c)). split; [reflexivity|]. split; [|apply nodup_upsert; exact HN].
    intro q. rewrite node_at_upsert by exact Hp. unfold s_set. rewrite HM. reflexivity.
  - unfold isdir_b. rewrite HM, Hpar. reflexivity.
  - rewrite HM. exact Hnd.
Qed.
