(* C10: the tree pack_partitions_to_parquet leaves, for every number of partitions, every
   assignment matrix, the three temp-directory modes, any task order and any prior tree.

   Method: a tree is described extensionally by a [spec] (path -> option node); every
   filesystem operation of the procedure is shown to succeed under conditions on the spec
   and to transform it by a simple combinator ([s_set], [s_rm], [s_mk]); the phases of the
   procedure are folds of such combinators whose value at a path is computed by
   classifying the path. *)
From Coq Require Import ZArith List Bool Arith Lia Permutation Sorted.
From SP Require Import Harness Model.FS Model.PackFS Spec.PackSpec Proofs.FSProofs.
Import ListNotations.

(* ------------------------------------------------------------------ specs *)
Definition spec := path -> option node.
Definition models (f : fs) (S : spec) : Prop := forall q, node_at f q = S q.
Definition good (f : fs) (S : spec) : Prop := models f S /\ nodup_keys f = true.

Definition s_set (p : path) (n : node) (S : spec) : spec :=
  fun q => if path_eqb p q then Some n else S q.
Definition s_rm (p : path) (S : spec) : spec :=
  fun q => if is_prefix p q then None else S q.
Definition s_mk (p : path) (S : spec) : spec :=
  fun q => if on_the_way q p then Some Dir else S q.

Definition s_isfile (S : spec) (q : path) : bool :=
  match S q with Some (File _) => true | _ => false end.

Lemma existsb_path_In : forall q l, existsb (path_eqb q) l = true <-> In q l.
Proof.
  intros q l. rewrite existsb_exists. split.
  - intros [x [Hx E]]. apply path_eqb_eq in E. subst. exact Hx.
  - intro H. exists q. split; [exact H|apply path_eqb_refl].
Qed.

Lemma on_the_way_prefixes : forall q p, existsb (path_eqb q) (prefixes p) = on_the_way q p.
Proof.
  intros q p. destruct (existsb (path_eqb q) (prefixes p)) eqn:E.
  - apply existsb_path_In in E. apply prefixes_spec in E as [Hq Hp]. unfold on_the_way.
    destruct q; [contradiction|]. symmetry. exact Hp.
  - unfold on_the_way. destruct q as [|a q]; [reflexivity|].
    destruct (is_prefix (a :: q) p) eqn:Hp; [|reflexivity].
    assert (In (a :: q) (prefixes p)) by (apply prefixes_spec; split; [discriminate|exact Hp]).
    apply existsb_path_In in H. congruence.
Qed.

(* ------------------------------------------------------------------ key uniqueness *)
Lemma assoc_None_upsert : forall f p n q, assoc (upsert f p n) q = None -> assoc f q = None.
Proof.
  intros f p n q H. rewrite assoc_upsert in H. destruct (path_eqb p q); [discriminate|exact H].
Qed.

Lemma nodup_upsert : forall f p n, nodup_keys f = true -> nodup_keys (upsert f p n) = true.
Proof.
  induction f as [|[k m] f IH]; intros p n H; simpl in *.
  - reflexivity.
  - destruct (assoc f k) eqn:Ek; [discriminate|].
    destruct (path_eqb_spec k p) as [->|NE]; simpl.
    + rewrite Ek. exact H.
    + rewrite assoc_upsert. destruct (path_eqb_spec p k); [congruence|]. rewrite Ek. apply IH. exact H.
Qed.

Lemma nodup_filter : forall (g : path -> bool) f, nodup_keys f = true ->
  nodup_keys (filter (fun e => g (fst e)) f) = true.
Proof.
  intros g. induction f as [|[k m] f IH]; intro H; simpl in *; [reflexivity|].
  destruct (assoc f k) eqn:Ek; [discriminate|].
  destruct (g k) eqn:Gk; simpl; [|apply IH; exact H].
  rewrite (assoc_filter g). rewrite Gk, Ek. apply IH. exact H.
Qed.

Lemma nodup_rm_tree : forall f p, nodup_keys f = true -> nodup_keys (rm_tree f p) = true.
Proof. intros. unfold rm_tree. apply (nodup_filter (fun k => negb (is_prefix p k))). assumption. Qed.

Lemma nodup_mk_all : forall qs f f', nodup_keys f = true -> mk_all f qs = Some f' -> nodup_keys f' = true.
Proof.
  induction qs as [|k qs IH]; intros f f' H E; simpl in E.
  - injection E as <-. exact H.
  - destruct (node_at f k) as [[c|]|]; [discriminate|eapply IH; eauto|].
    eapply IH; [|exact E]. apply nodup_upsert. exact H.
Qed.

Lemma nodup_keys_NoDup : forall f, nodup_keys f = true -> NoDup (map fst f).
Proof.
  induction f as [|[k m] f IH]; intro H; simpl in *; [constructor|].
  destruct (assoc f k) eqn:Ek; [discriminate|]. constructor; [|apply IH; exact H].
  intro Hin. apply in_map_iff in Hin as [[k' m'] [E Hin]]. simpl in E. subst k'.
  clear IH H. induction f as [|[j x] f IH]; simpl in *; [contradiction|].
  destruct (path_eqb_spec j k) as [->|NE]; [discriminate|].
  destruct Hin as [E|Hin]; [injection E as -> _; contradiction|]. apply IH; assumption.
Qed.

Lemma In_keys_assoc : forall f k, In k (map fst f) <-> assoc f k <> None.
Proof.
  induction f as [|[j x] f IH]; intro k; simpl.
  - split; [contradiction|congruence].
  - destruct (path_eqb_spec j k) as [->|NE].
    + split; [discriminate|auto].
    + rewrite <- IH. split; [intros [E|H]; [contradiction|exact H]|auto].
Qed.

(* ------------------------------------------------------------------ the operations on specs *)
Lemma models_root : forall f S, models f S -> S [] = Some Dir.
Proof. intros f S H. rewrite <- H. reflexivity. Qed.

(* rm_retry *)
Lemma rm_models : forall f S p, good f S -> p <> [] ->
  (S p = None -> forall q, is_prefix p q = true -> S q = None) ->
  exists f', body_rm pure_prims p f = OK tt f' /\ good f' (s_rm p S).
Proof.
  intros f S p [HM HN] Hp Hclosed. unfold body_rm, bind. simpl. unfold lift_m, lift_q.
  destruct (exists_b f p) eqn:Ex.
  - unfold rm. destruct p as [|a p]; [contradiction|].
    unfold exists_b in Ex. destruct (node_at f (a :: p)) eqn:En; [|discriminate].
    assert (G : exists_b (rm_tree f (a :: p)) (a :: p) = false).
    { unfold exists_b. rewrite node_at_rm_tree by discriminate. rewrite is_prefix_refl. reflexivity. }
    rewrite G. exists (rm_tree f (a :: p)). split; [reflexivity|]. split; [|apply nodup_rm_tree; exact HN].
    intro q. rewrite node_at_rm_tree by discriminate. unfold s_rm. rewrite HM. reflexivity.
  - rewrite Ex. exists f. split; [reflexivity|]. split; [|exact HN].
    intro q. unfold s_rm. destruct (is_prefix p q) eqn:Epq; [|apply HM].
    rewrite HM. apply Hclosed; [|exact Epq]. rewrite <- HM. unfold exists_b in Ex.
    destruct (node_at f p); [discriminate|reflexivity].
Qed.

(* mkdirs_retry *)
Lemma mkdirs_models : forall f S p, good f S ->
  (forall q, on_the_way q p = true -> s_isfile S q = false) ->
  exists f', body_mkdirs pure_prims p f = OK tt f' /\ good f' (s_mk p S).
Proof.
  intros f S p [HM HN] Hfiles. unfold body_mkdirs. simpl. unfold lift_m, makedirs.
  destruct (mk_all_success (prefixes p) f (prefixes_nonnil p)) as [f' E].
  { intros q Hq. apply existsb_path_In in Hq. rewrite on_the_way_prefixes in Hq.
    specialize (Hfiles q Hq). unfold s_isfile in Hfiles. unfold isfile_b. rewrite HM. exact Hfiles. }
  rewrite E. exists f'. split; [reflexivity|]. split; [|eapply nodup_mk_all; eauto].
  intro q. rewrite (mk_all_spec _ _ _ (prefixes_nonnil p) E). rewrite on_the_way_prefixes.
  unfold s_mk. rewrite HM. reflexivity.
Qed.

(* any of the writers: open(path, 'wb') ... close *)
Lemma write_models : forall f S p c, good f S -> p <> [] ->
  S (parent p) = Some Dir -> S p <> Some Dir ->
  exists f', p_write pure_prims p c f = OK tt f' /\ good f' (s_set p (File c) S).
Proof.
  intros f S p c [HM HN] Hp Hpar Hnd. simpl. unfold lift_m.
  rewrite write_intro; [|exact Hp| |].
  - exists (upsert f p (File c)). split; [reflexivity|]. split; [|apply nodup_upsert; exact HN].
    intro q. rewrite node_at_upsert by exact Hp. unfold s_set. rewrite HM. reflexivity.
  - unfold isdir_b. rewrite HM, Hpar. reflexivity.
  - rewrite HM. exact Hnd.
Qed.

(* ------------------------------------------------------------------ more about paths *)
Lemma strip_prefix_snoc : forall p a q,
  strip_prefix (p ++ [a]) q =
    match strip_prefix p q with
    | Some (b :: r) => if name_eqb a b then Some r else None
    | _ => None
    end.
Proof.
  induction p as [|c p IH]; intros a q; simpl.
  - destruct q as [|b q]; [reflexivity|]. destruct (name_eqb a b); reflexivity.
  - destruct q as [|b q]; [reflexivity|]. destruct (name_eqb c b); [apply IH|reflexivity].
Qed.

Lemma is_prefix_snoc : forall p a q,
  is_prefix (p ++ [a]) q =
    match strip_prefix p q with Some (b :: _) => name_eqb a b | _ => false end.
Proof.
  intros. unfold is_prefix. rewrite strip_prefix_snoc.
  destruct (strip_prefix p q) as [[|b r]|]; try reflexivity. destruct (name_eqb a b); reflexivity.
Qed.

Lemma path_eqb_snoc : forall p a q,
  path_eqb (p ++ [a]) q =
    match strip_prefix p q with Some [b] => name_eqb a b | _ => false end.
Proof.
  intros p a q. destruct (path_eqb_spec (p ++ [a]) q) as [<-|NE].
  - rewrite strip_prefix_app. symmetry. apply name_eqb_refl.
  - destruct (strip_prefix p q) as [[|b [|c r]]|] eqn:E; try reflexivity.
    apply strip_prefix_some in E. subst q.
    destruct (name_eqb_spec a b) as [->|]; [contradiction|reflexivity].
Qed.

Lemma strip_prefix_none_app : forall p q r, strip_prefix p q = None -> strip_prefix (p ++ r) q = None.
Proof.
  intros p q r H. destruct (strip_prefix (p ++ r) q) as [s|] eqn:E; [|reflexivity].
  apply strip_prefix_some in E. subst q. rewrite <- app_assoc, strip_prefix_app in H. discriminate.
Qed.

Lemma is_prefix_strip : forall p q, is_prefix p q = true -> exists r, strip_prefix p q = Some r.
Proof. intros p q H. unfold is_prefix in H. destruct (strip_prefix p q); [eauto|discriminate]. Qed.

Lemma is_prefix_none : forall p q, is_prefix p q = false <-> strip_prefix p q = None.
Proof. intros. unfold is_prefix. destruct (strip_prefix p q); split; congruence. Qed.

(* q is a non-root ancestor-or-self of p ++ [a] iff it is one of p or is p ++ [a] itself *)
Lemma on_the_way_snoc : forall q p a,
  on_the_way q (p ++ [a]) = on_the_way q p || path_eqb q (p ++ [a]).
Proof.
  intros q p a. unfold on_the_way. destruct q as [|b q].
  { destruct p; reflexivity. }
  remember (b :: q) as x eqn:Hx.
  destruct (is_prefix x p) eqn:E1.
  - rewrite orb_true_l. apply is_prefix_iff in E1 as [r ->]. rewrite <- app_assoc. apply is_prefix_app.
  - rewrite orb_false_l. destruct (path_eqb_spec x (p ++ [a])) as [->|NE]; [apply is_prefix_refl|].
    destruct (is_prefix x (p ++ [a])) eqn:E2; [|reflexivity].
    exfalso. apply is_prefix_iff in E2 as [r Hr].
    destruct r as [|c0 r0].
    + rewrite app_nil_r in Hr. congruence.
    + destruct (exists_last (l := c0 :: r0)) as [r' [c Hc]]; [discriminate|].
      rewrite Hc in Hr. rewrite app_assoc in Hr. apply app_inj_tail in Hr as [Hr _].
      rewrite Hr, is_prefix_app in E1. discriminate.
Qed.

Lemma on_the_way_nil : forall p, on_the_way [] p = false.
Proof. reflexivity. Qed.

Lemma on_the_way_prefix : forall q p, on_the_way q p = true -> is_prefix q p = true /\ q <> [].
Proof. intros [|a q] p H; [discriminate|]. split; [exact H|discriminate]. Qed.

Lemma miter_app : forall St A (g : A -> M St unit) l1 l2 s,
  miter g (l1 ++ l2) s = (miter g l1 ;;; miter g l2) s.
Proof.
  intros St A g l1 l2. induction l1 as [|x l1 IH]; intro s; simpl.
  - reflexivity.
  - unfold bind. destruct (g x s) as [u s1|s1]; [|reflexivity]. apply IH.
Qed.

Lemma final_read_pure_ok : forall f d c0 cm,
  node_at f d = Some Dir ->
  node_at f (d ++ [NPart 0]) = Some (File (CRows c0)) ->
  node_at f (d ++ [NCommon]) = Some (File (CCommon cm)) ->
  In (d ++ [NPart 0]) (find f d) ->
  body_final_read pure_prims d f = OK tt f.
Proof.
  intros f d c0 cm Hd H0 Hc Hin.
  apply existsb_path_In in Hin.
  cbv [body_final_read pq_read_file bind ret fail p_exists p_isdir p_isfile p_find p_read p_read_opt p_info
       pure_prims lift_q lift_o exists_b isdir_b isfile_b read].
  cbv [negb].
  repeat (first [rewrite Hd | rewrite Hin | rewrite H0 | rewrite Hc]; cbv beta iota).
  reflexivity.
Qed.

Lemma write_common_pure_ok : forall f d ps c0 f',
  node_at f (d ++ [NPart 0]) = Some (File (CRows c0)) ->
  p_write pure_prims (d ++ [NCommon]) (CCommon ps) f = OK tt f' ->
  body_write_common pure_prims d ps f = OK tt f'.
Proof.
  intros f d ps c0 f' H0 Hw.
  cbv [body_write_common bind p_read pure_prims lift_o read].
  rewrite H0. cbv beta iota. exact Hw.
Qed.

(* ================================================================== the procedure *)
Section Pack.
Variable cfg : config.
Variable asg : assignment.
Variable f0 : fs.

Notation P := (c_path cfg).
Notation K := (c_k cfg).
Notation outp := (out_path cfg).
Notation tmpp := (tmp_path cfg).

Hypothesis Hprior : prior_ok f0 cfg.
Hypothesis Hsep : tmp_separate cfg.

Lemma HP : P <> [].
Proof. destruct Hprior as (_ & H & _). exact H. Qed.

Lemma Hnodup0 : nodup_keys f0 = true.
Proof. destruct Hprior as (H & _). exact H. Qed.

Lemma outp_nonnil : forall N, outp N <> [].
Proof. intro N. apply snoc_not_nil. Qed.

Lemma tmpp_nonnil : forall N, tmpp N <> [].
Proof. intro N. unfold tmp_path. destruct (c_tmp cfg); apply snoc_not_nil. Qed.

Lemma parent_outp : forall N, parent (outp N) = P.
Proof. intro N. apply parent_snoc. Qed.

(* the part of a path below the dataset directory *)
Definition rel (q : path) : option path := strip_prefix P q.

(* external temp directories: nothing at or below the dataset is at, below or above them *)
Lemma ext_not_under_P : forall t N q r, c_tmp cfg = TExternal t ->
  strip_prefix P q = Some r -> is_prefix (t ++ [NTmp N]) q = false.
Proof.
  intros t N q r Ht Hq. pose proof Hsep as Hs. unfold tmp_separate in Hs. rewrite Ht in Hs.
  destruct Hs as [H1 H2]. destruct (is_prefix (t ++ [NTmp N]) q) eqn:E; [|reflexivity]. exfalso.
  apply strip_prefix_some in Hq.
  assert (Hpq : is_prefix P q = true) by (rewrite Hq; apply is_prefix_app).
  destruct (prefix_comparable _ _ _ Hpq E) as [C|C].
  - (* P is a prefix of t ++ [NTmp N] *)
    apply is_prefix_iff in C as [s Hs].
    destruct s as [|c0 s0].
    + rewrite app_nil_r in Hs. specialize (H2 N). rewrite <- Hs, is_prefix_refl in H2. discriminate.
    + destruct (exists_last (l := c0 :: s0)) as [s' [c Hc]]; [discriminate|].
      rewrite Hc, app_assoc in Hs. apply app_inj_tail in Hs as [Hs _].
      rewrite Hs, is_prefix_app in H1. discriminate.
  - rewrite (H2 N) in C. discriminate.
Qed.

Lemma ext_not_above_P : forall t N q r, c_tmp cfg = TExternal t ->
  strip_prefix P q = Some r -> is_prefix q (t ++ [NTmp N]) = false.
Proof.
  intros t N q r Ht Hq. pose proof Hsep as Hs. unfold tmp_separate in Hs. rewrite Ht in Hs.
  destruct Hs as [H1 H2]. destruct (is_prefix q (t ++ [NTmp N])) eqn:E; [|reflexivity]. exfalso.
  apply strip_prefix_some in Hq. subst q.
  assert (C : is_prefix P (t ++ [NTmp N]) = true).
  { eapply is_prefix_trans; [apply is_prefix_app|exact E]. }
  apply is_prefix_iff in C as [s Hs].
  destruct s as [|c0 s0].
  - rewrite app_nil_r in Hs. specialize (H2 N). rewrite <- Hs, is_prefix_refl in H2. discriminate.
  - destruct (exists_last (l := c0 :: s0)) as [s' [c Hc]]; [discriminate|].
    rewrite Hc, app_assoc in Hs. apply app_inj_tail in Hs as [Hs _].
    rewrite Hs, is_prefix_app in H1. discriminate.
Qed.

(* ------------------------------------------------------------------ phase 1: overwrite *)
Definition S0 : spec := node_at f0.
Definition S1 : spec := fun q => if is_prefix P q then None else S0 q.

Lemma phase1 :
  exists f1, (if c_overwrite cfg then body_rm pure_prims P else ret tt) f0 = OK tt f1 /\ good f1 S1.
Proof.
  destruct Hprior as (Hn & Hp & _ & Hclosed & _ & Hov).
  destruct (c_overwrite cfg) eqn:Eo.
  - destruct (rm_models f0 S0 P) as [f1 [E G]].
    + split; [intro q; reflexivity|exact Hn].
    + exact Hp.
    + exact Hclosed.
    + exists f1. split; [exact E|exact G].
  - exists f0. split; [reflexivity|]. split; [|exact Hn].
    intro q. unfold S1, S0. destruct (is_prefix P q) eqn:E; [|reflexivity]. apply Hov; auto.
Qed.

Lemma S1_under : forall q, is_prefix P q = true -> S1 q = None.
Proof. intros q H. unfold S1. rewrite H. reflexivity. Qed.

(* ------------------------------------------------------------------ phase 2: directories *)
Definition mk_step (S : spec) (N : nat) : spec := s_mk (tmpp N) (s_mk (outp N) S).
Definition mk_all_spec_l (l : list nat) (S : spec) : spec := fold_left mk_step l S.

Definition mk_hit (l : list nat) (q : path) : bool :=
  existsb (fun N => on_the_way q (outp N) || on_the_way q (tmpp N)) l.

Lemma mk_all_spec_closed : forall l S q,
  mk_all_spec_l l S q = if mk_hit l q then Some Dir else S q.
Proof.
  induction l as [|N l IH]; intros S q; simpl; [reflexivity|].
  unfold mk_all_spec_l in *. simpl. rewrite IH. unfold mk_step, s_mk.
  destruct (mk_hit l q); [rewrite orb_true_r; reflexivity|]. rewrite orb_false_r.
  destruct (on_the_way q (tmpp N)); [rewrite orb_true_r; reflexivity|].
  rewrite orb_false_r. destruct (on_the_way q (outp N)); reflexivity.
Qed.

Lemma s_isfile_mk : forall p S q, s_isfile (s_mk p S) q = true -> s_isfile S q = true.
Proof.
  intros p S q. unfold s_isfile, s_mk. destruct (on_the_way q p); [discriminate|auto].
Qed.

Lemma phase2_loop : forall l f S, good f S ->
  (forall N q, In N l -> on_the_way q (outp N) || on_the_way q (tmpp N) = true -> s_isfile S q = false) ->
  exists f', miter (fun N => w_mkdirs pure_wrappers (outp N) ;;; w_mkdirs pure_wrappers (tmpp N)) l f
             = OK tt f' /\ good f' (mk_all_spec_l l S).
Proof.
  induction l as [|N l IH]; intros f S HG Hfiles; simpl.
  - exists f. split; [reflexivity|exact HG].
  - destruct (mkdirs_models f S (outp N) HG) as [fa [Ea Ga]].
    { intros q Hq. apply (Hfiles N q); [left; reflexivity|]. rewrite Hq. reflexivity. }
    destruct (mkdirs_models fa _ (tmpp N) Ga) as [fb [Eb Gb]].
    { intros q Hq. destruct (s_isfile (s_mk (outp N) S) q) eqn:E; [|reflexivity].
      apply s_isfile_mk in E. rewrite (Hfiles N q) in E; [discriminate|left; reflexivity|].
      rewrite Hq. apply orb_true_r. }
    destruct (IH fb (mk_step S N) Gb) as [f' [E' G']].
    { intros N' q HN' Hq. destruct (s_isfile (mk_step S N) q) eqn:E; [|reflexivity].
      unfold mk_step in E. apply s_isfile_mk in E. apply s_isfile_mk in E.
      rewrite (Hfiles N' q) in E; [discriminate|right; exact HN'|exact Hq]. }
    exists f'. split; [|exact G'].
    unfold bind in *. simpl in Ea, Eb. unfold body_mkdirs in *. simpl. rewrite Ea, Eb. exact E'.
Qed.

(* no file stands where phase 2 needs a directory *)
Lemma S1_no_file_on_the_way : forall N q,
  on_the_way q (outp N) || on_the_way q (tmpp N) = true -> s_isfile S1 q = false.
Proof.
  intros N q H. destruct Hprior as (_ & Hp & Habove & _ & Hext & _).
  unfold s_isfile, S1, S0.
  destruct (is_prefix P q) eqn:Epq; [reflexivity|].
  assert (Hout : on_the_way q (outp N) = true -> isfile_b f0 q = false).
  { intro Ho. unfold out_path in Ho. rewrite on_the_way_snoc in Ho. apply orb_prop in Ho as [Ho|Ho].
    - apply on_the_way_prefix in Ho as [Ho Hq].
      (* q is a proper prefix of P *)
      destruct (exists_last HP) as [P' [a EP]]. apply Habove. rewrite EP, parent_snoc.
      rewrite EP in Ho. destruct q as [|b q]; [contradiction|]. unfold on_the_way.
      assert (G : on_the_way (b :: q) (P' ++ [a]) = true) by exact Ho.
      rewrite on_the_way_snoc in G. apply orb_prop in G as [G|G]; [exact G|].
      apply path_eqb_eq in G. rewrite G, <- EP, is_prefix_refl in Epq. discriminate.
    - apply path_eqb_eq in Ho. subst q. unfold out_path in Epq. rewrite is_prefix_app in Epq. discriminate. }
  apply orb_prop in H as [H|H].
  - specialize (Hout H). unfold isfile_b in Hout. exact Hout.
  - unfold tmp_path in H. destruct (c_tmp cfg) as [|t] eqn:Et.
    + specialize (Hout H). unfold isfile_b in Hout. exact Hout.
    + destruct Hext as [Hext1 Hext2]. rewrite on_the_way_snoc in H. apply orb_prop in H as [H|H].
      * specialize (Hext1 q H). unfold isfile_b in Hext1. exact Hext1.
      * apply path_eqb_eq in H. subst q. rewrite (Hext2 N); [reflexivity|apply is_prefix_refl].
Qed.

Definition S2 : spec := mk_all_spec_l (seq 0 K) S1.

Lemma phase2 : forall f1, good f1 S1 ->
  exists f2, miter (fun N => w_mkdirs pure_wrappers (outp N) ;;; w_mkdirs pure_wrappers (tmpp N)) (seq 0 K) f1
             = OK tt f2 /\ good f2 S2.
Proof.
  intros f1 G. apply phase2_loop; [exact G|]. intros N q _ H. apply (S1_no_file_on_the_way N q H).
Qed.

(* ------------------------------------------------------------------ the temp directories, uniformly *)
Definition tbase : path := match c_tmp cfg with TInside => P | TExternal t => t end.
Definition tname (N : nat) : name := match c_tmp cfg with TInside => NPart N | TExternal _ => NTmp N end.

Lemma tmpp_eq : forall N, tmpp N = tbase ++ [tname N].
Proof. intro N. unfold tmp_path, tbase, tname. destruct (c_tmp cfg); reflexivity. Qed.

Lemma tname_inj : forall N N', tname N = tname N' -> N = N'.
Proof. intros N N'. unfold tname. destruct (c_tmp cfg); intro H; injection H; auto. Qed.

Lemma tname_eqb : forall N N', name_eqb (tname N) (tname N') = Nat.eqb N N'.
Proof. intros. unfold tname. destruct (c_tmp cfg); reflexivity. Qed.

Lemma prefix_len : forall x y, is_prefix x y = true -> List.length x <= List.length y.
Proof. intros x y H. apply is_prefix_iff in H as [r ->]. rewrite app_length. lia. Qed.

Lemma is_prefix_longer : forall (b : path) x, x <> [] -> is_prefix (b ++ x) b = false.
Proof.
  intros b x Hx. destruct (is_prefix (b ++ x) b) eqn:E; [|reflexivity].
  apply prefix_len in E. rewrite app_length in E. destruct x; [contradiction|simpl in E; lia].
Qed.

(* the sub-part file of a cell *)
Definition subp (c : cell) : path := tmpp (snd c) ++ [NSub (fst c)].

Lemma subp_inj : forall c c', subp c = subp c' -> c = c'.
Proof.
  intros [i N] [i' N'] H. unfold subp in H. simpl in H. apply app_inj_tail in H as [H1 H2].
  injection H2 as ->. rewrite !tmpp_eq in H1. apply app_inj_tail in H1 as [_ H1].
  apply tname_inj in H1. subst. reflexivity.
Qed.

Lemma parent_subp : forall c, parent (subp c) = tmpp (snd c).
Proof. intro c. apply parent_snoc. Qed.

(* under the dataset path, the per-partition output paths *)
Lemma is_prefix_outp : forall N q,
  is_prefix (outp N) q = match strip_prefix P q with Some (NPart N' :: _) => Nat.eqb N N' | _ => false end.
Proof.
  intros N q. unfold out_path. rewrite is_prefix_snoc.
  destruct (strip_prefix P q) as [[|[] r]|]; reflexivity.
Qed.

Lemma path_eqb_outp : forall N q,
  path_eqb (outp N) q = match strip_prefix P q with Some [NPart N'] => Nat.eqb N N' | _ => false end.
Proof.
  intros N q. unfold out_path. rewrite path_eqb_snoc.
  destruct (strip_prefix P q) as [[|[] [|? ?]]|]; reflexivity.
Qed.

Lemma is_prefix_tmpp : forall N q,
  is_prefix (tmpp N) q = match strip_prefix tbase q with Some (b :: _) => name_eqb (tname N) b | _ => false end.
Proof. intros N q. rewrite tmpp_eq. apply is_prefix_snoc. Qed.

Lemma path_eqb_tmpp : forall N q,
  path_eqb (tmpp N) q = match strip_prefix tbase q with Some [b] => name_eqb (tname N) b | _ => false end.
Proof. intros N q. rewrite tmpp_eq. apply path_eqb_snoc. Qed.

(* separation: a temp directory is never at, above or below an output path or the dataset
   path, except that in the default mode it IS the output path of the same number *)
Lemma tmpp_vs_P : forall N, is_prefix (tmpp N) P = false.
Proof.
  intro N. unfold tmp_path. destruct (c_tmp cfg) as [|t] eqn:Et.
  - apply is_prefix_longer. discriminate.
  - pose proof Hsep as Hs. unfold tmp_separate in Hs. rewrite Et in Hs. apply Hs.
Qed.

Lemma P_vs_tmpp_ext : forall t N, c_tmp cfg = TExternal t -> is_prefix P (t ++ [NTmp N]) = false.
Proof.
  intros t N Et. destruct (is_prefix P (t ++ [NTmp N])) eqn:E; [|reflexivity]. exfalso.
  apply is_prefix_strip in E as [r E].
  pose proof (ext_not_under_P t N _ _ Et E) as G. rewrite is_prefix_refl in G. discriminate.
Qed.

(* ------------------------------------------------------------------ the shape of S2 *)
Hypothesis HK : 0 < K.

Lemma mk_hit_form : forall l q, l <> [] ->
  mk_hit l q = (on_the_way q P || on_the_way q tbase)
               || existsb (fun N => path_eqb q (outp N) || path_eqb q (tmpp N)) l.
Proof.
  intros l q Hl. unfold mk_hit.
  assert (G : forall N, on_the_way q (outp N) || on_the_way q (tmpp N) =
                        (on_the_way q P || on_the_way q tbase) || (path_eqb q (outp N) || path_eqb q (tmpp N))).
  { intro N. rewrite tmpp_eq. unfold out_path. rewrite !on_the_way_snoc.
    destruct (on_the_way q P), (on_the_way q tbase), (path_eqb q (P ++ [NPart N])),
      (path_eqb q (tbase ++ [tname N])); reflexivity. }
  induction l as [|N l IH]; [contradiction|]. simpl. rewrite G.
  destruct l as [|N' l'].
  - simpl. rewrite !orb_false_r. reflexivity.
  - rewrite IH by discriminate.
    destruct (on_the_way q P || on_the_way q tbase); simpl; [rewrite ?orb_true_r; reflexivity|].
    reflexivity.
Qed.

Lemma S2_form : forall q,
  S2 q = if on_the_way q P || on_the_way q tbase then Some Dir
         else if existsb (fun N => path_eqb q (outp N) || path_eqb q (tmpp N)) (seq 0 K) then Some Dir
         else S1 q.
Proof.
  intro q. unfold S2. rewrite mk_all_spec_closed. rewrite mk_hit_form.
  - destruct (on_the_way q P || on_the_way q tbase); reflexivity.
  - destruct K; [lia|discriminate].
Qed.

Lemma S2_P : S2 P = Some Dir.
Proof.
  rewrite S2_form.
  assert (G : on_the_way P P = true).
  { unfold on_the_way. pose proof HP as H. destruct (c_path cfg); [contradiction|apply is_prefix_refl]. }
  rewrite G. reflexivity.
Qed.

Lemma in_seq0 : forall N n, In N (seq 0 n) <-> N < n.
Proof. intros. rewrite in_seq. lia. Qed.

Lemma S2_outp : forall N, N < K -> S2 (outp N) = Some Dir.
Proof.
  intros N HN. rewrite S2_form. destruct (on_the_way (outp N) P || on_the_way (outp N) tbase); [reflexivity|].
  assert (G : existsb (fun N' => path_eqb (outp N) (outp N') || path_eqb (outp N) (tmpp N')) (seq 0 K) = true).
  { apply existsb_exists. exists N. split; [apply in_seq0; exact HN|]. rewrite path_eqb_refl. reflexivity. }
  rewrite G. reflexivity.
Qed.

Lemma S2_tmpp : forall N, N < K -> S2 (tmpp N) = Some Dir.
Proof.
  intros N HN. rewrite S2_form. destruct (on_the_way (tmpp N) P || on_the_way (tmpp N) tbase); [reflexivity|].
  assert (G : existsb (fun N' => path_eqb (tmpp N) (outp N') || path_eqb (tmpp N) (tmpp N')) (seq 0 K) = true).
  { apply existsb_exists. exists N. split; [apply in_seq0; exact HN|]. rewrite path_eqb_refl. apply orb_true_r. }
  rewrite G. reflexivity.
Qed.

(* strictly below an output path or a temp directory there is nothing after phase 2 *)
Lemma on_the_way_longer : forall (b : path) x, x <> [] -> on_the_way (b ++ x) b = false.
Proof.
  intros b x Hx. unfold on_the_way. destruct (b ++ x) eqn:E; [reflexivity|]. rewrite <- E.
  apply is_prefix_longer. exact Hx.
Qed.

Lemma path_eqb_len : forall (x y : path), List.length x <> List.length y -> path_eqb x y = false.
Proof. intros x y H. apply path_eqb_neq. intro E. subst. contradiction. Qed.

Lemma S0_tmp_below : forall N q, is_prefix (tmpp N) q = true -> is_prefix P q = false -> S0 q = None.
Proof.
  intros N q H HPq. destruct Hprior as (_ & _ & _ & _ & Hext & _). unfold tmp_path in H.
  destruct (c_tmp cfg) as [|t] eqn:Et.
  - unfold out_path in *. apply is_prefix_iff in H as [r ->]. rewrite <- app_assoc, is_prefix_app in HPq. discriminate.
  - destruct Hext as [_ Hext]. apply (Hext N q H).
Qed.

Lemma S1_region_none : forall N q, is_prefix (outp N) q || is_prefix (tmpp N) q = true -> S1 q = None.
Proof.
  intros N q H. unfold S1. destruct (is_prefix P q) eqn:E; [reflexivity|].
  apply orb_prop in H as [H|H].
  - unfold out_path in H. apply is_prefix_iff in H as [r ->]. rewrite <- app_assoc, is_prefix_app in E. discriminate.
  - eapply S0_tmp_below; eauto.
Qed.

Lemma S2_below : forall N r, r <> [] -> S2 (outp N ++ r) = None /\ S2 (tmpp N ++ r) = None.
Proof.
  intros N r Hr.
  assert (Lr : 1 <= List.length r) by (destruct r; [contradiction|simpl; lia]).
  (* nothing of length >= |base| + 2 is on the way to, or equal to, an out / temp path *)
  assert (Gen : forall q, (is_prefix (outp N) q || is_prefix (tmpp N) q = true) ->
            on_the_way q P = false -> on_the_way q tbase = false ->
            (forall N', path_eqb q (outp N') = false) -> (forall N', path_eqb q (tmpp N') = false) ->
            S2 q = None).
  { intros q Hreg H1 H2 H3 H4. rewrite S2_form, H1, H2. simpl.
    assert (G : existsb (fun N' => path_eqb q (outp N') || path_eqb q (tmpp N')) (seq 0 K) = false).
    { apply not_true_is_false. intro E. apply existsb_exists in E as [N' [_ E]].
      rewrite H3, H4 in E. discriminate. }
    rewrite G. eapply S1_region_none; eauto. }
  split.
  - apply Gen.
    + rewrite is_prefix_app. reflexivity.
    + unfold out_path. rewrite <- app_assoc. apply on_the_way_longer. discriminate.
    + unfold tbase. destruct (c_tmp cfg) as [|t] eqn:Et.
      * unfold out_path. rewrite <- app_assoc. apply on_the_way_longer. discriminate.
      * unfold on_the_way. destruct (outp N ++ r) eqn:E; [reflexivity|]. rewrite <- E.
        destruct (is_prefix (outp N ++ r) t) eqn:E2; [|reflexivity]. exfalso.
        pose proof Hsep as Hs. unfold tmp_separate in Hs. rewrite Et in Hs. destruct Hs as [Hs _].
        assert (C : is_prefix P t = true).
        { eapply is_prefix_trans; [|exact E2]. unfold out_path. rewrite <- app_assoc. apply is_prefix_app. }
        congruence.
    + intro N'. apply path_eqb_len. unfold out_path. rewrite !app_length. simpl. lia.
    + intro N'. unfold tmp_path. destruct (c_tmp cfg) as [|t] eqn:Et.
      * apply path_eqb_len. unfold out_path. rewrite !app_length. simpl. lia.
      * apply path_eqb_neq. intro E.
        assert (G : is_prefix (t ++ [NTmp N']) (outp N ++ r) = true) by (rewrite E; apply is_prefix_refl).
        erewrite ext_not_under_P in G; [discriminate|exact Et|].
        unfold out_path. rewrite <- app_assoc. apply strip_prefix_app.
  - apply Gen.
    + rewrite is_prefix_app. apply orb_true_r.
    + unfold on_the_way. destruct (tmpp N ++ r) eqn:E; [reflexivity|]. rewrite <- E.
      destruct (is_prefix (tmpp N ++ r) P) eqn:E2; [|reflexivity]. exfalso.
      assert (C : is_prefix (tmpp N) P = true) by (eapply is_prefix_trans; [apply is_prefix_app|exact E2]).
      rewrite tmpp_vs_P in C. discriminate.
    + rewrite tmpp_eq, <- app_assoc. apply on_the_way_longer. discriminate.
    + intro N'. unfold tmp_path. destruct (c_tmp cfg) as [|t] eqn:Et.
      * apply path_eqb_len. unfold out_path. rewrite !app_length. simpl. lia.
      * apply path_eqb_neq. intro E.
        assert (G : is_prefix (t ++ [NTmp N]) (outp N') = true) by (rewrite <- E; apply is_prefix_app).
        erewrite ext_not_under_P in G; [discriminate|exact Et|]. unfold out_path. apply strip_prefix_app.
    + intro N'. apply path_eqb_len. rewrite !tmpp_eq, !app_length. simpl. lia.
Qed.

(* ------------------------------------------------------------------ phase 3: the sub-part files *)
Hypothesis Hasg : wf_asg K asg.

Definition cells_of_input (i : nat) : list cell := map (fun N => (i, N)) (nth i asg []).
Definition cells3 : list cell := flat_map cells_of_input (c_iorder cfg).

Definition set_step (S : spec) (c : cell) : spec := s_set (subp c) (File (CRows [c])) S.
Definition set_all (L : list cell) (S : spec) : spec := fold_left set_step L S.

Lemma miter_map : forall St A B (g : B -> M St unit) (h : A -> B) l s,
  miter g (map h l) s = miter (fun x => g (h x)) l s.
Proof.
  intros St A B g h l. induction l as [|x l IH]; intro s; simpl; [reflexivity|].
  unfold bind. destruct (g (h x) s); [apply IH|reflexivity].
Qed.

Lemma phase3_flat : forall l f,
  miter (process_partition pure_wrappers cfg asg) l f =
  miter (fun c => w_write_partition pure_wrappers (subp c) (CRows [c])) (flat_map cells_of_input l) f.
Proof.
  induction l as [|i l IH]; intro f; simpl; [reflexivity|].
  rewrite miter_app. unfold bind.
  assert (E : process_partition pure_wrappers cfg asg i f =
              miter (fun c => w_write_partition pure_wrappers (subp c) (CRows [c])) (cells_of_input i) f).
  { unfold process_partition, cells_of_input. rewrite miter_map. reflexivity. }
  rewrite E. destruct (miter _ (cells_of_input i) f) as [u f1|f1]; [apply IH|reflexivity].
Qed.

Lemma cells3_valid : forall c, In c cells3 -> snd c < K /\ In (snd c) (nth (fst c) asg []).
Proof.
  intros c H. unfold cells3 in H. apply in_flat_map in H as [i [_ H]].
  unfold cells_of_input in H. apply in_map_iff in H as [N [<- HN]]. simpl. split; [|exact HN].
  destruct (nth_in_or_default i asg []) as [Hin|Hd].
  - apply (Hasg _ _ Hin HN).
  - rewrite Hd in HN. contradiction.
Qed.

Lemma subp_neq_tmpp : forall c N, path_eqb (subp c) (tmpp N) = false.
Proof.
  intros c N. apply path_eqb_len. unfold subp. rewrite !tmpp_eq, !app_length. simpl. lia.
Qed.

Lemma miter_cons : forall St A (g : A -> M St unit) x l s,
  miter g (x :: l) s = match g x s with OK _ s1 => miter g l s1 | Err s1 => Err s1 end.
Proof. reflexivity. Qed.

Lemma phase3_loop : forall L f S, good f S ->
  (forall c, In c L -> S (tmpp (snd c)) = Some Dir) ->
  (forall c, In c L -> S (subp c) <> Some Dir) ->
  exists f', miter (fun c => w_write_partition pure_wrappers (subp c) (CRows [c])) L f = OK tt f' /\
             good f' (set_all L S).
Proof.
  induction L as [|c L IH]; intros f S HG Hd Hn.
  - exists f. split; [reflexivity|exact HG].
  - rewrite miter_cons.
    destruct (write_models f S (subp c) (CRows [c]) HG) as [fa [Ea Ga]].
    + apply snoc_not_nil.
    + rewrite parent_subp. apply Hd. left. reflexivity.
    + apply Hn. left. reflexivity.
    + destruct (IH fa (set_step S c) Ga) as [f' [E' G']].
      * intros c' Hc'. unfold set_step, s_set. rewrite subp_neq_tmpp. apply Hd. right. exact Hc'.
      * intros c' Hc'. unfold set_step, s_set. destruct (path_eqb (subp c) (subp c')); [discriminate|].
        apply Hn. right. exact Hc'.
      * exists f'. split; [|exact G'].
        change (w_write_partition pure_wrappers (subp c) (CRows [c]) f)
          with (p_write pure_prims (subp c) (CRows [c]) f).
        rewrite Ea. exact E'.
Qed.

Lemma set_all_snoc : forall L c S, set_all (L ++ [c]) S = set_step (set_all L S) c.
Proof. intros. unfold set_all. rewrite fold_left_app. reflexivity. Qed.

Lemma set_all_miss : forall L S q, (forall c, In c L -> subp c <> q) -> set_all L S q = S q.
Proof.
  induction L as [|c L IH] using rev_ind; intros S q H; [reflexivity|].
  rewrite set_all_snoc. unfold set_step, s_set.
  destruct (path_eqb_spec (subp c) q) as [E|NE].
  - exfalso. apply (H c); [apply in_or_app; right; left; reflexivity|exact E].
  - apply IH. intros c' Hc'. apply H. apply in_or_app. left. exact Hc'.
Qed.

Lemma set_all_hit : forall L S c, In c L -> set_all L S (subp c) = Some (File (CRows [c])).
Proof.
  induction L as [|c0 L IH] using rev_ind; intros S c H; [contradiction|].
  rewrite set_all_snoc. unfold set_step, s_set.
  destruct (path_eqb_spec (subp c0) (subp c)) as [E|NE].
  - apply subp_inj in E. subst. reflexivity.
  - apply IH. apply in_app_or in H as [H|[H|[]]]; [exact H|]. subst. contradiction.
Qed.

Definition S3 : spec := set_all cells3 S2.

Lemma subp_below : forall c, exists r, r <> [] /\ subp c = tmpp (snd c) ++ r.
Proof. intro c. exists [NSub (fst c)]. split; [discriminate|reflexivity]. Qed.

Lemma phase3 : forall f2, good f2 S2 ->
  exists f3, miter (process_partition pure_wrappers cfg asg) (c_iorder cfg) f2 = OK tt f3 /\ good f3 S3.
Proof.
  intros f2 G. rewrite phase3_flat. apply phase3_loop; [exact G| |].
  - intros c Hc. apply S2_tmpp. apply cells3_valid. exact Hc.
  - intros c Hc. destruct (subp_below c) as [r [Hr ->]].
    destruct (S2_below (snd c) r Hr) as [_ E]. rewrite E. discriminate.
Qed.

(* ------------------------------------------------------------------ listings and reads *)
Lemma count_path_perm : forall p a b, Permutation a b -> count_path p a = count_path p b.
Proof.
  intros p a b H. induction H as [|x l l' H IH|x y l|l l' l'' H1 IH1 H2 IH2]; simpl.
  - reflexivity.
  - rewrite IH. reflexivity.
  - lia.
  - congruence.
Qed.

Lemma perm_eqb_of_perm : forall a b, Permutation a b -> paths_perm_eqb a b = true.
Proof.
  intros a b H. unfold paths_perm_eqb. apply andb_true_intro. split.
  - apply Nat.eqb_eq. apply Permutation_length. exact H.
  - apply forallb_forall. intros x _. apply Nat.eqb_eq. apply count_path_perm. exact H.
Qed.

Lemma insert_path_perm : forall p l, Permutation (insert_path p l) (p :: l).
Proof.
  intros p l. induction l as [|q l IH]; simpl; [reflexivity|].
  destruct (path_leb p q); [reflexivity|].
  rewrite IH. apply perm_swap.
Qed.

Lemma sort_paths_perm : forall l, Permutation (sort_paths l) l.
Proof.
  induction l as [|p l IH]; simpl; [reflexivity|]. rewrite insert_path_perm. constructor. exact IH.
Qed.

Lemma In_children_iff : forall f p c,
  In c (children f p) <-> is_child p c = true /\ assoc f c <> None.
Proof.
  intros f p c. unfold children. rewrite in_map_iff. split.
  - intros [[k n] [E H]]. simpl in E. subst k. apply filter_In in H as [H Hc]. simpl in Hc.
    split; [exact Hc|]. apply In_keys_assoc. apply in_map_iff. exists (c, n). auto.
  - intros [Hc Ha]. apply In_keys_assoc in Ha. apply in_map_iff in Ha as [[k n] [E H]]. simpl in E. subst k.
    exists (c, n). split; [reflexivity|]. apply filter_In. auto.
Qed.

Lemma NoDup_map_filter : forall A B (g : A -> B) (h : A -> bool) l,
  NoDup (map g l) -> NoDup (map g (filter h l)).
Proof.
  intros A B g h l. induction l as [|x l IH]; intro H; simpl; [constructor|].
  inversion H as [|? ? Hx Hl]. subst. destruct (h x); simpl; [|apply IH; exact Hl].
  constructor; [|apply IH; exact Hl]. intro Hin. apply Hx.
  apply in_map_iff in Hin as [y [E Hy]]. apply filter_In in Hy as [Hy _].
  apply in_map_iff. eauto.
Qed.

Lemma NoDup_children : forall f p, nodup_keys f = true -> NoDup (children f p).
Proof.
  intros f p H. unfold children. apply NoDup_map_filter. apply nodup_keys_NoDup. exact H.
Qed.

Lemma pq_read_file_ok : forall f p cs, node_at f p = Some (File (CRows cs)) ->
  pq_read_file pure_prims p f = OK cs f.
Proof.
  intros f p cs H. unfold pq_read_file, bind. simpl. unfold lift_q, lift_o, isfile_b, read.
  rewrite H. cbv iota beta. rewrite ?H. reflexivity.
Qed.

Lemma mmap_cons_eq : forall St A B (g : A -> M St B) x t s,
  mmap g (x :: t) s =
    match g x s with
    | OK y s1 => match mmap g t s1 with OK ys s2 => OK (y :: ys) s2 | Err s2 => Err s2 end
    | Err s1 => Err s1
    end.
Proof.
  intros. simpl. unfold bind. destruct (g x s) as [y s1|s1]; [|reflexivity].
  destruct (mmap g t s1); reflexivity.
Qed.

Lemma mmap_try_ok : forall f l cs,
  Forall2 (fun p c => node_at f p = Some (File (CRows [c]))) l cs ->
  mmap (fun p => try (pq_read_file pure_prims p)) l f = OK (map (fun c => Some [c]) cs) f.
Proof.
  intros f l cs H. induction H as [|p c l cs Hp H IH]; [reflexivity|].
  rewrite mmap_cons_eq. unfold try at 1. rewrite (pq_read_file_ok _ _ _ Hp). rewrite IH. reflexivity.
Qed.

Lemma pq_read_list_ok : forall f l cs, l <> [] ->
  Forall2 (fun p c => node_at f p = Some (File (CRows [c]))) l cs ->
  pq_read_list pure_prims l f = OK cs f.
Proof.
  intros f l cs Hl H. unfold pq_read_list. destruct l as [|p0 l]; [contradiction|].
  inversion H as [|? c0 ? cs0 Hp0 H0]. subst.
  unfold bind. rewrite (pq_read_file_ok _ _ _ Hp0). rewrite (mmap_try_ok _ _ _ H).
  assert (G1 : forallb (fun r : option (list cell) => match r with Some _ => true | None => false end)
                 (map (fun c => Some [c]) (c0 :: cs0)) = true).
  { apply forallb_forall. intros x Hx. apply in_map_iff in Hx as [c [<- _]]. reflexivity. }
  rewrite G1. unfold ret. f_equal.
  clear. induction (c0 :: cs0) as [|c l IH]; simpl; [reflexivity|]. rewrite IH. reflexivity.
Qed.

(* the sub-part paths of an output are the sub-part files of its cells *)
Lemma subparts_from_cells : forall a i N,
  subparts_from cfg a i N = map subp (cells_from a i N).
Proof.
  induction a as [|outs a IH]; intros i N; simpl; [reflexivity|].
  rewrite map_app, IH. destruct (existsb (Nat.eqb N) outs); reflexivity.
Qed.

Lemma subparts_cells : forall N, subparts cfg asg N = map subp (cells_of asg N).
Proof. intro N. apply subparts_from_cells. Qed.

Lemma cells_from_spec : forall a i N c,
  In c (cells_from a i N) <-> exists j, c = (i + j, N) /\ In N (nth j a []) .
Proof.
  induction a as [|outs a IH]; intros i N c; simpl.
  - split; [contradiction|]. intros [j [_ H]]. destruct j; contradiction.
  - rewrite in_app_iff, IH. split.
    + intros [H|[j [-> H]]].
      * destruct (existsb (Nat.eqb N) outs) eqn:E; [|contradiction]. destruct H as [<-|[]].
        exists 0. split; [f_equal; lia|]. simpl. apply existsb_exists in E as [x [Hx E]].
        apply Nat.eqb_eq in E. subst. exact Hx.
      * exists (S j). split; [f_equal; lia|exact H].
    + intros [[|j] [-> H]].
      * left. simpl in H.
        assert (E : existsb (Nat.eqb N) outs = true).
        { apply existsb_exists. exists N. split; [exact H|apply Nat.eqb_refl]. }
        rewrite E. left. f_equal. lia.
      * right. exists j. split; [f_equal; lia|exact H].
Qed.

Lemma cells_of_spec : forall N c, In c (cells_of asg N) <-> snd c = N /\ In N (nth (fst c) asg []).
Proof.
  intros N [i N']. unfold cells_of. rewrite cells_from_spec. simpl. split.
  - intros [j [E H]]. injection E as -> ->. auto.
  - intros [-> H]. exists i. auto.
Qed.

Lemma NoDup_cells_from : forall a i N, NoDup (cells_from a i N).
Proof.
  induction a as [|outs a IH]; intros i N; simpl; [constructor|].
  destruct (existsb (Nat.eqb N) outs); simpl; [|apply IH].
  constructor; [|apply IH]. intro H. apply cells_from_spec in H as [j [E _]]. injection E. lia.
Qed.

(* ------------------------------------------------------------------ phase 4: concat_parts *)
Hypothesis Hord : wf_orders cfg asg.

Definition in_reg (N : nat) (q : path) : bool := is_prefix (outp N) q || is_prefix (tmpp N) q.

Lemma cells3_iff : forall c, In c cells3 <-> In c (cells_of asg (snd c)).
Proof.
  intros [i N]. rewrite cells_of_spec. simpl. unfold cells3. rewrite in_flat_map. split.
  - intros [j [_ H]]. unfold cells_of_input in H. apply in_map_iff in H as [N' [E H]].
    injection E as -> ->. auto.
  - intros [_ H]. exists i. split.
    + destruct Hord as [Hio _]. apply (Permutation_in _ (Permutation_sym Hio)). apply in_seq0.
      destruct (Nat.lt_ge_cases i (List.length asg)) as [L|L]; [exact L|].
      rewrite nth_overflow in H by exact L. contradiction.
    + unfold cells_of_input. apply in_map. exact H.
Qed.

Lemma subp_in_reg : forall c, in_reg (snd c) (subp c) = true.
Proof. intro c. unfold in_reg, subp. rewrite is_prefix_app. apply orb_true_r. Qed.

Lemma subp_vs_outp : forall c N, path_eqb (subp c) (outp N) = false.
Proof.
  intros c N. unfold subp, tmp_path. destruct (c_tmp cfg) as [|t] eqn:Et.
  - apply path_eqb_len. unfold out_path. rewrite !app_length. simpl. lia.
  - apply path_eqb_neq. intro E.
    assert (G : is_prefix (t ++ [NTmp (snd c)]) (outp N) = true) by (rewrite <- E; apply is_prefix_app).
    erewrite ext_not_under_P in G; [discriminate|exact Et|]. unfold out_path. apply strip_prefix_app.
Qed.

Lemma S3_tmpp : forall N, N < K -> S3 (tmpp N) = Some Dir.
Proof.
  intros N HN. unfold S3. rewrite set_all_miss; [apply S2_tmpp; exact HN|].
  intros c _ E. pose proof (subp_neq_tmpp c N) as G. rewrite E, path_eqb_refl in G. discriminate.
Qed.

Lemma S3_outp : forall N, N < K -> S3 (outp N) = Some Dir.
Proof.
  intros N HN. unfold S3. rewrite set_all_miss; [apply S2_outp; exact HN|].
  intros c _ E. pose proof (subp_vs_outp c N) as G. rewrite E, path_eqb_refl in G. discriminate.
Qed.

Lemma S3_P : S3 P = Some Dir.
Proof.
  unfold S3. rewrite set_all_miss; [apply S2_P|].
  intros c _ E. pose proof (tmpp_vs_P (snd c)) as G.
  rewrite <- E in G. unfold subp in G. rewrite is_prefix_app in G. discriminate.
Qed.

Lemma S3_subp : forall c, In c (cells_of asg (snd c)) -> S3 (subp c) = Some (File (CRows [c])).
Proof. intros c H. apply set_all_hit. apply cells3_iff. exact H. Qed.

(* the directory listing of a temp directory whose region is still as phase 3 left it *)
Lemma children_tmpp : forall N f S, good f S ->
  (forall q, in_reg N q = true -> S q = S3 q) ->
  Permutation (children f (tmpp N)) (map subp (cells_of asg N)).
Proof.
  intros N f S [HM HN] Hreg. apply NoDup_Permutation.
  - apply NoDup_children. exact HN.
  - apply FinFun.Injective_map_NoDup; [intros x y; apply subp_inj|apply NoDup_cells_from].
  - intro x. rewrite In_children_iff, in_map_iff. split.
    + intros [Hc Ha]. apply is_child_iff in Hc as [a ->].
      assert (Hx : tmpp N ++ [a] <> []) by apply snoc_not_nil.
      rewrite <- node_at_nonnil in Ha by exact Hx. rewrite HM in Ha.
      rewrite Hreg in Ha by (unfold in_reg; rewrite is_prefix_app; apply orb_true_r).
      destruct (existsb (fun c => path_eqb (subp c) (tmpp N ++ [a])) cells3) eqn:Ex.
      * apply existsb_exists in Ex as [c [Hc E]]. apply path_eqb_eq in E.
        exists c. split; [exact E|]. unfold subp in E. apply app_inj_tail in E as [E _].
        rewrite !tmpp_eq in E. apply app_inj_tail in E as [_ E]. apply tname_inj in E.
        apply cells3_iff in Hc. rewrite E in Hc. exact Hc.
      * exfalso. apply Ha. unfold S3. rewrite set_all_miss.
        -- apply S2_below. discriminate.
        -- intros c Hc E. assert (G : existsb (fun c => path_eqb (subp c) (tmpp N ++ [a])) cells3 = true).
           { apply existsb_exists. exists c. split; [exact Hc|]. rewrite E. apply path_eqb_refl. }
           congruence.
    + intros [c [<- Hc]]. pose proof Hc as Hc'. apply cells_of_spec in Hc' as [Hs _].
      split.
      * apply is_child_iff. exists (NSub (fst c)). unfold subp. rewrite Hs. reflexivity.
      * rewrite <- node_at_nonnil by apply snoc_not_nil. rewrite HM, Hreg.
        -- rewrite S3_subp; [discriminate|]. rewrite Hs. exact Hc.
        -- rewrite <- Hs. apply subp_in_reg.
Qed.

Lemma body_read_parquet_pure : forall tmp subs out f l,
  isfile_b f out = false -> ls f tmp = Some l -> paths_perm_eqb subs (sort_paths l) = true ->
  body_read_parquet pure_prims tmp subs out f = pq_read_list pure_prims (sort_paths l) f.
Proof.
  intros tmp subs out f l H1 H2 H3. unfold body_read_parquet.
  unfold bind at 1. simpl p_isfile. unfold lift_q at 1. rewrite H1.
  unfold bind at 1. unfold ret at 1.
  unfold bind at 1. simpl p_ls. unfold lift_o at 1. rewrite H2. rewrite H3. reflexivity.
Qed.

Definition U (N : nat) (r : option (list cell)) (S : spec) : spec :=
  match r with
  | Some cells => s_set (outp N) (File (CRows cells)) (s_rm (outp N) (s_rm (tmpp N) S))
  | None => s_rm (outp N) (s_rm (tmpp N) S)
  end.

Lemma two_rms : forall N f S, N < K -> good f S -> (forall q, in_reg N q = true -> S q = S3 q) ->
  exists f2, (w_rm pure_wrappers (tmpp N) ;;; w_rm pure_wrappers (outp N)) f = OK tt f2 /\
             good f2 (s_rm (outp N) (s_rm (tmpp N) S)).
Proof.
  intros N f S HN HG Hreg.
  destruct (rm_models f S (tmpp N) HG (tmpp_nonnil N)) as [f1 [E1 G1]].
  { intro H. rewrite Hreg, S3_tmpp in H by (try exact HN; unfold in_reg; rewrite is_prefix_refl; apply orb_true_r).
    discriminate. }
  destruct (rm_models f1 _ (outp N) G1 (outp_nonnil N)) as [f2 [E2 G2]].
  { intros H q Hq. unfold s_rm in *.
    destruct (is_prefix (tmpp N) (outp N)) eqn:Eto.
    - rewrite (is_prefix_trans _ _ _ Eto Hq). reflexivity.
    - rewrite Hreg, S3_outp in H by (try exact HN; unfold in_reg; rewrite is_prefix_refl; reflexivity).
      discriminate. }
  exists f2. split; [|exact G2]. unfold bind.
  change (w_rm pure_wrappers (tmpp N) f) with (body_rm pure_prims (tmpp N) f). rewrite E1.
  exact E2.
Qed.

Lemma concat_step : forall N f S, N < K -> good f S -> S P = Some Dir ->
  (forall q, in_reg N q = true -> S q = S3 q) ->
  exists r f', concat_parts pure_wrappers (tmpp N) (subparts cfg asg N) (outp N) f = OK r f' /\
    good f' (U N r S) /\
    ((r = None /\ cells_of asg N = []) \/
     (exists cells, r = Some cells /\ Permutation cells (cells_of asg N) /\ cells_of asg N <> [])).
Proof.
  intros N f S HN HG HSP Hreg. rewrite subparts_cells.
  destruct (two_rms N f S HN HG Hreg) as [f2 [E2 G2]].
  destruct (cells_of asg N) as [|c0 cs] eqn:Ec.
  - (* empty output: remove the temp directory and the placeholder *)
    exists None, f2. split; [|split; [exact G2|left; auto]].
    change (concat_parts pure_wrappers (tmpp N) (map subp []) (outp N) f) with
      ((w_rm pure_wrappers (tmpp N) ;;; w_rm pure_wrappers (outp N) ;;; ret (@None (list cell))) f).
    unfold bind in *.
    destruct (w_rm pure_wrappers (tmpp N) f) as [u fa|fa]; [|discriminate].
    rewrite E2. reflexivity.
  - (* read the sub-parts *)
    pose proof HG as [HM HNd].
    pose proof (children_tmpp N f S HG Hreg) as Hperm. rewrite Ec in Hperm.
    assert (Hsort : Permutation (sort_paths (children f (tmpp N))) (map subp (c0 :: cs))).
    { rewrite sort_paths_perm. exact Hperm. }
    destruct (Permutation_map_inv _ _ Hsort) as [cs' [Ecs' Hcs']].
    assert (Hread : pq_read_list pure_prims (sort_paths (children f (tmpp N))) f = OK cs' f).
    { apply pq_read_list_ok.
      - intro E. rewrite E in Hsort. apply Permutation_nil in Hsort. discriminate.
      - rewrite Ecs'. clear Ecs'.
        assert (Hall : forall c, In c cs' -> node_at f (subp c) = Some (File (CRows [c]))).
        { intros c Hc. assert (Hc0 : In c (cells_of asg N)).
          { rewrite Ec. apply (Permutation_in _ (Permutation_sym Hcs')). exact Hc. }
          pose proof Hc0 as Hc1. apply cells_of_spec in Hc1 as [Hs _].
          rewrite HM, Hreg by (rewrite <- Hs; apply subp_in_reg).
          apply S3_subp. rewrite Hs. exact Hc0. }
        clear - Hall. induction cs' as [|c l IH]; simpl; constructor.
        + apply Hall. left. reflexivity.
        + apply IH. intros c' Hc'. apply Hall. right. exact Hc'. }
    assert (Hrd : w_read_parquet pure_wrappers (tmpp N) (map subp (c0 :: cs)) (outp N) f = OK cs' f).
    { change (w_read_parquet pure_wrappers) with (body_read_parquet pure_prims).
      rewrite (body_read_parquet_pure _ _ _ _ (children f (tmpp N))); [exact Hread| | |].
      - unfold isfile_b. rewrite HM, Hreg, S3_outp; [reflexivity|exact HN|].
        unfold in_reg. rewrite is_prefix_refl. reflexivity.
      - unfold ls. rewrite HM, Hreg, S3_tmpp; [reflexivity|exact HN|].
        unfold in_reg. rewrite is_prefix_refl. apply orb_true_r.
      - apply perm_eqb_of_perm. apply Permutation_sym. exact Hsort. }
    (* write the part *)
    destruct (write_models f2 _ (outp N) (CRows cs') G2 (outp_nonnil N)) as [f3 [E3 G3]].
    { rewrite parent_outp. unfold s_rm.
      assert (G : is_prefix (outp N) P = false).
      { unfold out_path. apply is_prefix_longer. discriminate. }
      rewrite G, tmpp_vs_P. exact HSP. }
    { unfold s_rm at 1. rewrite is_prefix_refl. discriminate. }
    exists (Some cs'), f3. split; [|split; [exact G3|]].
    + change (concat_parts pure_wrappers (tmpp N) (map subp (c0 :: cs)) (outp N) f) with
        ((cells <- w_read_parquet pure_wrappers (tmpp N) (map subp (c0 :: cs)) (outp N) ;;
          w_rm pure_wrappers (tmpp N) ;;; w_rm pure_wrappers (outp N) ;;;
          w_write_concatted pure_wrappers (outp N) cells ;;; ret (Some cells)) f).
      unfold bind at 1. rewrite Hrd. unfold bind in *.
      destruct (w_rm pure_wrappers (tmpp N) f) as [u fa|fa]; [|discriminate]. rewrite E2.
      change (w_write_concatted pure_wrappers (outp N) cs' f2) with (p_write pure_prims (outp N) (CRows cs') f2).
      rewrite E3. reflexivity.
    + right. exists cs'. split; [reflexivity|]. split; [|discriminate].
      apply Permutation_sym. exact Hcs'.
Qed.

(* regions of different outputs are disjoint *)
Lemma reg_disjoint : forall N N' q, N <> N' -> in_reg N' q = true -> in_reg N q = false.
Proof.
  intros N N' q NE H. unfold in_reg in *. rewrite !is_prefix_outp, !is_prefix_tmpp in *.
  destruct (c_tmp cfg) as [|t] eqn:Et.
  - (* default mode: the temp directory is the output path *)
    assert (Eb : tbase = P) by (unfold tbase; rewrite Et; reflexivity).
    assert (En : forall M, tname M = NPart M) by (intro M; unfold tname; rewrite Et; reflexivity).
    rewrite Eb, !En in *.
    destruct (strip_prefix P q) as [[|[M| | | | |] r]|]; simpl in *; try discriminate.
    apply orb_prop in H. assert (E : Nat.eqb N' M = true) by (destruct H; assumption).
    apply Nat.eqb_eq in E. subst M.
    assert (G : Nat.eqb N N' = false) by (apply Nat.eqb_neq; exact NE). rewrite G. reflexivity.
  - assert (Eb : tbase = t) by (unfold tbase; rewrite Et; reflexivity).
    assert (En : forall M, tname M = NTmp M) by (intro M; unfold tname; rewrite Et; reflexivity).
    rewrite Eb, !En in *.
    destruct (strip_prefix P q) as [rl|] eqn:EP.
    + (* q under the dataset: not under any temp directory *)
      assert (Gt : forall M, match strip_prefix t q with Some (b :: _) => name_eqb (NTmp M) b | _ => false end = false).
      { intro M. pose proof (ext_not_under_P t M q rl Et EP) as G. rewrite is_prefix_snoc in G. exact G. }
      rewrite !Gt in *. rewrite orb_false_r in *.
      destruct rl as [|[M| | | | |] r]; simpl in *; try discriminate.
      apply Nat.eqb_eq in H. subst M. apply Nat.eqb_neq. exact NE.
    + simpl in *. destruct (strip_prefix t q) as [[|[| |M| | |] r]|]; simpl in *; try discriminate.
      apply Nat.eqb_eq in H. subst M. apply Nat.eqb_neq. exact NE.
Qed.

Lemma U_miss : forall N r S q, in_reg N q = false -> U N r S q = S q.
Proof.
  intros N r S q H. unfold in_reg in H. apply orb_false_elim in H as [H1 H2].
  assert (G : path_eqb (outp N) q = false).
  { destruct (path_eqb_spec (outp N) q) as [<-|]; [|reflexivity]. rewrite is_prefix_refl in H1. discriminate. }
  unfold U. destruct r; unfold s_set, s_rm; rewrite ?G, H1, H2; reflexivity.
Qed.

Definition U_val (N : nat) (r : option (list cell)) (q : path) : option node :=
  match r with
  | Some cells => if path_eqb (outp N) q then Some (File (CRows cells)) else None
  | None => None
  end.

Lemma U_hit : forall N r S q, in_reg N q = true -> U N r S q = U_val N r q.
Proof.
  intros N r S q H. unfold U, U_val, s_set, s_rm. unfold in_reg in H.
  destruct r as [cells|].
  - destruct (path_eqb (outp N) q); [reflexivity|].
    destruct (is_prefix (outp N) q); [reflexivity|]. simpl in H. rewrite H. reflexivity.
  - destruct (is_prefix (outp N) q); [reflexivity|]. simpl in H. rewrite H. reflexivity.
Qed.

Definition Ufold (rs : list (nat * option (list cell))) (S : spec) : spec :=
  fold_left (fun S nr => U (fst nr) (snd nr) S) rs S.

Lemma Ufold_miss : forall rs S q, (forall nr, In nr rs -> in_reg (fst nr) q = false) -> Ufold rs S q = S q.
Proof.
  induction rs as [|[N r] rs IH]; intros S q H; [reflexivity|].
  unfold Ufold in *. simpl. rewrite IH.
  - apply U_miss. apply (H (N, r)). left. reflexivity.
  - intros nr Hnr. apply H. right. exact Hnr.
Qed.

Lemma Ufold_hit : forall rs S N r q, NoDup (map fst rs) -> In (N, r) rs -> in_reg N q = true ->
  Ufold rs S q = U_val N r q.
Proof.
  induction rs as [|[N0 r0] rs IH]; intros S N r q Hnd Hin Hq; [contradiction|].
  unfold Ufold in *. simpl in *. inversion Hnd as [|? ? Hx Hnd']. subst.
  destruct Hin as [E|Hin].
  - injection E as -> ->. change (Ufold rs (U N r S) q = U_val N r q). rewrite Ufold_miss.
    + apply U_hit. exact Hq.
    + intros [N' r'] Hnr. simpl. apply (reg_disjoint N' N q); [|exact Hq].
      intros ->. apply Hx. apply in_map_iff. exists (N, r'). auto.
  - apply IH; assumption.
Qed.

Definition res_ok (N : nat) (r : option (list cell)) : Prop :=
  (r = None /\ cells_of asg N = []) \/
  (exists cells, r = Some cells /\ Permutation cells (cells_of asg N) /\ cells_of asg N <> []).

Definition concat_task (N : nat) : M fs (nat * option (list cell)) :=
  r <- concat_parts pure_wrappers (tmpp N) (subparts cfg asg N) (outp N) ;; ret (N, r).

Lemma U_P : forall N r S, U N r S P = S P.
Proof.
  intros N r S. apply U_miss. unfold in_reg. rewrite tmpp_vs_P.
  assert (G : is_prefix (outp N) P = false) by (unfold out_path; apply is_prefix_longer; discriminate).
  rewrite G. reflexivity.
Qed.

Lemma concat_loop : forall l f S, NoDup l -> (forall N, In N l -> N < K) -> good f S -> S P = Some Dir ->
  (forall N q, In N l -> in_reg N q = true -> S q = S3 q) ->
  exists rs f', mmap concat_task l f = OK rs f' /\ good f' (Ufold rs S) /\ map fst rs = l /\
                Forall (fun nr => res_ok (fst nr) (snd nr)) rs.
Proof.
  induction l as [|N l IH]; intros f S Hnd Hlt HG HSP Hreg.
  - exists [], f. repeat split; [exact (proj1 HG)|exact (proj2 HG)|constructor].
  - inversion Hnd as [|? ? Hx Hnd']. subst.
    destruct (concat_step N f S) as [r [f1 [E1 [G1 R1]]]];
      [apply Hlt; left; reflexivity|exact HG|exact HSP|intros q Hq; apply (Hreg N q); [left; reflexivity|exact Hq]|].
    destruct (IH f1 (U N r S) Hnd') as [rs [f' [E' [G' [Hfst Hres]]]]].
    + intros N' H'. apply Hlt. right. exact H'.
    + exact G1.
    + rewrite U_P. exact HSP.
    + intros N' q H' Hq. rewrite U_miss.
      * apply (Hreg N' q); [right; exact H'|exact Hq].
      * apply (reg_disjoint N N' q); [|exact Hq]. intros ->. contradiction.
    + exists ((N, r) :: rs), f'. split; [|split; [exact G'|split; [simpl; rewrite Hfst; reflexivity|]]].
      * rewrite mmap_cons_eq. unfold concat_task at 1. unfold bind at 1. rewrite E1. unfold ret at 1.
        rewrite E'. reflexivity.
      * constructor; [exact R1|exact Hres].
Qed.

(* ------------------------------------------------------------------ phase 5: compaction *)
Definition s_mv (p1 dst : path) (S : spec) : spec :=
  fun q => match strip_prefix dst q with
           | Some r => S (p1 ++ r)
           | None => if is_prefix p1 q then None else S q
           end.

Fixpoint lookup_ne (x : nat) (ne : list (nat * list cell)) : option (list cell) :=
  match ne with
  | [] => None
  | (N, c) :: t => if Nat.eqb N x then Some c else lookup_ne x t
  end.

Lemma outp_inj : forall N N', outp N = outp N' -> N = N'.
Proof. intros N N' H. unfold out_path in H. apply app_inj_tail in H as [_ H]. injection H. auto. Qed.

Lemma is_prefix_outp_outp : forall N N', is_prefix (outp N) (outp N') = Nat.eqb N N'.
Proof.
  intros N N'. rewrite is_prefix_outp. unfold out_path. rewrite strip_prefix_app. reflexivity.
Qed.

Lemma strip_outp_outp : forall j x r, strip_prefix (outp j) (outp x ++ r) = if Nat.eqb j x then Some r else None.
Proof.
  intros j x r. unfold out_path. rewrite strip_prefix_snoc, <- app_assoc, strip_prefix_app. simpl.
  reflexivity.
Qed.

Lemma move_file_models : forall f S N j c, models f S ->
  S (outp N) = Some (File c) -> S (outp j) = None -> S P = Some Dir -> N <> j ->
  exists f', body_move pure_prims (outp N) (outp j) f = OK tt f' /\ models f' (s_mv (outp N) (outp j) S).
Proof.
  intros f S N j c HM HN Hj HSP NE.
  assert (E1 : is_prefix (outp N) (outp j) = false) by (rewrite is_prefix_outp_outp; apply Nat.eqb_neq; exact NE).
  assert (E2 : is_prefix (outp j) (outp N) = false) by (rewrite is_prefix_outp_outp; apply Nat.eqb_neq; auto).
  exists (do_rename f (outp N) (outp j)). split.
  - unfold body_move, bind. simpl. unfold lift_q, lift_m.
    assert (Ex : exists_b f (outp N) = true) by (unfold exists_b; rewrite HM, HN; reflexivity).
    rewrite Ex. unfold move.
    destruct (outp N) as [|a1 p1] eqn:EoN; [exfalso; apply (outp_nonnil N); exact EoN|]. rewrite <- EoN in *.
    rewrite HM, HN.
    assert (Ed : isdir_b f (outp j) = false) by (unfold isdir_b; rewrite HM, Hj; reflexivity). rewrite Ed.
    destruct (outp j) as [|a2 p2] eqn:Eoj; [exfalso; apply (outp_nonnil j); exact Eoj|]. rewrite <- Eoj in *.
    assert (Edp : isdir_b f (parent (outp j)) = true).
    { rewrite parent_outp. unfold isdir_b. rewrite HM, HSP. reflexivity. }
    rewrite Edp. simpl negb. cbv iota.
    assert (Ene : path_eqb (outp N) (outp j) = false).
    { apply path_eqb_neq. intro E. apply outp_inj in E. contradiction. }
    rewrite Ene, E1, E2. simpl. reflexivity.
  - intro q. rewrite node_at_do_rename; [|apply outp_nonnil|apply outp_nonnil|exact E1|exact E2].
    unfold s_mv. destruct (strip_prefix (outp j) q); [apply HM|]. destruct (is_prefix (outp N) q); [reflexivity|apply HM].
Qed.

Lemma compact_loop : forall ne j f S, models f S -> S P = Some Dir ->
  (forall N c, In (N, c) ne -> j <= N) ->
  StronglySorted (fun a b => fst a < fst b) ne ->
  (forall x r, r <> [] -> S (outp x ++ r) = None) ->
  (forall x, j <= x -> S (outp x) = match lookup_ne x ne with Some c => Some (File (CRows c)) | None => None end) ->
  exists f' S', compact pure_wrappers cfg ne j f = OK tt f' /\ models f' S' /\
    (forall q, (forall x, is_prefix (outp x) q = false) -> S' q = S q) /\
    (forall x r, r <> [] -> S' (outp x ++ r) = None) /\
    (forall x, x < j -> S' (outp x) = S (outp x)) /\
    (forall i, i < List.length ne -> S' (outp (j + i)) = Some (File (CRows (snd (nth i ne (0, [])))))) /\
    (forall x, j + List.length ne <= x -> S' (outp x) = None).
Proof.
  induction ne as [|[N c] ne IH]; intros j f S HM HSP Hge Hsort Ha Hb.
  - exists f, S. simpl. repeat split; auto; try (intros; lia).
    intros x Hx. rewrite Hb by lia. reflexivity.
  - inversion Hsort as [|? ? Hs Hall]. subst.
    assert (HN : j <= N) by (apply (Hge N c); left; reflexivity).
    assert (Hrest : forall N' c', In (N', c') ne -> N < N').
    { intros N' c' H'. rewrite Forall_forall in Hall. apply (Hall (N', c') H'). }
    assert (Hlk : forall x, x <= N -> lookup_ne x ne = None).
    { intros x Hx. clear - Hrest Hx. induction ne as [|[N' c'] ne IH]; [reflexivity|]. simpl.
      assert (N < N') by (apply (Hrest N' c'); left; reflexivity).
      destruct (Nat.eqb_spec N' x); [lia|]. apply IH. intros; eapply Hrest; right; eauto. }
    simpl compact. destruct (Nat.eqb_spec N j) as [->|NE].
    + (* already in place *)
      destruct (IH (Datatypes.S j) f S HM HSP) as [f' [S' [E [HM' [H1 [H2 [H3 [H4 H5]]]]]]]].
      * intros N' c' H'. apply Hrest in H'. lia.
      * exact Hs.
      * exact Ha.
      * intros x Hx. rewrite Hb by lia. simpl. destruct (Nat.eqb_spec j x); [lia|reflexivity].
      * exists f', S'. split; [unfold bind; simpl; exact E|]. split; [exact HM'|].
        split; [exact H1|]. split; [exact H2|]. split; [intros x Hx; apply H3; lia|]. split.
        -- intros [|i] Hi.
           ++ rewrite Nat.add_0_r. rewrite H3 by lia. rewrite Hb by lia. simpl. rewrite Nat.eqb_refl. reflexivity.
           ++ simpl in Hi. replace (j + Datatypes.S i) with (Datatypes.S j + i) by lia. simpl nth. apply H4. lia.
        -- intros x Hx. simpl in Hx. apply H5. lia.
    + (* move part.N down to part.j *)
      assert (HSN : S (outp N) = Some (File (CRows c))).
      { rewrite Hb by exact HN. simpl. rewrite Nat.eqb_refl. reflexivity. }
      assert (HSj : S (outp j) = None).
      { rewrite Hb by lia. simpl. destruct (Nat.eqb_spec N j); [contradiction|]. rewrite Hlk by lia. reflexivity. }
      destruct (move_file_models f S N j (CRows c) HM HSN HSj HSP NE) as [f1 [E1 HM1]].
      set (S1' := s_mv (outp N) (outp j) S) in *.
      assert (Hout : forall x, S1' (outp x) = if Nat.eqb j x then Some (File (CRows c))
                                               else if Nat.eqb N x then None else S (outp x)).
      { intro x. unfold S1', s_mv. rewrite <- (app_nil_r (outp x)) at 1. rewrite strip_outp_outp.
        destruct (Nat.eqb j x); [rewrite app_nil_r; exact HSN|]. rewrite is_prefix_outp_outp. reflexivity. }
      destruct (IH (Datatypes.S j) f1 S1' HM1) as [f' [S' [E [HM' [H1 [H2 [H3 [H4 H5]]]]]]]].
      * unfold S1', s_mv.
        assert (G : strip_prefix (outp j) P = None).
        { apply is_prefix_none. unfold out_path. apply is_prefix_longer. discriminate. }
        rewrite G. assert (G2 : is_prefix (outp N) P = false) by (unfold out_path; apply is_prefix_longer; discriminate).
        rewrite G2. exact HSP.
      * intros N' c' H'. apply Hrest in H'. lia.
      * exact Hs.
      * intros x r Hr. unfold S1', s_mv. rewrite strip_outp_outp.
        destruct (Nat.eqb j x); [apply Ha; exact Hr|].
        destruct (is_prefix (outp N) (outp x ++ r)); [reflexivity|apply Ha; exact Hr].
      * intros x Hx. rewrite Hout. destruct (Nat.eqb_spec j x); [lia|].
        destruct (Nat.eqb_spec N x) as [<-|NEx]; [rewrite Hlk by lia; reflexivity|].
        rewrite Hb by lia. simpl. destruct (Nat.eqb_spec N x); [contradiction|reflexivity].
      * exists f', S'. split.
        { unfold bind. change (w_move pure_wrappers (outp N) (outp j) f) with (body_move pure_prims (outp N) (outp j) f).
          rewrite E1. exact E. }
        split; [exact HM'|]. split.
        { intros q Hq. rewrite H1 by exact Hq. unfold S1', s_mv.
          assert (G : strip_prefix (outp j) q = None) by (apply is_prefix_none; apply Hq).
          rewrite G, Hq. reflexivity. }
        split; [exact H2|]. split.
        { intros x Hx. rewrite H3 by lia. rewrite Hout.
          destruct (Nat.eqb_spec j x); [lia|]. destruct (Nat.eqb_spec N x); [lia|reflexivity]. }
        split.
        -- intros [|i] Hi.
           ++ rewrite Nat.add_0_r. rewrite H3 by lia. rewrite Hout, Nat.eqb_refl. reflexivity.
           ++ simpl in Hi. replace (j + Datatypes.S i) with (Datatypes.S j + i) by lia. simpl nth. apply H4. lia.
        -- intros x Hx. simpl in Hx. apply H5. lia.
Qed.

(* ------------------------------------------------------------------ the tree after phase 4 *)
Lemma in_reg_outp : forall N r, in_reg N (outp N ++ r) = true.
Proof. intros. unfold in_reg. rewrite is_prefix_app. reflexivity. Qed.

Lemma in_reg_under_P : forall N q rl, strip_prefix P q = Some rl ->
  in_reg N q = match rl with NPart N' :: _ => Nat.eqb N N' | _ => false end.
Proof.
  intros N q rl H. unfold in_reg. rewrite is_prefix_outp, H.
  unfold tmp_path. destruct (c_tmp cfg) as [|t] eqn:Et.
  - fold (outp N). rewrite is_prefix_outp, H. destruct rl as [|[] ?]; try reflexivity. apply orb_diag.
  - rewrite (ext_not_under_P t N q rl Et H). apply orb_false_r.
Qed.

(* a sub-part file lies in the region of its output *)
Lemma subp_region : forall c q, subp c = q -> in_reg (snd c) q = true.
Proof. intros c q <-. apply subp_in_reg. Qed.

Lemma S3_outside_regions : forall q, (forall N, N < K -> in_reg N q = false) -> S3 q = S2 q.
Proof.
  intros q H. unfold S3. apply set_all_miss. intros c Hc E.
  apply subp_region in E. rewrite H in E; [discriminate|]. apply cells3_valid. exact Hc.
Qed.

(* below the dataset directory, anything that is not part.<n>.parquet[/...] is absent until
   the metadata files are written *)
Lemma under_P_other : forall a r, (forall N, a <> NPart N) ->
  (forall N, in_reg N (P ++ a :: r) = false) /\ S3 (P ++ a :: r) = None.
Proof.
  intros a r Ha.
  assert (Hreg : forall N, in_reg N (P ++ a :: r) = false).
  { intro N. rewrite (in_reg_under_P N _ (a :: r)) by apply strip_prefix_app.
    destruct a; try reflexivity. exfalso. apply (Ha n). reflexivity. }
  split; [exact Hreg|].
  rewrite S3_outside_regions by (intros; apply Hreg). rewrite S2_form.
  assert (G1 : on_the_way (P ++ a :: r) P = false) by (apply on_the_way_longer; discriminate).
  assert (G2 : on_the_way (P ++ a :: r) tbase = false).
  { unfold tbase. destruct (c_tmp cfg) as [|t] eqn:Et; [exact G1|].
    unfold on_the_way. destruct (P ++ a :: r) eqn:E; [reflexivity|]. rewrite <- E.
    destruct (is_prefix (P ++ a :: r) t) eqn:E2; [|reflexivity]. exfalso.
    pose proof Hsep as Hs. unfold tmp_separate in Hs. rewrite Et in Hs. destruct Hs as [Hs _].
    rewrite (is_prefix_trans P (P ++ a :: r) t (is_prefix_app _ _) E2) in Hs. discriminate. }
  rewrite G1, G2. simpl.
  assert (G3 : existsb (fun N => path_eqb (P ++ a :: r) (outp N) || path_eqb (P ++ a :: r) (tmpp N)) (seq 0 K) = false).
  { apply not_true_is_false. intro E. apply existsb_exists in E as [N [_ E]].
    apply orb_prop in E as [E|E]; apply path_eqb_eq in E.
    - pose proof (Hreg N) as G. rewrite E in G. unfold in_reg in G. rewrite is_prefix_refl in G. discriminate.
    - pose proof (Hreg N) as G. rewrite E in G. unfold in_reg in G. rewrite is_prefix_refl, orb_true_r in G. discriminate. }
  rewrite G3. apply S1_under. apply is_prefix_app.
Qed.

Section AfterConcat.
Variable rs : list (nat * option (list cell)).
Hypothesis Hrs_fst : Permutation (map fst rs) (seq 0 K).
Hypothesis Hrs_ok : Forall (fun nr => res_ok (fst nr) (snd nr)) rs.

Definition S4 : spec := Ufold rs S3.

Lemma rs_nodup : NoDup (map fst rs).
Proof. apply (Permutation_NoDup (Permutation_sym Hrs_fst)). apply seq_NoDup. Qed.

Lemma rs_in : forall N, N < K -> exists r, In (N, r) rs.
Proof.
  intros N HN. assert (H : In N (map fst rs)).
  { apply (Permutation_in _ (Permutation_sym Hrs_fst)). apply in_seq0. exact HN. }
  apply in_map_iff in H as [[N' r] [E H]]. simpl in E. subst. eauto.
Qed.

Lemma rs_lt : forall N r, In (N, r) rs -> N < K.
Proof.
  intros N r H. apply in_seq0. apply (Permutation_in _ Hrs_fst). apply in_map_iff. exists (N, r). auto.
Qed.

Lemma find_result_in : forall N r, In (N, r) rs -> find_result N rs = Some r.
Proof.
  intros N r H. pose proof rs_nodup as Hnd. clear Hrs_fst Hrs_ok. induction rs as [|[N0 r0] l IH]; [contradiction|].
  simpl in *. inversion Hnd as [|? ? Hx Hnd']. subst. destruct H as [E|H].
  - injection E as -> ->. rewrite Nat.eqb_refl. reflexivity.
  - destruct (Nat.eqb_spec N0 N) as [->|]; [|apply IH; assumption].
    exfalso. apply Hx. apply in_map_iff. exists (N, r). auto.
Qed.

Lemma find_result_none : forall N, K <= N -> find_result N rs = None.
Proof.
  intros N HN. assert (H : forall r, ~ In (N, r) rs) by (intros r Hr; apply rs_lt in Hr; lia).
  clear Hrs_fst Hrs_ok. induction rs as [|[N0 r0] l IH]; [reflexivity|]. simpl.
  destruct (Nat.eqb_spec N0 N) as [->|]; [exfalso; apply (H r0); left; reflexivity|].
  apply IH. intros r Hr. apply (H r). right. exact Hr.
Qed.

Lemma S4_P : S4 P = Some Dir.
Proof.
  unfold S4. rewrite Ufold_miss; [apply S3_P|]. intros [N r] _. simpl. unfold in_reg.
  rewrite tmpp_vs_P. assert (G : is_prefix (outp N) P = false) by (unfold out_path; apply is_prefix_longer; discriminate).
  rewrite G. reflexivity.
Qed.

Lemma S4_miss : forall q, (forall N, N < K -> in_reg N q = false) -> S4 q = S2 q.
Proof.
  intros q H. unfold S4. rewrite Ufold_miss.
  - apply S3_outside_regions. exact H.
  - intros [N r] Hnr. simpl. apply H. eapply rs_lt; eauto.
Qed.

Lemma S4_hit : forall N r q, In (N, r) rs -> in_reg N q = true -> S4 q = U_val N r q.
Proof. intros. unfold S4. apply Ufold_hit; [apply rs_nodup|assumption|assumption]. Qed.

Lemma outp_other_regions : forall x N r, N <> x -> in_reg N (outp x ++ r) = false.
Proof. intros x N r NE. apply (reg_disjoint N x); [exact NE|apply in_reg_outp]. Qed.

Lemma S4_below_outp : forall x r, r <> [] -> S4 (outp x ++ r) = None.
Proof.
  intros x r Hr. destruct (Nat.lt_ge_cases x K) as [L|L].
  - destruct (rs_in x L) as [rx Hx]. rewrite (S4_hit x rx) by (try exact Hx; apply in_reg_outp).
    unfold U_val. destruct rx; [|reflexivity].
    assert (G : path_eqb (outp x) (outp x ++ r) = false).
    { apply path_eqb_len. rewrite app_length. destruct r; [contradiction|simpl; lia]. }
    rewrite G. reflexivity.
  - rewrite S4_miss; [apply S2_below; exact Hr|].
    intros N HN. apply outp_other_regions. lia.
Qed.

Lemma S2_outp_high : forall x, K <= x -> S2 (outp x) = None.
Proof.
  intros x Hx. rewrite S2_form.
  assert (G1 : on_the_way (outp x) P = false) by (unfold out_path; apply on_the_way_longer; discriminate).
  assert (G2 : on_the_way (outp x) tbase = false).
  { unfold tbase. destruct (c_tmp cfg) as [|t] eqn:Et; [exact G1|].
    unfold on_the_way. destruct (outp x) eqn:E; [reflexivity|]. rewrite <- E.
    destruct (is_prefix (outp x) t) eqn:E2; [|reflexivity]. exfalso.
    pose proof Hsep as Hs. unfold tmp_separate in Hs. rewrite Et in Hs. destruct Hs as [Hs _].
    assert (C : is_prefix P t = true) by (eapply is_prefix_trans; [|exact E2]; unfold out_path; apply is_prefix_app).
    congruence. }
  rewrite G1, G2. simpl.
  assert (G3 : existsb (fun N => path_eqb (outp x) (outp N) || path_eqb (outp x) (tmpp N)) (seq 0 K) = false).
  { apply not_true_is_false. intro E. apply existsb_exists in E as [N [HN E]]. apply in_seq0 in HN.
    apply orb_prop in E as [E|E]; apply path_eqb_eq in E.
    - apply outp_inj in E. lia.
    - assert (G : in_reg N (outp x ++ []) = false) by (apply outp_other_regions; lia).
      rewrite app_nil_r, E in G. unfold in_reg in G. rewrite is_prefix_refl, orb_true_r in G. discriminate. }
  rewrite G3. apply S1_under. unfold out_path. apply is_prefix_app.
Qed.

Lemma S4_outp : forall x,
  S4 (outp x) = match find_result x rs with Some (Some c) => Some (File (CRows c)) | _ => None end.
Proof.
  intro x. destruct (Nat.lt_ge_cases x K) as [L|L].
  - destruct (rs_in x L) as [rx Hx]. rewrite (find_result_in _ _ Hx).
    rewrite (S4_hit x rx); [|exact Hx|rewrite <- (app_nil_r (outp x)); apply in_reg_outp].
    unfold U_val. destruct rx; [rewrite path_eqb_refl|]; reflexivity.
  - rewrite find_result_none by exact L. rewrite S4_miss; [apply S2_outp_high; exact L|].
    intros N HN. rewrite <- (app_nil_r (outp x)). apply outp_other_regions. lia.
Qed.

(* ------------------------------------------------------------------ the non-empty parts *)
Lemma lookup_nonempty_parts : forall Ns x, NoDup Ns ->
  lookup_ne x (nonempty_parts rs Ns) =
    if existsb (Nat.eqb x) Ns then match find_result x rs with Some (Some c) => Some c | _ => None end
    else None.
Proof.
  induction Ns as [|N Ns IH]; intros x Hnd; [reflexivity|].
  inversion Hnd as [|? ? Hx Hnd']. subst. simpl.
  destruct (Nat.eqb_spec x N) as [->|NE]; simpl.
  - destruct (find_result N rs) as [[c|]|] eqn:Ef; simpl.
    + rewrite Nat.eqb_refl. reflexivity.
    + rewrite IH by exact Hnd'.
      assert (G : existsb (Nat.eqb N) Ns = false).
      { apply not_true_is_false. intro E. apply existsb_exists in E as [y [Hy E]]. apply Nat.eqb_eq in E. subst. contradiction. }
      rewrite G. reflexivity.
    + rewrite IH by exact Hnd'.
      assert (G : existsb (Nat.eqb N) Ns = false).
      { apply not_true_is_false. intro E. apply existsb_exists in E as [y [Hy E]]. apply Nat.eqb_eq in E. subst. contradiction. }
      rewrite G. reflexivity.
  - destruct (find_result N rs) as [[c|]|]; simpl; try (apply IH; exact Hnd').
    destruct (Nat.eqb_spec N x); [subst; contradiction|]. apply IH. exact Hnd'.
Qed.

Lemma nonempty_parts_sorted : forall n a,
  StronglySorted (fun u v => fst u < fst v) (nonempty_parts rs (seq a n)) /\
  (forall N c, In (N, c) (nonempty_parts rs (seq a n)) -> a <= N).
Proof.
  induction n as [|n IH]; intro a; simpl; [split; [constructor|contradiction]|].
  destruct (IH (Datatypes.S a)) as [Hs Hge].
  destruct (find_result a rs) as [[c|]|]; try (split; [exact Hs|intros N c' H; apply Hge in H; lia]).
  split.
  - constructor; [exact Hs|]. apply Forall_forall. intros [N c'] H. simpl. apply Hge in H. lia.
  - intros N c' [E|H]; [injection E as <- _; lia|apply Hge in H; lia].
Qed.

Definition ne : list (nat * list cell) := nonempty_parts rs (seq 0 K).
Definition parts : list (list cell) := map snd ne.

(* has_output agrees with the cells *)
Lemma cells_from_nonempty : forall a i N, cells_from a i N <> [] <-> has_output a N = true.
Proof.
  induction a as [|outs a IH]; intros i N; simpl.
  - split; [congruence|discriminate].
  - unfold has_output in *. simpl. destruct (existsb (Nat.eqb N) outs); simpl.
    + split; [reflexivity|discriminate].
    + apply IH.
Qed.

Lemma cells_of_nonempty : forall N, cells_of asg N <> [] <-> has_output asg N = true.
Proof. intro N. apply cells_from_nonempty. Qed.

(* part j of the result holds the rows of the j-th non-empty output *)
Lemma parts_content :
  Forall2 (fun p N => Permutation p (cells_of asg N)) parts (nonempty_outputs K asg).
Proof.
  unfold parts, ne, nonempty_outputs.
  assert (G : forall Ns, (forall N, In N Ns -> N < K) ->
            Forall2 (fun p N => Permutation p (cells_of asg N))
                    (map snd (nonempty_parts rs Ns)) (filter (has_output asg) Ns)).
  { induction Ns as [|N Ns IH]; intro Hlt; simpl; [constructor|].
    assert (HN : N < K) by (apply Hlt; left; reflexivity).
    assert (IH' := IH (fun N' H' => Hlt N' (or_intror H'))).
    destruct (rs_in N HN) as [r Hr]. rewrite (find_result_in _ _ Hr).
    rewrite Forall_forall in Hrs_ok. specialize (Hrs_ok (N, r) Hr). simpl in Hrs_ok.
    destruct Hrs_ok as [[-> Hc]|[cells [-> [Hp Hc]]]].
    - assert (E : has_output asg N = false).
      { apply not_true_is_false. intro E. apply cells_of_nonempty in E. contradiction. }
      rewrite E. exact IH'.
    - apply cells_of_nonempty in Hc. rewrite Hc. simpl. constructor; [exact Hp|exact IH']. }
  apply G. intros N HN. apply in_seq0. exact HN.
Qed.

Lemma ne_lookup : forall x,
  lookup_ne x ne = match find_result x rs with Some (Some c) => Some c | _ => None end.
Proof.
  intro x. unfold ne. rewrite lookup_nonempty_parts by apply seq_NoDup.
  destruct (existsb (Nat.eqb x) (seq 0 K)) eqn:E; [reflexivity|].
  rewrite find_result_none; [reflexivity|].
  destruct (Nat.lt_ge_cases x K) as [L|L]; [|exact L]. exfalso.
  assert (G : existsb (Nat.eqb x) (seq 0 K) = true).
  { apply existsb_exists. exists x. split; [apply in_seq0; exact L|apply Nat.eqb_refl]. }
  congruence.
Qed.

(* ------------------------------------------------------------------ phases 5-7 *)
Lemma write_models_m : forall f S p c, models f S -> p <> [] ->
  S (parent p) = Some Dir -> S p <> Some Dir ->
  exists f', p_write pure_prims p c f = OK tt f' /\ models f' (s_set p (File c) S).
Proof.
  intros f S p c HM Hp Hpar Hnd. simpl. unfold lift_m.
  rewrite write_intro; [|exact Hp| |].
  - exists (upsert f p (File c)). split; [reflexivity|].
    intro q. rewrite node_at_upsert by exact Hp. unfold s_set. rewrite HM. reflexivity.
  - unfold isdir_b. rewrite HM, Hpar. reflexivity.
  - rewrite HM. exact Hnd.
Qed.

Lemma find_In : forall f d p c, node_at f p = Some (File c) -> p <> [] -> is_prefix d p = true ->
  In p (find f d).
Proof.
  intros f d p c H Hp Hd. rewrite node_at_nonnil in H by exact Hp. unfold find.
  apply in_map_iff.
  assert (G : exists n, In (p, n) f /\ assoc f p = Some n).
  { clear Hd Hp. induction f as [|[k m] f IH]; simpl in *; [discriminate|].
    destruct (path_eqb_spec k p) as [->|NE].
    - exists m. split; [left; reflexivity|reflexivity].
    - destruct (IH H) as [n [Hin Ha]]. exists n. split; [right; exact Hin|exact Ha]. }
  destruct G as [n [Hin Ha]]. rewrite H in Ha. injection Ha as <-.
  exists (p, File c). split; [reflexivity|]. apply filter_In. split; [exact Hin|]. simpl. rewrite Hd. reflexivity.
Qed.

Definition meta_path : path := P ++ [NMeta].
Definition common_path : path := P ++ [NCommon].

Definition S7 (S5 : spec) : spec :=
  s_set common_path (File (CCommon parts)) (s_set meta_path (File (CMeta parts)) S5).

Hypothesis Hne : ne <> [].

Lemma phases_5_7 : forall f4, models f4 S4 ->
  exists f7 S5,
    (compact pure_wrappers cfg ne 0 ;;;
     w_write_metadata pure_wrappers P parts ;;;
     w_write_common pure_wrappers P parts ;;;
     w_final_read pure_wrappers P ;;;
     ret parts) f4 = OK parts f7 /\
    models f7 (S7 S5) /\
    (forall q, (forall x, is_prefix (outp x) q = false) -> S5 q = S4 q) /\
    (forall x r, r <> [] -> S5 (outp x ++ r) = None) /\
    (forall x, S5 (outp x) = match nth_error parts x with Some c => Some (File (CRows c)) | None => None end).
Proof.
  intros f4 HM4.
  destruct (nonempty_parts_sorted K 0) as [Hsorted _].
  destruct (compact_loop ne 0 f4 S4 HM4 S4_P) as [f5 [S5 [E5 [HM5 [H1 [H2 [H3 [H4 H5]]]]]]]].
  { intros; lia. }
  { exact Hsorted. }
  { apply S4_below_outp. }
  { intros x _. rewrite S4_outp, ne_lookup. destruct (find_result x rs) as [[c|]|]; reflexivity. }
  assert (Hparts : forall x, S5 (outp x) = match nth_error parts x with Some c => Some (File (CRows c)) | None => None end).
  { intro x. unfold parts. destruct (Nat.lt_ge_cases x (List.length ne)) as [L|L].
    - specialize (H4 x L). simpl in H4. rewrite H4.
      rewrite (nth_error_nth' (map snd ne) [] ) by (rewrite map_length; exact L).
      change [] with (snd (0, @nil cell)). rewrite map_nth. reflexivity.
    - rewrite (H5 x) by (simpl; lia). assert (G : nth_error (map snd ne) x = None).
      { apply nth_error_None. rewrite map_length. exact L. }
      rewrite G. reflexivity. }
  assert (HnoP : forall x, is_prefix (outp x) P = false).
  { intro x. unfold out_path. apply is_prefix_longer. discriminate. }
  assert (HS5P : S5 P = Some Dir) by (rewrite H1 by exact HnoP; apply S4_P).
  (* _metadata *)
  assert (Hother : forall a, (forall N, a <> NPart N) -> S5 (P ++ [a]) = None).
  { intros a Ha. rewrite H1.
    - destruct (under_P_other a [] Ha) as [Hreg H3']. unfold S4. rewrite Ufold_miss; [exact H3'|].
      intros [N r] _. apply Hreg.
    - intro x. rewrite is_prefix_outp, strip_prefix_app. destruct a; try reflexivity.
      exfalso. apply (Ha n). reflexivity. }
  destruct (write_models_m f5 S5 meta_path (CMeta parts) HM5) as [f6 [E6 HM6]].
  { apply snoc_not_nil. }
  { unfold meta_path. rewrite parent_snoc. exact HS5P. }
  { unfold meta_path. rewrite Hother; [discriminate|]. intros N; discriminate. }
  (* _common_metadata *)
  assert (Hne_cm : path_eqb meta_path common_path = false).
  { apply path_eqb_neq. unfold meta_path, common_path. intro E. apply app_inv_head in E. discriminate. }
  destruct (write_models_m f6 _ common_path (CCommon parts) HM6) as [f7 [E7 HM7]].
  { apply snoc_not_nil. }
  { unfold common_path. rewrite parent_snoc. unfold s_set.
    assert (G : path_eqb meta_path P = false).
    { apply path_eqb_len. unfold meta_path. rewrite app_length. simpl. lia. }
    rewrite G. exact HS5P. }
  { unfold s_set. rewrite Hne_cm. unfold common_path. rewrite Hother; [discriminate|]. intros N; discriminate. }
  (* part.0.parquet exists and is a data file *)
  destruct ne as [|[N0 c0] ne'] eqn:Ene; [contradiction|].
  assert (Hp0 : forall S', (forall q, path_eqb meta_path q = false -> path_eqb common_path q = false -> S' q = S5 q) ->
                S' (outp 0) = Some (File (CRows c0))).
  { intros S' HS'. rewrite HS'.
    - rewrite Hparts. unfold parts. rewrite Ene. reflexivity.
    - apply path_eqb_neq. unfold meta_path, out_path. intro E. apply app_inv_head in E. discriminate.
    - apply path_eqb_neq. unfold common_path, out_path. intro E. apply app_inv_head in E. discriminate. }
  assert (H60 : node_at f6 (outp 0) = Some (File (CRows c0))).
  { rewrite HM6. apply Hp0. intros q Hq _. unfold s_set. rewrite Hq. reflexivity. }
  assert (H70 : node_at f7 (outp 0) = Some (File (CRows c0))).
  { rewrite HM7. apply Hp0. intros q Hq1 Hq2. unfold s_set. rewrite Hq2, Hq1. reflexivity. }
  assert (H7P : node_at f7 P = Some Dir).
  { rewrite HM7. unfold s_set.
    assert (G1 : path_eqb common_path P = false).
    { apply path_eqb_len. unfold common_path. rewrite app_length. simpl. lia. }
    assert (G2 : path_eqb meta_path P = false).
    { apply path_eqb_len. unfold meta_path. rewrite app_length. simpl. lia. }
    rewrite G1, G2. exact HS5P. }
  assert (H7c : node_at f7 common_path = Some (File (CCommon parts))).
  { rewrite HM7. unfold s_set. rewrite path_eqb_refl. reflexivity. }
  exists f7, S5. split; [|split; [exact HM7|split; [exact H1|split; [exact H2|exact Hparts]]]].
  (* run the tail of the procedure *)
  unfold bind. rewrite E5.
  change (w_write_metadata pure_wrappers P parts f5) with (p_write pure_prims meta_path (CMeta parts) f5).
  rewrite E6.
  assert (Ecm : w_write_common pure_wrappers P parts f6 = OK tt f7).
  { change (w_write_common pure_wrappers P parts f6) with (body_write_common pure_prims P parts f6).
    eapply write_common_pure_ok; [exact H60|exact E7]. }
  rewrite Ecm.
  assert (Efr : w_final_read pure_wrappers P f7 = OK tt f7).
  { change (w_final_read pure_wrappers P f7) with (body_final_read pure_prims P f7).
    eapply final_read_pure_ok; [exact H7P|exact H70|exact H7c|].
    eapply find_In; [exact H70|apply outp_nonnil|unfold out_path; apply is_prefix_app]. }
  rewrite Efr. reflexivity.
Qed.

(* ------------------------------------------------------------------ the final tree, path by path *)
Lemma final_form : forall S5,
  (forall q, (forall x, is_prefix (outp x) q = false) -> S5 q = S4 q) ->
  (forall x r, r <> [] -> S5 (outp x ++ r) = None) ->
  (forall x, S5 (outp x) = match nth_error parts x with Some c => Some (File (CRows c)) | None => None end) ->
  forall q, S7 S5 q = expected_node f0 cfg parts q.
Proof.
  intros S5 H1 H2 H3 q. unfold expected_node, S7, s_set, meta_path, common_path.
  rewrite !path_eqb_snoc.
  destruct (strip_prefix P q) as [rl|] eqn:E.
  - apply strip_prefix_some in E. subst q.
    assert (Hother : forall a r, (forall N, a <> NPart N) -> S5 (P ++ a :: r) = None).
    { intros a r Ha. rewrite H1.
      - destruct (under_P_other a r Ha) as [Hreg H3']. unfold S4. rewrite Ufold_miss; [exact H3'|].
        intros [N r0] _. apply Hreg.
      - intro x. rewrite is_prefix_outp, strip_prefix_app. destruct a; try reflexivity.
        exfalso. apply (Ha n). reflexivity. }
    destruct rl as [|a r].
    + (* the dataset directory itself *)
      rewrite app_nil_r. simpl. rewrite H1; [apply S4_P|]. intro x. unfold out_path. apply is_prefix_longer. discriminate.
    + destruct a; simpl.
      * (* part.<n>.parquet and below *)
        destruct r as [|b r].
        -- change (P ++ [NPart n]) with (outp n). apply H3.
        -- change (P ++ NPart n :: b :: r) with (P ++ [NPart n] ++ b :: r). rewrite app_assoc.
           change (P ++ [NPart n]) with (outp n). rewrite H2 by discriminate. reflexivity.
      * destruct r; simpl; apply Hother; intros; discriminate.
      * destruct r; simpl; apply Hother; intros; discriminate.
      * destruct r; simpl; [reflexivity|]. apply Hother; intros; discriminate.
      * destruct r; simpl; [reflexivity|]. apply Hother; intros; discriminate.
      * destruct r; simpl; apply Hother; intros; discriminate.
  - (* outside the dataset *)
    assert (HnoP : is_prefix P q = false) by (apply is_prefix_none; exact E).
    assert (Hnoout : forall x, is_prefix (outp x) q = false).
    { intro x. rewrite is_prefix_outp, E. reflexivity. }
    rewrite H1 by exact Hnoout.
    assert (HS1 : S1 q = node_at f0 q) by (unfold S1, S0; rewrite HnoP; reflexivity).
    destruct (existsb (fun N => in_reg N q) (seq 0 K)) eqn:Ereg.
    + (* inside a temp directory of the run: removed *)
      apply existsb_exists in Ereg as [N [HN Hreg]]. apply in_seq0 in HN.
      destruct (rs_in N HN) as [r Hr]. rewrite (S4_hit N r q Hr Hreg).
      assert (Hval : U_val N r q = None).
      { unfold U_val. destruct r; [|reflexivity].
        destruct (path_eqb_spec (outp N) q) as [Eq|]; [|reflexivity].
        pose proof (Hnoout N) as G. rewrite <- Eq, is_prefix_refl in G. discriminate. }
      rewrite Hval. unfold in_reg in Hreg. rewrite Hnoout in Hreg. simpl in Hreg.
      unfold tmp_path in Hreg. destruct (c_tmp cfg) as [|t] eqn:Et.
      * fold (outp N) in Hreg. rewrite Hnoout in Hreg. discriminate.
      * destruct Hprior as (_ & _ & _ & _ & Hext & _). rewrite Et in Hext. destruct Hext as [_ Hext].
        assert (G1 : on_the_way q P = false).
        { unfold on_the_way. destruct q as [|a q']; [reflexivity|].
          destruct (is_prefix (a :: q') P) eqn:E2; [|reflexivity]. exfalso.
          pose proof (tmpp_vs_P N) as G. unfold tmp_path in G. rewrite Et in G.
          rewrite (is_prefix_trans _ _ _ Hreg E2) in G. discriminate. }
        assert (G2 : on_the_way q t = false).
        { unfold on_the_way. destruct q as [|a q']; [reflexivity|].
          destruct (is_prefix (a :: q') t) eqn:E2; [|reflexivity]. exfalso.
          pose proof (is_prefix_trans _ _ _ Hreg E2) as G. rewrite is_prefix_longer in G; discriminate. }
        rewrite G1, G2. simpl. symmetry. apply (Hext N q Hreg).
    + (* untouched except for the directories makedirs created on the way *)
      assert (Hmiss : forall N, N < K -> in_reg N q = false).
      { intros N HN. apply not_true_is_false. intro Hq.
        assert (G : existsb (fun N => in_reg N q) (seq 0 K) = true).
        { apply existsb_exists. exists N. split; [apply in_seq0; exact HN|exact Hq]. }
        congruence. }
      rewrite S4_miss by exact Hmiss. rewrite S2_form.
      assert (G3 : existsb (fun N => path_eqb q (outp N) || path_eqb q (tmpp N)) (seq 0 K) = false).
      { apply not_true_is_false. intro Ex. apply existsb_exists in Ex as [N [HN Ex]]. apply in_seq0 in HN.
        specialize (Hmiss N HN). unfold in_reg in Hmiss.
        apply orb_prop in Ex as [Ex|Ex]; apply path_eqb_eq in Ex; subst q;
          rewrite is_prefix_refl in Hmiss; [discriminate|rewrite orb_true_r in Hmiss; discriminate]. }
      rewrite G3, HS1. unfold tbase. destruct (c_tmp cfg) as [|t].
      * rewrite orb_diag. reflexivity.
      * reflexivity.
Qed.
End AfterConcat.

(* ------------------------------------------------------------------ the whole call *)
Hypothesis Hnonempty : nonempty_outputs K asg <> [].

Theorem pack_ok :
  exists ps f7, pack f0 cfg asg = OK ps f7 /\
    (forall q, node_at f7 q = expected_node f0 cfg ps q) /\
    Forall2 (fun p N => Permutation p (cells_of asg N)) ps (nonempty_outputs K asg).
Proof.
  destruct phase1 as [f1 [E1 G1]].
  destruct (phase2 f1 G1) as [f2 [E2 G2]].
  destruct (phase3 f2 G2) as [f3 [E3 G3]].
  destruct Hord as [_ Hco].
  destruct (concat_loop (c_corder cfg) f3 S3) as [rs [f4 [E4 [G4 [Hfst Hres]]]]].
  { apply (Permutation_NoDup (Permutation_sym Hco)). apply seq_NoDup. }
  { intros N HN. apply in_seq0. apply (Permutation_in _ Hco HN). }
  { exact G3. }
  { exact S3_P. }
  { intros; reflexivity. }
  assert (Hrs_fst : Permutation (map fst rs) (seq 0 K)) by (rewrite Hfst; exact Hco).
  pose proof (parts_content rs Hrs_fst Hres) as Hcontent.
  assert (Hne : ne rs <> []).
  { intro E. unfold parts in Hcontent. rewrite E in Hcontent. simpl in Hcontent.
    inversion Hcontent as [HH HH2|]. apply Hnonempty. symmetry. exact HH2. }
  destruct (phases_5_7 rs Hrs_fst Hne f4 (proj1 G4)) as [f7 [S5 [E7 [HM7 [H1 [H2 H3]]]]]].
  exists (parts rs), f7. split; [|split; [|exact Hcontent]].
  - unfold pack, pack_proc. unfold bind at 1.
    change (w_rm pure_wrappers P) with (body_rm pure_prims P). rewrite E1.
    unfold bind at 1. rewrite E2.
    unfold bind at 1. rewrite E3.
    unfold bind at 1. fold concat_task. rewrite E4.
    cbv zeta. fold (ne rs). fold (parts rs).
    destruct (ne rs) as [|x l] eqn:Ene; [contradiction|]. exact E7.
  - intro q. rewrite HM7. apply final_form; assumption.
Qed.
End Pack.

(* ================================================================== the theorems of C10 *)
Lemma nonempty_K : forall k asg, nonempty_outputs k asg <> [] -> 0 < k.
Proof. intros [|k] asg H; [exfalso; apply H; reflexivity|lia]. Qed.

Lemma Forall2_len : forall A B (R : A -> B -> Prop) l1 l2, Forall2 R l1 l2 -> List.length l1 = List.length l2.
Proof. intros A B R l1 l2 H. induction H; simpl; [reflexivity|]. rewrite IHForall2. reflexivity. Qed.

Theorem pack_layout : forall f0 cfg asg,
  prior_ok f0 cfg -> tmp_separate cfg -> wf_asg (c_k cfg) asg -> wf_orders cfg asg ->
  nonempty_outputs (c_k cfg) asg <> [] ->
  exists parts f1,
    pack f0 cfg asg = OK parts f1 /\
    (forall q, node_at f1 q = expected_node f0 cfg parts q) /\
    Forall2 (fun p N => Permutation p (cells_of asg N)) parts (nonempty_outputs (c_k cfg) asg).
Proof.
  intros f0 cfg asg Hp Hs Ha Ho Hn.
  exact (pack_ok cfg asg f0 Hp Hs (nonempty_K _ _ Hn) Ha Ho Hn).
Qed.

(* the dataset directory after the call does not depend on what was there before *)
Theorem pack_overwrite : forall f0 cfg asg,
  prior_ok f0 cfg -> tmp_separate cfg -> wf_asg (c_k cfg) asg -> wf_orders cfg asg ->
  nonempty_outputs (c_k cfg) asg <> [] ->
  exists parts f1,
    pack f0 cfg asg = OK parts f1 /\
    List.length parts = List.length (nonempty_outputs (c_k cfg) asg) /\
    forall q rl, strip_prefix (c_path cfg) q = Some rl -> node_at f1 q = dataset_node parts rl.
Proof.
  intros f0 cfg asg Hp Hs Ha Ho Hn.
  destruct (pack_layout f0 cfg asg Hp Hs Ha Ho Hn) as [parts [f1 [E [HL HC]]]].
  exists parts, f1. split; [exact E|]. split; [eapply Forall2_len; eauto|].
  intros q rl Hq. rewrite HL. unfold expected_node. rewrite Hq. reflexivity.
Qed.

(* when the directories leading to the dataset (and to the external temp directories) exist
   beforehand, nothing outside the dataset directory is changed: no temporary or placeholder
   entry is left anywhere *)
Theorem pack_outside_untouched : forall f0 cfg asg,
  prior_ok f0 cfg -> tmp_separate cfg -> wf_asg (c_k cfg) asg -> wf_orders cfg asg ->
  nonempty_outputs (c_k cfg) asg <> [] ->
  (forall q, on_the_way q (parent (c_path cfg)) = true -> node_at f0 q = Some Dir) ->
  match c_tmp cfg with
  | TInside => True
  | TExternal t => forall q, on_the_way q t = true -> node_at f0 q = Some Dir
  end ->
  exists parts f1,
    pack f0 cfg asg = OK parts f1 /\
    forall q, is_prefix (c_path cfg) q = false -> node_at f1 q = node_at f0 q.
Proof.
  intros f0 cfg asg Hp Hs Ha Ho Hn Habove Htmp.
  destruct (pack_layout f0 cfg asg Hp Hs Ha Ho Hn) as [parts [f1 [E [HL HC]]]].
  exists parts, f1. split; [exact E|]. intros q Hq. rewrite HL. unfold expected_node.
  apply is_prefix_none in Hq. rewrite Hq.
  assert (HwayP : on_the_way q (c_path cfg) = true -> node_at f0 q = Some Dir).
  { intro H. destruct Hp as (_ & HP & _). destruct (exists_last HP) as [P' [a EP]].
    apply Habove. rewrite EP, parent_snoc. rewrite EP in H. rewrite on_the_way_snoc in H.
    apply orb_prop in H as [H|H]; [exact H|]. apply path_eqb_eq in H. subst q.
    rewrite <- EP in Hq. apply is_prefix_none in Hq. rewrite is_prefix_refl in Hq. discriminate. }
  destruct (c_tmp cfg) as [|t].
  - destruct (on_the_way q (c_path cfg)) eqn:E1; [symmetry; apply HwayP; reflexivity|reflexivity].
  - destruct (on_the_way q (c_path cfg)) eqn:E1; simpl; [symmetry; apply HwayP; reflexivity|].
    destruct (on_the_way q t) eqn:E2; [symmetry; apply Htmp; exact E2|reflexivity].
Qed.

Theorem pack_content : forall f0 cfg asg,
  prior_ok f0 cfg -> tmp_separate cfg -> wf_asg (c_k cfg) asg -> wf_orders cfg asg ->
  nonempty_outputs (c_k cfg) asg <> [] ->
  exists parts f1,
    pack f0 cfg asg = OK parts f1 /\
    Forall2 (fun p N => Permutation p (cells_of asg N)) parts (nonempty_outputs (c_k cfg) asg).
Proof.
  intros f0 cfg asg Hp Hs Ha Ho Hn.
  destruct (pack_layout f0 cfg asg Hp Hs Ha Ho Hn) as [parts [f1 [E [_ HC]]]]. eauto.
Qed.
