(* Lemma library for C15, part 3: winding numbers under ring reversal
   (Model/PointKernels.v: pip_edge, pip_ring, winding_number). *)
From Coq Require Import ZArith List Bool Lia ZifyBool.
From SP Require Import Model.Num Model.Arrow Model.Measures Model.Orient Model.PointKernels
  Spec.MeasuresSpec.
Import ListNotations.
Local Open Scope Z_scope.

(* an edge traversed the other way contributes the opposite amount *)
Lemma pip_edge_swap : forall x y a b, pip_edge x y (b, a) = - pip_edge x y (a, b).
Proof.
  intros x y [x0 y0] [x1 y1]. unfold pip_edge.
  destruct (y1 =? y0) eqn:E1; destruct (y0 =? y1) eqn:E2; try lia.
  destruct (y1 <? y0) eqn:L1; destruct (y0 <? y1) eqn:L2; try lia;
    repeat match goal with
           | |- context [if ?c then _ else _] => destruct c eqn:?
           end; lia.
Qed.

Definition zsumf {A} (f : A -> Z) (l : list A) : Z := fold_left (fun acc e => acc + f e) l 0.

Lemma fold_add_shift : forall A (f : A -> Z) l a,
  fold_left (fun acc e => acc + f e) l a = a + fold_left (fun acc e => acc + f e) l 0.
Proof.
  intros A f l. induction l as [|e t IH]; intros a; cbn [fold_left]; [lia|].
  rewrite IH, (IH (0 + f e)). lia.
Qed.

Lemma zsumf_app : forall A (f : A -> Z) l1 l2, zsumf f (l1 ++ l2) = zsumf f l1 + zsumf f l2.
Proof.
  intros. unfold zsumf. rewrite fold_left_app, fold_add_shift. reflexivity.
Qed.

Lemma zsumf_cons : forall A (f : A -> Z) e l, zsumf f (e :: l) = f e + zsumf f l.
Proof. intros. unfold zsumf. cbn [fold_left]. rewrite fold_add_shift. lia. Qed.

Lemma zsumf_single : forall A (f : A -> Z) e, zsumf f [e] = f e.
Proof. intros. unfold zsumf. cbn. lia. Qed.

Lemma edges_cons2 : forall a b t, edges (a :: b :: t) = (a, b) :: edges (b :: t).
Proof. reflexivity. Qed.

Lemma edges_snoc : forall ps a b, edges (ps ++ [a; b]) = edges (ps ++ [a]) ++ [(a, b)].
Proof.
  induction ps as [|p t IH]; intros a b; [reflexivity|].
  destruct t as [|q t'].
  - reflexivity.
  - change ((p :: q :: t') ++ [a; b]) with (p :: q :: (t' ++ [a; b])).
    change ((p :: q :: t') ++ [a]) with (p :: q :: (t' ++ [a])).
    rewrite !edges_cons2.
    change (q :: t' ++ [a; b]) with ((q :: t') ++ [a; b]).
    change (q :: t' ++ [a]) with ((q :: t') ++ [a]).
    rewrite IH. reflexivity.
Qed.

(* the winding contribution of a ring given as a vertex list *)
Definition wn_pts (x y : Z) (ps : list pt) : Z := zsumf (pip_edge x y) (edges ps).

Theorem wn_rev : forall x y ps, wn_pts x y (rev ps) = - wn_pts x y ps.
Proof.
  intros x y ps. unfold wn_pts. induction ps as [|p t IH]; [reflexivity|].
  destruct t as [|q t'].
  - reflexivity.
  - rewrite edges_cons2, zsumf_cons.
    change (rev (p :: q :: t')) with ((rev t' ++ [q]) ++ [p]).
    rewrite <- app_assoc. change ([q] ++ [p]) with [q; p].
    rewrite edges_snoc, zsumf_app.
    change (rev t' ++ [q]) with (rev (q :: t')). rewrite IH.
    rewrite zsumf_single, pip_edge_swap. unfold PointKernels.pt in *. lia.
Qed.

(* reversing every ring of a polygon negates its winding number everywhere, so the
   non-zero rule gives the same answer *)
Theorem wn_all_reversed : forall x y (rings : list (list pt)),
  zsumf (wn_pts x y) (map (@rev pt) rings) = - zsumf (wn_pts x y) rings.
Proof.
  intros x y rings. induction rings as [|r t IH]; [reflexivity|].
  cbn [map]. rewrite !zsumf_cons, IH, wn_rev. lia.
Qed.

Theorem intersects_all_reversed : forall x y (rings : list (list pt)),
  negb (zsumf (wn_pts x y) (map (@rev pt) rings) =? 0) = negb (zsumf (wn_pts x y) rings =? 0).
Proof.
  intros. rewrite wn_all_reversed.
  destruct (zsumf (wn_pts x y) rings =? 0) eqn:E; destruct (- zsumf (wn_pts x y) rings =? 0) eqn:E'; lia.
Qed.

(* "does not change any intersection result" is false for a polygon with a hole wound
   the same way as its shell: before, the point inside the hole has winding number -2
   (inside by the non-zero rule); after oriented() the hole is a real hole *)
Definition same_wound_vals : list num :=
  flatz [(0,0); (0,24); (24,24); (24,0); (0,0); (4,4); (4,10); (10,10); (10,4); (4,4)].

Theorem intersections_same_wound_refuted :
  exists vals po ro x y v0 v1,
    finite_vals vals = Some v0 /\
    finite_vals (orient_polygons vals po ro) = Some v1 /\
    point_intersects_polygon x y v0 ro = true /\
    point_intersects_polygon x y v1 ro = false.
Proof.
  exists same_wound_vals, [0; 2]%nat, [0; 10; 20]%nat, 7, 5.
  eexists. eexists. repeat split; vm_compute; reflexivity.
Qed.

(* ---- in terms of the point-in-polygon kernel of Model/PointKernels.v ---- *)

Lemma zsumf_map : forall A B (g : A -> B) (f : B -> Z) l, zsumf f (map g l) = zsumf (fun a => f (g a)) l.
Proof.
  intros A B g f l. unfold zsumf. generalize 0. induction l as [|a t IH]; intros z; [reflexivity|].
  cbn [map fold_left]. apply IH.
Qed.

Lemma winding_number_wn : forall x y values offs,
  winding_number x y values offs = zsumf (wn_pts x y) (map zpairs (rings_of values offs)).
Proof. intros. rewrite zsumf_map. reflexivity. Qed.

(* if every ring of the polygon is reversed (or none is), point_intersects_polygon
   answers the same for every point *)
Theorem intersects_unchanged_all_reversed : forall x y v0 v1 offs,
  map zpairs (rings_of v1 offs) = map (@rev pt) (map zpairs (rings_of v0 offs)) ->
  point_intersects_polygon x y v1 offs = point_intersects_polygon x y v0 offs.
Proof.
  intros x y v0 v1 offs H. unfold point_intersects_polygon.
  rewrite !winding_number_wn, H. apply intersects_all_reversed.
Qed.
