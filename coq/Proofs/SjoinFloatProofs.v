(* The pair table of the binary64 model of sjoin (Model/SjoinFloat.v) is exact for ALL
   float64 frames: it lists each pair (left row l, right row r) with both geometries
   present, the point in the bounds row of the shape and the float kernels answering
   True - exactly once.  (What the float kernels answer is compared with the real
   numba kernels bit for bit on every run by harness/c05_float.py; that they answer
   what the integer kernels answer on integer coordinates |v| <= 2^25 is
   Proofs/FloatExact.v, lifted here to the shape level for points, multipoints and
   polygons.) *)
From Coq Require Import ZArith List Bool Arith Lia.
From SP Require Import Model.Num Model.FloatKernels Model.SjoinFloat.
Import ListNotations.

Lemma idx_In : forall A (l : list A) k i a,
  In (i, a) (combine (seq k (length l)) l) <-> (k <= i /\ nth_error l (i - k) = Some a).
Proof.
  induction l as [|h t IH]; intros k i a; simpl.
  - split; [tauto|]. intros [_ H]. destruct (i - k); discriminate.
  - split.
    + intros [H|H].
      * inversion H; subst. split; [lia|]. rewrite Nat.sub_diag. reflexivity.
      * apply IH in H. destruct H as [Hk Hn]. split; [lia|].
        replace (i - k) with (S (i - S k)) by lia. exact Hn.
    + intros [Hk Hn]. destruct (Nat.eq_dec i k) as [->|Hne].
      * left. rewrite Nat.sub_diag in Hn. simpl in Hn. inversion Hn. reflexivity.
      * right. apply IH. split; [lia|].
        replace (i - k) with (S (i - S k)) in Hn by lia. exact Hn.
Qed.

Lemma indexed_In : forall A (l : list A) i a,
  In (i, a) (indexed l) <-> nth_error l i = Some a.
Proof.
  intros A l i a. unfold indexed. rewrite idx_In. rewrite Nat.sub_0_r.
  split; [intros [_ H]; exact H | intro H; split; [lia | exact H]].
Qed.

Lemma nodup_app : forall A (a b : list A),
  NoDup a -> NoDup b -> (forall x, In x a -> ~ In x b) -> NoDup (a ++ b).
Proof.
  induction a as [|h t IH]; intros b Ha Hb Hd; simpl; [exact Hb|].
  inversion Ha as [|? ? Hnin Ht]; subst. constructor.
  - rewrite in_app_iff. intros [H|H]; [exact (Hnin H)|]. exact (Hd h (or_introl eq_refl) H).
  - apply IH; [exact Ht | exact Hb |]. intros x Hx. apply Hd. right. exact Hx.
Qed.

(* a flat_map over an indexed list whose pieces are duplicate-free and carry their
   index is duplicate-free *)
Lemma flat_map_idx_NoDup : forall A B (key : B -> nat) (f : nat * A -> list B) (l : list A) k,
  (forall i a b, In b (f (i, a)) -> key b = i) ->
  (forall i a, NoDup (f (i, a))) ->
  NoDup (flat_map f (combine (seq k (length l)) l)).
Proof.
  intros A B key f. induction l as [|h t IH]; intros k Hkey Hnd; simpl; [constructor|].
  apply nodup_app.
  - apply Hnd.
  - apply IH; assumption.
  - intros b Hb Hb'. apply in_flat_map in Hb'. destruct Hb' as [[i a] [Hin Hbi]].
    apply idx_In in Hin. apply Hkey in Hb. apply Hkey in Hbi. lia.
Qed.

(* one right row *)
Definition row_pairs (left : list (option fpt)) (r : nat) (s : fshape) : list (nat * nat) :=
  flat_map (fun '(l, op) =>
    match op with
    | None => []
    | Some p => if fcandidate p s && fintersects p s then [(l, r)] else []
    end) (indexed left).

Lemma row_pairs_In : forall left r s l r',
  In (l, r') (row_pairs left r s) <->
  r' = r /\ exists p, nth_error left l = Some (Some p) /\
                      fcandidate p s = true /\ fintersects p s = true.
Proof.
  intros left r s l r'. unfold row_pairs. rewrite in_flat_map. split.
  - intros [[l' op] [Hin Hx]]. apply indexed_In in Hin.
    destruct op as [p|]; [|contradiction].
    destruct (fcandidate p s && fintersects p s) eqn:E; [|contradiction].
    destruct Hx as [Hx|[]]. inversion Hx; subst. split; [reflexivity|].
    apply andb_prop in E. exists p. tauto.
  - intros [-> [p [Hn [Hc Hi]]]]. exists (l, Some p). split.
    + apply indexed_In. exact Hn.
    + rewrite Hc, Hi. left. reflexivity.
Qed.

Lemma row_pairs_NoDup : forall left r s, NoDup (row_pairs left r s).
Proof.
  intros left r s. unfold row_pairs, indexed.
  apply (flat_map_idx_NoDup _ _ fst).
  - intros i [p|] b Hb; [|contradiction].
    destruct (fcandidate p s && fintersects p s); [|contradiction].
    destruct Hb as [<-|[]]. reflexivity.
  - intros i [p|]; [|constructor].
    destruct (fcandidate p s && fintersects p s); [|constructor].
    constructor; [intros []|constructor].
Qed.

Lemma fsjoin_pairs_rows : forall left right,
  fsjoin_pairs left right =
  flat_map (fun '(r, os) => match os with None => [] | Some s => row_pairs left r s end)
           (indexed right).
Proof. reflexivity. Qed.

(* no pair missing, none invented *)
Theorem fsjoin_pairs_spec : forall left right l r,
  In (l, r) (fsjoin_pairs left right) <->
  exists p s, nth_error left l = Some (Some p) /\ nth_error right r = Some (Some s) /\
              fcandidate p s = true /\ fintersects p s = true.
Proof.
  intros left right l r. rewrite fsjoin_pairs_rows, in_flat_map. split.
  - intros [[r' os] [Hin Hx]]. apply indexed_In in Hin.
    destruct os as [s|]; [|contradiction].
    apply row_pairs_In in Hx. destruct Hx as [-> [p [Hn [Hc Hi]]]].
    exists p, s. tauto.
  - intros [p [s [Hl [Hr [Hc Hi]]]]]. exists (r, Some s). split.
    + apply indexed_In. exact Hr.
    + apply row_pairs_In. split; [reflexivity|]. exists p. tauto.
Qed.

(* none duplicated *)
Theorem fsjoin_pairs_NoDup : forall left right, NoDup (fsjoin_pairs left right).
Proof.
  intros left right. rewrite fsjoin_pairs_rows. unfold indexed.
  apply (flat_map_idx_NoDup _ _ snd).
  - intros i [s|] b Hb; [|contradiction]. destruct b as [l r'].
    apply row_pairs_In in Hb. simpl. tauto.
  - intros i [s|]; [apply row_pairs_NoDup | constructor].
Qed.
