(* C07: the curve starts at the origin (every p, every n). *)
From Coq Require Import NArith List Bool Arith Lia.
From SP Require Import Model.Hilbert Spec.Curve Proofs.HilbertLists Proofs.HilbertExcess
     Proofs.HilbertGray Proofs.HilbertTranspose Proofs.HilbertRoundtrip Proofs.HilbertRefine.
Import ListNotations.
Local Open Scope N_scope.

Lemma getc_repeat0 : forall n i, getc (repeat 0 n) i = 0.
Proof.
  unfold getc. induction n as [|n IH]; intros [|i]; simpl; auto.
Qed.

Lemma setc_repeat0 : forall n i, setc (repeat 0 n) i 0 = repeat 0 n.
Proof. induction n as [|n IH]; intros [|i]; simpl; auto. now rewrite IH. Qed.

Lemma excess_step_zeros : forall Q P n i, excess_step Q P (repeat 0 n) i = repeat 0 n.
Proof.
  intros. unfold excess_step. rewrite !getc_repeat0. rewrite N.land_0_l.
  cbn [truthy N.eqb negb]. rewrite N.lxor_0_l, N.land_0_l.
  rewrite setc_repeat0, getc_repeat0, N.lxor_0_l. apply setc_repeat0.
Qed.

Lemma fold_fixed : forall {A} (g : A -> nat -> A) (a : A) ks,
    (forall k, g a k = a) -> fold_left g ks a = a.
Proof. intros A g a ks H. induction ks as [|k r IH]; simpl; auto. now rewrite H. Qed.

Lemma undo_excess_zeros : forall p n, (1 <= p)%nat -> undo_excess p n (repeat 0 n) = repeat 0 n.
Proof.
  intros p n Hp. rewrite undo_excess_eq by assumption.
  apply fold_fixed. intro k. unfold level_down. cbv zeta.
  apply fold_fixed. intro i. apply excess_step_zeros.
Qed.

Lemma bitsL_0 : forall k, bitsL 0 k = repeat 0 k.
Proof. induction k as [|k IH]; simpl; auto. now rewrite IH. Qed.

Lemma valL_repeat0 : forall k, valL (repeat 0 k) = 0.
Proof. induction k as [|k IH]; simpl; auto. rewrite IH. reflexivity. Qed.

Lemma Forall_repeat0_eq : forall l, Forall (fun x => x = 0) l -> l = repeat 0 (length l).
Proof. induction l as [|x t IH]; intros H; simpl; auto. inversion H; subst. f_equal. auto. Qed.

Lemma b2i_zeros : forall l, Forall (fun x => x = 0) l -> binary_2_int l = 0.
Proof.
  intros l H. rewrite binary_2_int_eq. apply Forall_rev in H.
  rewrite (Forall_repeat0_eq _ H). apply valL_repeat0.
Qed.

Lemma map_const_zero : forall (f : nat -> N), (forall i, f i = 0) ->
    forall m a, map f (seq a m) = repeat 0 m.
Proof.
  intros f Hf. induction m as [|m IH]; intros a; simpl; auto. rewrite Hf. f_equal. apply IH.
Qed.

Lemma h2t_zero : forall p n, hilbert_integer_to_transpose p 0 n = repeat 0 n.
Proof.
  intros p n. unfold hilbert_integer_to_transpose. cbv zeta.
  rewrite int_2_binary_eq, bitsL_0.
  assert (Hz : forall i, binary_2_int (strided i n (rev (repeat 0 (p * n)))) = 0).
  { intro i. apply b2i_zeros. apply Forall_forall. intros x Hx.
    assert (Hall : Forall (fun x => x = 0) (rev (repeat 0 (p * n)))).
    { apply Forall_rev. apply Forall_forall. intros y Hy. now apply repeat_spec in Hy. }
    unfold strided in Hx. remember (skipn i (rev (repeat 0 (p * n)))) as l eqn:El.
    assert (Hl : Forall (fun x => x = 0) l).
    { subst l. apply Forall_forall. intros y Hy. rewrite Forall_forall in Hall. apply Hall.
      rewrite <- (firstn_skipn i). apply in_or_app. now right. }
    clear El. revert l Hl Hx. generalize (length (rev (repeat 0 (p * n)))) as f.
    induction f as [|f IH]; intros l Hl Hx; [destruct l; contradiction|].
    destruct l as [|y l']; [contradiction|]. cbn [strided_from] in Hx. destruct Hx as [<-|Hx].
    - now inversion Hl.
    - apply (IH (skipn n (y :: l'))); [|assumption].
      apply Forall_forall. intros z Hz. rewrite Forall_forall in Hl. apply Hl.
      rewrite <- (firstn_skipn n). apply in_or_app. now right. }
  now apply map_const_zero.
Qed.

Lemma diffs_zeros : forall n, diffs 0 (repeat 0 n) = repeat 0 n.
Proof. induction n as [|n IH]; simpl; auto. now rewrite IH. Qed.

Lemma gray_decode_zeros : forall n, (1 <= n)%nat -> gray_decode n (repeat 0 n) = repeat 0 n.
Proof.
  intros n Hn. destruct n as [|m]; [lia|]. cbn [repeat].
  rewrite <- (repeat_length 0 m) at 1. rewrite gray_decode_cons.
  change (0 :: repeat 0 m) with (repeat 0 (S m)). rewrite getc_repeat0.
  rewrite N.shiftr_0_l, N.lxor_0_l, diffs_zeros. reflexivity.
Qed.

Theorem cfd_origin : forall p n, hilbert_guard p n ->
    coordinate_from_distance p n 0 = repeat 0 n.
Proof.
  intros p n (Hp & Hn & _). rewrite cfd_unfold, h2t_zero, gray_decode_zeros by assumption.
  now apply undo_excess_zeros.
Qed.

(* hence, by the round trip, the origin has distance 0 *)
Corollary dfc_origin : forall p n, hilbert_guard p n ->
    distance_from_coordinate p (repeat 0 n) = 0.
Proof.
  intros p n Hg. rewrite <- (cfd_origin p n Hg). apply roundtrip_d; [assumption|].
  unfold distance. apply N.neq_0_lt_0, N.pow_nonzero. lia.
Qed.

(* ========================================================================== *)
(* the curve ends at (2^p - 1, 0, ..., 0)  (every p, every n)                  *)
Lemma Forall_repeat_eq : forall (a : N) l, Forall (fun x => x = a) l -> l = repeat a (length l).
Proof. induction l as [|x t IH]; intros H; simpl; auto. inversion H; subst. f_equal. auto. Qed.

Lemma Forall_repeat : forall (a : N) k, Forall (fun x => x = a) (repeat a k).
Proof. intros. apply Forall_forall. intros y Hy. now apply repeat_spec in Hy. Qed.

Lemma rev_repeat' : forall (a : N) k, rev (repeat a k) = repeat a k.
Proof.
  intros. rewrite (Forall_repeat_eq a (rev (repeat a k))).
  - now rewrite rev_length, repeat_length.
  - apply Forall_rev, Forall_repeat.
Qed.

Lemma pow2_pos : forall k, 0 < 2 ^ k.
Proof. intros. apply N.neq_0_lt_0, N.pow_nonzero. lia. Qed.

Lemma bitsL_ones : forall k, bitsL (2 ^ N.of_nat k - 1) k = repeat 1 k.
Proof.
  induction k as [|k IH]; [reflexivity|]. cbn [bitsL repeat].
  pose proof (pow2_pos (N.of_nat k)) as Hk.
  assert (E : 2 ^ N.of_nat (S k) - 1 = 1 + (2 ^ N.of_nat k - 1) * 2)
    by (rewrite Nat2N.inj_succ, N.pow_succ_r'; lia).
  f_equal.
  - rewrite E, N.mod_add by lia. reflexivity.
  - rewrite N.shiftr_div_pow2, N.pow_1_r, E, N.div_add by lia.
    change (1 / 2) with 0. rewrite N.add_0_l. apply IH.
Qed.

Lemma valL_ones : forall k, valL (repeat 1 k) = 2 ^ N.of_nat k - 1.
Proof.
  induction k as [|k IH]; [reflexivity|]. cbn [repeat valL]. rewrite IH.
  pose proof (pow2_pos (N.of_nat k)). rewrite Nat2N.inj_succ, N.pow_succ_r'. lia.
Qed.

Lemma strided_from_all : forall (a : N) f step l, Forall (fun x => x = a) l ->
    Forall (fun x => x = a) (strided_from f step l).
Proof.
  induction f as [|f IH]; intros step l Hl; [destruct l; constructor|].
  destruct l as [|y l']; [constructor|]. cbn [strided_from]. constructor.
  - now inversion Hl.
  - apply IH. apply Forall_forall. intros z Hz. rewrite Forall_forall in Hl. apply Hl.
    rewrite <- (firstn_skipn step). apply in_or_app. now right.
Qed.

Lemma getc_repeat : forall (a : N) n i, (i < n)%nat -> getc (repeat a n) i = a.
Proof.
  unfold getc. induction n as [|n IH]; intros [|i] H; simpl; try lia; auto. apply IH. lia.
Qed.

Lemma h2t_top : forall p n, (1 <= p)%nat -> (1 <= n)%nat ->
    hilbert_integer_to_transpose p (2 ^ N.of_nat (n * p) - 1) n = repeat (2 ^ N.of_nat p - 1) n.
Proof.
  intros p n Hp Hn. unfold hilbert_integer_to_transpose. cbv zeta.
  rewrite int_2_binary_eq. replace (n * p)%nat with (p * n)%nat by lia.
  rewrite bitsL_ones, rev_repeat'.
  assert (Hz : forall i, (i < n)%nat ->
                         binary_2_int (strided i n (repeat 1 (p * n))) = 2 ^ N.of_nat p - 1).
  { intros i Hi.
    assert (Hl : length (strided i n (repeat 1 (p * n))) = p)
      by (apply strided_length; [lia|lia|apply repeat_length]).
    assert (Hall : Forall (fun x => x = 1) (strided i n (repeat 1 (p * n)))).
    { unfold strided. apply strided_from_all. apply Forall_forall. intros y Hy.
      pose proof (Forall_repeat 1 (p * n)) as Hr. rewrite Forall_forall in Hr. apply Hr.
      rewrite <- (firstn_skipn i). apply in_or_app. now right. }
    rewrite (Forall_repeat_eq 1 _ Hall), Hl, binary_2_int_eq, rev_repeat'. apply valL_ones. }
  apply (nth_ext _ _ 0 0).
  - now rewrite map_length, seq_length, repeat_length.
  - intros j Hj. rewrite map_length, seq_length in Hj.
    rewrite nth_map_seq by assumption. rewrite Hz by assumption.
    symmetry. apply (getc_repeat _ n j Hj).
Qed.

Lemma ones_xor_ones : forall q, N.lxor (2 ^ N.of_nat (S q) - 1) (2 ^ N.of_nat q - 1) = 2 ^ N.of_nat q.
Proof.
  intros q.
  replace (2 ^ N.of_nat (S q) - 1) with (N.ones (N.of_nat (S q))) by (rewrite N.ones_equiv; lia).
  replace (2 ^ N.of_nat q - 1) with (N.ones (N.of_nat q)) by (rewrite N.ones_equiv; lia).
  apply N.bits_inj. intro j. rewrite N.lxor_spec, N.pow2_bits_eqb.
  destruct (N.lt_trichotomy j (N.of_nat q)) as [H|[H|H]].
  - rewrite !N.ones_spec_low by lia. destruct (N.eqb_spec (N.of_nat q) j); [lia|reflexivity].
  - subst j. rewrite N.ones_spec_low, N.ones_spec_high by lia. now rewrite N.eqb_refl.
  - rewrite !N.ones_spec_high by lia. destruct (N.eqb_spec (N.of_nat q) j); [lia|reflexivity].
Qed.

Lemma diffs_const : forall a m, diffs a (repeat a m) = repeat 0 m.
Proof. induction m as [|m IH]; simpl; auto. now rewrite N.lxor_nilpotent, IH. Qed.


Lemma gray_decode_top : forall q m,
    gray_decode (S m) (repeat (2 ^ N.of_nat (S q) - 1) (S m)) = 2 ^ N.of_nat q :: repeat 0 m.
Proof.
  intros q m. cbn [repeat].
  rewrite <- (repeat_length (2 ^ N.of_nat (S q) - 1) m) at 1. rewrite gray_decode_cons.
  rewrite repeat_length.
  change (2 ^ N.of_nat (S q) - 1 :: repeat (2 ^ N.of_nat (S q) - 1) m)
    with (repeat (2 ^ N.of_nat (S q) - 1) (S m)).
  rewrite getc_repeat by lia. rewrite shiftr1_ones, ones_xor_ones, diffs_const.
  reflexivity.
Qed.

(* the state  X = 2^q :: 0 :: ... :: 0  through the undo-excess loop (p = q + 1) *)
Lemma land_pow2_ones : forall q k, (k <= q)%nat -> N.land (2 ^ N.of_nat q) (2 ^ N.of_nat k - 1) = 0.
Proof.
  intros q k Hk.
  replace (2 ^ N.of_nat k - 1) with (N.ones (N.of_nat k)) by (rewrite N.ones_equiv; lia).
  apply N.bits_inj. intro j. rewrite N.land_spec, N.pow2_bits_eqb, N.bits_0.
  destruct (N.eqb_spec (N.of_nat q) j) as [<-|]; [|reflexivity].
  rewrite N.ones_spec_high by lia. reflexivity.
Qed.

Lemma step_top_i : forall q k m j, (k <= q)%nat ->
    excess_step (2 ^ N.of_nat k) (2 ^ N.of_nat k - 1) (2 ^ N.of_nat q :: repeat 0 m) (S j)
    = 2 ^ N.of_nat q :: repeat 0 m.
Proof.
  intros q k m j Hk. unfold excess_step. cbn [getc nth].
  fold (getc (repeat 0 m) j). rewrite getc_repeat0, N.land_0_l.
  cbn [truthy N.eqb negb]. rewrite N.lxor_0_r, land_pow2_ones by assumption.
  cbn [setc]. rewrite N.lxor_0_r. cbn [getc nth]. fold (getc (repeat 0 m) j).
  rewrite getc_repeat0, N.lxor_0_r, setc_repeat0. reflexivity.
Qed.

Lemma step_top_0_low : forall q k m, (k < q)%nat ->
    excess_step (2 ^ N.of_nat k) (2 ^ N.of_nat k - 1) (2 ^ N.of_nat q :: repeat 0 m) 0
    = 2 ^ N.of_nat q :: repeat 0 m.
Proof.
  intros q k m Hk. unfold excess_step. cbn [getc nth].
  rewrite truthy_land_pow2, N.pow2_bits_eqb.
  destruct (N.eqb_spec (N.of_nat q) (N.of_nat k)); [lia|].
  rewrite N.lxor_nilpotent, N.land_0_l. cbn [setc]. rewrite N.lxor_0_r. cbn [getc nth setc].
  now rewrite N.lxor_0_r.
Qed.

Lemma step_top_0_top : forall q m,
    excess_step (2 ^ N.of_nat q) (2 ^ N.of_nat q - 1) (2 ^ N.of_nat q :: repeat 0 m) 0
    = (2 ^ N.of_nat (S q) - 1) :: repeat 0 m.
Proof.
  intros q m. unfold excess_step. cbn [getc nth].
  rewrite truthy_land_pow2, N.pow2_bits_eqb, N.eqb_refl. cbn [setc].
  f_equal. rewrite <- (ones_xor_ones q) at 1.
  rewrite N.lxor_assoc, N.lxor_nilpotent, N.lxor_0_r. reflexivity.
Qed.

Lemma fold_fixed_in : forall {A} (g : A -> nat -> A) (a : A) ks,
    (forall k, In k ks -> g a k = a) -> fold_left g ks a = a.
Proof.
  intros A g a ks H. induction ks as [|k r IH]; simpl; auto.
  rewrite H by now left. apply IH. intros j Hj. apply H. now right.
Qed.

Lemma seq0_S : forall m, seq 0 (S m) = 0%nat :: map S (seq 0 m).
Proof. intros. cbn [seq]. f_equal. now rewrite <- seq_shift. Qed.

Lemma level_down_top_low : forall q k m, (k < q)%nat ->
    level_down (S m) (2 ^ N.of_nat q :: repeat 0 m) k = 2 ^ N.of_nat q :: repeat 0 m.
Proof.
  intros q k m Hk. unfold level_down. cbv zeta. apply fold_fixed_in.
  intros i _. destruct i as [|j]; [now apply step_top_0_low|apply step_top_i; lia].
Qed.

Lemma level_down_top_top : forall q m,
    level_down (S m) (2 ^ N.of_nat q :: repeat 0 m) q = (2 ^ N.of_nat (S q) - 1) :: repeat 0 m.
Proof.
  intros q m. unfold level_down. cbv zeta.
  rewrite seq0_S. cbn [rev]. rewrite fold_left_app. cbn [fold_left].
  rewrite fold_fixed_in; [apply step_top_0_top|].
  intros i Hi. apply in_rev in Hi. apply in_map_iff in Hi. destruct Hi as [j [<- _]].
  apply step_top_i. lia.
Qed.

Lemma undo_excess_top : forall q m,
    undo_excess (S q) (S m) (2 ^ N.of_nat q :: repeat 0 m) = (2 ^ N.of_nat (S q) - 1) :: repeat 0 m.
Proof.
  intros q m. rewrite undo_excess_eq by lia.
  replace (S q - 1)%nat with q by lia.
  destruct q as [|q'].
  - (* p = 1: no level *) reflexivity.
  - (* levels 1 .. q' leave the state alone, level q' + 1 = q inverts the low bits *)
    rewrite seq_S, fold_left_app. cbn [fold_left plus].
    rewrite fold_fixed_in; [apply level_down_top_top|].
    intros k Hk. apply in_seq in Hk. apply level_down_top_low. lia.
Qed.

Theorem cfd_far_end : forall p n, hilbert_guard p n ->
    coordinate_from_distance p n (2 ^ N.of_nat (n * p) - 1)
    = match n with O => [] | S m => (2 ^ N.of_nat p - 1) :: repeat 0 m end.
Proof.
  intros p n (Hp & Hn & _). destruct n as [|m]; [lia|]. destruct p as [|q]; [lia|].
  rewrite cfd_unfold, h2t_top by lia. rewrite gray_decode_top. apply undo_excess_top.
Qed.
