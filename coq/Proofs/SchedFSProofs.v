(* C18 (c) — the tasks of pack_partitions_to_parquet: footprints are disjoint, hence every
   interleaving of a phase gives the same tree. *)
From Coq Require Import List Bool Arith Lia String.
From SP Require Import Model.FS Model.Sched Spec.SchedSpec Proofs.SchedProofs.
Import ListNotations.

(* ---------------- paths ---------------- *)

Lemma name_eqb_eq : forall a b, name_eqb a b = true <-> a = b.
Proof.
  intros a b. destruct a, b; simpl; split; intros H; try discriminate; try reflexivity;
    try (apply Nat.eqb_eq in H; congruence);
    try (injection H as H; apply Nat.eqb_eq; exact H).
  - apply String.eqb_eq in H. congruence.
  - injection H as H. apply String.eqb_eq. exact H.
Qed.

Lemma path_eqb_eq : forall p q, path_eqb p q = true <-> p = q.
Proof.
  induction p as [|a p IH]; intros [|b q]; simpl; split; intros H; try discriminate; try reflexivity.
  - apply andb_true_iff in H. destruct H as [H1 H2]. apply name_eqb_eq in H1. apply IH in H2. congruence.
  - injection H as H1 H2. apply andb_true_iff. split; [apply name_eqb_eq; exact H1|apply IH; exact H2].
Qed.

Lemma path_eqb_refl : forall p, path_eqb p p = true.
Proof. intros p. apply path_eqb_eq. reflexivity. Qed.

Lemma strip_prefix_spec : forall p q r, strip_prefix p q = Some r <-> q = p ++ r.
Proof.
  induction p as [|a p IH]; intros q r; simpl.
  - split; intros H; congruence.
  - destruct q as [|b q].
    + split; intros H; discriminate.
    + destruct (name_eqb a b) eqn:E.
      * apply name_eqb_eq in E. subst b. rewrite IH. split; intros H; congruence.
      * split; intros H; [discriminate|]. injection H as H1 H2. subst b.
        assert (name_eqb a a = true) by (apply name_eqb_eq; reflexivity). congruence.
Qed.

Lemma is_prefix_spec : forall p q, is_prefix p q = true <-> exists r, q = p ++ r.
Proof.
  intros p q. unfold is_prefix. destruct (strip_prefix p q) as [r|] eqn:E.
  - apply strip_prefix_spec in E. split; eauto.
  - split; [discriminate|]. intros (r & H). apply strip_prefix_spec in H. congruence.
Qed.

Lemma parent_snoc : forall (p : path) a, parent (p ++ [a]) = p.
Proof. intros. unfold parent. apply removelast_last. Qed.

(* ---------------- the operations honour their footprints ---------------- *)

Lemma set_loc_off : forall (s : fstore) t v l, t l = false -> set_loc s t v l = s l.
Proof. intros. unfold set_loc. rewrite H. reflexivity. Qed.

Lemma set_loc_on : forall (s : fstore) t v l, t l = true -> set_loc s t v l = v.
Proof. intros. unfold set_loc. rewrite H. reflexivity. Qed.

Lemma loc_is_self : forall p, loc_is p (LPath p) = true.
Proof. intros. simpl. apply path_eqb_refl. Qed.

Lemma loc_is_eq : forall p l, loc_is p l = true -> l = LPath p.
Proof. intros p [q|N] H; simpl in H; [apply path_eqb_eq in H; congruence|discriminate]. Qed.

Lemma fs_write_ok : forall p rows, op_ok (fs_write p rows).
Proof.
  intros p rows. split; simpl.
  - intros s l Hl. destruct (s (LPath (parent p))); try reflexivity.
    destruct (s (LPath p)); try reflexivity; apply set_loc_off; exact Hl.
  - intros s s' Hag l Hl.
    rewrite <- (Hag (LPath (parent p))) by (left; apply loc_is_self).
    rewrite <- (Hag (LPath p)) by (right; apply loc_is_self).
    destruct (s (LPath (parent p))); try (apply Hag; right; exact Hl).
    destruct (s (LPath p)); try (apply Hag; right; exact Hl);
      rewrite !set_loc_on by exact Hl; reflexivity.
Qed.

Lemma fs_rmtree_ok : forall p, op_ok (fs_rmtree p).
Proof.
  intros p. split; simpl.
  - intros s l Hl. apply set_loc_off. exact Hl.
  - intros s s' _ l Hl. rewrite !set_loc_on by exact Hl. reflexivity.
Qed.

Lemma flat_map_ext_in : forall (A B : Type) (f g : A -> list B) l,
  (forall a, In a l -> f a = g a) -> flat_map f l = flat_map g l.
Proof.
  induction l as [|x t IH]; intros H; simpl; [reflexivity|].
  rewrite (H x (or_introl eq_refl)), IH; [reflexivity|]. intros a Ha. apply H. right. exact Ha.
Qed.

Lemma fs_read_files_ok : forall N files, op_ok (fs_read_files N files).
Proof.
  intros N files. split; simpl.
  - intros s l Hl. apply set_loc_off. exact Hl.
  - intros s s' Hag l Hl. rewrite !set_loc_on by exact Hl. f_equal.
    apply flat_map_ext_in. intros p Hp. rewrite (Hag (LPath p)); [reflexivity|].
    left. apply existsb_exists. exists p. split; [exact Hp|apply loc_is_self].
Qed.

Lemma fs_write_from_ok : forall N p, op_ok (fs_write_from N p).
Proof.
  intros N p. split; simpl.
  - intros s l Hl. destruct (s (LPath (parent p))); try reflexivity.
    destruct (s (LPath p)); try reflexivity; destruct (s (LReg N)); try reflexivity;
      apply set_loc_off; exact Hl.
  - intros s s' Hag l Hl.
    rewrite <- (Hag (LPath (parent p))) by (left; rewrite loc_is_self; reflexivity).
    rewrite <- (Hag (LPath p)) by (right; apply loc_is_self).
    rewrite <- (Hag (LReg N)) by (left; simpl; apply Nat.eqb_refl).
    destruct (s (LPath (parent p))); try (apply Hag; right; exact Hl).
    destruct (s (LPath p)); try (apply Hag; right; exact Hl);
      destruct (s (LReg N)); try (apply Hag; right; exact Hl);
      rewrite !set_loc_on by exact Hl; reflexivity.
Qed.

(* ---------------- independence from regions ---------------- *)

Lemma regions_independent : forall (a b : op loc val) (A B C : loc -> Prop),
  (forall l, wr a l = true -> A l) -> (forall l, rd a l = true -> A l \/ C l) ->
  (forall l, wr b l = true -> B l) -> (forall l, rd b l = true -> B l \/ C l) ->
  (forall l, A l -> B l -> False) -> (forall l, C l -> A l -> False) -> (forall l, C l -> B l -> False) ->
  independent a b.
Proof.
  intros a b A B C Wa Ra Wb Rb AB CA CB l. split; intros H.
  - split.
    + destruct (rd b l) eqn:E; [|reflexivity]. exfalso. destruct (Rb l E); eauto.
    + destruct (wr b l) eqn:E; [|reflexivity]. exfalso. eauto.
  - split.
    + destruct (rd a l) eqn:E; [|reflexivity]. exfalso. destruct (Ra l E); eauto.
    + destruct (wr a l) eqn:E; [|reflexivity]. exfalso. eauto.
Qed.

(* ---------------- the layout ---------------- *)

Section Layout.
  Variable L : layout.
  Hypothesis Lok : layout_ok L = true.

  Lemma tmp_path_last : forall N, exists x a, tmp_path L N = x ++ [a] /\ (a = NPart N \/ a = NTmp N).
  Proof.
    intros N. unfold tmp_path. destruct (l_tmp L) as [|t]; eauto.
  Qed.

  (* nothing lies below the temporary / output directories of two different partitions *)
  Lemma under_disjoint : forall N M q X Y,
    N <> M ->
    (X = tmp_path L N \/ X = out_path L N) -> (Y = tmp_path L M \/ Y = out_path L M) ->
    is_prefix X q = true -> is_prefix Y q = true -> False.
  Proof.
    intros N M q X Y HNM HX HY H1 H2.
    apply is_prefix_spec in H1. apply is_prefix_spec in H2.
    destruct H1 as (r1 & E1). destruct H2 as (r2 & E2). subst q.
    unfold tmp_path, out_path, layout_ok in *.
    destruct (l_tmp L) as [|t].
    - assert (X = l_ds L ++ [NPart N]) by (destruct HX; assumption).
      assert (Y = l_ds L ++ [NPart M]) by (destruct HY; assumption). subst X Y.
      rewrite <- !app_assoc in E2. apply app_inv_head in E2. simpl in E2. congruence.
    - apply andb_true_iff in Lok. destruct Lok as [L1 L2].
      apply negb_true_iff in L1, L2.
      destruct HX as [HX|HX], HY as [HY|HY]; subst X Y; rewrite <- !app_assoc in E2; simpl in E2.
      + apply app_inv_head in E2. congruence.
      + apply app_eq_app in E2. destruct E2 as (l & [(E & _)|(E & _)]).
        * assert (is_prefix (l_ds L) t = true) by (apply is_prefix_spec; eauto). congruence.
        * assert (is_prefix t (l_ds L) = true) by (apply is_prefix_spec; eauto). congruence.
      + apply app_eq_app in E2. destruct E2 as (l & [(E & _)|(E & _)]).
        * assert (is_prefix t (l_ds L) = true) by (apply is_prefix_spec; eauto). congruence.
        * assert (is_prefix (l_ds L) t = true) by (apply is_prefix_spec; eauto). congruence.
      + apply app_inv_head in E2. congruence.
  Qed.

  (* the dataset directory itself is below none of them *)
  Lemma ds_not_under : forall M X,
    (X = tmp_path L M \/ X = out_path L M) -> is_prefix X (l_ds L) = true -> False.
  Proof.
    intros M X HX H. apply is_prefix_spec in H. destruct H as (r & E).
    unfold tmp_path, out_path, layout_ok in *.
    assert (Hlen : forall (d : path) a r, d = d ++ a :: r -> False).
    { intros d a r' Ed. apply (f_equal (@List.length name)) in Ed. rewrite app_length in Ed. simpl in Ed. lia. }
    destruct (l_tmp L) as [|t].
    - assert (X = l_ds L ++ [NPart M]) by (destruct HX; assumption). subst X.
      rewrite <- app_assoc in E. simpl in E. eapply Hlen. exact E.
    - destruct HX as [HX|HX]; subst X.
      + apply andb_true_iff in Lok. destruct Lok as [L1 _]. apply negb_true_iff in L1.
        rewrite <- app_assoc in E.
        assert (is_prefix t (l_ds L) = true) by (apply is_prefix_spec; eauto). congruence.
      + rewrite <- app_assoc in E. simpl in E. eapply Hlen. exact E.
  Qed.

  (* ---------- phase 1: process_partition ---------- *)

  Definition W1 (i : nat) (l : loc) : Prop := exists N, l = LPath (tmp_path L N ++ [NSub i]).
  Definition C1 (l : loc) : Prop := exists N, l = LPath (tmp_path L N).

  Lemma W1_disjoint : forall i j l, i <> j -> W1 i l -> W1 j l -> False.
  Proof.
    intros i j l Hij (N & E1) (M & E2). subst l. injection E2 as E2.
    apply app_inj_tail in E2. destruct E2 as (_ & E2). congruence.
  Qed.

  Lemma C1_W1_disjoint : forall i l, C1 l -> W1 i l -> False.
  Proof.
    intros i l (M & E1) (N & E2). subst l. injection E2 as E2.
    destruct (tmp_path_last M) as (x & a & Ex & Ha). rewrite Ex in E2.
    apply app_inj_tail in E2. destruct E2 as (_ & E2). destruct Ha; congruence.
  Qed.

  Lemma process_partition_regions : forall i groups o,
    In o (process_partition L i groups) ->
    op_ok o /\ (forall l, wr o l = true -> W1 i l) /\ (forall l, rd o l = true -> W1 i l \/ C1 l).
  Proof.
    intros i groups o H. unfold process_partition in H. apply in_map_iff in H.
    destruct H as (N & E & _). subst o. split; [apply fs_write_ok|]. simpl. split.
    - intros l Hl. apply loc_is_eq in Hl. exists N. exact Hl.
    - intros l Hl. right. rewrite parent_snoc in Hl. apply loc_is_eq in Hl. exists N. exact Hl.
  Qed.

  Lemma phase1_from_In : forall asg k t,
    In t (phase1_from L asg k) -> exists j g, k <= j /\ t = process_partition L j g.
  Proof.
    induction asg as [|g rest IH]; intros k t H; simpl in H; [contradiction|].
    destruct H as [E|H].
    - exists k, g. split; [lia|congruence].
    - destruct (IH (S k) t H) as (j & g' & Hj & E). exists j, g'. split; [lia|exact E].
  Qed.

  Lemma phase1_independent_from : forall asg k, tasks_independent (phase1_from L asg k).
  Proof.
    unfold tasks_independent. induction asg as [|g rest IH]; intros k; simpl; constructor.
    - apply Forall_forall. intros t Ht a b Ha Hb.
      destruct (phase1_from_In _ _ _ Ht) as (j & g' & Hj & E). subst t.
      destruct (process_partition_regions _ _ _ Ha) as (_ & Wa & Ra).
      destruct (process_partition_regions _ _ _ Hb) as (_ & Wb & Rb).
      apply (regions_independent a b (W1 k) (W1 j) C1); try assumption.
      + intros l. apply W1_disjoint. lia.
      + intros l Hc Hw. eapply C1_W1_disjoint; eauto.
      + intros l Hc Hw. eapply C1_W1_disjoint; eauto.
    - apply IH.
  Qed.

  Lemma phase1_ok_from : forall asg k, Forall (Forall op_ok) (phase1_from L asg k).
  Proof.
    intros asg k. apply Forall_forall. intros t Ht.
    destruct (phase1_from_In _ _ _ Ht) as (j & g & _ & E). subst t.
    apply Forall_forall. intros o Ho. apply (process_partition_regions _ _ _ Ho).
  Qed.

  (* ---------- phase 2: concat_parts ---------- *)

  Definition R2 (N : nat) (l : loc) : Prop :=
    loc_under (tmp_path L N) l = true \/ loc_under (out_path L N) l = true \/ loc_reg N l = true.
  Definition C2 (l : loc) : Prop := l = LPath (l_ds L).

  Lemma R2_disjoint : forall N M l, N <> M -> R2 N l -> R2 M l -> False.
  Proof.
    intros N M [q|K] HNM H1 H2; unfold R2 in *; simpl in *.
    - destruct H1 as [H1|[H1|H1]]; [| |discriminate]; destruct H2 as [H2|[H2|H2]]; try discriminate.
      + apply (under_disjoint N M q _ _ HNM (or_introl eq_refl) (or_introl eq_refl) H1 H2).
      + apply (under_disjoint N M q _ _ HNM (or_introl eq_refl) (or_intror eq_refl) H1 H2).
      + apply (under_disjoint N M q _ _ HNM (or_intror eq_refl) (or_introl eq_refl) H1 H2).
      + apply (under_disjoint N M q _ _ HNM (or_intror eq_refl) (or_intror eq_refl) H1 H2).
    - destruct H1 as [H1|[H1|H1]]; try discriminate. destruct H2 as [H2|[H2|H2]]; try discriminate.
      apply Nat.eqb_eq in H1, H2. congruence.
  Qed.

  Lemma C2_R2_disjoint : forall M l, C2 l -> R2 M l -> False.
  Proof.
    intros M l Hc Hr. unfold C2 in Hc. subst l. unfold R2 in Hr. simpl in Hr.
    destruct Hr as [H|[H|H]]; [| |discriminate].
    - apply (ds_not_under M _ (or_introl eq_refl) H).
    - apply (ds_not_under M _ (or_intror eq_refl) H).
  Qed.

  Lemma subparts_from_In : forall asg i N p,
    In p (subparts_from L asg i N) -> exists j, p = tmp_path L N ++ [NSub j].
  Proof.
    induction asg as [|g rest IH]; intros i N p H; simpl in H; [contradiction|].
    apply in_app_or in H. destruct H as [H|H].
    - destruct (existsb (Nat.eqb N) g); [|contradiction]. destruct H as [H|[]]. eauto.
    - eapply IH. exact H.
  Qed.

  Lemma loc_is_under : forall p l, loc_is p l = true -> loc_under p l = true.
  Proof.
    intros p l H. apply loc_is_eq in H. subst l. simpl. apply is_prefix_spec. exists []. symmetry.
    apply app_nil_r.
  Qed.

  Lemma concat_parts_regions : forall asg N o,
    In o (concat_parts L N (subparts L asg N)) ->
    op_ok o /\ (forall l, wr o l = true -> R2 N l) /\ (forall l, rd o l = true -> R2 N l \/ C2 l).
  Proof.
    intros asg N o H.
    assert (Hsub : forall l, existsb (fun p => loc_is p l) (subparts L asg N) = true -> R2 N l).
    { intros l Hl. apply existsb_exists in Hl. destruct Hl as (p & Hp & Hl).
      destruct (subparts_from_In _ _ _ _ Hp) as (j & E). subst p.
      apply loc_is_eq in Hl. subst l. left. simpl. apply is_prefix_spec. eauto. }
    assert (Hout : forall l, loc_is (parent (out_path L N)) l = true -> C2 l).
    { intros l Hl. unfold out_path in Hl. rewrite parent_snoc in Hl. apply loc_is_eq in Hl. exact Hl. }
    unfold concat_parts in H.
    assert (Cases : o = fs_read_files N (subparts L asg N) \/ o = fs_rmtree (tmp_path L N) \/
                    o = fs_rmtree (out_path L N) \/ o = fs_write_from N (out_path L N)).
    { destruct (subparts L asg N); simpl in H; intuition. }
    destruct Cases as [E|[E|[E|E]]]; subst o.
    - split; [apply fs_read_files_ok|]. simpl. split.
      + intros l Hl. right. right. exact Hl.
      + intros l Hl. left. apply Hsub. exact Hl.
    - split; [apply fs_rmtree_ok|]. simpl. split; [intros l Hl; left; exact Hl|discriminate].
    - split; [apply fs_rmtree_ok|]. simpl. split; [intros l Hl; right; left; exact Hl|discriminate].
    - split; [apply fs_write_from_ok|]. simpl. split.
      + intros l Hl. right. left. apply loc_is_under. exact Hl.
      + intros l Hl. apply orb_true_iff in Hl. destruct Hl as [Hl|Hl].
        * right. apply Hout. exact Hl.
        * left. right. right. exact Hl.
  Qed.

  Lemma FOP_map_NoDup : forall (A B : Type) (R : B -> B -> Prop) (f : A -> B) l,
    NoDup l -> (forall x y, In x l -> In y l -> x <> y -> R (f x) (f y)) ->
    ForallOrdPairs R (map f l).
  Proof.
    induction l as [|x t IH]; intros Hnd H; simpl; constructor.
    - inversion Hnd; subst. apply Forall_forall. intros b Hb. apply in_map_iff in Hb.
      destruct Hb as (y & E & Hy). subst b. apply H; [left; reflexivity|right; exact Hy|].
      intros E. subst y. contradiction.
    - inversion Hnd; subst. apply IH; [assumption|]. intros a b Ha Hb. apply H; right; assumption.
  Qed.

  Lemma phase2_independent : forall asg k, tasks_independent (phase2 L asg k).
  Proof.
    intros asg k. unfold tasks_independent, phase2. apply FOP_map_NoDup; [apply seq_NoDup|].
    intros N M _ _ HNM a b Ha Hb.
    destruct (concat_parts_regions _ _ _ Ha) as (_ & Wa & Ra).
    destruct (concat_parts_regions _ _ _ Hb) as (_ & Wb & Rb).
    apply (regions_independent a b (R2 N) (R2 M) C2); try assumption.
    - intros l. apply R2_disjoint. exact HNM.
    - intros l Hc Hr. eapply C2_R2_disjoint; eauto.
    - intros l Hc Hr. eapply C2_R2_disjoint; eauto.
  Qed.

  Lemma phase2_ok : forall asg k, Forall (Forall op_ok) (phase2 L asg k).
  Proof.
    intros asg k. apply Forall_forall. intros t Ht. unfold phase2 in Ht. apply in_map_iff in Ht.
    destruct Ht as (N & E & _). subst t. apply Forall_forall. intros o Ho.
    apply (concat_parts_regions _ _ _ Ho).
  Qed.

  (* footprints_disjoint *)
  Theorem footprints_disjoint : forall asg k,
    tasks_independent (phase1 L asg) /\ tasks_independent (phase2 L asg k).
  Proof. intros. split; [apply phase1_independent_from|apply phase2_independent]. Qed.

  (* every interleaving of the process_partition tasks, then (barrier) every interleaving
     of the concat_parts tasks, ends in the tree of the sequential execution *)
  Theorem fs_schedule_independent : forall asg k l1 l2,
    interleave (phase1 L asg) l1 -> interleave (phase2 L asg k) l2 ->
    forall s, seq_store (run (l1 ++ l2) s)
                        (run (List.concat (phase1 L asg) ++ List.concat (phase2 L asg k)) s).
  Proof.
    intros asg k l1 l2 H1 H2 s. rewrite !run_app.
    assert (Hok2 : Forall op_ok l2).
    { apply Forall_forall. intros x Hx. destruct (interleave_In _ _ _ _ _ H2 Hx) as (t & Ht & Hxt).
      pose proof (phase2_ok asg k) as Hp. rewrite Forall_forall in Hp. specialize (Hp t Ht).
      rewrite Forall_forall in Hp. apply Hp. exact Hxt. }
    eapply seq_trans.
    - apply run_proper; [exact Hok2|].
      apply (interleave_run _ _ _ _ H1 (phase1_ok_from asg 0) (phase1_independent_from asg 0)).
    - apply (interleave_run _ _ _ _ H2 (phase2_ok asg k) (phase2_independent asg k)).
  Qed.
End Layout.

Lemma fs_ops_ok : forall L asg k, layout_ok L = true ->
  Forall (Forall op_ok) (phase1 L asg) /\ Forall (Forall op_ok) (phase2 L asg k).
Proof.
  intros L asg k _. split; [apply phase1_ok_from|apply phase2_ok].
Qed.
