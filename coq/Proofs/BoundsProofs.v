(* Lemma library for C13 (bounds / total_bounds). *)
From Coq Require Import ZArith List Bool Arith Lia ZifyBool.
From SP Require Import Model.Num Model.Arrow Model.Bounds Spec.BoundsSpec.
Import ListNotations.
Local Open Scope nat_scope.

(* ================================================================== *)
(** * 1. The interleaved kernels                                        *)
(* ================================================================== *)

(* two-step induction, the recursion scheme of [pairs] and of the kernels *)
Lemma pairs_ind2 (P : list num -> Prop) :
  P [] -> (forall x, P [x]) -> (forall x y t, P t -> P (x :: y :: t)) ->
  forall l, P l.
Proof.
  intros H0 H1 H2.
  assert (H : forall l, P l /\ forall x, P (x :: l)).
  { induction l as [|y t [IHa IHb]]; split; auto. }
  intros l; apply H.
Qed.

Lemma finite_of_some : forall v l, finite_of (Some v :: l) = v :: finite_of l.
Proof. reflexivity. Qed.
Lemma finite_of_none : forall l, finite_of (None :: l) = finite_of l.
Proof. reflexivity. Qed.

Lemma in_finite_of : forall v l, In v (finite_of l) <-> In (Some v) l.
Proof.
  intros v l. unfold finite_of. rewrite in_flat_map. split.
  - intros (o & Ho & Hv). destruct o as [w|]; cbn in Hv.
    + destruct Hv as [<-|[]]. exact Ho.
    + destruct Hv.
  - intros H. exists (Some v). split; [exact H | left; reflexivity].
Qed.

(* one step of a running (min, max) *)
Definition step (p : option Z * option Z) (v : Z) : option Z * option Z :=
  (omin (fst p) v, omax (snd p) v).

Lemma tbi1_loop_fold : forall vs (first : bool) lo hi,
  tbi1_loop vs first lo hi =
  fold_left step (finite_of (map (if first then fst else snd) (pairs vs))) (lo, hi).
Proof.
  intros vs first.
  induction vs as [| x | x y t IH] using pairs_ind2; intros lo hi;
    try reflexivity.
  cbn [tbi1_loop pairs map].
  destruct first; cbn [fst snd].
  - destruct x as [v|]; [rewrite finite_of_some | rewrite finite_of_none];
      rewrite IH; reflexivity.
  - destruct y as [v|]; [rewrite finite_of_some | rewrite finite_of_none];
      rewrite IH; reflexivity.
Qed.

(* the 2-d loop is the two 1-d loops side by side *)
Lemma tbi_loop_split : forall vs xmin xmax ymin ymax,
  tbi_loop vs xmin xmax ymin ymax =
  (fst (tbi1_loop vs true xmin xmax), snd (tbi1_loop vs true xmin xmax),
   fst (tbi1_loop vs false ymin ymax), snd (tbi1_loop vs false ymin ymax)).
Proof.
  induction vs as [| x | x y t IH] using pairs_ind2; intros xmin xmax ymin ymax;
    try reflexivity.
  cbn [tbi_loop tbi1_loop].
  destruct x as [vx|], y as [vy|]; apply IH.
Qed.

Lemma fold_step_some : forall l a b,
  exists a' b',
    fold_left step l (Some a, Some b) = (Some a', Some b') /\
    (a' = a \/ In a' l) /\ (a' <= a)%Z /\ (forall x, In x l -> (a' <= x)%Z) /\
    (b' = b \/ In b' l) /\ (b <= b')%Z /\ (forall x, In x l -> (x <= b')%Z).
Proof.
  induction l as [|v t IH]; intros a b.
  - exists a, b. cbn. repeat split; auto; try lia; intros x [].
  - destruct (IH (Z.min a v) (Z.max b v))
      as (a' & b' & E & Ha1 & Ha2 & Ha3 & Hb1 & Hb2 & Hb3).
    exists a', b'. split; [exact E|].
    split; [|split; [|split; [|split; [|split]]]].
    + destruct Ha1 as [->|Hin]; [|right; right; exact Hin].
      destruct (Z.min_spec a v) as [[_ ->]|[_ ->]]; [left|right; left]; reflexivity.
    + lia.
    + intros x [<-|Hx]; [lia | apply Ha3, Hx].
    + destruct Hb1 as [->|Hin]; [|right; right; exact Hin].
      destruct (Z.max_spec b v) as [[_ ->]|[_ ->]]; [right; left|left]; reflexivity.
    + lia.
    + intros x [<-|Hx]; [lia | apply Hb3, Hx].
Qed.

(* the "still +inf => NaN" post-processing of the kernels *)
Definition norm (p : option Z * option Z) : num * num :=
  match fst p with None => (None, None) | _ => p end.

Lemma extent_fold : forall l,
  extent l (fst (norm (fold_left step l (None, None))))
           (snd (norm (fold_left step l (None, None)))).
Proof.
  intros [|v t].
  - cbn. split; reflexivity.
  - cbn [fold_left].
    change (step (None, None) v) with (Some v, Some v).
    destruct (fold_step_some t v v)
      as (a' & b' & E & Ha1 & Ha2 & Ha3 & Hb1 & Hb2 & Hb3).
    rewrite E. cbn [norm fst snd extent].
    exists a', b'. repeat split; auto.
    + destruct Ha1 as [->|Hin]; [left; reflexivity | right; exact Hin].
    + intros x [<-|Hx]; [exact Ha2 | apply Ha3, Hx].
    + destruct Hb1 as [->|Hin]; [left; reflexivity | right; exact Hin].
    + intros x [<-|Hx]; [exact Hb2 | apply Hb3, Hx].
Qed.

Lemma tbi_norm : forall vs,
  total_bounds_interleaved vs =
  (fst (norm (fold_left step (xs_of vs) (None, None))),
   fst (norm (fold_left step (ys_of vs) (None, None))),
   snd (norm (fold_left step (xs_of vs) (None, None))),
   snd (norm (fold_left step (ys_of vs) (None, None)))).
Proof.
  intros vs. unfold total_bounds_interleaved, xs_of, ys_of.
  rewrite tbi_loop_split, !tbi1_loop_fold.
  destruct (fold_left step (finite_of (map fst (pairs vs))) (None, None))
    as [[xl|] xh];
  destruct (fold_left step (finite_of (map snd (pairs vs))) (None, None))
    as [[yl|] yh]; reflexivity.
Qed.

Lemma tbi1_norm : forall vs (offset : nat),
  total_bounds_interleaved_1d vs offset =
  norm (fold_left step
          (finite_of (map (if Nat.eqb offset 0 then fst else snd) (pairs vs)))
          (None, None)).
Proof.
  intros vs offset. unfold total_bounds_interleaved_1d.
  rewrite tbi1_loop_fold.
  destruct (fold_left step _ (None, None)) as [[l|] h]; reflexivity.
Qed.

(* item 1 *)
Lemma kernel_tight : forall vs, tight_box vs (total_bounds_interleaved vs).
Proof.
  intros vs. rewrite tbi_norm. unfold tight_box.
  split; apply extent_fold.
Qed.

(* item 2 *)
Lemma kernel_1d : forall vs,
  let '(x0, y0, x1, y1) := total_bounds_interleaved vs in
  total_bounds_interleaved_1d vs 0 = (x0, x1) /\
  total_bounds_interleaved_1d vs 1 = (y0, y1).
Proof.
  intros vs. rewrite tbi_norm, !tbi1_norm. cbn [Nat.eqb].
  unfold xs_of, ys_of.
  split; apply surjective_pairing.
Qed.

(* item 7 *)
Lemma la_total_proj : forall a,
  let '(x0, y0, x1, y1) := la_total_bounds a in
  la_total_bounds_x a = (x0, x1) /\ la_total_bounds_y a = (y0, y1).
Proof. intros a. exact (kernel_1d (flat_values a)). Qed.

Lemma fa_total_proj : forall a,
  let '(x0, y0, x1, y1) := fa_total_bounds a in
  fa_total_bounds_x a = (x0, x1) /\ fa_total_bounds_y a = (y0, y1).
Proof. intros a. exact (kernel_1d (fa_valid_flat_values a)). Qed.

(* ================================================================== *)
(** * 2. firstn / skipn / slice                                         *)
(* ================================================================== *)

Lemma firstn_add : forall A n m (l : list A),
  firstn (n + m) l = firstn n l ++ firstn m (skipn n l).
Proof.
  intros A n m. induction n as [|n IH]; intros l.
  - reflexivity.
  - destruct l as [|x l]; cbn [Nat.add firstn skipn app].
    + destruct m; reflexivity.
    + rewrite IH. reflexivity.
Qed.

Lemma skipn_add : forall A n m (l : list A),
  skipn (n + m) l = skipn m (skipn n l).
Proof.
  intros A n m. induction n as [|n IH]; intros l.
  - reflexivity.
  - destruct l as [|x l]; cbn [Nat.add skipn].
    + destruct m; reflexivity.
    + apply IH.
Qed.

Lemma nth_skipn_add : forall A n k (l : list A) d,
  nth k (skipn n l) d = nth (n + k) l d.
Proof.
  intros A n k. induction n as [|n IH]; intros l d.
  - reflexivity.
  - destruct l as [|x l]; cbn [Nat.add skipn nth].
    + destruct k; reflexivity.
    + apply IH.
Qed.

Lemma nth_firstn_lt : forall A n k (l : list A) d,
  k < n -> nth k (firstn n l) d = nth k l d.
Proof.
  intros A n. induction n as [|n IH]; intros k l d Hk; [lia|].
  destruct l as [|x l]; [reflexivity|].
  destruct k as [|k]; [reflexivity|].
  cbn [firstn nth]. apply IH. lia.
Qed.

Lemma in_firstn : forall A n (l : list A) x, In x (firstn n l) -> In x l.
Proof.
  intros A n. induction n as [|n IH]; intros l x H; [destruct H|].
  destruct l as [|y l]; [destruct H|].
  destruct H as [<-|H]; [left; reflexivity | right; apply IH, H].
Qed.

Lemma in_skipn : forall A n (l : list A) x, In x (skipn n l) -> In x l.
Proof.
  intros A n. induction n as [|n IH]; intros l x H; [exact H|].
  destruct l as [|y l]; [destruct H|].
  right. apply IH, H.
Qed.

Lemma in_slice : forall A s e (l : list A) x, In x (slice s e l) -> In x l.
Proof. intros A s e l x H. eapply in_skipn, in_firstn, H. Qed.

Lemma slice_same : forall A s (l : list A), slice s s l = [].
Proof. intros A s l. unfold slice. rewrite Nat.sub_diag. reflexivity. Qed.

Lemma slice_length : forall A s e (l : list A),
  e <= length l -> length (slice s e l) = e - s.
Proof.
  intros A s e l H. unfold slice. rewrite firstn_length, skipn_length. lia.
Qed.

Lemma slice_split : forall A a b c (l : list A),
  a <= b -> b <= c -> slice a c l = slice a b l ++ slice b c l.
Proof.
  intros A a b c l Hab Hbc. unfold slice.
  replace (c - a) with ((b - a) + (c - b)) by lia.
  rewrite firstn_add. f_equal.
  rewrite <- skipn_add. replace (a + (b - a)) with b by lia. reflexivity.
Qed.

Lemma nth_slice : forall A s e k (l : list A) d,
  k < e - s -> nth k (slice s e l) d = nth (s + k) l d.
Proof.
  intros A s e k l d H. unfold slice.
  rewrite nth_firstn_lt by exact H. apply nth_skipn_add.
Qed.

Lemma slice_pair : forall A s (l : list A) d,
  s + 2 <= length l -> slice s (s + 2) l = [nth s l d; nth (S s) l d].
Proof.
  intros A s l d H. unfold slice.
  replace (s + 2 - s) with 2 by lia.
  pose proof (skipn_length s l) as HL.
  pose proof (nth_skipn_add A s 0 l d) as H0.
  pose proof (nth_skipn_add A s 1 l d) as H1.
  destruct (skipn s l) as [|x [|y t]]; cbn [length] in HL; try lia.
  cbn [nth] in H0, H1. cbn [firstn].
  rewrite H0, H1. replace (s + 0) with s by lia. replace (s + 1) with (S s) by lia.
  reflexivity.
Qed.

Lemma last_nth_pred : forall A (l : list A) d, last l d = nth (length l - 1) l d.
Proof.
  intros A l d. induction l as [|x t IH]; [reflexivity|].
  destruct t as [|y t']; [reflexivity|].
  change (last (x :: y :: t') d) with (last (y :: t') d). rewrite IH.
  cbn [length Nat.sub nth]. rewrite Nat.sub_0_r. reflexivity.
Qed.

Lemma last_map : forall A B (f : A -> B) (l : list A) d d',
  l <> [] -> last (map f l) d' = f (last l d).
Proof.
  intros A B f l d d' H. induction l as [|x t IH]; [contradiction|].
  destruct t as [|y t']; [reflexivity|].
  change (last (map f (x :: y :: t')) d') with (last (map f (y :: t')) d').
  change (last (x :: y :: t') d) with (last (y :: t') d).
  apply IH. discriminate.
Qed.

Lemma last_in : forall A (l : list A) d, l <> [] -> In (last l d) l.
Proof.
  intros A l d H. induction l as [|x t IH]; [contradiction|].
  destruct t as [|y t']; [left; reflexivity|].
  right. apply IH. discriminate.
Qed.

Lemma nth_map_seq : forall A (f : nat -> A) n i d,
  i < n -> nth i (map f (seq 0 n)) d = f i.
Proof.
  intros A f n i d H.
  rewrite nth_indep with (d' := f 0) by (rewrite map_length, seq_length; exact H).
  rewrite map_nth, seq_nth by exact H. reflexivity.
Qed.

Lemma combine_map_both : forall A B C (f : A -> B) (g : A -> C) l,
  combine (map f l) (map g l) = map (fun x => (f x, g x)) l.
Proof.
  intros A B C f g l. induction l as [|x t IH]; [reflexivity|].
  cbn [map combine]. rewrite IH. reflexivity.
Qed.

Lemma combine_map_left : forall A B (f : A -> B) l,
  combine (map f l) l = map (fun x => (f x, x)) l.
Proof.
  intros A B f l. induction l as [|x t IH]; [reflexivity|].
  cbn [map combine]. rewrite IH. reflexivity.
Qed.

(* ================================================================== *)
(** * 3. mono                                                           *)
(* ================================================================== *)

Lemma mono_cons2 : forall a b t, mono (a :: b :: t) = Nat.leb a b && mono (b :: t).
Proof. reflexivity. Qed.

Lemma mono_tail : forall a t, mono (a :: t) = true -> mono t = true.
Proof.
  intros a [|b t] H; [reflexivity|].
  rewrite mono_cons2 in H. apply andb_true_iff in H. apply H.
Qed.

Lemma mono_head_le : forall t a x, mono (a :: t) = true -> In x t -> a <= x.
Proof.
  induction t as [|b t IH]; intros a x H Hx; [destruct Hx|].
  rewrite mono_cons2 in H. apply andb_true_iff in H. destruct H as [Hab Ht].
  apply Nat.leb_le in Hab.
  destruct Hx as [<-|Hx]; [exact Hab|].
  specialize (IH b x Ht Hx). lia.
Qed.

Lemma mono_nth : forall l i j,
  mono l = true -> i <= j -> j < length l -> nth i l 0 <= nth j l 0.
Proof.
  induction l as [|a t IH]; intros i j H Hij Hj; cbn [length] in Hj; [lia|].
  destruct j as [|j].
  - replace i with 0 by lia. lia.
  - destruct i as [|i]; cbn [nth].
    + apply (mono_head_le t a _ H). apply nth_In. lia.
    + apply IH; [eapply mono_tail, H | lia | lia].
Qed.

Lemma mono_le_last : forall l x, mono l = true -> In x l -> x <= last l 0.
Proof.
  intros l x H Hx.
  destruct (In_nth l x 0 Hx) as (i & Hi & <-).
  rewrite last_nth_pred. apply mono_nth; [exact H | lia | lia].
Qed.

Lemma mono_skipn : forall n l, mono l = true -> mono (skipn n l) = true.
Proof.
  induction n as [|n IH]; intros l H; [exact H|].
  destruct l as [|a t]; [reflexivity|].
  cbn [skipn]. apply IH. eapply mono_tail, H.
Qed.

Lemma mono_firstn : forall l n, mono l = true -> mono (firstn n l) = true.
Proof.
  induction l as [|a t IH]; intros n H.
  - destruct n; reflexivity.
  - destruct n as [|n]; [reflexivity|].
    cbn [firstn].
    destruct t as [|b t']; [destruct n; reflexivity|].
    destruct n as [|n]; [reflexivity|].
    rewrite mono_cons2 in H. apply andb_true_iff in H. destruct H as [Hab Ht].
    specialize (IH (S n) Ht). cbn [firstn] in IH |- *.
    rewrite mono_cons2, Hab, IH. reflexivity.
Qed.

Lemma mono_slice : forall s e l, mono l = true -> mono (slice s e l) = true.
Proof. intros s e l H. unfold slice. apply mono_firstn, mono_skipn, H. Qed.

Lemma mono_map_getn : forall o flat,
  mono o = true -> mono flat = true ->
  (forall x, In x flat -> x < length o) ->
  mono (map (getn o) flat) = true.
Proof.
  intros o flat Ho. induction flat as [|a t IH]; intros Hf Hb; [reflexivity|].
  destruct t as [|b t']; [reflexivity|].
  change (map (getn o) (a :: b :: t'))
    with (getn o a :: getn o b :: map (getn o) t').
  rewrite mono_cons2.
  pose proof Hf as Hf'. rewrite mono_cons2 in Hf'.
  apply andb_true_iff in Hf'. destruct Hf' as [Hab Ht].
  apply Nat.leb_le in Hab.
  apply andb_true_iff. split.
  - apply Nat.leb_le. unfold getn. apply mono_nth; [exact Ho | exact Hab |].
    apply Hb. right; left; reflexivity.
  - apply IH; [exact Ht|]. intros x Hx. apply Hb. right. exact Hx.
Qed.

(* ================================================================== *)
(** * 4. consecutive segments of a values buffer                        *)
(* ================================================================== *)

Fixpoint segs {A} (vals : list A) (offs : list nat) : list (list A) :=
  match offs with
  | start :: ((stop :: _) as t) => slice start stop vals :: segs vals t
  | _ => []
  end.

Lemma bounds_interleaved_segs : forall vals offs,
  bounds_interleaved vals offs = map total_bounds_interleaved (segs vals offs).
Proof.
  intros vals offs. induction offs as [|a t IH]; [reflexivity|].
  destruct t as [|b t']; [reflexivity|].
  change (bounds_interleaved vals (a :: b :: t'))
    with (total_bounds_interleaved (slice a b vals)
          :: bounds_interleaved vals (b :: t')).
  rewrite IH. reflexivity.
Qed.

Lemma segs_seq : forall A (vals : list A) offs,
  segs vals offs =
  map (fun i => slice (getn offs i) (getn offs (S i)) vals)
      (seq 0 (length offs - 1)).
Proof.
  intros A vals offs. induction offs as [|a t IH]; [reflexivity|].
  destruct t as [|b t']; [reflexivity|].
  change (segs vals (a :: b :: t'))
    with (slice a b vals :: segs vals (b :: t')).
  rewrite IH.
  change (length (a :: b :: t') - 1) with (S (length t')).
  change (length (b :: t') - 1) with (length t' - 0). rewrite Nat.sub_0_r.
  cbn [seq map]. f_equal.
  rewrite <- seq_shift, map_map. reflexivity.
Qed.

Lemma concat_segs : forall A (vals : list A) offs,
  mono offs = true ->
  concat (segs vals offs) = slice (hd 0 offs) (last offs 0) vals.
Proof.
  intros A vals offs. induction offs as [|a t IH]; intros H.
  - reflexivity.
  - destruct t as [|b t'].
    + cbn [segs concat hd last]. rewrite slice_same. reflexivity.
    + change (segs vals (a :: b :: t'))
        with (slice a b vals :: segs vals (b :: t')).
      change (last (a :: b :: t') 0) with (last (b :: t') 0).
      cbn [concat hd].
      rewrite IH by (eapply mono_tail, H). cbn [hd].
      symmetry. apply slice_split.
      * apply (mono_head_le _ _ _ H). left; reflexivity.
      * apply mono_le_last; [eapply mono_tail, H | left; reflexivity].
Qed.

(* ================================================================== *)
(** * 5. pairs and concatenation                                        *)
(* ================================================================== *)

Lemma pairs_app : forall l1 l2,
  Nat.even (length l1) = true -> pairs (l1 ++ l2) = pairs l1 ++ pairs l2.
Proof.
  intros l1 l2. induction l1 as [| x | x y t IH] using pairs_ind2; intros H.
  - reflexivity.
  - discriminate H.
  - cbn [app pairs]. rewrite IH; [reflexivity | exact H].
Qed.

Lemma pairs_incl_concat : forall ls l,
  Forall (fun l => Nat.even (length l) = true) ls ->
  In l ls -> incl (pairs l) (pairs (concat ls)).
Proof.
  induction ls as [|l0 ls IH]; intros l HF Hin; [destruct Hin|].
  inversion HF as [|? ? He HF']; subst.
  cbn [concat]. rewrite pairs_app by exact He.
  destruct Hin as [->|Hin].
  - apply incl_appl, incl_refl.
  - apply incl_appr, IH; assumption.
Qed.

Lemma finite_map_incl : forall (f : num * num -> num) l m,
  incl l m -> incl (finite_of (map f l)) (finite_of (map f m)).
Proof.
  intros f l m H v Hv. apply in_finite_of in Hv. apply in_finite_of.
  apply in_map_iff in Hv. destruct Hv as (p & Hp & Hin).
  apply in_map_iff. exists p. split; [exact Hp | apply H, Hin].
Qed.

Lemma extent_incl : forall l1 l2 lo1 hi1 lo2 hi2,
  incl l1 l2 -> extent l1 lo1 hi1 -> extent l2 lo2 hi2 ->
  (forall v, lo1 = Some v -> exists t, lo2 = Some t /\ (t <= v)%Z) /\
  (forall v, hi1 = Some v -> exists t, hi2 = Some t /\ (v <= t)%Z).
Proof.
  intros l1 l2 lo1 hi1 lo2 hi2 Hi H1 H2.
  destruct l1 as [|z l1].
  - destruct H1 as [-> ->]. split; intros v Hv; discriminate Hv.
  - destruct l2 as [|w l2]; [destruct (Hi z); left; reflexivity|].
    cbn [extent] in H1, H2.
    destruct H1 as (a1 & b1 & -> & -> & [Ha1 _] & [Hb1 _]).
    destruct H2 as (a2 & b2 & -> & -> & [_ Ha2] & [_ Hb2]).
    split; intros v Hv; injection Hv as <-.
    + exists a2. split; [reflexivity | apply Ha2, Hi, Ha1].
    + exists b2. split; [reflexivity | apply Hb2, Hi, Hb1].
Qed.

(* ================================================================== *)
(** * 6. list arrays: what well-formedness gives                        *)
(* ================================================================== *)

(* the composition of offsets performed by buffer_outer_offsets *)
Definition chase (rest : list (list nat)) (flat : list nat) : list nat :=
  fold_left (fun flat offs => map (getn offs) flat) rest flat.

Lemma wf_levels_weaken : forall n n' offs nv,
  n' <= n -> wf_levels n offs nv = true -> wf_levels n' offs nv = true.
Proof.
  intros n n' [|o rest] nv Hle H; cbn [wf_levels] in *.
  - apply Nat.leb_le in H. apply Nat.leb_le. lia.
  - apply andb_true_iff in H. destruct H as [H H3].
    apply andb_true_iff in H. destruct H as [H1 H2].
    apply Nat.ltb_lt in H1.
    rewrite H2, H3, andb_true_r, andb_true_r. apply Nat.ltb_lt. lia.
Qed.

Lemma chase_wf : forall rest flat nvals,
  flat <> [] -> mono flat = true ->
  wf_levels (last flat 0) rest nvals = true ->
  length (chase rest flat) = length flat /\
  mono (chase rest flat) = true /\
  last (chase rest flat) 0 <= nvals.
Proof.
  induction rest as [|o rest IH]; intros flat nvals Hne Hm Hwf.
  - cbn [chase fold_left wf_levels] in *. apply Nat.leb_le in Hwf. auto.
  - cbn [wf_levels] in Hwf.
    apply andb_true_iff in Hwf. destruct Hwf as [Hwf H3].
    apply andb_true_iff in Hwf. destruct Hwf as [H1 H2].
    apply Nat.ltb_lt in H1.
    change (chase (o :: rest) flat) with (chase rest (map (getn o) flat)).
    assert (Hb : forall x, In x flat -> x < length o).
    { intros x Hx. pose proof (mono_le_last flat x Hm Hx). lia. }
    destruct (IH (map (getn o) flat) nvals) as (L & M & B).
    + destruct flat; [contradiction | discriminate].
    + apply mono_map_getn; assumption.
    + rewrite (last_map _ _ (getn o) flat 0 0 Hne).
      eapply wf_levels_weaken; [|exact H3].
      apply mono_le_last; [exact H2|]. unfold getn. apply nth_In. exact H1.
    + rewrite map_length in L. auto.
Qed.

Lemma getn_map_getn : forall o flat i,
  i < length flat -> getn (map (getn o) flat) i = getn o (getn flat i).
Proof.
  intros o flat i Hi. unfold getn at 1 3.
  rewrite (nth_indep (map (getn o) flat) 0 (getn o 0))
    by (rewrite map_length; exact Hi).
  apply map_nth.
Qed.

Lemma chase_range : forall rest flat i j,
  i < length flat -> j < length flat ->
  fold_left (fun '(s, e) offs => (getn offs s, getn offs e)) rest
            (getn flat i, getn flat j)
  = (getn (chase rest flat) i, getn (chase rest flat) j).
Proof.
  induction rest as [|o rest IH]; intros flat i j Hi Hj; [reflexivity|].
  change (chase (o :: rest) flat) with (chase rest (map (getn o) flat)).
  cbn [fold_left].
  rewrite <- IH by (rewrite map_length; assumption).
  rewrite !getn_map_getn by assumption. reflexivity.
Qed.

Lemma wf_outer : forall a, wf_listarr a = true ->
  length (buffer_outer_offsets a) = la_len a + 1 /\
  mono (buffer_outer_offsets a) = true /\
  last (buffer_outer_offsets a) 0 <= length (la_vals a) /\
  flat_range a = (getn (buffer_outer_offsets a) 0,
                  getn (buffer_outer_offsets a) (la_len a)).
Proof.
  intros a Hwf. unfold wf_listarr in Hwf.
  apply andb_true_iff in Hwf. destruct Hwf as [Hwf _].
  unfold buffer_outer_offsets, flat_range, buffer_offsets.
  destruct (la_offs a) as [|o0 rest]; [discriminate Hwf|].
  cbn [wf_levels] in Hwf.
  apply andb_true_iff in Hwf. destruct Hwf as [Hwf H3].
  apply andb_true_iff in Hwf. destruct Hwf as [H1 H2].
  apply Nat.ltb_lt in H1.
  set (o0' := slice (la_off a) (la_off a + la_len a + 1) o0).
  fold (chase rest o0').
  assert (HL : length o0' = la_len a + 1).
  { unfold o0', slice. rewrite firstn_length, skipn_length. lia. }
  assert (Hne : o0' <> []).
  { intros E. rewrite E in HL. cbn in HL. lia. }
  assert (Hm : mono o0' = true) by (apply mono_slice, H2).
  assert (Hlast : last o0' 0 <= last o0 0).
  { apply mono_le_last; [exact H2|].
    eapply in_slice. apply last_in. exact Hne. }
  destruct (chase_wf rest o0' (length (la_vals a)) Hne Hm) as (L & M & B).
  { eapply wf_levels_weaken; [exact Hlast | exact H3]. }
  rewrite L, HL. repeat split; auto.
  rewrite chase_range by lia.
  replace (la_len a + 1 - 1) with (la_len a) by lia. reflexivity.
Qed.

(* ================================================================== *)
(** * 7. list arrays: rows                                              *)
(* ================================================================== *)

Lemma la_bounds_seq : forall a,
  la_bounds a =
  map (fun i => total_bounds_interleaved (elem_flat a i))
      (seq 0 (length (buffer_outer_offsets a) - 1)).
Proof.
  intros a. unfold la_bounds.
  rewrite bounds_interleaved_segs, segs_seq, map_map. reflexivity.
Qed.

(* item 3 *)
Lemma la_bounds_rows : forall a, wf_listarr a = true ->
  la_bounds a =
  map (fun i => total_bounds_interleaved (elem_flat a i)) (seq 0 (la_len a)).
Proof.
  intros a Hwf. rewrite la_bounds_seq.
  destruct (wf_outer a Hwf) as (L & _). rewrite L.
  replace (la_len a + 1 - 1) with (la_len a) by lia. reflexivity.
Qed.

(* item 4 *)
Lemma la_bounds_length : forall a, wf_listarr a = true ->
  length (la_bounds a) = la_len a.
Proof.
  intros a Hwf. rewrite la_bounds_rows by exact Hwf.
  rewrite map_length, seq_length. reflexivity.
Qed.

Lemma la_bounds_nth : forall a i, wf_listarr a = true -> i < la_len a ->
  nth i (la_bounds a) nanbox = total_bounds_interleaved (elem_flat a i).
Proof.
  intros a i Hwf Hi. rewrite la_bounds_rows by exact Hwf.
  apply nth_map_seq. exact Hi.
Qed.

Lemma la_bounds_row_tight : forall a i, wf_listarr a = true -> i < la_len a ->
  tight_box (elem_flat a i) (nth i (la_bounds a) nanbox).
Proof.
  intros a i Hwf Hi. rewrite la_bounds_nth by assumption. apply kernel_tight.
Qed.

Lemma nulls_empty_elem : forall a i, nulls_empty a = true -> i < la_len a ->
  isna_at (la_valid a) (la_off a) i = true -> elem_flat a i = [].
Proof.
  intros a i Hn Hi Hna. unfold nulls_empty in Hn.
  rewrite forallb_forall in Hn.
  specialize (Hn i). rewrite in_seq in Hn.
  specialize (Hn ltac:(lia)). rewrite Hna in Hn. cbn [negb orb] in Hn.
  apply Nat.eqb_eq in Hn. unfold elem_flat. rewrite Hn. apply slice_same.
Qed.

(* item 5 *)
Lemma la_missing_row_nan : forall a i,
  wf_listarr a = true -> nulls_empty a = true -> i < la_len a ->
  isna_at (la_valid a) (la_off a) i = true ->
  nth i (la_bounds a) nanbox = nanbox.
Proof.
  intros a i Hwf Hn Hi Hna. rewrite la_bounds_nth by assumption.
  rewrite (nulls_empty_elem a i Hn Hi Hna). reflexivity.
Qed.

(* ================================================================== *)
(** * 8. list arrays: total                                             *)
(* ================================================================== *)

Lemma la_valid_coords_elems : forall a, nulls_empty a = true ->
  la_valid_coords a = concat (map (elem_flat a) (seq 0 (la_len a))).
Proof.
  intros a Hn. unfold la_valid_coords, decode_flat. rewrite map_map.
  f_equal. apply map_ext_in. intros i Hi. apply in_seq in Hi.
  destruct (isna_at (la_valid a) (la_off a) i) eqn:E; [|reflexivity].
  symmetry. apply nulls_empty_elem; [exact Hn | lia | exact E].
Qed.

Lemma flat_values_elems : forall a, wf_listarr a = true ->
  flat_values a = concat (map (elem_flat a) (seq 0 (la_len a))).
Proof.
  intros a Hwf. destruct (wf_outer a Hwf) as (L & M & _ & R).
  unfold flat_values. rewrite R.
  change (map (elem_flat a) (seq 0 (la_len a)))
    with (map (fun i => slice (getn (buffer_outer_offsets a) i)
                              (getn (buffer_outer_offsets a) (S i))
                              (buffer_values a)) (seq 0 (la_len a))).
  replace (la_len a) with (length (buffer_outer_offsets a) - 1) by lia.
  rewrite <- segs_seq, concat_segs by exact M.
  rewrite last_nth_pred. unfold getn.
  destruct (buffer_outer_offsets a); reflexivity.
Qed.

Lemma flat_values_valid_coords : forall a,
  wf_listarr a = true -> nulls_empty a = true ->
  flat_values a = la_valid_coords a.
Proof.
  intros a Hwf Hn.
  rewrite flat_values_elems, la_valid_coords_elems by assumption. reflexivity.
Qed.

(* item 6, at full strength: evenness of the offsets is not needed *)
Lemma la_total_tight : forall a,
  wf_listarr a = true -> nulls_empty a = true ->
  tight_box (la_valid_coords a) (la_total_bounds a).
Proof.
  intros a Hwf Hn. unfold la_total_bounds.
  rewrite flat_values_valid_coords by assumption. apply kernel_tight.
Qed.

(* item 6 as requested *)
Lemma la_total_tight_even : forall a,
  wf_listarr a = true -> nulls_empty a = true -> even_outer a = true ->
  tight_box (la_valid_coords a) (la_total_bounds a).
Proof. intros a Hwf Hn _. apply la_total_tight; assumption. Qed.

(* ================================================================== *)
(** * 9. list arrays: every row lies inside the total                   *)
(* ================================================================== *)

Lemma elem_flat_even : forall a i,
  wf_listarr a = true -> even_outer a = true -> i < la_len a ->
  Nat.even (length (elem_flat a i)) = true.
Proof.
  intros a i Hwf He Hi. destruct (wf_outer a Hwf) as (L & M & B & _).
  unfold even_outer in He. rewrite forallb_forall in He.
  unfold elem_flat, buffer_values.
  set (oo := buffer_outer_offsets a) in *.
  assert (H1 : getn oo i <= getn oo (S i))
    by (unfold getn; apply mono_nth; [exact M | lia | lia]).
  assert (H2 : getn oo (S i) <= length (la_vals a)).
  { pose proof (mono_le_last oo (getn oo (S i)) M) as H.
    specialize (H ltac:(unfold getn; apply nth_In; lia)). lia. }
  rewrite slice_length by exact H2.
  rewrite Nat.even_sub by exact H1.
  rewrite !He by (unfold getn; apply nth_In; lia). reflexivity.
Qed.

Definition box_inside (r t : bbox) : Prop :=
  let '(x0, y0, x1, y1) := r in
  let '(X0, Y0, X1, Y1) := t in
  (forall v, x0 = Some v -> exists t, X0 = Some t /\ (t <= v)%Z) /\
  (forall v, x1 = Some v -> exists t, X1 = Some t /\ (v <= t)%Z) /\
  (forall v, y0 = Some v -> exists t, Y0 = Some t /\ (t <= v)%Z) /\
  (forall v, y1 = Some v -> exists t, Y1 = Some t /\ (v <= t)%Z).

Lemma tight_inside : forall l m r t,
  incl (pairs l) (pairs m) -> tight_box l r -> tight_box m t -> box_inside r t.
Proof.
  intros l m [[[x0 y0] x1] y1] [[[X0 Y0] X1] Y1] Hi [Hx Hy] [HX HY].
  destruct (extent_incl _ _ _ _ _ _ (finite_map_incl fst _ _ Hi) Hx HX) as [A B].
  destruct (extent_incl _ _ _ _ _ _ (finite_map_incl snd _ _ Hi) Hy HY) as [C D].
  cbn. auto.
Qed.

Lemma la_row_inside : forall a i,
  wf_listarr a = true -> even_outer a = true -> i < la_len a ->
  box_inside (nth i (la_bounds a) nanbox) (la_total_bounds a).
Proof.
  intros a i Hwf He Hi.
  rewrite la_bounds_nth by assumption. unfold la_total_bounds.
  rewrite flat_values_elems by exact Hwf.
  eapply tight_inside; [| apply kernel_tight | apply kernel_tight].
  apply pairs_incl_concat.
  - apply Forall_forall. intros l Hl. apply in_map_iff in Hl.
    destruct Hl as (j & <- & Hj). apply in_seq in Hj.
    apply elem_flat_even; [assumption | assumption | lia].
  - apply in_map. apply in_seq. lia.
Qed.

(* item 9, as requested (nulls_empty and the non-missing premise are not used:
   a missing row is compared through whatever its offsets delimit) *)
Lemma la_rows_in_total : forall a i x0 y0 x1 y1,
  wf_listarr a = true -> nulls_empty a = true -> even_outer a = true ->
  i < la_len a -> isna_at (la_valid a) (la_off a) i = false ->
  nth i (la_bounds a) nanbox = (x0, y0, x1, y1) ->
  let '(X0, Y0, X1, Y1) := la_total_bounds a in
  (forall v, x0 = Some v -> exists t, X0 = Some t /\ (t <= v)%Z) /\
  (forall v, x1 = Some v -> exists t, X1 = Some t /\ (v <= t)%Z) /\
  (forall v, y0 = Some v -> exists t, Y0 = Some t /\ (t <= v)%Z) /\
  (forall v, y1 = Some v -> exists t, Y1 = Some t /\ (v <= t)%Z).
Proof.
  intros a i x0 y0 x1 y1 Hwf _ He Hi _ Hrow.
  pose proof (la_row_inside a i Hwf He Hi) as H. rewrite Hrow in H. exact H.
Qed.

(* ================================================================== *)
(** * 10. fixed (point) arrays                                          *)
(* ================================================================== *)

Lemma arange2_length : forall n s, length (arange2 n s) = S n.
Proof.
  induction n as [|n IH]; intros s; [reflexivity|].
  cbn [arange2 length]. rewrite IH. reflexivity.
Qed.

Lemma arange2_getn : forall n s i, i <= n -> getn (arange2 n s) i = s + 2 * i.
Proof.
  induction n as [|n IH]; intros s i Hi.
  - replace i with 0 by lia. cbn. lia.
  - destruct i as [|i]; [cbn; lia|].
    cbn [arange2]. unfold getn in *. cbn [nth]. rewrite IH by lia. lia.
Qed.

Lemma wf_fixarr_vals : forall a, wf_fixarr a = true ->
  2 * (fa_off a + fa_len a) <= length (fa_vals a).
Proof.
  intros a H. unfold wf_fixarr in H. apply andb_true_iff in H.
  destruct H as [H _]. apply Nat.leb_le in H. exact H.
Qed.

Lemma fa_flat_length : forall a, wf_fixarr a = true ->
  length (fa_flat_values a) = 2 * fa_len a.
Proof.
  intros a Hwf. pose proof (wf_fixarr_vals a Hwf) as Hv.
  unfold fa_flat_values. destruct (Nat.eqb_spec (fa_len a) 0) as [E|E].
  - rewrite E. reflexivity.
  - rewrite slice_length by lia. lia.
Qed.

(* slot i of the flat values is the decoded point *)
Lemma fa_flat_slot : forall a i, wf_fixarr a = true -> i < fa_len a ->
  slice (2 * i) (2 * i + 2) (fa_flat_values a) =
  [nth (2 * (fa_off a + i)) (fa_vals a) None;
   nth (2 * (fa_off a + i) + 1) (fa_vals a) None].
Proof.
  intros a i Hwf Hi. pose proof (wf_fixarr_vals a Hwf) as Hv.
  rewrite (slice_pair num _ _ None) by (rewrite fa_flat_length by exact Hwf; lia).
  unfold fa_flat_values. destruct (Nat.eqb_spec (fa_len a) 0) as [E|E]; [lia|].
  rewrite !nth_slice by lia.
  f_equal; [|f_equal]; f_equal; lia.
Qed.

Lemma fa_rows_aux : forall a, wf_fixarr a = true ->
  map (fun '(na, b) => if (na : bool) then nanbox else b)
      (combine (fa_isna a)
               (bounds_interleaved (fa_flat_values a) (arange2 (fa_len a) 0)))
  = map (fun p => total_bounds_interleaved (point_coords p)) (fa_decode a).
Proof.
  intros a Hwf.
  rewrite bounds_interleaved_segs, segs_seq, arange2_length.
  replace (S (fa_len a) - 1) with (fa_len a) by lia.
  unfold fa_isna, fa_decode.
  rewrite (map_map _ total_bounds_interleaved), combine_map_both, !map_map.
  apply map_ext_in. intros i Hi. apply in_seq in Hi.
  destruct (isna_at (fa_valid a) (fa_off a) i); [reflexivity|].
  rewrite !arange2_getn by lia.
  replace (0 + 2 * S i) with (2 * i + 2) by lia. cbn [Nat.add].
  rewrite fa_flat_slot by (assumption || lia). reflexivity.
Qed.

(* item 8 *)
Lemma fa_bounds_rows : forall a, wf_fixarr a = true ->
  fa_bounds a = map (fun p => total_bounds_interleaved (point_coords p)) (fa_decode a).
Proof.
  intros a Hwf. unfold fa_bounds.
  pose proof (fa_rows_aux a Hwf) as H.
  pose proof (fa_flat_length a Hwf) as HL.
  destruct (fa_flat_values a) as [|v flat].
  - cbn [length] in HL. unfold fa_decode.
    replace (fa_len a) with 0 by lia. reflexivity.
  - exact H.
Qed.

Lemma fa_valid_flat_coords : forall a, wf_fixarr a = true ->
  fa_valid_flat_values a = fa_valid_coords a.
Proof.
  intros a Hwf. unfold fa_valid_flat_values, fa_valid_coords, fa_isna, fa_decode.
  rewrite combine_map_left, !map_map. f_equal.
  apply map_ext_in. intros i Hi. apply in_seq in Hi.
  destruct (isna_at (fa_valid a) (fa_off a) i); [reflexivity|].
  rewrite fa_flat_slot by (assumption || lia). reflexivity.
Qed.

Lemma fa_total_tight : forall a, wf_fixarr a = true ->
  tight_box (fa_valid_coords a) (fa_total_bounds a).
Proof.
  intros a Hwf. unfold fa_total_bounds.
  rewrite fa_valid_flat_coords by exact Hwf. apply kernel_tight.
Qed.

(* ================================================================== *)
(** * 11. why [even_outer] is needed for containment                    *)
(* ================================================================== *)

(* One nesting level, offsets [0;1;3] over three values: element 1 is read as
   the pair (100, 0) but the flat values pair up as (5, 100), so the row's
   xmax (100) exceeds the total xmax (5).  The array is well-formed and has no
   missing element. *)
Definition odd_offsets_witness : listarr :=
  {| la_off := 0; la_len := 2; la_valid := None;
     la_offs := [[0; 1; 3]];
     la_vals := [Some 5%Z; Some 100%Z; Some 0%Z] |}.

Lemma la_rows_in_total_needs_even :
  exists a i v t,
    wf_listarr a = true /\ nulls_empty a = true /\ even_outer a = false /\
    i < la_len a /\ isna_at (la_valid a) (la_off a) i = false /\
    snd (fst (nth i (la_bounds a) nanbox)) = Some v /\
    snd (fst (la_total_bounds a)) = Some t /\ (t < v)%Z.
Proof.
  exists odd_offsets_witness, 1, 100%Z, 5%Z.
  repeat split; vm_compute; reflexivity.
Qed.
