(* C06: the two contracts on the partition-level spatial index are theorems of C03. *)
From Coq Require Import ZArith List Bool Arith Lia Permutation.
From SP Require Import Model.Num Model.Rtree Model.DaskModel Spec.Boxes Spec.DaskSpec
                       Proofs.RtreeProofs.
Import ListNotations.

Lemma forallb_negb_existsb : forall {A} (f : A -> bool) l,
  forallb (fun x => negb (f x)) l = negb (existsb f l).
Proof.
  intros A f. induction l as [|a t IH]; [reflexivity|].
  cbn. rewrite IH, negb_orb. reflexivity.
Qed.

Lemma wf_row4_wf_box : forall r, wf_row4 r -> wf_box 2 r.
Proof.
  intros r [Hl Hf]. split; [exact Hl|].
  intros Hfin k Hk. unfold row_finite in Hfin.
  rewrite forallb_negb_existsb in Hfin. apply negb_true_iff in Hfin.
  destruct (Hf Hfin) as [H0 H1].
  destruct k as [|[|k]]; [exact H0 | exact H1 | lia].
Qed.

Lemma wf_rows_boxes : forall rows, Forall wf_row4 rows -> Forall (wf_box 2) rows.
Proof. intros rows H. eapply Forall_impl; [|exact H]. apply wf_row4_wf_box. Qed.

Theorem rtree_select_holds : rtree_select_contract.
Proof.
  intros rows keys ps q i Hwf Hperm Hq.
  pose proof (wf_rows_boxes rows Hwf) as Hb.
  assert (Hd : 1 <= 2) by lia.
  assert (Hq' : length q = 2 * 2) by exact Hq.
  pose proof (C03_split 2 rows keys ps q Hd Hb Hperm Hq') as P.
  pose proof (C03_intersects_In 2 rows keys ps q i Hd Hb Hperm Hq') as II.
  rewrite <- in_app_iff.
  split.
  - intros H. apply (Permutation_in _ P), II in H. destruct H as [Hi Ho]. split; [exact Hi|].
    rewrite overlapsb_row_outside in Ho; [apply negb_true_iff, Ho | exact Hd |].
    rewrite Forall_forall in Hwf. apply (Hwf (nth i rows [])), nth_In, Hi.
  - intros [Hi Ho]. apply (Permutation_in _ (Permutation_sym P)), II. split; [exact Hi|].
    rewrite overlapsb_row_outside; [rewrite Ho; reflexivity | exact Hd |].
    rewrite Forall_forall in Hwf. apply (Hwf (nth i rows [])), nth_In, Hi.
Qed.

Theorem rtree_total_holds : rtree_total_contract.
Proof.
  intros rows keys ps Hwf Hperm.
  apply C03_total_bounds_box; [lia | | exact Hperm].
  eapply Forall_impl; [|exact Hwf]. intros r [Hl _]. exact Hl.
Qed.

(* ---- the C06 theorems with the index contracts discharged ---- *)
From SP Require Import Model.Bounds Proofs.DaskCxProofs.

Lemma cx_concat_closed :
  forall (R : Type) (rbox : R -> bbox) (hits : R -> list Z -> bool),
    hits_contract rbox hits ->
    forall (parts : list (list R)) (keys : list nat),
      (forall r, In r (concat parts) -> wf_bbox (rbox r)) ->
      Permutation keys (seq 0 (length parts)) ->
      forall k,
        concat (dask_cx R rbox hits parts keys k) =
        pandas_frame_cx R rbox hits (concat parts) k.
Proof.
  intros R rbox hits Hh parts keys Hw Hk k.
  exact (cx_concat R rbox hits rtree_select_holds rtree_total_holds Hh parts keys Hw Hk k).
Qed.

Lemma cx_partitions_superset_closed :
  forall (R : Type) (rbox : R -> bbox) (hits : R -> list Z -> bool),
    hits_contract rbox hits ->
    forall (parts : list (list R)) (keys : list nat),
      (forall r, In r (concat parts) -> wf_bbox (rbox r)) ->
      Permutation keys (seq 0 (length parts)) ->
      forall k q r,
        finite_query (get_bounds (box_row (pandas_total_bounds R rbox (concat parts))) k) = Some q ->
        In r (concat parts) -> hits r q = true ->
        In r (concat (dask_cx_partitions R rbox parts keys k)).
Proof.
  intros R rbox hits Hh parts keys Hw Hk k q r.
  exact (cx_partitions_superset R rbox hits rtree_select_holds rtree_total_holds Hh
                                parts keys Hw Hk k q r).
Qed.

Lemma cx_partitions_whole_closed :
  forall (R : Type) (rbox : R -> bbox) (parts : list (list R)) (keys : list nat),
    (forall r, In r (concat parts) -> wf_bbox (rbox r)) ->
    Permutation keys (seq 0 (length parts)) ->
    forall k,
      dask_cx_partitions R rbox parts keys k = [[]] \/
      exists inds, sasc inds /\ (forall i, In i inds -> i < length parts) /\
                   dask_cx_partitions R rbox parts keys k = map (fun i => nth i parts []) inds.
Proof.
  intros R rbox parts keys Hw Hk k.
  exact (cx_partitions_whole R rbox rtree_select_holds parts keys Hw Hk k).
Qed.
