(* C01 for lines, rings and multilines: for a box of positive width and height
   the test is true exactly when the polyline and the closed box share a point. *)
From Coq Require Import ZArith Reals Lra Lia Psatz Bool ZifyBool List Arith.
From SP Require Import Model.Num Model.Arrow Model.Bounds Model.PointKernels Model.Intersect
                       Spec.Plane Spec.IntersectSpec
                       Proofs.IntersectBase Proofs.IntersectPoints Proofs.IntersectSegR
                       Proofs.IntersectSeg Proofs.IntersectBounds Proofs.IntersectPlane.
Import ListNotations.

(* ---------------------------------------------------------------- small facts *)
Lemma pt_eq_dec : forall a b : pt, {a = b} + {a <> b}.
Proof. decide equality; apply Z.eq_dec. Qed.

Lemma in_rect_zbox : forall x0 y0 x1 y1 v,
  in_rect x0 y0 x1 y1 v = true <-> in_zbox x0 y0 x1 y1 (zp v).
Proof.
  intros x0 y0 x1 y1 [x y]. rewrite in_rect_spec. unfold in_zbox, in_box, zp. simpl.
  split.
  - intros [[H1 H2] [H3 H4]]. repeat split; apply IZR_le; assumption.
  - intros [[H1 H2] [H3 H4]]. repeat split; apply le_IZR; assumption.
Qed.

Lemma edges_in : forall vs a b, In (a, b) (edges vs) -> In a vs /\ In b vs.
Proof.
  induction vs as [|v [|w t] IH]; intros a b H; simpl in H; try contradiction.
  destruct H as [E|H].
  - inversion E; subst. simpl. tauto.
  - apply IH in H. simpl in *. tauto.
Qed.

Lemma line_set_vertex : forall vs v, In v vs -> line_set vs (zp v).
Proof. intros. left. exists v. tauto. Qed.

Lemma line_set_edge : forall vs a b P, In (a, b) (edges vs) -> on_seg (zp a) (zp b) P ->
  line_set vs P.
Proof. intros. right. exists (a, b). tauto. Qed.

Lemma line_set_in_bounds : forall vs a b c d P,
  (forall q, In q vs -> (a <= fst q <= c /\ b <= snd q <= d)%Z) -> line_set vs P ->
  (IZR a <= fst P <= IZR c /\ IZR b <= snd P <= IZR d)%R.
Proof.
  intros vs a b c d P Hall [(v & Hv & E)|([u w] & He & Hs)].
  - subst P. destruct (Hall v Hv) as [[H1 H2] [H3 H4]]. unfold zp. simpl.
    repeat split; apply IZR_le; assumption.
  - apply edges_in in He. destruct He as [Hu Hw]. simpl in Hs.
    destruct (Hall u Hu) as [[U1 U2] [U3 U4]]. destruct (Hall w Hw) as [[W1 W2] [W3 W4]].
    apply (on_seg_bounds _ _ _ (IZR a) (IZR c) (IZR b) (IZR d)) in Hs;
      unfold zp; simpl; try (split; apply IZR_le; assumption). exact Hs.
Qed.

Lemma on_seg_bounds_x : forall A B P lx ux, on_seg A B P ->
  (lx <= fst A <= ux -> lx <= fst B <= ux -> lx <= fst P <= ux)%R.
Proof. intros A B P lx ux (t & Ht & Ex & _) HA HB. rewrite Ex. split; nra. Qed.

Lemma on_seg_bounds_y : forall A B P ly uy, on_seg A B P ->
  (ly <= snd A <= uy -> ly <= snd B <= uy -> ly <= snd P <= uy)%R.
Proof. intros A B P ly uy (t & Ht & _ & Ey) HA HB. rewrite Ey. split; nra. Qed.

(* ---------------------------------------------------------------- discrete intermediate value *)
Lemma adjacent_switch (P Q : pt -> Prop) : forall l,
  (forall a, In a l -> P a \/ Q a) -> (forall a, P a -> Q a -> False) ->
  (exists a, In a l /\ P a) -> (exists b, In b l /\ Q b) ->
  exists e, In e (edges l) /\ ((P (fst e) /\ Q (snd e)) \/ (Q (fst e) /\ P (snd e))).
Proof.
  induction l as [|a [|b t] IH]; intros Hall Hex (p & Hp & Pp) (q & Hq & Qq).
  - destruct Hp.
  - destruct Hp as [<-|[]]. destruct Hq as [<-|[]]. exfalso. eauto.
  - assert (Hall' : forall c, In c (b :: t) -> P c \/ Q c) by (intros c Hc; apply Hall; now right).
    destruct (Hall a (or_introl eq_refl)) as [Pa|Qa], (Hall b (or_intror (or_introl eq_refl))) as [Pb|Qb].
    + (* P a, P b: the Q element is further on *)
      assert (Hq' : In q (b :: t)).
      { destruct Hq as [<-|Hq]; [exfalso; eauto | exact Hq]. }
      destruct (IH Hall' Hex (ex_intro _ b (conj (or_introl eq_refl) Pb))
                   (ex_intro _ q (conj Hq' Qq))) as (e & He & Hs).
      exists e. split; [now right | exact Hs].
    + exists (a, b). split; [now left | left; simpl; tauto].
    + exists (a, b). split; [now left | right; simpl; tauto].
    + assert (Hp' : In p (b :: t)).
      { destruct Hp as [<-|Hp]; [exfalso; eauto | exact Hp]. }
      destruct (IH Hall' Hex (ex_intro _ p (conj Hp' Pp))
                   (ex_intro _ b (conj (or_introl eq_refl) Qb))) as (e & He & Hs).
      exists e. split; [now right | exact Hs].
Qed.

(* ---------------------------------------------------------------- projection shortcut *)
Open Scope Z_scope.

(* the x-range of the polyline lies in [x0,x1] and its y-range meets [y0,y1]:
   some point of the polyline is in the box *)
Lemma polyline_straddle_x : forall vs x0 y0 x1 y1, y0 <= y1 ->
  (forall v, In v vs -> x0 <= fst v <= x1) ->
  (exists v, In v vs /\ snd v <= y1) -> (exists v, In v vs /\ y0 <= snd v) ->
  exists P, in_zbox x0 y0 x1 y1 P /\ line_set vs P.
Proof.
  intros vs x0 y0 x1 y1 Ly Hx (lo & Hlo & Llo) (hi & Hhi & Lhi).
  destruct (existsb (in_rect x0 y0 x1 y1) vs) eqn:E.
  - apply existsb_exists in E. destruct E as (v & Hv & Hr).
    exists (zp v). split; [now apply in_rect_zbox | now apply line_set_vertex].
  - assert (Hout : forall v, In v vs -> snd v < y0 \/ y1 < snd v).
    { intros v Hv. destruct (in_rect x0 y0 x1 y1 v) eqn:R.
      - exfalso. rewrite <- not_true_iff_false in E. apply E. apply existsb_exists. eauto.
      - rewrite <- not_true_iff_false, in_rect_spec in R. specialize (Hx v Hv). lia. }
    destruct (adjacent_switch (fun v => snd v < y0) (fun v => y1 < snd v) vs Hout)
      as ([A B] & He & Hs).
    + intros a H1 H2. lia.
    + exists lo. split; [assumption|]. destruct (Hout lo Hlo); lia.
    + exists hi. split; [assumption|]. destruct (Hout hi Hhi); lia.
    + simpl in Hs. pose proof (edges_in _ _ _ He) as [HA HB].
      destruct (cross_at_y (zp A) (zp B) (IZR y0)) as (Q & HQ & EQ).
      { unfold zp. simpl. destruct Hs as [[H1 H2]|[H1 H2]]; [left|right];
          split; apply IZR_le; lia. }
      exists Q. split; [|eapply line_set_edge; eassumption].
      pose proof (Hx A HA) as [XA1 XA2]. pose proof (Hx B HB) as [XB1 XB2].
      apply (on_seg_bounds_x _ _ _ (IZR x0) (IZR x1)) in HQ;
        [| unfold zp; simpl; split; apply IZR_le; assumption
         | unfold zp; simpl; split; apply IZR_le; assumption].
      unfold in_zbox, in_box. rewrite EQ. split; [assumption|].
      split; [lra | apply IZR_le; lia].
Qed.

(* same with the roles of x and y exchanged *)
Lemma polyline_straddle_y : forall vs x0 y0 x1 y1, x0 <= x1 ->
  (forall v, In v vs -> y0 <= snd v <= y1) ->
  (exists v, In v vs /\ fst v <= x1) -> (exists v, In v vs /\ x0 <= fst v) ->
  exists P, in_zbox x0 y0 x1 y1 P /\ line_set vs P.
Proof.
  intros vs x0 y0 x1 y1 Lx Hy (lo & Hlo & Llo) (hi & Hhi & Lhi).
  destruct (existsb (in_rect x0 y0 x1 y1) vs) eqn:E.
  - apply existsb_exists in E. destruct E as (v & Hv & Hr).
    exists (zp v). split; [now apply in_rect_zbox | now apply line_set_vertex].
  - assert (Hout : forall v, In v vs -> fst v < x0 \/ x1 < fst v).
    { intros v Hv. destruct (in_rect x0 y0 x1 y1 v) eqn:R.
      - exfalso. rewrite <- not_true_iff_false in E. apply E. apply existsb_exists. eauto.
      - rewrite <- not_true_iff_false, in_rect_spec in R. specialize (Hy v Hv). lia. }
    destruct (adjacent_switch (fun v => fst v < x0) (fun v => x1 < fst v) vs Hout)
      as ([A B] & He & Hs).
    + intros a H1 H2. lia.
    + exists lo. split; [assumption|]. destruct (Hout lo Hlo); lia.
    + exists hi. split; [assumption|]. destruct (Hout hi Hhi); lia.
    + simpl in Hs. pose proof (edges_in _ _ _ He) as [HA HB].
      destruct (cross_at_x (zp A) (zp B) (IZR x0)) as (Q & HQ & EQ).
      { unfold zp. simpl. destruct Hs as [[H1 H2]|[H1 H2]]; [left|right];
          split; apply IZR_le; lia. }
      exists Q. split; [|eapply line_set_edge; eassumption].
      pose proof (Hy A HA) as [YA1 YA2]. pose proof (Hy B HB) as [YB1 YB2].
      apply (on_seg_bounds_y _ _ _ (IZR y0) (IZR y1)) in HQ;
        [| unfold zp; simpl; split; apply IZR_le; assumption
         | unfold zp; simpl; split; apply IZR_le; assumption].
      unfold in_zbox, in_box. rewrite EQ. split; [|assumption].
      split; [lra | apply IZR_le; lia].
Qed.

(* ---------------------------------------------------------------- one edge against the box *)
(* a reported intersection of the segment AB (possibly A = B) with a
   non-degenerate segment CD yields a common point *)
Lemma si_true_point : forall A B C D : pt, C <> D ->
  segments_intersect (fst A) (snd A) (fst B) (snd B) (fst C) (snd C) (fst D) (snd D) = true ->
  exists P, on_seg (zp A) (zp B) P /\ on_seg (zp C) (zp D) P.
Proof.
  intros A B C D NCD H.
  destruct (pt_eq_dec A B) as [E|N].
  - subst B. destruct (segments_intersect_zero A C D) as [Hz _].
    destruct (Hz NCD) as [Hz1 _]. apply Hz1 in H.
    exists (zp A). split; [apply on_seg_start|].
    destruct H as [->| ->]; [apply on_seg_start | apply on_seg_end].
  - apply segments_intersect_correct in H; assumption.
Qed.

Lemma edge_hits_rect_sound : forall x0 y0 x1 y1 A B, x0 < x1 -> y0 < y1 ->
  edge_hits_rect x0 y0 x1 y1 (A, B) = true ->
  exists P, on_seg (zp A) (zp B) P /\ in_zbox x0 y0 x1 y1 P.
Proof.
  intros x0 y0 x1 y1 [ax ay_] [bx by_] Lx Ly H. unfold edge_hits_rect in H.
  assert (Lx' : (IZR x0 <= IZR x1)%R) by (apply IZR_le; lia).
  assert (Ly' : (IZR y0 <= IZR y1)%R) by (apply IZR_le; lia).
  rewrite !orb_true_iff in H. destruct H as [[[H|H]|H]|H].
  - destruct (si_true_point (ax, ay_) (bx, by_) (x0, y1) (x1, y1)) as (P & H1 & H2);
      [intro E; inversion E; lia | exact H |].
    exists P. split; [exact H1|]. apply on_box_edges_in_box; try assumption. left. exact H2.
  - destruct (si_true_point (ax, ay_) (bx, by_) (x0, y0) (x1, y0)) as (P & H1 & H2);
      [intro E; inversion E; lia | exact H |].
    exists P. split; [exact H1|]. apply on_box_edges_in_box; try assumption. right; left. exact H2.
  - destruct (si_true_point (ax, ay_) (bx, by_) (x0, y0) (x0, y1)) as (P & H1 & H2);
      [intro E; inversion E; lia | exact H |].
    exists P. split; [exact H1|]. apply on_box_edges_in_box; try assumption. right; right; left. exact H2.
  - destruct (si_true_point (ax, ay_) (bx, by_) (x1, y0) (x1, y1)) as (P & H1 & H2);
      [intro E; inversion E; lia | exact H |].
    exists P. split; [exact H1|]. apply on_box_edges_in_box; try assumption. right; right; right. exact H2.
Qed.

Lemma edge_hits_rect_complete : forall x0 y0 x1 y1 A B Q, x0 < x1 -> y0 < y1 -> A <> B ->
  on_seg (zp A) (zp B) Q -> on_box_edges (IZR x0) (IZR y0) (IZR x1) (IZR y1) Q ->
  edge_hits_rect x0 y0 x1 y1 (A, B) = true.
Proof.
  intros x0 y0 x1 y1 [ax ay_] [bx by_] Q Lx Ly N HQ HE. unfold edge_hits_rect.
  rewrite !orb_true_iff. destruct HE as [H|[H|[H|H]]].
  - left; left; left.
    apply (segments_intersect_correct (ax, ay_) (bx, by_) (x0, y1) (x1, y1));
      [assumption | intro E; inversion E; lia | exists Q; split; assumption].
  - left; left; right.
    apply (segments_intersect_correct (ax, ay_) (bx, by_) (x0, y0) (x1, y0));
      [assumption | intro E; inversion E; lia | exists Q; split; assumption].
  - left; right.
    apply (segments_intersect_correct (ax, ay_) (bx, by_) (x0, y0) (x0, y1));
      [assumption | intro E; inversion E; lia | exists Q; split; assumption].
  - right.
    apply (segments_intersect_correct (ax, ay_) (bx, by_) (x1, y0) (x1, y1));
      [assumption | intro E; inversion E; lia | exists Q; split; assumption].
Qed.

(* ---------------------------------------------------------------- the line kernel *)
Theorem perform_line_correct : forall x0 y0 x1 y1 vals start stop, x0 < x1 -> y0 < y1 ->
  (perform_line x0 y0 x1 y1 vals start stop = true <->
   exists P, in_zbox x0 y0 x1 y1 P /\ line_set (zpairs (slice start stop vals)) P).
Proof.
  intros x0 y0 x1 y1 vals start stop Lx Ly. unfold perform_line.
  set (seg := slice start stop vals).
  destruct (zpairs seg) as [|p ps] eqn:Evs.
  - rewrite (zbounds_nil seg Evs). simpl. split; [discriminate|].
    intros (P & _ & [(v & [] & _)|(e & [] & _)]).
  - destruct (zbounds_cons seg p ps Evs) as (a & b & c & d & Eb & Hall & Ha & Hb & Hc & Hd).
    rewrite Eb. set (vs := p :: ps) in *.
    unfold bounds_nan, bounds_reject, bounds_shortcut, n_gt, n_lt, n_ge, n_le.
    destruct ((x1 <? a) || (y1 <? b) || (c <? x0) || (d <? y0)) eqn:Rej.
    { (* rejected: no common point *)
      split; [discriminate|]. intros (P & [[Bx0 Bx1] [By0 By1]] & HL).
      apply (line_set_in_bounds vs a b c d P Hall) in HL. destruct HL as [[X1 X2] [Y1 Y2]].
      exfalso. rewrite !orb_true_iff in Rej.
      destruct Rej as [[[R|R]|R]|R]; apply Z.ltb_lt in R; apply IZR_lt in R; lra. }
    rewrite !orb_false_iff in Rej. destruct Rej as [[[R1 R2] R3] R4].
    apply Z.ltb_ge in R1, R2, R3, R4.
    destruct ((x0 <=? a) && (c <=? x1) || (y0 <=? b) && (d <=? y1)) eqn:Sh.
    { (* projection shortcut *)
      split; [intros _|reflexivity].
      rewrite orb_true_iff, !andb_true_iff, !Z.leb_le in Sh. destruct Sh as [[S1 S2]|[S1 S2]].
      - apply polyline_straddle_x; [lia| | |].
        + intros v Hv. specialize (Hall v Hv). lia.
        + destruct Hb as (q & Hq & E). exists q. split; [assumption | lia].
        + destruct Hd as (q & Hq & E). exists q. split; [assumption | lia].
      - apply polyline_straddle_y; [lia| | |].
        + intros v Hv. specialize (Hall v Hv). lia.
        + destruct Ha as (q & Hq & E). exists q. split; [assumption | lia].
        + destruct Hc as (q & Hq & E). exists q. split; [assumption | lia]. }
    destruct (existsb (in_rect x0 y0 x1 y1) vs) eqn:Vin.
    { split; [intros _|reflexivity].
      apply existsb_exists in Vin. destruct Vin as (v & Hv & Hr).
      exists (zp v). split; [now apply in_rect_zbox | now apply line_set_vertex]. }
    split.
    + intro H. apply existsb_exists in H. destruct H as ([A B] & He & Hh).
      destruct (edge_hits_rect_sound x0 y0 x1 y1 A B Lx Ly Hh) as (P & HP & HB).
      exists P. split; [assumption|]. eapply line_set_edge; eassumption.
    + intros (P & HB & HL).
      assert (Vout : forall v, In v vs -> ~ in_zbox x0 y0 x1 y1 (zp v)).
      { intros v Hv Hin. apply in_rect_zbox in Hin.
        rewrite <- not_true_iff_false in Vin. apply Vin. apply existsb_exists. eauto. }
      destruct HL as [(v & Hv & E)|([A B] & He & Hs)].
      * subst P. exfalso. eapply Vout; eassumption.
      * simpl in Hs. pose proof (edges_in _ _ _ He) as [HA _].
        assert (NAB : A <> B).
        { intro E. subst B. destruct Hs as (t & _ & Ex & Ey).
          apply (Vout A HA). unfold in_zbox, in_box in *.
          replace (fst (zp A)) with (fst P) by (rewrite Ex; ring).
          replace (snd (zp A)) with (snd P) by (rewrite Ey; ring). exact HB. }
        destruct (box_boundary_crossing (IZR x0) (IZR y0) (IZR x1) (IZR y1) (zp A) P)
          as (Q & HQ & HE); [apply IZR_lt; lia | apply IZR_lt; lia | apply (Vout A HA) | exact HB |].
        apply existsb_exists. exists (A, B). split; [assumption|].
        apply (edge_hits_rect_complete x0 y0 x1 y1 A B Q); try assumption.
        apply (on_seg_sub (zp A) (zp B) (zp A) P); [apply on_seg_start | exact Hs | exact HQ].
Qed.

(* an element without a vertex (empty or missing) intersects nothing, for any box *)
Lemma perform_line_empty : forall x0 y0 x1 y1 vals start stop,
  zpairs (slice start stop vals) = [] -> perform_line x0 y0 x1 y1 vals start stop = false.
Proof.
  intros * E. unfold perform_line. now rewrite (zbounds_nil _ E).
Qed.

(* ---------------------------------------------------------------- LineArray / RingArray *)
Lemma nth_map_const_false {A} : forall (l : list A) i, nth i (map (fun _ => false) l) false = false.
Proof. induction l as [|a l IH]; intros [|i]; simpl; auto. Qed.

Theorem line_array_correct : forall a bx0 by0 bx1 by1 r,
  line_array a (bx0, by0, bx1, by1) None = Some r ->
  exists vals, finite_vals (buffer_values a) = Some vals /\
  length r = la_len a /\
  (bx0 <> bx1 -> by0 <> by1 -> forall i, (i < la_len a)%nat ->
     (nth i r false = true <->
      exists P, in_zbox (Z.min bx0 bx1) (Z.min by0 by1) (Z.max bx0 bx1) (Z.max by0 by1) P /\
                line_set (zpairs (elem_coords a vals i)) P)) /\
  ((bx0 = bx1 \/ by0 = by1) -> forall i, nth i r false = false).
Proof.
  intros a bx0 by0 bx1 by1 r H. unfold line_array in H.
  destruct (wf_listarr a) eqn:W; cbn [negb] in H; [|discriminate].
  destruct (finite_vals (buffer_values a)) as [vals|]; [|discriminate].
  rewrite starts_stops_none in H. inversion H; subst; clear H.
  exists vals. split; [reflexivity|].
  pose proof (length_outer_offsets a W) as L.
  rewrite lines_as_map by (now rewrite length_removelast, length_tl).
  split; [rewrite map_length, combine_length, length_removelast, length_tl; lia|].
  unfold line_kernel. rewrite orient_box_spec.
  destruct ((Z.min bx0 bx1 =? Z.max bx0 bx1) || (Z.min by0 by1 =? Z.max by0 by1)) eqn:Deg.
  - split; [intros; lia|]. intros _ i. apply nth_map_const_false.
  - split; [|intros; lia]. intros Nx Ny i Hi.
    rewrite nth_map_opairs by lia. apply perform_line_correct; lia.
Qed.

Theorem line_array_empty : forall a b r vals i,
  line_array a b None = Some r -> finite_vals (buffer_values a) = Some vals ->
  (i < la_len a)%nat -> zpairs (elem_coords a vals i) = [] -> nth i r false = false.
Proof.
  intros a [[[bx0 by0] bx1] by1] r vals i H F Hi E. unfold line_array in H.
  destruct (wf_listarr a) eqn:W; cbn [negb] in H; [|discriminate].
  rewrite F in H. rewrite starts_stops_none in H. inversion H; subst; clear H.
  pose proof (length_outer_offsets a W) as L.
  rewrite lines_as_map by (now rewrite length_removelast, length_tl).
  unfold line_kernel. rewrite orient_box_spec.
  destruct ((Z.min bx0 bx1 =? Z.max bx0 bx1) || (Z.min by0 by1 =? Z.max by0 by1)).
  - apply nth_map_const_false.
  - rewrite nth_map_opairs by lia. now apply perform_line_empty.
Qed.

(* ---------------------------------------------------------------- multilines *)
Definition lines_of (vals : list Z) (element_offsets : list nat) : list (list pt) :=
  map (fun '(s, e) => zpairs (slice s e vals)) (opairs element_offsets).

Theorem perform_multiline_correct : forall x0 y0 x1 y1 vals offsets1 start0 stop0,
  x0 < x1 -> y0 < y1 ->
  (perform_multiline x0 y0 x1 y1 vals offsets1 start0 stop0 = true <->
   exists P, in_zbox x0 y0 x1 y1 P /\
             lines_set (lines_of vals (slice start0 (stop0 + 1) offsets1)) P).
Proof.
  intros * Lx Ly. unfold perform_multiline, lines_set, lines_of.
  rewrite existsb_exists. split.
  - intros ([s e] & Hin & H). apply perform_line_correct in H; try assumption.
    destruct H as (P & HB & HL). exists P. split; [assumption|].
    exists (zpairs (slice s e vals)). split; [|assumption].
    apply in_map_iff. exists (s, e). tauto.
  - intros (P & HB & vs & Hin & HL). apply in_map_iff in Hin.
    destruct Hin as ([s e] & E & Hin). subst vs.
    exists (s, e). split; [assumption|]. apply perform_line_correct; try assumption. eauto.
Qed.

Lemma perform_multiline_empty : forall x0 y0 x1 y1 vals offsets1 start0 stop0,
  (forall vs, In vs (lines_of vals (slice start0 (stop0 + 1) offsets1)) -> vs = []) ->
  perform_multiline x0 y0 x1 y1 vals offsets1 start0 stop0 = false.
Proof.
  intros * H. unfold perform_multiline. rewrite <- not_true_iff_false, existsb_exists.
  intros ([s e] & Hin & Ht). rewrite perform_line_empty in Ht; [discriminate|].
  apply H. unfold lines_of. apply in_map_iff. exists (s, e). tauto.
Qed.

Theorem multiline_array_correct : forall a bx0 by0 bx1 by1 r,
  multiline_array a (bx0, by0, bx1, by1) None = Some r ->
  exists vals o0 o1, finite_vals (buffer_values a) = Some vals /\
  buffer_offsets a = [o0; o1] /\ length r = la_len a /\
  (bx0 <> bx1 -> by0 <> by1 -> forall i, (i < la_len a)%nat ->
     (nth i r false = true <->
      exists P, in_zbox (Z.min bx0 bx1) (Z.min by0 by1) (Z.max bx0 bx1) (Z.max by0 by1) P /\
                lines_set (lines_of vals (slice (getn o0 i) (getn o0 (S i) + 1) o1)) P)) /\
  ((bx0 = bx1 \/ by0 = by1) -> forall i, nth i r false = false).
Proof.
  intros a bx0 by0 bx1 by1 r H. unfold multiline_array in H.
  destruct (wf_listarr a) eqn:W; cbn [negb] in H; [|discriminate].
  destruct (buffer_offsets a) as [|o0 [|o1 [|o2 rest]]] eqn:EO; try discriminate.
  destruct (finite_vals (buffer_values a)) as [vals|]; [|discriminate].
  rewrite starts_stops_none in H. inversion H; subst; clear H.
  exists vals, o0, o1. split; [reflexivity|]. split; [reflexivity|].
  pose proof (length_first_offsets a o0 [o1] W EO) as L.
  rewrite multilines_as_map by (now rewrite length_removelast, length_tl).
  split; [rewrite map_length, combine_length, length_removelast, length_tl; lia|].
  unfold multiline_kernel. rewrite orient_box_spec.
  destruct ((Z.min bx0 bx1 =? Z.max bx0 bx1) || (Z.min by0 by1 =? Z.max by0 by1)) eqn:Deg.
  - split; [intros; lia|]. intros _ i. apply nth_map_const_false.
  - split; [|intros; lia]. intros Nx Ny i Hi.
    rewrite nth_map_opairs by lia. apply perform_multiline_correct; lia.
Qed.
