(* C06: lemma library, part 3 — sjoin of a Dask frame with a pandas frame. *)
From Coq Require Import ZArith List Bool Arith Lia ZifyBool Permutation.
From SP Require Import Model.Num Model.Bounds Model.Rtree Model.DaskModel
                       Spec.DaskSpec Proofs.DaskProofs.
Import ListNotations.

Lemma Permutation_filter' : forall {A} (f : A -> bool) l l',
  Permutation l l' -> Permutation (filter f l) (filter f l').
Proof.
  intros A f l l' H. induction H as [|x l l' H IH|x y l|l l' l'' H1 IH1 H2 IH2].
  - constructor.
  - cbn. destruct (f x); [constructor|]; exact IH.
  - cbn. destruct (f x), (f y); try apply Permutation_refl. apply perm_swap.
  - eapply Permutation_trans; eassumption.
Qed.

Lemma filter_filter_impl : forall {A} (f g : A -> bool) l,
  (forall x, In x l -> f x = true -> g x = true) ->
  filter f (filter g l) = filter f l.
Proof.
  intros A f g. induction l as [|x t IH]; intros H; [reflexivity|].
  cbn [filter]. destruct (g x) eqn:G.
  - cbn [filter]. rewrite IH; [reflexivity|]. intros y Hy. apply H. right; exact Hy.
  - destruct (f x) eqn:F.
    + rewrite (H x (or_introl eq_refl) F) in G. discriminate G.
    + apply IH. intros y Hy. apply H. right; exact Hy.
Qed.

Lemma Permutation_flat_map_pointwise : forall {A B} (f g : A -> list B) l,
  (forall x, In x l -> Permutation (f x) (g x)) ->
  Permutation (flat_map f l) (flat_map g l).
Proof.
  intros A B f g. induction l as [|x t IH]; intros H; [constructor|].
  cbn [flat_map]. apply Permutation_app.
  - apply H. left; reflexivity.
  - apply IH. intros y Hy. apply H. right; exact Hy.
Qed.

Lemma Permutation_concat_map_pointwise : forall {A B} (f g : A -> list B) l,
  (forall x, In x l -> Permutation (f x) (g x)) ->
  Permutation (concat (map f l)) (concat (map g l)).
Proof.
  intros A B f g l H. rewrite <- !flat_map_concat_map.
  apply Permutation_flat_map_pointwise, H.
Qed.

Section SJ.
  Variable L Rr : Type.
  Variable lbox : L -> bbox.
  Variable rrbox : Rr -> bbox.
  Variable rmissing : Rr -> bool.
  Variable geo_int : L -> Rr -> bool.
  Variable rsel : bbox -> list Rr -> list Rr.
  Hypothesis Hgeo : geo_int_contract lbox rrbox geo_int.
  Hypothesis Hrsel : rsel_contract rrbox rsel.

  Notation pair_ok := (pair_ok L Rr lbox rrbox rmissing geo_int).
  Notation pandas_sjoin := (pandas_sjoin L Rr lbox rrbox rmissing geo_int).
  Notation dask_sjoin := (dask_sjoin L Rr lbox rrbox rmissing geo_int rsel).
  Notation dask_sjoin_parts := (dask_sjoin_parts L Rr lbox rrbox rmissing geo_int rsel).

  Definition block (how : how_t) (l : L) (ms : list Rr) : list (L * option Rr) :=
    match how, ms with
    | HLeft, [] => [(l, None)]
    | _, ms => map (fun r => (l, Some r)) ms
    end.

  Lemma pandas_sjoin_block : forall how ls rs,
    pandas_sjoin how ls rs = flat_map (fun l => block how l (filter (pair_ok l) rs)) ls.
  Proof.
    intros how ls rs. unfold DaskModel.pandas_sjoin, block. apply flat_map_ext. intros l.
    destruct how, (filter (pair_ok l) rs); reflexivity.
  Qed.

  Lemma block_perm : forall how l ms ms',
    Permutation ms ms' -> Permutation (block how l ms) (block how l ms').
  Proof.
    intros how l ms ms' H. unfold block.
    destruct ms as [|m t].
    - apply Permutation_nil in H. subst ms'. apply Permutation_refl.
    - destruct ms' as [|m' t']; [apply Permutation_sym, Permutation_nil in H; discriminate H|].
      destruct how; apply Permutation_map, H.
  Qed.

  (* the right rows that can pair with a row of partition [p] are all reported by the
     right index for the partition's bounds *)
  Lemma pair_ok_prefilter : forall p l r,
    In l p -> wf_bbox (lbox l) -> pair_ok l r = true ->
    box_hit (part_bounds L lbox p) (rrbox r) = true.
  Proof.
    intros p l r Hl Hw Hp. unfold DaskModel.pair_ok in Hp.
    apply andb_true_iff in Hp. destruct Hp as [Hp Hg].
    destruct (Hgeo l r Hg) as [H1 H2].
    destruct Hw as [Hb|(x0 & y0 & x1 & y1 & Hb & Hx & Hy)].
    - rewrite Hb in H1. discriminate H1.
    - destruct (row_in_part_bounds L lbox p l _ _ _ _ Hl Hb)
        as (X0 & Y0 & X1 & Y1 & -> & B0 & B1 & B2 & B3).
      rewrite Hb in H2. destruct (rrbox r) as [[[a b] c] d].
      unfold box_hit in *. cbn in *. unfold ngt, nlt in *.
      destruct a, b, c, d; cbn in *; lia.
  Qed.

  Lemma partition_join_perm : forall how p rs,
    (forall l, In l p -> wf_bbox (lbox l)) ->
    Permutation (pandas_sjoin how p (rsel (part_bounds L lbox p) rs)) (pandas_sjoin how p rs).
  Proof.
    intros how p rs Hw. rewrite !pandas_sjoin_block.
    apply Permutation_flat_map_pointwise. intros l Hl. apply block_perm.
    eapply Permutation_trans.
    - apply Permutation_filter', Hrsel.
    - rewrite filter_filter_impl; [apply Permutation_refl|].
      intros r _ Hp. apply (pair_ok_prefilter p l r Hl (Hw l Hl) Hp).
  Qed.

  Lemma pandas_sjoin_inner_nil : forall p, pandas_sjoin HInner p [] = [].
  Proof.
    intros p. rewrite pandas_sjoin_block. induction p as [|l t IH]; [reflexivity|].
    cbn [flat_map filter block map app]. exact IH.
  Qed.

  Lemma dask_sjoin_parts_concat : forall how parts rs,
    concat (dask_sjoin_parts how parts rs) =
    concat (map (fun p => pandas_sjoin how p (rsel (part_bounds L lbox p) rs)) parts).
  Proof.
    intros how parts rs. unfold DaskModel.dask_sjoin_parts.
    induction parts as [|p t IH]; [reflexivity|].
    cbn [flat_map map concat]. rewrite concat_app, IH. f_equal.
    destruct how; [|cbn; apply app_nil_r].
    destruct (rsel (part_bounds L lbox p) rs) as [|c cs] eqn:E.
    - cbn. symmetry. apply pandas_sjoin_inner_nil.
    - cbn. apply app_nil_r.
  Qed.

  Lemma dask_sjoin_concat : forall how parts rs,
    concat (dask_sjoin how parts rs) = concat (dask_sjoin_parts how parts rs).
  Proof.
    intros how parts rs. unfold DaskModel.dask_sjoin.
    destruct (dask_sjoin_parts how parts rs); reflexivity.
  Qed.

  Lemma pandas_sjoin_concat : forall how parts rs,
    pandas_sjoin how (concat parts) rs = concat (map (fun p => pandas_sjoin how p rs) parts).
  Proof.
    intros how parts rs. rewrite pandas_sjoin_block.
    induction parts as [|p t IH]; [reflexivity|].
    cbn [concat map]. rewrite flat_map_app, IH, pandas_sjoin_block. reflexivity.
  Qed.

  (* ---- C06_sjoin: pre-filtering the right rows by the partition box loses no pair:
     the concatenated per-partition joins are, as a multiset of (left row, right row
     or nothing) results, the join of the concatenated frame — inner and left *)
  Theorem sjoin_concat : forall how parts rs,
    (forall l, In l (concat parts) -> wf_bbox (lbox l)) ->
    Permutation (concat (dask_sjoin how parts rs)) (pandas_sjoin how (concat parts) rs).
  Proof.
    intros how parts rs Hw.
    rewrite dask_sjoin_concat, dask_sjoin_parts_concat, pandas_sjoin_concat.
    apply Permutation_concat_map_pointwise. intros p Hp.
    apply partition_join_perm. intros l Hl. apply Hw, in_concat. exists p. split; assumption.
  Qed.
End SJ.
