(* C03: the theorems about HilbertRtree as built by [build] (Model/Rtree.v). *)
From Coq Require Import ZArith List Bool Arith Lia Permutation.
From SP Require Import Model.Num Model.Rtree Spec.Boxes
                       Proofs.RtreeLists Proofs.RtreeBuild Proofs.RtreeQuery.
Import ListNotations.
Local Open Scope nat_scope.

(* ------------------------------------------------ the shape of [build] *)
Definition b_ps (ps0 : nat) : nat := Nat.max 1 ps0.
Definition b_np (rows : list row) (ps0 : nat) : nat := num_pages_of (length rows) (b_ps ps0).
Definition b_td (rows : list row) (ps0 : nat) : nat := Nat.log2_up (b_np rows ps0).
Definition b_sb (rows : list row) (k : nat) : row := getrow k (map norm_row rows).

Lemma build_shape : forall d rows keys ps0, rows <> [] ->
  build d rows keys ps0 =
  mk_rtree d (map (b_sb rows) keys) keys (b_ps ps0)
           (bt2 d (b_ps ps0) (b_td rows ps0) (b_np rows ps0) (map (b_sb rows) keys)).
Proof. intros d rows keys ps0 Hne. destruct rows as [|r t]; [congruence|]. reflexivity. Qed.

Lemma build_nil : forall d keys ps0, build d [] keys ps0 = mk_rtree d [] [] (b_ps ps0) [].
Proof. reflexivity. Qed.

Lemma b_sb_eq : forall rows k, b_sb rows k = norm_row (nth k rows []).
Proof.
  intros. unfold b_sb, getrow. change (@nil num) with (norm_row []) at 1. apply map_nth.
Qed.

Lemma overlapsb_norm : forall d r q, overlapsb d (norm_row r) q = overlapsb d r q.
Proof.
  intros. destruct (row_finite r) eqn:E.
  - now rewrite norm_row_finite.
  - unfold overlapsb. now rewrite row_finite_norm, E.
Qed.

Lemma coveredb_norm : forall d r q, coveredb d (norm_row r) q = coveredb d r q.
Proof.
  intros. destruct (row_finite r) eqn:E.
  - now rewrite norm_row_finite.
  - unfold coveredb. now rewrite row_finite_norm, E.
Qed.

Lemma norm_row_wf : forall d r, 1 <= d -> wf_box d r -> wf_box d (norm_row r).
Proof.
  intros d r Hd Hwf. pose proof Hwf as [Hl Hw]. destruct (row_finite r) eqn:E.
  - rewrite norm_row_finite by exact E. exact Hwf.
  - rewrite norm_row_nan by exact E. split.
    + rewrite repeat_length. exact Hl.
    + rewrite Hl, row_finite_repeat_None by lia. discriminate.
Qed.

Lemma wf_len : forall d rows, Forall (wf_box d) rows ->
  Forall (fun r => length r = 2 * d) rows.
Proof. intros d rows H. eapply Forall_impl; [|exact H]. intros r [Hl _]. exact Hl. Qed.

Section Built.
  Variables (d : nat) (rows : list row) (keys : list nat) (ps0 : nat).
  Hypothesis Hd : 1 <= d.
  Hypothesis Hlen : Forall (fun r => length r = 2 * d) rows.
  Hypothesis Hperm : Permutation keys (seq 0 (length rows)).
  Hypothesis Hne : rows <> [].

  Lemma keys_lt : forall k, In k keys -> k < length rows.
  Proof.
    intros k Hk. apply (Permutation_in _ Hperm) in Hk. apply in_seq in Hk. lia.
  Qed.

  Lemma keys_length : length keys = length rows.
  Proof. rewrite (Permutation_length Hperm). apply seq_length. Qed.

  Lemma row_len : forall k, k < length rows -> length (nth k rows []) = 2 * d.
  Proof.
    intros k Hk. apply (proj1 (Forall_forall _ _) Hlen (nth k rows [])). now apply nth_In.
  Qed.

  Lemma sb_normal : forall k, In k keys -> normal d (b_sb rows k).
  Proof.
    intros k Hk. rewrite b_sb_eq. apply norm_row_normal.
    apply (row_len k (keys_lt k Hk)).
  Qed.

  Lemma Hps' : 1 <= b_ps ps0.
  Proof. unfold b_ps. lia. Qed.

  Lemma Hnp' : b_np rows ps0 <= 2 ^ b_td rows ps0.
  Proof. apply log2_up_ge. Qed.

  Lemma Hcover' : length keys <= b_np rows ps0 * b_ps ps0.
  Proof. rewrite keys_length. apply num_pages_cover. apply Hps'. Qed.

  Definition BT : rtree := build d rows keys ps0.

  Lemma BT_tree : t_tree BT =
    bt2 d (b_ps ps0) (b_td rows ps0) (b_np rows ps0) (map (b_sb rows) keys).
  Proof. unfold BT. now rewrite build_shape. Qed.
  Lemma BT_keys : t_keys BT = keys.
  Proof. unfold BT. now rewrite build_shape. Qed.
  Lemma BT_bounds : t_bounds BT = map (b_sb rows) keys.
  Proof. unfold BT. now rewrite build_shape. Qed.
  Lemma BT_ps : t_page_size BT = b_ps ps0.
  Proof. unfold BT. now rewrite build_shape. Qed.

  Lemma BT_bounds_ne : t_bounds BT <> [].
  Proof.
    rewrite BT_bounds. intros E. apply (f_equal (@length row)) in E.
    rewrite map_length, keys_length in E. destruct rows; [congruence|discriminate].
  Qed.

  (* ---- structure of the built tree (no hypothesis on min <= max) ---- *)
  Lemma BT_len : tree_len BT = tlen (b_td rows ps0).
  Proof.
    apply (tree_len_eq d (b_ps ps0) (b_td rows ps0) (b_np rows ps0) keys (b_sb rows) BT);
      auto using Hps', Hnp', Hcover', sb_normal, BT_tree.
  Qed.

  Lemma BT_children : forall v, right_child v < tree_len BT ->
    start_index BT (left_child v) = start_index BT v /\
    stop_index BT (right_child v) = stop_index BT v /\
    stop_index BT (left_child v) = start_index BT (right_child v) /\
    start_index BT v < stop_index BT (left_child v) < stop_index BT v.
  Proof.
    apply (children_partition d (b_ps ps0) (b_td rows ps0) (b_np rows ps0) keys (b_sb rows) BT);
      auto using Hps', Hnp', Hcover', sb_normal, BT_tree, BT_ps.
  Qed.

  Lemma BT_leaf : forall v, v < tree_len BT -> tree_len BT <= left_child v ->
    leaf_start_of BT <= v /\
    start_index BT v = (v - leaf_start_of BT) * t_page_size BT /\
    stop_index BT v = start_index BT v + t_page_size BT.
  Proof.
    apply (leaf_is_page d (b_ps ps0) (b_td rows ps0) (b_np rows ps0) keys (b_sb rows) BT);
      auto using Hps', Hnp', Hcover', sb_normal, BT_tree, BT_ps.
  Qed.

  Lemma BT_root : start_index BT 0 = 0 /\ length rows <= stop_index BT 0.
  Proof.
    rewrite <- keys_length.
    apply (root_range d (b_ps ps0) (b_td rows ps0) (b_np rows ps0) keys (b_sb rows) BT);
      auto using Hps', Hnp', Hcover', sb_normal, BT_tree, BT_ps.
  Qed.

  Lemma BT_node_box : forall v, v < tree_len BT ->
    getrow v (t_tree BT) = page_box d (slice (start_index BT v) (stop_index BT v) (t_bounds BT)).
  Proof.
    apply (node_box_range d (b_ps ps0) (b_td rows ps0) (b_np rows ps0) keys (b_sb rows) BT);
      auto using Hps', Hnp', Hcover', sb_normal, BT_tree, BT_ps, BT_bounds.
  Qed.

  Lemma BT_bounds_normal : Forall (normal d) (t_bounds BT).
  Proof.
    rewrite BT_bounds. apply Forall_forall. intros r Hr. apply in_map_iff in Hr.
    destruct Hr as [k [<- Hk]]. now apply sb_normal.
  Qed.

  Lemma sorted_perm : Permutation (map (b_sb rows) keys) (map norm_row rows).
  Proof.
    eapply Permutation_trans; [apply Permutation_map; exact Hperm|].
    rewrite (map_ext (b_sb rows) (fun i => norm_row (nth i rows []))) by (apply b_sb_eq).
    rewrite <- (map_map (fun i => nth i rows []) norm_row), map_nth_seq. apply Permutation_refl.
  Qed.

  Lemma BT_total_bounds : total_bounds BT = page_box d (map norm_row rows).
  Proof.
    unfold total_bounds. pose proof BT_len as HL. unfold tree_len in HL.
    destruct (t_tree BT) as [|root rest] eqn:E.
    - simpl in HL. unfold tlen in HL. pose proof (pow2_pos (b_td rows ps0)). lia.
    - change root with (getrow (node 0 0) (root :: rest)). rewrite <- E.
      rewrite (node_box d (b_ps ps0) (b_td rows ps0) (b_np rows ps0) keys (b_sb rows) BT
                        Hd Hps' Hnp' Hcover' sb_normal BT_tree (b_td rows ps0) 0 0)
        by (simpl; lia).
      rewrite (range_keys_root d (b_ps ps0) (b_td rows ps0) (b_np rows ps0) keys BT
                               Hd Hps' Hnp' Hcover' BT_ps).
      apply page_box_perm. apply sorted_perm.
  Qed.

  Lemma BT_index_fuel : forall v fuel, v < tree_len BT -> tree_len BT <= fuel ->
    start_index_f BT fuel v = start_index BT v /\ stop_index_f BT fuel v = stop_index BT v.
  Proof.
    apply (index_fuel d (b_ps ps0) (b_td rows ps0) (b_np rows ps0) keys (b_sb rows) BT);
      auto using Hps', Hnp', Hcover', sb_normal, BT_tree, BT_ps.
  Qed.

  (* ---- from here on the rows are boxes: min <= max ---- *)
  Hypothesis Hwf : Forall (wf_box d) rows.

  Lemma sb_wf : forall k, In k keys -> wf_box d (b_sb rows k).
  Proof.
    intros k Hk. rewrite b_sb_eq. apply norm_row_wf; [exact Hd|].
    apply (proj1 (Forall_forall _ _) Hwf). apply nth_In. now apply keys_lt.
  Qed.

  Variable q : list Z.
  Hypothesis Hq : length q = 2 * d.

  Lemma sub_normal : forall K, (forall k, In k K -> In k keys) ->
    Forall (normal d) (map (b_sb rows) K).
  Proof.
    intros K HK. apply Forall_forall. intros r Hr. apply in_map_iff in Hr.
    destruct Hr as [k [<- Hk]]. apply sb_normal. now apply HK.
  Qed.

  (* the generic worklist theorem, instantiated on the built tree *)
  Definition correct (fc fm target : row -> bool) :=
    Permutation (eval BT fc fm (maybe_intersects_ranges BT q))
                (filter (fun k => target (b_sb rows k)) keys).

  Lemma outside_no_overlap : forall K, (forall k, In k K -> In k keys) ->
    node_outside d q (page_box d (map (b_sb rows) K)) = true ->
    forall k, In k K -> overlapsb d (b_sb rows k) q = false.
  Proof.
    intros K HK Hout k Hk.
    apply (node_outside_sound d q Hd Hq (map (b_sb rows) K)); [now apply sub_normal|exact Hout|].
    now apply in_map.
  Qed.

  Lemma inside_covered : forall K, (forall k, In k K -> In k keys) ->
    node_inside d q (page_box d (map (b_sb rows) K)) = true ->
    forall k, In k K -> row_finite (b_sb rows k) = true -> coveredb d (b_sb rows k) q = true.
  Proof.
    intros K HK Hin k Hk Hf.
    apply (node_inside_sound d q Hd Hq (map (b_sb rows) K)); [now apply sub_normal|exact Hin| |exact Hf].
    now apply in_map.
  Qed.

  Lemma notnan_finite : forall k, In k keys ->
    negb (isnan (col 0 (b_sb rows k))) = row_finite (b_sb rows k).
  Proof.
    intros k Hk. destruct (sb_normal k Hk) as [Hl [Hf|Hn]].
    - now rewrite Hf, (finite_col0 d Hd _ Hl Hf).
    - rewrite Hn, nan_col0. unfold nanrow. now rewrite row_finite_repeat_None by lia.
  Qed.

  Lemma not_finite_no_overlap : forall r, row_finite r = false -> overlapsb d r q = false.
  Proof. intros r H. unfold overlapsb. now rewrite H. Qed.
  Lemma not_finite_not_covered : forall r, row_finite r = false -> coveredb d r q = false.
  Proof. intros r H. unfold coveredb. now rewrite H. Qed.

  Lemma no_overlap_not_covered : forall k, In k keys ->
    overlapsb d (b_sb rows k) q = false -> coveredb d (b_sb rows k) q = false.
  Proof.
    intros k Hk Ho. destruct (coveredb d (b_sb rows k) q) eqn:Hc; [|reflexivity].
    rewrite (covered_overlaps d q Hd (b_sb rows k) (sb_wf k Hk) Hc) in Ho. discriminate.
  Qed.

  Lemma correct_intersects :
    correct (fun r => negb (isnan (col 0 r))) (fun r => negb (row_outside d q r))
            (fun r => overlapsb d r q).
  Proof.
    unfold correct.
    apply (ranges_correct d (b_ps ps0) (b_td rows ps0) (b_np rows ps0) keys (b_sb rows) BT
                          Hd Hps' Hnp' Hcover' sb_normal BT_tree BT_keys BT_bounds BT_ps q Hq
                          (fun r => negb (isnan (col 0 r))) (fun r => negb (row_outside d q r))
                          (fun r => overlapsb d r q)).
    - exact outside_no_overlap.
    - intros K HK Hin k Hk. rewrite notnan_finite by (now apply HK).
      destruct (row_finite (b_sb rows k)) eqn:Hf.
      + symmetry. apply (covered_overlaps d q Hd _ (sb_wf k (HK k Hk))).
        now apply (inside_covered K HK Hin k Hk).
      + symmetry. now apply not_finite_no_overlap.
    - intros k Hk. apply (row_outside_overlaps d q Hd). now apply sb_normal.
  Qed.

  Lemma BT_ranges_fuel : forall fuel, tree_len BT <= fuel ->
    ranges_loop BT fuel q [0] [] [] = maybe_intersects_ranges BT q.
  Proof.
    apply (ranges_loop_fuel d (b_ps ps0) (b_td rows ps0) (b_np rows ps0) keys (b_sb rows) BT
                            Hd Hps' Hnp' Hcover' sb_normal BT_tree BT_keys BT_bounds BT_ps q Hq
                            (fun r => negb (isnan (col 0 r))) (fun r => negb (row_outside d q r))
                            (fun r => overlapsb d r q)).
    - exact outside_no_overlap.
    - intros K HK Hin k Hk. rewrite notnan_finite by (now apply HK).
      destruct (row_finite (b_sb rows k)) eqn:Hf.
      + symmetry. apply (covered_overlaps d q Hd _ (sb_wf k (HK k Hk))).
        now apply (inside_covered K HK Hin k Hk).
      + symmetry. now apply not_finite_no_overlap.
    - intros k Hk. apply (row_outside_overlaps d q Hd). now apply sb_normal.
  Qed.

  Lemma correct_covers :
    correct (fun r => negb (isnan (col 0 r))) (fun r => row_covers d q r)
            (fun r => coveredb d r q).
  Proof.
    unfold correct.
    apply (ranges_correct d (b_ps ps0) (b_td rows ps0) (b_np rows ps0) keys (b_sb rows) BT
                          Hd Hps' Hnp' Hcover' sb_normal BT_tree BT_keys BT_bounds BT_ps q Hq
                          (fun r => negb (isnan (col 0 r))) (fun r => row_covers d q r)
                          (fun r => coveredb d r q)).
    - intros K HK Hout k Hk. apply no_overlap_not_covered; [now apply HK|].
      now apply (outside_no_overlap K HK Hout).
    - intros K HK Hin k Hk. rewrite notnan_finite by (now apply HK).
      destruct (row_finite (b_sb rows k)) eqn:Hf.
      + symmetry. now apply (inside_covered K HK Hin k Hk).
      + symmetry. now apply not_finite_not_covered.
    - intros k Hk. apply (row_covers_covered d q Hd). now apply sb_normal.
  Qed.

  Lemma correct_partial :
    correct (fun _ => false) (fun r => negb (row_outside d q r || row_covers d q r))
            (fun r => overlapsb d r q && negb (coveredb d r q)).
  Proof.
    unfold correct.
    apply (ranges_correct d (b_ps ps0) (b_td rows ps0) (b_np rows ps0) keys (b_sb rows) BT
                          Hd Hps' Hnp' Hcover' sb_normal BT_tree BT_keys BT_bounds BT_ps q Hq
                          (fun _ => false) (fun r => negb (row_outside d q r || row_covers d q r))
                          (fun r => overlapsb d r q && negb (coveredb d r q))).
    - intros K HK Hout k Hk. now rewrite (outside_no_overlap K HK Hout k Hk).
    - intros K HK Hin k Hk. destruct (row_finite (b_sb rows k)) eqn:Hf.
      + rewrite (inside_covered K HK Hin k Hk Hf). now rewrite andb_false_r.
      + now rewrite not_finite_no_overlap.
    - intros k Hk. rewrite negb_orb.
      rewrite (row_outside_overlaps d q Hd) by (now apply sb_normal).
      now rewrite (row_covers_covered d q Hd) by (now apply sb_normal).
  Qed.

  (* from keys to row numbers *)
  Lemma to_rows : forall target : row -> bool,
    (forall r, target (norm_row r) = target r) ->
    Permutation (filter (fun k => target (b_sb rows k)) keys)
                (filter (fun i => target (nth i rows [])) (seq 0 (length rows))).
  Proof.
    intros target Ht.
    rewrite (filter_ext_in' _ (fun k => target (b_sb rows k)) (fun i => target (nth i rows [])) keys).
    - now apply Permutation_filter'.
    - intros k _. now rewrite b_sb_eq, Ht.
  Qed.
End Built.

(* ------------------------------------------------ the results as evals *)
Lemma scan_slice_false : forall T rg, scan_slice T (fun _ => false) rg = [].
Proof.
  intros T [s e]. unfold scan_slice. rewrite filter_false; [reflexivity|]. reflexivity.
Qed.

Lemma flat_map_nil : forall A B (f : A -> list B) l, (forall x, f x = []) -> flat_map f l = [].
Proof. induction l as [|x t IH]; intros H; simpl; [reflexivity|]. now rewrite H, IH. Qed.

Lemma intersects_eval : forall T q, t_bounds T <> [] ->
  intersects T q =
  eval T (fun r => negb (isnan (col 0 r))) (fun r => negb (row_outside (length q / 2) q r))
       (maybe_intersects_ranges T q).
Proof.
  intros T q Hne. unfold intersects, eval.
  destruct (t_bounds T); [congruence|].
  destruct (maybe_intersects_ranges T q) as [cr mr]. reflexivity.
Qed.

Lemma covers_overlaps_eval : forall T q, t_bounds T <> [] ->
  covers_overlaps T q =
  (eval T (fun r => negb (isnan (col 0 r))) (fun r => row_covers (length q / 2) q r)
        (maybe_intersects_ranges T q),
   eval T (fun _ => false)
        (fun r => negb (row_outside (length q / 2) q r || row_covers (length q / 2) q r))
        (maybe_intersects_ranges T q)).
Proof.
  intros T q Hne. unfold covers_overlaps, eval.
  destruct (t_bounds T); [congruence|].
  destruct (maybe_intersects_ranges T q) as [cr mr]. cbn [fst snd].
  rewrite (flat_map_nil _ _ (scan_slice T (fun _ => false))) by (apply scan_slice_false).
  reflexivity.
Qed.

Lemma qdim' : forall d (q : list Z), 1 <= d -> length q = 2 * d -> length q / 2 = d.
Proof. intros d q Hd Hq. rewrite Hq, Nat.mul_comm. apply Nat.div_mul. lia. Qed.

(* ================================================================ theorems *)

(* (d) intersects returns each overlapping row exactly once and no other *)
Theorem C03_intersects : forall d rows keys ps q,
  1 <= d -> Forall (wf_box d) rows -> Permutation keys (seq 0 (length rows)) ->
  length q = 2 * d ->
  Permutation (intersects (build d rows keys ps) q)
              (filter (fun i => overlapsb d (nth i rows []) q) (seq 0 (length rows))).
Proof.
  intros d rows keys ps q Hd Hwf Hperm Hq.
  destruct rows as [|r0 rs] eqn:Er.
  - rewrite build_nil. constructor.
  - rewrite <- Er in *. assert (Hne : rows <> []) by (rewrite Er; discriminate).
    pose proof (wf_len d rows Hwf) as Hlen.
    rewrite intersects_eval by (apply (BT_bounds_ne d rows keys ps Hlen Hperm Hne)).
    rewrite (qdim' d q Hd Hq).
    eapply Permutation_trans.
    + apply (correct_intersects d rows keys ps Hd Hlen Hperm Hne Hwf q Hq).
    + apply (to_rows rows keys Hperm (fun r => overlapsb d r q)).
      intros r. apply overlapsb_norm.
Qed.

(* (e) covers_overlaps: the covered rows, and the overlapping rows that are not covered *)
Theorem C03_covers_overlaps : forall d rows keys ps q,
  1 <= d -> Forall (wf_box d) rows -> Permutation keys (seq 0 (length rows)) ->
  length q = 2 * d ->
  Permutation (fst (covers_overlaps (build d rows keys ps) q))
              (filter (fun i => coveredb d (nth i rows []) q) (seq 0 (length rows))) /\
  Permutation (snd (covers_overlaps (build d rows keys ps) q))
              (filter (fun i => overlapsb d (nth i rows []) q && negb (coveredb d (nth i rows []) q))
                      (seq 0 (length rows))).
Proof.
  intros d rows keys ps q Hd Hwf Hperm Hq.
  destruct rows as [|r0 rs] eqn:Er.
  - rewrite build_nil. split; constructor.
  - rewrite <- Er in *. assert (Hne : rows <> []) by (rewrite Er; discriminate).
    pose proof (wf_len d rows Hwf) as Hlen.
    rewrite covers_overlaps_eval by (apply (BT_bounds_ne d rows keys ps Hlen Hperm Hne)).
    rewrite (qdim' d q Hd Hq). cbn [fst snd]. split.
    + eapply Permutation_trans.
      * apply (correct_covers d rows keys ps Hd Hlen Hperm Hne Hwf q Hq).
      * apply (to_rows rows keys Hperm (fun r => coveredb d r q)).
        intros r. apply coveredb_norm.
    + eapply Permutation_trans.
      * apply (correct_partial d rows keys ps Hd Hlen Hperm Hne q Hq).
      * apply (to_rows rows keys Hperm (fun r => overlapsb d r q && negb (coveredb d r q))).
        intros r. now rewrite overlapsb_norm, coveredb_norm.
Qed.

(* membership / no-duplicate forms *)
Lemma In_filter_seq : forall (f : nat -> bool) n i,
  In i (filter f (seq 0 n)) <-> i < n /\ f i = true.
Proof.
  intros. rewrite filter_In, in_seq. intuition lia.
Qed.

Lemma NoDup_filter' : forall A (f : A -> bool) l, NoDup l -> NoDup (filter f l).
Proof.
  induction l as [|x t IH]; intros H; simpl; [constructor|].
  inversion H as [|? ? Hx Ht]; subst.
  destruct (f x); [|now apply IH]. constructor; [|now apply IH].
  intros Hin. apply filter_In in Hin. now destruct Hin.
Qed.

Lemma NoDup_app' : forall A (l1 l2 : list A),
  NoDup l1 -> NoDup l2 -> (forall x, In x l1 -> ~ In x l2) -> NoDup (l1 ++ l2).
Proof.
  induction l1 as [|x t IH]; intros l2 H1 H2 Hd; simpl; [exact H2|].
  inversion H1 as [|? ? Hx Ht]; subst. constructor.
  - intros Hin. apply in_app_or in Hin. destruct Hin as [Hin|Hin]; [contradiction|].
    apply (Hd x); [now left|exact Hin].
  - apply IH; try assumption. intros y Hy. apply Hd. now right.
Qed.

Theorem C03_intersects_In : forall d rows keys ps q i,
  1 <= d -> Forall (wf_box d) rows -> Permutation keys (seq 0 (length rows)) ->
  length q = 2 * d ->
  (In i (intersects (build d rows keys ps) q) <->
   i < length rows /\ overlapsb d (nth i rows []) q = true).
Proof.
  intros d rows keys ps q i Hd Hwf Hperm Hq.
  pose proof (C03_intersects d rows keys ps q Hd Hwf Hperm Hq) as P.
  rewrite <- (In_filter_seq (fun i => overlapsb d (nth i rows []) q)).
  split; intros H; [eapply Permutation_in; eassumption|].
  eapply Permutation_in; [apply Permutation_sym; eassumption|exact H].
Qed.

Theorem C03_intersects_NoDup : forall d rows keys ps q,
  1 <= d -> Forall (wf_box d) rows -> Permutation keys (seq 0 (length rows)) ->
  length q = 2 * d ->
  NoDup (intersects (build d rows keys ps) q).
Proof.
  intros d rows keys ps q Hd Hwf Hperm Hq.
  pose proof (C03_intersects d rows keys ps q Hd Hwf Hperm Hq) as P.
  eapply Permutation_NoDup; [apply Permutation_sym; exact P|].
  apply NoDup_filter'. apply seq_NoDup.
Qed.

Theorem C03_covers_In : forall d rows keys ps q i,
  1 <= d -> Forall (wf_box d) rows -> Permutation keys (seq 0 (length rows)) ->
  length q = 2 * d ->
  (In i (fst (covers_overlaps (build d rows keys ps) q)) <->
   i < length rows /\ coveredb d (nth i rows []) q = true).
Proof.
  intros d rows keys ps q i Hd Hwf Hperm Hq.
  destruct (C03_covers_overlaps d rows keys ps q Hd Hwf Hperm Hq) as [P _].
  rewrite <- (In_filter_seq (fun i => coveredb d (nth i rows []) q)).
  split; intros H; [eapply Permutation_in; eassumption|].
  eapply Permutation_in; [apply Permutation_sym; eassumption|exact H].
Qed.

Theorem C03_overlaps_In : forall d rows keys ps q i,
  1 <= d -> Forall (wf_box d) rows -> Permutation keys (seq 0 (length rows)) ->
  length q = 2 * d ->
  (In i (snd (covers_overlaps (build d rows keys ps) q)) <->
   i < length rows /\ overlapsb d (nth i rows []) q = true /\ coveredb d (nth i rows []) q = false).
Proof.
  intros d rows keys ps q i Hd Hwf Hperm Hq.
  destruct (C03_covers_overlaps d rows keys ps q Hd Hwf Hperm Hq) as [_ P].
  assert (E : (i < length rows /\ overlapsb d (nth i rows []) q = true /\
               coveredb d (nth i rows []) q = false) <->
              (i < length rows /\
               overlapsb d (nth i rows []) q && negb (coveredb d (nth i rows []) q) = true)).
  { rewrite andb_true_iff, negb_true_iff. tauto. }
  rewrite E.
  rewrite <- (In_filter_seq (fun i => overlapsb d (nth i rows []) q && negb (coveredb d (nth i rows []) q))).
  split; intros H; [eapply Permutation_in; eassumption|].
  eapply Permutation_in; [apply Permutation_sym; eassumption|exact H].
Qed.

Theorem C03_covers_overlaps_NoDup : forall d rows keys ps q,
  1 <= d -> Forall (wf_box d) rows -> Permutation keys (seq 0 (length rows)) ->
  length q = 2 * d ->
  NoDup (fst (covers_overlaps (build d rows keys ps) q) ++
         snd (covers_overlaps (build d rows keys ps) q)).
Proof.
  intros d rows keys ps q Hd Hwf Hperm Hq.
  destruct (C03_covers_overlaps d rows keys ps q Hd Hwf Hperm Hq) as [P1 P2].
  eapply Permutation_NoDup.
  - apply Permutation_sym. apply Permutation_app; eassumption.
  - apply NoDup_app'; try (apply NoDup_filter'; apply seq_NoDup).
    intros x H1 H2. apply filter_In in H1. apply filter_In in H2.
    destruct H1 as [_ H1]. destruct H2 as [_ H2]. cbv beta in H1, H2.
    rewrite H1, andb_false_r in H2. discriminate.
Qed.

(* the covered and the partial rows together are the intersecting rows *)
Theorem C03_split : forall d rows keys ps q,
  1 <= d -> Forall (wf_box d) rows -> Permutation keys (seq 0 (length rows)) ->
  length q = 2 * d ->
  Permutation (fst (covers_overlaps (build d rows keys ps) q) ++
               snd (covers_overlaps (build d rows keys ps) q))
              (intersects (build d rows keys ps) q).
Proof.
  intros d rows keys ps q Hd Hwf Hperm Hq.
  apply NoDup_Permutation.
  - now apply C03_covers_overlaps_NoDup.
  - now apply C03_intersects_NoDup.
  - intros i.
    pose proof (C03_covers_In d rows keys ps q i Hd Hwf Hperm Hq) as IC.
    pose proof (C03_overlaps_In d rows keys ps q i Hd Hwf Hperm Hq) as IO.
    pose proof (C03_intersects_In d rows keys ps q i Hd Hwf Hperm Hq) as II.
    split.
    + intros H. apply in_app_or in H. apply II. destruct H as [H|H].
      * apply IC in H. destruct H as [Hi Hc]. split; [exact Hi|].
        apply (covered_overlaps d q Hd); [|exact Hc].
        apply (proj1 (Forall_forall _ _) Hwf). now apply nth_In.
      * apply IO in H. tauto.
    + intros H. apply II in H. destruct H as [Hi Ho]. apply in_or_app.
      destruct (coveredb d (nth i rows []) q) eqn:Hc.
      * left. apply IC. tauto.
      * right. apply IO. tauto.
Qed.

(* the answer does not depend on the curve order (the permutation) nor on the page size *)
Theorem C03_independent : forall d rows keys keys' ps ps' q,
  1 <= d -> Forall (wf_box d) rows ->
  Permutation keys (seq 0 (length rows)) -> Permutation keys' (seq 0 (length rows)) ->
  length q = 2 * d ->
  Permutation (intersects (build d rows keys ps) q) (intersects (build d rows keys' ps') q) /\
  Permutation (fst (covers_overlaps (build d rows keys ps) q))
              (fst (covers_overlaps (build d rows keys' ps') q)) /\
  Permutation (snd (covers_overlaps (build d rows keys ps) q))
              (snd (covers_overlaps (build d rows keys' ps') q)).
Proof.
  intros d rows keys keys' ps ps' q Hd Hwf Hp Hp' Hq.
  pose proof (C03_intersects d rows keys ps q Hd Hwf Hp Hq) as A.
  pose proof (C03_intersects d rows keys' ps' q Hd Hwf Hp' Hq) as A'.
  destruct (C03_covers_overlaps d rows keys ps q Hd Hwf Hp Hq) as [B C].
  destruct (C03_covers_overlaps d rows keys' ps' q Hd Hwf Hp' Hq) as [B' C'].
  repeat split; (eapply Permutation_trans; [eassumption|apply Permutation_sym; eassumption]).
Qed.

(* ============================================ union of boxes (declarative) *)
Definition vals (c : nat) (R : list row) : list Z :=
  flat_map (fun r => match col c r with Some v => [v] | None => [] end) R.

Lemma lower_of_nanmin : forall c R, lower_of (vals c R) (col_nanmin c R).
Proof.
  induction R as [|r t IH]; [reflexivity|].
  rewrite col_nanmin_cons. unfold vals in *. simpl.
  destruct (col c r) as [x|]; simpl; [|exact IH].
  destruct (flat_map _ t) as [|y l] eqn:E.
  - simpl in IH. rewrite IH. simpl. exists x. split; [reflexivity|].
    split; [now left|]. intros z [<-|[]]. lia.
  - simpl in IH. destruct IH as [a [Ha [Hin Hmin]]]. rewrite Ha. simpl.
    exists (Z.min x a). split; [reflexivity|]. split.
    + destruct (Z.min_spec x a) as [[_ ->]|[_ ->]]; [now left|now right].
    + intros z [<-|Hz]; [lia|]. specialize (Hmin z Hz). lia.
Qed.

Lemma upper_of_nanmax : forall c R, upper_of (vals c R) (col_nanmax c R).
Proof.
  induction R as [|r t IH]; [reflexivity|].
  rewrite col_nanmax_cons. unfold vals in *. simpl.
  destruct (col c r) as [x|]; simpl; [|exact IH].
  destruct (flat_map _ t) as [|y l] eqn:E.
  - simpl in IH. rewrite IH. simpl. exists x. split; [reflexivity|].
    split; [now left|]. intros z [<-|[]]. lia.
  - simpl in IH. destruct IH as [a [Ha [Hin Hmax]]]. rewrite Ha. simpl.
    exists (Z.max x a). split; [reflexivity|]. split.
    + destruct (Z.max_spec x a) as [[_ ->]|[_ ->]]; [now right|now left].
    + intros z [<-|Hz]; [lia|]. specialize (Hmax z Hz). lia.
Qed.

Lemma vals_normal : forall d c R, 1 <= d -> Forall (normal d) R -> vals c R = col_values c R.
Proof.
  intros d c R Hd HR. unfold vals, col_values. induction HR as [|r t Hr Ht IH]; [reflexivity|].
  simpl. destruct Hr as [Hl [Hf|Hn]].
  - rewrite Hf. simpl. now rewrite IH.
  - subst r. unfold nanrow. rewrite row_finite_repeat_None, col_repeat_None by lia.
    simpl. exact IH.
Qed.

Lemma col_values_norm : forall c rows, col_values c (map norm_row rows) = col_values c rows.
Proof.
  intros c rows. unfold col_values. induction rows as [|r t IH]; [reflexivity|].
  simpl. rewrite row_finite_norm. destruct (row_finite r) eqn:E.
  - rewrite norm_row_finite by exact E. simpl. now rewrite IH.
  - exact IH.
Qed.

(* the page box of normalised rows is the union of their boxes *)
Lemma page_box_union : forall d R, 1 <= d -> Forall (normal d) R -> union_box d R (page_box d R).
Proof.
  intros d R Hd HR. split; [apply page_box_length|].
  intros k Hk. rewrite page_box_col_lo by exact Hk.
  rewrite (Nat.add_comm d k), page_box_col_hi by exact Hk.
  rewrite <- !(vals_normal d _ R Hd HR). split; [apply lower_of_nanmin|apply upper_of_nanmax].
Qed.

Lemma union_box_norm : forall d rows b, union_box d (map norm_row rows) b -> union_box d rows b.
Proof.
  intros d rows b [Hl H]. split; [exact Hl|]. intros k Hk.
  specialize (H k Hk). now rewrite !col_values_norm in H.
Qed.

Lemma has_fin_false_iff : forall R, has_fin R = false <-> forall r, In r R -> row_finite r = false.
Proof.
  intros R. unfold has_fin. split.
  - intros H r Hr. destruct (row_finite r) eqn:E; [|reflexivity].
    assert (existsb row_finite R = true) by (apply existsb_exists; eauto). congruence.
  - intros H. destruct (existsb row_finite R) eqn:E; [|reflexivity].
    apply existsb_exists in E. destruct E as [r [Hr Hf]]. rewrite (H r Hr) in Hf. discriminate.
Qed.

(* ====================================================== (a) leaf scans *)
Theorem C03_leaf_scan : forall d rows keys ps q s e,
  1 <= d -> Forall (fun r => length r = 2 * d) rows ->
  Permutation keys (seq 0 (length rows)) -> length q = 2 * d ->
  let T := build d rows keys ps in
  scan_slice T (fun r => negb (row_outside d q r)) (s, e) =
    filter (fun i => overlapsb d (nth i rows []) q) (slice s e keys) /\
  scan_slice T (fun r => row_covers d q r) (s, e) =
    filter (fun i => coveredb d (nth i rows []) q) (slice s e keys) /\
  scan_slice T (fun r => negb (row_outside d q r || row_covers d q r)) (s, e) =
    filter (fun i => overlapsb d (nth i rows []) q && negb (coveredb d (nth i rows []) q))
           (slice s e keys).
Proof.
  intros d rows keys ps q s e Hd Hlen Hperm Hq T.
  assert (Hcase : rows = [] \/ rows <> []) by (destruct rows; [left|right]; congruence).
  destruct Hcase as [Er|Hne].
  - subst rows. simpl in Hperm. apply Permutation_sym, Permutation_nil in Hperm. subst keys. subst T.
    rewrite build_nil.
    unfold scan_slice. simpl. rewrite !slice_nil. simpl. auto.
  - assert (Hsc : forall keep, scan_slice T keep (s, e) =
                               filter (fun k => keep (b_sb rows k)) (slice s e keys)).
    { intros keep. apply scan_slice_filter.
      - apply (BT_keys d rows keys ps Hne).
      - apply (BT_bounds d rows keys ps Hne). }
    rewrite !Hsc.
    assert (Hn : forall k, In k (slice s e keys) -> normal d (b_sb rows k)).
    { intros k Hk. apply slice_In in Hk. now apply (sb_normal d rows keys Hd Hlen Hperm). }
    repeat split; apply filter_ext_in'; intros k Hk; specialize (Hn k Hk); rewrite b_sb_eq in *.
    + rewrite (row_outside_overlaps d q Hd _ Hn). apply overlapsb_norm.
    + rewrite (row_covers_covered d q Hd _ Hn). apply coveredb_norm.
    + rewrite negb_orb, (row_outside_overlaps d q Hd _ Hn), (row_covers_covered d q Hd _ Hn).
      now rewrite overlapsb_norm, coveredb_norm.
Qed.

(* ============================== (b) node -> [start_index, stop_index) *)
Theorem tree_node_range : forall d rows keys ps,
  1 <= d -> Forall (fun r => length r = 2 * d) rows ->
  Permutation keys (seq 0 (length rows)) -> rows <> [] ->
  let T := build d rows keys ps in
  (* shape: a complete binary tree with one leaf per page, padded to a power of two *)
  tree_len T = 2 ^ Nat.log2_up (num_pages_of (length rows) (Nat.max 1 ps)) * 2 - 1 /\
  leaf_start_of T = 2 ^ Nat.log2_up (num_pages_of (length rows) (Nat.max 1 ps)) - 1 /\
  (* children split the range of their parent in two non-empty halves *)
  (forall v, right_child v < tree_len T ->
     start_index T (left_child v) = start_index T v /\
     stop_index T (right_child v) = stop_index T v /\
     stop_index T (left_child v) = start_index T (right_child v) /\
     start_index T v < stop_index T (left_child v) < stop_index T v) /\
  (* a leaf is one page (possibly ragged or beyond the last row: slices clip) *)
  (forall v, v < tree_len T -> tree_len T <= left_child v ->
     leaf_start_of T <= v /\
     start_index T v = (v - leaf_start_of T) * t_page_size T /\
     stop_index T v = start_index T v + t_page_size T) /\
  (* the root spans every row *)
  (start_index T 0 = 0 /\ length rows <= stop_index T 0).
Proof.
  intros d rows keys ps Hd Hlen Hperm Hne T. subst T.
  change (build d rows keys ps) with (BT d rows keys ps).
  repeat split.
  - apply (BT_len d rows keys ps Hd Hlen Hperm Hne).
  - apply (leaf_start_eq d (b_ps ps) (b_td rows ps) (b_np rows ps) keys (b_sb rows)).
    + exact Hd.
    + unfold b_ps. lia.
    + apply log2_up_ge.
    + eapply Hcover'; eassumption.
    + eapply sb_normal; eassumption.
    + now apply BT_tree.
    + now apply BT_ps.
  - now apply (BT_children d rows keys ps Hd Hlen Hperm Hne v).
  - now apply (BT_children d rows keys ps Hd Hlen Hperm Hne v).
  - now apply (BT_children d rows keys ps Hd Hlen Hperm Hne v).
  - now apply (BT_children d rows keys ps Hd Hlen Hperm Hne v).
  - now apply (BT_children d rows keys ps Hd Hlen Hperm Hne v).
  - now apply (BT_leaf d rows keys ps Hd Hlen Hperm Hne v).
  - now apply (BT_leaf d rows keys ps Hd Hlen Hperm Hne v).
  - now apply (BT_leaf d rows keys ps Hd Hlen Hperm Hne v).
  - apply (BT_root d rows keys ps Hd Hlen Hperm Hne).
  - apply (BT_root d rows keys ps Hd Hlen Hperm Hne).
Qed.

(* ============================================= (c) the box of a node *)
Theorem tree_node_bounds : forall d rows keys ps v,
  1 <= d -> Forall (fun r => length r = 2 * d) rows ->
  Permutation keys (seq 0 (length rows)) ->
  let T := build d rows keys ps in
  v < tree_len T ->
  let R := slice (start_index T v) (stop_index T v) (t_bounds T) in
  getrow v (t_tree T) = page_box d R /\
  union_box d R (getrow v (t_tree T)) /\
  (isnan (col 0 (getrow v (t_tree T))) = true <-> forall r, In r R -> row_finite r = false).
Proof.
  intros d rows keys ps v Hd Hlen Hperm T Hv R.
  assert (Hne : rows <> []).
  { intros ->. subst T. rewrite build_nil in Hv. unfold tree_len in Hv. simpl in Hv. lia. }
  subst T. change (build d rows keys ps) with (BT d rows keys ps) in *.
  pose proof (BT_node_box d rows keys ps Hd Hlen Hperm Hne v Hv) as HB. fold R in HB.
  assert (HR : Forall (normal d) R).
  { apply Forall_forall. intros r Hr. apply slice_In in Hr.
    revert r Hr. apply Forall_forall. apply (BT_bounds_normal d rows keys ps Hd Hlen Hperm Hne). }
  rewrite HB. split; [reflexivity|]. split; [now apply page_box_union|].
  rewrite <- has_fin_false_iff. rewrite <- (page_box_valid d R Hd HR).
  destruct (isnan (col 0 (page_box d R))); simpl; split; congruence.
Qed.

(* ================================================== total_bounds *)
Theorem C03_total_bounds_box : forall d rows keys ps,
  1 <= d -> Forall (fun r => length r = 2 * d) rows ->
  Permutation keys (seq 0 (length rows)) ->
  total_bounds (build d rows keys ps) = page_box d (map norm_row rows).
Proof.
  intros d rows keys ps Hd Hlen Hperm.
  destruct rows as [|r0 rs] eqn:Er.
  - rewrite build_nil. unfold total_bounds. simpl. symmetry. apply page_box_nil.
  - rewrite <- Er in *. assert (Hne : rows <> []) by (rewrite Er; discriminate).
    apply (BT_total_bounds d rows keys ps Hd Hlen Hperm Hne).
Qed.

(* total_bounds is the union of the boxes of the rows that have one (NaN when none) *)
Theorem C03_total_bounds : forall d rows keys ps,
  1 <= d -> Forall (fun r => length r = 2 * d) rows ->
  Permutation keys (seq 0 (length rows)) ->
  union_box d rows (total_bounds (build d rows keys ps)).
Proof.
  intros d rows keys ps Hd Hlen Hperm.
  rewrite (C03_total_bounds_box d rows keys ps Hd Hlen Hperm).
  apply union_box_norm. apply page_box_union; [exact Hd|].
  apply Forall_forall. intros r Hr. apply in_map_iff in Hr. destruct Hr as [r' [<- Hr']].
  apply norm_row_normal. revert r' Hr'. now apply Forall_forall.
Qed.

(* bridge for clients that reason with the masks of the code *)
Lemma overlapsb_row_outside : forall d r q, 1 <= d -> length r = 2 * d ->
  overlapsb d r q = negb (row_outside d q (norm_row r)).
Proof.
  intros d r q Hd Hl. rewrite (row_outside_overlaps d q Hd) by (now apply norm_row_normal).
  symmetry. apply overlapsb_norm.
Qed.

(* ======================================================= NaN rows are inert *)
Lemma overlapsb_finite : forall d r q, overlapsb d r q = true -> row_finite r = true.
Proof. intros d r q H. unfold overlapsb in H. now apply andb_true_iff in H. Qed.
Lemma coveredb_finite : forall d r q, coveredb d r q = true -> row_finite r = true.
Proof. intros d r q H. unfold coveredb in H. now apply andb_true_iff in H. Qed.

(* a row with a NaN coordinate is never reported *)
Theorem C03_nan_never_reported : forall d rows keys ps q i,
  1 <= d -> Forall (wf_box d) rows -> Permutation keys (seq 0 (length rows)) ->
  length q = 2 * d ->
  row_finite (nth i rows []) = false ->
  ~ In i (intersects (build d rows keys ps) q) /\
  ~ In i (fst (covers_overlaps (build d rows keys ps) q)) /\
  ~ In i (snd (covers_overlaps (build d rows keys ps) q)).
Proof.
  intros d rows keys ps q i Hd Hwf Hperm Hq Hnan. repeat split; intros H.
  - apply (C03_intersects_In d rows keys ps q i Hd Hwf Hperm Hq) in H. destruct H as [_ H].
    apply overlapsb_finite in H. congruence.
  - apply (C03_covers_In d rows keys ps q i Hd Hwf Hperm Hq) in H. destruct H as [_ H].
    apply coveredb_finite in H. congruence.
  - apply (C03_overlaps_In d rows keys ps q i Hd Hwf Hperm Hq) in H. destruct H as [_ [H _]].
    apply overlapsb_finite in H. congruence.
Qed.

(* the rows with a box, and their original numbers *)
Definition finite_rows (rows : list row) : list row := filter row_finite rows.
Definition finite_idx (rows : list row) : list nat :=
  filter (fun i => row_finite (nth i rows [])) (seq 0 (length rows)).

Lemma filter_as_indices : forall (f : row -> bool) rows,
  filter f rows =
  map (fun i => nth i rows []) (filter (fun i => f (nth i rows [])) (seq 0 (length rows))).
Proof.
  intros f. induction rows as [|r t IH]; [reflexivity|].
  cbn [length]. rewrite <- cons_seq, <- seq_shift. cbn [filter map nth].
  rewrite filter_map_comm. cbn [nth].
  destruct (f r); cbn [map nth]; rewrite map_map; cbn [nth]; now rewrite <- IH.
Qed.

Lemma finite_rows_idx : forall rows,
  finite_rows rows = map (fun i => nth i rows []) (finite_idx rows).
Proof. intros. apply filter_as_indices. Qed.

Lemma renumber : forall rows (P : row -> bool),
  (forall r, P r = true -> row_finite r = true) ->
  map (fun j => nth j (finite_idx rows) 0)
      (filter (fun j => P (nth j (finite_rows rows) [])) (seq 0 (length (finite_rows rows)))) =
  filter (fun i => P (nth i rows [])) (seq 0 (length rows)).
Proof.
  intros rows P HP.
  rewrite <- (filter_filter _ (fun i => P (nth i rows [])) (fun i => row_finite (nth i rows [])))
    by (intros i Hi; now apply HP).
  fold (finite_idx rows).
  replace (filter (fun i => P (nth i rows [])) (finite_idx rows))
    with (filter (fun i => P (nth i rows []))
                 (map (fun j => nth j (finite_idx rows) 0) (seq 0 (length (finite_idx rows)))))
    by (now rewrite map_nth_seq).
  rewrite filter_map_comm.
  assert (Hl : length (finite_rows rows) = length (finite_idx rows))
    by (rewrite finite_rows_idx; apply map_length).
  rewrite Hl. f_equal. apply filter_ext_in'. intros j Hj. apply in_seq in Hj.
  f_equal. rewrite finite_rows_idx.
  rewrite (nth_indep _ [] (nth 0 rows [])) by (rewrite map_length; lia).
  apply (map_nth (fun i => nth i rows [])).
Qed.

Lemma finite_rows_wf : forall d rows, Forall (wf_box d) rows -> Forall (wf_box d) (finite_rows rows).
Proof.
  intros d rows H. apply Forall_forall. intros r Hr. apply filter_In in Hr.
  destruct Hr as [Hr _]. revert r Hr. now apply Forall_forall.
Qed.

Lemma finite_rows_norm : forall rows,
  filter row_finite (map norm_row rows) = filter row_finite rows.
Proof.
  induction rows as [|r t IH]; [reflexivity|]. simpl.
  rewrite row_finite_norm. destruct (row_finite r) eqn:E; [|exact IH].
  rewrite norm_row_finite by exact E. now rewrite IH.
Qed.

Lemma col_values_finite_rows : forall c rows, col_values c (finite_rows rows) = col_values c rows.
Proof.
  intros. unfold col_values, finite_rows. f_equal.
  apply filter_filter. auto.
Qed.

(* removing the NaN rows (and renumbering) changes no answer and not the total bounds *)
Theorem C03_nan_inert : forall d rows keys ps keys' ps' q,
  1 <= d -> Forall (wf_box d) rows -> Permutation keys (seq 0 (length rows)) ->
  Permutation keys' (seq 0 (length (finite_rows rows))) ->
  length q = 2 * d ->
  let T := build d rows keys ps in
  let T' := build d (finite_rows rows) keys' ps' in
  let old := fun j => nth j (finite_idx rows) 0 in
  Permutation (map old (intersects T' q)) (intersects T q) /\
  Permutation (map old (fst (covers_overlaps T' q))) (fst (covers_overlaps T q)) /\
  Permutation (map old (snd (covers_overlaps T' q))) (snd (covers_overlaps T q)) /\
  total_bounds T' = total_bounds T.
Proof.
  intros d rows keys ps keys' ps' q Hd Hwf Hperm Hperm' Hq T T' old.
  pose proof (finite_rows_wf d rows Hwf) as Hwf'.
  pose proof (C03_intersects d rows keys ps q Hd Hwf Hperm Hq) as A.
  pose proof (C03_intersects d (finite_rows rows) keys' ps' q Hd Hwf' Hperm' Hq) as A'.
  destruct (C03_covers_overlaps d rows keys ps q Hd Hwf Hperm Hq) as [B C].
  destruct (C03_covers_overlaps d (finite_rows rows) keys' ps' q Hd Hwf' Hperm' Hq) as [B' C'].
  fold T in A, B, C. fold T' in A', B', C'.
  repeat split.
  - eapply Permutation_trans; [apply Permutation_map; exact A'|].
    unfold old. rewrite (renumber rows (fun r => overlapsb d r q))
      by (intros r; apply overlapsb_finite).
    now apply Permutation_sym.
  - eapply Permutation_trans; [apply Permutation_map; exact B'|].
    unfold old. rewrite (renumber rows (fun r => coveredb d r q))
      by (intros r; apply coveredb_finite).
    now apply Permutation_sym.
  - eapply Permutation_trans; [apply Permutation_map; exact C'|].
    unfold old. rewrite (renumber rows (fun r => overlapsb d r q && negb (coveredb d r q))).
    + now apply Permutation_sym.
    + intros r Hr. apply andb_true_iff in Hr. destruct Hr as [Hr _].
      now apply overlapsb_finite in Hr.
  - subst T T'.
    rewrite !C03_total_bounds_box by (try apply wf_len; assumption).
    unfold page_box. f_equal; apply map_ext; intros c.
    + assert (E : forall R, col_nanmin c (map norm_row R) =
                            col_nanmin c (filter row_finite (map norm_row R))).
      { induction R as [|r t IH]; [reflexivity|]. cbn [map filter].
        destruct (row_finite (norm_row r)) eqn:Ef.
        - rewrite !col_nanmin_cons. now rewrite IH.
        - rewrite col_nanmin_cons. rewrite row_finite_norm in Ef.
          rewrite norm_row_nan by exact Ef. unfold col at 1. 
          fold (col c (repeat None (length r))). rewrite col_repeat_None. exact IH. }
      rewrite (E rows), (E (finite_rows rows)). rewrite !finite_rows_norm.
      unfold finite_rows. now rewrite (filter_filter _ row_finite row_finite) by auto.
    + assert (E : forall R, col_nanmax (c + d) (map norm_row R) =
                            col_nanmax (c + d) (filter row_finite (map norm_row R))).
      { induction R as [|r t IH]; [reflexivity|]. cbn [map filter].
        destruct (row_finite (norm_row r)) eqn:Ef.
        - rewrite !col_nanmax_cons. now rewrite IH.
        - rewrite col_nanmax_cons. rewrite row_finite_norm in Ef.
          rewrite norm_row_nan by exact Ef. unfold col at 1.
          fold (col (c + d) (repeat None (length r))). rewrite col_repeat_None. exact IH. }
      rewrite (E rows), (E (finite_rows rows)). rewrite !finite_rows_norm.
      unfold finite_rows. now rewrite (filter_filter _ row_finite row_finite) by auto.
Qed.


(* ============================================ the fuel of the loops suffices *)
Theorem C03_fuel_suffices : forall d rows keys ps q,
  1 <= d -> Forall (wf_box d) rows -> Permutation keys (seq 0 (length rows)) ->
  length q = 2 * d -> rows <> [] ->
  let T := build d rows keys ps in
  (forall v fuel, v < tree_len T -> tree_len T <= fuel ->
     start_index_f T fuel v = start_index T v /\ stop_index_f T fuel v = stop_index T v) /\
  (forall fuel, tree_len T <= fuel ->
     ranges_loop T fuel q [0] [] [] = maybe_intersects_ranges T q).
Proof.
  intros d rows keys ps q Hd Hwf Hperm Hq Hne T. subst T.
  change (build d rows keys ps) with (BT d rows keys ps).
  pose proof (wf_len d rows Hwf) as Hlen.
  split.
  - apply (BT_index_fuel d rows keys ps Hd Hlen Hperm Hne).
  - apply (BT_ranges_fuel d rows keys ps Hd Hlen Hperm Hne Hwf q Hq).
Qed.

(* the names the comments of Model/Rtree.v refer to *)
Definition start_index_fuel_enough := C03_fuel_suffices.
Definition ranges_loop_fuel := C03_fuel_suffices.
