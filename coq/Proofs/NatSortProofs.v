(* Lemmas about Model/NatSort.v: shape of keys, the key of part.<N>.parquet,
   numeric order of part files, sorting a shuffled directory listing. *)
From Coq Require Import NArith Arith List Bool Ascii String DecimalString Decimal DecimalN DecimalPos Lia
  Sorted Permutation.
From SP Require Import Model.NatSort.
Import ListNotations.

(* ---------- small facts on strings ---------- *)

Fixpoint all_digits (s : string) : bool :=
  match s with
  | EmptyString => true
  | String c t => is_digit c && all_digits t
  end.

Lemma string_of_list_ascii_app_cons : forall l c,
  string_of_list_ascii (l ++ [c]) = (string_of_list_ascii l ++ String c EmptyString)%string.
Proof. induction l as [|a l IH]; intros c; cbn; [reflexivity | now rewrite IH]. Qed.

Lemma string_app_assoc : forall a b c : string, ((a ++ b) ++ c = a ++ (b ++ c))%string.
Proof. induction a as [|x a IH]; intros; cbn; [reflexivity | now rewrite IH]. Qed.

Lemma string_app_nil_r : forall a : string, (a ++ "")%string = a.
Proof. induction a as [|x a IH]; cbn; [reflexivity | now rewrite IH]. Qed.

(* ---------- decimal strings ---------- *)

Lemma all_digits_string_of_uint : forall d, all_digits (NilEmpty.string_of_uint d) = true.
Proof. induction d; cbn; auto. Qed.

Lemma dec_digits : forall n, all_digits (dec n) = true.
Proof. intros n. apply all_digits_string_of_uint. Qed.

Lemma to_uint_not_nil : forall n, N.to_uint n <> Nil.
Proof.
  intros [|p]; cbn; [discriminate|]. apply DecimalPos.Unsigned.to_uint_nonnil.
Qed.

Lemma dec_nonempty : forall n, dec n <> EmptyString.
Proof.
  intros n. unfold dec. pose proof (to_uint_not_nil n) as H.
  destruct (N.to_uint n); cbn; congruence.
Qed.

Lemma int_of_dec : forall n, int_of_digits (list_ascii_of_string (dec n)) = n.
Proof.
  intros n. unfold int_of_digits, dec.
  rewrite string_of_list_ascii_of_string, NilEmpty.usu.
  apply DecimalN.Unsigned.of_to.
Qed.

Lemma dec_inj : forall n m, dec n = dec m -> n = m.
Proof.
  intros n m H. rewrite <- (int_of_dec n), <- (int_of_dec m). now rewrite H.
Qed.

(* ---------- the scanner on a run of digits ---------- *)

Lemma nsk_int_run : forall ds racc c t,
  all_digits ds = true -> is_digit c = false ->
  nsk_int racc (ds ++ String c t) =
  inr (int_of_digits (List.rev racc ++ list_ascii_of_string ds)) :: nsk_str [c] t.
Proof.
  induction ds as [|d ds IH]; intros racc c t Hd Hc; cbn in *.
  - rewrite Hc, app_nil_r. reflexivity.
  - apply andb_prop in Hd as [Hd1 Hd2]. rewrite Hd1.
    rewrite IH by assumption. cbn. rewrite <- app_assoc. reflexivity.
Qed.

(* ---------- scanner state after a prefix ---------- *)

Inductive st := InStr (racc : list ascii) | InInt (racc : list ascii).

Definition cont (s : st) (x : string) : list tok :=
  match s with InStr r => nsk_str r x | InInt r => nsk_int r x end.

Lemma scan_prefix : forall p s0, exists pre s1, forall x,
  cont s0 (p ++ x) = pre ++ cont s1 x.
Proof.
  induction p as [|c p IH]; intros s0.
  - exists [], s0. reflexivity.
  - destruct s0 as [r|r]; cbn; destruct (is_digit c) eqn:E.
    + destruct (IH (InInt [c])) as (pre & s1 & H).
      exists (inl (string_of_list_ascii (List.rev r)) :: pre), s1. intros x.
      cbn. f_equal. apply H.
    + destruct (IH (InStr (c :: r))) as (pre & s1 & H). exists pre, s1. intros x. apply H.
    + destruct (IH (InInt (c :: r))) as (pre & s1 & H). exists pre, s1. intros x. apply H.
    + destruct (IH (InStr [c])) as (pre & s1 & H).
      exists (inr (int_of_digits (List.rev r)) :: pre), s1. intros x. cbn. f_equal. apply H.
Qed.

(* after a non-digit character the scanner is inside a string run *)
Lemma scan_prefix_str : forall p c s0, is_digit c = false -> exists pre r, forall x,
  cont s0 (p ++ String c x) = pre ++ nsk_str r x.
Proof.
  intros p c s0 Hc. destruct (scan_prefix p s0) as (pre & s1 & H).
  destruct s1 as [r|r].
  - exists pre, (c :: r). intros x. rewrite H. cbn. now rewrite Hc.
  - exists (pre ++ [inr (int_of_digits (List.rev r))]), [c]. intros x. rewrite H. cbn.
    rewrite Hc, <- app_assoc. reflexivity.
Qed.

(* the key of <anything>.<N>.parquet : a prefix that does not depend on N, then N *)
Lemma key_numbered : forall p, exists pre, forall n,
  natural_sort_key (p ++ "." ++ dec n ++ ".parquet") =
  pre ++ [inr n; inl ".parquet"%string].
Proof.
  intros p. destruct (scan_prefix_str p "."%char (InStr []) eq_refl) as (pre & r & H).
  exists (pre ++ [inl (string_of_list_ascii (List.rev r))]). intros n.
  unfold natural_sort_key. change (nsk_str [] ?x) with (cont (InStr []) x).
  cbn [append]. rewrite H.
  pose proof (dec_digits n) as Hd. pose proof (dec_nonempty n) as Hne.
  pose proof (int_of_dec n) as Hv.
  destruct (dec n) as [|d ds] eqn:E; [congruence|].
  cbn in Hd. apply andb_prop in Hd as [Hd1 Hd2].
  cbn [append nsk_str]. rewrite Hd1.
  rewrite nsk_int_run by (auto; reflexivity).
  cbn [List.rev app]. cbn [list_ascii_of_string] in Hv.
  change (([] ++ [d]) ++ list_ascii_of_string ds) with (d :: list_ascii_of_string ds).
  rewrite Hv, <- app_assoc. reflexivity.
Qed.

Lemma part_path_key : forall dir, exists pre, forall n,
  natural_sort_key (part_path dir n) = pre ++ [inr n; inl ".parquet"%string].
Proof.
  intros dir. destruct (key_numbered (dir ++ "/part")%string) as (pre & H).
  exists pre. intros n. unfold part_path. rewrite <- H.
  f_equal. rewrite string_app_assoc. reflexivity.
Qed.

(* ---------- comparison ---------- *)

Lemma tok_eqb_refl : forall t, tok_eqb t t = true.
Proof. intros [s|n]; cbn; [apply String.eqb_refl | apply N.eqb_refl]. Qed.

Lemma key_ltb_app_same : forall p a b, key_ltb (p ++ a) (p ++ b) = key_ltb a b.
Proof.
  induction p as [|t p IH]; intros a b; cbn; [reflexivity|].
  rewrite tok_eqb_refl. apply IH.
Qed.

Lemma key_ltb_number : forall n m t,
  key_ltb [inr n; t] [inr m; t] = Some (N.ltb n m).
Proof.
  intros n m t. cbn. destruct (N.eqb n m) eqn:E.
  - rewrite tok_eqb_refl. apply N.eqb_eq in E. subst. now rewrite N.ltb_irrefl.
  - reflexivity.
Qed.

Theorem parts_numeric : forall dir n m,
  path_ltb_opt (part_path dir n) (part_path dir m) = Some (N.ltb n m).
Proof.
  intros dir n m. unfold path_ltb_opt.
  destruct (part_path_key dir) as (pre & H). rewrite !H, key_ltb_app_same.
  apply key_ltb_number.
Qed.

Corollary parts_numeric_ltb : forall dir n m,
  path_ltb (part_path dir n) (part_path dir m) = N.ltb n m.
Proof. intros. unfold path_ltb. now rewrite parts_numeric. Qed.

(* the general statement behind it: any two names that differ only in one
   number, whatever surrounds it *)
Theorem numbered_numeric : forall p n m,
  path_ltb_opt (p ++ "." ++ dec n ++ ".parquet") (p ++ "." ++ dec m ++ ".parquet")
  = Some (N.ltb n m).
Proof.
  intros p n m. unfold path_ltb_opt.
  destruct (key_numbered p) as (pre & H). rewrite !H, key_ltb_app_same.
  apply key_ltb_number.
Qed.

(* ---------- keys never mix str and int at one position ---------- *)

Fixpoint shape_ok (expect_str : bool) (k : list tok) : bool :=
  match k with
  | [] => true
  | inl _ :: r => expect_str && shape_ok false r
  | inr _ :: r => negb expect_str && shape_ok true r
  end.

Lemma nsk_shape : forall s r,
  shape_ok true (nsk_str r s) = true /\ shape_ok false (nsk_int r s) = true.
Proof.
  induction s as [|c s IH]; intros r; cbn; [split; reflexivity|].
  destruct (is_digit c); cbn; split;
    try (apply (IH [c])); try (apply (IH (c :: r))).
Qed.

Lemma shape_no_typeerror : forall k1 k2 b,
  shape_ok b k1 = true -> shape_ok b k2 = true -> key_ltb k1 k2 <> None.
Proof.
  induction k1 as [|x k1 IH]; intros [|y k2] b H1 H2; cbn; try discriminate.
  destruct x as [s|n], y as [t|m]; cbn in *;
    destruct b; cbn in *; try discriminate.
  - destruct (String.eqb s t); [eapply IH; eauto | discriminate].
  - destruct (N.eqb n m); [eapply IH; eauto | discriminate].
Qed.

Theorem never_typeerror : forall p q, path_ltb_opt p q <> None.
Proof.
  intros p q. unfold path_ltb_opt, natural_sort_key.
  eapply shape_no_typeerror; apply nsk_shape.
Qed.

(* ---------- sorting ---------- *)

Lemma insert_by_perm : forall {A} (lt : A -> A -> bool) x l,
  Permutation (insert_by lt x l) (x :: l).
Proof.
  induction l as [|y l IH]; cbn; [reflexivity|].
  destruct (lt y x); [|reflexivity].
  rewrite IH. apply perm_swap.
Qed.

Lemma sort_by_perm : forall {A} (lt : A -> A -> bool) l, Permutation (sort_by lt l) l.
Proof.
  induction l as [|x l IH]; [reflexivity|].
  change (sort_by lt (x :: l)) with (insert_by lt x (sort_by lt l)).
  rewrite insert_by_perm. now constructor.
Qed.

Lemma insert_by_map : forall {A B} (f : A -> B) lt lt' x l,
  (forall y, In y l -> lt' (f y) (f x) = lt y x) ->
  insert_by lt' (f x) (map f l) = map f (insert_by lt x l).
Proof.
  induction l as [|y l IH]; intros H; cbn; [reflexivity|].
  rewrite (H y (or_introl eq_refl)). destruct (lt y x); cbn; [|reflexivity].
  f_equal. apply IH. intros z Hz. apply H. now right.
Qed.

Lemma sort_by_map : forall {A B} (f : A -> B) lt lt' l,
  (forall x y, In x l -> In y l -> lt' (f x) (f y) = lt x y) ->
  sort_by lt' (map f l) = map f (sort_by lt l).
Proof.
  induction l as [|x l IH]; intros H; [reflexivity|].
  change (sort_by lt' (map f (x :: l))) with (insert_by lt' (f x) (sort_by lt' (map f l))).
  change (sort_by lt (x :: l)) with (insert_by lt x (sort_by lt l)).
  rewrite IH by (intros; apply H; now right).
  apply insert_by_map. intros y Hy. apply H; [right | now left].
  eapply Permutation_in; [apply sort_by_perm | exact Hy].
Qed.

Lemma insert_sorted : forall x l,
  StronglySorted le l -> StronglySorted le (insert_by Nat.ltb x l).
Proof.
  induction l as [|y l IH]; intros Hs; cbn [insert_by].
  - constructor; constructor.
  - inversion Hs as [|? ? Hs' Hall]; subst.
    destruct (Nat.ltb y x) eqn:E.
    + apply Nat.ltb_lt in E. constructor; [now apply IH|].
      rewrite Forall_forall. intros z Hz.
      apply (Permutation_in _ (insert_by_perm Nat.ltb x l)) in Hz.
      destruct Hz as [<-|Hz]; [lia|]. rewrite Forall_forall in Hall. now apply Hall.
    + apply Nat.ltb_ge in E. constructor; [assumption|].
      constructor; [assumption|].
      rewrite Forall_forall in *. intros z Hz. specialize (Hall z Hz). lia.
Qed.

Lemma sort_sorted : forall l, StronglySorted le (sort_by Nat.ltb l).
Proof.
  induction l as [|x l IH]; [constructor|].
  change (sort_by Nat.ltb (x :: l)) with (insert_by Nat.ltb x (sort_by Nat.ltb l)).
  now apply insert_sorted.
Qed.

Lemma sorted_le_nodup_lt : forall l, StronglySorted le l -> NoDup l -> StronglySorted lt l.
Proof.
  induction 1 as [|x l Hs IH Hall]; intros Hnd; [constructor|].
  inversion Hnd; subst. constructor; [now apply IH|].
  rewrite Forall_forall in *. intros z Hz. specialize (Hall z Hz).
  assert (x <> z) by (intros ->; contradiction). lia.
Qed.

Lemma sorted_lt_unique : forall l1 l2,
  StronglySorted lt l1 -> StronglySorted lt l2 ->
  (forall x, In x l1 <-> In x l2) -> l1 = l2.
Proof.
  induction l1 as [|a l1 IH]; intros l2 H1 H2 Hin.
  - destruct l2 as [|b l2]; [reflexivity|]. exfalso. apply (proj2 (Hin b)). now left.
  - destruct l2 as [|b l2]; [exfalso; apply (proj1 (Hin a)); now left|].
    inversion H1 as [|? ? H1' A1]; inversion H2 as [|? ? H2' A2]; subst.
    rewrite Forall_forall in A1, A2.
    assert (a = b).
    { destruct (proj1 (Hin a) (or_introl eq_refl)) as [->|Ha]; [reflexivity|].
      destruct (proj2 (Hin b) (or_introl eq_refl)) as [->|Hb]; [reflexivity|].
      specialize (A1 _ Hb). specialize (A2 _ Ha). lia. }
    subst b. f_equal. apply IH; try assumption.
    intros x. split; intros Hx.
    + destruct (proj1 (Hin x) (or_intror Hx)) as [->|]; [|assumption].
      specialize (A1 _ Hx). lia.
    + destruct (proj2 (Hin x) (or_intror Hx)) as [->|]; [|assumption].
      specialize (A2 _ Hx). lia.
Qed.

Lemma seq_sorted_lt : forall n s, StronglySorted lt (seq s n).
Proof.
  induction n as [|n IH]; intros s; cbn; constructor; [apply IH|].
  rewrite Forall_forall. intros x Hx. apply in_seq in Hx. lia.
Qed.

Lemma sort_perm_seq : forall l n,
  Permutation l (seq 0 n) -> sort_by Nat.ltb l = seq 0 n.
Proof.
  intros l n Hp. apply sorted_lt_unique.
  - apply sorted_le_nodup_lt; [apply sort_sorted|].
    eapply Permutation_NoDup; [symmetry; etransitivity; [apply sort_by_perm | exact Hp]|].
    apply seq_NoDup.
  - apply seq_sorted_lt.
  - intros x. split; intros Hx.
    + eapply Permutation_in; [exact Hp|]. eapply Permutation_in; [apply sort_by_perm | exact Hx].
    + eapply Permutation_in; [symmetry; apply sort_by_perm|].
      eapply Permutation_in; [symmetry; exact Hp | exact Hx].
Qed.

(* a directory listing of part.0 .. part.(n-1) in any order comes back in
   numeric order *)
Theorem sort_parts : forall dir l n,
  Permutation l (seq 0 n) ->
  sort_pieces (map (fun i => part_path dir (N.of_nat i)) l) =
  map (fun i => part_path dir (N.of_nat i)) (seq 0 n).
Proof.
  intros dir l n Hp. unfold sort_pieces.
  rewrite (sort_by_map (fun i => part_path dir (N.of_nat i)) Nat.ltb path_ltb).
  - now rewrite (sort_perm_seq l n Hp).
  - intros x y _ _. rewrite parts_numeric_ltb.
    destruct (Nat.ltb x y) eqn:E.
    + apply Nat.ltb_lt in E. apply N.ltb_lt. lia.
    + apply Nat.ltb_ge in E. apply N.ltb_ge. lia.
Qed.

Corollary sort_parts_nth : forall dir l n j d,
  Permutation l (seq 0 n) -> j < n ->
  nth j (sort_pieces (map (fun i => part_path dir (N.of_nat i)) l)) d =
  part_path dir (N.of_nat j).
Proof.
  intros dir l n j d Hp Hj. rewrite (sort_parts dir l n Hp).
  set (f := fun i => part_path dir (N.of_nat i)).
  rewrite (nth_indep _ d (f 0)) by (now rewrite map_length, seq_length).
  rewrite (map_nth f), seq_nth by assumption. reflexivity.
Qed.

(* textual order would not do: "part.10" sorts before "part.2" as plain strings *)
Lemma textual_order_wrong :
  String.ltb (part_path "d" 10) (part_path "d" 2) = true /\
  path_ltb (part_path "d" 10) (part_path "d" 2) = false.
Proof. split; vm_compute; reflexivity. Qed.
