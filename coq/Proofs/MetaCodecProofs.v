(* Lemmas about Model/MetaCodec.v: the JSON round trip of partition bounds,
   the bounds= filter, re-indexing. *)
From Coq Require Import ZArith NArith Arith List Bool Ascii String DecimalString Decimal DecimalN
  Lia ZifyBool Sorted Permutation.
From SP Require Import Model.Num Model.Arrow Model.Bounds Model.NatSort Model.MetaCodec
  Spec.ParquetSpec Proofs.NatSortProofs.
Import ListNotations.
Local Open Scope nat_scope.

(* ================= the codec ================= *)

Definition keys (n : nat) : list string := map (fun i => dec (N.of_nat i)) (seq 0 n).

Lemma keys_length : forall n, List.length (keys n) = n.
Proof. intros. unfold keys. now rewrite map_length, seq_length. Qed.

Lemma keys_NoDup : forall n, NoDup (keys n).
Proof.
  intros n. unfold keys. apply FinFun.Injective_map_NoDup; [|apply seq_NoDup].
  intros i j H. apply dec_inj in H. lia.
Qed.

Lemma map_fst_combine : forall {A B} (l1 : list A) (l2 : list B),
  List.length l1 = List.length l2 -> map fst (combine l1 l2) = l1.
Proof.
  induction l1 as [|a l1 IH]; intros [|b l2] H; cbn in *; try reflexivity; try discriminate.
  f_equal. apply IH. lia.
Qed.

Lemma map_snd_combine : forall {A B} (l1 : list A) (l2 : list B),
  List.length l1 = List.length l2 -> map snd (combine l1 l2) = l2.
Proof.
  induction l1 as [|a l1 IH]; intros [|b l2] H; cbn in *; try reflexivity; try discriminate.
  f_equal. apply IH. lia.
Qed.

Lemma dump_col_keys : forall f bs, map fst (dump_col f bs) = keys (List.length bs).
Proof.
  intros. unfold dump_col. apply map_fst_combine.
  now rewrite map_length, keys_length.
Qed.

(* ---- uniq ---- *)

Lemma existsb_eqb_In : forall x l, existsb (String.eqb x) l = true <-> In x l.
Proof.
  intros x l. rewrite existsb_exists. split.
  - intros (y & Hy & E). apply String.eqb_eq in E. now subst.
  - intros H. exists x. split; [assumption | apply String.eqb_refl].
Qed.

Lemma uniq_absorb : forall l seen, (forall x, In x l -> In x seen) -> uniq seen l = [].
Proof.
  induction l as [|x l IH]; intros seen H; cbn; [reflexivity|].
  assert (Hx : existsb (String.eqb x) seen = true)
    by (apply existsb_eqb_In, H; now left).
  rewrite Hx. apply IH. intros y Hy. apply H. now right.
Qed.

(* [uniq] depends on [seen] only through membership *)
Lemma uniq_ext : forall l s1 s2, (forall x, In x s1 <-> In x s2) -> uniq s1 l = uniq s2 l.
Proof.
  induction l as [|x l IH]; intros s1 s2 H; cbn; [reflexivity|].
  assert (E : existsb (String.eqb x) s1 = existsb (String.eqb x) s2).
  { destruct (existsb (String.eqb x) s1) eqn:E1, (existsb (String.eqb x) s2) eqn:E2;
      try reflexivity.
    - apply existsb_eqb_In, H, existsb_eqb_In in E1. congruence.
    - apply existsb_eqb_In, H, existsb_eqb_In in E2. congruence. }
  rewrite E. destruct (existsb (String.eqb x) s2).
  - now apply IH.
  - f_equal. apply IH. intros y. cbn. now rewrite H.
Qed.

(* a duplicate-free list of unseen labels, followed by labels all taken from
   it, is its own union *)
Lemma uniq_nodup_then_known : forall l seen rest,
  NoDup l -> (forall x, In x l -> ~ In x seen) ->
  (forall x, In x rest -> In x l \/ In x seen) ->
  uniq seen (l ++ rest) = l.
Proof.
  induction l as [|x l IH]; intros seen rest Hnd Hfresh Hrest.
  - cbn. apply uniq_absorb. intros y Hy. destruct (Hrest y Hy) as [[]|]; assumption.
  - cbn. inversion Hnd as [|? ? Hx Hnd']; subst.
    destruct (existsb (String.eqb x) seen) eqn:E.
    + apply existsb_eqb_In in E. exfalso. apply (Hfresh x); [now left | assumption].
    + f_equal. apply IH; [assumption| |].
      * intros y Hy [<-|Hs]; [contradiction|]. apply (Hfresh y); [now right | assumption].
      * intros y Hy. destruct (Hrest y Hy) as [[<-|Hl]|Hs].
        -- right. now left.
        -- now left.
        -- right. now right.
Qed.

Lemma uniq_four : forall ks, NoDup ks -> uniq [] (ks ++ ks ++ ks ++ ks) = ks.
Proof.
  intros ks H. apply uniq_nodup_then_known; [assumption | intros x _ [] |].
  intros x Hx. left. rewrite !in_app_iff in Hx. tauto.
Qed.

(* ---- lookup ---- *)

Lemma lookup_map_combine : forall ks vs,
  NoDup ks -> List.length ks = List.length vs ->
  map (fun k => lookup k (combine ks vs)) ks = vs.
Proof.
  induction ks as [|k ks IH]; intros [|v vs] Hnd Hlen; cbn in *; try reflexivity; try discriminate.
  inversion Hnd as [|? ? Hk Hnd']; subst.
  rewrite String.eqb_refl. f_equal.
  transitivity (map (fun k0 => lookup k0 (combine ks vs)) ks); [|apply IH; [assumption | lia]].
  apply map_ext_in. intros k' Hk'.
  destruct (String.eqb k' k) eqn:E; [|reflexivity].
  apply String.eqb_eq in E. subst. contradiction.
Qed.

Lemma map4 : forall {K} (g0 g1 g2 g3 : K -> num) (ks : list K) (bs : list bbox),
  map g0 ks = map bx0 bs -> map g1 ks = map by0 bs ->
  map g2 ks = map bx1 bs -> map g3 ks = map by1 bs ->
  map (fun k => (g0 k, g1 k, g2 k, g3 k)) ks = bs.
Proof.
  induction ks as [|k ks IH]; intros [|b bs] H0 H1 H2 H3; cbn in *; try reflexivity;
    try discriminate.
  injection H0 as E0 H0. injection H1 as E1 H1. injection H2 as E2 H2. injection H3 as E3 H3.
  f_equal; [|now apply IH].
  destruct b as [[[x0 y0] x1] y1]. cbn in *. congruence.
Qed.

(* ---- parsing the labels ---- *)

Lemma parse_int_dec : forall n, parse_int (dec n) = Some n.
Proof.
  intros n. unfold parse_int. pose proof (dec_nonempty n) as Hne.
  destruct (dec n) eqn:E; [congruence|]. rewrite <- E. unfold dec.
  rewrite NilEmpty.usu. cbn. f_equal. apply DecimalN.Unsigned.of_to.
Qed.

Lemma parse_all_keys : forall n s,
  parse_all (map (fun i => dec (N.of_nat i)) (seq s n)) = Some (map N.of_nat (seq s n)).
Proof.
  induction n as [|n IH]; intros s; cbn; [reflexivity|].
  rewrite parse_int_dec, IH. reflexivity.
Qed.

(* ---- sorting an already sorted frame ---- *)

Lemma sort_by_sorted : forall {A} (lt : A -> A -> bool) l,
  StronglySorted (fun a b => lt b a = false) l -> sort_by lt l = l.
Proof.
  induction 1 as [|x l Hs IH Hall]; [reflexivity|].
  change (sort_by lt (x :: l)) with (insert_by lt x (sort_by lt l)).
  rewrite IH. destruct l as [|y l]; [reflexivity|]. cbn.
  inversion Hall as [|? ? Hy _]; subst. now rewrite Hy.
Qed.

Lemma combine_seq_sorted : forall {A} n s (rows : list A),
  StronglySorted (fun a b => N.ltb (fst b) (fst a) = false)
                 (combine (map N.of_nat (seq s n)) rows).
Proof.
  induction n as [|n IH]; intros s rows; cbn; [constructor|].
  destruct rows as [|r rows]; [constructor|].
  constructor; [apply IH|].
  rewrite Forall_forall. intros [k v] Hin. apply in_combine_l in Hin.
  apply in_map_iff in Hin as (i & <- & Hi). apply in_seq in Hi. cbn.
  apply N.ltb_ge. lia.
Qed.

(* ---- the round trip ---- *)

Theorem load_dump : forall bs, load (dump bs) = Some bs.
Proof.
  intros bs. unfold load, dump. cbn [jx0 jy0 jx1 jy1].
  rewrite !dump_col_keys.
  set (n := List.length bs).
  rewrite (uniq_four (keys n) (keys_NoDup n)).
  unfold keys at 1. rewrite parse_all_keys.
  assert (Hrows : map (fun k => (lookup k (dump_col bx0 bs), lookup k (dump_col by0 bs),
                                  lookup k (dump_col bx1 bs), lookup k (dump_col by1 bs)))
                      (keys n) = bs).
  { apply map4; unfold dump_col; fold (keys n);
      apply lookup_map_combine; try apply keys_NoDup;
      now rewrite keys_length, map_length. }
  rewrite Hrows.
  rewrite sort_by_sorted by apply combine_seq_sorted.
  rewrite map_snd_combine by (now rewrite map_length, seq_length).
  reflexivity.
Qed.

(* the document order of the keys does not matter either: any permutation of
   the entries of the four objects loads to the same frame *)

(* ================= the bounds= filter ================= *)

Lemma keep_overlapsb : forall q b, keep q b = overlapsb q b.
Proof.
  intros [[[ax ay] cx] cy] [[[x0 y0] x1] y1].
  unfold keep, norm_box, overlapsb, num_gtb, num_geb, num_leb.
  destruct ax as [ax|], ay as [ay|], cx as [cx|], cy as [cy|],
           x0 as [x0|], y0 as [y0|], x1 as [x1|], y1 as [y1|]; cbn;
    repeat match goal with |- context [if ?c then _ else _] => destruct c eqn:? end;
    cbn; try reflexivity; try lia;
    repeat rewrite ?andb_false_r, ?andb_false_l; try reflexivity; try lia.
Qed.

Lemma overlapsb_iff : forall q b, overlapsb q b = true <-> overlaps q b.
Proof.
  intros [[[ax ay] cx] cy] [[[x0 y0] x1] y1]. unfold overlapsb, overlaps. split.
  - destruct ax as [ax|], ay as [ay|], cx as [cx|], cy as [cy|],
             x0 as [x0|], y0 as [y0|], x1 as [x1|], y1 as [y1|]; try discriminate.
    intros H. exists ax, ay, cx, cy, x0, y0, x1, y1.
    repeat split; try reflexivity; lia.
  - intros (ax' & ay' & cx' & cy' & x0' & y0' & x1' & y1' & Eq & Eb & H).
    injection Eq as -> -> -> ->. injection Eb as -> -> -> ->. lia.
Qed.

Theorem keep_iff : forall q b, keep q b = true <-> overlaps q b.
Proof. intros. rewrite keep_overlapsb. apply overlapsb_iff. Qed.

(* ---- select ---- *)

Lemma select_map : forall {A B} (f : A -> B) inds l,
  select inds (map f l) = map f (select inds l).
Proof.
  induction inds as [|[] inds IH]; intros [|x l]; cbn; try reflexivity.
  - f_equal. apply IH.
  - apply IH.
Qed.

Lemma select_seq : forall inds s,
  select inds (seq s (List.length inds)) =
  filter (fun j => nth (j - s) inds false) (seq s (List.length inds)).
Proof.
  induction inds as [|b inds IH]; intros s; [reflexivity|].
  change (List.length (b :: inds)) with (S (List.length inds)).
  change (seq s (S (List.length inds))) with (s :: seq (S s) (List.length inds)).
  assert (E : filter (fun j => nth (j - s) (b :: inds) false) (seq (S s) (List.length inds))
              = filter (fun j => nth (j - S s) inds false) (seq (S s) (List.length inds))).
  { apply filter_ext_in. intros j Hj. apply in_seq in Hj.
    replace (j - s) with (S (j - S s)) by lia. reflexivity. }
  cbn [filter]. rewrite E, <- IH, Nat.sub_diag.
  destruct b; reflexivity.
Qed.

Lemma select_positions : forall {A} (d : A) inds l,
  List.length inds = List.length l ->
  select inds l =
  at_positions d l (filter (fun j => nth j inds false) (seq 0 (List.length l))).
Proof.
  intros A d inds l Hlen.
  assert (El : l = map (fun j => nth j l d) (seq 0 (List.length l))).
  { clear. induction l as [|x l IH]; [reflexivity|]. cbn [List.length seq map nth].
    f_equal. rewrite <- seq_shift, map_map. exact IH. }
  rewrite El at 1. rewrite select_map. unfold at_positions. f_equal.
  rewrite <- Hlen, select_seq. apply filter_ext. intros j. now rewrite Nat.sub_0_r.
Qed.

(* ---- exactness and re-indexing ---- *)

Lemma forallb_lengths : forall (pb : colbounds) n,
  forallb (fun '(_, r) => Nat.eqb (List.length r) n) pb = true ->
  forall c r, In (c, r) pb -> List.length r = n.
Proof.
  intros pb n H c r Hin. rewrite forallb_forall in H. specialize (H _ Hin). cbn in H.
  now apply Nat.eqb_eq.
Qed.

Theorem prune_exact : forall {P} (d : P) q active pb (pieces : list P) rows pb' kept,
  cb_get active pb = Some rows ->
  prune (Some q) active pb pieces = Some (pb', kept) ->
  List.length rows = List.length pieces /\
  kept = at_positions d pieces (overlapping q rows) /\
  pb' = map (fun '(c, r) => (c, at_positions nanbox r (overlapping q rows))) pb.
Proof.
  intros P d q active pb pieces rows pb' kept Hget Hp. unfold prune in Hp. rewrite Hget in Hp.
  destruct (Nat.eqb (List.length rows) (List.length pieces)) eqn:El; cbn in Hp; [|discriminate].
  apply Nat.eqb_eq in El.
  destruct (forallb (fun '(_, r) => Nat.eqb (List.length r) (List.length rows)) pb) eqn:Ef;
    cbn in Hp; [|discriminate].
  injection Hp as <- <-.
  assert (Hov : forall n, n = List.length rows ->
            filter (fun j => nth j (map (keep q) rows) false) (seq 0 n) = overlapping q rows).
  { intros n ->. unfold overlapping. apply filter_ext_in. intros j Hj. apply in_seq in Hj.
    rewrite <- keep_overlapsb.
    assert (Hn : keep q nanbox = false).
    { destruct q as [[[a b] c] e]. unfold keep, norm_box.
      destruct (num_gtb a c), (num_gtb b e); reflexivity. }
    rewrite <- Hn at 1. now rewrite map_nth. }
  split; [assumption|]. split.
  - rewrite (select_positions d) by (now rewrite map_length).
    f_equal. apply Hov. lia.
  - apply map_ext_in. intros [c r] Hin.
    pose proof (forallb_lengths pb _ Ef c r Hin) as Hr.
    rewrite (select_positions nanbox) by (now rewrite map_length).
    f_equal. f_equal. apply Hov. assumption.
Qed.

Corollary prune_reindexed : forall {P} (d : P) q active pb (pieces : list P) rows pb' kept c r,
  cb_get active pb = Some rows ->
  prune (Some q) active pb pieces = Some (pb', kept) ->
  In (c, r) pb ->
  In (c, at_positions nanbox r (overlapping q rows)) pb'.
Proof.
  intros P d q active pb pieces rows pb' kept c r Hg Hp Hin.
  destruct (prune_exact d q active pb pieces rows pb' kept Hg Hp) as (_ & _ & ->).
  apply (in_map (fun '(c, r) => (c, at_positions nanbox r (overlapping q rows))) pb (c, r) Hin).
Qed.

(* without a box, or when the active column has no recorded bounds, nothing is filtered *)
Lemma prune_none : forall {P} active pb (pieces : list P),
  prune None active pb pieces = Some (pb, pieces).
Proof. reflexivity. Qed.

(* what is attached to the result: the re-indexed bounds when some partition is
   kept, nothing when none is (the result is then one empty stand-in partition) *)
Lemma expose_some : forall {P} (pb : colbounds) (kept : list P),
  pb <> [] -> kept <> [] -> expose pb kept = pb.
Proof. intros P [|x pb] [|k kept] H1 H2; try congruence; reflexivity. Qed.

Lemma expose_none : forall {P} (pb : colbounds), expose pb (@nil P) = [].
Proof. intros P [|x pb]; reflexivity. Qed.
