(* C05, the merge algebra: whatever implementation of merge satisfies the
   relational contract, the three merge chains of _sjoin_pandas_pandas turn a
   pair table into the rows of SjoinSpec.expected_rows (as a multiset). *)
From Coq Require Import List Bool Arith Lia Permutation Morphisms.
From SP Require Import Model.Num Model.Arrow Model.Bounds Model.PointKernels Model.PointShape
                       Model.Sjoin Spec.SjoinSpec.
Import ListNotations.
Local Open Scope nat_scope.

(* ------------------------------------------------------------------ *)
(* list lemmas *)

Lemma flat_map_map_inner : forall A B C (f : B -> list C) (g : A -> B) l,
  flat_map f (map g l) = flat_map (fun x => f (g x)) l.
Proof. induction l as [|x t IH]; cbn; [reflexivity|]. now rewrite IH. Qed.

Lemma flat_map_single : forall A B (h : A -> B) l, flat_map (fun x => [h x]) l = map h l.
Proof. induction l as [|x t IH]; cbn; [reflexivity|]. now rewrite IH. Qed.

Lemma flat_map_map_outer : forall A B C (G : B -> C) (F : A -> list B) L,
  flat_map (fun k => map G (F k)) L = map G (flat_map F L).
Proof. induction L as [|x t IH]; cbn; [reflexivity|]. now rewrite IH, map_app. Qed.

Lemma flat_map_ext_in : forall A B (f g : A -> list B) l,
  (forall x, In x l -> f x = g x) -> flat_map f l = flat_map g l.
Proof.
  induction l as [|x t IH]; intros H; cbn; [reflexivity|].
  rewrite H by (left; reflexivity). rewrite IH; [reflexivity|].
  intros y Hy. apply H. right. exact Hy.
Qed.

Lemma filter_all : forall A (f : A -> bool) l, (forall x, In x l -> f x = true) -> filter f l = l.
Proof.
  induction l as [|x t IH]; intros H; cbn; [reflexivity|].
  rewrite H by (left; reflexivity). f_equal. apply IH. intros y Hy. apply H. right. exact Hy.
Qed.

Lemma filter_none : forall A (f : A -> bool) l, (forall x, In x l -> f x = false) -> filter f l = [].
Proof.
  induction l as [|x t IH]; intros H; cbn; [reflexivity|].
  rewrite H by (left; reflexivity). apply IH. intros y Hy. apply H. right. exact Hy.
Qed.

Definition is_nil {A} (l : list A) : bool := match l with [] => true | _ => false end.

Lemma is_nil_filter : forall A (f : A -> bool) l, is_nil (filter f l) = negb (existsb f l).
Proof.
  induction l as [|x t IH]; cbn; [reflexivity|].
  destruct (f x); cbn; [reflexivity|exact IH].
Qed.

Lemma existsb_ext_all : forall A (f g : A -> bool) l,
  (forall x, f x = g x) -> existsb f l = existsb g l.
Proof. induction l as [|x t IH]; intros H; cbn; [reflexivity|]. now rewrite H, IH. Qed.

Lemma is_nil_map : forall A B (g : A -> B) l, is_nil (map g l) = is_nil l.
Proof. destruct l; reflexivity. Qed.

Lemma filter_disj_app : forall A (f g : A -> bool) l,
  (forall x, In x l -> f x && g x = false) ->
  Permutation (filter f l ++ filter g l) (filter (fun x => f x || g x) l).
Proof.
  induction l as [|x t IH]; intros H; cbn; [constructor|].
  assert (Ht : forall y, In y t -> f y && g y = false) by (intros y Hy; apply H; right; exact Hy).
  specialize (IH Ht). pose proof (H x (or_introl eq_refl)) as Hx.
  destruct (f x) eqn:Ef, (g x) eqn:Eg; cbn in *; try discriminate.
  - apply perm_skip. exact IH.
  - apply Permutation_sym, Permutation_cons_app, Permutation_sym. exact IH.
  - exact IH.
Qed.

(* grouping a list by an integer key enumerates it *)
Lemma group_by_key_lt : forall A (key : A -> nat) ps n,
  Permutation (flat_map (fun k => filter (fun p => Nat.eqb (key p) k) ps) (seq 0 n))
              (filter (fun p => key p <? n) ps).
Proof.
  induction n as [|n IH].
  - cbn. rewrite filter_none; [constructor|]. intros x _. reflexivity.
  - rewrite seq_S, flat_map_app. cbn [flat_map Nat.add]. rewrite app_nil_r.
    eapply Permutation_trans; [apply Permutation_app_tail; exact IH|].
    eapply Permutation_trans.
    + apply filter_disj_app. intros x _.
      destruct (Nat.ltb_spec (key x) n), (Nat.eqb_spec (key x) n); cbn; try reflexivity; lia.
    + erewrite filter_ext; [apply Permutation_refl|].
      intros x.
      destruct (Nat.ltb_spec (key x) n), (Nat.eqb_spec (key x) n), (Nat.ltb_spec (key x) (S n));
        try reflexivity; lia.
Qed.

Lemma group_by_key : forall A (key : A -> nat) ps n,
  (forall p, In p ps -> key p < n) ->
  Permutation (flat_map (fun k => filter (fun p => Nat.eqb (key p) k) ps) (seq 0 n)) ps.
Proof.
  intros A key ps n H. eapply Permutation_trans; [apply group_by_key_lt|].
  rewrite filter_all; [apply Permutation_refl|].
  intros x Hx. apply Nat.ltb_lt. apply H. exact Hx.
Qed.

(* ... carrying a row built from the key and the element *)
Lemma group_rows : forall A C (key : A -> nat) (g : nat -> A -> C) ps n,
  (forall p, In p ps -> key p < n) ->
  Permutation
    (flat_map (fun k => map (g k) (filter (fun p => Nat.eqb (key p) k) ps)) (seq 0 n))
    (map (fun p => g (key p) p) ps).
Proof.
  intros A C key g ps n H.
  rewrite (flat_map_ext_in _ _ _
             (fun k => map (fun p => g (key p) p) (filter (fun p => Nat.eqb (key p) k) ps))).
  - rewrite flat_map_map_outer. apply Permutation_map. apply group_by_key. exact H.
  - intros k _. apply map_ext_in. intros p Hp. apply filter_In in Hp. destruct Hp as [_ Hp].
    apply Nat.eqb_eq in Hp. now rewrite Hp.
Qed.

Lemma filter_eq_seq : forall k n s,
  filter (fun r => Nat.eqb k r) (seq s n) = if (s <=? k) && (k <? s + n) then [k] else [].
Proof.
  induction n as [|n IH]; intros s.
  - cbn [seq filter]. destruct (Nat.leb_spec s k), (Nat.ltb_spec k (s + 0)); try reflexivity; lia.
  - cbn [seq filter]. rewrite IH.
    destruct (Nat.eqb_spec k s) as [E|E].
    + subst s.
      destruct (Nat.leb_spec (S k) k), (Nat.ltb_spec k (S k + n)), (Nat.leb_spec k k),
               (Nat.ltb_spec k (k + S n)); try reflexivity; lia.
    + destruct (Nat.leb_spec (S s) k), (Nat.ltb_spec k (S s + n)), (Nat.leb_spec s k),
               (Nat.ltb_spec k (s + S n)); try reflexivity; lia.
Qed.

Lemma key_filter_seq : forall k n, k < n -> filter (fun r => Nat.eqb k r) (seq 0 n) = [k].
Proof.
  intros k n H. rewrite filter_eq_seq.
  destruct (Nat.leb_spec 0 k), (Nat.ltb_spec k (0 + n)); try reflexivity; lia.
Qed.

Lemma key_filter_seq' : forall k n, k < n -> filter (fun r => Nat.eqb r k) (seq 0 n) = [k].
Proof.
  intros k n H. rewrite <- (key_filter_seq k n H). apply filter_ext.
  intros r. apply Nat.eqb_sym.
Qed.

(* the rows with a default for an empty group *)
Lemma flat_map_default_split : forall A B (F : A -> list B) (d : A -> B) L,
  Permutation (flat_map (fun x => match F x with [] => [d x] | m => m end) L)
              (flat_map F L ++ map d (filter (fun x => is_nil (F x)) L)).
Proof.
  induction L as [|x t IH]; cbn; [constructor|].
  destruct (F x) as [|b m] eqn:E; cbn.
  - apply Permutation_cons_app. exact IH.
  - apply perm_skip. rewrite <- app_assoc. apply Permutation_app_head. exact IH.
Qed.

(* ------------------------------------------------------------------ *)
(* congruence of the relational join in the argument the chains permute *)

Lemma merge_rel_perm_la : forall A B (ka : A -> option nat) (kb : B -> option nat) h la la' lb,
  h <> Right -> Permutation la la' ->
  Permutation (merge_rel ka kb h la lb) (merge_rel ka kb h la' lb).
Proof.
  intros A B ka kb h la la' lb Hh HP.
  destruct h; [| |contradiction]; unfold merge_rel; apply Permutation_flat_map; exact HP.
Qed.

Lemma merge_rel_perm_lb : forall A B (ka : A -> option nat) (kb : B -> option nat) la lb lb',
  Permutation lb lb' ->
  Permutation (merge_rel ka kb Right la lb) (merge_rel ka kb Right la lb').
Proof.
  intros A B ka kb la lb lb' HP. unfold merge_rel. apply Permutation_flat_map. exact HP.
Qed.

(* any merge that satisfies the contract gives the rows of the relational one *)
Lemma join_rows_contract : forall mrg h nl nr ps,
  merge_contract mrg ->
  Permutation (join_rows mrg h nl nr ps) (join_rows merge_rel_op h nl nr ps).
Proof.
  intros mrg h nl nr ps HC. unfold join_rows, merge_rel_op.
  destruct h; apply Permutation_map.
  - eapply Permutation_trans; [apply HC|]. apply merge_rel_perm_la; [discriminate|]. apply HC.
  - eapply Permutation_trans; [apply HC|]. apply merge_rel_perm_la; [discriminate|]. apply HC.
  - eapply Permutation_trans; [apply HC|]. apply merge_rel_perm_lb. apply HC.
Qed.

(* ------------------------------------------------------------------ *)
(* the chains on the relational join *)

Section Chains.
  Variables nl nr : nat.
  Variable ps : list (nat * nat).
  Hypothesis in_range : forall p, In p ps -> fst p < nl /\ snd p < nr.

  Let G (p : nat * nat) : option nat * option (nat * nat) := (Some (fst p), Some p).

  (* left_df.merge(result, left_index=True, right_index=True), matched part *)
  Lemma first_merge_matched :
    Permutation
      (flat_map (fun l => map (fun p => (Some l, Some p))
                              (filter (key_match (fun l : nat => Some l)
                                                 (fun p : nat * nat => Some (fst p)) l) ps))
                (seq 0 nl))
      (map G ps).
  Proof.
    rewrite (flat_map_ext_in _ _ _
               (fun l => map (fun p => (Some l, Some p))
                             (filter (fun p : nat * nat => Nat.eqb (fst p) l) ps))).
    - apply (group_rows (nat * nat) _ fst (fun l p => (Some l, Some p))).
      intros p Hp. apply in_range. exact Hp.
    - intros l _. f_equal. apply filter_ext. intros p. unfold key_match. apply Nat.eqb_sym.
  Qed.

  Lemma rows_inner_rel :
    Permutation (join_rows merge_rel_op Inner nl nr ps) (map both ps).
  Proof.
    unfold join_rows, merge_rel_op.
    eapply Permutation_trans.
    - apply Permutation_map. apply merge_rel_perm_la; [discriminate|].
      unfold merge_rel. exact first_merge_matched.
    - unfold merge_rel. rewrite flat_map_map_inner.
      rewrite (flat_map_ext_in _ _ _ (fun p => [(Some (G p), Some (snd p))])).
      + rewrite flat_map_single, map_map. apply Permutation_refl.
      + intros p Hp. unfold key_match, G. cbn [snd fst].
        rewrite key_filter_seq by (apply in_range; exact Hp). reflexivity.
  Qed.

  Lemma unmatched_left_eq :
    filter (fun l => is_nil (map (fun p : nat * nat => (Some l, Some p))
                                 (filter (key_match (fun l : nat => Some l)
                                                    (fun p : nat * nat => Some (fst p)) l) ps)))
           (seq 0 nl)
    = unmatched_left nl ps.
  Proof.
    unfold unmatched_left. apply filter_ext. intros l.
    rewrite is_nil_map, is_nil_filter. f_equal.
    apply existsb_ext_all. intros p. unfold key_match. apply Nat.eqb_sym.
  Qed.

  Lemma rows_left_rel :
    Permutation (join_rows merge_rel_op Left nl nr ps) (expected_rows Left nl nr ps).
  Proof.
    unfold join_rows, merge_rel_op, expected_rows.
    eapply Permutation_trans.
    - apply Permutation_map. apply merge_rel_perm_la; [discriminate|].
      unfold merge_rel.
      (* first merge: matched rows ++ one row per unmatched left row *)
      rewrite (flat_map_ext _ (fun l =>
                 match map (fun p => (Some l, Some p))
                           (filter (key_match (fun l : nat => Some l)
                                              (fun p : nat * nat => Some (fst p)) l) ps) with
                 | [] => [(Some l, None)]
                 | m => m
                 end)).
      + eapply Permutation_trans; [apply flat_map_default_split|].
        cbv beta. rewrite unmatched_left_eq.
        apply Permutation_app_tail. exact first_merge_matched.
      + intros l. destruct (filter _ ps); reflexivity.
    - unfold merge_rel. rewrite flat_map_app, map_app, !flat_map_map_inner.
      apply Permutation_app.
      + rewrite (flat_map_ext_in _ _ _ (fun p => [(Some (G p), Some (snd p))])).
        * rewrite flat_map_single, map_map. apply Permutation_refl.
        * intros p Hp. unfold key_match, G. cbn [snd fst].
          rewrite key_filter_seq by (apply in_range; exact Hp). reflexivity.
      + rewrite (flat_map_ext _ (fun l => [(Some (Some l, @None (nat * nat)), @None nat)])).
        * rewrite flat_map_single, map_map. apply Permutation_refl.
        * intros l. unfold key_match. cbn [snd]. rewrite filter_none; [reflexivity|].
          intros; reflexivity.
  Qed.

  Let GR (p : nat * nat) : option (nat * nat) * option nat := (Some p, Some (snd p)).

  Lemma first_merge_right_matched :
    Permutation
      (flat_map (fun r => map (fun p => (Some p, Some r))
                              (filter (fun p => key_match (fun p : nat * nat => Some (snd p))
                                                          (fun r : nat => Some r) p r) ps))
                (seq 0 nr))
      (map GR ps).
  Proof.
    apply (group_rows (nat * nat) _ snd (fun r p => (Some p, Some r))).
    intros p Hp. apply in_range. exact Hp.
  Qed.

  Lemma unmatched_right_eq :
    filter (fun r => is_nil (map (fun p : nat * nat => (Some p, Some r))
                                 (filter (fun p => key_match (fun p : nat * nat => Some (snd p))
                                                             (fun r : nat => Some r) p r) ps)))
           (seq 0 nr)
    = unmatched_right nr ps.
  Proof.
    unfold unmatched_right. apply filter_ext. intros r.
    rewrite is_nil_map, is_nil_filter. reflexivity.
  Qed.

  Lemma rows_right_rel :
    Permutation (join_rows merge_rel_op Right nl nr ps) (expected_rows Right nl nr ps).
  Proof.
    unfold join_rows, merge_rel_op, expected_rows.
    eapply Permutation_trans.
    - apply Permutation_map. apply merge_rel_perm_lb.
      unfold merge_rel.
      rewrite (flat_map_ext _ (fun r =>
                 match map (fun p => (Some p, Some r))
                           (filter (fun p => key_match (fun p : nat * nat => Some (snd p))
                                                       (fun r : nat => Some r) p r) ps) with
                 | [] => [(None, Some r)]
                 | m => m
                 end)).
      + eapply Permutation_trans; [apply flat_map_default_split|].
        cbv beta. rewrite unmatched_right_eq.
        apply Permutation_app_tail. exact first_merge_right_matched.
      + intros r. destruct (filter _ ps); reflexivity.
    - unfold merge_rel. rewrite flat_map_app, map_app, !flat_map_map_inner.
      apply Permutation_app.
      + rewrite (flat_map_ext_in _ _ _ (fun p => [(Some (fst p), Some (GR p))])).
        * rewrite flat_map_single, map_map. apply Permutation_refl.
        * intros p Hp. unfold key_match, GR. cbn [snd fst].
          rewrite key_filter_seq' by (apply in_range; exact Hp). reflexivity.
      + rewrite (flat_map_ext _ (fun r => [(@None nat, Some (@None (nat * nat), Some r))])).
        * rewrite flat_map_single, map_map. apply Permutation_refl.
        * intros r. unfold key_match. cbn [fst]. rewrite filter_none; [reflexivity|].
          intros; reflexivity.
  Qed.
End Chains.

(* ------------------------------------------------------------------ *)
(* the rows of every [how], for every merge satisfying the contract *)

Theorem join_rows_expected : forall mrg h nl nr ps,
  merge_contract mrg ->
  (forall p, In p ps -> fst p < nl /\ snd p < nr) ->
  Permutation (join_rows mrg h nl nr ps) (expected_rows h nl nr ps).
Proof.
  intros mrg h nl nr ps HC HR.
  eapply Permutation_trans; [apply join_rows_contract; exact HC|].
  destruct h.
  - apply rows_inner_rel. exact HR.
  - apply rows_left_rel. exact HR.
  - apply rows_right_rel. exact HR.
Qed.

(* the relational join itself satisfies the contract (non-vacuity) *)
Lemma merge_rel_contract : merge_contract merge_rel_op.
Proof. intros A B ka kb h la lb. apply Permutation_refl. Qed.

(* ------------------------------------------------------------------ *)
(* what expected_rows says, row by row *)

Lemma existsb_fst : forall (ps : list (nat * nat)) l,
  existsb (fun p => Nat.eqb (fst p) l) ps = true <-> exists r, In (l, r) ps.
Proof.
  intros ps l. rewrite existsb_exists. split.
  - intros [[l' r] [Hin He]]. cbn in He. apply Nat.eqb_eq in He. subst. eauto.
  - intros [r Hin]. exists (l, r). split; [exact Hin|]. cbn. apply Nat.eqb_refl.
Qed.

Lemma existsb_snd : forall (ps : list (nat * nat)) r,
  existsb (fun p => Nat.eqb (snd p) r) ps = true <-> exists l, In (l, r) ps.
Proof.
  intros ps r. rewrite existsb_exists. split.
  - intros [[l r'] [Hin He]]. cbn in He. apply Nat.eqb_eq in He. subst. eauto.
  - intros [l Hin]. exists (l, r). split; [exact Hin|]. cbn. apply Nat.eqb_refl.
Qed.

Lemma in_unmatched_left : forall nl ps l,
  In l (unmatched_left nl ps) <-> l < nl /\ forall r, ~ In (l, r) ps.
Proof.
  intros nl ps l. unfold unmatched_left. rewrite filter_In, in_seq, negb_true_iff.
  rewrite <- not_true_iff_false, existsb_fst. split.
  - intros [H1 H2]. split; [lia|]. intros r Hr. apply H2. eauto.
  - intros [H1 H2]. split; [lia|]. intros [r Hr]. exact (H2 r Hr).
Qed.

Lemma in_unmatched_right : forall nr ps r,
  In r (unmatched_right nr ps) <-> r < nr /\ forall l, ~ In (l, r) ps.
Proof.
  intros nr ps r. unfold unmatched_right. rewrite filter_In, in_seq, negb_true_iff.
  rewrite <- not_true_iff_false, existsb_snd. split.
  - intros [H1 H2]. split; [lia|]. intros l Hl. apply H2. eauto.
  - intros [H1 H2]. split; [lia|]. intros [l Hl]. exact (H2 l Hl).
Qed.

Lemma both_inj : forall p q, both p = both q -> p = q.
Proof. intros [a b] [c d] H. unfold both in H. cbn in H. now inversion H. Qed.

Lemma NoDup_map_inj : forall A B (f : A -> B) l,
  (forall x y, f x = f y -> x = y) -> NoDup l -> NoDup (map f l).
Proof.
  intros A B f l Hinj H. induction H as [|x t Hx Ht IH]; cbn; constructor; [|exact IH].
  intros Hin. apply in_map_iff in Hin. destruct Hin as [y [Hy Hin]].
  apply Hinj in Hy. subst. contradiction.
Qed.

Lemma NoDup_app_disj : forall A (l1 l2 : list A),
  NoDup l1 -> NoDup l2 -> (forall x, In x l1 -> ~ In x l2) -> NoDup (l1 ++ l2).
Proof.
  induction l1 as [|x t IH]; intros l2 H1 H2 HD; cbn; [exact H2|].
  inversion H1; subst. constructor.
  - rewrite in_app_iff. intros [Hin|Hin]; [contradiction|].
    exact (HD x (or_introl eq_refl) Hin).
  - apply IH; try assumption. intros y Hy. apply HD. right. exact Hy.
Qed.

(* every expected row occurs exactly once when the pair table has no duplicates *)
Lemma expected_rows_nodup : forall h nl nr ps, NoDup ps -> NoDup (expected_rows h nl nr ps).
Proof.
  intros h nl nr ps Hnd.
  assert (Hb : NoDup (map both ps)) by (apply NoDup_map_inj; [exact both_inj|exact Hnd]).
  destruct h; cbn [expected_rows]; [exact Hb| |].
  - apply NoDup_app_disj; [exact Hb| |].
    + apply NoDup_map_inj; [intros x y H; now inversion H|].
      apply NoDup_filter, seq_NoDup.
    + intros x Hx Hy. apply in_map_iff in Hx. destruct Hx as [p [Hp _]].
      apply in_map_iff in Hy. destruct Hy as [l [Hl _]]. subst. discriminate.
  - apply NoDup_app_disj; [exact Hb| |].
    + apply NoDup_map_inj; [intros x y H; now inversion H|].
      apply NoDup_filter, seq_NoDup.
    + intros x Hx Hy. apply in_map_iff in Hx. destruct Hx as [p [Hp _]].
      apply in_map_iff in Hy. destruct Hy as [l [Hl _]]. subst. discriminate.
Qed.

Lemma in_expected_both : forall h nl nr ps l r,
  In (Some l, Some r) (expected_rows h nl nr ps) <-> In (l, r) ps.
Proof.
  intros h nl nr ps l r.
  assert (Hb : In (Some l, Some r) (map both ps) <-> In (l, r) ps).
  { rewrite in_map_iff. split.
    - intros [[a b] [He Hin]]. unfold both in He. cbn in He. inversion He. subst. exact Hin.
    - intros Hin. exists (l, r). split; [reflexivity|exact Hin]. }
  destruct h; cbn [expected_rows]; [exact Hb| |]; rewrite in_app_iff, Hb; split; auto;
    (intros [H|H]; [exact H|]); apply in_map_iff in H; destruct H as [x [He _]]; discriminate.
Qed.

Lemma in_expected_left_only : forall h nl nr ps l,
  In (Some l, None) (expected_rows h nl nr ps) <->
  h = Left /\ l < nl /\ forall r, ~ In (l, r) ps.
Proof.
  intros h nl nr ps l.
  assert (Hb : ~ In (Some l, @None nat) (map both ps)).
  { intros H. apply in_map_iff in H. destruct H as [p [He _]]. discriminate. }
  destruct h; cbn [expected_rows].
  - split; [intros H; contradiction|intros [H _]; discriminate].
  - rewrite in_app_iff, in_map_iff. split.
    + intros [H|[x [He Hin]]]; [contradiction|]. inversion He. subst.
      apply in_unmatched_left in Hin. tauto.
    + intros [_ H]. right. exists l. split; [reflexivity|]. apply in_unmatched_left. exact H.
  - rewrite in_app_iff, in_map_iff. split.
    + intros [H|[x [He _]]]; [contradiction|discriminate].
    + intros [H _]; discriminate.
Qed.

Lemma in_expected_right_only : forall h nl nr ps r,
  In (None, Some r) (expected_rows h nl nr ps) <->
  h = Right /\ r < nr /\ forall l, ~ In (l, r) ps.
Proof.
  intros h nl nr ps r.
  assert (Hb : ~ In (@None nat, Some r) (map both ps)).
  { intros H. apply in_map_iff in H. destruct H as [p [He _]]. discriminate. }
  destruct h; cbn [expected_rows].
  - split; [intros H; contradiction|intros [H _]; discriminate].
  - rewrite in_app_iff, in_map_iff. split.
    + intros [H|[x [He _]]]; [contradiction|discriminate].
    + intros [H _]; discriminate.
  - rewrite in_app_iff, in_map_iff. split.
    + intros [H|[x [He Hin]]]; [contradiction|]. inversion He. subst.
      apply in_unmatched_right in Hin. tauto.
    + intros [_ H]. right. exists r. split; [reflexivity|]. apply in_unmatched_right. exact H.
Qed.

Lemma no_expected_none_none : forall h nl nr ps, ~ In (None, None) (expected_rows h nl nr ps).
Proof.
  intros h nl nr ps H.
  destruct h; cbn [expected_rows] in H; [|apply in_app_iff in H; destruct H as [H|H]..];
    apply in_map_iff in H; destruct H as [x [He _]]; discriminate.
Qed.
