(* C16: the index logic of Model/Derive.v (CPython's slice.indices arithmetic,
   the Arrow-slice branch, the arange/take branch, take's validation) computes
   Python's list semantics of Spec/DeriveSpec.v. *)
From Coq Require Import ZArith List Bool Arith Lia ZifyBool.
From SP Require Import Model.Num Model.Arrow Model.Derive Spec.DeriveSpec
  Proofs.BoundsProofs.
Import ListNotations.
Open Scope Z_scope.

(* ================================================================== *)
(** * 1. range(start, stop, step)                                       *)
(* ================================================================== *)
Definition going (x j k : Z) : bool := if 0 <? k then x <? j else j <? x.

Lemma range_len_nonneg : forall s e k, k <> 0 -> 0 <= range_len s e k.
Proof.
  intros s e k Hk. unfold range_len.
  destruct (k <? 0) eqn:Ek.
  - destruct (e <? s) eqn:E; [|lia].
    assert (0 <= (s - e - 1) / - k) by (apply Z.div_pos; lia). lia.
  - destruct (s <? e) eqn:E; [|lia].
    assert (0 <= (e - s - 1) / k) by (apply Z.div_pos; lia). lia.
Qed.

Lemma range_len_stop : forall s e k, k <> 0 -> going s e k = false -> range_len s e k = 0.
Proof.
  intros s e k Hk H. unfold going in H. unfold range_len.
  destruct (0 <? k) eqn:E0; destruct (k <? 0) eqn:E1; try lia.
  - destruct (s <? e) eqn:E; [discriminate|reflexivity].
  - destruct (e <? s) eqn:E; [discriminate|reflexivity].
Qed.

Lemma range_len_step : forall s e k, k <> 0 -> going s e k = true ->
  range_len s e k = 1 + range_len (s + k) e k.
Proof.
  intros s e k Hk H. unfold going in H. unfold range_len.
  destruct (0 <? k) eqn:E0; destruct (k <? 0) eqn:E1; try lia.
  - rewrite H.
    destruct (s + k <? e) eqn:E.
    + replace (e - s - 1) with ((e - (s + k) - 1) + 1 * k) by lia.
      rewrite Z.div_add by lia. lia.
    + rewrite Z.div_small by lia. lia.
  - rewrite H.
    destruct (e <? s + k) eqn:E.
    + replace (s - e - 1) with ((s + k - e - 1) + 1 * - k) by lia.
      rewrite Z.div_add by lia. lia.
    + rewrite Z.div_small by lia. lia.
Qed.

Lemma zrange_nil : forall s e k, k <> 0 -> going s e k = false -> zrange s e k = [].
Proof.
  intros s e k Hk H. unfold zrange. rewrite range_len_stop by assumption. reflexivity.
Qed.

Lemma zrange_cons : forall s e k, k <> 0 -> going s e k = true ->
  zrange s e k = s :: zrange (s + k) e k.
Proof.
  intros s e k Hk H. unfold zrange. rewrite (range_len_step s e k Hk H).
  pose proof (range_len_nonneg (s + k) e k Hk) as Hn.
  replace (Z.to_nat (1 + range_len (s + k) e k))
    with (S (Z.to_nat (range_len (s + k) e k))) by lia.
  cbn [seq map]. f_equal; [lia|].
  rewrite <- seq_shift, map_map. apply map_ext. intros a.
  rewrite Nat2Z.inj_succ. unfold Z.succ. ring.
Qed.

Lemma py_walk_stop : forall fuel x j k, going x j k = false -> py_walk fuel x j k = [].
Proof.
  intros [|f] x j k H; [reflexivity|]. cbn [py_walk]. fold (going x j k). rewrite H.
  reflexivity.
Qed.

Lemma py_walk_zrange : forall fuel s e k, k <> 0 ->
  Z.abs (e - s) <= Z.of_nat fuel -> py_walk fuel s e k = zrange s e k.
Proof.
  induction fuel as [|f IH]; intros s e k Hk Hf.
  - cbn [py_walk]. symmetry. apply zrange_nil; [exact Hk|].
    unfold going. destruct (0 <? k); lia.
  - cbn [py_walk]. fold (going s e k). destruct (going s e k) eqn:G.
    + rewrite zrange_cons by assumption. f_equal.
      destruct (going (s + k) e k) eqn:G2.
      * apply IH; [exact Hk|]. unfold going in G, G2. destruct (0 <? k) eqn:E0; lia.
      * rewrite py_walk_stop by exact G2. symmetry. apply zrange_nil; assumption.
    + symmetry. apply zrange_nil; assumption.
Qed.

Lemma py_range_zrange : forall s e k, k <> 0 -> py_range s e k = zrange s e k.
Proof. intros s e k Hk. unfold py_range. apply py_walk_zrange; [exact Hk|lia]. Qed.

Lemma py_walk_bounds : forall fuel s e k x, k <> 0 -> In x (py_walk fuel s e k) ->
  (0 < k -> s <= x < e) /\ (k < 0 -> e < x <= s).
Proof.
  induction fuel as [|f IH]; intros s e k x Hk H; [destruct H|].
  cbn [py_walk] in H. destruct (0 <? k) eqn:E0.
  - destruct (s <? e) eqn:E; [|destruct H].
    destruct H as [<-|H]; [lia|]. specialize (IH _ _ _ _ Hk H). lia.
  - destruct (e <? s) eqn:E; [|destruct H].
    destruct H as [<-|H]; [lia|]. specialize (IH _ _ _ _ Hk H). lia.
Qed.

Lemma zrange_bounds : forall s e k x, k <> 0 -> In x (zrange s e k) ->
  (0 < k -> s <= x < e) /\ (k < 0 -> e < x <= s).
Proof.
  intros s e k x Hk H. rewrite <- py_range_zrange in H by exact Hk.
  eapply py_walk_bounds; eassumption.
Qed.

Lemma zrange_step1 : forall i j,
  zrange i j 1 = map (fun n => i + Z.of_nat n) (seq 0 (Z.to_nat (j - i))).
Proof.
  intros i j. unfold zrange, range_len. cbn [Z.ltb Z.compare].
  destruct (i <? j) eqn:E.
  - rewrite Z.div_1_r. replace (j - i - 1 + 1) with (j - i) by lia.
    apply map_ext. intros; lia.
  - replace (Z.to_nat (j - i)) with 0%nat by lia. reflexivity.
Qed.

(* ================================================================== *)
(** * 2. slice.indices                                                  *)
(* ================================================================== *)
Lemma slice_indices_spec : forall start stop step len,
  0 <= len ->
  let k := match step with None => 1 | Some s => s end in
  k <> 0 ->
  slice_indices start stop step len
  = Ok (fst (py_slice_bounds start stop k len), snd (py_slice_bounds start stop k len), k).
Proof.
  intros start stop step len Hlen k Hk.
  unfold slice_indices. fold k.
  destruct (k =? 0) eqn:E0; [lia|].
  unfold py_slice_bounds, adjust_index, py_bound, py_clip.
  destruct start as [s|], stop as [e|];
    repeat match goal with
    | |- context [if ?c then _ else _] => destruct c eqn:?
    end; cbn [fst snd];
    repeat match goal with
    | |- Ok _ = Ok _ => f_equal
    | |- (_, _) = (_, _) => f_equal
    end; lia.
Qed.

Lemma slice_indices_zero : forall start stop len,
  slice_indices start stop (Some 0) len = ValueError.
Proof. reflexivity. Qed.

Lemma py_slice_bounds_range : forall start stop k len,
  0 <= len -> k <> 0 ->
  let '(i, j) := py_slice_bounds start stop k len in
  (0 < k -> 0 <= i <= len /\ 0 <= j <= len) /\
  (k < 0 -> -1 <= i <= len - 1 /\ -1 <= j <= len - 1).
Proof.
  intros start stop k len Hlen Hk.
  unfold py_slice_bounds, py_bound, py_clip.
  destruct (0 <? k) eqn:E; destruct start as [s|], stop as [e|];
    repeat match goal with
    | |- context [if ?c then _ else _] => destruct c eqn:?
    end; lia.
Qed.

(* every selected position is a position of the list *)
Lemma py_slice_positions : forall start stop k len x,
  0 <= len -> k <> 0 ->
  In x (zrange (fst (py_slice_bounds start stop k len))
               (snd (py_slice_bounds start stop k len)) k) ->
  0 <= x < len.
Proof.
  intros start stop k len x Hlen Hk H.
  pose proof (py_slice_bounds_range start stop k len Hlen Hk) as B.
  destruct (py_slice_bounds start stop k len) as [i j]. cbn [fst snd] in H.
  pose proof (zrange_bounds i j k x Hk H). lia.
Qed.

(* ================================================================== *)
(** * 3. take                                                           *)
(* ================================================================== *)
Section Take.
Context {X : Type}.
Variable na : X.

Lemma existsb_false : forall {A} (f : A -> bool) l,
  (forall x, In x l -> f x = false) -> existsb f l = false.
Proof.
  intros A f l. induction l as [|a t IH]; intros H; [reflexivity|].
  cbn [existsb]. rewrite (H a (or_introl eq_refl)), IH; [reflexivity|].
  intros x Hx. apply H. right. exact Hx.
Qed.

Lemma all_some_map : forall {A B} (f : A -> option B) (h : A -> B) l,
  (forall x, In x l -> f x = Some (h x)) -> all_some (map f l) = Some (map h l).
Proof.
  intros A B f h l. induction l as [|a t IH]; intros H; [reflexivity|].
  cbn [map all_some]. rewrite (H a (or_introl eq_refl)), IH; [reflexivity|].
  intros x Hx. apply H. right. exact Hx.
Qed.

Lemma all_some_none : forall {A B} (f : A -> option B) l x,
  In x l -> f x = None -> all_some (map f l) = None.
Proof.
  intros A B f l x. induction l as [|a t IH]; intros Hin Hx; [destruct Hin|].
  cbn [map all_some]. destruct Hin as [->|Hin].
  - rewrite Hx. reflexivity.
  - destruct (f a); [|reflexivity]. rewrite IH by assumption. reflexivity.
Qed.

(* an index take accepts *)
Definition valid_ix (allow_fill : bool) (n i : Z) : bool :=
  if allow_fill then (i =? -1) || ((0 <=? i) && (i <? n))
  else (- n <=? i) && (i <? n).

Definition fill_ok (allow_fill : bool) (fv : fillv) : bool :=
  negb allow_fill || match fv with FillNone | FillNaN => true | _ => false end.

(* the selection *)
Definition sel (allow_fill : bool) (l : list X) (ix : list Z) : list X :=
  map (fun i => if allow_fill && (i =? -1) then na
                else nth (Z.to_nat (if i <? 0 then i + Z.of_nat (length l) else i)) l na) ix.

Lemma py_take_valid : forall ix af l,
  forallb (valid_ix af (Z.of_nat (length l))) ix = true ->
  py_take na ix af l = Some (sel af l ix).
Proof.
  intros ix af l H. unfold py_take, sel. apply all_some_map.
  intros i Hi. rewrite forallb_forall in H. specialize (H i Hi).
  unfold valid_ix in H. destruct af; cbn [andb].
  - destruct (i =? -1) eqn:E; [reflexivity|].
    cbn [orb] in H. rewrite H.
    replace (i <? 0) with false by lia.
    apply nth_error_nth'. lia.
  - unfold py_getitem, py_pos.
    destruct ((0 <=? i) && (i <? Z.of_nat (length l))) eqn:E1.
    + replace (i <? 0) with false by lia. apply nth_error_nth'. lia.
    + replace ((i <? 0) && (- Z.of_nat (length l) <=? i)) with true by lia.
      replace (i <? 0) with true by lia.
      replace (Z.of_nat (length l) + i) with (i + Z.of_nat (length l)) by lia.
      apply nth_error_nth'. lia.
Qed.

Lemma py_take_invalid : forall ix af l,
  forallb (valid_ix af (Z.of_nat (length l))) ix = false ->
  py_take na ix af l = None.
Proof.
  intros ix af l H.
  assert (E : exists i, In i ix /\ valid_ix af (Z.of_nat (length l)) i = false).
  { induction ix as [|a t IH]; [discriminate|].
    cbn [forallb] in H. destruct (valid_ix af (Z.of_nat (length l)) a) eqn:Ea.
    - destruct (IH H) as (i & Hi & Hv). exists i. split; [right; exact Hi|exact Hv].
    - exists a. split; [left; reflexivity|exact Ea]. }
  destruct E as (i & Hi & Hv). unfold py_take.
  apply (all_some_none _ ix i Hi).
  unfold valid_ix in Hv. destruct af.
  - replace (i =? -1) with false by lia.
    destruct ((0 <=? i) && (i <? Z.of_nat (length l))) eqn:E; [lia|reflexivity].
  - unfold py_getitem, py_pos.
    replace ((0 <=? i) && (i <? Z.of_nat (length l))) with false by lia.
    replace ((i <? 0) && (- Z.of_nat (length l) <=? i)) with false by lia.
    reflexivity.
Qed.

Lemma take_valid : forall ix af fv l,
  fill_ok af fv = true ->
  forallb (valid_ix af (Z.of_nat (length l))) ix = true ->
  take na ix af fv l = Ok (sel af l ix).
Proof.
  intros ix af fv l Hf H. rewrite forallb_forall in H. unfold take.
  set (n := Z.of_nat (length l)) in *.
  assert (C1 : (n =? 0) && (0 <? Z.of_nat (length ix))
               && (negb af || existsb (fun i => 0 <=? i) ix) = false).
  { destruct (n =? 0) eqn:En; [|reflexivity].
    destruct ix as [|i t]; [reflexivity|].
    pose proof (H i (or_introl eq_refl)) as Hi. unfold valid_ix in Hi.
    destruct af; cbn [negb orb andb].
    - replace (0 <? Z.of_nat (length (i :: t))) with true by (cbn [length]; lia).
      cbn [andb]. apply existsb_false. intros x Hx. specialize (H x Hx).
      unfold valid_ix in H. lia.
    - lia. }
  rewrite C1.
  assert (C2 : (if af then match fv with
                           | FillNone | FillNaN => Ok tt
                           | FillOther => ValueError
                           | FillStr => TypeError
                           end else Ok tt) = Ok tt).
  { unfold fill_ok in Hf. destruct af, fv; try reflexivity; discriminate. }
  rewrite C2. cbn [pybind].
  rewrite existsb_false.
  2:{ intros x Hx. specialize (H x Hx). unfold valid_ix in H. destruct af; lia. }
  destruct af.
  - rewrite existsb_false.
    2:{ intros x Hx. specialize (H x Hx). unfold valid_ix in H. lia. }
    f_equal. unfold arrow_take, sel. rewrite map_map. apply map_ext_in.
    intros i Hi. specialize (H i Hi). unfold valid_ix in H. cbn [andb].
    destruct (i =? -1) eqn:E.
    + replace (i <? 0) with true by lia. reflexivity.
    + replace (i <? 0) with false by lia. reflexivity.
  - f_equal. unfold arrow_take, sel. rewrite map_map. apply map_ext. reflexivity.
Qed.

Definition is_ok {A} (r : pyres A) : bool := match r with Ok _ => true | _ => false end.

Lemma take_invalid : forall ix af fv l,
  forallb (valid_ix af (Z.of_nat (length l))) ix = false ->
  is_ok (take na ix af fv l) = false.
Proof.
  intros ix af fv l H. unfold take.
  set (n := Z.of_nat (length l)) in *.
  destruct ((n =? 0) && (0 <? Z.of_nat (length ix))
            && (negb af || existsb (fun i => 0 <=? i) ix)); [reflexivity|].
  destruct (if af then match fv with
                       | FillNone | FillNaN => Ok tt
                       | FillOther => ValueError
                       | FillStr => TypeError
                       end else Ok tt) as [[]| | |]; try reflexivity.
  cbn [pybind].
  destruct (existsb (fun i => (n <=? i) || negb af && (i <? - n)) ix) eqn:E1; [reflexivity|].
  destruct af.
  - destruct (existsb (fun i => i <? -1) ix) eqn:E2; [reflexivity|].
    exfalso.
    assert (F : forallb (valid_ix true n) ix = true).
    { apply forallb_forall. intros x Hx. unfold valid_ix.
      assert (A1 : (n <=? x) || negb true && (x <? - n) = false).
      { destruct ((n <=? x) || negb true && (x <? - n)) eqn:Q; [|reflexivity].
        rewrite <- E1. symmetry. apply existsb_exists. exists x. split; assumption. }
      assert (A2 : (x <? -1) = false).
      { destruct (x <? -1) eqn:Q; [|reflexivity].
        rewrite <- E2. symmetry. apply existsb_exists. exists x. split; assumption. }
      lia. }
    rewrite F in H. discriminate.
  - exfalso.
    assert (F : forallb (valid_ix false n) ix = true).
    { apply forallb_forall. intros x Hx. unfold valid_ix.
      assert (A1 : (n <=? x) || negb false && (x <? - n) = false).
      { destruct ((n <=? x) || negb false && (x <? - n)) eqn:Q; [|reflexivity].
        rewrite <- E1. symmetry. apply existsb_exists. exists x. split; assumption. }
      lia. }
    rewrite F in H. discriminate.
Qed.

Lemma take_bad_fill : forall ix af fv l,
  fill_ok af fv = false -> is_ok (take na ix af fv l) = false.
Proof.
  intros ix af fv l H. unfold fill_ok in H. unfold take.
  destruct (_ && _ && _); [reflexivity|].
  destruct af, fv; try discriminate; reflexivity.
Qed.

(* take returns exactly when the fill value is acceptable and Python (resp.
   pandas with allow_fill) accepts every index, and then returns what they do *)
Theorem take_spec : forall ix af fv l r,
  take na ix af fv l = Ok r <->
  fill_ok af fv = true /\ py_take na ix af l = Some r.
Proof.
  intros ix af fv l r. split.
  - intros H.
    destruct (fill_ok af fv) eqn:Hf.
    2:{ pose proof (take_bad_fill ix af fv l Hf) as B. rewrite H in B. discriminate. }
    destruct (forallb (valid_ix af (Z.of_nat (length l))) ix) eqn:Hv.
    2:{ pose proof (take_invalid ix af fv l Hv) as B. rewrite H in B. discriminate. }
    rewrite (take_valid ix af fv l Hf Hv) in H. injection H as <-.
    split; [reflexivity|]. apply py_take_valid. exact Hv.
  - intros [Hf Hp].
    destruct (forallb (valid_ix af (Z.of_nat (length l))) ix) eqn:Hv.
    + rewrite (py_take_valid ix af l Hv) in Hp. injection Hp as <-.
      apply take_valid; assumption.
    + rewrite (py_take_invalid ix af l Hv) in Hp. discriminate.
Qed.

(* the classes of the errors, in the order the code raises them *)
Theorem take_error_class : forall ix af fv l,
  let n := Z.of_nat (length l) in
  let oob := existsb (fun i => (n <=? i) || negb af && (i <? - n)) ix in
  take na ix af fv l =
  if (n =? 0) && negb (Nat.eqb (length ix) 0)
     && (negb af || existsb (fun i => 0 <=? i) ix) then IndexError
  else if negb (fill_ok af fv) then
         (match fv with FillStr => TypeError | _ => ValueError end)
  else if oob then IndexError
  else if af && existsb (fun i => i <? -1) ix then ValueError
  else Ok (sel af l ix).
Proof.
  intros ix af fv l n oob. subst oob. unfold take. fold n.
  replace (0 <? Z.of_nat (length ix)) with (negb (Nat.eqb (length ix) 0)) by lia.
  destruct ((n =? 0) && negb (Nat.eqb (length ix) 0)
            && (negb af || existsb (fun i => 0 <=? i) ix)); [reflexivity|].
  unfold fill_ok.
  destruct (existsb (fun i => (n <=? i) || negb af && (i <? - n)) ix) eqn:Eoob.
  - destruct af, fv; reflexivity.
  - destruct af.
    + destruct fv; cbn [pybind negb orb andb]; try reflexivity;
        (destruct (existsb (fun i => i <? -1) ix) eqn:E2; [reflexivity|]);
        f_equal; unfold arrow_take, sel; rewrite map_map; apply map_ext_in;
        intros i Hi; cbn [andb];
        (assert (A : (i <? -1) = false);
         [ destruct (i <? -1) eqn:Q; [|reflexivity];
           rewrite <- E2; symmetry; apply existsb_exists; exists i; split; assumption |]);
        destruct (i =? -1) eqn:E; destruct (i <? 0) eqn:E'; try reflexivity; lia.
    + destruct fv; cbn [pybind negb orb andb]; f_equal;
        unfold arrow_take, sel; rewrite map_map; apply map_ext; reflexivity.
Qed.

(* ================================================================== *)
(** * 4. __getitem__                                                    *)
(* ================================================================== *)
Lemma take_positions : forall ix l,
  (forall x, In x ix -> 0 <= x < Z.of_nat (length l)) ->
  take na ix false FillNone l = Ok (map (fun x => nth (Z.to_nat x) l na) ix).
Proof.
  intros ix l H. rewrite take_valid.
  - f_equal. unfold sel. apply map_ext_in. intros i Hi. specialize (H i Hi).
    cbn [andb]. replace (i <? 0) with false by lia. reflexivity.
  - reflexivity.
  - apply forallb_forall. intros x Hx. specialize (H x Hx). unfold valid_ix. lia.
Qed.

Lemma nth_np_arange : forall n x, 0 <= x < Z.of_nat n ->
  nth (Z.to_nat x) (np_arange n) 0 = x.
Proof.
  intros n x H. unfold np_arange.
  rewrite nth_indep with (d' := Z.of_nat 0) by (rewrite map_length, seq_length; lia).
  rewrite map_nth, seq_nth by lia. lia.
Qed.

Lemma length_np_arange : forall n, length (np_arange n) = n.
Proof. intros n. unfold np_arange. rewrite map_length, seq_length. reflexivity. Qed.

Lemma seq_as_map : forall s m, seq s m = map (fun n => (s + n)%nat) (seq 0 m).
Proof.
  intros s m. revert s. induction m as [|m IH]; intros s; [reflexivity|].
  cbn [seq map]. f_equal; [lia|].
  rewrite (IH (S s)), <- (seq_shift m 0), map_map. apply map_ext. intros; lia.
Qed.

Lemma slice_map_nth : forall (l : list X) s e, (e <= length l)%nat ->
  slice s e l = map (fun x => nth x l na) (seq s (e - s)).
Proof.
  intros l s e He. apply (nth_ext _ _ na na).
  - rewrite slice_length by exact He. rewrite map_length, seq_length. reflexivity.
  - intros k Hk. rewrite slice_length in Hk by exact He.
    rewrite nth_slice by exact Hk.
    rewrite (nth_indep (map (fun x => nth x l na) (seq s (e - s))) na (nth 0%nat l na))
      by (rewrite map_length, seq_length; exact Hk).
    rewrite (map_nth (fun x => nth x l na)), seq_nth by exact Hk. reflexivity.
Qed.

(* the step-1 branch (Arrow slice) *)
Lemma getitem_slice_arrow : forall start stop step l,
  match step with None => 1 | Some s => s end = 1 ->
  pybind (slice_indices start stop step (Z.of_nat (length l)))
         (fun '(s, e, _) =>
            Ok (arrow_slice (Z.to_nat s) (Z.to_nat (Z.max (e - s) 0)) l))
  = py_slice na l start stop step.
Proof.
  intros start stop step l Hk. unfold py_slice.
  pose proof (slice_indices_spec start stop step (Z.of_nat (length l))) as S.
  cbn zeta in S. rewrite Hk in *. rewrite S by lia. clear S.
  change (1 =? 0) with false. cbv iota.
  pose proof (py_slice_bounds_range start stop 1 (Z.of_nat (length l))) as B.
  destruct (py_slice_bounds start stop 1 (Z.of_nat (length l))) as [i j].
  cbn [fst snd pybind]. destruct B as [B _]; try lia. specialize (B ltac:(lia)).
  f_equal. rewrite py_range_zrange by lia. rewrite zrange_step1.
  unfold arrow_slice.
  destruct (Z.leb_spec i j) as [Hij|Hij].
  - pose proof (slice_map_nth l (Z.to_nat i) (Z.to_nat j) ltac:(lia)) as E.
    unfold slice in E.
    replace (Z.to_nat (Z.max (j - i) 0)) with (Z.to_nat j - Z.to_nat i)%nat by lia.
    rewrite E. replace (Z.to_nat (j - i)) with (Z.to_nat j - Z.to_nat i)%nat by lia.
    rewrite (seq_as_map (Z.to_nat i)), !map_map.
    apply map_ext. intros n. f_equal. lia.
  - replace (Z.to_nat (Z.max (j - i) 0)) with 0%nat by lia.
    replace (Z.to_nat (j - i)) with 0%nat by lia. reflexivity.
Qed.

End Take.

(* ================================================================== *)
(** * 5. __getitem__, concat, iteration = Python list semantics         *)
(* ================================================================== *)
Section GetItem.
Context {X : Type}.
Variable na : X.

(* the other-step branch: np.arange(len)[item] then take *)
Lemma getitem_slice_take : forall start stop k l, k <> 0 ->
  pybind (np_basic_slice (np_arange (length l)) start stop (Some k))
         (fun sel => take na sel false FillNone l)
  = py_slice na l start stop (Some k).
Proof.
  intros start stop k l Hk. unfold np_basic_slice, py_slice.
  rewrite length_np_arange.
  pose proof (slice_indices_spec start stop (Some k) (Z.of_nat (length l)) ltac:(lia)) as S.
  cbn zeta in S. rewrite (S Hk). clear S.
  destruct (k =? 0) eqn:E0; [lia|].
  pose proof (py_slice_positions start stop k (Z.of_nat (length l))) as P.
  destruct (py_slice_bounds start stop k (Z.of_nat (length l))) as [i j].
  cbn [fst snd pybind] in *.
  rewrite py_range_zrange by exact Hk.
  assert (E : map (fun x => nth (Z.to_nat x) (np_arange (length l)) 0) (zrange i j k)
              = zrange i j k).
  { rewrite <- (map_id (zrange i j k)) at 2. apply map_ext_in. intros x Hx.
    apply nth_np_arange. apply P; [lia|exact Hk|exact Hx]. }
  rewrite E. apply take_positions. intros x Hx. apply P; [lia|exact Hk|exact Hx].
Qed.

(* arr[start:stop:step] is Python's l[start:stop:step], whichever branch runs;
   step 0 raises ValueError in both *)
Theorem getitem_slice_spec : forall start stop step l,
  getitem_slice na start stop step l = py_slice na l start stop step.
Proof.
  intros start stop step l. unfold getitem_slice.
  destruct step as [[|[p|p|]|p]|].
  - reflexivity.
  - apply getitem_slice_take. discriminate.
  - apply getitem_slice_take. discriminate.
  - apply getitem_slice_arrow. reflexivity.
  - apply getitem_slice_take. discriminate.
  - apply getitem_slice_arrow. reflexivity.
Qed.

(* arr[i] *)
Theorem getitem_int_spec : forall i l,
  getitem_int na i l =
  match py_getitem l i with Some x => Ok x | None => IndexError end.
Proof.
  intros i l. unfold getitem_int, getitem_index, py_getitem, py_pos.
  set (n := Z.of_nat (length l)).
  destruct ((i <? - n) || (n <=? i)) eqn:C.
  - replace ((0 <=? i) && (i <? n)) with false by lia.
    replace ((i <? 0) && (- n <=? i)) with false by lia. reflexivity.
  - destruct ((0 <=? i) && (i <? n)) eqn:C1.
    + replace (i <? 0) with false by lia.
      rewrite (nth_error_nth' l na) by lia. reflexivity.
    + replace ((i <? 0) && (- n <=? i)) with true by lia.
      replace (i <? 0) with true by lia.
      replace (n + i) with (i + n) by lia.
      rewrite (nth_error_nth' l na) by lia. reflexivity.
Qed.

(* ---- boolean masks ---- *)
Lemma np_nonzero_from_bounds : forall m i y,
  In y (np_nonzero_from m i) -> i <= y < i + Z.of_nat (length m).
Proof.
  induction m as [|b t IH]; intros i y H; [destruct H|].
  cbn [np_nonzero_from] in H. cbn [length]. destruct b.
  - destruct H as [<-|H]; [lia|]. specialize (IH _ _ H). lia.
  - specialize (IH _ _ H). lia.
Qed.

Lemma nonzero_compress : forall m (l : list X) i, 0 <= i ->
  length m = length l ->
  map (fun x => nth (Z.to_nat (x - i)) l na) (np_nonzero_from m i) = py_compress m l.
Proof.
  induction m as [|b t IH]; intros l i Hi Hlen; [reflexivity|].
  destruct l as [|x l']; [discriminate|]. cbn [length] in Hlen.
  cbn [np_nonzero_from py_compress].
  assert (R : map (fun y => nth (Z.to_nat (y - i)) (x :: l') na) (np_nonzero_from t (i + 1))
              = py_compress t l').
  { rewrite <- (IH l' (i + 1)) by lia. apply map_ext_in. intros y Hy.
    apply np_nonzero_from_bounds in Hy.
    replace (Z.to_nat (y - i)) with (S (Z.to_nat (y - (i + 1)))) by lia. reflexivity. }
  destruct b; cbn [map]; rewrite R; [|reflexivity].
  replace (i - i) with 0 by lia. reflexivity.
Qed.

Lemma existsb_is_na_some : forall {A} (m : list A), existsb is_na (map Some m) = false.
Proof. intros A m. induction m as [|a t IH]; [reflexivity|exact IH]. Qed.

Lemma map_unsome : forall {A} (d : A) (m : list A),
  map (fun o => match o with Some b => b | None => d end) (map Some m) = m.
Proof. intros A d m. rewrite map_map. apply map_id. Qed.

(* arr[mask] for a mask without NA of the right length: the elements at the True
   positions, in order *)
Theorem getitem_mask_spec : forall (m : list bool) l,
  m <> [] -> length m = length l ->
  getitem_index na (IBool (map Some m)) l = Ok (GArr (py_compress m l)).
Proof.
  intros m l Hne Hlen. unfold getitem_index.
  rewrite map_length, existsb_is_na_some, map_unsome, Hlen, Nat.eqb_refl.
  destruct (Nat.eqb (length l) 0) eqn:E0.
  { apply Nat.eqb_eq in E0. destruct m; [contradiction|]. cbn [length] in Hlen. lia. }
  cbn [negb].
  pose proof (nonzero_compress m l 0 ltac:(lia) Hlen) as NC.
  fold (np_nonzero m) in NC.
  assert (NC' : map (fun x => nth (Z.to_nat x) l na) (np_nonzero m) = py_compress m l).
  { rewrite <- NC. apply map_ext. intros x. f_equal. lia. }
  destruct (np_nonzero m) as [|y t] eqn:Enz.
  - rewrite getitem_slice_spec. cbn [map] in NC'. rewrite <- NC'.
    unfold py_slice. cbn [Z.eqb].
    unfold py_slice_bounds, py_bound, py_clip. cbn [Z.ltb Z.compare].
    replace (Z.max 0 (Z.min (Z.of_nat (length l)) 0)) with 0 by lia.
    reflexivity.
  - rewrite take_positions.
    + rewrite NC'. reflexivity.
    + intros x Hx. rewrite <- Enz in Hx. unfold np_nonzero in Hx.
      apply np_nonzero_from_bounds in Hx. lia.
Qed.

(* the rejected masks *)
Theorem getitem_mask_wrong_length : forall m l,
  length m <> 0%nat -> length m <> length l ->
  getitem_index na (IBool m) l = IndexError.
Proof.
  intros m l H0 Hlen. unfold getitem_index.
  replace (Nat.eqb (length m) 0) with false by (symmetry; apply Nat.eqb_neq; exact H0).
  replace (Nat.eqb (length m) (length l)) with false
    by (symmetry; apply Nat.eqb_neq; exact Hlen).
  reflexivity.
Qed.

Theorem getitem_mask_na : forall m l,
  length m <> 0%nat -> length m = length l -> In None m ->
  getitem_index na (IBool m) l = ValueError.
Proof.
  intros m l H0 Hlen Hin. unfold getitem_index.
  replace (Nat.eqb (length m) 0) with false by (symmetry; apply Nat.eqb_neq; exact H0).
  rewrite Hlen, Nat.eqb_refl. cbn [negb].
  replace (existsb is_na m) with true; [reflexivity|].
  symmetry. apply existsb_exists. exists None. split; [exact Hin|reflexivity].
Qed.

Theorem getitem_mask_errors : forall m (l : list X),
  length m <> 0%nat ->
  (length m <> length l -> getitem_index na (IBool m) l = IndexError) /\
  (length m = length l -> In None m -> getitem_index na (IBool m) l = ValueError).
Proof.
  intros m l H0. split.
  - exact (getitem_mask_wrong_length m l H0).
  - exact (getitem_mask_na m l H0).
Qed.

(* ---- integer arrays ---- *)
Lemma take_nofill_cases : forall ix fv l,
  is_ok (take na ix false fv l) = true \/ take na ix false fv l = IndexError.
Proof.
  intros ix fv l. rewrite take_error_class. cbn zeta.
  repeat match goal with
  | |- context [if ?c then _ else _] => destruct c eqn:?
  end; try (right; reflexivity); try (left; reflexivity);
  unfold fill_ok in *; cbn in *; discriminate.
Qed.

Theorem getitem_ints_spec : forall (ix : list Z) l,
  ix <> [] ->
  getitem_index na (IInts (map Some ix)) l =
  match py_take na ix false l with Some r => Ok (GArr r) | None => IndexError end.
Proof.
  intros ix l Hne. unfold getitem_index.
  rewrite map_length, existsb_is_na_some, map_unsome.
  destruct (Nat.eqb (length ix) 0) eqn:E0.
  { apply Nat.eqb_eq in E0. destruct ix; [contradiction|discriminate]. }
  destruct (py_take na ix false l) as [r|] eqn:P.
  - assert (T : take na ix false FillNone l = Ok r).
    { apply take_spec. split; [reflexivity|exact P]. }
    rewrite T. reflexivity.
  - destruct (take_nofill_cases ix FillNone l) as [T|T].
    + destruct (take na ix false FillNone l) as [r| | |] eqn:E; try discriminate.
      apply take_spec in E. destruct E as [_ E]. rewrite E in P. discriminate.
    + rewrite T. reflexivity.
Qed.

Theorem getitem_ints_na : forall ix l,
  length ix <> 0%nat -> In None ix -> getitem_index na (IInts ix) l = ValueError.
Proof.
  intros ix l H0 Hin. unfold getitem_index.
  replace (Nat.eqb (length ix) 0) with false by (symmetry; apply Nat.eqb_neq; exact H0).
  replace (existsb is_na ix) with true; [reflexivity|].
  symmetry. apply existsb_exists. exists None. split; [exact Hin|reflexivity].
Qed.

(* an empty iterable of any kind selects nothing, from any array *)
Theorem getitem_empty_iterable : forall l,
  getitem_index na (IBool []) l = Ok (GArr []) /\
  getitem_index na (IInts []) l = Ok (GArr []) /\
  getitem_index na (IArrOther 0) l = Ok (GArr []).
Proof.
  intros l. unfold getitem_index. cbn [length Nat.eqb].
  assert (T : take na [] false FillNone l = Ok []).
  { rewrite take_positions by (intros x []). reflexivity. }
  rewrite T. repeat split; reflexivity.
Qed.

(* ---- concat ---- *)
Lemma collect_ok : forall {A B} (h : A -> B) (ps : list A),
  collect (map (fun p => Ok (h p)) ps) = Ok (map h ps).
Proof.
  intros A B h ps. induction ps as [|p t IH]; [reflexivity|].
  cbn [map collect pybind]. rewrite IH. reflexivity.
Qed.

(* l[a:b] (no step) never fails *)
Definition py_slice1 (l : list X) (a b : option Z) : list X :=
  let '(i, j) := py_slice_bounds a b 1 (Z.of_nat (length l)) in
  map (fun x => nth (Z.to_nat x) l na) (py_range i j 1).

Lemma py_slice_nostep : forall l a b, py_slice na l a b None = Ok (py_slice1 l a b).
Proof.
  intros l a b. unfold py_slice, py_slice1. cbn [Z.eqb].
  destruct (py_slice_bounds a b 1 (Z.of_nat (length l))). reflexivity.
Qed.

Theorem concat_spec : forall pieces l,
  run_step na (SConcat pieces) l =
  match pieces with
  | [] => ValueError
  | _ => Ok (concat (map (fun '(a, b) => py_slice1 l a b) pieces))
  end.
Proof.
  intros pieces l. unfold run_step.
  assert (E : map (fun '(a, b) => getitem_slice na a b None l) pieces
              = map (fun p => Ok ((fun '(a, b) => py_slice1 l a b) p)) pieces).
  { apply map_ext. intros [a b]. rewrite getitem_slice_spec. apply py_slice_nostep. }
  rewrite E, collect_ok. cbn [pybind].
  destruct pieces as [|p t]; reflexivity.
Qed.

(* ---- iteration ---- *)
Theorem array_iter_spec : forall l, array_iter na l = Ok l.
Proof.
  intros l. unfold array_iter.
  assert (E : map (fun i => getitem_int na (Z.of_nat i) l) (seq 0 (length l))
              = map (fun i => Ok (nth i l na)) (seq 0 (length l))).
  { apply map_ext_in. intros i Hi. apply in_seq in Hi.
    rewrite getitem_int_spec. unfold py_getitem, py_pos.
    replace ((0 <=? Z.of_nat i) && (Z.of_nat i <? Z.of_nat (length l))) with true by lia.
    rewrite Nat2Z.id. rewrite (nth_error_nth' l na) by lia. reflexivity. }
  rewrite E, collect_ok. f_equal.
  apply (nth_ext _ _ na na).
  - rewrite map_length, seq_length. reflexivity.
  - intros k Hk. rewrite map_length, seq_length in Hk.
    rewrite (nth_indep (map (fun i => nth i l na) (seq 0 (length l))) na (nth 0%nat l na))
      by (rewrite map_length, seq_length; exact Hk).
    rewrite (map_nth (fun i => nth i l na)), seq_nth by exact Hk. reflexivity.
Qed.

(* copy *)
Theorem copy_spec : forall l, run_step na SCopy l = Ok l.
Proof. reflexivity. Qed.

End GetItem.

(* ================================================================== *)
(** * 6. sanity of the specification itself                             *)
(* ================================================================== *)
(* l[:] is l and l[::-1] is the reversed list: the Spec's slice is the slice
   one means *)
Section SpecSanity.
Context {X : Type}.
Variable na : X.

Lemma map_nth_seq_id : forall (l : list X),
  map (fun n => nth n l na) (seq 0 (length l)) = l.
Proof.
  intros l. apply (nth_ext _ _ na na).
  - rewrite map_length, seq_length. reflexivity.
  - intros k Hk. rewrite map_length, seq_length in Hk.
    rewrite (nth_indep (map (fun i => nth i l na) (seq 0 (length l))) na (nth 0%nat l na))
      by (rewrite map_length, seq_length; exact Hk).
    rewrite (map_nth (fun i => nth i l na)), seq_nth by exact Hk. reflexivity.
Qed.

Theorem py_slice_full : forall l, py_slice na l None None None = Ok l.
Proof.
  intros l. unfold py_slice. cbn [Z.eqb].
  unfold py_slice_bounds, py_bound. cbn [Z.ltb Z.compare].
  rewrite py_range_zrange by lia. rewrite zrange_step1, map_map.
  f_equal. rewrite Z.sub_0_r, Nat2Z.id.
  rewrite <- (map_nth_seq_id l) at 2. apply map_ext. intros n. f_equal. lia.
Qed.

Theorem py_slice_reverse : forall l, py_slice na l None None (Some (-1)) = Ok (rev l).
Proof.
  intros l. unfold py_slice. cbn [Z.eqb].
  unfold py_slice_bounds, py_bound. cbn [Z.ltb Z.compare].
  rewrite py_range_zrange by lia.
  set (n := length l).
  assert (R : range_len (Z.of_nat n - 1) (-1) (-1) = Z.of_nat n).
  { unfold range_len. cbn [Z.ltb Z.compare Z.opp].
    destruct (-1 <? Z.of_nat n - 1) eqn:E.
    - rewrite Z.div_1_r. lia.
    - lia. }
  unfold zrange. rewrite R, Nat2Z.id, map_map. f_equal.
  apply (nth_ext _ _ na na).
  - rewrite map_length, seq_length, rev_length. reflexivity.
  - intros k Hk. rewrite map_length, seq_length in Hk.
    rewrite (nth_indep (map _ (seq 0 n)) na
               ((fun x => nth (Z.to_nat (Z.of_nat n - 1 + Z.of_nat x * -1)) l na) 0%nat))
      by (rewrite map_length, seq_length; exact Hk).
    rewrite (map_nth (fun x => nth (Z.to_nat (Z.of_nat n - 1 + Z.of_nat x * -1)) l na)),
      seq_nth by exact Hk.
    rewrite rev_nth by exact Hk. f_equal. fold n. lia.
Qed.

(* hence: arr[:] and arr[::-1] *)
Corollary getitem_full_slice : forall l, run_step na (GetSlice None None None) l = Ok l.
Proof.
  intros l. unfold run_step, GetSlice, getitem, getitem_index.
  rewrite getitem_slice_spec, py_slice_full. reflexivity.
Qed.

Corollary reverse_spec : forall l, run_step na Reverse l = Ok (rev l).
Proof.
  intros l. unfold run_step, Reverse, GetSlice, getitem, getitem_index.
  rewrite getitem_slice_spec, py_slice_reverse. reflexivity.
Qed.

End SpecSanity.
