(* The bounding box the line / polygon kernels compute for an element
   (total_bounds_interleaved on finite coordinates). *)
From Coq Require Import ZArith List Bool Arith Lia ZifyBool.
From SP Require Import Model.Num Model.Arrow Model.Bounds Model.PointKernels Model.Intersect.
Import ListNotations.
Open Scope Z_scope.

Lemma pair_ind {A} (P : list A -> Prop) :
  P [] -> (forall x, P [x]) -> (forall x y t, P t -> P (x :: y :: t)) -> forall l, P l.
Proof.
  intros H0 H1 H2.
  assert (H : forall l, P l /\ forall x, P (x :: l)).
  { induction l as [|a l [IH1 IH2]]; split; auto. }
  intro l. apply H.
Qed.

Fixpoint zb_loop (ps : list pt) (xm xM ym yM : Z) : Z * Z * Z * Z :=
  match ps with
  | [] => (xm, xM, ym, yM)
  | (x, y) :: t => zb_loop t (Z.min xm x) (Z.max xM x) (Z.min ym y) (Z.max yM y)
  end.

Lemma tbi_loop_some : forall seg xm xM ym yM,
  tbi_loop (map Some seg) (Some xm) (Some xM) (Some ym) (Some yM) =
  let '(a, b, c, d) := zb_loop (zpairs seg) xm xM ym yM in (Some a, Some b, Some c, Some d).
Proof.
  intro seg. induction seg as [|x|x y t IH] using pair_ind; intros; try reflexivity.
  simpl. apply IH.
Qed.

Lemma zb_loop_spec : forall ps xm xM ym yM a b c d,
  zb_loop ps xm xM ym yM = (a, b, c, d) ->
  (a <= xm /\ xM <= b /\ c <= ym /\ yM <= d) /\
  (forall q, In q ps -> a <= fst q <= b /\ c <= snd q <= d) /\
  (a = xm \/ exists q, In q ps /\ fst q = a) /\
  (b = xM \/ exists q, In q ps /\ fst q = b) /\
  (c = ym \/ exists q, In q ps /\ snd q = c) /\
  (d = yM \/ exists q, In q ps /\ snd q = d).
Proof.
  induction ps as [|[x y] t IH]; intros * H; simpl in H.
  - inversion H; subst. split; [lia|]. split; [intros q []|]. repeat split; now left.
  - apply IH in H. destruct H as ((L1 & L2 & L3 & L4) & Hall & Ha & Hb & Hc & Hd).
    split; [lia|]. split.
    + intros q [E|Hq]; [subst q; simpl; lia | now apply Hall].
    + repeat split.
      * destruct Ha as [E|(q & Hq & E)]; [|right; exists q; simpl; tauto].
        destruct (Z.min_spec xm x) as [[_ M]|[_ M]]; [left; lia | right; exists (x, y); simpl; split; [tauto|lia]].
      * destruct Hb as [E|(q & Hq & E)]; [|right; exists q; simpl; tauto].
        destruct (Z.max_spec xM x) as [[_ M]|[_ M]]; [right; exists (x, y); simpl; split; [tauto|lia] | left; lia].
      * destruct Hc as [E|(q & Hq & E)]; [|right; exists q; simpl; tauto].
        destruct (Z.min_spec ym y) as [[_ M]|[_ M]]; [left; lia | right; exists (x, y); simpl; split; [tauto|lia]].
      * destruct Hd as [E|(q & Hq & E)]; [|right; exists q; simpl; tauto].
        destruct (Z.max_spec yM y) as [[_ M]|[_ M]]; [right; exists (x, y); simpl; split; [tauto|lia] | left; lia].
Qed.

(* an element without a vertex: NaN bounds *)
Lemma zbounds_nil : forall seg, zpairs seg = [] -> zbounds seg = (None, None, None, None).
Proof.
  intros [|x [|y t]] H; try reflexivity. discriminate.
Qed.

(* an element with at least one vertex: the tight box of its vertices *)
Lemma zbounds_cons : forall seg p ps, zpairs seg = p :: ps ->
  exists a b c d, zbounds seg = (Some a, Some b, Some c, Some d) /\
    (forall q, In q (p :: ps) -> a <= fst q <= c /\ b <= snd q <= d) /\
    (exists q, In q (p :: ps) /\ fst q = a) /\ (exists q, In q (p :: ps) /\ snd q = b) /\
    (exists q, In q (p :: ps) /\ fst q = c) /\ (exists q, In q (p :: ps) /\ snd q = d).
Proof.
  intros [|x [|y t]] p ps H; try discriminate.
  simpl in H. inversion H; subst p ps; clear H.
  unfold zbounds, total_bounds_interleaved. simpl map. cbn [tbi_loop omin omax].
  rewrite tbi_loop_some.
  destruct (zb_loop (zpairs t) x x y y) as [[[a b] c] d] eqn:E.
  apply zb_loop_spec in E. destruct E as ((L1 & L2 & L3 & L4) & Hall & Ha & Hb & Hc & Hd).
  exists a, c, b, d. split; [reflexivity|]. split; [|repeat split].
  - intros q [Eq|Hq]; [subst q; simpl; lia|]. specialize (Hall q Hq). lia.
  - destruct Ha as [Eq|(q & Hq & Eq)];
      [exists (x, y); simpl; split; [left; reflexivity | lia]
      | exists q; simpl; split; [right; exact Hq | exact Eq]].
  - destruct Hc as [Eq|(q & Hq & Eq)];
      [exists (x, y); simpl; split; [left; reflexivity | lia]
      | exists q; simpl; split; [right; exact Hq | exact Eq]].
  - destruct Hb as [Eq|(q & Hq & Eq)];
      [exists (x, y); simpl; split; [left; reflexivity | lia]
      | exists q; simpl; split; [right; exact Hq | exact Eq]].
  - destruct Hd as [Eq|(q & Hq & Eq)];
      [exists (x, y); simpl; split; [left; reflexivity | lia]
      | exists q; simpl; split; [right; exact Hq | exact Eq]].
Qed.
