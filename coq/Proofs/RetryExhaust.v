(* Closed instances, decided by computation inside the kernel, of the clause "a fault repeated
   up to the retry limit": on setup M (Proofs/PackExamples.v, retry budget 3) a fault that
   strikes on three consecutive attempts, at EVERY filesystem call of the run, makes the model
   of pack_partitions_to_parquet RAISE -- no wrapper gives up quietly once its budget is spent
   -- and from the tree the aborted run leaves the fault-free repeat with overwrite=True ends
   in exactly the fault-free tree.  (The general statements are C19_all_or_error and
   C19_recover; these instances show that their "raises" disjunct is the one that holds, at
   every crash point, and are the kernel-side counterpart of the `exhaust` stream of
   harness/c19.py.) *)
From Coq Require Import ZArith List Bool Arith String.
From SP Require Import Harness Model.FS Model.PackFS Model.Retry Spec.PackSpec Proofs.PackExamples.
Import ListNotations.

(* r raising faults at the r consecutive calls from position pos on: whichever wrapper the call
   at pos belongs to, each of them ends one attempt *)
Definition burst (pos r : nat) (ft : fault) : list (option fault) :=
  repeat None pos ++ repeat (Some ft) r.

(* the same fault at every second call, r times: rm_retry answers a FileNotFoundError of rm
   with its existence re-check (the call in between), finds the path still there, and the next
   attempt's rm is struck again *)
Definition alt (pos r : nat) (ft : fault) : list (option fault) :=
  repeat None pos ++ List.concat (repeat [Some ft; None] r).

Definition is_rm (t : traced) : bool :=
  match fst (fst t) with KRm => true | _ => false end.

Fixpoint positions_from {A} (p : A -> bool) (l : list A) (i : nat) : list nat :=
  match l with
  | [] => []
  | x :: r => (if p x then [i] else []) ++ positions_from p r (S i)
  end.

(* the positions of the rm calls in the fault-free run of setup M *)
Definition rm_positions (tm : tmpmode) : list nat :=
  positions_from is_rm (snd (packF_trace 3 [] priorM (cfgM tm) asgM)) 0.

Definition aborts_and_recovers (K : nat) (sched : list (option fault)) (tm : tmpmode) : bool :=
  aborts K sched tm && recover_ok K sched tm.

Definition safe_and_recovers (K : nat) (sched : list (option fault)) (tm : tmpmode) : bool :=
  outcome_ok K sched tm && recover_ok K sched tm.

(* positions 19, 20 and 47, 48 are the second isfile / open of the FIRST sub-part of an output
   fed by two sub-parts: pyarrow's scanner visits the remaining files before it raises, so two
   of three consecutive faults fall into ONE attempt of read_parquet_retry and the third
   attempt succeeds (the run returns with the fault-free tree); one more fault and it raises
   there too *)
Definition scanner_positions : list nat := [19; 20; 47; 48].

Lemma exhaust_raise_M :
  (forallb (fun pos => safe_and_recovers 3 (burst pos 3 FRaise) TInside) (seq 0 75) = true /\
   filter (fun pos => negb (aborts 3 (burst pos 3 FRaise) TInside)) (seq 0 75) = scanner_positions /\
   forallb (fun pos => aborts_and_recovers 3 (burst pos 4 FRaise) TInside) scanner_positions = true) /\
  (forallb (fun pos => safe_and_recovers 3 (burst pos 3 FRaise) (TExternal [])) (seq 0 75) = true /\
   filter (fun pos => negb (aborts 3 (burst pos 3 FRaise) (TExternal []))) (seq 0 75) = scanner_positions /\
   forallb (fun pos => aborts_and_recovers 3 (burst pos 4 FRaise) (TExternal [])) scanner_positions = true) /\
  (forallb (fun pos => outcome_ok 3 (burst pos 3 FRaise) (TExternal uuid_parent)) (seq 0 75) = true /\
   filter (fun pos => negb (aborts 3 (burst pos 3 FRaise) (TExternal uuid_parent))) (seq 0 75) = scanner_positions).
Proof. repeat split; vm_compute; reflexivity. Qed.

(* within the budget (two consecutive raising calls) the run returns with the fault-free tree
   at every retried call: the 63 calls before the final, un-retried read *)
Definition returns_same (K : nat) (sched : list (option fault)) (tm : tmpmode) : bool :=
  negb (aborts K sched tm) && outcome_ok K sched tm.

Lemma within_budget_M :
  forallb (fun pos => returns_same 3 (burst pos 2 FRaise) TInside) (seq 0 63) = true /\
  forallb (fun pos => returns_same 3 (burst pos 2 FRaise) (TExternal [])) (seq 0 63) = true.
Proof. repeat split; vm_compute; reflexivity. Qed.

(* FileNotFoundError at rm on three consecutive attempts of rm_retry.  External temp
   directories: every one of the 9 removals targets something that exists (the prior dataset,
   4 temp directories, 4 placeholder directories), so the honest re-check keeps rm_retry
   retrying and the call raises -- in particular at the removal of a partition's temp
   directory, after which nothing else would remove it. *)
Lemma exhaust_fnf_rm_M :
  List.length (rm_positions (TExternal [])) = 9 /\
  forallb (fun pos => aborts_and_recovers 3 (alt pos 3 FNotFound) (TExternal [])) (rm_positions (TExternal [])) = true /\
  List.length (rm_positions (TExternal uuid_parent)) = 9 /\
  forallb (fun pos => aborts 3 (alt pos 3 FNotFound) (TExternal uuid_parent)) (rm_positions (TExternal uuid_parent)) = true /\
  List.length (rm_positions TInside) = 9 /\
  forallb (fun pos => outcome_ok 3 (alt pos 3 FNotFound) TInside && recover_ok 3 (alt pos 3 FNotFound) TInside)
          (rm_positions TInside) = true.
Proof. repeat split; vm_compute; reflexivity. Qed.
