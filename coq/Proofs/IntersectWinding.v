(* point_intersects_polygon at an integer point computes the declarative
   winding number of Spec/Plane.v (half-open crossing rule). *)
From Coq Require Import ZArith Reals Lra Lia Psatz Bool ZifyBool List.
From SP Require Import Model.Num Model.PointKernels Model.Intersect Spec.Plane.
Import ListNotations.

(* ---------------------------------------------------------------- the real side *)
Open Scope R_scope.

Lemma edge_x_at_sym : forall A B y, snd A <> snd B -> edge_x_at A B y = edge_x_at B A y.
Proof. intros [ax ay_] [bx by_] y N. unfold edge_x_at. simpl in *. field. lra. Qed.

(* for an edge from a lower point L to an upper point U: the point of the edge at
   height y is at or right of x  iff  (L - (x,y)) x (U - (x,y)) >= 0 *)
Lemma edge_x_at_cross : forall lx ly ux uy x y, ly < uy ->
  (x <= edge_x_at (lx, ly) (ux, uy) y <-> 0 <= (lx - x) * (uy - y) - (ly - y) * (ux - x)).
Proof.
  intros lx ly ux uy x y L. unfold edge_x_at. simpl.
  assert (E : (lx + (y - ly) * (ux - lx) / (uy - ly) - x) * (uy - ly) =
              (lx - x) * (uy - y) - (ly - y) * (ux - x)) by (field; lra).
  remember (lx + (y - ly) * (ux - lx) / (uy - ly)) as X eqn:EX. clear EX.
  split; intro H; nra.
Qed.

(* the half-open height test *)
Lemma above_diff_up : forall P A B, snd A < snd B ->
  (above P B - above P A)%Z = (if Rlt_dec (snd A) (snd P) then if Rle_dec (snd P) (snd B) then 1 else 0 else 0)%Z.
Proof.
  intros P A B L. unfold above.
  destruct (Rle_dec (snd P) (snd B)), (Rle_dec (snd P) (snd A)), (Rlt_dec (snd A) (snd P));
    try reflexivity; lra.
Qed.

Lemma above_diff_down : forall P A B, snd B < snd A ->
  (above P B - above P A)%Z = (if Rlt_dec (snd B) (snd P) then if Rle_dec (snd P) (snd A) then -1 else 0 else 0)%Z.
Proof.
  intros P A B L. unfold above.
  destruct (Rle_dec (snd P) (snd B)), (Rle_dec (snd P) (snd A)), (Rlt_dec (snd B) (snd P));
    try reflexivity; lra.
Qed.

(* ---------------------------------------------------------------- the integer side *)
Open Scope Z_scope.

(* the decision of the loop body for an edge from a lower L to an upper U *)
Definition pip_oriented (x y lx ly ux uy s : Z) : Z :=
  if (y <=? ly) || (uy <? y) || ((lx <? x) && (ux <? x)) then 0
  else if (x <=? lx) && (x <=? ux) then s
  else
    let axb := (lx - x) * (uy - y) - (ly - y) * (ux - x) in
    if (0 <? axb) || (axb =? 0) then s else 0.

Lemma pip_edge_oriented : forall x y ax ay_ bx by_,
  pip_edge x y ((ax, ay_), (bx, by_)) =
  if by_ =? ay_ then 0
  else if by_ <? ay_ then pip_oriented x y bx by_ ax ay_ (-1)
  else pip_oriented x y ax ay_ bx by_ 1.
Proof.
  intros. unfold pip_edge, pip_oriented.
  destruct (by_ =? ay_); [reflexivity|]. destruct (by_ <? ay_); reflexivity.
Qed.

(* the shortcuts agree with the sign of the cross product *)
Lemma pip_oriented_spec : forall x y lx ly ux uy s, ly < uy ->
  pip_oriented x y lx ly ux uy s =
  if (ly <? y) && (y <=? uy) && (0 <=? (lx - x) * (uy - y) - (ly - y) * (ux - x)) then s else 0.
Proof.
  intros x y lx ly ux uy s L. unfold pip_oriented.
  set (axb := (lx - x) * (uy - y) - (ly - y) * (ux - x)).
  destruct ((y <=? ly) || (uy <? y)) eqn:H1.
  - simpl. assert (((ly <? y) && (y <=? uy)) = false) as -> by lia. reflexivity.
  - assert (H1' : ly < y <= uy) by lia.
    assert (((ly <? y) && (y <=? uy)) = true) as -> by lia. simpl.
    destruct ((lx <? x) && (ux <? x)) eqn:H2.
    + assert (axb < 0) by (unfold axb; nia).
      assert ((0 <=? axb) = false) as -> by lia. reflexivity.
    + simpl. destruct ((x <=? lx) && (x <=? ux)) eqn:H3.
      * assert (0 <= axb) by (unfold axb; nia).
        assert ((0 <=? axb) = true) as -> by lia. reflexivity.
      * destruct ((0 <? axb) || (axb =? 0)) eqn:H4.
        -- assert ((0 <=? axb) = true) as -> by lia. reflexivity.
        -- assert ((0 <=? axb) = false) as -> by lia. reflexivity.
Qed.

(* the oriented decision is the declarative one *)
Lemma pip_oriented_wn : forall x y lx ly ux uy s, ly < uy ->
  (if (ly <? y) && (y <=? uy) && (0 <=? (lx - x) * (uy - y) - (ly - y) * (ux - x)) then s else 0) =
  if Rle_dec (IZR x) (edge_x_at (IZR lx, IZR ly) (IZR ux, IZR uy) (IZR y))
  then (if Rlt_dec (IZR ly) (IZR y) then if Rle_dec (IZR y) (IZR uy) then s else 0 else 0)
  else 0.
Proof.
  intros x y lx ly ux uy s L.
  assert (LR : (IZR ly < IZR uy)%R) by (now apply IZR_lt).
  pose proof (edge_x_at_cross (IZR lx) (IZR ly) (IZR ux) (IZR uy) (IZR x) (IZR y) LR) as HX.
  assert (EC : ((IZR lx - IZR x) * (IZR uy - IZR y) - (IZR ly - IZR y) * (IZR ux - IZR x))%R =
               IZR ((lx - x) * (uy - y) - (ly - y) * (ux - x))).
  { now rewrite minus_IZR, !mult_IZR, !minus_IZR. }
  rewrite EC in HX.
  set (axb := (lx - x) * (uy - y) - (ly - y) * (ux - x)) in *.
  destruct (Rle_dec (IZR x) (edge_x_at (IZR lx, IZR ly) (IZR ux, IZR uy) (IZR y))) as [Hx|Hx].
  - apply HX in Hx. apply (le_IZR 0) in Hx.
    assert ((0 <=? axb) = true) as -> by lia. rewrite andb_true_r.
    destruct (Rlt_dec (IZR ly) (IZR y)) as [H1|H1].
    + apply lt_IZR in H1. assert ((ly <? y) = true) as -> by lia. simpl.
      destruct (Rle_dec (IZR y) (IZR uy)) as [H2|H2].
      * apply le_IZR in H2. assert ((y <=? uy) = true) as -> by lia. reflexivity.
      * assert ((y <=? uy) = false) as ->; [|reflexivity].
        apply Z.leb_gt. apply Z.nle_gt. intro C. apply H2. now apply IZR_le.
    + assert ((ly <? y) = false) as ->; [|reflexivity].
      apply Z.ltb_ge. apply Z.nlt_ge. intro C. apply H1. now apply IZR_lt.
  - assert ((0 <=? axb) = false) as ->.
    { apply Z.leb_gt. apply Z.nle_gt. intro C. apply Hx. apply HX. now apply (IZR_le 0). }
    now rewrite andb_false_r.
Qed.

Theorem pip_edge_wn : forall x y A B,
  pip_edge x y (A, B) = wn_edge (IZR x, IZR y) (zp A) (zp B).
Proof.
  intros x y [ax ay_] [bx by_]. rewrite pip_edge_oriented. unfold wn_edge, zp. simpl fst. simpl snd.
  destruct (Req_EM_T (IZR ay_) (IZR by_)) as [E|N].
  - apply eq_IZR in E. subst. now rewrite Z.eqb_refl.
  - assert (Nz : by_ <> ay_) by (intro C; subst; now apply N).
    assert ((by_ =? ay_) = false) as -> by lia.
    destruct (by_ <? ay_) eqn:D.
    + (* descending: lower endpoint is B *)
      assert (L : by_ < ay_) by lia.
      rewrite pip_oriented_spec, pip_oriented_wn by assumption.
      rewrite (edge_x_at_sym (IZR ax, IZR ay_) (IZR bx, IZR by_)) by (simpl; assumption).
      rewrite (above_diff_down (IZR x, IZR y) (IZR ax, IZR ay_) (IZR bx, IZR by_))
        by (simpl; now apply IZR_lt).
      reflexivity.
    + assert (L : ay_ < by_) by lia.
      rewrite pip_oriented_spec, pip_oriented_wn by assumption.
      rewrite (above_diff_up (IZR x, IZR y) (IZR ax, IZR ay_) (IZR bx, IZR by_))
        by (simpl; now apply IZR_lt).
      reflexivity.
Qed.

(* ---------------------------------------------------------------- rings and polygons *)
Lemma fold_left_add_zsum : forall (l : list Z) acc,
  fold_left (fun a v => a + v) l acc = acc + zsum l.
Proof.
  induction l as [|v l IH]; intro acc; simpl; [lia|]. rewrite IH. unfold zsum. simpl. lia.
Qed.

Lemma fold_left_map_zsum {A} (f : A -> Z) : forall (l : list A) acc,
  fold_left (fun a e => a + f e) l acc = acc + zsum (map f l).
Proof.
  induction l as [|v l IH]; intro acc; simpl; [lia|]. rewrite IH. unfold zsum. simpl. lia.
Qed.

Theorem pip_ring_wn : forall x y ring,
  pip_ring x y ring = wn_ring (IZR x, IZR y) (zpairs ring).
Proof.
  intros. unfold pip_ring, wn_ring. rewrite fold_left_map_zsum. simpl. f_equal.
  apply map_ext. intros [A B]. apply pip_edge_wn.
Qed.

Theorem winding_number_wn : forall x y vals offs,
  winding_number x y vals offs = wn (map zpairs (rings_of vals offs)) (IZR x, IZR y).
Proof.
  intros. unfold winding_number, wn. rewrite fold_left_map_zsum. simpl. f_equal.
  rewrite map_map. apply map_ext. intro r. apply pip_ring_wn.
Qed.

Theorem pip_refines_wn : forall x y vals offs,
  point_intersects_polygon x y vals offs = true <->
  wn (map zpairs (rings_of vals offs)) (IZR x, IZR y) <> 0.
Proof.
  intros. unfold point_intersects_polygon. rewrite winding_number_wn.
  rewrite negb_true_iff, Z.eqb_neq. reflexivity.
Qed.
