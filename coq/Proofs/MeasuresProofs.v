(* Lemma library for C14, part 1: compute_area is the shoelace formula. *)
From Coq Require Import ZArith List Bool Arith Lia ZifyBool.
From SP Require Import Model.Num Model.Arrow Model.Measures Proofs.BoundsProofs Spec.MeasuresSpec.
Import ListNotations.
Local Open Scope nat_scope.

(* ================================================================== *)
(** * 1. list-level form of the loop and the telescoping identity       *)
(* ================================================================== *)

(* the main loop on a vertex list: sum over inner vertices of x_i*(y_{i+1}-y_{i-1}) *)
Fixpoint code_main (ps : list pt) : Z :=
  match ps with
  | p0 :: ((p1 :: ((p2 :: _) as t2)) as t1) =>
      (fst p1 * (snd p2 - snd p0) + code_main t1)%Z
  | _ => 0%Z
  end.

(* last and second-to-last vertex *)
Fixpoint last2 (ps : list pt) (d : pt * pt) : pt * pt :=
  match ps with
  | p :: ((q :: t') as t) => match t' with [] => (p, q) | _ => last2 t d end
  | _ => d
  end.

Lemma code_main_cons3 : forall p0 p1 p2 t,
  code_main (p0 :: p1 :: p2 :: t) =
  (fst p1 * (snd p2 - snd p0) + code_main (p1 :: p2 :: t))%Z.
Proof. reflexivity. Qed.

Lemma shoelace2_cons2 : forall p q t,
  shoelace2 (p :: q :: t) = (fst p * snd q - fst q * snd p + shoelace2 (q :: t))%Z.
Proof. reflexivity. Qed.

Lemma last2_cons3 : forall p q r t d, last2 (p :: q :: r :: t) d = last2 (q :: r :: t) d.
Proof. reflexivity. Qed.

(* code_main = shoelace - x0*y1 + x_last*y_secondlast *)
Lemma telescoping : forall t p0 p1 d,
  code_main (p0 :: p1 :: t) =
  (shoelace2 (p0 :: p1 :: t) - fst p0 * snd p1
   + fst (snd (last2 (p0 :: p1 :: t) d)) * snd (fst (last2 (p0 :: p1 :: t) d)))%Z.
Proof.
  induction t as [|p2 t IH]; intros p0 p1 d.
  - cbn. lia.
  - rewrite last2_cons3. specialize (IH p1 p2 d).
    rewrite code_main_cons3, IH, (shoelace2_cons2 p0 p1). lia.
Qed.

(* what the code computes for one ring of >= 3 vertices: main loop + wrap-around term *)
Definition code_area (ps : list pt) : Z :=
  match ps with
  | p0 :: p1 :: _ :: _ =>
      (code_main ps + fst p0 * (snd p1 - snd (fst (last2 ps (p0, p0)))))%Z
  | _ => 0%Z
  end.

Lemma last2_last : forall ps d d', 2 <= length ps -> snd (last2 ps d) = last ps d'.
Proof.
  induction ps as [|p t IH]; intros d d' H; [cbn in H; lia|].
  destruct t as [|q t']; [cbn in H; lia|].
  destruct t' as [|r t''].
  - reflexivity.
  - rewrite last2_cons3.
    change (last (p :: q :: r :: t'') d') with (last (q :: r :: t'') d').
    apply IH. cbn. lia.
Qed.

(* closure is needed only in x: the last x is never read by the code *)
Lemma code_area_shoelace_x : forall ps,
  3 <= length ps ->
  fst (last ps (0, 0)%Z) = fst (hd (0, 0)%Z ps) ->
  code_area ps = shoelace2 ps.
Proof.
  intros ps H Hx.
  destruct ps as [|p0 [|p1 [|p2 t]]]; cbn in H; try lia.
  unfold code_area.
  rewrite (telescoping (p2 :: t) p0 p1 (p0, p0)).
  rewrite (last2_last (p0 :: p1 :: p2 :: t) (p0, p0) (0, 0)%Z) by (cbn; lia).
  cbn [hd] in Hx. rewrite Hx. lia.
Qed.

Lemma last_indep : forall A (l : list A) d d', l <> [] -> last l d = last l d'.
Proof.
  induction l as [|x t IH]; intros d d' H; [congruence|].
  destruct t as [|y t']; [reflexivity|].
  change (last (x :: y :: t') d) with (last (y :: t') d).
  change (last (x :: y :: t') d') with (last (y :: t') d').
  apply IH. discriminate.
Qed.

Lemma closed_last : forall p ps d, closed (p :: ps) -> last (p :: ps) d = p.
Proof.
  intros p ps d H. unfold closed in H.
  rewrite (last_indep _ (p :: ps) d p) by discriminate. exact H.
Qed.

Lemma code_area_shoelace : forall ps, closed ps -> code_area ps = shoelace2 ps.
Proof.
  intros ps Hc.
  destruct ps as [|p0 [|p1 [|p2 t]]].
  - reflexivity.
  - reflexivity.
  - (* two vertices, closed: p1 = p0 *)
    cbn in Hc. subst p1. cbn. lia.
  - apply code_area_shoelace_x; [cbn; lia|].
    rewrite (closed_last _ _ _ Hc). reflexivity.
Qed.

(* ================================================================== *)
(** * 2. the index-based loops compute the list-level forms             *)
(* ================================================================== *)

Lemma flatz_length : forall ps, length (flatz ps) = 2 * length ps.
Proof. induction ps as [|p t IH]; cbn [flatz flat_map length app]; [reflexivity | fold (flatz t); rewrite IH; lia]. Qed.

Lemma vget_app_flatz0 : forall pre p t post,
  vget (pre ++ flatz (p :: t) ++ post) (length pre) = Some (fst p).
Proof.
  intros. unfold vget. rewrite app_nth2 by lia. rewrite Nat.sub_diag. reflexivity.
Qed.

Lemma vget_app_flatz1 : forall pre p t post,
  vget (pre ++ flatz (p :: t) ++ post) (length pre + 1) = Some (snd p).
Proof.
  intros. unfold vget. rewrite app_nth2 by lia.
  replace (length pre + 1 - length pre) with 1 by lia. reflexivity.
Qed.

Lemma app_flatz_shift : forall pre p t post,
  pre ++ flatz (p :: t) ++ post = (pre ++ [Some (fst p); Some (snd p)]) ++ flatz t ++ post.
Proof. intros. cbn. rewrite <- app_assoc. reflexivity. Qed.

Lemma area_main_spec : forall ps pre post acc,
  area_main (pre ++ flatz ps ++ post) (length ps - 2) (length pre) (Some acc) =
  Some (acc + code_main ps)%Z.
Proof.
  induction ps as [|p0 t IH]; intros pre post acc.
  - cbn. f_equal. lia.
  - destruct t as [|p1 [|p2 t2]].
    + cbn. f_equal. lia.
    + cbn. f_equal. lia.
    + replace (length (p0 :: p1 :: p2 :: t2) - 2) with (S (length (p1 :: p2 :: t2) - 2))
        by (cbn [length]; lia).
      cbn [area_main].
      assert (Hx1 : vget (pre ++ flatz (p0 :: p1 :: p2 :: t2) ++ post) (length pre + 2)
                    = Some (fst p1)).
      { rewrite app_flatz_shift.
        replace (length pre + 2) with (length (pre ++ [Some (fst p0); Some (snd p0)]))
          by (rewrite app_length; cbn; lia).
        apply vget_app_flatz0. }
      assert (Hy2 : vget (pre ++ flatz (p0 :: p1 :: p2 :: t2) ++ post) (length pre + 4 + 1)
                    = Some (snd p2)).
      { rewrite app_flatz_shift, app_flatz_shift.
        replace (length pre + 4 + 1)
          with (length ((pre ++ [Some (fst p0); Some (snd p0)])
                          ++ [Some (fst p1); Some (snd p1)]) + 1)
          by (rewrite !app_length; cbn; lia).
        apply vget_app_flatz1. }
      assert (Hy0 : vget (pre ++ flatz (p0 :: p1 :: p2 :: t2) ++ post) (length pre + 1)
                    = Some (snd p0)) by apply vget_app_flatz1.
      rewrite Hx1, Hy2, Hy0. cbn [nadd nmul nsub].
      rewrite app_flatz_shift.
      replace (length pre + 2) with (length (pre ++ [Some (fst p0); Some (snd p0)]))
        by (rewrite app_length; cbn; lia).
      rewrite IH. rewrite code_main_cons3. f_equal. lia.
Qed.

Lemma range2_count_even : forall s n, range2_count s (s + 2 * n) = n.
Proof.
  intros s n. unfold range2_count.
  replace (s + 2 * n - s + 1) with (1 + n * 2) by lia.
  rewrite Nat.div_add by lia. reflexivity.
Qed.

Lemma range2_count_odd : forall s n, range2_count s (s + 2 * n + 1) = n + 1.
Proof.
  intros s n. unfold range2_count.
  replace (s + 2 * n + 1 - s + 1) with ((n + 1) * 2) by lia.
  apply Nat.div_mul. lia.
Qed.

(* the second-to-last y: values[stop - 3] *)
Lemma vget_secondlast_y : forall ps pre post d,
  2 <= length ps ->
  vget (pre ++ flatz ps ++ post) (length pre + 2 * length ps - 3) = Some (snd (fst (last2 ps d))).
Proof.
  induction ps as [|p t IH]; intros pre post d H; [cbn in H; lia|].
  destruct t as [|q t']; [cbn in H; lia|].
  destruct t' as [|r t''].
  - cbn [length last2 fst].
    replace (length pre + 2 * 2 - 3) with (length pre + 1) by lia.
    apply vget_app_flatz1.
  - rewrite last2_cons3, app_flatz_shift.
    replace (length pre + 2 * length (p :: q :: r :: t'') - 3)
      with (length (pre ++ [Some (fst p); Some (snd p)]) + 2 * length (q :: r :: t'') - 3)
      by (rewrite app_length; cbn [length]; lia).
    apply IH. cbn. lia.
Qed.

(* one ring laid out anywhere in a values buffer *)
Lemma area_ring_spec : forall ps pre post acc,
  area_ring (pre ++ flatz ps ++ post) (length pre) (length pre + 2 * length ps) (Some acc) =
  Some (acc + code_area ps)%Z.
Proof.
  intros ps pre post acc. unfold area_ring.
  replace (length pre + 2 * length ps - length pre) with (2 * length ps) by lia.
  destruct (Nat.ltb (2 * length ps) 6) eqn:E.
  - apply Nat.ltb_lt in E.
    destruct ps as [|p0 [|p1 [|p2 t]]]; cbn in E; try lia; cbn [code_area]; f_equal; lia.
  - apply Nat.ltb_ge in E.
    destruct ps as [|p0 [|p1 [|p2 t]]]; cbn in E; try lia.
    set (ps := p0 :: p1 :: p2 :: t) in *.
    replace (length pre + 2 * length ps - 4) with (length pre + 2 * (length ps - 2))
      by (subst ps; cbn [length]; lia).
    rewrite range2_count_even, area_main_spec.
    assert (H0 : vget (pre ++ flatz ps ++ post) (length pre) = Some (fst p0))
      by apply vget_app_flatz0.
    assert (H1 : vget (pre ++ flatz ps ++ post) (length pre + 3) = Some (snd p1)).
    { subst ps. rewrite app_flatz_shift.
      replace (length pre + 3) with (length (pre ++ [Some (fst p0); Some (snd p0)]) + 1)
        by (rewrite app_length; cbn; lia).
      apply vget_app_flatz1. }
    rewrite H0, H1, (vget_secondlast_y ps pre post (p0, p0)) by (subst ps; cbn; lia).
    cbn [nadd nmul nsub]. unfold code_area. subst ps. cbv beta iota.
    f_equal. lia.
Qed.

(* a ring of fewer than 3 vertices is skipped whatever it holds (NaN included) *)
Lemma area_ring_short : forall vals start stop acc,
  stop - start < 6 -> area_ring vals start stop acc = acc.
Proof.
  intros vals start stop acc H. unfold area_ring.
  apply Nat.ltb_lt in H. rewrite H. reflexivity.
Qed.

(* the slice form: a ring delimited by two offsets of a values buffer *)
Lemma slice_decompose : forall A (l : list A) s e,
  s <= e -> e <= length l -> l = firstn s l ++ slice s e l ++ skipn e l.
Proof.
  intros A l s e Hse He. unfold slice.
  rewrite <- (firstn_skipn s l) at 1. f_equal.
  rewrite <- (firstn_skipn (e - s) (skipn s l)) at 1. f_equal.
  rewrite <- skipn_add. f_equal. lia.
Qed.

Lemma area_ring_slice : forall vals start stop ps acc,
  start <= stop -> stop <= length vals ->
  slice start stop vals = flatz ps ->
  area_ring vals start stop (Some acc) = Some (acc + code_area ps)%Z.
Proof.
  intros vals start stop ps acc Hse He Hs.
  pose proof (slice_decompose _ vals start stop Hse He) as D.
  pose proof (slice_length _ start stop vals He) as L.
  rewrite Hs, flatz_length in L.
  rewrite Hs in D.
  assert (Hl : length (firstn start vals) = start) by (rewrite firstn_length; lia).
  transitivity (area_ring (firstn start vals ++ flatz ps ++ skipn stop vals)
                          (length (firstn start vals))
                          (length (firstn start vals) + 2 * length ps) (Some acc)).
  - rewrite <- D. f_equal; lia.
  - apply area_ring_spec.
Qed.

(* ================================================================== *)
(** * 3. area_is_shoelace and its companions                            *)
(* ================================================================== *)

Theorem area_is_shoelace : forall vals start stop ps,
  start <= stop -> stop <= length vals ->
  slice start stop vals = flatz ps ->
  closed ps ->
  compute_area vals [start; stop] = Some (shoelace2 ps).
Proof.
  intros vals start stop ps Hse He Hs Hc.
  unfold compute_area. cbn [area_loop].
  rewrite (area_ring_slice vals start stop ps 0 Hse He Hs).
  rewrite code_area_shoelace by exact Hc. reflexivity.
Qed.

Lemma shoelace2_short : forall ps, closed ps -> length ps < 3 -> shoelace2 ps = 0%Z.
Proof.
  intros ps Hc H.
  destruct ps as [|p0 [|p1 [|p2 t]]]; cbn in H; try lia; try reflexivity.
  cbn in Hc. subst p1. cbn. lia.
Qed.

Theorem area_lt3_zero : forall vals start stop,
  stop - start < 6 -> compute_area vals [start; stop] = Some 0%Z.
Proof.
  intros. unfold compute_area. cbn [area_loop]. apply area_ring_short. assumption.
Qed.

(* reversal negates *)
Lemma shoelace2_app1 : forall ps p q,
  shoelace2 (ps ++ [p; q]) = (shoelace2 (ps ++ [p]) + (fst p * snd q - fst q * snd p))%Z.
Proof.
  induction ps as [|a t IH]; intros p q.
  - cbn. lia.
  - destruct t as [|b t'].
    + cbn. lia.
    + change ((a :: b :: t') ++ [p; q]) with (a :: b :: (t' ++ [p; q])).
      change ((a :: b :: t') ++ [p]) with (a :: b :: (t' ++ [p])).
      rewrite !shoelace2_cons2.
      change (b :: t' ++ [p; q]) with ((b :: t') ++ [p; q]).
      change (b :: t' ++ [p]) with ((b :: t') ++ [p]).
      rewrite IH. lia.
Qed.

Theorem area_rev : forall ps, shoelace2 (rev ps) = (- shoelace2 ps)%Z.
Proof.
  induction ps as [|p t IH]; [reflexivity|].
  destruct t as [|q t'].
  - reflexivity.
  - rewrite shoelace2_cons2.
    change (rev (p :: q :: t')) with ((rev t' ++ [q]) ++ [p]).
    rewrite <- app_assoc. change ([q] ++ [p]) with [q; p].
    rewrite shoelace2_app1.
    change (rev t' ++ [q]) with (rev (q :: t')). rewrite IH. lia.
Qed.

(* translation invariance needs closure *)
Lemma shoelace2_translate_gen : forall ps dx dy,
  shoelace2 (translate dx dy ps) =
  (shoelace2 ps
   + dx * (snd (last ps (0, 0)) - snd (hd (0, 0) ps))
   - dy * (fst (last ps (0, 0)) - fst (hd (0, 0) ps)))%Z.
Proof.
  induction ps as [|p t IH]; intros dx dy.
  - cbn. lia.
  - destruct t as [|q t'].
    + cbn. lia.
    + change (translate dx dy (p :: q :: t'))
        with ((fst p + dx, snd p + dy)%Z :: translate dx dy (q :: t')).
      change (translate dx dy (q :: t'))
        with ((fst q + dx, snd q + dy)%Z :: translate dx dy t') at 1.
      rewrite shoelace2_cons2.
      change ((fst q + dx, snd q + dy)%Z :: translate dx dy t')
        with (translate dx dy (q :: t')).
      rewrite IH. rewrite (shoelace2_cons2 p q).
      change (last (p :: q :: t') (0, 0)%Z) with (last (q :: t') (0, 0)%Z).
      cbn [hd fst snd]. lia.
Qed.

Theorem area_translate : forall ps dx dy,
  closed ps -> shoelace2 (translate dx dy ps) = shoelace2 ps.
Proof.
  intros ps dx dy Hc. rewrite shoelace2_translate_gen.
  destruct ps as [|p t]; [cbn; lia|].
  rewrite (closed_last _ _ _ Hc). cbn [hd]. lia.
Qed.

Lemma translate_closed : forall ps dx dy, closed ps -> closed (translate dx dy ps).
Proof.
  intros ps dx dy Hc. destruct ps as [|p t]; [exact I|].
  pose proof (closed_last _ _ p Hc) as HL.
  unfold closed, translate. cbn [map].
  change ((fst p + dx, snd p + dy)%Z :: map (fun q : Z * Z => (fst q + dx, snd q + dy)%Z) t)
    with (map (fun q : Z * Z => (fst q + dx, snd q + dy)%Z) (p :: t)).
  rewrite (last_map _ _ _ (p :: t) p) by discriminate.
  rewrite HL. reflexivity.
Qed.

(* the code on an unclosed ring: neither the shoelace value nor translation invariant *)
Definition unclosed_witness : list pt := [(0, 0); (2, 1); (1, 2)]%Z.

Theorem area_unclosed_refuted :
  exists ps dx dy,
    ~ closed ps /\
    compute_area (flatz ps) [0; 2 * length ps] <> Some (shoelace2 ps) /\
    compute_area (flatz (translate dx dy ps)) [0; 2 * length ps]
      <> compute_area (flatz ps) [0; 2 * length ps].
Proof.
  exists unclosed_witness, 1%Z, 0%Z. split; [|split].
  - vm_compute. intro H. discriminate H.
  - vm_compute. discriminate.
  - vm_compute. discriminate.
Qed.
