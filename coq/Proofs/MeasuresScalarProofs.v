(* Lemma library for C14, part 5: scalar forms, and scalar = array form on the
   freshly encoded element (what arr[i] builds: the element's own nested lists,
   offsets starting at 0). *)
From Coq Require Import ZArith List Bool Arith Lia ZifyBool.
From SP Require Import Model.Num Model.Arrow Model.Measures Proofs.BoundsProofs
  Spec.MeasuresSpec Proofs.MeasuresProofs Proofs.MeasuresMapProofs Proofs.MeasuresArrayProofs.
Import ListNotations.
Local Open Scope nat_scope.

(* ================================================================== *)
(** * 1. fresh encodings                                                 *)
(* ================================================================== *)

(* offsets of consecutive lists starting at s *)
Fixpoint offs_from {A} (s : nat) (ls : list (list A)) : list nat :=
  s :: match ls with
       | [] => []
       | l :: t => offs_from (s + length l) t
       end.

(* a Line / Ring scalar built from its coordinate list: .values is a plain array *)
Definition fresh1 (r : list num) : listarr :=
  {| la_off := 0; la_len := length r; la_valid := None; la_offs := []; la_vals := r |}.

(* a MultiLine / Polygon scalar built from its lines / rings *)
Definition fresh2 (rings : list (list num)) : listarr :=
  {| la_off := 0; la_len := length rings; la_valid := None;
     la_offs := [offs_from 0 rings]; la_vals := concat rings |}.

(* a MultiPolygon scalar built from its polygons (lists of rings) *)
Definition fresh3 (parts : list (list (list num))) : listarr :=
  {| la_off := 0; la_len := length parts; la_valid := None;
     la_offs := [offs_from 0 parts; offs_from 0 (concat parts)];
     la_vals := concat (concat parts) |}.

Lemma offs_from_cons : forall A s (l : list A) t,
  offs_from s (l :: t) = s :: offs_from (s + length l) t.
Proof. reflexivity. Qed.

Lemma offs_from_length : forall A (ls : list (list A)) s, length (offs_from s ls) = length ls + 1.
Proof.
  induction ls as [|l t IH]; intros s; [reflexivity|].
  rewrite offs_from_cons. cbn [length]. rewrite IH. lia.
Qed.

Lemma offs_from_hd : forall A (ls : list (list A)) s, exists t, offs_from s ls = s :: t.
Proof. intros A [|l t] s; eexists; reflexivity. Qed.

Lemma offs_from_mono : forall A (ls : list (list A)) s, mono (offs_from s ls) = true.
Proof.
  induction ls as [|l t IH]; intros s; [reflexivity|].
  rewrite offs_from_cons.
  destruct (offs_from_hd _ t (s + length l)) as (u & E).
  pose proof (IH (s + length l)) as M. rewrite E in M |- *.
  rewrite mono_cons2, M, andb_true_r. apply Nat.leb_le. lia.
Qed.

Lemma offs_from_last : forall A (ls : list (list A)) s,
  last (offs_from s ls) 0 = s + length (concat ls).
Proof.
  induction ls as [|l t IH]; intros s; [cbn; lia|].
  rewrite offs_from_cons.
  destruct (offs_from_hd _ t (s + length l)) as (u & E).
  pose proof (IH (s + length l)) as L. rewrite E in L |- *.
  change (last (s :: s + length l :: u) 0) with (last (s + length l :: u) 0).
  rewrite L. cbn [concat]. rewrite app_length. lia.
Qed.

Lemma offs_from_even : forall (ls : list (list num)) s,
  Nat.even s = true -> Forall (fun l => Nat.even (length l) = true) ls ->
  all_even (offs_from s ls) = true.
Proof.
  induction ls as [|l t IH]; intros s Hs H.
  - unfold all_even. cbn. rewrite Hs. reflexivity.
  - inversion H as [|? ? Hl Ht]; subst.
    rewrite offs_from_cons. unfold all_even. cbn [forallb]. rewrite Hs.
    apply (IH (s + length l)); [|exact Ht].
    rewrite Nat.even_add, Hs, Hl. reflexivity.
Qed.

(* decoding a fresh encoding gives the lists back *)
Lemma segs_offs_from : forall A (ls : list (list A)) pre post,
  segs (pre ++ concat ls ++ post) (offs_from (length pre) ls) = ls.
Proof.
  induction ls as [|l t IH]; intros pre post; [reflexivity|].
  rewrite offs_from_cons.
  destruct (offs_from_hd _ t (length pre + length l)) as (u & E).
  rewrite E, segs_cons2, <- E. f_equal.
  - cbn [concat]. rewrite <- app_assoc.
    unfold slice. rewrite skipn_app, skipn_all2, Nat.sub_diag by lia. cbn [skipn app].
    replace (length pre + length l - length pre) with (length l) by lia.
    rewrite firstn_app, Nat.sub_diag, firstn_all. cbn [firstn]. apply app_nil_r.
  - cbn [concat]. rewrite <- app_assoc, app_assoc.
    replace (length pre + length l) with (length (pre ++ l)) by (rewrite app_length; lia).
    apply IH.
Qed.

Lemma segs_offs_from0 : forall A (ls : list (list A)),
  segs (concat ls) (offs_from 0 ls) = ls.
Proof.
  intros A ls. pose proof (segs_offs_from A ls [] []) as H.
  cbn [app length] in H. rewrite app_nil_r in H. exact H.
Qed.

(* ================================================================== *)
(** * 2. the rings a fresh scalar holds                                  *)
(* ================================================================== *)

Lemma sc_rings_fresh1 : forall r, sc_rings (fresh1 r) = [r].
Proof.
  intros r. unfold sc_rings, sc_inner_offsets, sc_buffer_offsets, fresh1, buffer_values.
  cbn [la_offs la_len la_vals segs]. rewrite slice_all by lia. reflexivity.
Qed.

Lemma sc_inner_fresh2 : forall rings, sc_inner_offsets (fresh2 rings) = offs_from 0 rings.
Proof.
  intros rings. unfold sc_inner_offsets, sc_buffer_offsets, fresh2.
  cbn [la_offs]. unfold buffer_offsets. cbn [la_offs la_off la_len].
  apply slice_all. rewrite offs_from_length. lia.
Qed.

Lemma sc_rings_fresh2 : forall rings, sc_rings (fresh2 rings) = rings.
Proof.
  intros rings. unfold sc_rings. rewrite sc_inner_fresh2.
  unfold fresh2, buffer_values. cbn [la_vals]. apply segs_offs_from0.
Qed.

Lemma sc_inner_fresh3 : forall parts,
  sc_inner_offsets (fresh3 parts) = offs_from 0 (concat parts).
Proof.
  intros parts. unfold sc_inner_offsets, sc_buffer_offsets, fresh3.
  cbn [la_offs]. unfold buffer_offsets. cbn [la_offs la_off la_len].
  rewrite slice_all by (rewrite offs_from_length; lia).
  cbn [removelast fold_left last].
  destruct (offs_from_hd _ parts 0) as (u & E).
  assert (H0 : getn (offs_from 0 parts) 0 = 0) by (rewrite E; reflexivity).
  assert (HL : getn (offs_from 0 parts) (length (offs_from 0 parts) - 1)
               = length (concat parts)).
  { unfold getn. rewrite <- last_nth_pred, offs_from_last. lia. }
  rewrite H0, HL.
  apply slice_all. rewrite offs_from_length. lia.
Qed.

Lemma sc_rings_fresh3 : forall parts, sc_rings (fresh3 parts) = concat parts.
Proof.
  intros parts. unfold sc_rings. rewrite sc_inner_fresh3.
  unfold fresh3, buffer_values. cbn [la_vals]. apply segs_offs_from0.
Qed.

(* ================================================================== *)
(** * 3. scalar forms of fresh scalars are the ring-level measures       *)
(* ================================================================== *)

Definition all_even_len (rings : list (list num)) : Prop :=
  Forall (fun l => Nat.even (length l) = true) rings.

Lemma kernels_on_fresh : forall rings,
  all_even_len rings ->
  compute_area (concat rings) (offs_from 0 rings) = rings_area rings /\
  compute_line_length (concat rings) (offs_from 0 rings) = rings_length rings.
Proof.
  intros rings Hev.
  assert (Hm : mono (offs_from 0 rings) = true) by apply offs_from_mono.
  assert (He : all_even (offs_from 0 rings) = true) by (apply offs_from_even; [reflexivity | exact Hev]).
  assert (Hl : last (offs_from 0 rings) 0 <= length (concat rings))
    by (rewrite offs_from_last; lia).
  rewrite compute_area_rings, compute_length_rings by assumption.
  rewrite segs_offs_from0. split; reflexivity.
Qed.

Theorem scalar_fresh2 : forall k rings,
  all_even_len rings ->
  sc_area k (fresh2 rings) = spec_area k rings /\
  sc_length k (fresh2 rings) = spec_length k rings.
Proof.
  intros k rings Hev. destruct (kernels_on_fresh rings Hev) as (HA & HL).
  unfold sc_area, sc_length, spec_area, spec_length.
  rewrite sc_inner_fresh2. unfold buffer_values.
  change (la_vals (fresh2 rings)) with (concat rings).
  destruct k; rewrite ?HA, ?HL; split; reflexivity.
Qed.

Theorem scalar_fresh3 : forall k parts,
  all_even_len (concat parts) ->
  sc_area k (fresh3 parts) = spec_area k (concat parts) /\
  sc_length k (fresh3 parts) = spec_length k (concat parts).
Proof.
  intros k parts Hev. destruct (kernels_on_fresh (concat parts) Hev) as (HA & HL).
  unfold sc_area, sc_length, spec_area, spec_length.
  rewrite sc_inner_fresh3. unfold buffer_values.
  change (la_vals (fresh3 parts)) with (concat (concat parts)).
  destruct k; rewrite ?HA, ?HL; split; reflexivity.
Qed.

Theorem scalar_fresh1 : forall k r,
  Nat.even (length r) = true ->
  sc_area k (fresh1 r) = spec_area k [r] /\
  sc_length k (fresh1 r) = spec_length k [r].
Proof.
  intros k r Hev.
  assert (Hev' : all_even_len [r]) by (constructor; [exact Hev | constructor]).
  destruct (kernels_on_fresh [r] Hev') as (HA & HL).
  cbn [concat offs_from] in HA, HL. rewrite app_nil_r, Nat.add_0_l in HA, HL.
  unfold sc_area, sc_length, spec_area, spec_length.
  unfold sc_inner_offsets, sc_buffer_offsets, fresh1, buffer_values. cbn [la_offs la_len la_vals].
  destruct k; rewrite ?HA, ?HL; split; reflexivity.
Qed.

(* ================================================================== *)
(** * 4. the rings of an element have whole (x, y) pairs; parts          *)
(* ================================================================== *)

Lemma segs_even : forall vals o,
  mono o = true -> all_even o = true -> last o 0 <= length vals ->
  all_even_len (segs vals o).
Proof.
  intros vals o. induction o as [|a t IH]; intros Hm Hev Hl; [constructor|].
  destruct t as [|b t']; [constructor|].
  destruct (offs_step a b t' _ Hm Hev Hl) as (Hab & Hb & Eab & Hm' & Hev' & Hl').
  rewrite segs_cons2. constructor.
  - rewrite slice_length by exact Hb. exact Eab.
  - apply IH; assumption.
Qed.

Lemma all_even_len_slice : forall s e rings, all_even_len rings -> all_even_len (slice s e rings).
Proof.
  intros s e rings H. unfold all_even_len in *. rewrite Forall_forall in *.
  intros x Hx. apply H. eapply in_slice, Hx.
Qed.

Theorem elem_rings_even : forall a,
  wf_listarr a = true -> even_inner a = true -> 1 <= length (la_offs a) <= 3 ->
  forall i, i < la_len a -> all_even_len (elem_rings a i).
Proof.
  intros a Hwf Hev Hd i Hi.
  unfold elem_rings, buffer_offsets.
  destruct (la_offs a) as [|o0 [|o1 [|o2 [|? ?]]]] eqn:E; cbn [length] in Hd; try lia.
  - destruct (wf1 a o0 E Hwf) as (Hlen & Hm0 & Hl0).
    destruct (o0s_facts a o0 Hlen Hm0) as (HL & Hms & Hstep & Hle & Hin).
    fold (o0s a o0). unfold even_inner in Hev. rewrite E in Hev. cbn [last] in Hev.
    rewrite forallb_forall in Hev.
    constructor; [|constructor].
    pose proof (Hle (i + 1) ltac:(lia)) as H1.
    rewrite slice_length by (unfold buffer_values; lia).
    apply even_sub; apply Hev, Hin; lia.
  - destruct (wf2 a o0 o1 E Hwf) as (Hlen & Hm0 & Hl0 & Hm1 & Hl1).
    unfold even_inner in Hev. rewrite E in Hev. cbn [last] in Hev.
    apply all_even_len_slice, segs_even; assumption.
  - destruct (wf3 a o0 o1 o2 E Hwf) as (Hlen & Hm0 & Hl0 & Hm1 & Hl1 & Hm2 & Hl2).
    unfold even_inner in Hev. rewrite E in Hev. cbn [last] in Hev.
    apply all_even_len_slice, segs_even; assumption.
Qed.

(* the rings of a multipolygon element are the rings of its parts, in order *)
Lemma concat_slices : forall A (L : list A) o1 s n,
  mono o1 = true -> s + n < length o1 ->
  concat (map (fun p => slice (getn o1 p) (getn o1 (p + 1)) L) (seq s n)) =
  slice (getn o1 s) (getn o1 (s + n)) L.
Proof.
  intros A L o1 s n Hm. revert s. induction n as [|n IH]; intros s Hs.
  - cbn [seq map concat]. rewrite Nat.add_0_r, slice_same. reflexivity.
  - cbn [seq map concat]. rewrite IH by lia.
    replace (S s + n) with (s + S n) by lia.
    replace (S s) with (s + 1) by lia.
    symmetry. apply slice_split; unfold getn; apply mono_nth; try assumption; lia.
Qed.

Theorem elem_parts_rings : forall a o0 o1 o2,
  la_offs a = [o0; o1; o2] -> wf_listarr a = true ->
  forall i, i < la_len a -> concat (elem_parts a i) = elem_rings a i.
Proof.
  intros a o0 o1 o2 E Hwf i Hi.
  destruct (wf3 a o0 o1 o2 E Hwf) as (Hlen & Hm0 & Hl0 & Hm1 & Hl1 & Hm2 & Hl2).
  destruct (o0s_facts a o0 Hlen Hm0) as (HL & Hms & Hstep & Hle & Hin).
  unfold elem_parts, elem_rings, buffer_offsets. rewrite E. fold (o0s a o0).
  pose proof (Hstep i Hi) as S1. pose proof (Hle (i + 1) ltac:(lia)) as S2.
  rewrite concat_slices by (try assumption; lia).
  replace (getn (o0s a o0) i + (getn (o0s a o0) (i + 1) - getn (o0s a o0) i))
    with (getn (o0s a o0) (i + 1)) by lia.
  reflexivity.
Qed.

(* ================================================================== *)
(** * 5. scalar form = array form                                        *)
(* ================================================================== *)

(* the scalar the library builds for element i: its own nested lists, re-encoded *)
Definition fresh_scalar (k : kind) (a : listarr) (i : nat) : listarr :=
  match k with
  | KMultiPoint | KLine | KRing => fresh1 (hd [] (elem_rings a i))
  | KMultiLine | KPolygon => fresh2 (elem_rings a i)
  | KMultiPolygon => fresh3 (elem_parts a i)
  end.

Theorem scalar_array_agree : forall k a i,
  length (la_offs a) = depth k -> wf_listarr a = true -> even_inner a = true ->
  i < la_len a -> isna_at (la_valid a) (la_off a) i = false ->
  nth i (arr_area k a) None = sc_area k (fresh_scalar k a i) /\
  nth i (arr_length k a) None = Some (sc_length k (fresh_scalar k a i)).
Proof.
  intros k a i Hd Hwf Hev Hi Hna.
  destruct (array_is_map k a Hd Hwf Hev) as (HA & HL).
  assert (NA : nth i (arr_area k a) None = spec_area k (elem_rings a i)).
  { rewrite HA.
    pose proof (nth_map_seq num
      (fun i0 => if isna_at (la_valid a) (la_off a) i0 then None
                 else spec_area k (elem_rings a i0)) (la_len a) i None Hi) as N.
    cbv beta in N. rewrite Hna in N. exact N. }
  assert (NL : nth i (arr_length k a) None = Some (spec_length k (elem_rings a i))).
  { rewrite HL.
    pose proof (nth_map_seq (option lenres)
      (fun i0 => if isna_at (la_valid a) (la_off a) i0 then None
                 else Some (spec_length k (elem_rings a i0))) (la_len a) i None Hi) as N.
    cbv beta in N. rewrite Hna in N. exact N. }
  rewrite NA, NL. clear HA HL NA NL.
  assert (Hd3 : 1 <= length (la_offs a) <= 3) by (rewrite Hd; destruct k; cbn; lia).
  pose proof (elem_rings_even a Hwf Hev Hd3 i Hi) as Hevr.
  assert (H1 : depth k = 1 -> exists r, elem_rings a i = [r]).
  { intros D1. rewrite D1 in Hd. unfold elem_rings, buffer_offsets.
    destruct (la_offs a) as [|o0 [|? ?]]; cbn [length] in Hd; try lia. eexists. reflexivity. }
  destruct k; cbn [depth] in *; unfold fresh_scalar.
  - destruct (H1 eq_refl) as (r & Er). rewrite Er in *. cbn [hd].
    inversion Hevr; subst.
    destruct (scalar_fresh1 KMultiPoint r ltac:(assumption)) as (-> & ->). split; reflexivity.
  - destruct (H1 eq_refl) as (r & Er). rewrite Er in *. cbn [hd].
    inversion Hevr; subst.
    destruct (scalar_fresh1 KLine r ltac:(assumption)) as (-> & ->). split; reflexivity.
  - destruct (H1 eq_refl) as (r & Er). rewrite Er in *. cbn [hd].
    inversion Hevr; subst.
    destruct (scalar_fresh1 KRing r ltac:(assumption)) as (-> & ->). split; reflexivity.
  - destruct (scalar_fresh2 KMultiLine _ Hevr) as (-> & ->). split; reflexivity.
  - destruct (scalar_fresh2 KPolygon _ Hevr) as (-> & ->). split; reflexivity.
  - destruct (la_offs a) as [|o0 [|o1 [|o2 [|? ?]]]] eqn:E; cbn [length] in Hd; try lia.
    pose proof (elem_parts_rings a o0 o1 o2 E Hwf i Hi) as EP.
    rewrite <- EP in Hevr |- *.
    destruct (scalar_fresh3 KMultiPolygon _ Hevr) as (-> & ->). split; reflexivity.
Qed.

(* ================================================================== *)
(** * 6. scalar boundary                                                 *)
(* ================================================================== *)

(* MultiPolygon.boundary holds exactly the rings of the element, in order *)
Theorem scalar_boundary_fresh3 : forall parts,
  sc_rings (sc_multipolygon_boundary (fresh3 parts)) = concat parts.
Proof.
  intros parts.
  unfold sc_multipolygon_boundary, fresh3, buffer_offsets. cbn [la_offs la_off la_len].
  rewrite slice_all by (rewrite offs_from_length; lia).
  destruct (offs_from_hd _ parts 0) as (u & E).
  assert (H0 : getn (offs_from 0 parts) 0 = 0) by (rewrite E; reflexivity).
  assert (HL : getn (offs_from 0 parts) (length (offs_from 0 parts) - 1)
               = length (concat parts)).
  { unfold getn. rewrite <- last_nth_pred, offs_from_last. lia. }
  rewrite H0, HL.
  rewrite slice_all by (rewrite offs_from_length; lia).
  unfold sc_rings, sc_inner_offsets, sc_buffer_offsets, buffer_offsets, buffer_values.
  cbn [la_offs la_off la_len la_vals].
  rewrite offs_from_length.
  rewrite slice_all by (rewrite offs_from_length; lia).
  apply segs_offs_from0.
Qed.

(* Polygon.boundary is the same ListScalar read as a MultiLine *)
Theorem scalar_boundary_polygon : forall s, sc_rings (sc_polygon_boundary s) = sc_rings s.
Proof. reflexivity. Qed.

(* ================================================================== *)
(** * 7. the ring-level decoding refines the flat decoding of Model/Arrow.v *)
(* ================================================================== *)

Lemma concat_slice_segs : forall A (vals : list A) o s e,
  mono o = true -> s <= e -> e < length o ->
  concat (slice s e (segs vals o)) = slice (getn o s) (getn o e) vals.
Proof.
  intros A vals o s e Hm Hse He.
  rewrite segs_seq, slice_map, slice_seq by lia.
  pose proof (concat_slices A vals o s (e - s) Hm ltac:(lia)) as C.
  replace (s + (e - s)) with e in C by lia. rewrite <- C.
  f_equal. apply map_ext. intros p. replace (p + 1) with (S p) by lia. reflexivity.
Qed.

Theorem elem_rings_flat : forall a,
  wf_listarr a = true -> 1 <= length (la_offs a) <= 3 ->
  forall i, i < la_len a -> concat (elem_rings a i) = elem_flat a i.
Proof.
  intros a Hwf Hd i Hi.
  unfold elem_rings, elem_flat, buffer_outer_offsets, buffer_offsets.
  destruct (la_offs a) as [|o0 [|o1 [|o2 [|? ?]]]] eqn:E; cbn [length] in Hd; try lia.
  - cbn [fold_left concat]. rewrite app_nil_r. replace (S i) with (i + 1) by lia. reflexivity.
  - destruct (wf2 a o0 o1 E Hwf) as (Hlen & Hm0 & Hl0 & Hm1 & Hl1).
    destruct (o0s_facts a o0 Hlen Hm0) as (HL & Hms & Hstep & Hle & Hin).
    fold (o0s a o0). cbn [fold_left].
    pose proof (Hstep i Hi). pose proof (Hle (i + 1) ltac:(lia)).
    rewrite concat_slice_segs by (try assumption; lia).
    rewrite !getn_map_getn by (rewrite HL; lia).
    replace (S i) with (i + 1) by lia. reflexivity.
  - destruct (wf3 a o0 o1 o2 E Hwf) as (Hlen & Hm0 & Hl0 & Hm1 & Hl1 & Hm2 & Hl2).
    destruct (o0s_facts a o0 Hlen Hm0) as (HL & Hms & Hstep & Hle & Hin).
    fold (o0s a o0). cbn [fold_left].
    pose proof (Hstep i Hi) as S1. pose proof (Hle (i + 1) ltac:(lia)) as S2.
    assert (S3 : getn o1 (getn (o0s a o0) i) <= getn o1 (getn (o0s a o0) (i + 1)))
      by (unfold getn at 1 3; apply mono_nth; [exact Hm1 | exact S1 | lia]).
    assert (S4 : getn o1 (getn (o0s a o0) (i + 1)) <= last o1 0).
    { apply mono_le_last; [exact Hm1|]. unfold getn at 1. apply nth_In. lia. }
    rewrite concat_slice_segs by (try assumption; lia).
    rewrite !getn_map_getn by (rewrite ?map_length, HL; lia).
    replace (S i) with (i + 1) by lia. reflexivity.
Qed.
