(* C04: the per-class facts [kind_ok] (Proofs/CxProofs.v), read off the code
   path of Model/Intersect.v:
     covered_implies_intersects   a finite bounding box inside a box of positive
                                  width and height  =>  intersects_bounds = True
     bbox reject                  intersects_bounds = True  =>  the bounding box
                                  overlaps the box
   together with the bookkeeping (result length, forms agree, bounds rows). *)
From Coq Require Import ZArith List Bool Arith Lia ZifyBool Permutation.
From SP Require Import Model.Num Model.Arrow Model.Bounds Model.PointKernels
     Model.Intersect Model.Rtree Model.Cx.
From SP Require Import Spec.BoundsSpec Spec.Boxes Spec.IntersectSpec Spec.CxSpec.
From SP Require Import Proofs.BoundsProofs Proofs.RtreeLists Proofs.IntersectBase
     Proofs.IntersectBounds Proofs.IntersectPoints Proofs.IntersectPolygon
     Proofs.CxLists Proofs.CxProofs.
Import ListNotations.
Local Open Scope nat_scope.

(* ------------------------------------------------------------ bounds rows *)
Lemma tight_wf_box : forall vs, wf_box 2 (row_of_bbox (total_bounds_interleaved vs)).
Proof.
  intros vs. pose proof (kernel_tight vs) as T.
  destruct (total_bounds_interleaved vs) as [[[b0 b1] b2] b3].
  destruct T as [Tx Ty]. split; [reflexivity|].
  intros Hf k Hk. cbn in Hf.
  unfold extent in Tx, Ty.
  destruct (xs_of vs) as [|x xs].
  { destruct Tx as [-> _]. discriminate Hf. }
  destruct (ys_of vs) as [|y ys].
  { destruct Ty as [-> _]. cbn in Hf. destruct b0; discriminate Hf. }
  destruct Tx as (a & b & -> & -> & [Ia Ha] & [Ib Hb]).
  destruct Ty as (c & d & -> & -> & [Ic Hc] & [Id Hd]).
  destruct k as [|[|k]]; [| |lia]; cbn; apply Z.leb_le.
  - apply Ha, Ib.
  - apply Hc, Id.
Qed.

Lemma la_wf_box : forall a, wf_listarr a = true ->
  Forall (wf_box 2) (map row_of_bbox (la_bounds a)).
Proof.
  intros a W. rewrite la_bounds_rows by exact W. rewrite map_map.
  apply Forall_forall. intros r Hr. apply in_map_iff in Hr. destruct Hr as [i [<- _]].
  apply tight_wf_box.
Qed.

Lemma finite_vals_map : forall l vals, finite_vals l = Some vals -> l = map Some vals.
Proof.
  induction l as [|[v|] t IH]; intros vals H; cbn in H.
  - inversion H. reflexivity.
  - destruct (finite_vals t) as [r|]; [|discriminate]. inversion H; subst. cbn. f_equal. now apply IH.
  - discriminate.
Qed.

(* row i of self.bounds is the box the kernels compute for element i *)
Lemma la_bb : forall a vals i, wf_listarr a = true ->
  finite_vals (buffer_values a) = Some vals -> i < la_len a ->
  nth i (la_bounds a) nanbox = zbounds (elem_coords a vals i).
Proof.
  intros a vals i W F Hi. rewrite la_bounds_nth by assumption.
  unfold elem_flat, elem_coords, zbounds. rewrite (finite_vals_map _ _ F).
  now rewrite slice_map.
Qed.

(* ------------------------------------------------- boxes of [zbounds] rows *)
Lemma coveredb_zb : forall seg x0 y0 x1 y1,
  coveredb 2 (row_of_bbox (zbounds seg)) [x0; y0; x1; y1] = true ->
  exists p ps a b c d,
    zpairs seg = p :: ps /\ zbounds seg = (Some a, Some b, Some c, Some d) /\
    (x0 <= a /\ c <= x1 /\ y0 <= b /\ d <= y1)%Z /\
    (forall q, In q (p :: ps) -> (a <= fst q <= c /\ b <= snd q <= d)%Z) /\
    (exists q, In q (p :: ps) /\ fst q = a) /\ (exists q, In q (p :: ps) /\ snd q = b) /\
    (exists q, In q (p :: ps) /\ fst q = c) /\ (exists q, In q (p :: ps) /\ snd q = d).
Proof.
  intros seg x0 y0 x1 y1 H.
  destruct (zpairs seg) as [|p ps] eqn:E.
  - rewrite (zbounds_nil seg E) in H. discriminate H.
  - destruct (zbounds_cons seg p ps E) as (a & b & c & d & Eb & Hall & Ha & Hb & Hc & Hd).
    exists p, ps, a, b, c, d. rewrite Eb in H. cbn in H.
    split; [reflexivity|]. split; [exact Eb|]. split; [lia|]. split; [exact Hall|]. tauto.
Qed.

Lemma overlapsb_zb : forall a b c d x0 y0 x1 y1,
  (a <= x1 -> x0 <= c -> b <= y1 -> y0 <= d ->
   overlapsb 2 (row_of_bbox (Some a, Some b, Some c, Some d)) [x0; y0; x1; y1] = true)%Z.
Proof. intros. cbn. lia. Qed.

Lemma orient_box_id : forall x0 y0 x1 y1, (x0 <= x1)%Z -> (y0 <= y1)%Z ->
  orient_box (x0, y0, x1, y1) = (x0, y0, x1, y1).
Proof.
  intros. unfold orient_box.
  destruct (Z.ltb_spec x1 x0); [lia|]. destruct (Z.ltb_spec y1 y0); [lia|]. reflexivity.
Qed.

(* the shared prefix of _perform_line_intersect_bounds and
   _perform_polygon_intersect_bounds: NaN bounds, bbox reject, projection shortcut *)
Lemma prefix_covered : forall (a b c d a' b' c' d' x0 y0 x1 y1 : Z),
  (x0 <= a /\ c <= x1 /\ y0 <= b /\ d <= y1)%Z ->
  (a <= a' /\ a' <= c' /\ c' <= c /\ b <= b' /\ b' <= d' /\ d' <= d)%Z ->
  let bnd := (Some a', Some b', Some c', Some d') in
  bounds_nan bnd = false /\ bounds_reject bnd x0 y0 x1 y1 = false /\
  bounds_shortcut bnd x0 y0 x1 y1 = true.
Proof. intros. cbn. lia. Qed.

(* ------------------------------------------------------ one-level kinds *)
Section OneLevel.
  Variable a : listarr.
  Variable vals : list Z.
  Hypothesis W : wf_listarr a = true.
  Hypothesis F : finite_vals (buffer_values a) = Some vals.

  Let oo := buffer_outer_offsets a.

  Lemma oo_len : length oo = S (la_len a).
  Proof. apply length_outer_offsets, W. Qed.

  Lemma len_kernel_map : forall (K : nat * nat -> bool),
    length (map K (combine (removelast oo) (tl oo))) = la_len a.
  Proof.
    intros K. rewrite map_length, combine_length, length_removelast, length_tl, oo_len. lia.
  Qed.

  (* MultiPointArray *)
  Lemma multipoint_whole : forall b,
    multipoint_array a b None = Some (map (multipoint_kernel b vals) (combine (removelast oo) (tl oo))).
  Proof.
    intros b. unfold multipoint_array. rewrite W, F. cbn [negb].
    rewrite starts_stops_none, multipoints_as_map. reflexivity.
  Qed.

  Lemma multipoint_hits : forall b i, i < la_len a ->
    row_hits (GMultiPoint a) b i = multipoint_kernel b vals (getn oo i, getn oo (S i)).
  Proof.
    intros b i Hi. unfold row_hits. cbn [g_intersects_bounds]. rewrite multipoint_whole.
    apply nth_map_opairs. rewrite oo_len. lia.
  Qed.

  Lemma multipoint_ok : kind_ok (GMultiPoint a).
  Proof.
    constructor.
    - intros b. eexists. split; [apply multipoint_whole | apply len_kernel_map].
    - intros b inds. cbn [g_intersects_bounds].
      destruct forms_agree_all as (_ & H & _). apply H.
    - cbn. apply la_bounds_length, W.
    - cbn. apply la_wf_box, W.
    - intros x0 y0 x1 y1 i Hx Hy Hi Hc. cbn [g_len] in Hi.
      rewrite multipoint_hits by exact Hi.
      unfold bb in Hc. cbn [g_bounds] in Hc. rewrite (la_bb a vals i W F Hi) in Hc.
      apply coveredb_zb in Hc.
      destruct Hc as (p & ps & ba & bb_ & bc & bd & Ep & _ & Hin & Hall & _).
      unfold multipoint_kernel. rewrite orient_box_id by lia.
      unfold perform_multipoint. fold oo. unfold elem_coords in Ep. fold oo in Ep. rewrite Ep.
      cbn [existsb]. specialize (Hall p (or_introl eq_refl)).
      destruct p as [px py]. cbn in Hall |- *.
      apply orb_true_iff. left. lia.
    - intros x0 y0 x1 y1 i Hx Hy Hi Hh. cbn [g_len] in Hi.
      rewrite multipoint_hits in Hh by exact Hi.
      unfold bb. cbn [g_bounds]. rewrite (la_bb a vals i W F Hi).
      unfold multipoint_kernel in Hh. rewrite orient_box_id in Hh by lia.
      unfold perform_multipoint in Hh. fold oo in Hh.
      unfold elem_coords. fold oo.
      apply existsb_exists in Hh. destruct Hh as [[px py] [Hin Hr]].
      destruct (zpairs (slice (getn oo i) (getn oo (S i)) vals)) as [|p ps] eqn:Ep; [destruct Hin|].
      destruct (zbounds_cons _ p ps Ep) as (ba & bb_ & bc & bd & Eb & Hall & _).
      rewrite Eb. specialize (Hall _ Hin). cbn in Hall, Hr.
      apply overlapsb_zb; lia.
  Qed.

  (* LineArray / RingArray *)
  Lemma line_whole : forall b,
    line_array a b None = Some (map (line_kernel b vals) (combine (removelast oo) (tl oo))).
  Proof.
    intros b. unfold line_array. rewrite W, F. cbn [negb].
    rewrite starts_stops_none, lines_as_map; [reflexivity|].
    rewrite length_removelast, length_tl. reflexivity.
  Qed.

  Lemma line_hits : forall b i, i < la_len a ->
    row_hits (GLine a) b i = line_kernel b vals (getn oo i, getn oo (S i)).
  Proof.
    intros b i Hi. unfold row_hits. cbn [g_intersects_bounds]. rewrite line_whole.
    apply nth_map_opairs. rewrite oo_len. lia.
  Qed.

  Lemma line_ok : kind_ok (GLine a).
  Proof.
    constructor.
    - intros b. eexists. split; [apply line_whole | apply len_kernel_map].
    - intros b inds. cbn [g_intersects_bounds].
      destruct forms_agree_all as (_ & _ & H & _). apply H.
    - cbn. apply la_bounds_length, W.
    - cbn. apply la_wf_box, W.
    - intros x0 y0 x1 y1 i Hx Hy Hi Hc. cbn [g_len] in Hi.
      rewrite line_hits by exact Hi.
      unfold bb in Hc. cbn [g_bounds] in Hc. rewrite (la_bb a vals i W F Hi) in Hc.
      apply coveredb_zb in Hc.
      destruct Hc as (p & ps & ba & bb_ & bc & bd & Ep & Eb & Hin & Hall & _).
      unfold line_kernel. rewrite orient_box_id by lia.
      destruct (Z.eqb_spec x0 x1); [lia|]. destruct (Z.eqb_spec y0 y1); [lia|]. cbn [orb].
      unfold perform_line. fold oo. unfold elem_coords in Eb. fold oo in Eb. rewrite Eb.
      specialize (Hall p (or_introl eq_refl)).
      destruct (prefix_covered ba bb_ bc bd ba bb_ bc bd x0 y0 x1 y1 Hin ltac:(lia)) as (N & R & S).
      rewrite N, R, S. reflexivity.
    - intros x0 y0 x1 y1 i Hx Hy Hi Hh. cbn [g_len] in Hi.
      rewrite line_hits in Hh by exact Hi.
      unfold bb. cbn [g_bounds]. rewrite (la_bb a vals i W F Hi).
      unfold line_kernel in Hh. rewrite orient_box_id in Hh by lia.
      destruct ((x0 =? x1)%Z || (y0 =? y1)%Z); [discriminate Hh|].
      unfold perform_line in Hh. fold oo in Hh. unfold elem_coords. fold oo.
      destruct (zpairs (slice (getn oo i) (getn oo (S i)) vals)) as [|p ps] eqn:Ep.
      { rewrite (zbounds_nil _ Ep) in Hh. discriminate Hh. }
      destruct (zbounds_cons _ p ps Ep) as (ba & bb_ & bc & bd & Eb & _).
      rewrite Eb in Hh |- *. cbn [bounds_nan] in Hh.
      destruct (bounds_reject (Some ba, Some bb_, Some bc, Some bd) x0 y0 x1 y1) eqn:R;
        [discriminate Hh|].
      cbn in R. apply overlapsb_zb; lia.
  Qed.
End OneLevel.

(* --------------------------------------------------------------- PointArray *)
Section Points.
  Variable a : fixarr.
  Variable slots : list (option pt).
  Hypothesis W : wf_fixarr a = true.
  Hypothesis AS : all_some (map (point_slot a) (seq 0 (fa_len a))) = Some slots.

  Lemma slots_len : length slots = fa_len a.
  Proof. destruct (all_some_nth _ _ AS) as [L _]. now rewrite map_length, seq_length in L. Qed.

  Lemma slot_nth : forall i, i < fa_len a -> point_slot a i = Some (nth i slots None).
  Proof.
    intros i Hi. destruct (all_some_nth _ _ AS) as [_ N].
    specialize (N i None). rewrite map_length, seq_length in N. specialize (N Hi).
    rewrite IntersectPoints.nth_map_seq in N by exact Hi. exact N.
  Qed.

  Lemma point_whole : forall b, point_array a b None = Some (map (point_test b) slots).
  Proof. intros b. unfold point_array. rewrite W, AS. reflexivity. Qed.

  Lemma point_hits : forall b i,
    row_hits (GPoint a) b i = point_test b (nth i slots None).
  Proof.
    intros b i. unfold row_hits. cbn [g_intersects_bounds]. rewrite point_whole.
    rewrite <- (point_test_none b) at 1. apply map_nth.
  Qed.

  Lemma point_row : forall i, i < fa_len a ->
    bb (GPoint a) i =
    match nth i slots None with
    | None => nanbox
    | Some (x, y) => (Some x, Some y, Some x, Some y)
    end.
  Proof.
    intros i Hi. unfold bb. cbn [g_bounds]. rewrite fa_bounds_rows by exact W.
    change nanbox with ((fun p => total_bounds_interleaved (point_coords p)) None) at 1.
    rewrite map_nth.
    pose proof (slot_nth i Hi) as S.
    destruct (nth i slots None) as [[x y]|] eqn:E.
    - apply (point_slot_decode a i W Hi) in S. rewrite S. reflexivity.
    - unfold point_slot in S. unfold fa_decode.
      rewrite IntersectPoints.nth_map_seq by exact Hi.
      destruct (isna_at (fa_valid a) (fa_off a) i); [reflexivity|].
      destruct (nth (2 * i) (fa_flat_values a) None), (nth (2 * i + 1) (fa_flat_values a) None);
        discriminate S.
  Qed.

  Lemma point_ok : kind_ok (GPoint a).
  Proof.
    constructor.
    - intros b. eexists. split; [apply point_whole|]. rewrite map_length. apply slots_len.
    - intros b inds. cbn [g_intersects_bounds].
      destruct forms_agree_all as (H & _). apply H.
    - cbn. rewrite fa_bounds_rows by exact W. rewrite map_length. unfold fa_decode.
      now rewrite map_length, seq_length.
    - cbn. rewrite fa_bounds_rows by exact W. rewrite map_map.
      apply Forall_forall. intros r Hr. apply in_map_iff in Hr. destruct Hr as [p [<- _]].
      apply tight_wf_box.
    - intros x0 y0 x1 y1 i Hx Hy Hi Hc. cbn [g_len] in Hi.
      rewrite point_hits. rewrite (point_row i Hi) in Hc.
      destruct (nth i slots None) as [[x y]|]; cbn in Hc; [|discriminate Hc].
      unfold point_test. rewrite orient_box_id by lia. lia.
    - intros x0 y0 x1 y1 i Hx Hy Hi Hh. cbn [g_len] in Hi.
      rewrite point_hits in Hh. rewrite (point_row i Hi).
      destruct (nth i slots None) as [[x y]|]; [|rewrite point_test_none in Hh; discriminate Hh].
      unfold point_test in Hh. rewrite orient_box_id in Hh by lia.
      apply overlapsb_zb; lia.
  Qed.
End Points.

(* ------------------------------------------------------ two-level kinds *)
Section TwoLevel.
  Variable a : listarr.
  Variable vals : list Z.
  Variables o0 o1 : list nat.
  Hypothesis W : wf_listarr a = true.
  Hypothesis F : finite_vals (buffer_values a) = Some vals.
  Hypothesis HB : buffer_offsets a = [o0; o1].

  Lemma o0_len : length o0 = S (la_len a).
  Proof. eapply length_first_offsets; [exact W | exact HB]. Qed.

  Lemma outer2 : buffer_outer_offsets a = map (getn o1) o0.
  Proof. unfold buffer_outer_offsets. rewrite HB. reflexivity. Qed.

  Lemma elem2 : forall i, i <= la_len a ->
    getn (buffer_outer_offsets a) i = getn o1 (getn o0 i).
  Proof. intros i Hi. rewrite outer2. apply getn_map_getn. rewrite o0_len. lia. Qed.

  Lemma len_kernel_map2 : forall (K : nat * nat -> bool),
    length (map K (combine (removelast o0) (tl o0))) = la_len a.
  Proof.
    intros K. rewrite map_length, combine_length, length_removelast, length_tl, o0_len. lia.
  Qed.

  (* PolygonArray *)
  Lemma polygon_whole : forall b,
    polygon_array a b None =
    Some (map (polygon_kernel b vals o1) (combine (removelast o0) (tl o0))).
  Proof.
    intros b. unfold polygon_array. rewrite W, HB, F. cbn [negb].
    rewrite starts_stops_none, polygons_as_map. reflexivity.
  Qed.

  Lemma polygon_hits : forall b i, i < la_len a ->
    row_hits (GPolygon a) b i = polygon_kernel b vals o1 (getn o0 i, getn o0 (S i)).
  Proof.
    intros b i Hi. unfold row_hits. cbn [g_intersects_bounds]. rewrite polygon_whole.
    apply nth_map_opairs. rewrite o0_len. lia.
  Qed.

  Lemma polygon_seg : forall i, i < la_len a ->
    slice (getn o1 (getn o0 i)) (getn o1 (getn o0 (S i))) vals = elem_coords a vals i.
  Proof. intros i Hi. unfold elem_coords. rewrite !elem2 by lia. reflexivity. Qed.

  Lemma polygon_ok : kind_ok (GPolygon a).
  Proof.
    constructor.
    - intros b. eexists. split; [apply polygon_whole | apply len_kernel_map2].
    - intros b inds. cbn [g_intersects_bounds].
      destruct forms_agree_all as (_ & _ & _ & _ & H & _). apply H.
    - cbn. apply la_bounds_length, W.
    - cbn. apply la_wf_box, W.
    - intros x0 y0 x1 y1 i Hx Hy Hi Hc. cbn [g_len] in Hi.
      rewrite polygon_hits by exact Hi.
      unfold bb in Hc. cbn [g_bounds] in Hc. rewrite (la_bb a vals i W F Hi) in Hc.
      apply coveredb_zb in Hc.
      destruct Hc as (p & ps & ba & bb_ & bc & bd & Ep & Eb & Hin & Hall & _).
      unfold polygon_kernel. rewrite orient_box_id by lia.
      unfold perform_polygon. rewrite (polygon_seg i Hi), Eb.
      specialize (Hall p (or_introl eq_refl)).
      destruct (prefix_covered ba bb_ bc bd ba bb_ bc bd x0 y0 x1 y1 Hin ltac:(lia)) as (N & R & S).
      rewrite N, R, S. reflexivity.
    - intros x0 y0 x1 y1 i Hx Hy Hi Hh. cbn [g_len] in Hi.
      rewrite polygon_hits in Hh by exact Hi.
      unfold bb. cbn [g_bounds]. rewrite (la_bb a vals i W F Hi).
      unfold polygon_kernel in Hh. rewrite orient_box_id in Hh by lia.
      unfold perform_polygon in Hh. rewrite (polygon_seg i Hi) in Hh.
      destruct (zpairs (elem_coords a vals i)) as [|p ps] eqn:Ep.
      { rewrite (zbounds_nil _ Ep) in Hh. discriminate Hh. }
      destruct (zbounds_cons _ p ps Ep) as (ba & bb_ & bc & bd & Eb & _).
      rewrite Eb in Hh |- *. cbn [bounds_nan] in Hh.
      destruct (bounds_reject (Some ba, Some bb_, Some bc, Some bd) x0 y0 x1 y1) eqn:R;
        [discriminate Hh|].
      cbn in R. apply overlapsb_zb; lia.
  Qed.
End TwoLevel.

(* ------------------------------ elements made of parts (multiline, multipolygon) *)
Lemma rings_of_opairs : forall (vals : list Z) offs,
  rings_of vals offs = map (fun '(s, e) => slice s e vals) (opairs offs).
Proof.
  intros vals. induction offs as [|x [|y t] IH]; try reflexivity.
  change (rings_of vals (x :: y :: t)) with (slice x y vals :: rings_of vals (y :: t)).
  change (opairs (x :: y :: t)) with ((x, y) :: opairs (y :: t)).
  cbn [map]. now rewrite IH.
Qed.

Lemma forallb_slice : forall (f : nat -> bool) s e l,
  forallb f l = true -> forallb f (slice s e l) = true.
Proof.
  intros f s e l H. apply forallb_forall. intros x Hx.
  rewrite forallb_forall in H. apply H. eapply in_slice, Hx.
Qed.

(* the vertices of an element are those of its parts, when the part offsets
   [offs] are monotone, even and inside the values buffer *)
Lemma parts_pairs : forall (vals : list Z) offs,
  mono offs = true -> forallb Nat.even offs = true -> last offs 0 <= length vals ->
  zpairs (slice (hd 0 offs) (last offs 0) vals) = concat (map zpairs (rings_of vals offs)).
Proof.
  intros vals offs M E L.
  rewrite <- zpairs_concat by (now apply rings_even).
  now rewrite rings_concat.
Qed.

(* what the part-wise kernels need: given the vertices [E] of the element and
   its parts, a part's bounding box lies inside the element's *)
Section Parts.
  Variable vals : list Z.
  Variable offs : list nat.
  Variable eseg : list Z.
  Hypothesis Hcat : zpairs eseg = concat (map zpairs (rings_of vals offs)).

  Lemma part_in_elem : forall s e q,
    In (s, e) (opairs offs) -> In q (zpairs (slice s e vals)) -> In q (zpairs eseg).
  Proof.
    intros s e q Hse Hq. rewrite Hcat. apply in_concat.
    exists (zpairs (slice s e vals)). split; [|exact Hq].
    apply in_map. rewrite rings_of_opairs. apply in_map_iff. exists (s, e). split; [reflexivity | exact Hse].
  Qed.

  Lemma elem_has_part : forall q, In q (zpairs eseg) ->
    exists s e, In (s, e) (opairs offs) /\ In q (zpairs (slice s e vals)).
  Proof.
    intros q Hq. rewrite Hcat in Hq. apply in_concat in Hq. destruct Hq as [l [Hl Hq]].
    apply in_map_iff in Hl. destruct Hl as [r [<- Hr]].
    rewrite rings_of_opairs in Hr. apply in_map_iff in Hr. destruct Hr as [[s e] [<- Hse]].
    exists s, e. split; assumption.
  Qed.

  (* covered element => some part passes NaN check, bbox reject and takes the shortcut *)
  Lemma covered_part : forall x0 y0 x1 y1,
    coveredb 2 (row_of_bbox (zbounds eseg)) [x0; y0; x1; y1] = true ->
    exists s e, In (s, e) (opairs offs) /\
      let bnd := zbounds (slice s e vals) in
      bounds_nan bnd = false /\ bounds_reject bnd x0 y0 x1 y1 = false /\
      bounds_shortcut bnd x0 y0 x1 y1 = true.
  Proof.
    intros x0 y0 x1 y1 Hc. apply coveredb_zb in Hc.
    destruct Hc as (p & ps & ba & bb_ & bc & bd & Ep & Eb & Hin & Hall & _).
    rewrite <- Ep in Hall.
    destruct (elem_has_part p) as (s & e & Hse & Hp); [rewrite Ep; now left|].
    exists s, e. split; [exact Hse|].
    destruct (zpairs (slice s e vals)) as [|q qs] eqn:Eq; [destruct Hp|].
    destruct (zbounds_cons _ q qs Eq) as (a' & b' & c' & d' & Eb' & Hall' & (qa & Ia & Ea) &
                                          (qb & Ib & Eb2) & (qc & Ic & Ec) & (qd & Id & Ed)).
    rewrite Eb'.
    pose proof (Hall' q (or_introl eq_refl)) as Hq.
    rewrite <- Eq in Ia, Ib, Ic, Id.
    pose proof (Hall _ (part_in_elem s e qa Hse Ia)) as Ha.
    pose proof (Hall _ (part_in_elem s e qb Hse Ib)) as Hb.
    pose proof (Hall _ (part_in_elem s e qc Hse Ic)) as Hc.
    pose proof (Hall _ (part_in_elem s e qd Hse Id)) as Hd.
    apply (prefix_covered ba bb_ bc bd a' b' c' d' x0 y0 x1 y1 Hin). lia.
  Qed.

  (* a part that passes NaN check and bbox reject => the element's box overlaps *)
  Lemma part_overlaps : forall x0 y0 x1 y1 s e,
    In (s, e) (opairs offs) ->
    bounds_nan (zbounds (slice s e vals)) = false ->
    bounds_reject (zbounds (slice s e vals)) x0 y0 x1 y1 = false ->
    overlapsb 2 (row_of_bbox (zbounds eseg)) [x0; y0; x1; y1] = true.
  Proof.
    intros x0 y0 x1 y1 s e Hse N R.
    destruct (zpairs (slice s e vals)) as [|q qs] eqn:Eq.
    { rewrite (zbounds_nil _ Eq) in N. discriminate N. }
    destruct (zbounds_cons _ q qs Eq) as (a' & b' & c' & d' & Eb' & Hall' & (qa & Ia & Ea) &
                                          (qb & Ib & Eb2) & (qc & Ic & Ec) & (qd & Id & Ed)).
    rewrite Eb' in R. cbn in R. rewrite <- Eq in Ia, Ib, Ic, Id.
    pose proof (part_in_elem s e qa Hse Ia) as Ja.
    pose proof (part_in_elem s e qb Hse Ib) as Jb.
    pose proof (part_in_elem s e qc Hse Ic) as Jc.
    pose proof (part_in_elem s e qd Hse Id) as Jd.
    destruct (zpairs eseg) as [|p ps] eqn:Ep; [destruct Ja|].
    destruct (zbounds_cons _ p ps Ep) as (ba & bb_ & bc & bd & Eb & Hall & _).
    rewrite Eb.
    pose proof (Hall _ Ja) as Ha. pose proof (Hall _ Jb) as Hb.
    pose proof (Hall _ Jc) as Hc. pose proof (Hall _ Jd) as Hd.
    apply overlapsb_zb; lia.
  Qed.
End Parts.

(* the offsets of a well-formed two-level array *)
Lemma wf2 : forall a o0 o1, wf_listarr a = true -> buffer_offsets a = [o0; o1] ->
  exists O0, o0 = slice (la_off a) (la_off a + la_len a + 1) O0 /\
    mono O0 = true /\ last O0 0 < length o1 /\ mono o1 = true /\
    last o1 0 <= length (la_vals a).
Proof.
  intros a o0 o1 W HB. unfold buffer_offsets in HB. unfold wf_listarr in W.
  destruct (la_offs a) as [|O0 rest]; [discriminate HB|]. inversion HB; subst.
  exists O0. split; [reflexivity|].
  apply andb_prop in W. destruct W as [W _]. cbn [wf_levels] in W.
  rewrite !andb_true_iff in W. destruct W as [[A B] [[A' B'] D]].
  apply Nat.ltb_lt in A'. apply Nat.leb_le in D.
  repeat split; assumption.
Qed.

Section MultiLine.
  Variable a : listarr.
  Variable vals : list Z.
  Variables o0 o1 : list nat.
  Hypothesis W : wf_listarr a = true.
  Hypothesis F : finite_vals (buffer_values a) = Some vals.
  Hypothesis HB : buffer_offsets a = [o0; o1].
  (* every line starts on an (x, y) pair boundary of the values buffer *)
  Hypothesis Hev : forallb Nat.even o1 = true.

  Lemma vals_len : length vals = length (la_vals a).
  Proof.
    pose proof (finite_vals_map _ _ F) as E. unfold buffer_values in E. rewrite E.
    now rewrite map_length.
  Qed.

  Lemma ring_offsets_ok : forall i, i < la_len a ->
    wf_ring_offsets vals o1 (getn o0 i) (getn o0 (S i)).
  Proof.
    intros i Hi. destruct (wf2 a o0 o1 W HB) as (O0 & E0 & M0 & L0 & M1 & L1).
    pose proof (o0_len a o0 o1 W HB) as Len0.
    assert (Mo0 : mono o0 = true) by (rewrite E0; apply mono_slice, M0).
    assert (Hs : getn o0 i <= getn o0 (S i)) by (unfold getn; apply mono_nth; [exact Mo0 | lia | lia]).
    assert (He : getn o0 (S i) < length o1).
    { assert (In (getn o0 (S i)) O0).
      { unfold getn. eapply in_slice. rewrite <- E0. apply nth_In. lia. }
      pose proof (mono_le_last O0 _ M0 H). lia. }
    unfold wf_ring_offsets. cbv zeta.
    split; [exact Hs|]. split; [exact He|].
    split; [apply mono_slice, M1|]. split; [apply forallb_slice, Hev|].
    set (poffs := slice (getn o0 i) (getn o0 (S i) + 1) o1).
    assert (Hne : poffs <> []).
    { intros E. assert (L : length poffs = getn o0 (S i) + 1 - getn o0 i)
        by (unfold poffs; apply BoundsProofs.slice_length; lia).
      rewrite E in L. cbn in L. lia. }
    pose proof (last_in nat poffs 0 Hne) as Hl. apply in_slice in Hl.
    pose proof (mono_le_last o1 _ M1 Hl). rewrite vals_len. lia.
  Qed.

  Lemma ml_cat : forall i, i < la_len a ->
    zpairs (elem_coords a vals i) =
    concat (map zpairs (rings_of vals (slice (getn o0 i) (getn o0 (S i) + 1) o1))).
  Proof.
    intros i Hi. rewrite <- (polygon_seg a vals o0 o1 W HB i Hi).
    apply polygon_vertices_concat, ring_offsets_ok, Hi.
  Qed.

  Lemma multiline_whole : forall b,
    multiline_array a b None =
    Some (map (multiline_kernel b vals o1) (combine (removelast o0) (tl o0))).
  Proof.
    intros b. unfold multiline_array. rewrite W, HB, F. cbn [negb].
    rewrite starts_stops_none, multilines_as_map; [reflexivity|].
    rewrite length_removelast, length_tl. reflexivity.
  Qed.

  Lemma multiline_hits : forall b i, i < la_len a ->
    row_hits (GMultiLine a) b i = multiline_kernel b vals o1 (getn o0 i, getn o0 (S i)).
  Proof.
    intros b i Hi. unfold row_hits. cbn [g_intersects_bounds]. rewrite multiline_whole.
    apply nth_map_opairs. rewrite (o0_len a o0 o1 W HB). lia.
  Qed.

  Lemma multiline_ok : kind_ok (GMultiLine a).
  Proof.
    constructor.
    - intros b. eexists. split; [apply multiline_whole | apply (len_kernel_map2 a o0 o1 W HB)].
    - intros b inds. cbn [g_intersects_bounds].
      destruct forms_agree_all as (_ & _ & _ & H & _). apply H.
    - cbn. apply la_bounds_length, W.
    - cbn. apply la_wf_box, W.
    - intros x0 y0 x1 y1 i Hx Hy Hi Hc. cbn [g_len] in Hi.
      rewrite multiline_hits by exact Hi.
      unfold bb in Hc. cbn [g_bounds] in Hc. rewrite (la_bb a vals i W F Hi) in Hc.
      destruct (covered_part vals _ _ (ml_cat i Hi) x0 y0 x1 y1 Hc) as (s & e & Hse & N & R & S).
      unfold multiline_kernel. rewrite orient_box_id by lia.
      destruct (Z.eqb_spec x0 x1); [lia|]. destruct (Z.eqb_spec y0 y1); [lia|]. cbn [orb].
      unfold perform_multiline. apply existsb_exists. exists (s, e). split; [exact Hse|].
      unfold perform_line. rewrite N, R, S. reflexivity.
    - intros x0 y0 x1 y1 i Hx Hy Hi Hh. cbn [g_len] in Hi.
      rewrite multiline_hits in Hh by exact Hi.
      unfold bb. cbn [g_bounds]. rewrite (la_bb a vals i W F Hi).
      unfold multiline_kernel in Hh. rewrite orient_box_id in Hh by lia.
      destruct ((x0 =? x1)%Z || (y0 =? y1)%Z); [discriminate Hh|].
      unfold perform_multiline in Hh. apply existsb_exists in Hh.
      destruct Hh as [[s e] [Hse Hp]]. unfold perform_line in Hp.
      destruct (bounds_nan (zbounds (slice s e vals))) eqn:N; [discriminate Hp|].
      destruct (bounds_reject (zbounds (slice s e vals)) x0 y0 x1 y1) eqn:R; [discriminate Hp|].
      exact (part_overlaps vals _ _ (ml_cat i Hi) x0 y0 x1 y1 s e Hse N R).
  Qed.
End MultiLine.

(* ---------------------------------------------------- MultiPolygonArray *)
Lemma opairs_map : forall (f : nat -> nat) l,
  opairs (map f l) = map (fun '(s, e) => (f s, f e)) (opairs l).
Proof.
  intros f. induction l as [|x [|y t] IH]; try reflexivity.
  change (opairs (map f (x :: y :: t))) with ((f x, f y) :: opairs (map f (y :: t))).
  rewrite IH. reflexivity.
Qed.

Lemma hd_map_getn : forall o l, l <> [] -> hd 0 (map (getn o) l) = getn o (hd 0 l).
Proof. intros o [|x t] H; [contradiction | reflexivity]. Qed.

Lemma wf3 : forall a o0 o1 o2, wf_listarr a = true -> buffer_offsets a = [o0; o1; o2] ->
  exists O0, o0 = slice (la_off a) (la_off a + la_len a + 1) O0 /\
    mono O0 = true /\ last O0 0 < length o1 /\ mono o1 = true /\
    last o1 0 < length o2 /\ mono o2 = true /\ last o2 0 <= length (la_vals a).
Proof.
  intros a o0 o1 o2 W HB. unfold buffer_offsets in HB. unfold wf_listarr in W.
  destruct (la_offs a) as [|O0 rest]; [discriminate HB|]. inversion HB; subst.
  exists O0. split; [reflexivity|].
  apply andb_prop in W. destruct W as [W _]. cbn [wf_levels] in W.
  rewrite !andb_true_iff in W. destruct W as [[A B] [[A' B'] [[A'' B''] D]]].
  apply Nat.ltb_lt in A', A''. apply Nat.leb_le in D.
  repeat split; assumption.
Qed.

Section MultiPolygon.
  Variable a : listarr.
  Variable vals : list Z.
  Variables o0 o1 o2 : list nat.
  Hypothesis W : wf_listarr a = true.
  Hypothesis F : finite_vals (buffer_values a) = Some vals.
  Hypothesis HB : buffer_offsets a = [o0; o1; o2].
  (* every ring starts on an (x, y) pair boundary of the values buffer *)
  Hypothesis Hev : forallb Nat.even o2 = true.

  Lemma o0_len3 : length o0 = S (la_len a).
  Proof. eapply length_first_offsets; [exact W | exact HB]. Qed.

  Lemma elem3 : forall i, i <= la_len a ->
    getn (buffer_outer_offsets a) i = getn o2 (getn o1 (getn o0 i)).
  Proof.
    intros i Hi. unfold buffer_outer_offsets. rewrite HB. cbn [fold_left].
    rewrite getn_map_getn by (rewrite map_length, o0_len3; lia).
    rewrite getn_map_getn by (rewrite o0_len3; lia). reflexivity.
  Qed.

  Lemma vals_len3 : length vals = length (la_vals a).
  Proof.
    pose proof (finite_vals_map _ _ F) as E. unfold buffer_values in E. rewrite E.
    now rewrite map_length.
  Qed.

  (* the polygons of element i as parts of its coordinate range *)
  Lemma mp_cat : forall i, i < la_len a ->
    zpairs (elem_coords a vals i) =
    concat (map zpairs (rings_of vals
       (map (getn o2) (slice (getn o0 i) (getn o0 (S i) + 1) o1)))).
  Proof.
    intros i Hi. destruct (wf3 a o0 o1 o2 W HB) as (O0 & E0 & M0 & L0 & M1 & L1 & M2 & L2).
    pose proof o0_len3 as Len0.
    assert (Mo0 : mono o0 = true) by (rewrite E0; apply mono_slice, M0).
    assert (Hs : getn o0 i <= getn o0 (S i)) by (unfold getn; apply mono_nth; [exact Mo0 | lia | lia]).
    assert (He : getn o0 (S i) < length o1).
    { assert (In (getn o0 (S i)) O0).
      { unfold getn. eapply in_slice. rewrite <- E0. apply nth_In. lia. }
      pose proof (mono_le_last O0 _ M0 H). lia. }
    set (s0 := getn o0 i) in *. set (e0 := getn o0 (S i)) in *.
    set (poffs := slice s0 (e0 + 1) o1).
    assert (Lp : length poffs = e0 + 1 - s0) by (unfold poffs; apply BoundsProofs.slice_length; lia).
    assert (Hne : poffs <> []) by (intros E; rewrite E in Lp; cbn in Lp; lia).
    assert (Hin2 : forall x, In x poffs -> x < length o2).
    { intros x Hx. apply in_slice in Hx. pose proof (mono_le_last o1 _ M1 Hx). lia. }
    set (offs := map (getn o2) poffs).
    assert (Mo : mono offs = true).
    { apply mono_map_getn; [exact M2 | apply mono_slice, M1 | exact Hin2]. }
    assert (Eo : forallb Nat.even offs = true).
    { apply forallb_forall. intros x Hx. apply in_map_iff in Hx. destruct Hx as [y [<- Hy]].
      rewrite forallb_forall in Hev. apply Hev. unfold getn. apply nth_In, Hin2, Hy. }
    assert (Lo : last offs 0 <= length vals).
    { assert (Hl : In (last offs 0) offs).
      { apply last_in. unfold offs. intros E. apply map_eq_nil in E. contradiction. }
      apply in_map_iff in Hl. destruct Hl as [y [E Hy]].
      assert (In (getn o2 y) o2) by (unfold getn; apply nth_In, Hin2, Hy).
      pose proof (mono_le_last o2 _ M2 H). rewrite vals_len3. lia. }
    rewrite <- (parts_pairs vals offs Mo Eo Lo).
    unfold elem_coords. rewrite !elem3 by lia. fold s0 e0.
    f_equal. f_equal.
    - unfold offs. rewrite hd_map_getn by exact Hne. f_equal.
      destruct poffs as [|h t] eqn:EP; [contradiction|]. cbn [hd].
      change h with (nth 0 (h :: t) 0). rewrite <- EP. unfold poffs.
      rewrite BoundsProofs.nth_slice by lia. unfold getn. f_equal. lia.
    - unfold offs. rewrite (last_map _ _ (getn o2) poffs 0 0) by exact Hne. f_equal.
      rewrite last_nth_pred, Lp. unfold poffs.
      rewrite BoundsProofs.nth_slice by lia. unfold getn. f_equal. lia.
  Qed.

  Lemma multipolygon_whole : forall b,
    multipolygon_array a b None =
    Some (map (multipolygon_kernel b vals o1 o2) (combine (removelast o0) (tl o0))).
  Proof.
    intros b. unfold multipolygon_array. rewrite W, HB, F. cbn [negb].
    rewrite starts_stops_none, multipolygons_as_map. reflexivity.
  Qed.

  Lemma multipolygon_hits : forall b i, i < la_len a ->
    row_hits (GMultiPolygon a) b i =
    multipolygon_kernel b vals o1 o2 (getn o0 i, getn o0 (S i)).
  Proof.
    intros b i Hi. unfold row_hits. cbn [g_intersects_bounds]. rewrite multipolygon_whole.
    apply nth_map_opairs. rewrite o0_len3. lia.
  Qed.

  Lemma multipolygon_ok : kind_ok (GMultiPolygon a).
  Proof.
    constructor.
    - intros b. eexists. split; [apply multipolygon_whole|].
      rewrite map_length, combine_length, length_removelast, length_tl, o0_len3. cbn [g_len]. lia.
    - intros b inds. cbn [g_intersects_bounds].
      destruct forms_agree_all as (_ & _ & _ & _ & _ & H). apply H.
    - cbn. apply la_bounds_length, W.
    - cbn. apply la_wf_box, W.
    - intros x0 y0 x1 y1 i Hx Hy Hi Hc. cbn [g_len] in Hi.
      rewrite multipolygon_hits by exact Hi.
      unfold bb in Hc. cbn [g_bounds] in Hc. rewrite (la_bb a vals i W F Hi) in Hc.
      destruct (covered_part vals _ _ (mp_cat i Hi) x0 y0 x1 y1 Hc) as (s' & e' & Hse & N & R & S).
      rewrite opairs_map in Hse. apply in_map_iff in Hse. destruct Hse as [[s e] [E Hse]].
      inversion E; subst s' e'.
      unfold multipolygon_kernel. rewrite orient_box_id by lia.
      unfold perform_multipolygon. apply existsb_exists. exists (s, e). split; [exact Hse|].
      unfold perform_polygon. rewrite N, R, S. reflexivity.
    - intros x0 y0 x1 y1 i Hx Hy Hi Hh. cbn [g_len] in Hi.
      rewrite multipolygon_hits in Hh by exact Hi.
      unfold bb. cbn [g_bounds]. rewrite (la_bb a vals i W F Hi).
      unfold multipolygon_kernel in Hh. rewrite orient_box_id in Hh by lia.
      unfold perform_multipolygon in Hh. apply existsb_exists in Hh.
      destruct Hh as [[s e] [Hse Hp]]. unfold perform_polygon in Hp.
      destruct (bounds_nan (zbounds (slice (getn o2 s) (getn o2 e) vals))) eqn:N; [discriminate Hp|].
      destruct (bounds_reject (zbounds (slice (getn o2 s) (getn o2 e) vals)) x0 y0 x1 y1) eqn:R;
        [discriminate Hp|].
      apply (part_overlaps vals _ _ (mp_cat i Hi) x0 y0 x1 y1 (getn o2 s) (getn o2 e)); try assumption.
      rewrite opairs_map. apply in_map_iff. exists (s, e). split; [reflexivity | exact Hse].
  Qed.
End MultiPolygon.

(* ------------------------------------------------------------ all classes *)
Theorem kinds_ok : forall g, g_modelled g -> kind_ok g.
Proof.
  intros [a|a|a|a|a|a] H; cbn in H.
  - destruct H as [W [slots AS]]. eapply point_ok; eassumption.
  - destruct H as [W [vals F]]. eapply multipoint_ok; eassumption.
  - destruct H as [W [vals F]]. eapply line_ok; eassumption.
  - destruct H as [[W [vals F]] (o0 & o1 & HB & Hev)]. eapply multiline_ok; eassumption.
  - destruct H as [[W [vals F]] (o0 & o1 & HB)]. eapply polygon_ok; eassumption.
  - destruct H as [[W [vals F]] (o0 & o1 & o2 & HB & Hev)]. eapply multipolygon_ok; eassumption.
Qed.

(* read off the code path, for every class: a row whose (finite) bounding box
   lies inside a box of positive width and height is reported as intersecting *)
Theorem covered_implies_intersects : forall g x0 y0 x1 y1 (i : nat),
  g_modelled g -> (x0 < x1)%Z -> (y0 < y1)%Z -> i < g_len g ->
  coveredb 2 (row_of_bbox (bb g i)) [x0; y0; x1; y1] = true ->
  row_hits g (x0, y0, x1, y1) i = true.
Proof. intros g x0 y0 x1 y1 i H. apply (k_covered g (kinds_ok g H)). Qed.

(* and a row reported as intersecting has a bounding box that overlaps the box *)
Theorem intersects_implies_bbox_overlaps : forall g x0 y0 x1 y1 (i : nat),
  g_modelled g -> (x0 <= x1)%Z -> (y0 <= y1)%Z -> i < g_len g ->
  row_hits g (x0, y0, x1, y1) i = true ->
  overlapsb 2 (row_of_bbox (bb g i)) [x0; y0; x1; y1] = true.
Proof. intros g x0 y0 x1 y1 i H. apply (k_reject g (kinds_ok g H)). Qed.

(* finiteness of the coordinates cannot be dropped: the multipoint
   [(1, NaN), (NaN, 2)] has a finite bounding box and no finite point *)
Theorem covered_nonfinite_refuted :
  exists vs : list num,
    total_bounds_interleaved vs = (Some 1, Some 2, Some 1, Some 2)%Z /\
    forall p, In p (pairs vs) -> ~ (exists x y, p = (Some x, Some y)).
Proof.
  exists [Some 1; None; None; Some 2]%Z. split; [reflexivity|].
  intros p [<-|[<-|[]]] (x & y & E); discriminate E.
Qed.
