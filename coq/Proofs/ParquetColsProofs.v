(* Lemmas about Model/ParquetCols.v: column projection of read_parquet, the
   dtype-name codec. *)
From Coq Require Import NArith Arith List Bool Ascii String Lia.
From SP Require Import Model.ParquetCols.
Import ListNotations.
Local Open Scope nat_scope.

(* ================= projection ================= *)

Lemma mem_In : forall s l, mem s l = true <-> In s l.
Proof.
  intros s l. unfold mem. rewrite existsb_exists. split.
  - intros (y & Hy & E). apply String.eqb_eq in E. now subst.
  - intros H. exists s. split; [assumption | apply String.eqb_refl].
Qed.

Lemma mem_opt_In : forall s l, mem_opt s l = true <-> In (Some s) l.
Proof.
  intros s l. unfold mem_opt. rewrite existsb_exists. split.
  - intros ([y|] & Hy & E); [|discriminate]. apply String.eqb_eq in E. now subst.
  - intros H. exists (Some s). split; [assumption | apply String.eqb_refl].
Qed.

(* a column is stored in the file under this field name *)
Definition stored (md : list mdcol) (n : string) : Prop := In (Some n) (all_columns_of md).

(* n names a level of the index *)
Definition index_level (ix : list idxdesc) (n : string) : Prop :=
  exists d, In d ix /\ idx_name d = Some n.

Lemma extra_spec : forall md ix cs n,
  In n (extra_index_columns md ix cs) <->
  index_level ix n /\ ~ In n cs /\ stored md n.
Proof.
  intros md ix cs n. unfold extra_index_columns, index_level, stored.
  rewrite in_flat_map. split.
  - intros (d & Hd & Hin). destruct (idx_name d) as [m|] eqn:E; [|destruct Hin].
    destruct (negb (mem m cs) && mem_opt m (all_columns_of md)) eqn:C; [|destruct Hin].
    destruct Hin as [<-|[]]. apply andb_prop in C as [C1 C2].
    apply negb_true_iff in C1. split; [now exists d|]. split.
    + intros H. apply mem_In in H. congruence.
    + now apply mem_opt_In.
  - intros ((d & Hd & E) & Hn & Hs). exists d. split; [assumption|]. rewrite E.
    assert (C1 : mem n cs = false)
      by (destruct (mem n cs) eqn:M; [apply mem_In in M; contradiction | reflexivity]).
    apply mem_opt_In in Hs. rewrite C1, Hs. now left.
Qed.

(* the index levels come in index order, each at most once per descriptor *)
Lemma extra_order : forall md ix cs,
  extra_index_columns md ix cs =
  flat_map (fun d => match idx_name d with
                     | Some n => if negb (mem n cs) && mem_opt n (all_columns_of md) then [n] else []
                     | None => []
                     end) ix.
Proof. reflexivity. Qed.

Theorem projection : forall md ix cs,
  exists extra,
    read_columns md ix (Some cs) = Some (extra ++ cs) /\
    (* what is prepended: exactly the index levels that are named, stored and not requested *)
    (forall n, In n extra <-> index_level ix n /\ ~ In n cs /\ stored md n) /\
    (* hence every stored index level is read, requested or not *)
    (forall n, index_level ix n -> stored md n -> In n (extra ++ cs)) /\
    (* and nothing but index levels is added to the request *)
    (forall n, In n (extra ++ cs) -> ~ In n cs -> index_level ix n).
Proof.
  intros md ix cs. exists (extra_index_columns md ix cs). split; [reflexivity|].
  split; [apply extra_spec|]. split.
  - intros n Hl Hs. rewrite in_app_iff.
    destruct (in_dec string_dec n cs) as [Hc|Hc]; [now right|].
    left. apply extra_spec. auto.
  - intros n Hin Hn. rewrite in_app_iff in Hin. destruct Hin as [Hin|Hin]; [|contradiction].
    now apply extra_spec in Hin.
Qed.

Lemma read_all : forall md ix, read_columns md ix None = None.
Proof. reflexivity. Qed.

(* the columns of the meta frame of read_parquet_dask, dataset WITH pandas
   metadata: the request without the index levels stored as columns, order
   kept; nothing else is dropped -- in particular not a column that is merely
   named "hilbert_distance" *)
Theorem meta_columns : forall ix cs,
  cols_no_index true ix (Some cs) =
  Some (filter (fun c => negb (mem c (index_names true ix))) cs) /\
  forall c, In c (filter (fun c => negb (mem c (index_names true ix))) cs) <->
            In c cs /\ ~ In (IdxStr c) ix.
Proof.
  intros ix cs. split; [reflexivity|]. intros c. rewrite filter_In, negb_true_iff.
  assert (H : mem c (index_names true ix) = true <-> In (IdxStr c) ix).
  { rewrite mem_In. unfold index_names. rewrite in_flat_map. split.
    - intros (d & Hd & Hin).
      destruct d as [m|m|]; cbn in Hin; [|destruct Hin|destruct Hin].
      destruct Hin as [<-|[]]. assumption.
    - intros Hi. exists (IdxStr c). split; [assumption | now left]. }
  split.
  - intros [Hc Hm]. split; [assumption|].
    intros Hx. assert (mem c (index_names true ix) = true) by (apply H; auto). congruence.
  - intros (Hc & H2). split; [assumption|].
    destruct (mem c (index_names true ix)) eqn:M; [|reflexivity].
    exfalso. apply H2. apply H. reflexivity.
Qed.

(* dataset WITHOUT pandas metadata (no index description at all): the
   conventional index name of a packed dataset, and only it, is taken out *)
Theorem meta_columns_nomd : forall ix cs,
  cols_no_index false ix (Some cs) =
  Some (filter (fun c => negb (String.eqb c "hilbert_distance")) cs) /\
  forall c, In c (filter (fun c => negb (String.eqb c "hilbert_distance")) cs) <->
            In c cs /\ c <> "hilbert_distance"%string.
Proof.
  intros ix cs. split.
  - unfold cols_no_index, index_names, mem. cbn [option_map existsb]. f_equal.
    apply filter_ext. intros c. now rewrite orb_false_r.
  - intros c. rewrite filter_In, negb_true_iff. split.
    + intros [Hc E]. split; [assumption|]. intros ->. now rewrite String.eqb_refl in E.
    + intros [Hc N]. split; [assumption|]. now apply String.eqb_neq.
Qed.

(* a requested column that is not an index level stays in the meta frame,
   whatever its name (dataset with pandas metadata) *)
Corollary meta_keeps_hilbert_named_column : forall ix cs,
  In "hilbert_distance"%string cs -> ~ In (IdxStr "hilbert_distance") ix ->
  exists kept, cols_no_index true ix (Some cs) = Some kept /\ In "hilbert_distance"%string kept.
Proof.
  intros ix cs Hc Hi. destruct (meta_columns ix cs) as [E S].
  eexists. split; [exact E|]. apply S. auto.
Qed.

Lemma restore_name_placeholder : restore_index_name (Some "__null_dask_index__"%string) = None.
Proof. reflexivity. Qed.

Lemma restore_name_other : forall n,
  n <> Some "__null_dask_index__"%string -> restore_index_name n = n.
Proof.
  intros [s|] H; [|reflexivity]. cbn.
  destruct (String.eqb s "__null_dask_index__") eqn:E; [|reflexivity].
  apply String.eqb_eq in E. subst. congruence.
Qed.

(* ================= dtype names ================= *)

Fixpoint all_word (s : string) : bool :=
  match s with
  | EmptyString => true
  | String c t => is_word c && all_word t
  end.

Lemma lower_app : forall a b, lower (a ++ b) = (lower a ++ lower b)%string.
Proof. induction a as [|c a IH]; intros b; cbn; [reflexivity | now rewrite IH]. Qed.

Lemma lower_ascii_idem : forall c, lower_ascii (lower_ascii c) = lower_ascii c.
Proof. intros [[] [] [] [] [] [] [] []]; vm_compute; reflexivity. Qed.

Lemma lower_idem : forall s, lower (lower s) = lower s.
Proof. induction s as [|c s IH]; cbn; [reflexivity | now rewrite lower_ascii_idem, IH]. Qed.

Lemma kind_name_lower : forall k, lower (kind_name k) = kind_name k.
Proof. intros []; vm_compute; reflexivity. Qed.

Lemma strip_prefix_app : forall p s, strip_prefix p (p ++ s) = Some s.
Proof.
  induction p as [|c p IH]; intros s; cbn; [reflexivity|].
  now rewrite Ascii.eqb_refl.
Qed.

Lemma word_then_close_app : forall w,
  all_word w = true -> word_then_close (w ++ "]") = Some w.
Proof.
  induction w as [|c w IH]; intros H; cbn in *; [reflexivity|].
  apply andb_prop in H as [H1 H2]. rewrite H1, IH by assumption. reflexivity.
Qed.

Lemma parse_kind_own : forall k sub,
  sub <> EmptyString -> all_word sub = true ->
  parse_kind k (kind_name k ++ "[" ++ sub ++ "]") = Some sub.
Proof.
  intros k sub Hne Hw. unfold parse_kind. rewrite strip_prefix_app.
  cbn [append]. cbn [Ascii.eqb Bool.eqb]. rewrite word_then_close_app by assumption.
  destruct sub; [congruence | reflexivity].
Qed.

Lemma strip_other : forall k k' rest,
  k <> k' -> strip_prefix (kind_name k') (kind_name k ++ rest) = None.
Proof. intros [] [] rest H; try congruence; reflexivity. Qed.

Lemma parse_kind_other : forall k k' rest,
  k <> k' -> parse_kind k' (kind_name k ++ rest) = None.
Proof. intros k k' rest H. unfold parse_kind. now rewrite strip_other. Qed.

Lemma find_first_cons_other : forall k k' ks rest,
  k <> k' -> find_first (k' :: ks) (kind_name k ++ rest) = find_first ks (kind_name k ++ rest).
Proof. intros. cbn [find_first]. now rewrite parse_kind_other. Qed.

Lemma find_first_cons_own : forall k ks s sub,
  parse_kind k s = Some sub -> find_first (k :: ks) s = Some (k, sub).
Proof. intros k ks s sub H. cbn [find_first]. now rewrite H. Qed.

Lemma find_first_own : forall k rest sub,
  parse_kind k (kind_name k ++ rest) = Some sub ->
  find_first kinds (kind_name k ++ rest) = Some (k, sub).
Proof.
  intros k rest sub H. unfold kinds.
  destruct k; repeat (rewrite find_first_cons_other by discriminate);
    apply find_first_cons_own; exact H.
Qed.

(* str(dtype) is found again, kind and subtype *)
Theorem dtype_roundtrip : forall k sub,
  sub <> EmptyString -> all_word sub = true -> lower sub = sub ->
  parse_dtype (dtype_to_string k sub) = Some (k, sub).
Proof.
  intros k sub Hne Hw Hl. unfold parse_dtype, dtype_to_string.
  rewrite !lower_app, kind_name_lower, Hl.
  change (lower "[") with "["%string. change (lower "]") with "]"%string.
  apply find_first_own. now apply parse_kind_own.
Qed.

(* the lookup is case-insensitive *)
Theorem dtype_case_insensitive : forall s s',
  lower s = lower s' -> parse_dtype s = parse_dtype s'.
Proof. intros s s' H. unfold parse_dtype. now rewrite H. Qed.

Corollary dtype_roundtrip_anycase : forall s k sub,
  sub <> EmptyString -> all_word sub = true -> lower sub = sub ->
  lower s = dtype_to_string k sub -> parse_dtype s = Some (k, sub).
Proof.
  intros s k sub Hne Hw Hl Hs. rewrite <- (dtype_roundtrip k sub Hne Hw Hl).
  apply dtype_case_insensitive. rewrite Hs. unfold dtype_to_string.
  rewrite !lower_app, kind_name_lower, Hl. reflexivity.
Qed.

(* a bare kind name means float64 *)
Theorem dtype_bare : forall k, parse_dtype (kind_name k) = Some (k, "float64"%string).
Proof. intros []; vm_compute; reflexivity. Qed.

(* the five subtype names of the property *)
Lemma subtype_names_ok : forall sub,
  In sub ["float64"; "float32"; "int64"; "int32"; "int16"]%string ->
  sub <> EmptyString /\ all_word sub = true /\ lower sub = sub.
Proof.
  intros sub H. cbn in H.
  repeat (destruct H as [<-|H]; [split; [discriminate | split; vm_compute; reflexivity]|]).
  destruct H.
Qed.

(* no two kinds share a name, no name is accepted by another kind's parser *)
Theorem dtype_names_disjoint : forall k k' sub sub',
  dtype_to_string k sub = dtype_to_string k' sub' -> k = k'.
Proof.
  intros k k' sub sub' H. unfold dtype_to_string in H.
  destruct k, k'; try reflexivity; cbn in H; discriminate.
Qed.
