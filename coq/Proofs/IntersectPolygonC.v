(* C01 for polygons, the converse direction: a common point of the box and the
   region makes the test answer True -- given that the winding number is
   constant on a box that no ring boundary enters (wn_const_on_box). *)
From Coq Require Import ZArith Reals Lra Lia Psatz Bool ZifyBool List Arith.
From SP Require Import Model.Num Model.Arrow Model.Bounds Model.PointKernels Model.Intersect
                       Spec.Plane Spec.IntersectSpec
                       Proofs.IntersectBase Proofs.IntersectPoints Proofs.IntersectSegR
                       Proofs.IntersectSeg Proofs.IntersectBounds Proofs.IntersectPlane
                       Proofs.IntersectLine Proofs.IntersectWinding Proofs.IntersectPolygon.
Import ListNotations.

(* ---------------------------------------------------------------- telescoping over a closed ring *)
Definition ring_closed (vs : list pt) : Prop :=
  match vs with [] => True | v :: _ => last vs v = v end.

Lemma last_indep_nonempty {A} : forall (l : list A) d d', l <> [] -> last l d = last l d'.
Proof.
  induction l as [|a [|b t] IH]; intros d d' H; [contradiction | reflexivity |].
  change (last (a :: b :: t) d) with (last (b :: t) d).
  change (last (a :: b :: t) d') with (last (b :: t) d'). apply IH. discriminate.
Qed.

Lemma zsum_tele (f : pt -> Z) : forall vs,
  zsum (map (fun e => (f (snd e) - f (fst e))%Z) (edges vs)) =
  match vs with [] => 0%Z | v :: _ => (f (last vs v) - f v)%Z end.
Proof.
  induction vs as [|a [|b t] IH]; [reflexivity | simpl; lia |].
  change (edges (a :: b :: t)) with ((a, b) :: edges (b :: t)).
  cbn [map zsum fold_right fst snd]. fold (zsum (map (fun e => (f (snd e) - f (fst e))%Z) (edges (b :: t)))).
  rewrite IH. change (last (a :: b :: t) a) with (last (b :: t) a).
  rewrite (last_indep_nonempty (b :: t) a b) by discriminate. lia.
Qed.

(* ---------------------------------------------------------------- the winding number outside the bounding box *)
Open Scope R_scope.

Lemma edge_x_between : forall A B y, snd A <> snd B ->
  (snd A <= y <= snd B \/ snd B <= y <= snd A) ->
  Rmin (fst A) (fst B) <= edge_x_at A B y <= Rmax (fst A) (fst B).
Proof.
  intros [ax ay_] [bx by_] y N H. unfold edge_x_at. simpl in *.
  set (t := (y - ay_) / (by_ - ay_)).
  assert (Et : t * (by_ - ay_) = y - ay_) by (unfold t; field; lra).
  replace (ax + (y - ay_) * (bx - ax) / (by_ - ay_)) with (ax + t * (bx - ax))
    by (unfold t; field; lra).
  assert (Ht : 0 <= t <= 1).
  { clearbody t. destruct H as [H|H]; split; nra. }
  clearbody t. unfold Rmin, Rmax. destruct (Rle_dec ax bx); split; nra.
Qed.

(* when the heights of A and B are on different sides of P (half-open), P's
   height is between them *)
Lemma above_diff_range : forall P A B, above P A <> above P B ->
  snd A <= snd P <= snd B \/ snd B <= snd P <= snd A.
Proof.
  intros P A B H. unfold above in H.
  destruct (Rle_dec (snd P) (snd A)), (Rle_dec (snd P) (snd B)); try contradiction; lra.
Qed.

Lemma above_eq_same_height : forall P A B, snd A = snd B -> above P A = above P B.
Proof. intros P A B E. unfold above. now rewrite E. Qed.

(* P strictly right of both endpoints: the edge does not count *)
Lemma wn_edge_right : forall P A B, fst A < fst P -> fst B < fst P -> wn_edge P A B = 0%Z.
Proof.
  intros P A B HA HB. unfold wn_edge.
  destruct (Req_EM_T (snd A) (snd B)) as [E|N]; [reflexivity|].
  destruct (Rle_dec (fst P) (edge_x_at A B (snd P))) as [H|H]; [|reflexivity].
  destruct (Z.eq_dec (above P A) (above P B)) as [E|D]; [lia|].
  apply above_diff_range in D. apply (edge_x_between A B (snd P) N) in D.
  exfalso. destruct D as [_ D]. unfold Rmax in D. destruct (Rle_dec (fst A) (fst B)); lra.
Qed.

(* P at or left of both endpoints: the edge counts with its height difference *)
Lemma wn_edge_left : forall P A B, fst P <= fst A -> fst P <= fst B ->
  wn_edge P A B = (above P B - above P A)%Z.
Proof.
  intros P A B HA HB. unfold wn_edge.
  destruct (Req_EM_T (snd A) (snd B)) as [E|N].
  { rewrite (above_eq_same_height P A B E). lia. }
  destruct (Rle_dec (fst P) (edge_x_at A B (snd P))) as [H|H]; [reflexivity|].
  destruct (Z.eq_dec (above P A) (above P B)) as [E|D]; [lia|].
  apply above_diff_range in D. apply (edge_x_between A B (snd P) N) in D.
  exfalso. destruct D as [D _]. unfold Rmin in D. destruct (Rle_dec (fst A) (fst B)); lra.
Qed.

Lemma zsum_map_ext {A} (f g : A -> Z) : forall l, (forall e, In e l -> f e = g e) ->
  zsum (map f l) = zsum (map g l).
Proof.
  induction l as [|a l IH]; intro H; [reflexivity|]. simpl.
  rewrite (H a (or_introl eq_refl)). f_equal. apply IH. intros e He. apply H. now right.
Qed.

Lemma zsum_map_zero {A} (f : A -> Z) : forall l, (forall e, In e l -> f e = 0%Z) ->
  zsum (map f l) = 0%Z.
Proof.
  induction l as [|a l IH]; intro H; [reflexivity|]. simpl.
  rewrite (H a (or_introl eq_refl)). rewrite IH; [reflexivity|]. intros e He. apply H. now right.
Qed.

Lemma wn_ring_outside_bbox : forall P vs a b c d, ring_closed vs ->
  (forall q, In q vs -> (a <= fst q <= c /\ b <= snd q <= d)%Z) ->
  (fst P < IZR a \/ IZR c < fst P \/ snd P < IZR b \/ IZR d < snd P) ->
  wn_ring P vs = 0%Z.
Proof.
  intros P vs a b c d Hc Hall Hout.
  assert (HallR : forall q, In q vs ->
            IZR a <= fst (zp q) <= IZR c /\ IZR b <= snd (zp q) <= IZR d).
  { intros q Hq. destruct (Hall q Hq) as [[H1 H2] [H3 H4]]. unfold zp. simpl.
    repeat split; apply IZR_le; assumption. }
  destruct Hout as [H|[H|[H|H]]].
  - (* left of everything: telescoping *)
    unfold wn_ring.
    rewrite (zsum_map_ext _ (fun e => (above P (zp (snd e)) - above P (zp (fst e)))%Z)).
    + rewrite (zsum_tele (fun v => above P (zp v))). destruct vs as [|v t]; [reflexivity|].
      unfold ring_closed in Hc. rewrite Hc. lia.
    + intros [A B] He. apply edges_in in He. destruct He as [HA HB]. simpl.
      apply wn_edge_left; [destruct (HallR A HA) | destruct (HallR B HB)]; lra.
  - unfold wn_ring. apply zsum_map_zero. intros [A B] He. apply edges_in in He.
    destruct He as [HA HB]. simpl.
    apply wn_edge_right; [destruct (HallR A HA) | destruct (HallR B HB)]; lra.
  - apply wn_ring_one_side. right. intros v Hv. unfold above.
    destruct (Rle_dec (snd P) (snd (zp v))) as [L|L]; [reflexivity|].
    exfalso. destruct (HallR v Hv). lra.
  - apply wn_ring_one_side. left. intros v Hv. unfold above.
    destruct (Rle_dec (snd P) (snd (zp v))) as [L|L]; [|reflexivity].
    exfalso. destruct (HallR v Hv). lra.
Qed.

Theorem wn_outside_bbox : forall rings P a b c d,
  (forall r, In r rings -> ring_closed r) ->
  (forall q, In q (concat rings) -> (a <= fst q <= c /\ b <= snd q <= d)%Z) ->
  (fst P < IZR a \/ IZR c < fst P \/ snd P < IZR b \/ IZR d < snd P) ->
  wn rings P = 0%Z.
Proof.
  intros rings P a b c d Hc Hall Hout. unfold wn. apply zsum_map_zero.
  intros r Hr. apply (wn_ring_outside_bbox P r a b c d); [now apply Hc| |assumption].
  intros q Hq. apply Hall. apply in_concat. eauto.
Qed.

(* ---------------------------------------------------------------- completeness *)
Definition boundary (rings : list (list pt)) (Q : P2) : Prop :=
  exists r, In r rings /\ line_set r Q.

(* the winding number is the same at all points of a box that no ring boundary enters *)
Definition wn_const_on_box (rings : list (list pt)) (x0 y0 x1 y1 : Z) : Prop :=
  (forall Q, in_zbox x0 y0 x1 y1 Q -> ~ boundary rings Q) ->
  forall P Q, in_zbox x0 y0 x1 y1 P -> in_zbox x0 y0 x1 y1 Q -> wn rings P = wn rings Q.

Open Scope Z_scope.

Section Complete.
Variables x0 y0 x1 y1 : Z.
Variable vals : list Z.
Variable offsets1 : list nat.
Variables start0 stop0 : nat.
Hypothesis Lx : x0 < x1.
Hypothesis Ly : y0 < y1.

Let poffs := slice start0 (stop0 + 1) offsets1.
Let rings := map zpairs (rings_of vals poffs).

Hypothesis Hcat :
  zpairs (slice (getn offsets1 start0) (getn offsets1 stop0) vals) = concat rings.
Hypothesis Hclosed : forall r, In r rings -> ring_closed r.
Hypothesis Hconst : wn_const_on_box rings x0 y0 x1 y1.

Theorem perform_polygon_complete :
  (exists P, in_zbox x0 y0 x1 y1 P /\ poly_region rings P) ->
  perform_polygon x0 y0 x1 y1 vals offsets1 start0 stop0 = true.
Proof.
  intros (P & HB & HR). unfold perform_polygon. fold poffs.
  set (seg := slice (getn offsets1 start0) (getn offsets1 stop0) vals) in *.
  destruct (zpairs seg) as [|p ps] eqn:Evs.
  { (* no vertex at all: the region is empty *)
    exfalso. symmetry in Hcat.
    assert (Hnil : forall r, In r rings -> r = []).
    { intros r Hr. destruct r as [|v t]; [reflexivity|]. exfalso.
      assert (In v (concat rings)) by (apply in_concat; exists (v :: t); split; [assumption | now left]).
      rewrite Hcat in H. destruct H. }
    destruct HR as [(r & Hr & HL)|HW].
    - rewrite (Hnil r Hr) in HL. destruct HL as [(v & [] & _)|(e & [] & _)].
    - apply HW. unfold wn. apply zsum_map_zero. intros r Hr. now rewrite (Hnil r Hr). }
  destruct (zbounds_cons seg p ps Evs) as (a & b & c & d & Eb & Hall & Ha & Hb & Hc & Hd).
  rewrite Eb. rewrite Hcat in Hall.
  assert (HallR : forall r, In r rings -> forall q, In q r -> a <= fst q <= c /\ b <= snd q <= d).
  { intros r Hr q Hq. apply Hall. apply in_concat. eauto. }
  unfold bounds_nan, bounds_reject, bounds_shortcut, n_gt, n_lt, n_ge, n_le.
  destruct HB as [[Bx0 Bx1] [By0 By1]].
  destruct ((x1 <? a) || (y1 <? b) || (c <? x0) || (d <? y0)) eqn:Rej.
  { (* rejected: the box is outside the bounding box of all rings *)
    exfalso. rewrite !orb_true_iff in Rej.
    destruct HR as [(r & Hr & HL)|HW].
    - apply (line_set_in_bounds r a b c d P (HallR r Hr)) in HL. destruct HL as [[X1 X2] [Y1 Y2]].
      destruct Rej as [[[R|R]|R]|R]; apply Z.ltb_lt in R; apply IZR_lt in R; lra.
    - apply HW. apply (wn_outside_bbox rings P a b c d Hclosed Hall).
      destruct Rej as [[[R|R]|R]|R]; apply Z.ltb_lt in R; apply IZR_lt in R;
        [left | right; right; left | right; left | right; right; right]; lra. }
  destruct ((x0 <=? a) && (c <=? x1) || (y0 <=? b) && (d <=? y1)); [reflexivity|].
  rewrite Hcat.
  destruct (existsb (in_rect x0 y0 x1 y1) (concat rings)) eqn:Vin; [reflexivity|].
  destruct (existsb _ (rings_of vals poffs)) eqn:Ehit; [reflexivity|].
  (* no vertex in the box and no edge meeting a box edge: no boundary point in the box *)
  assert (Vout : forall r v, In r rings -> In v r -> ~ in_zbox x0 y0 x1 y1 (zp v)).
  { intros r v Hr Hv Hin. apply in_rect_zbox in Hin.
    rewrite <- not_true_iff_false in Vin. apply Vin. apply existsb_exists.
    exists v. split; [apply in_concat; eauto | assumption]. }
  assert (Free : forall Q, in_zbox x0 y0 x1 y1 Q -> ~ boundary rings Q).
  { intros Q HQ (r & Hr & HL).
    destruct HL as [(v & Hv & E)|([A B] & He & Hs)].
    - subst Q. eapply Vout; eassumption.
    - simpl in Hs. pose proof (edges_in _ _ _ He) as [HA _].
      assert (NAB : A <> B).
      { intro E. subst B. destruct Hs as (t & _ & Ex & Ey).
        apply (Vout r A Hr HA). unfold in_zbox, in_box in *.
        replace (fst (zp A)) with (fst Q) by (rewrite Ex; ring).
        replace (snd (zp A)) with (snd Q) by (rewrite Ey; ring). exact HQ. }
      destruct (box_boundary_crossing (IZR x0) (IZR y0) (IZR x1) (IZR y1) (zp A) Q)
        as (Q' & HQ' & HE); [apply IZR_lt; lia | apply IZR_lt; lia | apply (Vout r A Hr HA) | exact HQ |].
      rewrite <- not_true_iff_false in Ehit. apply Ehit.
      unfold rings in Hr. apply in_map_iff in Hr. destruct Hr as (ring & Er & Hring). subst r.
      apply existsb_exists. exists ring. split; [assumption|].
      apply existsb_exists. exists (A, B). split; [assumption|].
      apply (edge_hits_rect_complete x0 y0 x1 y1 A B Q'); try assumption.
      apply (on_seg_sub (zp A) (zp B) (zp A) Q); [apply on_seg_start | exact Hs | exact HQ']. }
  (* hence the winding number of the corner (x0, y0) is that of P, non-zero *)
  assert (HPin : in_zbox x0 y0 x1 y1 P) by (unfold in_zbox, in_box; tauto).
  destruct HR as [HBd|HW]; [exfalso; exact (Free P HPin HBd)|].
  assert (HC : in_zbox x0 y0 x1 y1 (IZR x0, IZR y0)).
  { unfold in_zbox, in_box. simpl. repeat split; try lra; apply IZR_le; lia. }
  rewrite (Hconst Free P (IZR x0, IZR y0) HPin HC) in HW.
  apply pip_refines_wn in HW. fold poffs in HW. rewrite HW. reflexivity.
Qed.
End Complete.

Theorem perform_polygon_iff_partial : forall x0 y0 x1 y1 vals offsets1 start0 stop0,
  x0 < x1 -> y0 < y1 -> wf_ring_offsets vals offsets1 start0 stop0 ->
  holes_in_shell_bbox (rings_at vals offsets1 start0 stop0) ->
  (forall r, In r (rings_at vals offsets1 start0 stop0) -> ring_closed r) ->
  wn_const_on_box (rings_at vals offsets1 start0 stop0) x0 y0 x1 y1 ->
  (perform_polygon x0 y0 x1 y1 vals offsets1 start0 stop0 = true <->
   exists P, in_zbox x0 y0 x1 y1 P /\ poly_region (rings_at vals offsets1 start0 stop0) P).
Proof.
  intros * Lx Ly W HB HC HK. split.
  - now apply perform_polygon_sound_wf.
  - unfold rings_at in *.
    apply (perform_polygon_complete x0 y0 x1 y1 vals offsets1 start0 stop0); try assumption.
    now apply polygon_vertices_concat.
Qed.
