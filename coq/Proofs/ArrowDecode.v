(* C16: the nested decode (how pyarrow reads a list array: raw offsets buffers,
   absolute positions) and the flat decode (how the library reads it:
   buffer_offsets sliced by the array offset, buffer_outer_offsets chased
   through the levels) describe the same elements, for 1, 2 and 3 levels. *)
From Coq Require Import ZArith List Bool Arith Lia ZifyBool.
From SP Require Import Model.Num Model.Arrow Model.Derive Proofs.BoundsProofs.
Import ListNotations.

Lemma fn_mono : forall (f : nat -> nat) s e,
  (forall j, s <= j < e -> f j <= f (S j)) ->
  forall a b, s <= a -> a <= b -> b <= e -> f a <= f b.
Proof.
  intros f s e H a b Ha Hab Hb. induction b as [|b IH].
  - replace a with 0 by lia. lia.
  - destruct (Nat.eq_dec a (S b)) as [->|Hne]; [lia|].
    specialize (IH ltac:(lia) ltac:(lia)). specialize (H b ltac:(lia)). lia.
Qed.

(* consecutive segments [f j, f (j+1)) for j in [s, e) concatenate to [f s, f e) *)
Lemma concat_consecutive : forall A (vals : list A) (f : nat -> nat) m s,
  (forall j, s <= j < s + m -> f j <= f (S j)) ->
  concat (map (fun j => slice (f j) (f (S j)) vals) (seq s m))
  = slice (f s) (f (s + m)) vals.
Proof.
  intros A vals f m. induction m as [|m IH]; intros s H.
  - rewrite Nat.add_0_r, slice_same. reflexivity.
  - cbn [seq map concat]. rewrite IH by (intros j Hj; apply H; lia).
    replace (S s + m) with (s + S m) by lia.
    symmetry. apply slice_split.
    + apply H. lia.
    + apply (fn_mono f s (s + S m) H); lia.
Qed.

Lemma getn_slice : forall s e k (l : list nat),
  k < e - s -> getn (slice s e l) k = getn l (s + k).
Proof. intros s e k l H. unfold getn. apply nth_slice. exact H. Qed.

Lemma getn_le_last : forall o j, mono o = true -> j < length o -> getn o j <= last o 0.
Proof.
  intros o j Hm Hj. apply mono_le_last; [exact Hm|]. unfold getn. apply nth_In. exact Hj.
Qed.

Lemma decode2_flat : forall o1 vals s e,
  mono o1 = true -> s <= e -> e < length o1 ->
  concat (decode2 o1 vals s e) = slice (getn o1 s) (getn o1 e) vals.
Proof.
  intros o1 vals s e Hm Hse He. unfold decode2, decode1.
  rewrite (concat_consecutive _ vals (getn o1) (e - s) s).
  - replace (s + (e - s)) with e by lia. reflexivity.
  - intros j Hj. unfold getn. apply mono_nth; [exact Hm|lia|lia].
Qed.

Lemma decode3_flat : forall o1 o2 vals s e,
  mono o1 = true -> mono o2 = true -> s <= e -> e < length o1 ->
  last o1 0 < length o2 ->
  concat (map (@concat num) (decode3 o1 o2 vals s e))
  = slice (getn o2 (getn o1 s)) (getn o2 (getn o1 e)) vals.
Proof.
  intros o1 o2 vals s e H1 H2 Hse He Hl. unfold decode3. rewrite map_map.
  assert (B : forall j, j <= e -> getn o1 j < length o2).
  { intros j Hj. pose proof (getn_le_last o1 j H1 ltac:(lia)). lia. }
  assert (M : forall j, j < e -> getn o1 j <= getn o1 (S j)).
  { intros j Hj. unfold getn. apply mono_nth; [exact H1|lia|lia]. }
  rewrite (map_ext_in _ (fun j => slice (getn o2 (getn o1 j)) (getn o2 (getn o1 (S j))) vals)).
  2:{ intros j Hj. apply in_seq in Hj. apply decode2_flat; [exact H2| |].
      - apply M. lia.
      - apply B. lia. }
  rewrite (concat_consecutive _ vals (fun j => getn o2 (getn o1 j)) (e - s) s).
  - replace (s + (e - s)) with e by lia. reflexivity.
  - intros j Hj. unfold getn at 1 3. apply mono_nth; [exact H2| |].
    + apply M. lia.
    + apply B. lia.
Qed.

(* (a) of the C16 plan *)
Theorem decode_flat_of_nested : forall a,
  wf_listarr a = true -> length (la_offs a) <= 3 ->
  map (option_map flat_elem) (decode_nested a) = decode_flat a.
Proof.
  intros a Hwf Hlev. unfold decode_nested, decode_flat. rewrite map_map.
  apply map_ext_in. intros i Hi. apply in_seq in Hi.
  destruct (isna_at (la_valid a) (la_off a) i); [reflexivity|].
  cbn [option_map]. f_equal.
  unfold wf_listarr in Hwf. apply andb_true_iff in Hwf. destruct Hwf as [Hwf _].
  unfold nested_at, elem_flat, buffer_outer_offsets, buffer_offsets, buffer_values.
  destruct (la_offs a) as [|o0 [|o1 [|o2 [|o3 r]]]]; cbn [length] in Hlev; try lia.
  - (* one level *)
    cbn [wf_levels] in Hwf.
    apply andb_true_iff in Hwf. destruct Hwf as [Hwf _].
    apply andb_true_iff in Hwf. destruct Hwf as [L0 M0]. apply Nat.ltb_lt in L0.
    cbn [fold_left flat_elem]. unfold decode1.
    rewrite !getn_slice by lia. f_equal; f_equal; lia.
  - (* two levels *)
    cbn [wf_levels] in Hwf.
    apply andb_true_iff in Hwf. destruct Hwf as [Hwf W1].
    apply andb_true_iff in Hwf. destruct Hwf as [L0 M0]. apply Nat.ltb_lt in L0.
    apply andb_true_iff in W1. destruct W1 as [W1 _].
    apply andb_true_iff in W1. destruct W1 as [L1 M1]. apply Nat.ltb_lt in L1.
    cbn [fold_left flat_elem].
    set (o0' := slice (la_off a) (la_off a + la_len a + 1) o0).
    assert (HL : length o0' = la_len a + 1).
    { unfold o0', slice. rewrite firstn_length, skipn_length. lia. }
    rewrite !getn_map_getn by lia. unfold o0'. rewrite !getn_slice by lia.
    replace (la_off a + S i) with (la_off a + i + 1) by lia.
    apply decode2_flat; [exact M1| |].
    + unfold getn. apply mono_nth; [exact M0|lia|lia].
    + pose proof (getn_le_last o0 (la_off a + i + 1) M0 ltac:(lia)). lia.
  - (* three levels *)
    cbn [wf_levels] in Hwf.
    apply andb_true_iff in Hwf. destruct Hwf as [Hwf W1].
    apply andb_true_iff in Hwf. destruct Hwf as [L0 M0]. apply Nat.ltb_lt in L0.
    apply andb_true_iff in W1. destruct W1 as [W1 W2].
    apply andb_true_iff in W1. destruct W1 as [L1 M1]. apply Nat.ltb_lt in L1.
    apply andb_true_iff in W2. destruct W2 as [W2 _].
    apply andb_true_iff in W2. destruct W2 as [L2 M2]. apply Nat.ltb_lt in L2.
    cbn [fold_left flat_elem].
    set (o0' := slice (la_off a) (la_off a + la_len a + 1) o0).
    assert (HL : length o0' = la_len a + 1).
    { unfold o0', slice. rewrite firstn_length, skipn_length. lia. }
    rewrite !getn_map_getn by (rewrite ?map_length; lia).
    unfold o0'. rewrite !getn_slice by lia.
    replace (la_off a + S i) with (la_off a + i + 1) by lia.
    apply decode3_flat; [exact M1|exact M2| | |exact L2].
    + unfold getn. apply mono_nth; [exact M0|lia|lia].
    + pose proof (getn_le_last o0 (la_off a + i + 1) M0 ltac:(lia)). lia.
Qed.

(* the point decode is the fixed-width decode, constructor for constructor *)
Theorem decode_point_flat : forall a,
  map (option_map flat_elem) (decode_point a)
  = map (option_map (fun '(x, y) => [x; y])) (fa_decode a).
Proof.
  intros a. unfold decode_point. rewrite map_map. apply map_ext.
  intros [[x y]|]; reflexivity.
Qed.
