(* C05 x C03: the Hilbert R-tree of Model/Rtree.v, built over the bounds rows of the left
   frame with ANY key permutation and ANY page size, satisfies the contract [cand_contract]
   that the sjoin theorems ask of the left spatial index.  The sjoin theorems are then
   restated with that tree as the index, pandas' merge being the only premise left.

   Representations.  C05 speaks about [bbox] = (xmin, ymin, xmax, ymax) : num^4 and the
   IEEE mask [box_outside] of _NumbaRtree.intersects; C03 about rows [list num] of length
   2d, finite queries [list Z] and [overlapsb].  [row_of_bbox] (Model/Cx.v) is the bridge
   on rows, [finite_q] on queries, [RtreeProofs.overlapsb_row_outside] on the masks.

   A query with a NaN (the bounds row of an empty right shape) is outside the query type of
   Model/Rtree.v.  On it [rtree_cand] answers like the linear scan of the executable model
   (every row with a box, which is what the real tree does: no node is outside, the root is
   inside); the sjoin theorems need nothing of that answer but "no duplicates, existing
   rows", and an empty shape intersects nothing (C05_intersects_implies_bbox). *)
From Coq Require Import ZArith List Bool Arith Lia String Permutation.
From SP Require Import Model.Num Model.Arrow Model.Bounds Model.PointKernels Model.PointShape
                       Model.Intersect Model.Rtree Model.Cx Model.Sjoin Model.SjoinWf
                       Spec.Boxes Spec.BoundsSpec Spec.CxSpec Spec.SjoinSpec
                       Proofs.BoundsProofs Proofs.RtreeProofs Proofs.CxProofs Proofs.CxKinds
                       Proofs.SjoinRows Proofs.SjoinPairs Proofs.SjoinCand Proofs.SjoinCols Proofs.SjoinBBox
                       Proofs.SjoinArrayForm.
Import ListNotations.
Local Open Scope nat_scope.

(* ------------------------------------------------------------------ definitions *)

(* the query tuple handed to HilbertRtree.intersects, when it has no NaN *)
Definition finite_q (q : bbox) : option (list Z) :=
  match q with
  | (Some x0, Some y0, Some x1, Some y1) => Some [x0; y0; x1; y1]
  | _ => None
  end.

(* left_df.geometry.sindex: HilbertRtree(left bounds); [keys] = argsort of the Hilbert
   distances (any permutation), [ps] = page_size *)
Definition left_sindex (keys : list nat) (ps : nat) (a : fixarr) : rtree :=
  build 2 (map row_of_bbox (fa_bounds a)) keys ps.

(* sindex.intersects(bounds) *)
Definition rtree_cand (keys : list nat) (ps : nat) (a : fixarr) (q : bbox) : list nat :=
  match finite_q q with
  | Some q' => intersects (left_sindex keys ps a) q'
  | None => scan_cand a q
  end.

(* executable guard on the left frame: a bounds row is NaN in its first column or has no
   NaN at all -- the condition under which the test isnan(row[0]) of the query masks and
   the "any NaN" normalisation of the build agree.  Holds whenever the coordinates of the
   present points are finite ([finite_coords_tidy]). *)
Definition bbox_tidy (b : bbox) : bool :=
  let '(b0, b1, b2, b3) := b in
  num_isnan b0 || negb (num_isnan b1 || num_isnan b2 || num_isnan b3).
Definition left_bounds_tidy (a : fixarr) : bool := forallb bbox_tidy (fa_bounds a).

(* ------------------------------------------------------------------ rows *)

Lemma left_rows_wf : forall a, wf_fixarr a = true ->
  Forall (wf_box 2) (map row_of_bbox (fa_bounds a)).
Proof.
  intros a W. rewrite fa_bounds_rows by exact W. rewrite map_map.
  apply Forall_forall. intros r Hr. apply in_map_iff in Hr. destruct Hr as [p [<- _]].
  apply tight_wf_box.
Qed.

Lemma left_rows_length : forall a, wf_fixarr a = true ->
  List.length (map row_of_bbox (fa_bounds a)) = fa_len a.
Proof. intros a W. rewrite map_length. apply fa_bounds_length, W. Qed.

Lemma left_row_nth : forall a l,
  nth l (map row_of_bbox (fa_bounds a)) [] = row_of_bbox (nth l (fa_bounds a) nanbox) \/
  List.length (fa_bounds a) <= l.
Proof.
  intros a l. destruct (Nat.lt_ge_cases l (List.length (fa_bounds a))) as [H|H]; [left|right; exact H].
  rewrite (nth_indep _ [] (row_of_bbox nanbox)) by (rewrite map_length; exact H).
  apply map_nth.
Qed.

(* the masks agree on a tidy row: not outside (C05) = overlapping (C03) *)
Lemma not_outside_overlaps : forall x0 y0 x1 y1 r,
  bbox_tidy r = true ->
  box_outside (Some x0, Some y0, Some x1, Some y1) r = false ->
  overlapsb 2 (row_of_bbox r) [x0; y0; x1; y1] = true.
Proof.
  intros x0 y0 x1 y1 [[[r0 r1] r2] r3] T O.
  destruct r0 as [r0|]; [|discriminate O].
  destruct r1 as [r1|]; [|discriminate T].
  destruct r2 as [r2|]; [|discriminate T].
  destruct r3 as [r3|]; [|discriminate T].
  cbn in O. cbn.
  destruct (Z.ltb_spec r2 x0); [discriminate O|].
  destruct (Z.ltb_spec x1 r0); [discriminate O|].
  destruct (Z.ltb_spec r3 y0); [discriminate O|].
  destruct (Z.ltb_spec y1 r1); [discriminate O|].
  repeat (apply andb_true_iff; split); try reflexivity; apply Z.leb_le; lia.
Qed.

(* ------------------------------------------------------------------ the contract *)

Theorem rtree_is_an_index : forall a keys ps,
  wf_fixarr a = true -> left_bounds_tidy a = true ->
  Permutation keys (seq 0 (fa_len a)) ->
  cand_contract (fa_len a) (fa_bounds a) (rtree_cand keys ps a).
Proof.
  intros a keys ps W T P.
  set (rows := map row_of_bbox (fa_bounds a)).
  pose proof (left_rows_wf a W) as Hwf. fold rows in Hwf.
  pose proof (left_rows_length a W) as Hn. fold rows in Hn.
  assert (P' : Permutation keys (seq 0 (List.length rows))) by (rewrite Hn; exact P).
  assert (Hd : 1 <= 2) by lia.
  destruct (scan_cand_contract a W) as (S1 & S2 & _).
  unfold cand_contract, rtree_cand, left_sindex. fold rows. repeat split.
  - intros q. destruct (finite_q q) as [q'|] eqn:E; [|apply S1].
    apply C03_intersects_NoDup; try assumption.
    destruct q as [[[[a0|] [b0|]] [c0|]] [d0|]]; inversion E; reflexivity.
  - intros q l H. destruct (finite_q q) as [q'|] eqn:E; [|exact (S2 q l H)].
    assert (Hq : List.length q' = 2 * 2)
      by (destruct q as [[[[a0|] [b0|]] [c0|]] [d0|]]; inversion E; reflexivity).
    apply (C03_intersects_In 2 rows keys ps q' l Hd Hwf P' Hq) in H.
    rewrite <- Hn. apply H.
  - intros q l F Hl O.
    destruct q as [[[[x0|] [y0|]] [x1|]] [y1|]]; try contradiction. cbn [finite_q].
    apply (C03_intersects_In 2 rows keys ps [x0; y0; x1; y1] l Hd Hwf P' eq_refl).
    split; [rewrite Hn; exact Hl|].
    assert (Hb : l < List.length (fa_bounds a)) by (rewrite (fa_bounds_length a W); exact Hl).
    unfold rows. destruct (left_row_nth a l) as [-> | Hge]; [|lia].
    apply not_outside_overlaps; [|exact O].
    unfold left_bounds_tidy in T. rewrite forallb_forall in T. apply T, nth_In, Hb.
Qed.

(* finite coordinates of the present points (the domain of the C01 / C04 models) imply the
   guard *)
Theorem finite_coords_tidy : forall a, g_modelled (GPoint a) -> left_bounds_tidy a = true.
Proof.
  intros a [W [slots AS]]. unfold left_bounds_tidy. apply forallb_forall. intros b Hb.
  destruct (In_nth _ _ nanbox Hb) as [i [Hi <-]].
  rewrite (fa_bounds_length a W) in Hi.
  pose proof (point_row a slots W AS i Hi) as R. unfold bb in R. cbn [g_bounds] in R.
  rewrite R. destruct (nth i slots None) as [[x y]|]; reflexivity.
Qed.

(* ------------------------------------------------------------------ sjoin through the tree *)

(* the pair table *)
Theorem pairs_exact_rtree : forall keys ps a rgeoms prs,
  wf_fixarr a = true -> left_bounds_tidy a = true ->
  Permutation keys (seq 0 (fa_len a)) ->
  right_wf rgeoms = true ->
  pair_table (rtree_cand keys ps a) a rgeoms = Some (Value prs) ->
  pair_enum a rgeoms prs.
Proof.
  intros keys ps a rgeoms prs W T P R H.
  apply (pairs_exact_closed (rtree_cand keys ps a) a rgeoms prs W); try assumption.
  apply rtree_is_an_index; assumption.
Qed.

(* sjoin with the R-tree as the left index: pandas' merge is the only contract left *)
Theorem sjoin_exact_rtree : forall mrg keys ps h ls rs lm rm a rgeoms res,
  merge_contract mrg ->
  left_bounds_tidy a = true ->
  Permutation keys (seq 0 (fa_len a)) ->
  right_wf rgeoms = true ->
  sjoin mrg (rtree_cand keys ps) h ls rs lm rm a rgeoms = Some (inr res) ->
  exists prs, pair_enum a rgeoms prs /\
              Permutation (j_rows res) (expected_rows h (fa_len a) (List.length rgeoms) prs).
Proof.
  intros mrg keys ps h ls rs lm rm a rgeoms res M T P R H.
  destruct (sjoin_inr_in_model _ _ _ _ _ _ _ _ _ _ H) as [_ W].
  apply (sjoin_exact_two mrg (rtree_cand keys ps) h ls rs lm rm a rgeoms res); try assumption.
  apply rtree_is_an_index; assumption.
Qed.

(* with the relational join of the executable model: no contract left, only guards *)
Theorem model_exact_rtree : forall keys ps h ls rs lm rm a rgeoms res,
  left_bounds_tidy a = true ->
  Permutation keys (seq 0 (fa_len a)) ->
  right_wf rgeoms = true ->
  sjoin merge_rel_op (rtree_cand keys ps) h ls rs lm rm a rgeoms = Some (inr res) ->
  exists prs, pair_enum a rgeoms prs /\
              Permutation (j_rows res) (expected_rows h (fa_len a) (List.length rgeoms) prs).
Proof.
  intros keys ps h ls rs lm rm a rgeoms res T P R H.
  apply (sjoin_exact_rtree merge_rel_op keys ps h ls rs lm rm a rgeoms res); try assumption.
  apply merge_rel_contract.
Qed.
