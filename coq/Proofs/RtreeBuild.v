(* C03, build side: the array-encoded tree produced by _build_hilbert_rtree.
   Node (l, j) = the j-th node of depth l has index 2^l - 1 + j; with h + l =
   tree_depth its box is the page box of the sorted rows
   [j * 2^h * page_size, (j+1) * 2^h * page_size). *)
From Coq Require Import ZArith List Bool Arith Lia Permutation.
From SP Require Import Model.Num Model.Rtree Spec.Boxes Proofs.RtreeLists.
Import ListNotations.
Local Open Scope nat_scope.

(* ------------------------------------------------------------ powers of 2 *)
Lemma pow2_pos : forall k, 1 <= 2 ^ k.
Proof. intros k. pose proof (Nat.pow_nonzero 2 k). lia. Qed.

Lemma pow2_S : forall k, 2 ^ (S k) = 2 * 2 ^ k.
Proof. intros. apply Nat.pow_succ_r'. Qed.

Lemma pow2_le : forall a b, a <= b -> 2 ^ a <= 2 ^ b.
Proof. intros. apply Nat.pow_le_mono_r; lia. Qed.

Lemma pow2_gt : forall k, k < 2 ^ k.
Proof. intros. apply Nat.pow_gt_lin_r. lia. Qed.

Lemma log2_up_ge : forall a, a <= 2 ^ Nat.log2_up a.
Proof.
  intros a. destruct (Nat.le_gt_cases a 1) as [H|H].
  - pose proof (pow2_pos (Nat.log2_up a)). lia.
  - apply (Nat.log2_up_spec a H).
Qed.

Lemma num_pages_cover : forall n ps, 1 <= ps -> n <= num_pages_of n ps * ps.
Proof.
  intros n ps Hps. unfold num_pages_of.
  pose proof (Nat.div_mod (n + ps - 1) ps ltac:(lia)) as E.
  pose proof (Nat.mod_upper_bound (n + ps - 1) ps ltac:(lia)) as U.
  nia.
Qed.

(* ------------------------------------------------------------ rows, columns *)
Definition nanrow (d : nat) : row := repeat None (2 * d).

(* what norm_row produces from a row of 2d coordinates *)
Definition normal (d : nat) (r : row) : Prop :=
  length r = 2 * d /\ (row_finite r = true \/ r = nanrow d).

Lemma row_finite_existsb : forall r, row_finite r = negb (existsb isnan r).
Proof.
  induction r as [|x t IH]; simpl; [reflexivity|].
  unfold row_finite in *. simpl. rewrite IH. now destruct (isnan x).
Qed.

Lemma map_const_repeat : forall A B (l : list A) (v : B),
  map (fun _ => v) l = repeat v (length l).
Proof. induction l as [|x t IH]; intros; simpl; [reflexivity|]. now rewrite IH. Qed.

Lemma norm_row_normal : forall d r, length r = 2 * d -> normal d (norm_row r).
Proof.
  intros d r Hl. unfold norm_row, normal.
  destruct (existsb isnan r) eqn:E.
  - rewrite map_length. split; [exact Hl|]. right.
    rewrite map_const_repeat, Hl. reflexivity.
  - split; [exact Hl|]. left. now rewrite row_finite_existsb, E.
Qed.

Lemma norm_row_finite : forall r, row_finite r = true -> norm_row r = r.
Proof.
  intros r H. unfold norm_row. rewrite row_finite_existsb in H.
  destruct (existsb isnan r); [discriminate|reflexivity].
Qed.

Lemma norm_row_nan : forall r, row_finite r = false ->
  norm_row r = repeat None (length r).
Proof.
  intros r H. unfold norm_row. rewrite row_finite_existsb in H.
  destruct (existsb isnan r); [apply map_const_repeat|discriminate].
Qed.

Lemma row_finite_repeat_None : forall m, 1 <= m -> row_finite (repeat None m) = false.
Proof. intros m H. destruct m; [lia|]. reflexivity. Qed.

Lemma row_finite_norm : forall r, row_finite (norm_row r) = row_finite r.
Proof.
  intros r. destruct (row_finite r) eqn:E.
  - now rewrite norm_row_finite.
  - rewrite norm_row_nan by exact E. destruct r as [|x t]; [discriminate|]. reflexivity.
Qed.

Lemma col_repeat_None : forall c m, col c (repeat None m) = None.
Proof.
  intros c m. unfold col. revert c. induction m as [|m IH]; intros c; destruct c; simpl; auto.
Qed.

Lemma row_finite_col : forall r c, row_finite r = true -> c < length r ->
  exists x, col c r = Some x.
Proof.
  induction r as [|y t IH]; intros c Hf Hc; simpl in Hc; [lia|].
  unfold row_finite in Hf. simpl in Hf. apply andb_true_iff in Hf. destruct Hf as [Hy Ht].
  destruct c; simpl.
  - unfold col. simpl. destruct y; [eauto|discriminate].
  - unfold col. simpl. apply IH; [exact Ht|lia].
Qed.

(* ------------------------------------------------------- nanmin / nanmax *)
Definition mmin (a b : num) : num :=
  match a, b with
  | None, m => m
  | Some x, None => Some x
  | Some x, Some m => Some (Z.min x m)
  end.
Definition mmax (a b : num) : num :=
  match a, b with
  | None, m => m
  | Some x, None => Some x
  | Some x, Some m => Some (Z.max x m)
  end.

Lemma col_nanmin_cons : forall c r t, col_nanmin c (r :: t) = mmin (col c r) (col_nanmin c t).
Proof. intros. simpl. destruct (col c r); destruct (col_nanmin c t); reflexivity. Qed.
Lemma col_nanmax_cons : forall c r t, col_nanmax c (r :: t) = mmax (col c r) (col_nanmax c t).
Proof. intros. simpl. destruct (col c r); destruct (col_nanmax c t); reflexivity. Qed.

Lemma mmin_assoc : forall a b c, mmin a (mmin b c) = mmin (mmin a b) c.
Proof. intros [x|] [y|] [z|]; simpl; try reflexivity. now rewrite Z.min_assoc. Qed.
Lemma mmax_assoc : forall a b c, mmax a (mmax b c) = mmax (mmax a b) c.
Proof. intros [x|] [y|] [z|]; simpl; try reflexivity. now rewrite Z.max_assoc. Qed.
Lemma mmin_comm : forall a b, mmin a b = mmin b a.
Proof. intros [x|] [y|]; simpl; try reflexivity. now rewrite Z.min_comm. Qed.
Lemma mmax_comm : forall a b, mmax a b = mmax b a.
Proof. intros [x|] [y|]; simpl; try reflexivity. now rewrite Z.max_comm. Qed.

Lemma col_nanmin_app : forall c A B,
  col_nanmin c (A ++ B) = mmin (col_nanmin c A) (col_nanmin c B).
Proof.
  induction A as [|r t IH]; intros B.
  - reflexivity.
  - rewrite <- app_comm_cons, !col_nanmin_cons, IH. apply mmin_assoc.
Qed.
Lemma col_nanmax_app : forall c A B,
  col_nanmax c (A ++ B) = mmax (col_nanmax c A) (col_nanmax c B).
Proof.
  induction A as [|r t IH]; intros B.
  - reflexivity.
  - rewrite <- app_comm_cons, !col_nanmax_cons, IH. apply mmax_assoc.
Qed.

Lemma col_nanmin_perm : forall c A B, Permutation A B -> col_nanmin c A = col_nanmin c B.
Proof.
  intros c A B H. induction H.
  - reflexivity.
  - rewrite !col_nanmin_cons. now rewrite IHPermutation.
  - rewrite !col_nanmin_cons, !mmin_assoc. f_equal. apply mmin_comm.
  - congruence.
Qed.
Lemma col_nanmax_perm : forall c A B, Permutation A B -> col_nanmax c A = col_nanmax c B.
Proof.
  intros c A B H. induction H.
  - reflexivity.
  - rewrite !col_nanmax_cons. now rewrite IHPermutation.
  - rewrite !col_nanmax_cons, !mmax_assoc. f_equal. apply mmax_comm.
  - congruence.
Qed.

Lemma page_box_perm : forall d A B, Permutation A B -> page_box d A = page_box d B.
Proof.
  intros d A B H. unfold page_box. f_equal; apply map_ext; intros c.
  - now apply col_nanmin_perm.
  - now apply col_nanmax_perm.
Qed.

Lemma page_box_length : forall d R, length (page_box d R) = 2 * d.
Proof. intros. unfold page_box. rewrite app_length, !map_length, !seq_length. lia. Qed.

Lemma page_box_col_lo : forall d R c, c < d -> col c (page_box d R) = col_nanmin c R.
Proof.
  intros d R c Hc. unfold col, page_box.
  rewrite app_nth1 by (rewrite map_length, seq_length; exact Hc).
  rewrite (nth_indep _ None (col_nanmin 0 R)) by (rewrite map_length, seq_length; exact Hc).
  rewrite (map_nth (fun c => col_nanmin c R)). now rewrite seq_nth.
Qed.

Lemma page_box_col_hi : forall d R c, c < d -> col (c + d) (page_box d R) = col_nanmax (c + d) R.
Proof.
  intros d R c Hc. unfold col, page_box.
  rewrite app_nth2 by (rewrite map_length, seq_length; lia).
  rewrite map_length, seq_length. replace (c + d - d) with c by lia.
  rewrite (nth_indep _ None (col_nanmax (0 + d) R)) by (rewrite map_length, seq_length; exact Hc).
  rewrite (map_nth (fun c => col_nanmax (c + d) R)). now rewrite seq_nth.
Qed.

(* some row of R has a box *)
Definition has_fin (R : list row) : bool := existsb row_finite R.

Lemma has_fin_app : forall A B, has_fin (A ++ B) = has_fin A || has_fin B.
Proof. intros. unfold has_fin. apply existsb_app. Qed.

Lemma col_nanmin_some_iff : forall d R c, Forall (normal d) R -> c < 2 * d ->
  (has_fin R = true -> exists x, col_nanmin c R = Some x) /\
  (has_fin R = false -> col_nanmin c R = None).
Proof.
  intros d R c HR Hc. induction HR as [|r t Hr Ht IH].
  - split; [discriminate|reflexivity].
  - rewrite col_nanmin_cons. unfold has_fin in *. simpl.
    destruct Hr as [Hl [Hf|Hn]].
    + rewrite Hf. simpl. split; [intros _|discriminate].
      destruct (row_finite_col r c Hf ltac:(lia)) as [x Hx]. rewrite Hx.
      destruct (col_nanmin c t); simpl; eauto.
    + subst r. unfold nanrow. rewrite col_repeat_None, row_finite_repeat_None by lia.
      simpl. exact IH.
Qed.

Lemma col_nanmax_some_iff : forall d R c, Forall (normal d) R -> c < 2 * d ->
  (has_fin R = true -> exists x, col_nanmax c R = Some x) /\
  (has_fin R = false -> col_nanmax c R = None).
Proof.
  intros d R c HR Hc. induction HR as [|r t Hr Ht IH].
  - split; [discriminate|reflexivity].
  - rewrite col_nanmax_cons. unfold has_fin in *. simpl.
    destruct Hr as [Hl [Hf|Hn]].
    + rewrite Hf. simpl. split; [intros _|discriminate].
      destruct (row_finite_col r c Hf ltac:(lia)) as [x Hx]. rewrite Hx.
      destruct (col_nanmax c t); simpl; eauto.
    + subst r. unfold nanrow. rewrite col_repeat_None, row_finite_repeat_None by lia.
      simpl. exact IH.
Qed.

Lemma repeat_app' : forall A (v : A) a b, repeat v (a + b) = repeat v a ++ repeat v b.
Proof. intros A v a b. induction a as [|a IH]; simpl; [reflexivity|]. now rewrite IH. Qed.

Lemma page_box_nofin : forall d R, Forall (normal d) R -> has_fin R = false ->
  page_box d R = nanrow d.
Proof.
  intros d R HR Hf. unfold page_box, nanrow.
  replace (2 * d) with (d + d) by lia. rewrite repeat_app'.
  f_equal.
  - rewrite <- (seq_length d 0) at 2. rewrite <- map_const_repeat.
    apply map_ext_in. intros c Hc. apply in_seq in Hc.
    apply (proj2 (col_nanmin_some_iff d R c HR ltac:(lia))). exact Hf.
  - rewrite <- (seq_length d 0) at 2. rewrite <- map_const_repeat.
    apply map_ext_in. intros c Hc. apply in_seq in Hc.
    apply (proj2 (col_nanmax_some_iff d R (c + d) HR ltac:(lia))). exact Hf.
Qed.

Lemma page_box_nil : forall d, page_box d [] = nanrow d.
Proof. intros. apply page_box_nofin; [constructor|reflexivity]. Qed.

(* validity test of the bottom-up loop: column 0 of a page box *)
Lemma page_box_valid : forall d R, 1 <= d -> Forall (normal d) R ->
  negb (isnan (col 0 (page_box d R))) = has_fin R.
Proof.
  intros d R Hd HR. rewrite page_box_col_lo by lia.
  destruct (col_nanmin_some_iff d R 0 HR ltac:(lia)) as [H1 H2].
  destruct (has_fin R).
  - destruct (H1 eq_refl) as [x Hx]. now rewrite Hx.
  - now rewrite (H2 eq_refl).
Qed.

(* ------------------------------------------------ one node of a layer *)
Definition combine_rows (d : nat) (lb rb old : row) : row :=
  if negb (isnan (col 0 lb)) then
    if negb (isnan (col 0 rb)) then
      map (fun c => nmin (col c lb) (col c rb)) (seq 0 d) ++
      map (fun c => nmax (col (c + d) lb) (col (c + d) rb)) (seq 0 d)
    else lb
  else if negb (isnan (col 0 rb)) then rb else old.

Definition node_value (d : nat) (bt : list row) (node : nat) : row :=
  combine_rows d (getrow (left_child node) bt) (getrow (right_child node) bt) (getrow node bt).

Lemma node_update_eq : forall d bt node,
  node_update d bt node = upd node (node_value d bt node) bt.
Proof.
  intros d bt node. unfold node_update, node_value, combine_rows.
  destruct (negb (isnan (col 0 (getrow (left_child node) bt))));
    destruct (negb (isnan (col 0 (getrow (right_child node) bt)))); try reflexivity.
  unfold getrow. now rewrite upd_same.
Qed.

Lemma nmin_some : forall x y, nmin (Some x) (Some y) = Some (Z.min x y).
Proof.
  intros. unfold nmin, nlt. destruct (Z.ltb y x) eqn:E.
  - f_equal. apply Z.ltb_lt in E. lia.
  - f_equal. apply Z.ltb_ge in E. lia.
Qed.
Lemma nmax_some : forall x y, nmax (Some x) (Some y) = Some (Z.max x y).
Proof.
  intros. unfold nmax, ngt, nlt. destruct (Z.ltb x y) eqn:E.
  - f_equal. apply Z.ltb_lt in E. lia.
  - f_equal. apply Z.ltb_ge in E. lia.
Qed.

Lemma combine_boxes : forall d A B, 1 <= d -> Forall (normal d) A -> Forall (normal d) B ->
  combine_rows d (page_box d A) (page_box d B) (nanrow d) = page_box d (A ++ B).
Proof.
  intros d A B Hd HA HB. unfold combine_rows.
  rewrite !page_box_valid by assumption.
  destruct (has_fin A) eqn:FA; destruct (has_fin B) eqn:FB.
  - unfold page_box at 5. f_equal; apply map_ext_in; intros c Hc; apply in_seq in Hc.
    + rewrite !page_box_col_lo by lia. rewrite col_nanmin_app.
      destruct (proj1 (col_nanmin_some_iff d A c HA ltac:(lia)) FA) as [x Hx].
      destruct (proj1 (col_nanmin_some_iff d B c HB ltac:(lia)) FB) as [y Hy].
      rewrite Hx, Hy. apply nmin_some.
    + rewrite !page_box_col_hi by lia. rewrite col_nanmax_app.
      destruct (proj1 (col_nanmax_some_iff d A (c + d) HA ltac:(lia)) FA) as [x Hx].
      destruct (proj1 (col_nanmax_some_iff d B (c + d) HB ltac:(lia)) FB) as [y Hy].
      rewrite Hx, Hy. apply nmax_some.
  - unfold page_box. f_equal; apply map_ext_in; intros c Hc; apply in_seq in Hc.
    + rewrite col_nanmin_app.
      rewrite (proj2 (col_nanmin_some_iff d B c HB ltac:(lia)) FB).
      now destruct (col_nanmin c A).
    + rewrite col_nanmax_app.
      rewrite (proj2 (col_nanmax_some_iff d B (c + d) HB ltac:(lia)) FB).
      now destruct (col_nanmax (c + d) A).
  - unfold page_box. f_equal; apply map_ext_in; intros c Hc; apply in_seq in Hc.
    + rewrite col_nanmin_app.
      now rewrite (proj2 (col_nanmin_some_iff d A c HA ltac:(lia)) FA).
    + rewrite col_nanmax_app.
      now rewrite (proj2 (col_nanmax_some_iff d A (c + d) HA ltac:(lia)) FA).
  - symmetry. apply page_box_nofin.
    + apply Forall_app. now split.
    + rewrite has_fin_app, FA, FB. reflexivity.
Qed.

(* ------------------------------------------------ loops over the array *)
Lemma fill_spec : forall (g : nat -> row) L m bt, L + m <= length bt ->
  let bt' := fold_left (fun bt page => upd (L + page) (g page) bt) (seq 0 m) bt in
  length bt' = length bt /\
  (forall page, page < m -> getrow (L + page) bt' = g page) /\
  (forall i, i < L \/ L + m <= i -> getrow i bt' = getrow i bt).
Proof.
  intros g L m. induction m as [|m IH]; intros bt Hm.
  - simpl. repeat split; auto. intros; lia.
  - rewrite seq_S, fold_left_app. simpl.
    destruct (IH bt ltac:(lia)) as (Hlen & Hin & Hout).
    set (bt' := fold_left (fun bt page => upd (L + page) (g page) bt) (seq 0 m) bt) in *.
    repeat split.
    + now rewrite upd_length.
    + intros page Hp. unfold getrow. destruct (Nat.eq_dec page m) as [->|Hne].
      * apply nth_upd_same. lia.
      * rewrite nth_upd_other by lia. apply Hin. lia.
    + intros i Hi. unfold getrow. rewrite nth_upd_other by lia. apply Hout. lia.
Qed.

Lemma layer_spec : forall d c s bt, s + c <= length bt ->
  let bt' := fold_left (node_update d) (seq s c) bt in
  length bt' = length bt /\
  (forall i, i < s \/ s + c <= i -> getrow i bt' = getrow i bt) /\
  (forall j, j < c -> getrow (s + j) bt' = node_value d bt (s + j)).
Proof.
  intros d c. induction c as [|c IH]; intros s bt Hc.
  - simpl. repeat split; auto. intros; lia.
  - rewrite seq_S, fold_left_app. simpl.
    destruct (IH s bt ltac:(lia)) as (Hlen & Hout & Hin).
    set (bt' := fold_left (node_update d) (seq s c) bt) in *.
    rewrite node_update_eq.
    assert (Hv : node_value d bt' (s + c) = node_value d bt (s + c)).
    { unfold node_value, left_child, right_child. rewrite !Hout by lia. reflexivity. }
    repeat split.
    + now rewrite upd_length.
    + intros i Hi. unfold getrow. rewrite nth_upd_other by lia. apply Hout. lia.
    + intros j Hj. unfold getrow. destruct (Nat.eq_dec j c) as [->|Hne].
      * rewrite nth_upd_same by lia. exact Hv.
      * rewrite nth_upd_other by lia. apply Hin. lia.
Qed.

Lemma parent_start : forall l, parent (2 ^ (S l) - 1) = 2 ^ l - 1.
Proof.
  intros l. unfold parent. rewrite pow2_S. pose proof (pow2_pos l).
  replace (2 * 2 ^ l - 1 - 1) with ((2 ^ l - 1) * 2) by lia.
  apply Nat.div_mul. lia.
Qed.

Lemma parent_stop : forall l, parent (2 ^ (S (S l)) - 2) = 2 ^ (S l) - 2.
Proof.
  intros l. unfold parent. rewrite (pow2_S (S l)). pose proof (pow2_pos (S l)).
  rewrite pow2_S in *. pose proof (pow2_pos l).
  symmetry. apply (Nat.div_unique _ 2 _ 1); lia.
Qed.

(* ------------------------------------------------ the whole tree *)
Section Tree.
  Variables (d ps td np : nat) (sorted : list row).
  Hypothesis Hd : 1 <= d.
  Hypothesis Hps : 1 <= ps.
  Hypothesis Hnp : np <= 2 ^ td.
  Hypothesis Hcover : length sorted <= np * ps.
  Hypothesis Hnorm : Forall (normal d) sorted.

  Definition tlen : nat := 2 ^ td * 2 - 1.
  Definition lstart : nat := tlen - 2 ^ td.

  (* rows of the j-th node of height h *)
  Definition range_rows (h j : nat) : list row :=
    slice (j * 2 ^ h * ps) ((j + 1) * 2 ^ h * ps) sorted.
  Definition range_box (h j : nat) : row := page_box d (range_rows h j).

  Definition bt0 : list row := repeat (repeat (None : num) (2 * d)) tlen.
  Definition bt1 : list row := fill_leaves d ps lstart sorted np bt0.
  Definition bt2 : list row :=
    build_layers d td (parent (tlen - 2 ^ td)) (parent (tlen - 1)) bt1.

  Lemma range_rows_normal : forall h j, Forall (normal d) (range_rows h j).
  Proof.
    intros h j. apply Forall_forall. intros r Hr.
    apply slice_In in Hr. revert r Hr. now apply Forall_forall.
  Qed.

  Lemma range_rows_split : forall h j,
    range_rows (S h) j = range_rows h (2 * j) ++ range_rows h (2 * j + 1).
  Proof.
    intros h j. unfold range_rows. rewrite pow2_S.
    replace ((2 * j + 1) * 2 ^ h * ps) with ((2 * j + 1 + 0) * 2 ^ h * ps) by (f_equal; f_equal; lia).
    replace ((2 * j + 1 + 1) * 2 ^ h * ps) with ((j + 1) * (2 * 2 ^ h) * ps) by nia.
    replace (2 * j * 2 ^ h * ps) with (j * (2 * 2 ^ h) * ps) by nia.
    apply slice_app; nia.
  Qed.

  (* invariant of the bottom-up construction: layers >= l0 are final, layers
     above are still NaN *)
  Definition Inv (l0 : nat) (bt : list row) : Prop :=
    length bt = tlen /\
    (forall h l j, h + l = td -> l0 <= l -> j < 2 ^ l ->
                   getrow (2 ^ l - 1 + j) bt = range_box h j) /\
    (forall l j, l < l0 -> j < 2 ^ l -> getrow (2 ^ l - 1 + j) bt = nanrow d).

  Lemma getrow_bt0 : forall i, i < tlen -> getrow i bt0 = nanrow d.
  Proof.
    intros i Hi. unfold getrow, bt0. rewrite nth_indep with (d' := nanrow d)
      by (now rewrite repeat_length).
    apply nth_repeat.
  Qed.

  Lemma Inv_bt1 : Inv td bt1.
  Proof.
    pose proof (pow2_pos td) as Hp.
    unfold bt1, fill_leaves.
    pose proof (fill_spec (fun page => page_box d (slice (page * ps) (page * ps + ps) sorted))
                          lstart np bt0) as F.
    cbv zeta in F. assert (Hl0 : length bt0 = tlen) by (unfold bt0; apply repeat_length).
    rewrite Hl0 in F.
    destruct F as (Hlen & Hin & Hout); [unfold lstart, tlen; lia|].
    unfold Inv. repeat split.
    - exact Hlen.
    - intros h l j Hhl Hl Hj. assert (l = td) by lia. subst l. assert (h = 0) by lia. subst h.
      replace (2 ^ td - 1 + j) with (lstart + j) by (unfold lstart, tlen; lia).
      unfold range_box, range_rows. simpl. rewrite !Nat.mul_1_r.
      destruct (Nat.lt_ge_cases j np) as [Hlt|Hge].
      + rewrite Hin by exact Hlt. f_equal. f_equal. lia.
      + rewrite Hout by lia. rewrite getrow_bt0 by (unfold lstart, tlen; lia).
        rewrite slice_beyond by nia. symmetry. apply page_box_nil.
    - intros l j Hl Hj.
      assert (2 ^ (S l) <= 2 ^ td) as Hle by (apply pow2_le; lia).
      rewrite pow2_S in Hle.
      rewrite Hout by (unfold lstart, tlen; lia).
      apply getrow_bt0. unfold tlen. lia.
  Qed.

  Lemma Inv_layer : forall l bt, l < td -> Inv (S l) bt ->
    Inv l (fold_left (node_update d) (seq (2 ^ l - 1) (2 ^ l)) bt).
  Proof.
    intros l bt Hl (Hlen & Hfin & Hnan).
    pose proof (pow2_pos l) as Hp.
    assert (2 ^ (S l) <= 2 ^ td) as Hle by (apply pow2_le; lia).
    rewrite pow2_S in Hle.
    pose proof (layer_spec d (2 ^ l) (2 ^ l - 1) bt) as S.
    cbv zeta in S. destruct S as (Slen & Sout & Sin); [rewrite Hlen; unfold tlen; lia|].
    unfold Inv. repeat split.
    - now rewrite Slen.
    - intros h l' j Hhl Hl' Hj.
      destruct (Nat.eq_dec l' l) as [->|Hne].
      + rewrite Sin by exact Hj. unfold node_value, left_child, right_child.
        destruct h as [|h]; [lia|].
        replace (2 * (2 ^ l - 1 + j) + 1) with (2 ^ (S l) - 1 + 2 * j) by (rewrite pow2_S; lia).
        replace (2 * (2 ^ l - 1 + j) + 2) with (2 ^ (S l) - 1 + (2 * j + 1)) by (rewrite pow2_S; lia).
        rewrite (Hfin h (S l) (2 * j)) by (try rewrite pow2_S; lia).
        rewrite (Hfin h (S l) (2 * j + 1)) by (try rewrite pow2_S; lia).
        rewrite (Hnan l j) by lia.
        unfold range_box. rewrite combine_boxes by (try apply range_rows_normal; assumption).
        now rewrite range_rows_split.
      + assert (2 ^ (S l) <= 2 ^ l') as Hle' by (apply pow2_le; lia).
        rewrite pow2_S in Hle'.
        rewrite Sout by lia. apply Hfin; lia.
    - intros l' j Hl' Hj.
      assert (2 ^ (S l') <= 2 ^ l) as Hle' by (apply pow2_le; lia).
      rewrite pow2_S in Hle'.
      rewrite Sout by lia. apply Hnan; lia.
  Qed.

  Lemma build_layers_S : forall l s t bt,
    build_layers d (S l) s t bt =
    build_layers d l (parent s) (parent t) (fold_left (node_update d) (seq s (t + 1 - s)) bt).
  Proof. reflexivity. Qed.

  Lemma Inv_layers : forall l0 start stop bt,
    l0 <= td ->
    (1 <= l0 -> start = 2 ^ (l0 - 1) - 1 /\ stop = 2 ^ l0 - 2) ->
    Inv l0 bt -> Inv 0 (build_layers d l0 start stop bt).
  Proof.
    induction l0 as [|l IH]; intros start stop bt Hl0 Hss HI.
    - exact HI.
    - destruct (Hss ltac:(lia)) as [-> ->]. rewrite build_layers_S.
      replace (S l - 1) with l by lia.
      pose proof (pow2_pos l) as Hp.
      replace (2 ^ S l - 2 + 1 - (2 ^ l - 1)) with (2 ^ l) by (rewrite pow2_S; lia).
      apply IH; [lia| |apply Inv_layer; [lia|exact HI]].
      intros Hl1. destruct l as [|l']; [lia|].
      replace (S l' - 1) with l' by lia.
      split; [apply parent_start|apply parent_stop].
  Qed.

  Lemma Inv_bt2 : Inv 0 bt2.
  Proof.
    unfold bt2. apply Inv_layers; [lia| |apply Inv_bt1].
    intros H1. assert (E : td = S (td - 1)) by lia.
    unfold tlen.
    pose proof (pow2_pos td) as Hp.
    split.
    - replace (2 ^ td * 2 - 1 - 2 ^ td) with (2 ^ td - 1) by lia.
      rewrite E at 1. apply parent_start.
    - replace (2 ^ td * 2 - 1 - 1) with (2 ^ (S td) - 2) by (rewrite (pow2_S td); lia).
      rewrite E at 1 2. apply parent_stop.
  Qed.

  Theorem bt2_length : length bt2 = tlen.
  Proof. apply Inv_bt2. Qed.

  Theorem bt2_node : forall h l j, h + l = td -> j < 2 ^ l ->
    getrow (2 ^ l - 1 + j) bt2 = range_box h j.
  Proof.
    intros h l j Hhl Hj. destruct Inv_bt2 as (_ & H & _). apply H; [exact Hhl|lia|exact Hj].
  Qed.
End Tree.
