(* Lemma library for Model/FS.v: what every operation does to [node_at]. *)
From Coq Require Import ZArith List Bool Arith String Lia.
From SP Require Import Harness Model.FS.
Import ListNotations.

(* ------------------------------------------------------------------ names and paths *)
Lemma name_eqb_spec : forall a b, reflect (a = b) (name_eqb a b).
Proof.
  intros a b. destruct a, b; simpl; try (constructor; congruence).
  - destruct (Nat.eqb_spec n n0); constructor; congruence.
  - destruct (Nat.eqb_spec i i0); constructor; congruence.
  - destruct (Nat.eqb_spec n n0); constructor; congruence.
  - destruct (String.eqb_spec s s0); constructor; congruence.
Qed.

Lemma name_eqb_refl : forall a, name_eqb a a = true.
Proof. intro a. destruct (name_eqb_spec a a); congruence. Qed.

Lemma path_eqb_spec : forall p q, reflect (p = q) (path_eqb p q).
Proof.
  induction p as [|a p IH]; intros [|b q]; simpl; try (constructor; congruence).
  destruct (name_eqb_spec a b) as [->|Hab]; simpl.
  - destruct (IH q) as [->|Hpq]; constructor; congruence.
  - constructor; congruence.
Qed.

Lemma path_eqb_refl : forall p, path_eqb p p = true.
Proof. intro p. destruct (path_eqb_spec p p); congruence. Qed.

Lemma path_eqb_sym : forall p q, path_eqb p q = path_eqb q p.
Proof.
  intros p q. destruct (path_eqb_spec p q), (path_eqb_spec q p); congruence.
Qed.

Lemma path_eqb_eq : forall p q, path_eqb p q = true <-> p = q.
Proof. intros p q. destruct (path_eqb_spec p q); split; congruence. Qed.

Lemma path_eqb_neq : forall p q, path_eqb p q = false <-> p <> q.
Proof. intros p q. destruct (path_eqb_spec p q); split; congruence. Qed.

Lemma strip_prefix_app : forall p r, strip_prefix p (p ++ r) = Some r.
Proof.
  induction p as [|a p IH]; intro r; simpl; [reflexivity|].
  rewrite name_eqb_refl. apply IH.
Qed.

Lemma strip_prefix_some : forall p q r, strip_prefix p q = Some r -> q = p ++ r.
Proof.
  induction p as [|a p IH]; intros q r H; simpl in *.
  - congruence.
  - destruct q as [|b q]; [discriminate|].
    destruct (name_eqb_spec a b) as [->|]; [|discriminate].
    simpl. f_equal. apply IH. exact H.
Qed.

Lemma strip_prefix_iff : forall p q r, strip_prefix p q = Some r <-> q = p ++ r.
Proof.
  intros. split; [apply strip_prefix_some|]. intros ->. apply strip_prefix_app.
Qed.

Lemma is_prefix_iff : forall p q, is_prefix p q = true <-> exists r, q = p ++ r.
Proof.
  intros p q. unfold is_prefix. destruct (strip_prefix p q) as [r|] eqn:E.
  - split; [|reflexivity]. intros _. exists r. apply strip_prefix_some. exact E.
  - split; [discriminate|]. intros [r ->]. rewrite strip_prefix_app in E. discriminate.
Qed.

Lemma is_prefix_app : forall p r, is_prefix p (p ++ r) = true.
Proof. intros. apply is_prefix_iff. eauto. Qed.

Lemma is_prefix_refl : forall p, is_prefix p p = true.
Proof. intro p. rewrite <- (app_nil_r p) at 2. apply is_prefix_app. Qed.

Lemma is_prefix_nil : forall q, is_prefix [] q = true.
Proof. reflexivity. Qed.

Lemma is_prefix_of_nil : forall p, is_prefix p [] = true -> p = [].
Proof. intros [|a p]; [reflexivity|]. discriminate. Qed.

Lemma is_prefix_trans : forall p q r, is_prefix p q = true -> is_prefix q r = true -> is_prefix p r = true.
Proof.
  intros p q r H1 H2. apply is_prefix_iff in H1 as [a ->]. apply is_prefix_iff in H2 as [b ->].
  rewrite <- app_assoc. apply is_prefix_app.
Qed.

Lemma is_prefix_false_app : forall p q r, is_prefix p q = false -> is_prefix (p ++ r) q = false.
Proof.
  intros p q r H. destruct (is_prefix (p ++ r) q) eqn:E; [|reflexivity].
  apply is_prefix_iff in E as [s ->]. rewrite <- app_assoc, is_prefix_app in H. discriminate.
Qed.

(* two prefixes of the same path are comparable *)
Lemma prefix_comparable : forall p q x,
  is_prefix p x = true -> is_prefix q x = true -> is_prefix p q = true \/ is_prefix q p = true.
Proof.
  induction p as [|a p IH]; intros q x Hp Hq; [left; reflexivity|].
  destruct q as [|b q]; [right; reflexivity|].
  destruct x as [|c x]; [discriminate|].
  unfold is_prefix in *. simpl in *.
  destruct (name_eqb_spec a c) as [->|]; [|discriminate].
  destruct (name_eqb_spec b c) as [->|]; [|discriminate].
  rewrite name_eqb_refl. apply (IH q x); assumption.
Qed.

Lemma app_inv_head_path : forall (p r s : path), p ++ r = p ++ s -> r = s.
Proof. intros. eapply app_inv_head; eauto. Qed.

Lemma removelast_snoc : forall (p : path) a, removelast (p ++ [a]) = p.
Proof. intros. apply removelast_last. Qed.

Lemma parent_snoc : forall p a, parent (p ++ [a]) = p.
Proof. intros. apply removelast_last. Qed.

Lemma last_snoc : forall (p : path) a d, last (p ++ [a]) d = a.
Proof. intros. apply last_last. Qed.

Lemma path_neq_snoc : forall (p : path) a, p ++ [a] <> p.
Proof.
  intros p a H. assert (L : List.length (p ++ [a]) = List.length p) by (rewrite H; reflexivity).
  rewrite app_length in L. simpl in L. lia.
Qed.

Lemma snoc_not_nil : forall (p : path) a, p ++ [a] <> [].
Proof. intros [|b p] a; discriminate. Qed.

Lemma is_prefix_snoc_self : forall p a, is_prefix (p ++ [a]) p = false.
Proof.
  intros p a. destruct (is_prefix (p ++ [a]) p) eqn:E; [|reflexivity].
  apply is_prefix_iff in E as [r E].
  assert (L : List.length p = List.length ((p ++ [a]) ++ r)) by (rewrite <- E; reflexivity).
  rewrite !app_length in L. simpl in L. lia.
Qed.

Lemma is_child_iff : forall p q, is_child p q = true <-> exists a, q = p ++ [a].
Proof.
  intros p q. unfold is_child. destruct (strip_prefix p q) as [r|] eqn:E.
  - apply strip_prefix_some in E. subst q. destruct r as [|a [|b r]].
    + split; [discriminate|]. intros [a H]. rewrite app_nil_r in H.
      symmetry in H. apply path_neq_snoc in H. contradiction.
    + split; eauto.
    + split; [discriminate|]. intros [c H]. apply app_inv_head in H. discriminate.
  - split; [discriminate|]. intros [a ->]. rewrite strip_prefix_app in E. discriminate.
Qed.

(* ------------------------------------------------------------------ assoc / node_at *)
Lemma node_at_cons : forall f a p, node_at f (a :: p) = assoc f (a :: p).
Proof. reflexivity. Qed.

Lemma node_at_nonnil : forall f p, p <> [] -> node_at f p = assoc f p.
Proof. intros f [|a p] H; [contradiction|reflexivity]. Qed.

Lemma assoc_upsert : forall f p n q,
  assoc (upsert f p n) q = if path_eqb p q then Some n else assoc f q.
Proof.
  induction f as [|[k m] f IH]; intros p n q; simpl.
  - reflexivity.
  - destruct (path_eqb_spec k p) as [->|Hkp]; simpl.
    + destruct (path_eqb_spec p q); reflexivity.
    + rewrite IH. destruct (path_eqb_spec k q) as [->|]; [|reflexivity].
      destruct (path_eqb_spec p q); [congruence|reflexivity].
Qed.

Lemma node_at_upsert : forall f p n q, p <> [] ->
  node_at (upsert f p n) q = if path_eqb p q then Some n else node_at f q.
Proof.
  intros f p n [|a q] Hp.
  - simpl. destruct (path_eqb_spec p []); [contradiction|reflexivity].
  - simpl. apply assoc_upsert.
Qed.

Lemma assoc_filter : forall (g : path -> bool) f q,
  assoc (filter (fun e => g (fst e)) f) q = if g q then assoc f q else None.
Proof.
  intros g. induction f as [|[k m] f IH]; intro q; simpl.
  - destruct (g q); reflexivity.
  - destruct (g k) eqn:Gk; simpl.
    + destruct (path_eqb_spec k q) as [->|]; [rewrite Gk; reflexivity|apply IH].
    + rewrite IH. destruct (path_eqb_spec k q) as [->|]; [rewrite Gk; reflexivity|reflexivity].
Qed.

Lemma node_at_rm_tree : forall f p q, p <> [] ->
  node_at (rm_tree f p) q = if is_prefix p q then None else node_at f q.
Proof.
  intros f p [|a q] Hp.
  - simpl. destruct (is_prefix p []) eqn:E; [|reflexivity].
    apply is_prefix_of_nil in E. contradiction.
  - unfold rm_tree. simpl.
    rewrite (assoc_filter (fun k => negb (is_prefix p k))).
    destruct (is_prefix p (a :: q)); reflexivity.
Qed.

Lemma exists_b_alt : forall f p, exists_b f p = match node_at f p with Some _ => true | None => false end.
Proof. reflexivity. Qed.

Lemma rm_tree_idem : forall f p, rm_tree (rm_tree f p) p = rm_tree f p.
Proof.
  intros f p. unfold rm_tree. induction f as [|e f IH]; simpl; [reflexivity|].
  destruct (is_prefix p (fst e)) eqn:E; simpl; [exact IH|].
  rewrite E. simpl. f_equal. exact IH.
Qed.

(* removing a subtree below p first does not change what removing p leaves *)
Lemma rm_tree_below : forall f p c, is_prefix p c = true -> rm_tree (rm_tree f c) p = rm_tree f p.
Proof.
  intros f p c H. unfold rm_tree. induction f as [|e f IH]; simpl; [reflexivity|].
  destruct (is_prefix c (fst e)) eqn:Ec; simpl.
  - rewrite (is_prefix_trans _ _ _ H Ec). simpl. exact IH.
  - destruct (is_prefix p (fst e)); simpl; [exact IH|f_equal; exact IH].
Qed.

Lemma In_children : forall f p c, In c (children f p) -> exists a, c = p ++ [a].
Proof.
  intros f p c H. unfold children in H. apply in_map_iff in H as [e [<- He]].
  apply filter_In in He as [_ He]. apply is_child_iff. exact He.
Qed.

Lemma nth_In_or_default : forall (A : Type) (l : list A) n d, In (nth n l d) l \/ nth n l d = d.
Proof. intros. destruct (nth_in_or_default n l d); auto. Qed.

(* an interrupted rm leaves the path itself in place and removes only below it *)
Lemma rm_partial_spec : forall f p n,
  rm_partial f p n = f \/
  exists a, rm_partial f p n = rm_tree f (p ++ [a]).
Proof.
  intros f p n. unfold rm_partial. destruct (isdir_b f p); [|left; reflexivity].
  destruct (children f p) as [|c0 cs] eqn:E; [left; reflexivity|].
  right.
  assert (Hin : In (nth (n mod S (List.length cs)) (c0 :: cs) c0) (children f p)).
  { rewrite E. apply nth_In. change (List.length (c0 :: cs)) with (S (List.length cs)).
    apply Nat.mod_upper_bound. discriminate. }
  apply In_children in Hin as [a Ha]. exists a. rewrite Ha. reflexivity.
Qed.

(* ------------------------------------------------------------------ upsert algebra *)
Lemma upsert_upsert_same : forall f p n m, upsert (upsert f p n) p m = upsert f p m.
Proof.
  induction f as [|[k x] f IH]; intros p n m; simpl.
  - rewrite path_eqb_refl. reflexivity.
  - destruct (path_eqb_spec k p) as [->|Hk]; simpl.
    + rewrite path_eqb_refl. reflexivity.
    + destruct (path_eqb_spec k p); [contradiction|]. f_equal. apply IH.
Qed.

Lemma upsert_same_value : forall f p n, assoc f p = Some n -> upsert f p n = f.
Proof.
  induction f as [|[k x] f IH]; intros p n H; simpl in *; [discriminate|].
  destruct (path_eqb_spec k p) as [->|Hk].
  - congruence.
  - f_equal. apply IH. exact H.
Qed.

(* ------------------------------------------------------------------ makedirs *)
Lemma prefixes_from_nonnil : forall p acc q, In q (prefixes_from acc p) -> q <> [].
Proof.
  induction p as [|a p IH]; intros acc q H; simpl in H; [contradiction|].
  destruct H as [<-|H]; [apply snoc_not_nil|eapply IH; eauto].
Qed.

Lemma prefixes_nonnil : forall p q, In q (prefixes p) -> q <> [].
Proof. intros p q. apply prefixes_from_nonnil. Qed.

Lemma prefixes_from_spec : forall p acc q,
  In q (prefixes_from acc p) <-> exists r, r <> [] /\ q = acc ++ r /\ is_prefix r p = true.
Proof.
  induction p as [|a p IH]; intros acc q; simpl.
  - split; [contradiction|]. intros [r [Hr [_ Hp]]]. apply is_prefix_of_nil in Hp. contradiction.
  - split.
    + intros [<-|H].
      * exists [a]. repeat split; [discriminate|]. unfold is_prefix. simpl. rewrite name_eqb_refl. reflexivity.
      * apply IH in H as [r [Hr [-> Hp]]]. exists (a :: r). repeat split; [discriminate| |].
        -- rewrite <- app_assoc. reflexivity.
        -- unfold is_prefix in *. simpl. rewrite name_eqb_refl. exact Hp.
    + intros [r [Hr [-> Hp]]]. destruct r as [|b r]; [contradiction|].
      unfold is_prefix in Hp. simpl in Hp. destruct (name_eqb_spec b a) as [->|]; [|discriminate].
      destruct r as [|c r].
      * left. reflexivity.
      * right. apply IH. exists (c :: r). repeat split; [discriminate| |exact Hp].
        rewrite <- app_assoc. reflexivity.
Qed.

Lemma prefixes_spec : forall p q, In q (prefixes p) <-> (q <> [] /\ is_prefix q p = true).
Proof.
  intros p q. unfold prefixes. rewrite prefixes_from_spec. simpl. split.
  - intros [r [Hr [-> Hp]]]. auto.
  - intros [Hq Hp]. exists q. auto.
Qed.

(* the result of makedirs, path by path *)
Lemma mk_all_spec : forall qs f f', (forall q, In q qs -> q <> []) ->
  mk_all f qs = Some f' ->
  forall q, node_at f' q = if existsb (path_eqb q) qs then Some Dir else node_at f q.
Proof.
  induction qs as [|k qs IH]; intros f f' Hnn H q; simpl in *.
  - injection H as <-. reflexivity.
  - assert (Hk : k <> []) by (apply Hnn; left; reflexivity).
    assert (Hnn' : forall q, In q qs -> q <> []) by (intros; apply Hnn; right; assumption).
    destruct (node_at f k) as [[c|]|] eqn:Ek; [discriminate| |].
    + rewrite (IH _ _ Hnn' H q). destruct (path_eqb_spec q k) as [->|]; simpl.
      * destruct (existsb (path_eqb k) qs); [reflexivity|]. exact Ek.
      * reflexivity.
    + rewrite (IH _ _ Hnn' H q). rewrite node_at_upsert by exact Hk.
      rewrite (path_eqb_sym q k). destruct (path_eqb_spec k q) as [->|]; simpl.
      * destruct (existsb (path_eqb q) qs); reflexivity.
      * reflexivity.
Qed.

Lemma mk_all_success : forall qs f, (forall q, In q qs -> q <> []) ->
  (forall q, In q qs -> isfile_b f q = false) -> exists f', mk_all f qs = Some f'.
Proof.
  induction qs as [|k qs IH]; intros f Hnn Hf; simpl; [eauto|].
  assert (Hk : k <> []) by (apply Hnn; left; reflexivity).
  pose proof (Hf k (or_introl eq_refl)) as Hfk. unfold isfile_b in Hfk.
  destruct (node_at f k) as [[c|]|] eqn:Ek; [discriminate| |].
  - apply IH; intros; [apply Hnn|apply Hf]; right; assumption.
  - apply IH; [intros; apply Hnn; right; assumption|].
    intros q Hq. unfold isfile_b. rewrite node_at_upsert by exact Hk.
    destruct (path_eqb k q); [reflexivity|]. apply (Hf q). right. exact Hq.
Qed.

Lemma mk_all_file_free : forall qs f f', mk_all f qs = Some f' ->
  forall q, In q qs -> isfile_b f q = false.
Proof.
  induction qs as [|k qs IH]; intros f f' H q Hq; simpl in *; [contradiction|].
  destruct (node_at f k) as [[c|]|] eqn:Ek; [discriminate| |].
  - destruct Hq as [<-|Hq]; [unfold isfile_b; rewrite Ek; reflexivity|]. eapply IH; eauto.
  - destruct Hq as [<-|Hq]; [unfold isfile_b; rewrite Ek; reflexivity|].
    pose proof (IH _ _ H q Hq) as G. unfold isfile_b in *.
    destruct k as [|a k].
    + simpl in Ek. discriminate.
    + rewrite node_at_upsert in G by discriminate.
      destruct (path_eqb_spec (a :: k) q) as [<-|]; [rewrite Ek; reflexivity|exact G].
Qed.

(* running makedirs again, or after an interrupted makedirs, gives the same tree *)
Lemma mk_all_idem : forall qs f f', mk_all f qs = Some f' -> mk_all f' qs = Some f'.
Proof.
  intros qs f f' H.
  assert (G : forall ks f0, (forall q, In q ks -> node_at f0 q = Some Dir) -> mk_all f0 ks = Some f0).
  { induction ks as [|k ks IH]; intros f0 Hd; simpl; [reflexivity|].
    rewrite (Hd k (or_introl eq_refl)). apply IH. intros; apply Hd; right; assumption. }
  apply G. clear G. revert f f' H.
  induction qs as [|k qs IH]; intros f f' H q Hq; simpl in *; [contradiction|].
  destruct (node_at f k) as [[c|]|] eqn:Ek; [discriminate| |].
  - destruct Hq as [<-|Hq]; [|eapply IH; eauto].
    clear IH. revert f H Ek. induction qs as [|j qs IH2]; intros f H Ek; simpl in H.
    + injection H as <-. exact Ek.
    + destruct (node_at f j) as [[c|]|] eqn:Ej; [discriminate|eapply IH2; eauto|].
      eapply IH2; [exact H|].
      destruct j as [|a j]; [simpl in Ej; discriminate|].
      rewrite node_at_upsert by discriminate.
      destruct (path_eqb (a :: j) k); [reflexivity|exact Ek].
  - destruct Hq as [<-|Hq]; [|eapply IH; eauto].
    destruct k as [|a k]; [simpl in Ek; discriminate|].
    assert (Ek' : node_at (upsert f (a :: k) Dir) (a :: k) = Some Dir).
    { rewrite node_at_upsert by discriminate. rewrite path_eqb_refl. reflexivity. }
    clear IH Ek. revert H Ek'. generalize (upsert f (a :: k) Dir) as g. generalize (a :: k) as kk.
    intros kk g. revert g. induction qs as [|j qs IH2]; intros g H Ek; simpl in H.
    + injection H as <-. exact Ek.
    + destruct (node_at g j) as [[c|]|] eqn:Ej; [discriminate|eapply IH2; eauto|].
      eapply IH2; [exact H|].
      destruct j as [|b j]; [simpl in Ej; discriminate|].
      rewrite node_at_upsert by discriminate.
      destruct (path_eqb (b :: j) kk); [reflexivity|exact Ek].
Qed.

Lemma mk_first_then_all : forall qs f f', mk_all f qs = Some f' -> mk_all (mk_first f qs) qs = Some f'.
Proof.
  induction qs as [|k qs IH]; intros f f' H; simpl in *; [exact H|].
  destruct (node_at f k) as [[c|]|] eqn:Ek; [discriminate| |].
  - (* k is a directory already: the interrupted run went on to the rest *)
    assert (Ek' : node_at (mk_first f qs) k = Some Dir).
    { clear IH H. revert f Ek. induction qs as [|j qs IH2]; intros f Ek; simpl; [exact Ek|].
      destruct (node_at f j) as [[c|]|] eqn:Ej; [exact Ek|apply IH2; exact Ek|].
      destruct j as [|a j]; [simpl in Ej; discriminate|].
      rewrite node_at_upsert by discriminate.
      destruct (path_eqb_spec (a :: j) k) as [<-|]; [congruence|exact Ek]. }
    rewrite Ek'. apply IH. exact H.
  - destruct k as [|a k]; [simpl in Ek; discriminate|].
    rewrite node_at_upsert by discriminate. rewrite path_eqb_refl. exact H.
Qed.

(* ------------------------------------------------------------------ write *)
Lemma parent_neq : forall p, p <> [] -> parent p <> p.
Proof.
  intros p Hp. destruct (exists_last Hp) as [q [a ->]]. rewrite parent_snoc.
  intro H. symmetry in H. apply path_neq_snoc in H. exact H.
Qed.

Lemma write_spec : forall f p c f', write f p c = Some f' ->
  p <> [] /\ isdir_b f (parent p) = true /\ node_at f p <> Some Dir /\ f' = upsert f p (File c).
Proof.
  intros f p c f' H. unfold write in H. destruct p as [|a p]; [discriminate|].
  destruct (isdir_b f (parent (a :: p))) eqn:Ed; [|discriminate].
  destruct (node_at f (a :: p)) as [[x|]|] eqn:En; try discriminate; injection H as <-;
    repeat split; try discriminate; congruence.
Qed.

Lemma write_intro : forall f p c, p <> [] -> isdir_b f (parent p) = true -> node_at f p <> Some Dir ->
  write f p c = Some (upsert f p (File c)).
Proof.
  intros f p c Hp Hd Hn. unfold write. destruct p as [|a p]; [contradiction|].
  rewrite Hd. destruct (node_at f (a :: p)) as [[x|]|]; try reflexivity. contradiction.
Qed.

(* writing again over what an earlier (complete or interrupted) write of the same path left *)
Lemma write_after_write : forall f p c d f', write f p c = Some f' ->
  write (upsert f p (File d)) p c = Some f'.
Proof.
  intros f p c d f' H. apply write_spec in H as [Hp [Hd [Hn ->]]].
  rewrite write_intro.
  - rewrite upsert_upsert_same. reflexivity.
  - exact Hp.
  - unfold isdir_b in *. rewrite node_at_upsert by exact Hp.
    destruct (path_eqb_spec p (parent p)) as [E|]; [|exact Hd].
    symmetry in E. apply parent_neq in E; [contradiction|exact Hp].
  - rewrite node_at_upsert by exact Hp. rewrite path_eqb_refl. discriminate.
Qed.

(* ------------------------------------------------------------------ rename *)
Lemma assoc_do_rename : forall f p1 dst q,
  is_prefix p1 dst = false -> is_prefix dst p1 = false ->
  assoc (do_rename f p1 dst) q =
    match strip_prefix dst q with
    | Some r => assoc f (p1 ++ r)
    | None => if is_prefix p1 q then None else assoc f q
    end.
Proof.
  intros f p1 dst q H1 H2. unfold do_rename.
  induction f as [|[k m] f IH]; simpl.
  - destruct (strip_prefix dst q); [reflexivity|]. destruct (is_prefix p1 q); reflexivity.
  - destruct (is_prefix dst k) eqn:Edk; simpl.
    + (* the entry lies at or below the destination: dropped *)
      rewrite IH. destruct (strip_prefix dst q) as [r|] eqn:Eq.
      * destruct (path_eqb_spec k (p1 ++ r)) as [->|]; [|reflexivity].
        exfalso. apply is_prefix_iff in Edk as [s Es].
        assert (C : is_prefix p1 dst = true \/ is_prefix dst p1 = true).
        { apply (prefix_comparable p1 dst (p1 ++ r)); [apply is_prefix_app|].
          rewrite Es. apply is_prefix_app. }
        destruct C; congruence.
      * destruct (is_prefix p1 q) eqn:Epq; [reflexivity|].
        destruct (path_eqb_spec k q) as [->|]; [|reflexivity].
        unfold is_prefix in Edk. rewrite Eq in Edk. discriminate.
    + unfold rename_entry at 1. simpl.
      destruct (strip_prefix p1 k) as [s|] eqn:Ek; simpl.
      * (* renamed to dst ++ s *)
        apply strip_prefix_some in Ek. subst k.
        rewrite IH. destruct (strip_prefix dst q) as [r|] eqn:Eq.
        -- apply strip_prefix_some in Eq. subst q.
           destruct (path_eqb_spec (dst ++ s) (dst ++ r)) as [E|NE].
           ++ apply app_inv_head in E. subst r. rewrite path_eqb_refl. reflexivity.
           ++ destruct (path_eqb_spec (p1 ++ s) (p1 ++ r)) as [E|]; [|reflexivity].
              apply app_inv_head in E. subst r. contradiction.
        -- destruct (path_eqb_spec (dst ++ s) q) as [<-|].
           ++ rewrite strip_prefix_app in Eq. discriminate.
           ++ destruct (is_prefix p1 q) eqn:Epq; [reflexivity|].
              destruct (path_eqb_spec (p1 ++ s) q) as [<-|]; [|reflexivity].
              rewrite is_prefix_app in Epq. discriminate.
      * (* untouched *)
        rewrite IH. destruct (strip_prefix dst q) as [r|] eqn:Eq.
        -- apply strip_prefix_some in Eq. subst q.
           destruct (path_eqb_spec k (dst ++ r)) as [->|].
           ++ rewrite is_prefix_app in Edk. discriminate.
           ++ destruct (path_eqb_spec k (p1 ++ r)) as [->|]; [|reflexivity].
              rewrite strip_prefix_app in Ek. discriminate.
        -- destruct (path_eqb_spec k q) as [->|].
           ++ unfold is_prefix. rewrite Ek. reflexivity.
           ++ reflexivity.
Qed.

Lemma node_at_do_rename : forall f p1 dst q,
  p1 <> [] -> dst <> [] -> is_prefix p1 dst = false -> is_prefix dst p1 = false ->
  node_at (do_rename f p1 dst) q =
    match strip_prefix dst q with
    | Some r => node_at f (p1 ++ r)
    | None => if is_prefix p1 q then None else node_at f q
    end.
Proof.
  intros f p1 dst q Hp Hd H1 H2. destruct q as [|a q].
  - destruct dst as [|b dst]; [contradiction|]. destruct p1 as [|c p1]; [contradiction|]. reflexivity.
  - simpl node_at at 1. rewrite assoc_do_rename by assumption.
    destruct (strip_prefix dst (a :: q)) as [r|].
    + destruct p1 as [|c p1]; [contradiction|]. reflexivity.
    + reflexivity.
Qed.

(* the ways a move can succeed *)
Lemma move_cases : forall f p1 p2 f', move f p1 p2 = Some f' ->
  (f' = f /\ p1 = p2) \/
  (exists g dst, f' = do_rename g p1 dst /\ p1 <> [] /\ dst <> [] /\
     is_prefix p1 dst = false /\ is_prefix dst p1 = false /\ exists_b g p1 = true /\
     (dst = p2 \/ (dst = p2 ++ [last p1 NMeta] /\ isdir_b g p2 = true))).
Proof.
  intros f p1 p2 f' H. unfold move in H.
  destruct p1 as [|a1 p1]; [discriminate|].
  destruct (node_at f (a1 :: p1)) as [src|] eqn:Esrc; [|discriminate].
  assert (Hex : exists_b f (a1 :: p1) = true) by (unfold exists_b; rewrite Esrc; reflexivity).
  destruct (isdir_b f p2) eqn:Ed2.
  - destruct (path_eqb_spec (a1 :: p1) p2) as [E|NE].
    + injection H as <-. left. auto.
    + destruct (exists_b f (p2 ++ [last (a1 :: p1) NMeta])) eqn:Edst; [discriminate|].
      destruct (is_prefix (a1 :: p1) (p2 ++ [last (a1 :: p1) NMeta])) eqn:E1; [discriminate|].
      destruct (is_prefix (p2 ++ [last (a1 :: p1) NMeta]) (a1 :: p1)) eqn:E2; [discriminate|].
      simpl in H. injection H as <-. right.
      exists f, (p2 ++ [last (a1 :: p1) NMeta]).
      repeat split; try assumption; try discriminate; [apply snoc_not_nil|]. right. split; [reflexivity|exact Ed2].
  - destruct p2 as [|a2 p2]; [discriminate|].
    destruct (isdir_b f (parent (a2 :: p2))) eqn:Edp; simpl negb in H; cbv iota in H.
    + destruct (path_eqb_spec (a1 :: p1) (a2 :: p2)) as [E|NE].
      * injection H as <-. left. auto.
      * destruct (is_prefix (a1 :: p1) (a2 :: p2)) eqn:E1; [discriminate|].
        destruct (is_prefix (a2 :: p2) (a1 :: p1)) eqn:E2; [discriminate|].
        simpl in H.
        assert (G : f' = do_rename f (a1 :: p1) (a2 :: p2)).
        { destruct src as [c|]; [|destruct (assoc f (a2 :: p2)) as [x|]; [discriminate|]];
            inversion H; reflexivity. }
        right. exists f, (a2 :: p2). repeat split; try assumption; try discriminate. left. reflexivity.
    + destruct src as [c|]; [discriminate|].
      destruct (is_prefix (a1 :: p1) (a2 :: p2)) eqn:E1; [discriminate|].
      destruct (is_prefix (a2 :: p2) (a1 :: p1)) eqn:E2; [discriminate|].
      change (false || false) with false in H. cbv iota in H.
      destruct (makedirs f (parent (a2 :: p2))) as [g|] eqn:Emk; [|discriminate].
      injection H as <-. right. exists g, (a2 :: p2).
      repeat split; try assumption; try discriminate; [|left; reflexivity].
      unfold makedirs in Emk. unfold exists_b.
      rewrite (mk_all_spec _ _ _ (prefixes_nonnil _) Emk).
      destruct (existsb (path_eqb (a1 :: p1)) (prefixes (parent (a2 :: p2)))); [reflexivity|].
      rewrite Esrc. reflexivity.
Qed.

(* after a completed move the source is gone and the target is there *)
Lemma move_done : forall f p1 p2 f', move f p1 p2 = Some f' -> p1 <> p2 ->
  exists_b f' p1 = false /\ exists_b f' p2 = true.
Proof.
  intros f p1 p2 f' H NE. apply move_cases in H as [[_ E]|[g [dst [-> [Hp [Hd [H1 [H2 [Hex Hdst]]]]]]]]]; [contradiction|].
  split.
  - unfold exists_b. rewrite node_at_do_rename by assumption.
    assert (E : strip_prefix dst p1 = None).
    { unfold is_prefix in H2. destruct (strip_prefix dst p1); [discriminate|reflexivity]. }
    rewrite E, is_prefix_refl. reflexivity.
  - unfold exists_b. rewrite node_at_do_rename by assumption.
    destruct Hdst as [->|[-> Hdir]].
    + assert (E : strip_prefix p2 p2 = Some []).
      { apply strip_prefix_iff. symmetry. apply app_nil_r. }
      rewrite E, app_nil_r. unfold exists_b in Hex. exact Hex.
    + assert (E : strip_prefix (p2 ++ [last p1 NMeta]) p2 = None).
      { pose proof (is_prefix_snoc_self p2 (last p1 NMeta)) as G. unfold is_prefix in G.
        destruct (strip_prefix (p2 ++ [last p1 NMeta]) p2); [discriminate|reflexivity]. }
      rewrite E.
      assert (E' : is_prefix p1 p2 = false).
      { destruct (is_prefix p1 p2) eqn:G; [|reflexivity].
        rewrite (is_prefix_trans p1 p2 (p2 ++ [last p1 NMeta]) G (is_prefix_app _ _)) in H1. discriminate. }
      rewrite E'. unfold isdir_b in Hdir. destruct (node_at g p2) as [[|]|]; congruence.
Qed.
