(* The two "excess work" loops of the Hilbert model are inverse to each other. *)
From Coq Require Import NArith List Bool Arith Lia.
From SP Require Import Model.Hilbert Proofs.HilbertLists.
Import ListNotations.
Local Open Scope N_scope.

(* ---- one step is an involution ----------------------------------------- *)
Lemma excess_step_length : forall Q P c i, length (excess_step Q P c i) = length c.
Proof.
  intros. unfold excess_step. destruct (truthy _); now rewrite ?setc_length.
Qed.

Lemma truthy_masked : forall a m Q, N.land m Q = 0 ->
    truthy (N.land (N.lxor a m) Q) = truthy (N.land a Q).
Proof. intros. now rewrite land_lxor_masked. Qed.

Lemma excess_step_invol : forall Q P c i, N.land P Q = 0 -> (i < length c)%nat ->
    excess_step Q P (excess_step Q P c i) i = c.
Proof.
  intros Q P c i HPQ Hi.
  destruct c as [|c0 rest]; [simpl in Hi; lia|].
  destruct i as [|j].
  - (* i = 0 *)
    unfold excess_step. cbn [getc nth].
    destruct (truthy (N.land c0 Q)) eqn:E.
    + cbn [setc getc nth]. rewrite truthy_masked, E by assumption.
      cbn [setc getc nth]. now rewrite lxor_cancel_r.
    + rewrite N.lxor_nilpotent, N.land_0_l. cbn [setc getc nth].
      rewrite !N.lxor_0_r. cbn [setc getc nth]. rewrite E.
      rewrite N.lxor_nilpotent, N.land_0_l. cbn [setc getc nth].
      now rewrite !N.lxor_0_r.
  - (* i = S j *)
    simpl in Hi. assert (Hj : (j < length rest)%nat) by lia.
    unfold excess_step. cbn [getc nth].
    destruct (truthy (N.land (nth j rest 0) Q)) eqn:E.
    + cbn [setc getc nth]. rewrite E. cbn [setc getc nth]. now rewrite lxor_cancel_r.
    + cbn [setc getc nth].
      set (ci := nth j rest 0) in *.
      set (t := N.land (N.lxor c0 ci) P).
      assert (Ht : N.land t Q = 0) by (apply land_land_masked; assumption).
      fold (getc (setc rest j (N.lxor ci t)) j). rewrite getc_setc_same by assumption.
      rewrite truthy_masked, E by assumption.
      rewrite lxor_both. fold t. cbn [setc getc nth].
      rewrite !lxor_cancel_r, setc_setc_same.
      unfold ci. fold (getc rest j). now rewrite setc_getc_id.
Qed.

Lemma excess_step_fits : forall p Q P c i, fits p P -> Forall (fits p) c ->
    Forall (fits p) (excess_step Q P c i).
Proof.
  intros p Q P c i HP Hc. unfold excess_step.
  assert (H0 : fits p (getc c 0)) by (apply Forall_getc; [apply fits_0|assumption]).
  assert (Hi : fits p (getc c i)) by (apply Forall_getc; [apply fits_0|assumption]).
  destruct (truthy _).
  - apply Forall_setc; [assumption|]. now apply fits_lxor.
  - set (t := N.land _ P). assert (Ht : fits p t) by (apply fits_land_r; assumption).
    apply Forall_setc.
    + apply Forall_setc; [assumption|]. now apply fits_lxor.
    + apply fits_lxor; [|assumption]. apply Forall_getc; [apply fits_0|].
      apply Forall_setc; [assumption|]. now apply fits_lxor.
Qed.

(* ---- one level: the downward pass (coordinate_from_distance) and the upward
   pass (distance_from_coordinate) over i ---------------------------------- *)
Definition level_down (n : nat) (c : list N) (k : nat) : list N :=
  let Q := 2 ^ N.of_nat k in fold_left (excess_step Q (Q - 1)) (rev (seq 0 n)) c.
Definition level_up (n : nat) (c : list N) (k : nat) : list N :=
  let Q := 2 ^ N.of_nat k in fold_left (excess_step Q (Q - 1)) (seq 0 n) c.

Lemma level_down_length : forall n c k, length (level_down n c k) = length c.
Proof.
  intros. unfold level_down. cbv zeta.
  apply (fold_inv _ (fun a => length a = length c)); auto.
  intros a i Ha _. now rewrite excess_step_length.
Qed.

Lemma level_up_length : forall n c k, length (level_up n c k) = length c.
Proof.
  intros. unfold level_up. cbv zeta.
  apply (fold_inv _ (fun a => length a = length c)); auto.
  intros a i Ha _. now rewrite excess_step_length.
Qed.

Lemma level_up_down : forall n c k, length c = n -> level_up n (level_down n c k) k = c.
Proof.
  intros n c k Hn. unfold level_up, level_down. cbv zeta.
  rewrite <- (rev_involutive (seq 0 n)) at 1.
  apply (fold_cancel _ _ (fun a => length a = n)); [|assumption].
  intros a i Ha Hi. apply in_rev in Hi. apply in_seq in Hi. split.
  - apply excess_step_invol; [apply ones_land_pow2|lia].
  - now rewrite excess_step_length.
Qed.

Lemma level_down_up : forall n c k, length c = n -> level_down n (level_up n c k) k = c.
Proof.
  intros n c k Hn. unfold level_up, level_down. cbv zeta.
  apply (fold_cancel _ _ (fun a => length a = n)); [|assumption].
  intros a i Ha Hi. apply in_seq in Hi. split.
  - apply excess_step_invol; [apply ones_land_pow2|lia].
  - now rewrite excess_step_length.
Qed.

Lemma level_down_fits : forall p n c k, (k <= p)%nat -> Forall (fits (N.of_nat p)) c ->
    Forall (fits (N.of_nat p)) (level_down n c k).
Proof.
  intros p n c k Hk Hc. unfold level_down. cbv zeta.
  apply (fold_inv _ (fun a => Forall (fits (N.of_nat p)) a)); [|assumption].
  intros a i Ha _. apply excess_step_fits; [|assumption]. apply fits_ones. lia.
Qed.

Lemma level_up_fits : forall p n c k, (k <= p)%nat -> Forall (fits (N.of_nat p)) c ->
    Forall (fits (N.of_nat p)) (level_up n c k).
Proof.
  intros p n c k Hk Hc. unfold level_up. cbv zeta.
  apply (fold_inv _ (fun a => Forall (fits (N.of_nat p)) a)); [|assumption].
  intros a i Ha _. apply excess_step_fits; [|assumption]. apply fits_ones. lia.
Qed.

(* ---- the two while loops are folds over the levels ---------------------- *)
Lemma pow2_inj_nat : forall a b, 2 ^ N.of_nat a = 2 ^ N.of_nat b -> a = b.
Proof.
  intros a b H. apply N.pow_inj_r in H; lia.
Qed.

Lemma shiftl1_pow2 : forall k, N.shiftl (2 ^ N.of_nat k) 1 = 2 ^ N.of_nat (S k).
Proof.
  intros. rewrite N.shiftl_mul_pow2, Nat2N.inj_succ, N.pow_succ_r', N.pow_1_r. lia.
Qed.

Lemma shiftr1_pow2 : forall k, N.shiftr (2 ^ N.of_nat (S k)) 1 = 2 ^ N.of_nat k.
Proof.
  intros. rewrite N.shiftr_div_pow2, Nat2N.inj_succ, N.pow_succ_r', N.pow_1_r.
  rewrite N.mul_comm. apply N.div_mul. lia.
Qed.

Lemma undo_excess_loop_fold : forall m k fuel n p c,
    (k + m = p)%nat -> (m + 1 <= fuel)%nat ->
    undo_excess_loop fuel n (2 ^ N.of_nat k) (2 ^ N.of_nat p) c
    = fold_left (level_down n) (seq k m) c.
Proof.
  induction m as [|m IH]; intros k fuel n p c Hk Hf.
  - destruct fuel as [|f]; [lia|]. simpl.
    replace k with p by lia. now rewrite N.eqb_refl.
  - destruct fuel as [|f]; [lia|]. cbn [undo_excess_loop seq fold_left].
    destruct (N.eqb_spec (2 ^ N.of_nat k) (2 ^ N.of_nat p)) as [E|_].
    + apply pow2_inj_nat in E. lia.
    + rewrite shiftl1_pow2. rewrite (IH (S k) f n p); [reflexivity|lia|lia].
Qed.

Lemma inverse_undo_loop_fold : forall k fuel n c,
    (k + 1 <= fuel)%nat ->
    inverse_undo_loop fuel n (2 ^ N.of_nat k) c = fold_left (level_up n) (rev (seq 1 k)) c.
Proof.
  induction k as [|k IH]; intros fuel n c Hf.
  - destruct fuel as [|f]; [lia|]. reflexivity.
  - destruct fuel as [|f]; [lia|]. cbn [inverse_undo_loop].
    assert (H1 : 1 <? 2 ^ N.of_nat (S k) = true).
    { apply N.ltb_lt. rewrite Nat2N.inj_succ, N.pow_succ_r'.
      assert (0 < 2 ^ N.of_nat k) by (apply N.neq_0_lt_0, N.pow_nonzero; lia). lia. }
    rewrite H1, shiftr1_pow2, seq_S, rev_app_distr. cbn [rev app fold_left plus].
    rewrite IH by lia. reflexivity.
Qed.

(* ---- the loops as they are called --------------------------------------- *)
Definition undo_excess (p n : nat) (c : list N) : list N :=
  undo_excess_loop p n 2 (N.shiftl 2 (N.of_nat (p - 1))) c.
Definition inverse_undo (p n : nat) (c : list N) : list N :=
  inverse_undo_loop p n (N.shiftl 1 (N.of_nat (p - 1))) c.

Lemma Zv_pow2 : forall p, (1 <= p)%nat -> N.shiftl 2 (N.of_nat (p - 1)) = 2 ^ N.of_nat p.
Proof.
  intros p Hp. rewrite N.shiftl_mul_pow2. replace p with (S (p - 1)) at 2 by lia.
  now rewrite Nat2N.inj_succ, N.pow_succ_r'.
Qed.

Lemma M_pow2 : forall p, N.shiftl 1 (N.of_nat (p - 1)) = 2 ^ N.of_nat (p - 1).
Proof. intros. rewrite N.shiftl_mul_pow2. lia. Qed.

Lemma undo_excess_eq : forall p n c, (1 <= p)%nat ->
    undo_excess p n c = fold_left (level_down n) (seq 1 (p - 1)) c.
Proof.
  intros p n c Hp. unfold undo_excess. rewrite Zv_pow2 by assumption.
  change 2 with (2 ^ N.of_nat 1) at 1. apply undo_excess_loop_fold; lia.
Qed.

Lemma inverse_undo_eq : forall p n c, (1 <= p)%nat ->
    inverse_undo p n c = fold_left (level_up n) (rev (seq 1 (p - 1))) c.
Proof.
  intros p n c Hp. unfold inverse_undo. rewrite M_pow2. apply inverse_undo_loop_fold. lia.
Qed.

Theorem inverse_undo_undo : forall p n c, (1 <= p)%nat -> length c = n ->
    inverse_undo p n (undo_excess p n c) = c.
Proof.
  intros p n c Hp Hn. rewrite inverse_undo_eq, undo_excess_eq by assumption.
  apply (fold_cancel _ _ (fun a => length a = n)); [|assumption].
  intros a k Ha _. split; [now apply level_up_down|now rewrite level_down_length].
Qed.

Theorem undo_inverse_undo : forall p n c, (1 <= p)%nat -> length c = n ->
    undo_excess p n (inverse_undo p n c) = c.
Proof.
  intros p n c Hp Hn. rewrite inverse_undo_eq, undo_excess_eq by assumption.
  rewrite <- (rev_involutive (seq 1 (p - 1))) at 1.
  apply (fold_cancel _ _ (fun a => length a = n)); [|assumption].
  intros a k Ha _. split; [now apply level_down_up|now rewrite level_up_length].
Qed.

Lemma undo_excess_length : forall p n c, (1 <= p)%nat -> length (undo_excess p n c) = length c.
Proof.
  intros. rewrite undo_excess_eq by assumption.
  apply (fold_inv _ (fun a => length a = length c)); auto.
  intros a k Ha _. now rewrite level_down_length.
Qed.

Lemma inverse_undo_length : forall p n c, (1 <= p)%nat -> length (inverse_undo p n c) = length c.
Proof.
  intros. rewrite inverse_undo_eq by assumption.
  apply (fold_inv _ (fun a => length a = length c)); auto.
  intros a k Ha _. now rewrite level_up_length.
Qed.

Lemma undo_excess_fits : forall p n c, (1 <= p)%nat -> Forall (fits (N.of_nat p)) c ->
    Forall (fits (N.of_nat p)) (undo_excess p n c).
Proof.
  intros p n c Hp Hc. rewrite undo_excess_eq by assumption.
  apply (fold_inv _ (fun a => Forall (fits (N.of_nat p)) a)); [|assumption].
  intros a k Ha Hk. apply in_seq in Hk. apply level_down_fits; [lia|assumption].
Qed.

Lemma inverse_undo_fits : forall p n c, (1 <= p)%nat -> Forall (fits (N.of_nat p)) c ->
    Forall (fits (N.of_nat p)) (inverse_undo p n c).
Proof.
  intros p n c Hp Hc. rewrite inverse_undo_eq by assumption.
  apply (fold_inv _ (fun a => Forall (fits (N.of_nat p)) a)); [|assumption].
  intros a k Ha Hk. apply in_rev in Hk. apply in_seq in Hk. apply level_up_fits; [lia|assumption].
Qed.
