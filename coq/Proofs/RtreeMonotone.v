(* C03: the answers of the index depend only on the ORDER of the coordinates.

   (1) C03_monotone: renaming every coordinate (rows and query) by a strictly
       increasing f : Z -> Z changes no answer (as sets) and renames total_bounds.
       This is what lets the correspondence check feed the model the RANKS of
       arbitrary doubles (huge, tiny, many-digit, one ulp apart; -inf / +inf as
       the least / greatest rank) instead of scaled integers.
   (2) C03_unbounded_query: a query side that lies beyond every coordinate of
       every row (the image of -inf on a lower side, +inf on an upper side) can
       be replaced by any other such value: it acts as an absent constraint.
   (3) C03_everything_query: when every side is beyond the data, intersects
       returns exactly the rows that have a box and all of them are covered. *)
From Coq Require Import ZArith List Bool Arith Lia Permutation.
From SP Require Import Model.Num Model.Rtree Spec.Boxes Proofs.RtreeProofs.
Import ListNotations.
Local Open Scope nat_scope.

Definition map_row (f : Z -> Z) (r : row) : row := map (option_map f) r.

Definition increasing (f : Z -> Z) : Prop := forall x y, (x < y)%Z -> (f x < f y)%Z.

Lemma inc_leb : forall f, increasing f -> forall x y, (f x <=? f y)%Z = (x <=? y)%Z.
Proof.
  intros f Hf x y.
  destruct (Z.leb_spec x y) as [H|H].
  - apply Z.leb_le. destruct (Z.eq_dec x y) as [->|Hn]; [lia|].
    assert (x < y)%Z by lia. specialize (Hf x y H0). lia.
  - apply Z.leb_gt. apply Hf. exact H.
Qed.

Lemma inc_min : forall f, increasing f -> forall x y, f (Z.min x y) = Z.min (f x) (f y).
Proof.
  intros f Hf x y. pose proof (inc_leb f Hf x y) as H.
  destruct (Z.leb_spec x y); destruct (Z.leb_spec (f x) (f y)); try discriminate.
  - rewrite !Z.min_l by lia. reflexivity.
  - rewrite !Z.min_r by lia. reflexivity.
Qed.

Lemma inc_max : forall f, increasing f -> forall x y, f (Z.max x y) = Z.max (f x) (f y).
Proof.
  intros f Hf x y. pose proof (inc_leb f Hf x y) as H.
  destruct (Z.leb_spec x y); destruct (Z.leb_spec (f x) (f y)); try discriminate.
  - rewrite !Z.max_r by lia. reflexivity.
  - rewrite !Z.max_l by lia. reflexivity.
Qed.

Lemma col_map_row : forall f c r, col c (map_row f r) = option_map f (col c r).
Proof.
  intros f c r. unfold col, map_row.
  change (@None Z) with (option_map f None) at 1. apply map_nth.
Qed.

Lemma isnan_option_map : forall f x, isnan (option_map f x) = isnan x.
Proof. intros f [x|]; reflexivity. Qed.

Lemma row_finite_map_row : forall f r, row_finite (map_row f r) = row_finite r.
Proof.
  intros f r. unfold row_finite, map_row. induction r as [|x r IH]; simpl; [reflexivity|].
  rewrite isnan_option_map, IH. reflexivity.
Qed.

Lemma existsb_isnan_map_row : forall f r, existsb isnan (map_row f r) = existsb isnan r.
Proof.
  intros f r. unfold map_row. induction r as [|x r IH]; simpl; [reflexivity|].
  rewrite isnan_option_map, IH. reflexivity.
Qed.

Lemma norm_row_map_row : forall f r, norm_row (map_row f r) = map_row f (norm_row r).
Proof.
  intros f r. unfold norm_row. rewrite existsb_isnan_map_row.
  destruct (existsb isnan r); [|reflexivity].
  unfold map_row. rewrite !map_map. reflexivity.
Qed.

Lemma nle_map_l : forall f, increasing f -> forall a y,
  nle (option_map f a) (Some (f y)) = nle a (Some y).
Proof. intros f Hf [x|] y; simpl; [apply inc_leb; exact Hf|reflexivity]. Qed.

Lemma nle_map_r : forall f, increasing f -> forall a y,
  nle (Some (f y)) (option_map f a) = nle (Some y) a.
Proof. intros f Hf [x|] y; simpl; [apply inc_leb; exact Hf|reflexivity]. Qed.

Lemma nle_map_both : forall f, increasing f -> forall a b,
  nle (option_map f a) (option_map f b) = nle a b.
Proof. intros f Hf [x|] [y|]; simpl; try reflexivity. apply inc_leb; exact Hf. Qed.

Lemma qv_map : forall f q i, i < length q -> qv (map f q) i = Some (f (nth i q 0%Z)).
Proof.
  intros f q i Hi. unfold qv. f_equal.
  rewrite (nth_indep _ 0%Z (f 0%Z)) by (rewrite map_length; exact Hi).
  apply map_nth.
Qed.

Lemma forallb_ext_in : forall (A : Type) (g h : A -> bool) l,
  (forall x, In x l -> g x = h x) -> forallb g l = forallb h l.
Proof.
  intros A g h l. induction l as [|x l IH]; intros H; simpl; [reflexivity|].
  rewrite (H x) by (left; reflexivity). rewrite IH; [reflexivity|].
  intros y Hy. apply H. right. exact Hy.
Qed.

Lemma overlapsb_map : forall f d r q, increasing f -> length q = 2 * d ->
  overlapsb d (map_row f r) (map f q) = overlapsb d r q.
Proof.
  intros f d r q Hf Hq. unfold overlapsb. rewrite row_finite_map_row. f_equal.
  apply forallb_ext_in. intros k Hk. apply in_seq in Hk.
  rewrite !col_map_row, !qv_map by lia. unfold qv.
  rewrite nle_map_l, nle_map_r by exact Hf. reflexivity.
Qed.

Lemma coveredb_map : forall f d r q, increasing f -> length q = 2 * d ->
  coveredb d (map_row f r) (map f q) = coveredb d r q.
Proof.
  intros f d r q Hf Hq. unfold coveredb. rewrite row_finite_map_row. f_equal.
  apply forallb_ext_in. intros k Hk. apply in_seq in Hk.
  rewrite !col_map_row, !qv_map by lia. unfold qv.
  rewrite nle_map_l, nle_map_r by exact Hf. reflexivity.
Qed.

Lemma wf_box_map : forall f d r, increasing f -> wf_box d r -> wf_box d (map_row f r).
Proof.
  intros f d r Hf [Hl Hw]. split.
  - unfold map_row. rewrite map_length. exact Hl.
  - rewrite row_finite_map_row. intros Hfin k Hk.
    rewrite !col_map_row, nle_map_both by exact Hf. apply Hw; assumption.
Qed.

Lemma nth_map_rows : forall f i rows,
  nth i (map (map_row f) rows) [] = map_row f (nth i rows []).
Proof.
  intros f i rows. change (@nil num) with (map_row f []) at 1. apply map_nth.
Qed.

Lemma filter_ext_in' : forall (A : Type) (g h : A -> bool) l,
  (forall x, In x l -> g x = h x) -> filter g l = filter h l.
Proof.
  intros A g h l. induction l as [|x l IH]; intros H; simpl; [reflexivity|].
  rewrite (H x) by (left; reflexivity). rewrite IH; [reflexivity|].
  intros y Hy. apply H. right. exact Hy.
Qed.

Lemma col_nanmin_map : forall f c rs, increasing f ->
  col_nanmin c (map (map_row f) rs) = option_map f (col_nanmin c rs).
Proof.
  intros f c rs Hf. induction rs as [|r rs IH]; simpl; [reflexivity|].
  rewrite col_map_row, IH.
  destruct (col c r) as [x|]; simpl; [|reflexivity].
  destruct (col_nanmin c rs) as [m|]; simpl; [|reflexivity].
  rewrite inc_min by exact Hf. reflexivity.
Qed.

Lemma col_nanmax_map : forall f c rs, increasing f ->
  col_nanmax c (map (map_row f) rs) = option_map f (col_nanmax c rs).
Proof.
  intros f c rs Hf. induction rs as [|r rs IH]; simpl; [reflexivity|].
  rewrite col_map_row, IH.
  destruct (col c r) as [x|]; simpl; [|reflexivity].
  destruct (col_nanmax c rs) as [m|]; simpl; [|reflexivity].
  rewrite inc_max by exact Hf. reflexivity.
Qed.

Lemma page_box_map : forall f d rs, increasing f ->
  page_box d (map (map_row f) rs) = map_row f (page_box d rs).
Proof.
  intros f d rs Hf. unfold page_box, map_row. rewrite map_app, !map_map. f_equal.
  - apply map_ext. intros c. apply col_nanmin_map. exact Hf.
  - apply map_ext. intros c. apply col_nanmax_map. exact Hf.
Qed.

(* ---- (1) a strictly increasing renaming of the coordinates changes no answer ---- *)
Theorem C03_monotone : forall f d rows keys ps q,
  increasing f ->
  1 <= d -> Forall (wf_box d) rows -> Permutation keys (seq 0 (length rows)) ->
  length q = 2 * d ->
  let T := build d rows keys ps in
  let T' := build d (map (map_row f) rows) keys ps in
  Permutation (intersects T' (map f q)) (intersects T q) /\
  Permutation (fst (covers_overlaps T' (map f q))) (fst (covers_overlaps T q)) /\
  Permutation (snd (covers_overlaps T' (map f q))) (snd (covers_overlaps T q)) /\
  total_bounds T' = map_row f (total_bounds T).
Proof.
  intros f d rows keys ps q Hf Hd Hwf Hk Hq T T'. subst T T'.
  assert (Hwf' : Forall (wf_box d) (map (map_row f) rows)).
  { apply Forall_forall. intros r Hr. apply in_map_iff in Hr. destruct Hr as [r0 [<- Hr0]].
    apply wf_box_map; [exact Hf|]. rewrite Forall_forall in Hwf. apply Hwf. exact Hr0. }
  assert (Hk' : Permutation keys (seq 0 (length (map (map_row f) rows)))).
  { rewrite map_length. exact Hk. }
  assert (Hq' : length (map f q) = 2 * d) by (rewrite map_length; exact Hq).
  pose proof (C03_intersects d _ keys ps _ Hd Hwf' Hk' Hq') as HI'.
  pose proof (C03_intersects d _ keys ps _ Hd Hwf Hk Hq) as HI.
  pose proof (C03_covers_overlaps d _ keys ps _ Hd Hwf' Hk' Hq') as [HC' HO'].
  pose proof (C03_covers_overlaps d _ keys ps _ Hd Hwf Hk Hq) as [HC HO].
  rewrite map_length in HI', HC', HO'.
  split; [|split; [|split]].
  - eapply Permutation_trans; [exact HI'|]. eapply Permutation_trans; [|apply Permutation_sym; exact HI].
    erewrite filter_ext_in'; [apply Permutation_refl|].
    intros i _. cbv beta. rewrite nth_map_rows. apply overlapsb_map; assumption.
  - eapply Permutation_trans; [exact HC'|]. eapply Permutation_trans; [|apply Permutation_sym; exact HC].
    erewrite filter_ext_in'; [apply Permutation_refl|].
    intros i _. cbv beta. rewrite nth_map_rows. apply coveredb_map; assumption.
  - eapply Permutation_trans; [exact HO'|]. eapply Permutation_trans; [|apply Permutation_sym; exact HO].
    erewrite filter_ext_in'; [apply Permutation_refl|].
    intros i _. cbv beta. rewrite nth_map_rows.
    rewrite overlapsb_map, coveredb_map by assumption. reflexivity.
  - assert (Hlen : Forall (fun r => length r = 2 * d) rows).
    { eapply Forall_impl; [|exact Hwf]. intros r [H _]. exact H. }
    assert (Hlen' : Forall (fun r => length r = 2 * d) (map (map_row f) rows)).
    { eapply Forall_impl; [|exact Hwf']. intros r [H _]. exact H. }
    rewrite (C03_total_bounds_box d _ keys ps Hd Hlen' Hk').
    rewrite (C03_total_bounds_box d _ keys ps Hd Hlen Hk).
    rewrite map_map.
    rewrite (map_ext (fun r => norm_row (map_row f r)) (fun r => map_row f (norm_row r)))
      by (intros r; apply norm_row_map_row).
    rewrite <- (map_map norm_row (map_row f)). apply page_box_map. exact Hf.
Qed.

(* ---- (2) a side beyond every coordinate of every row is an absent constraint ---- *)
(* z is <= (>=) every number that occurs in a row *)
Definition below_all (rows : list row) (z : Z) : Prop :=
  forall r x, In r rows -> In (Some x) r -> (z <= x)%Z.
Definition above_all (rows : list row) (z : Z) : Prop :=
  forall r x, In r rows -> In (Some x) r -> (x <= z)%Z.

(* q and q' agree on every side, except that a lower side may differ when both
   values are below all the data and an upper side when both are above it *)
Definition same_up_to_unbounded (d : nat) (rows : list row) (q q' : list Z) : Prop :=
  forall k, k < d ->
    (nth k q 0%Z = nth k q' 0%Z \/
     (below_all rows (nth k q 0%Z) /\ below_all rows (nth k q' 0%Z))) /\
    (nth (d + k) q 0%Z = nth (d + k) q' 0%Z \/
     (above_all rows (nth (d + k) q 0%Z) /\ above_all rows (nth (d + k) q' 0%Z))).

Lemma col_in : forall c r x, col c r = Some x -> In (Some x) r.
Proof.
  intros c r x H. unfold col in H.
  destruct (Nat.lt_ge_cases c (length r)) as [Hc|Hc].
  - rewrite <- H. apply nth_In. exact Hc.
  - rewrite nth_overflow in H by exact Hc. discriminate.
Qed.

Lemma nle_below : forall rows r c z, In r rows -> below_all rows z -> col c r <> None ->
  nle (Some z) (col c r) = true.
Proof.
  intros rows r c z Hr Hb Hc. destruct (col c r) as [x|] eqn:E; [|congruence].
  simpl. apply Z.leb_le. eapply Hb; [exact Hr|]. eapply col_in. exact E.
Qed.

Lemma nle_above : forall rows r c z, In r rows -> above_all rows z -> col c r <> None ->
  nle (col c r) (Some z) = true.
Proof.
  intros rows r c z Hr Hb Hc. destruct (col c r) as [x|] eqn:E; [|congruence].
  simpl. apply Z.leb_le. eapply Hb; [exact Hr|]. eapply col_in. exact E.
Qed.

Lemma row_finite_col : forall d r c, length r = 2 * d -> row_finite r = true -> c < 2 * d ->
  col c r <> None.
Proof.
  intros d r c Hl Hf Hc. unfold row_finite in Hf. rewrite forallb_forall in Hf.
  unfold col. intro E.
  assert (In (nth c r None) r) by (apply nth_In; lia).
  specialize (Hf _ H). rewrite E in Hf. discriminate.
Qed.

Lemma nle_above_eq : forall rows r c z z', In r rows -> col c r <> None ->
  (z = z' \/ (above_all rows z /\ above_all rows z')) ->
  nle (col c r) (Some z) = nle (col c r) (Some z').
Proof.
  intros rows r c z z' Hr Hc [->|[Ha Ha']]; [reflexivity|].
  rewrite !(nle_above rows) by assumption. reflexivity.
Qed.

Lemma nle_below_eq : forall rows r c z z', In r rows -> col c r <> None ->
  (z = z' \/ (below_all rows z /\ below_all rows z')) ->
  nle (Some z) (col c r) = nle (Some z') (col c r).
Proof.
  intros rows r c z z' Hr Hc [->|[Ha Ha']]; [reflexivity|].
  rewrite !(nle_below rows) by assumption. reflexivity.
Qed.

Lemma overlapsb_unbounded : forall d rows q q' r,
  same_up_to_unbounded d rows q q' -> In r rows -> length r = 2 * d ->
  overlapsb d r q = overlapsb d r q'.
Proof.
  intros d rows q q' r Hs Hr Hl. unfold overlapsb.
  destruct (row_finite r) eqn:Hf; [|reflexivity]. cbn [andb].
  apply forallb_ext_in. intros k Hk. apply in_seq in Hk.
  destruct (Hs k ltac:(lia)) as [Hlo Hhi]. unfold qv.
  rewrite (nle_above_eq rows r k _ _ Hr ltac:(eapply row_finite_col; eauto; lia) Hhi).
  rewrite (nle_below_eq rows r (d + k) _ _ Hr ltac:(eapply row_finite_col; eauto; lia) Hlo).
  reflexivity.
Qed.

Lemma coveredb_unbounded : forall d rows q q' r,
  same_up_to_unbounded d rows q q' -> In r rows -> length r = 2 * d ->
  coveredb d r q = coveredb d r q'.
Proof.
  intros d rows q q' r Hs Hr Hl. unfold coveredb.
  destruct (row_finite r) eqn:Hf; [|reflexivity]. cbn [andb].
  apply forallb_ext_in. intros k Hk. apply in_seq in Hk.
  destruct (Hs k ltac:(lia)) as [Hlo Hhi]. unfold qv.
  rewrite (nle_below_eq rows r k _ _ Hr ltac:(eapply row_finite_col; eauto; lia) Hlo).
  rewrite (nle_above_eq rows r (d + k) _ _ Hr ltac:(eapply row_finite_col; eauto; lia) Hhi).
  reflexivity.
Qed.

Theorem C03_unbounded_query : forall d rows keys ps q q',
  1 <= d -> Forall (wf_box d) rows -> Permutation keys (seq 0 (length rows)) ->
  length q = 2 * d -> length q' = 2 * d ->
  same_up_to_unbounded d rows q q' ->
  let T := build d rows keys ps in
  Permutation (intersects T q) (intersects T q') /\
  Permutation (fst (covers_overlaps T q)) (fst (covers_overlaps T q')) /\
  Permutation (snd (covers_overlaps T q)) (snd (covers_overlaps T q')).
Proof.
  intros d rows keys ps q q' Hd Hwf Hk Hq Hq' Hs T. subst T.
  pose proof (C03_intersects d _ keys ps _ Hd Hwf Hk Hq) as HI.
  pose proof (C03_intersects d _ keys ps _ Hd Hwf Hk Hq') as HI'.
  pose proof (C03_covers_overlaps d _ keys ps _ Hd Hwf Hk Hq) as [HC HO].
  pose proof (C03_covers_overlaps d _ keys ps _ Hd Hwf Hk Hq') as [HC' HO'].
  assert (Hrow : forall i, In i (seq 0 (length rows)) ->
                   In (nth i rows []) rows /\ length (nth i rows []) = 2 * d).
  { intros i Hi. apply in_seq in Hi. assert (In (nth i rows []) rows) by (apply nth_In; lia).
    split; [assumption|]. rewrite Forall_forall in Hwf. destruct (Hwf _ H) as [Hl _]. exact Hl. }
  split; [|split].
  - eapply Permutation_trans; [exact HI|]. eapply Permutation_trans; [|apply Permutation_sym; exact HI'].
    erewrite filter_ext_in'; [apply Permutation_refl|].
    intros i Hi. destruct (Hrow i Hi). cbv beta. eapply overlapsb_unbounded; eauto.
  - eapply Permutation_trans; [exact HC|]. eapply Permutation_trans; [|apply Permutation_sym; exact HC'].
    erewrite filter_ext_in'; [apply Permutation_refl|].
    intros i Hi. destruct (Hrow i Hi). cbv beta. eapply coveredb_unbounded; eauto.
  - eapply Permutation_trans; [exact HO|]. eapply Permutation_trans; [|apply Permutation_sym; exact HO'].
    erewrite filter_ext_in'; [apply Permutation_refl|].
    intros i Hi. destruct (Hrow i Hi). cbv beta.
    erewrite overlapsb_unbounded, coveredb_unbounded; eauto.
Qed.

(* ---- (3) the query that covers everything ---- *)
Theorem C03_everything_query : forall d rows keys ps q,
  1 <= d -> Forall (wf_box d) rows -> Permutation keys (seq 0 (length rows)) ->
  length q = 2 * d ->
  (forall k, k < d -> below_all rows (nth k q 0%Z) /\ above_all rows (nth (d + k) q 0%Z)) ->
  let T := build d rows keys ps in
  Permutation (intersects T q) (filter (fun i => row_finite (nth i rows [])) (seq 0 (length rows))) /\
  Permutation (fst (covers_overlaps T q)) (intersects T q) /\
  snd (covers_overlaps T q) = [].
Proof.
  intros d rows keys ps q Hd Hwf Hk Hq Hall T. subst T.
  pose proof (C03_intersects d _ keys ps _ Hd Hwf Hk Hq) as HI.
  pose proof (C03_covers_overlaps d _ keys ps _ Hd Hwf Hk Hq) as [HC HO].
  assert (Hrow : forall i, In i (seq 0 (length rows)) ->
                   In (nth i rows []) rows /\ length (nth i rows []) = 2 * d).
  { intros i Hi. apply in_seq in Hi. assert (In (nth i rows []) rows) by (apply nth_In; lia).
    split; [assumption|]. rewrite Forall_forall in Hwf. destruct (Hwf _ H) as [Hl _]. exact Hl. }
  assert (Hov : forall i, In i (seq 0 (length rows)) ->
            overlapsb d (nth i rows []) q = row_finite (nth i rows [])).
  { intros i Hi. destruct (Hrow i Hi) as [Hin Hl]. unfold overlapsb.
    destruct (row_finite (nth i rows [])) eqn:Hf; [|reflexivity]. cbn [andb].
    apply forallb_forall. intros k Hk'. apply in_seq in Hk'.
    destruct (Hall k ltac:(lia)) as [Hb Ha]. unfold qv.
    rewrite (nle_above rows), (nle_below rows)
      by (try assumption; eapply row_finite_col; eauto; lia). reflexivity. }
  assert (Hcv : forall i, In i (seq 0 (length rows)) ->
            coveredb d (nth i rows []) q = row_finite (nth i rows [])).
  { intros i Hi. destruct (Hrow i Hi) as [Hin Hl]. unfold coveredb.
    destruct (row_finite (nth i rows [])) eqn:Hf; [|reflexivity]. cbn [andb].
    apply forallb_forall. intros k Hk'. apply in_seq in Hk'.
    destruct (Hall k ltac:(lia)) as [Hb Ha]. unfold qv.
    rewrite (nle_above rows), (nle_below rows)
      by (try assumption; eapply row_finite_col; eauto; lia). reflexivity. }
  split; [|split].
  - eapply Permutation_trans; [exact HI|].
    erewrite filter_ext_in'; [apply Permutation_refl|]. exact Hov.
  - eapply Permutation_trans; [exact HC|]. eapply Permutation_trans; [|apply Permutation_sym; exact HI].
    erewrite filter_ext_in'; [apply Permutation_refl|].
    intros i Hi. cbv beta. rewrite Hov, Hcv by exact Hi. reflexivity.
  - apply Permutation_nil. apply Permutation_sym.
    eapply Permutation_trans; [exact HO|].
    assert (E : filter (fun i => overlapsb d (nth i rows []) q && negb (coveredb d (nth i rows []) q))
                       (seq 0 (length rows)) = []).
    { erewrite filter_ext_in'; [|intros i Hi; cbv beta; rewrite Hov, Hcv by exact Hi; reflexivity].
      clear. induction (seq 0 (length rows)) as [|i l IH]; simpl; [reflexivity|].
      destruct (row_finite (nth i rows [])); simpl; exact IH. }
    rewrite E. apply Permutation_refl.
Qed.
