(* C19, recovery clause -- part 2: the fault-free call with overwrite=True is insensitive to
   everything [Inv] leaves open.

   [second_run]: from ANY tree T with [Inv cfg asg f0 T] the fault-free call (overwrite=True,
   any task orders) returns, and the tree it leaves is path by path the tree
   [expected_node f0 cfg parts] that C10_layout gives for the call started from the prior
   tree f0 itself.

   Reason: rm_retry(path) wipes whatever is under the dataset path; makedirs(exist_ok) and
   the (re)writing of every sub-part file normalise the per-partition temp directories; so
   after the third phase the tree is, path by path, the tree S3 of Proofs/PackProofs.v, and
   from there on the proof of C10_layout applies unchanged. *)
From Coq Require Import ZArith List Bool Arith Lia Permutation Sorted.
From SP Require Import Harness Model.FS Model.PackFS Model.Retry Spec.PackSpec
  Proofs.FSProofs Proofs.PackProofs Proofs.RetryProofs Proofs.RetryRecoverInv
  Proofs.RetryRecoverRun.
Import ListNotations.

Section Second.
Variable cfg : config.
Variable asg : assignment.
Variable f0 : fs.

Notation P := (c_path cfg).
Notation K := (c_k cfg).
Notation outp := (out_path cfg).
Notation tmpp := (tmp_path cfg).

Hypothesis Hprior : prior_ok f0 cfg.
Hypothesis Hsep : tmp_separate cfg.
Hypothesis Hov : c_overwrite cfg = true.
Hypothesis HK : 0 < K.
Hypothesis Hasg : wf_asg K asg.
Hypothesis Hord : wf_orders cfg asg.
Hypothesis Hnonempty : nonempty_outputs K asg <> [].

Variable T : fs.
Hypothesis HInv : Inv cfg asg f0 T.

Let S1' : spec := s_rm P (node_at T).
Let S2' : spec := mk_all_spec_l cfg (seq 0 K) S1'.

Lemma inseq : forall N n, N < n -> In N (seq 0 n).
Proof. intros N n H. apply in_seq. lia. Qed.

Lemma seqin : forall N n, In N (seq 0 n) -> N < n.
Proof. intros N n H. apply in_seq in H. lia. Qed.

Lemma way_mk_hit : forall q, way cfg q = true -> mk_hit cfg (seq 0 K) q = true.
Proof.
  intros q H. unfold mk_hit. apply existsb_exists. exists 0. split; [apply inseq; exact HK|].
  unfold way in H. rewrite (tmpp_eq cfg). unfold out_path. rewrite !on_the_way_snoc.
  apply orb_prop in H as [H|H]; rewrite H; rewrite ?orb_true_r; reflexivity.
Qed.

Lemma mk_hit_tmpp : forall N, N < K -> mk_hit cfg (seq 0 K) (tmpp N) = true.
Proof.
  intros N HN. unfold mk_hit. apply existsb_exists. exists N. split; [apply inseq; exact HN|].
  assert (G : on_the_way (tmpp N) (tmpp N) = true).
  { unfold on_the_way. destruct (tmpp N) eqn:E; [exfalso; eapply tmpp_nonnil; eauto|].
    apply is_prefix_refl. }
  rewrite G. apply orb_true_r.
Qed.

(* a path under an owned temp directory, outside the dataset: the mode is external *)
Lemma owned_outside : forall q, owned cfg q = true -> is_prefix P q = false ->
  exists t N r, c_tmp cfg = TExternal t /\ N < K /\ q = t ++ [NTmp N] ++ r.
Proof.
  intros q Ho HPq. unfold owned in Ho. rewrite HPq in Ho. simpl in Ho.
  apply existsb_exists in Ho as [N [HN Hq]]. apply seqin in HN.
  unfold tmp_path in Hq. destruct (c_tmp cfg) as [|t] eqn:Et.
  - exfalso. apply is_prefix_iff in Hq as [r ->]. rewrite <- app_assoc, is_prefix_app in HPq. discriminate.
  - apply is_prefix_iff in Hq as [r ->]. exists t, N, r. rewrite <- app_assoc. auto.
Qed.

Lemma f0_tmp_none : forall t N r, c_tmp cfg = TExternal t -> node_at f0 (t ++ [NTmp N] ++ r) = None.
Proof.
  intros t N r Et. destruct Hprior as (_ & _ & _ & _ & Hext & _). rewrite Et in Hext.
  destruct Hext as [_ Hext]. apply (Hext N). rewrite app_assoc. apply is_prefix_app.
Qed.

Lemma subp_ext : forall t c, c_tmp cfg = TExternal t ->
  subp cfg c = t ++ [NTmp (snd c)] ++ [NSub (fst c)].
Proof. intros t c Et. unfold subp, tmp_path. rewrite Et, <- app_assoc. reflexivity. Qed.

Lemma mk_hit_subp_false : forall c, mk_hit cfg (seq 0 K) (subp cfg c) = false.
Proof.
  intro c. destruct (mk_hit cfg (seq 0 K) (subp cfg c)) eqn:E; [|reflexivity]. exfalso.
  assert (G : S2 cfg f0 (subp cfg c) = None).
  { unfold subp. apply (S2_below cfg f0 Hprior Hsep HK). discriminate. }
  unfold S2 in G. rewrite mk_all_spec_closed, E in G. discriminate.
Qed.

(* outside the dataset, away from the directories phase 2 makes and from the sub-part files
   phase 3 writes, T is the prior tree *)
Lemma T_agrees : forall q, is_prefix P q = false -> mk_hit cfg (seq 0 K) q = false ->
  (forall c, In c (cells3 cfg asg) -> subp cfg c <> q) ->
  node_at T q = node_at f0 q.
Proof.
  intros q HPq Hhit Hsub. destruct HInv as (_ & _ & HO & HT).
  destruct (owned cfg q) eqn:Eo.
  - destruct (owned_outside q Eo HPq) as [t [N [r [Et [HN ->]]]]].
    rewrite (f0_tmp_none t N r Et). specialize (HT t N r Et HN).
    destruct r as [|a [|b r]]; simpl in HT.
    + exfalso. pose proof (mk_hit_tmpp N HN) as G. unfold tmp_path in G. rewrite Et in G.
      change (t ++ [NTmp N] ++ []) with (t ++ [NTmp N]) in Hhit. congruence.
    + destruct HT as [HT|[i [c [-> [Hin _]]]]]; [exact HT|]. exfalso.
      apply (Hsub (i, N)).
      * apply (proj2 (cells3_iff cfg asg HK Hord (i, N))).
        apply (proj2 (cells_of_spec cfg asg HK N (i, N))). simpl. auto.
      * rewrite (subp_ext t _ Et). reflexivity.
    + exact HT.
  - destruct (HO q Eo) as [E|[Hw _]]; [exact E|]. apply way_mk_hit in Hw. congruence.
Qed.

Lemma S1'_no_file : forall N q, In N (seq 0 K) ->
  on_the_way q (outp N) || on_the_way q (tmpp N) = true -> s_isfile S1' q = false.
Proof.
  intros N q HN Hq. unfold s_isfile, S1', s_rm.
  destruct (is_prefix P q) eqn:HPq; [reflexivity|].
  destruct (node_at T q) as [[c|]|] eqn:En; try reflexivity. exfalso.
  destruct HInv as (_ & _ & HO & HT).
  destruct (owned cfg q) eqn:Eo.
  - destruct (owned_outside q Eo HPq) as [t [N' [r [Et [HN' ->]]]]].
    specialize (HT t N' r Et HN'). rewrite En in HT.
    destruct r as [|a [|b r]]; simpl in HT.
    + destruct HT; discriminate.
    + assert (Hh : mk_hit cfg (seq 0 K) (t ++ [NTmp N'] ++ [a]) = true).
      { unfold mk_hit. apply existsb_exists. exists N. auto. }
      assert (G : S2 cfg f0 (tmpp N' ++ [a]) = None).
      { apply (S2_below cfg f0 Hprior Hsep HK). discriminate. }
      unfold tmp_path in G. rewrite Et in G. rewrite <- app_assoc in G.
      unfold S2 in G. rewrite mk_all_spec_closed, Hh in G. discriminate.
    + discriminate.
  - destruct (HO q Eo) as [E|[_ E]]; [|congruence].
    pose proof (S1_no_file_on_the_way cfg f0 Hprior N q Hq) as G.
    unfold s_isfile, S1, S0 in G. rewrite HPq, <- E, En in G. discriminate.
Qed.

Lemma S2'_closed : forall q, S2' q = if mk_hit cfg (seq 0 K) q then Some Dir else S1' q.
Proof. intro q. apply mk_all_spec_closed. Qed.

Lemma S2'_subp_not_dir : forall c, In c (cells3 cfg asg) -> S2' (subp cfg c) <> Some Dir.
Proof.
  intros c Hc. rewrite S2'_closed, mk_hit_subp_false. unfold S1', s_rm.
  destruct (is_prefix P (subp cfg c)) eqn:HPq; [discriminate|].
  destruct (c_tmp cfg) as [|t] eqn:Et.
  - exfalso. unfold subp, tmp_path in HPq. rewrite Et in HPq.
    rewrite <- app_assoc, is_prefix_app in HPq. discriminate.
  - rewrite (subp_ext t c Et).
    assert (HN : snd c < K) by (apply (cells3_valid cfg asg Hasg c Hc)).
    destruct HInv as (_ & _ & _ & HT).
    specialize (HT t (snd c) [NSub (fst c)] Et HN). unfold tmp_ok in HT.
    destruct HT as [HT|[i [x [_ [_ HT]]]]]; rewrite HT; discriminate.
Qed.

Lemma set_all_ext : forall L (S S' : spec) q,
  ((forall c, In c L -> subp cfg c <> q) -> S q = S' q) ->
  set_all cfg L S q = set_all cfg L S' q.
Proof.
  intros L S S' q H.
  destruct (existsb (fun c => path_eqb (subp cfg c) q) L) eqn:E.
  - apply existsb_exists in E as [c [Hc E]]. apply path_eqb_eq in E. subst q.
    rewrite !(set_all_hit cfg) by exact Hc. reflexivity.
  - assert (G : forall c, In c L -> subp cfg c <> q).
    { intros c Hc Eq. assert (X : existsb (fun c => path_eqb (subp cfg c) q) L = true).
      { apply existsb_exists. exists c. split; [exact Hc|]. apply path_eqb_eq. exact Eq. }
      congruence. }
    rewrite !(set_all_miss cfg) by exact G. apply H. exact G.
Qed.

(* after the third phase the tree is the tree S3 of the run started from the prior tree *)
Lemma S3'_is_S3 : forall q, set_all cfg (cells3 cfg asg) S2' q = S3 cfg asg f0 q.
Proof.
  intro q. unfold S3. apply set_all_ext. intro Hsub.
  rewrite S2'_closed. unfold S2. rewrite mk_all_spec_closed.
  destruct (mk_hit cfg (seq 0 K) q) eqn:Eh; [reflexivity|].
  unfold S1', s_rm, S1, S0. destruct (is_prefix P q) eqn:HPq; [reflexivity|].
  apply T_agrees; assumption.
Qed.

Theorem second_run :
  exists ps f7, pack T cfg asg = OK ps f7 /\
    (forall q, node_at f7 q = expected_node f0 cfg ps q) /\
    Forall2 (fun p N => Permutation p (cells_of asg N)) ps (nonempty_outputs K asg).
Proof.
  pose proof HInv as (HN & HC & _ & _).
  (* phase 1: rm_retry(path) *)
  destruct (rm_models T (node_at T) P) as [f1 [E1 G1]].
  { split; [intro q; reflexivity|exact HN]. }
  { exact (HP cfg f0 Hprior). }
  { exact HC. }
  (* phase 2: the directories *)
  destruct (phase2_loop cfg (seq 0 K) f1 S1' G1 S1'_no_file) as [f2 [E2 G2]].
  (* phase 3: the sub-part files *)
  destruct (phase3_loop cfg HK (cells3 cfg asg) f2 S2' G2) as [f3 [E3 G3']].
  { intros c Hc. rewrite S2'_closed, mk_hit_tmpp; [reflexivity|].
    apply (cells3_valid cfg asg Hasg c Hc). }
  { exact S2'_subp_not_dir. }
  assert (G3 : good f3 (S3 cfg asg f0)).
  { destruct G3' as [HM HNd]. split; [|exact HNd]. intro q. rewrite HM. apply S3'_is_S3. }
  (* from here on: as in PackProofs.pack_ok *)
  destruct Hord as [_ Hco].
  destruct (concat_loop cfg asg f0 Hprior Hsep HK Hord (c_corder cfg) f3 (S3 cfg asg f0))
    as [rs [f4 [E4 [G4 [Hfst Hres]]]]].
  { apply (Permutation_NoDup (Permutation_sym Hco)). apply seq_NoDup. }
  { intros N HN'. apply seqin. apply (Permutation_in _ Hco HN'). }
  { exact G3. }
  { exact (S3_P cfg asg f0 Hprior Hsep HK). }
  { intros; reflexivity. }
  assert (Hrs_fst : Permutation (map fst rs) (seq 0 K)) by (rewrite Hfst; exact Hco).
  pose proof (parts_content cfg asg HK rs Hrs_fst Hres) as Hcontent.
  assert (Hne : ne cfg rs <> []).
  { intro E. unfold parts in Hcontent. rewrite E in Hcontent. simpl in Hcontent.
    inversion Hcontent as [HH HH2|]. apply Hnonempty. symmetry. exact HH2. }
  destruct (phases_5_7 cfg asg f0 Hprior Hsep HK Hasg rs Hrs_fst Hne f4 (proj1 G4))
    as [f7 [S5 [E7 [HM7 [H1 [H2 H3]]]]]].
  exists (parts cfg rs), f7. split; [|split; [|exact Hcontent]].
  - unfold pack, pack_proc. rewrite Hov. unfold bind at 1.
    change (w_rm pure_wrappers P) with (body_rm pure_prims P). rewrite E1.
    unfold bind at 1. rewrite E2.
    unfold bind at 1. rewrite (phase3_flat cfg asg). fold (cells3 cfg asg). rewrite E3.
    unfold bind at 1. fold (concat_task cfg asg). rewrite E4.
    cbv zeta. fold (ne cfg rs). fold (parts cfg rs).
    destruct (ne cfg rs) as [|x l] eqn:Ene; [contradiction|]. exact E7.
  - intro q. rewrite HM7.
    apply (final_form cfg asg f0 Hprior Hsep HK Hasg rs Hrs_fst); assumption.
Qed.
End Second.

(* ================================================================== the recovery clause of C19 *)
(* the repeated call: same dataset path, same npartitions, same temp-directory locations,
   overwrite=True; the two task orders are whatever dask chooses this time *)
Definition recover_cfg (cfg : config) (io co : list nat) : config :=
  {| c_path := c_path cfg; c_k := c_k cfg; c_tmp := c_tmp cfg; c_overwrite := true;
     c_iorder := io; c_corder := co |}.

Lemma prior_ok_recover : forall f0 cfg io co, prior_ok f0 cfg -> prior_ok f0 (recover_cfg cfg io co).
Proof.
  intros f0 cfg io co (H1 & H2 & H3 & H4 & H5 & H6). unfold prior_ok. simpl.
  repeat split; try assumption; try (destruct (c_tmp cfg); [exact I|apply H5]).
  discriminate.
Qed.

(* whatever tree a run over the faulty filesystem leaves, the fault-free repeat with
   overwrite=True ends in the tree C10_layout describes for the prior tree *)
Theorem recover_from_any_state : forall lies n sched f0 cfg asg io co,
  prior_ok f0 cfg -> tmp_separate cfg -> wf_asg (c_k cfg) asg -> wf_orders cfg asg ->
  wf_orders (recover_cfg cfg io co) asg ->
  nonempty_outputs (c_k cfg) asg <> [] ->
  forall s, (packF_gen lies n sched f0 cfg asg = Err s \/
             exists r, packF_gen lies n sched f0 cfg asg = OK r s) ->
  exists ps f2,
    pack (st_fs s) (recover_cfg cfg io co) asg = OK ps f2 /\
    (forall q, node_at f2 q = expected_node f0 cfg ps q) /\
    Forall2 (fun p N => Permutation p (cells_of asg N)) ps (nonempty_outputs (c_k cfg) asg).
Proof.
  intros lies n sched f0 cfg asg io co Hp Hs Ha Ho Ho2 Hn s Hrun.
  assert (HI : Inv cfg asg f0 (st_fs s)).
  { pose proof (packF_Inv cfg asg f0 Hp Hs Ha) as G.
    assert (Hco : forall N, In N (c_corder cfg) -> N < c_k cfg).
    { intros N HN. destruct Ho as [_ Hc]. apply (Permutation_in _ Hc) in HN. apply in_seq in HN. lia. }
    specialize (G Hco lies n sched).
    destruct Hrun as [E|[r E]]; rewrite E in G; exact G. }
  exact (second_run (recover_cfg cfg io co) asg f0 (prior_ok_recover f0 cfg io co Hp) Hs eq_refl
           (nonempty_K _ _ Hn) Ha Ho2 Hn (st_fs s) HI).
Qed.

(* C19_recover: the first run ABORTS *)
Theorem recover_general : forall n sched f0 cfg asg io co s,
  prior_ok f0 cfg -> tmp_separate cfg -> wf_asg (c_k cfg) asg -> wf_orders cfg asg ->
  wf_orders (recover_cfg cfg io co) asg ->
  nonempty_outputs (c_k cfg) asg <> [] ->
  packF n sched f0 cfg asg = Err s ->
  exists ps f2,
    pack (st_fs s) (recover_cfg cfg io co) asg = OK ps f2 /\
    (forall q, node_at f2 q = expected_node f0 cfg ps q) /\
    Forall2 (fun p N => Permutation p (cells_of asg N)) ps (nonempty_outputs (c_k cfg) asg).
Proof.
  intros n sched f0 cfg asg io co s Hp Hs Ha Ho Ho2 Hn E.
  apply (recover_from_any_state true n sched f0 cfg asg io co Hp Hs Ha Ho Ho2 Hn s). left. exact E.
Qed.

(* ... and the repeat may itself suffer faults: if it returns, it returns the same parts and
   leaves the same tree *)
Theorem recover_faulty_repeat : forall n sched f0 cfg asg io co s n2 sched2 ps2 s2,
  prior_ok f0 cfg -> tmp_separate cfg -> wf_asg (c_k cfg) asg -> wf_orders cfg asg ->
  wf_orders (recover_cfg cfg io co) asg ->
  nonempty_outputs (c_k cfg) asg <> [] ->
  packF n sched f0 cfg asg = Err s ->
  ~ In (Some FLie) sched2 ->
  packF n2 sched2 (st_fs s) (recover_cfg cfg io co) asg = OK ps2 s2 ->
  (forall q, node_at (st_fs s2) q = expected_node f0 cfg ps2 q) /\
  Forall2 (fun p N => Permutation p (cells_of asg N)) ps2 (nonempty_outputs (c_k cfg) asg).
Proof.
  intros n sched f0 cfg asg io co s n2 sched2 ps2 s2 Hp Hs Ha Ho Ho2 Hn E Hnl E2.
  destruct (recover_general n sched f0 cfg asg io co s Hp Hs Ha Ho Ho2 Hn E) as [ps [f2 [Epk [HL HC]]]].
  destruct (all_or_error_no_lie n2 sched2 _ _ _ _ _ Hnl Epk) as [[s' Es]|[s' [Es Ef]]].
  - rewrite Es in E2. discriminate.
  - rewrite Es in E2. injection E2 as <- <-. rewrite Ef. auto.
Qed.

(* the same for the instance of the model in which a lying stat call acts as a raising one,
   without any condition on the second schedule *)
Theorem recover_faulty_repeat_gen : forall lies n sched f0 cfg asg io co s n2 sched2 ps2 s2,
  prior_ok f0 cfg -> tmp_separate cfg -> wf_asg (c_k cfg) asg -> wf_orders cfg asg ->
  wf_orders (recover_cfg cfg io co) asg ->
  nonempty_outputs (c_k cfg) asg <> [] ->
  packF_gen lies n sched f0 cfg asg = Err s ->
  packF_gen false n2 sched2 (st_fs s) (recover_cfg cfg io co) asg = OK ps2 s2 ->
  (forall q, node_at (st_fs s2) q = expected_node f0 cfg ps2 q) /\
  Forall2 (fun p N => Permutation p (cells_of asg N)) ps2 (nonempty_outputs (c_k cfg) asg).
Proof.
  intros lies n sched f0 cfg asg io co s n2 sched2 ps2 s2 Hp Hs Ha Ho Ho2 Hn E E2.
  destruct (recover_from_any_state lies n sched f0 cfg asg io co Hp Hs Ha Ho Ho2 Hn s (or_introl E))
    as [ps [f2 [Epk [HL HC]]]].
  destruct (all_or_error n2 sched2 _ _ _ _ _ Epk) as [[s' Es]|[s' [Es Ef]]].
  - rewrite Es in E2. discriminate.
  - rewrite Es in E2. injection E2 as <- <-. rewrite Ef. auto.
Qed.

(* ================================================================== a per-call component in the temp format *)
(* With a {uuid} in tempdir_format the repeated call draws a NEW uuid: its per-partition temp
   directories are <t2>/t<N> for another parent t2.  What is guaranteed then: provided the new
   locations are fresh in the tree the aborted run left, the repeat returns and leaves
   [expected_node (st_fs s) cfg2 parts]: below the dataset path exactly the new dataset;
   everywhere else the tree AS THE ABORTED RUN LEFT IT (plus the directories on the way to the
   dataset path and to t2) -- the per-partition temp directories of the aborted run and the
   sub-part files in them are NOT removed ([uuid_debris_stays]). *)
Definition retmp_cfg (cfg : config) (t2 : path) (io co : list nat) : config :=
  {| c_path := c_path cfg; c_k := c_k cfg; c_tmp := TExternal t2; c_overwrite := true;
     c_iorder := io; c_corder := co |}.

Theorem recover_fresh_tmp : forall lies n sched f0 cfg asg t2 io co,
  prior_ok f0 cfg -> tmp_separate cfg -> wf_asg (c_k cfg) asg -> wf_orders cfg asg ->
  tmp_separate (retmp_cfg cfg t2 io co) -> wf_orders (retmp_cfg cfg t2 io co) asg ->
  nonempty_outputs (c_k cfg) asg <> [] ->
  forall s, (packF_gen lies n sched f0 cfg asg = Err s \/
             exists r, packF_gen lies n sched f0 cfg asg = OK r s) ->
  (* the new temp locations are fresh in the tree the first run left *)
  (forall q, on_the_way q t2 = true -> isfile_b (st_fs s) q = false) ->
  (forall N q, is_prefix (t2 ++ [NTmp N]) q = true -> node_at (st_fs s) q = None) ->
  exists ps f2,
    pack (st_fs s) (retmp_cfg cfg t2 io co) asg = OK ps f2 /\
    (forall q, node_at f2 q = expected_node (st_fs s) (retmp_cfg cfg t2 io co) ps q) /\
    Forall2 (fun p N => Permutation p (cells_of asg N)) ps (nonempty_outputs (c_k cfg) asg).
Proof.
  intros lies n sched f0 cfg asg t2 io co Hp Hs Ha Ho Hs2 Ho2 Hn s Hrun Hfresh1 Hfresh2.
  assert (HI : Inv cfg asg f0 (st_fs s)).
  { pose proof (packF_Inv cfg asg f0 Hp Hs Ha) as G.
    assert (Hco : forall N, In N (c_corder cfg) -> N < c_k cfg).
    { intros N HN. destruct Ho as [_ Hc]. apply (Permutation_in _ Hc) in HN. apply in_seq in HN. lia. }
    specialize (G Hco lies n sched).
    destruct Hrun as [E|[r E]]; rewrite E in G; exact G. }
  apply (pack_layout (st_fs s) (retmp_cfg cfg t2 io co) asg); try assumption.
  destruct HI as (HN & HC & HO & _). pose proof Hp as (_ & HPnn & Hway & _).
  unfold prior_ok. simpl. split; [exact HN|]. split; [exact HPnn|]. split; [|split; [exact HC|]].
  - (* no file on the way to the dataset path *)
    intros q Hq. destruct (exists_last HPnn) as [P' [a EP]]. rewrite EP, parent_snoc in Hq.
    assert (Hq' : is_prefix q P' = true /\ q <> []) by (apply on_the_way_prefix; exact Hq).
    destruct Hq' as [Hq1 Hq2].
    assert (Eo : owned cfg q = false).
    { unfold owned. apply orb_false_intro.
      - destruct (is_prefix (c_path cfg) q) eqn:E; [|reflexivity]. exfalso.
        pose proof (is_prefix_trans _ _ _ E Hq1) as G. rewrite EP, is_prefix_snoc_self in G. discriminate.
      - apply not_true_is_false. intro E. apply existsb_exists in E as [N [_ E]].
        pose proof (tmpp_vs_P cfg Hs N) as G.
        assert (C : is_prefix (tmp_path cfg N) (c_path cfg) = true).
        { apply (is_prefix_trans _ _ _ E). apply (is_prefix_trans _ _ _ Hq1). rewrite EP. apply is_prefix_app. }
        congruence. }
    destruct (HO q Eo) as [E|[_ E]]; unfold isfile_b; rewrite E; [|reflexivity].
    assert (G : on_the_way q (parent (c_path cfg)) = true) by (rewrite EP, parent_snoc; exact Hq).
    specialize (Hway q G). unfold isfile_b in Hway. exact Hway.
  - split; [split; [exact Hfresh1|exact Hfresh2]|discriminate].
Qed.

(* ================================================================== the same tree as the fault-free call *)
(* Two trees are the same up to the order of the rows inside a data file: the model's own
   equality of nodes ([onode_eqb]: a data file is a bag of rows; it is what the correspondence
   run compares with, [fs_eqb]). *)
Definition tree_eqb_at (a b : fs) (q : path) : bool := onode_eqb (node_at a q) (node_at b q).

Lemma count_cell_perm : forall c a b, Permutation a b -> count_cell c a = count_cell c b.
Proof.
  intros c a b H. induction H as [|x l l' H IH|x y l|l l' l'' H1 IH1 H2 IH2]; simpl.
  - reflexivity.
  - rewrite IH. reflexivity.
  - lia.
  - congruence.
Qed.

Lemma cells_eqb_perm : forall a b, Permutation a b -> cells_eqb a b = true.
Proof.
  intros a b H. unfold cells_eqb. apply andb_true_intro. split.
  - apply Nat.eqb_eq. apply Permutation_length. exact H.
  - apply forallb_forall. intros x _. apply Nat.eqb_eq. apply count_cell_perm. exact H.
Qed.

Lemma parts_eqb_perm : forall ps1 ps2, Forall2 (@Permutation cell) ps1 ps2 ->
  list_eqb cells_eqb ps1 ps2 = true.
Proof.
  intros ps1 ps2 H. induction H as [|x y l l' Hxy H IH]; simpl; [reflexivity|].
  rewrite (cells_eqb_perm _ _ Hxy), IH. reflexivity.
Qed.

Lemma list_eqb_refl : forall A (e : A -> A -> bool), (forall x, e x x = true) ->
  forall l, list_eqb e l l = true.
Proof. intros A e He l. induction l as [|x l IH]; simpl; [reflexivity|]. rewrite He, IH. reflexivity. Qed.

Lemma onode_eqb_refl : forall o, onode_eqb o o = true.
Proof.
  assert (Hc : forall x, cells_eqb x x = true) by (intro x; apply cells_eqb_perm; apply Permutation_refl).
  intros [[c|]|]; simpl; try reflexivity.
  destruct c; simpl; try reflexivity.
  - apply Hc.
  - apply list_eqb_refl. exact Hc.
  - apply list_eqb_refl. exact Hc.
  - apply Z.eqb_refl.
Qed.

Lemma Forall2_nth_error : forall A B (R : A -> B -> Prop) l1 l2 j, Forall2 R l1 l2 ->
  match nth_error l1 j, nth_error l2 j with
  | Some x, Some y => R x y
  | None, None => True
  | _, _ => False
  end.
Proof.
  intros A B R l1 l2 j H. revert j. induction H as [|x y l l' Hxy H IH]; intros [|j]; simpl; auto.
  apply IH.
Qed.

Lemma expected_node_perm : forall f0 cfg ps1 ps2 q, Forall2 (@Permutation cell) ps1 ps2 ->
  onode_eqb (expected_node f0 cfg ps1 q) (expected_node f0 cfg ps2 q) = true.
Proof.
  intros f0 cfg ps1 ps2 q H. unfold expected_node.
  destruct (strip_prefix (c_path cfg) q) as [rl|]; [|apply onode_eqb_refl].
  destruct rl as [|a [|b rl]]; simpl; try reflexivity.
  destruct a; simpl; try reflexivity.
  - pose proof (Forall2_nth_error _ _ _ _ _ n H) as G.
    destruct (nth_error ps1 n), (nth_error ps2 n); try contradiction; simpl; [|reflexivity].
    apply cells_eqb_perm. exact G.
  - apply parts_eqb_perm. exact H.
  - apply parts_eqb_perm. exact H.
  - destruct a; reflexivity.
Qed.

Lemma Forall2_perm_join : forall (asg : assignment) ps1 ps2 (Ns : list nat),
  Forall2 (fun p N => Permutation p (cells_of asg N)) ps1 Ns ->
  Forall2 (fun p N => Permutation p (cells_of asg N)) ps2 Ns ->
  Forall2 (@Permutation cell) ps1 ps2.
Proof.
  intros asg ps1 ps2 Ns H1. revert ps2. induction H1 as [|p N l Ns' Hp H IH]; intros ps2 H2.
  - inversion H2. constructor.
  - inversion H2 as [|p2 N2 l2 Ns2 Hp2 H2']. subst. constructor.
    + apply (Permutation_trans Hp). apply Permutation_sym. exact Hp2.
    + apply IH. exact H2'.
Qed.

(* C19_recover against the fault-free run itself: the repeat after the aborted run ends in the
   tree the fault-free call on the original prior tree ends in *)
Theorem recover_same_tree : forall n sched f0 cfg asg io co s,
  prior_ok f0 cfg -> tmp_separate cfg -> wf_asg (c_k cfg) asg -> wf_orders cfg asg ->
  wf_orders (recover_cfg cfg io co) asg ->
  nonempty_outputs (c_k cfg) asg <> [] ->
  packF n sched f0 cfg asg = Err s ->
  exists parts1 f1 parts2 f2,
    pack f0 cfg asg = OK parts1 f1 /\
    pack (st_fs s) (recover_cfg cfg io co) asg = OK parts2 f2 /\
    Forall2 (@Permutation cell) parts2 parts1 /\
    forall q, tree_eqb_at f2 f1 q = true.
Proof.
  intros n sched f0 cfg asg io co s Hp Hs Ha Ho Ho2 Hn E.
  destruct (pack_layout f0 cfg asg Hp Hs Ha Ho Hn) as [ps1 [f1 [E1 [L1 C1]]]].
  destruct (recover_general n sched f0 cfg asg io co s Hp Hs Ha Ho Ho2 Hn E) as [ps2 [f2 [E2 [L2 C2]]]].
  exists ps1, f1, ps2, f2. split; [exact E1|]. split; [exact E2|].
  assert (HP : Forall2 (@Permutation cell) ps2 ps1) by (eapply Forall2_perm_join; eauto).
  split; [exact HP|]. intro q. unfold tree_eqb_at. rewrite L1, L2. apply expected_node_perm. exact HP.
Qed.
