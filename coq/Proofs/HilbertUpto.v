(* Kernel-evaluated (bounded) statements about the Hilbert model: boolean
   checkers, their soundness, and [vm_compute] runs over [C07_scope]. *)
From Coq Require Import NArith ZArith List Bool Arith Lia.
From SP Require Import Model.Hilbert Spec.Curve.
Import ListNotations.
Local Open Scope N_scope.

(* ---- enumeration lemmas ------------------------------------------------ *)
Lemma in_nrange : forall k lo h, lo <= h -> h < lo + N.of_nat k -> In h (nrange lo k).
Proof.
  induction k as [|k IH]; intros lo h Hlo Hhi; simpl.
  - lia.
  - destruct (N.eq_dec lo h) as [->|Hne]; [now left|right].
    apply IH; lia.
Qed.

Lemma in_all_cells : forall side n c,
    length c = n -> Forall (fun x => x < N.of_nat side) c -> In c (all_cells side n).
Proof.
  intros side n; induction n as [|n IH]; intros c Hlen Hall; simpl.
  - destruct c; [now left|discriminate].
  - destruct c as [|x c]; [discriminate|].
    inversion Hall as [|? ? Hx Hc]; subst.
    apply in_flat_map. exists x. split.
    + apply in_nrange; lia.
    + apply in_map. apply IH; [simpl in Hlen; lia|assumption].
Qed.

Lemma pow2_of_nat : forall p, N.of_nat (2 ^ p) = 2 ^ N.of_nat p.
Proof.
  induction p as [|p IH].
  - reflexivity.
  - rewrite Nat.pow_succ_r', Nat2N.inj_mul, IH, (Nat2N.inj_succ p), N.pow_succ_r'. reflexivity.
Qed.

(* ---- checkers ---------------------------------------------------------- *)
Definition list_N_eqb (a b : list N) : bool :=
  (length a =? length b)%nat && forallb (fun '(x, y) => x =? y) (combine a b).

Lemma list_N_eqb_eq : forall a b, list_N_eqb a b = true -> a = b.
Proof.
  unfold list_N_eqb. induction a as [|x a IH]; intros [|y b] H; simpl in *; try discriminate.
  - reflexivity.
  - apply andb_prop in H. destruct H as [Hl H]. apply andb_prop in H. destruct H as [Hxy H].
    apply N.eqb_eq in Hxy. subst. f_equal. apply IH. now rewrite Hl, H.
Qed.

Definition absdiff (x y : N) : N := if x <? y then y - x else x - y.
Fixpoint l1dist (a b : list N) : N :=
  match a, b with
  | x :: a', y :: b' => absdiff x y + l1dist a' b'
  | _, _ => 0
  end.
Definition neighboursb (a b : list N) : bool :=
  (length a =? length b)%nat && (l1dist a b =? 1).

Lemma l1dist_0 : forall a b, length a = length b -> l1dist a b = 0 -> a = b.
Proof.
  induction a as [|x a IH]; intros [|y b] Hl H; simpl in *; try discriminate; [reflexivity|].
  unfold absdiff in H. destruct (x <? y) eqn:E.
  - apply N.ltb_lt in E. lia.
  - apply N.ltb_ge in E. assert (x = y) by lia. subst. f_equal. apply IH; lia.
Qed.

Lemma neighboursb_sound : forall a b, neighboursb a b = true -> neighbours a b.
Proof.
  unfold neighboursb, neighbours. intros a b H.
  apply andb_prop in H. destruct H as [Hl H]. apply Nat.eqb_eq in Hl. apply N.eqb_eq in H.
  split; [assumption|].
  revert b Hl H. induction a as [|x a IH]; intros [|y b] Hl H; simpl in *; try discriminate; try lia.
  destruct (N.eq_dec (l1dist a b) 0) as [Hz|Hnz].
  - (* the difference is at the head *)
    assert (a = b) by (apply l1dist_0; lia). subst b.
    exists 0%nat. split; [lia|]. split.
    + unfold absdiff in H. simpl. destruct (x <? y) eqn:E.
      * apply N.ltb_lt in E. left. lia.
      * apply N.ltb_ge in E. right. lia.
    + intros [|j] Hj; [congruence|reflexivity].
  - assert (Hd : absdiff x y = 0 /\ l1dist a b = 1) by lia. destruct Hd as [Hxy Hab].
    assert (x = y).
    { unfold absdiff in Hxy. destruct (x <? y) eqn:E.
      - apply N.ltb_lt in E. lia.
      - apply N.ltb_ge in E. lia. }
    subst y.
    destruct (IH b) as [i [Hi [Hstep Hrest]]]; [lia|assumption|].
    exists (S i). split; [lia|]. split; [exact Hstep|].
    intros [|j] Hj; [reflexivity|]. simpl. apply Hrest. congruence.
Qed.

Definition pairN_list (xy : N * N) : list N := [fst xy; snd xy].

Definition cfd_all (p n : nat) : list (N * list N) :=
  map (fun h => (h, coordinate_from_distance p n h)) (nrange 0 (2 ^ (n * p))).

(* one pass over all distances: range, round trip, adjacency with the successor *)
Definition check_d (p n : nat) : bool :=
  let side := 2 ^ N.of_nat p in
  let top := 2 ^ N.of_nat (n * p) in
  forallb (fun h =>
             let c := coordinate_from_distance p n h in
             (length c =? n)%nat
             && forallb (fun x => x <? side) c
             && (distance_from_coordinate p c =? h)
             && (if h + 1 <? top
                 then neighboursb c (coordinate_from_distance p n (h + 1)) else true))
          (nrange 0 (2 ^ (n * p))).

(* the same over the distances lo .. lo+cnt-1 only (used by the thorough tier of the
   correspondence run to evaluate adjacency inside the kernel beyond C07_scope, in shards) *)
Definition check_d_range (p n : nat) (lo cnt : N) : bool :=
  let side := 2 ^ N.of_nat p in
  let top := 2 ^ N.of_nat (n * p) in
  forallb (fun h =>
             let c := coordinate_from_distance p n h in
             (length c =? n)%nat
             && forallb (fun x => x <? side) c
             && (distance_from_coordinate p c =? h)
             && (if h + 1 <? top
                 then neighboursb c (coordinate_from_distance p n (h + 1)) else true)
             && (if (n =? 2)%nat then list_N_eqb c (pairN_list (hilbert_ref p h)) else true))
          (nrange lo (N.to_nat cnt)).

(* one pass over all cells: range, round trip, refinement towards the coarser order *)
Definition check_c (p n : nat) : bool :=
  let top := 2 ^ N.of_nat (n * p) in
  forallb (fun c =>
             let d := distance_from_coordinate p c in
             (d <? top)
             && list_N_eqb (coordinate_from_distance p n d) c
             && (match p with
                 | S (S k) =>
                     N.shiftr d (N.of_nat n)
                     =? distance_from_coordinate (S k) (map (fun x => N.shiftr x 1) c)
                 | _ => true
                 end))
          (all_cells (2 ^ p) n).

Definition check_ends (p n : nat) : bool :=
  list_N_eqb (coordinate_from_distance p n 0) (repeat 0 n)
  && list_N_eqb (coordinate_from_distance p n (2 ^ N.of_nat (n * p) - 1))
                (match n with O => [] | S m => (2 ^ N.of_nat p - 1) :: repeat 0 m end).

Definition check_classical (p : nat) : bool :=
  forallb (fun h => list_N_eqb (coordinate_from_distance p 2 h) (pairN_list (hilbert_ref p h)))
          (nrange 0 (2 ^ (2 * p))).

Definition check_pn (pn : nat * nat) : bool :=
  check_d (fst pn) (snd pn) && check_c (fst pn) (snd pn) && check_ends (fst pn) (snd pn)
  && (if (snd pn =? 2)%nat then check_classical (fst pn) else true).

(* ---- the run ----------------------------------------------------------- *)
Lemma check_scope_ok : forallb check_pn C07_scope = true.
Proof. vm_compute. reflexivity. Qed.

Lemma scope_checks : forall p n, In (p, n) C07_scope ->
    check_d p n = true /\ check_c p n = true /\ check_ends p n = true /\
    (n = 2%nat -> check_classical p = true).
Proof.
  intros p n Hin.
  pose proof (proj1 (forallb_forall check_pn C07_scope) check_scope_ok (p, n) Hin) as H.
  unfold check_pn in H. cbn [fst snd] in H.
  apply andb_prop in H. destruct H as [H Hcl].
  apply andb_prop in H. destruct H as [H He].
  apply andb_prop in H. destruct H as [Hd Hc].
  repeat split; try assumption.
  intros ->. exact Hcl.
Qed.

(* ---- the statements ---------------------------------------------------- *)
Lemma check_d_at : forall p n h, check_d p n = true -> h < 2 ^ N.of_nat (n * p) ->
    let c := coordinate_from_distance p n h in
    length c = n /\ Forall (fun x => x < 2 ^ N.of_nat p) c /\
    distance_from_coordinate p c = h /\
    (h + 1 < 2 ^ N.of_nat (n * p) -> neighbours c (coordinate_from_distance p n (h + 1))).
Proof.
  intros p n h Hc Hh. unfold check_d in Hc. rewrite forallb_forall in Hc.
  specialize (Hc h). cbv zeta in *.
  assert (Hin : In h (nrange 0 (2 ^ (n * p)))).
  { apply in_nrange; [lia|]. rewrite pow2_of_nat. lia. }
  specialize (Hc Hin).
  apply andb_prop in Hc. destruct Hc as [Hc Hadj].
  apply andb_prop in Hc. destruct Hc as [Hc Hrt].
  apply andb_prop in Hc. destruct Hc as [Hlen Hrng].
  apply Nat.eqb_eq in Hlen. apply N.eqb_eq in Hrt.
  split; [assumption|]. split; [|split; [assumption|]].
  - apply Forall_forall. intros x Hx. rewrite forallb_forall in Hrng.
    apply N.ltb_lt. now apply Hrng.
  - intros Hlt. apply neighboursb_sound.
    apply N.ltb_lt in Hlt. now rewrite Hlt in Hadj.
Qed.

Lemma check_c_at : forall p n c, check_c p n = true -> cell p n c ->
    let d := distance_from_coordinate p c in
    d < 2 ^ N.of_nat (n * p) /\ coordinate_from_distance p n d = c /\
    (forall k, p = S (S k) ->
               N.shiftr d (N.of_nat n) =
               distance_from_coordinate (S k) (map (fun x => N.shiftr x 1) c)).
Proof.
  intros p n c Hc [Hlen Hall]. unfold check_c in Hc. rewrite forallb_forall in Hc.
  specialize (Hc c). cbv zeta in *.
  assert (Hin : In c (all_cells (2 ^ p) n)).
  { apply in_all_cells; [assumption|]. now rewrite pow2_of_nat. }
  specialize (Hc Hin).
  apply andb_prop in Hc. destruct Hc as [Hc Href].
  apply andb_prop in Hc. destruct Hc as [Hrng Hrt].
  apply N.ltb_lt in Hrng. apply list_N_eqb_eq in Hrt.
  split; [assumption|]. split; [assumption|].
  intros k ->. now apply N.eqb_eq in Href.
Qed.

(* ---- theorems over the scope ------------------------------------------- *)
Theorem roundtrip_d_upto : forall p n h, In (p, n) C07_scope -> distance p n h ->
    distance_from_coordinate p (coordinate_from_distance p n h) = h.
Proof.
  intros p n h Hin Hh. destruct (scope_checks p n Hin) as [Hd _].
  now destruct (check_d_at p n h Hd Hh) as (_ & _ & Hrt & _).
Qed.

Theorem cfd_range_upto : forall p n h, In (p, n) C07_scope -> distance p n h ->
    cell p n (coordinate_from_distance p n h).
Proof.
  intros p n h Hin Hh. destruct (scope_checks p n Hin) as [Hd _].
  destruct (check_d_at p n h Hd Hh) as (Hl & Hr & _ & _). now split.
Qed.

Theorem adjacent_upto : forall p n h, In (p, n) C07_scope -> distance p n (h + 1) ->
    neighbours (coordinate_from_distance p n h) (coordinate_from_distance p n (h + 1)).
Proof.
  intros p n h Hin Hh. destruct (scope_checks p n Hin) as [Hd _].
  unfold distance in Hh.
  assert (Hh0 : h < 2 ^ N.of_nat (n * p)) by lia.
  destruct (check_d_at p n h Hd Hh0) as (_ & _ & _ & Hadj). now apply Hadj.
Qed.

Theorem roundtrip_c_upto : forall p n c, In (p, n) C07_scope -> cell p n c ->
    coordinate_from_distance p n (distance_from_coordinate p c) = c.
Proof.
  intros p n c Hin Hc. destruct (scope_checks p n Hin) as (_ & Hcc & _).
  now destruct (check_c_at p n c Hcc Hc) as (_ & Hrt & _).
Qed.

Theorem dfc_range_upto : forall p n c, In (p, n) C07_scope -> cell p n c ->
    distance p n (distance_from_coordinate p c).
Proof.
  intros p n c Hin Hc. destruct (scope_checks p n Hin) as (_ & Hcc & _).
  now destruct (check_c_at p n c Hcc Hc) as (Hr & _ & _).
Qed.

(* refinement: the order-(p+1) distance of a cell, without its last n bits, is
   the order-p distance of the parent cell (every coordinate halved) *)
Theorem refinement_upto : forall p n c, (1 <= p)%nat -> In (S p, n) C07_scope -> cell (S p) n c ->
    N.shiftr (distance_from_coordinate (S p) c) (N.of_nat n) =
    distance_from_coordinate p (map (fun x => N.shiftr x 1) c).
Proof.
  intros p n c Hp Hin Hc. destruct (scope_checks (S p) n Hin) as (_ & Hcc & _).
  destruct (check_c_at (S p) n c Hcc Hc) as (_ & _ & Href).
  destruct p as [|k]; [lia|]. now apply Href.
Qed.

Theorem endpoints_upto : forall p n, In (p, n) C07_scope ->
    coordinate_from_distance p n 0 = repeat 0 n /\
    coordinate_from_distance p n (2 ^ N.of_nat (n * p) - 1) =
    match n with O => [] | S m => (2 ^ N.of_nat p - 1) :: repeat 0 m end.
Proof.
  intros p n Hin. destruct (scope_checks p n Hin) as (_ & _ & He & _).
  unfold check_ends in He. apply andb_prop in He. destruct He as [H0 H1].
  split; now apply list_N_eqb_eq.
Qed.

Theorem classical_upto : forall p h, In (p, 2%nat) C07_scope -> distance p 2 h ->
    coordinate_from_distance p 2 h = [fst (hilbert_ref p h); snd (hilbert_ref p h)].
Proof.
  intros p h Hin Hh. destruct (scope_checks p 2 Hin) as (_ & _ & _ & Hcl).
  specialize (Hcl eq_refl). unfold check_classical in Hcl. rewrite forallb_forall in Hcl.
  apply list_N_eqb_eq. apply Hcl. apply in_nrange; [lia|].
  rewrite pow2_of_nat. exact Hh.
Qed.

(* every cell is visited exactly once *)
Theorem bijection_upto : forall p n c, In (p, n) C07_scope -> cell p n c ->
    exists! h, distance p n h /\ coordinate_from_distance p n h = c.
Proof.
  intros p n c Hin Hc. exists (distance_from_coordinate p c). split.
  - split; [now apply dfc_range_upto|now apply roundtrip_c_upto].
  - intros h [Hh Heq]. subst c. now apply roundtrip_d_upto.
Qed.
