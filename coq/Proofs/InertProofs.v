(* Lemma library for C17, part 1: the generic "exact selection" lemma,
   bounds rows and total_bounds of inert elements. *)
From Coq Require Import ZArith List Bool Arith Lia Permutation.
From SP Require Import Model.Num Model.Arrow Model.Bounds Model.Inert
                       Spec.BoundsSpec Spec.InertSpec Proofs.BoundsProofs.
Import ListNotations.
Local Open Scope nat_scope.

(* ================================================================== *)
(** * 1. removing flagged rows, positions, renumbering                   *)
(* ================================================================== *)

Lemma keep_cons_true : forall A fl (x : A) l, keep (true :: fl) (x :: l) = keep fl l.
Proof. reflexivity. Qed.
Lemma keep_cons_false : forall A fl (x : A) l, keep (false :: fl) (x :: l) = x :: keep fl l.
Proof. reflexivity. Qed.

(* [keep] with the flags computed from the elements is [filter] *)
Lemma keep_map_filter : forall A (f : A -> bool) l,
  keep (map f l) l = filter (fun x => negb (f x)) l.
Proof.
  intros A f l. induction l as [|x t IH]; [reflexivity|].
  cbn [map filter]. destruct (f x) eqn:E; cbn [negb].
  - rewrite keep_cons_true. exact IH.
  - rewrite keep_cons_false, IH. reflexivity.
Qed.

Lemma keep_map_seq : forall A (f : A -> bool) l k,
  keep (map f l) (seq k (length l)) = positions_from (fun x => negb (f x)) k l.
Proof.
  intros A f l. induction l as [|x t IH]; intros k; [reflexivity|].
  cbn [map length seq positions_from]. destruct (f x) eqn:E; cbn [negb].
  - rewrite keep_cons_true. apply IH.
  - rewrite keep_cons_false, IH. reflexivity.
Qed.

Lemma kept_positions_map : forall A (f : A -> bool) l,
  kept_positions (map f l) = positions (fun x => negb (f x)) l.
Proof.
  intros A f l. unfold kept_positions, positions. rewrite map_length. apply keep_map_seq.
Qed.

Lemma positions_from_shift : forall A (P : A -> bool) l k,
  positions_from P (S k) l = map S (positions_from P k l).
Proof.
  intros A P l. induction l as [|x t IH]; intros k; [reflexivity|].
  cbn [positions_from]. destruct (P x); cbn [map]; rewrite IH; reflexivity.
Qed.

Lemma positions_from_seq : forall A (P : A -> bool) l k d,
  positions_from P k l = filter (fun i => P (nth (i - k) l d)) (seq k (length l)).
Proof.
  intros A P l. induction l as [|x t IH]; intros k d; [reflexivity|].
  cbn [positions_from length seq filter]. rewrite Nat.sub_diag. cbn [nth].
  rewrite (IH (S k) d).
  assert (E : filter (fun i => P (nth (i - S k) t d)) (seq (S k) (length t)) =
              filter (fun i => P (nth (i - k) (x :: t) d)) (seq (S k) (length t))).
  { apply filter_ext_in. intros i Hi. apply in_seq in Hi.
    replace (i - k) with (S (i - S k)) by lia. reflexivity. }
  rewrite E. destruct (P x); reflexivity.
Qed.

(* the form in which C03 states exactness *)
Lemma positions_filter_seq : forall A (P : A -> bool) l d,
  positions P l = filter (fun i => P (nth i l d)) (seq 0 (length l)).
Proof.
  intros A P l d. unfold positions. rewrite (positions_from_seq A P l 0 d).
  apply filter_ext. intros i. rewrite Nat.sub_0_r. reflexivity.
Qed.

Lemma in_positions_from : forall A (P : A -> bool) l k i d,
  In i (positions_from P k l) <-> k <= i < k + length l /\ P (nth (i - k) l d) = true.
Proof.
  intros A P l k i d. rewrite (positions_from_seq A P l k d), filter_In, in_seq. tauto.
Qed.

Section ExactFilter.
  Variable A : Type.
  Variables inert P : A -> bool.
  (* the predicate is false on inert rows *)
  Hypothesis P_inert : forall x, inert x = true -> P x = false.

  Let N := fun x => negb (inert x).

  (* rows carrying labels: what satisfies P is untouched by the inert rows *)
  Lemma filter_inert_invariant : forall l,
    filter P l = filter P (filter N l).
  Proof.
    induction l as [|x t IH]; [reflexivity|].
    assert (HN : N x = negb (inert x)) by reflexivity.
    cbn [filter]. rewrite HN. destruct (inert x) eqn:E; cbn [negb].
    - rewrite (P_inert x E). exact IH.
    - cbn [filter]. destruct (P x); rewrite IH; reflexivity.
  Qed.

  (* row numbers: the answer on the long list is the renumbered answer on the
     list without the inert rows *)
  Lemma positions_from_renumber : forall l k,
    positions_from P k l =
    map (fun i => nth i (positions_from N k l) 0) (positions_from P 0 (filter N l)).
  Proof.
    induction l as [|x t IH]; intros k; [reflexivity|].
    assert (HN : N x = negb (inert x)) by reflexivity.
    cbn [positions_from filter]. rewrite HN. destruct (inert x) eqn:E; cbn [negb].
    - rewrite (P_inert x E). apply IH.
    - cbn [positions_from].
      rewrite (positions_from_shift A P (filter N t) 0).
      destruct (P x); cbn [map nth]; rewrite map_map; cbn [nth];
        rewrite <- IH; reflexivity.
  Qed.

  Lemma positions_renumber : forall l,
    positions P l = map (renumber (map inert l)) (positions P (filter N l)).
  Proof.
    intros l. unfold positions, renumber. rewrite kept_positions_map.
    apply positions_from_renumber.
  Qed.

  (* no inert row among the selected ones *)
  Lemma positions_not_inert : forall l i d,
    In i (positions P l) -> i < length l /\ inert (nth i l d) = false.
  Proof.
    intros l i d H. unfold positions in H.
    apply (in_positions_from A P l 0 i d) in H. destruct H as [[_ Hi] HP].
    rewrite Nat.sub_0_r in HP. split; [lia|].
    destruct (inert (nth i l d)) eqn:E; [|reflexivity].
    rewrite (P_inert _ E) in HP. discriminate HP.
  Qed.

  (* relational form: [res'] and [res] are the answers on the long and the short
     list (used when exactness holds under side conditions on the list) *)
  Theorem exact_answers_inert_invariant : forall l l' res res',
    insert_inert inert l l' ->
    Permutation res' (positions P l') -> Permutation res (positions P l) ->
    Permutation res' (map (renumber (map inert l')) res) /\
    (forall i d, In i res' -> i < length l' /\ inert (nth i l' d) = false).
  Proof.
    intros l l' res res' Hins H' H. unfold insert_inert in Hins. subst l. split.
    - eapply Permutation_trans; [exact H'|].
      rewrite positions_renumber. apply Permutation_map, Permutation_sym, H.
    - intros i d Hi. apply positions_not_inert.
      eapply Permutation_in; [exact H' | exact Hi].
  Qed.

  (* ---- the generic lemma: an operation that returns *exactly* the rows
     satisfying a predicate that is false on inert rows is unaffected by them *)
  Theorem exact_filter_inert_invariant : forall (sel : list A -> list nat),
    selects_exactly sel P ->
    forall l l', insert_inert inert l l' ->
      Permutation (sel l') (map (renumber (map inert l')) (sel l)) /\
      (forall i d, In i (sel l') -> i < length l' /\ inert (nth i l' d) = false).
  Proof.
    intros sel Hex l l' Hins. unfold insert_inert in Hins. subst l. split.
    - eapply Permutation_trans; [apply Hex|].
      rewrite positions_renumber. apply Permutation_map, Permutation_sym, Hex.
    - intros i d Hi. apply positions_not_inert.
      eapply Permutation_in; [apply Hex | exact Hi].
  Qed.

  Theorem exact_labels_inert_invariant : forall L (sel : list (L * A) -> list L),
    selects_labels_exactly sel P ->
    forall l l', insert_inert (fun r => inert (snd r)) l l' ->
      Permutation (sel l') (sel l).
  Proof.
    intros L sel Hex l l' Hins. unfold insert_inert in Hins. subst l.
    eapply Permutation_trans; [apply Hex|].
    eapply Permutation_trans; [|apply Permutation_sym, Hex].
    assert (E : forall l0 : list (L * A),
               filter (fun r => P (snd r)) l0 =
               filter (fun r => P (snd r)) (filter (fun r => negb (inert (snd r))) l0)).
    { induction l0 as [|x t IH]; [reflexivity|].
      cbn [filter]. destruct (inert (snd x)) eqn:E; cbn [negb].
      - rewrite (P_inert _ E). exact IH.
      - cbn [filter]. destruct (P (snd x)); rewrite IH; reflexivity. }
    rewrite <- E. apply Permutation_refl.
  Qed.
End ExactFilter.

(* per-row operations: the rows of the other elements are the rows of the short
   list, the inert rows answer [f] of an inert element *)
Lemma rowwise_inert_invariant : forall A B (inert : A -> bool) (op : list A -> list B) f,
  rowwise op f -> forall l l', insert_inert inert l l' ->
  keep (map inert l') (op l') = op l.
Proof.
  intros A B inert op f Hr l l' Hins. unfold insert_inert in Hins. subst l.
  rewrite !Hr. induction l' as [|x t IH]; [reflexivity|].
  cbn [map filter]. destruct (inert x); cbn [negb].
  - rewrite keep_cons_true. exact IH.
  - rewrite keep_cons_false. cbn [map]. rewrite IH. reflexivity.
Qed.

(* ================================================================== *)
(** * 2. the kernel on coordinates that are all non-finite               *)
(* ================================================================== *)

Lemma tbi_loop_nonfinite : forall vs, forallb nonfinite vs = true ->
  forall a b c d, tbi_loop vs a b c d = (a, b, c, d).
Proof.
  induction vs as [| x | x y t IH] using pairs_ind2; intros H a b c d; try reflexivity.
  cbn [forallb] in H. apply andb_true_iff in H. destruct H as [Hx H].
  apply andb_true_iff in H. destruct H as [Hy H].
  destruct x; [discriminate Hx|]. destruct y; [discriminate Hy|].
  cbn [tbi_loop]. apply IH. exact H.
Qed.

Lemma tbi_nonfinite : forall vs, forallb nonfinite vs = true ->
  total_bounds_interleaved vs = nanbox.
Proof.
  intros vs H. unfold total_bounds_interleaved.
  rewrite (tbi_loop_nonfinite vs H). reflexivity.
Qed.

Lemma tbi_loop_app : forall l1 l2 a b c d,
  Nat.even (length l1) = true ->
  tbi_loop (l1 ++ l2) a b c d =
  let '(a', b', c', d') := tbi_loop l1 a b c d in tbi_loop l2 a' b' c' d'.
Proof.
  induction l1 as [| x | x y t IH] using pairs_ind2; intros l2 a b c d H.
  - reflexivity.
  - discriminate H.
  - cbn [app tbi_loop].
    destruct x as [vx|], y as [vy|]; apply IH; exact H.
Qed.

(* ================================================================== *)
(** * 3. bounds rows of inert elements                                   *)
(* ================================================================== *)

Lemma decode_flat_nth : forall a i, i < la_len a ->
  nth i (decode_flat a) None =
  if isna_at (la_valid a) (la_off a) i then None else Some (elem_flat a i).
Proof. intros a i Hi. unfold decode_flat. apply nth_map_seq. exact Hi. Qed.

Lemma decode_flat_length : forall a, length (decode_flat a) = la_len a.
Proof. intros a. unfold decode_flat. rewrite map_length, seq_length. reflexivity. Qed.

(* item (a), list arrays: the bounds row of an inert element is NaN x 4 *)
Lemma la_inert_row_nan : forall a i,
  wf_listarr a = true -> nulls_empty a = true -> i < la_len a ->
  inert_flat (nth i (decode_flat a) None) = true ->
  nth i (la_bounds a) nanbox = nanbox.
Proof.
  intros a i Hwf Hn Hi Hin. rewrite decode_flat_nth in Hin by exact Hi.
  destruct (isna_at (la_valid a) (la_off a) i) eqn:E.
  - apply la_missing_row_nan; assumption.
  - rewrite la_bounds_nth by assumption. apply tbi_nonfinite. exact Hin.
Qed.

(* the non-missing case needs no [nulls_empty] *)
Lemma la_empty_row_nan : forall a i,
  wf_listarr a = true -> i < la_len a ->
  forallb nonfinite (elem_flat a i) = true ->
  nth i (la_bounds a) nanbox = nanbox.
Proof.
  intros a i Hwf Hi H. rewrite la_bounds_nth by assumption. apply tbi_nonfinite, H.
Qed.

Lemma fa_decode_length : forall a, length (fa_decode a) = fa_len a.
Proof. intros a. unfold fa_decode. rewrite map_length, seq_length. reflexivity. Qed.

Lemma inert_pt_coords : forall p, inert_pt p = true ->
  total_bounds_interleaved (point_coords p) = nanbox.
Proof.
  intros [[x y]|] H; [|reflexivity].
  cbn in H. apply andb_true_iff in H. destruct H as [Hx Hy].
  destruct x; [discriminate|]. destruct y; [discriminate|]. reflexivity.
Qed.

Lemma nth_map_lt : forall A B (f : A -> B) l i d d',
  i < length l -> nth i (map f l) d = f (nth i l d').
Proof.
  intros A B f l. induction l as [|x t IH]; intros i d d' Hi; [cbn in Hi; lia|].
  destruct i as [|i]; [reflexivity|]. cbn [map nth]. apply IH. cbn in Hi. lia.
Qed.

(* item (a), point arrays *)
Lemma fa_inert_row_nan : forall a i,
  wf_fixarr a = true -> i < fa_len a ->
  inert_pt (nth i (fa_decode a) None) = true ->
  nth i (fa_bounds a) nanbox = nanbox.
Proof.
  intros a i Hwf Hi Hin. rewrite fa_bounds_rows by exact Hwf.
  rewrite (nth_map_lt _ _ _ _ i nanbox None) by (rewrite fa_decode_length; exact Hi).
  apply inert_pt_coords. exact Hin.
Qed.

(* ================================================================== *)
(** * 4. total_bounds ignores inert elements                             *)
(* ================================================================== *)

Lemma coords_of_cons : forall o l,
  coords_of (o :: l) = (match o with Some vs => vs | None => [] end) ++ coords_of l.
Proof. reflexivity. Qed.

Lemma tbi_loop_ignores_inert : forall l, all_even l ->
  forall a b c d,
  tbi_loop (coords_of l) a b c d =
  tbi_loop (coords_of (filter (fun x => negb (inert_flat x)) l)) a b c d.
Proof.
  induction l as [|o t IH]; intros He a b c d; [reflexivity|].
  inversion He as [|? ? Ho He']; subst.
  cbn [filter]. destruct o as [vs|].
  - cbn [inert_flat]. destruct (forallb nonfinite vs) eqn:E; cbn [negb].
    + rewrite coords_of_cons, tbi_loop_app by exact Ho.
      rewrite (tbi_loop_nonfinite vs E). apply IH. exact He'.
    + rewrite !coords_of_cons, !tbi_loop_app by exact Ho.
      destruct (tbi_loop vs a b c d) as [[[a' b'] c'] d']. apply IH. exact He'.
  - cbn [inert_flat negb]. rewrite coords_of_cons. cbn [app]. apply IH. exact He'.
Qed.

(* element-list level *)
Lemma total_of_ignores_inert : forall l l',
  all_even l' -> insert_inert inert_flat l l' -> total_of l' = total_of l.
Proof.
  intros l l' He Hins. unfold insert_inert in Hins. subst l.
  unfold total_of, total_bounds_interleaved.
  rewrite (tbi_loop_ignores_inert l' He). reflexivity.
Qed.

Lemma decode_flat_all_even : forall a,
  wf_listarr a = true -> even_outer a = true -> all_even (decode_flat a).
Proof.
  intros a Hwf He. unfold all_even, decode_flat. apply Forall_forall.
  intros o Ho. apply in_map_iff in Ho. destruct Ho as (i & <- & Hi).
  apply in_seq in Hi.
  destruct (isna_at (la_valid a) (la_off a) i); [exact I|].
  apply elem_flat_even; [exact Hwf | exact He | lia].
Qed.

(* buffer level: total_bounds of any representation is the total over the
   non-inert elements it represents *)
Lemma la_total_of_represents : forall a l,
  la_represents a l -> la_total_bounds a = total_of l.
Proof.
  intros a l (Hwf & Hn & He & Hins). unfold la_total_bounds.
  rewrite flat_values_valid_coords by assumption.
  change (total_bounds_interleaved (la_valid_coords a)) with (total_of (decode_flat a)).
  apply total_of_ignores_inert; [apply decode_flat_all_even; assumption | exact Hins].
Qed.

(* item (a): total_bounds is unchanged by inserting inert elements, whatever the
   two representations are *)
Lemma la_total_ignores_inert : forall a a' l,
  la_represents a l -> la_represents a' l -> la_total_bounds a' = la_total_bounds a.
Proof.
  intros a a' l H H'.
  rewrite (la_total_of_represents a l H), (la_total_of_represents a' l H'). reflexivity.
Qed.

(* points: through the same lemma *)
Definition pt_as_flat (p : option (num * num)) : option (list num) :=
  match p with Some (x, y) => Some [x; y] | None => None end.

Lemma pt_coords_as_flat : forall l, pt_coords_of l = coords_of (map pt_as_flat l).
Proof.
  induction l as [|p t IH]; [reflexivity|].
  unfold pt_coords_of, coords_of in *. cbn [map concat]. rewrite IH.
  destruct p as [[x y]|]; reflexivity.
Qed.

Lemma inert_pt_as_flat : forall p, inert_flat (pt_as_flat p) = inert_pt p.
Proof.
  intros [[x y]|]; [|reflexivity]. cbn. rewrite andb_true_r. reflexivity.
Qed.

Lemma filter_map_comm : forall A B (f : A -> B) (P : B -> bool) l,
  filter P (map f l) = map f (filter (fun x => P (f x)) l).
Proof.
  intros A B f P l. induction l as [|x t IH]; [reflexivity|].
  cbn [map filter]. destruct (P (f x)); cbn [map]; rewrite IH; reflexivity.
Qed.

Lemma pt_total_of_ignores_inert : forall l l',
  insert_inert inert_pt l l' -> pt_total_of l' = pt_total_of l.
Proof.
  intros l l' Hins. unfold insert_inert in Hins. subst l.
  unfold pt_total_of. rewrite !pt_coords_as_flat.
  change (total_bounds_interleaved (coords_of (map pt_as_flat l')))
    with (total_of (map pt_as_flat l')).
  change (total_bounds_interleaved
            (coords_of (map pt_as_flat (filter (fun x => negb (inert_pt x)) l'))))
    with (total_of (map pt_as_flat (filter (fun x => negb (inert_pt x)) l'))).
  apply total_of_ignores_inert.
  - unfold all_even. apply Forall_forall. intros o Ho. apply in_map_iff in Ho.
    destruct Ho as ([[x y]|] & <- & _); [reflexivity | exact I].
  - unfold insert_inert. rewrite filter_map_comm. f_equal.
    apply filter_ext. intros p. rewrite inert_pt_as_flat. reflexivity.
Qed.

Lemma fa_total_of_represents : forall a l,
  fa_represents a l -> fa_total_bounds a = pt_total_of l.
Proof.
  intros a l (Hwf & Hins). unfold fa_total_bounds.
  rewrite fa_valid_flat_coords by exact Hwf.
  change (total_bounds_interleaved (fa_valid_coords a)) with (pt_total_of (fa_decode a)).
  apply pt_total_of_ignores_inert. exact Hins.
Qed.

Lemma fa_total_ignores_inert : forall a a' l,
  fa_represents a l -> fa_represents a' l -> fa_total_bounds a' = fa_total_bounds a.
Proof.
  intros a a' l H H'.
  rewrite (fa_total_of_represents a l H), (fa_total_of_represents a' l H'). reflexivity.
Qed.

(* a missing element spans no coordinates (what pyarrow's builders, slice, take and
   concat produce; asserted on every real array by the C13 / C17 runs) *)
Lemma missing_spans_nothing : forall a i,
  nulls_empty a = true -> i < la_len a ->
  isna_at (la_valid a) (la_off a) i = true ->
  getn (buffer_outer_offsets a) i = getn (buffer_outer_offsets a) (S i).
Proof.
  intros a i Hn Hi Hna. unfold nulls_empty in Hn. rewrite forallb_forall in Hn.
  specialize (Hn i). rewrite in_seq in Hn. specialize (Hn ltac:(lia)).
  rewrite Hna in Hn. cbn [negb orb] in Hn. apply Nat.eqb_eq in Hn. exact Hn.
Qed.

(* an element whose decoded coordinate list is empty spans no coordinates *)
Lemma empty_spans_nothing : forall a i,
  wf_listarr a = true -> i < la_len a -> elem_flat a i = [] ->
  getn (buffer_outer_offsets a) i = getn (buffer_outer_offsets a) (S i).
Proof.
  intros a i Hwf Hi He. destruct (wf_outer a Hwf) as (L & M & B & _).
  set (oo := buffer_outer_offsets a) in *.
  assert (H1 : getn oo i <= getn oo (S i))
    by (unfold getn; apply mono_nth; [exact M | lia | lia]).
  assert (H2 : getn oo (S i) <= length (la_vals a)).
  { pose proof (mono_le_last oo (getn oo (S i)) M) as H.
    specialize (H ltac:(unfold getn; apply nth_In; lia)). lia. }
  unfold elem_flat in He. fold oo in He.
  assert (HL : length (slice (getn oo i) (getn oo (S i)) (buffer_values a)) = 0)
    by (rewrite He; reflexivity).
  rewrite slice_length in HL by exact H2. lia.
Qed.

Lemma la_guards_spec : forall a, la_guards a = nulls_empty a && even_outer a.
Proof. reflexivity. Qed.
