(* Representation independence at the level C11 needs: two well-formed buffer
   representations (e.g. the array written and the array read back: other
   offsets, other padding, other placeholder bytes in null slots) that decode to
   the same elements are the same geometry array for everything the library
   derives from them through the kernels modelled so far (length, missing mask,
   per-element bounds, total bounds). *)
From Coq Require Import ZArith List Bool Arith Lia.
From SP Require Import Model.Num Model.Arrow Model.Bounds Spec.BoundsSpec Proofs.BoundsProofs.
Import ListNotations.
Local Open Scope nat_scope.

Definition coords_of (o : option (list num)) : list num :=
  match o with Some vs => vs | None => [] end.

Lemma decode_length : forall a, length (decode_flat a) = la_len a.
Proof. intros a. unfold decode_flat. now rewrite map_length, seq_length. Qed.

Lemma slice_same : forall {A} n (l : list A), slice n n l = [].
Proof. intros. unfold slice. now rewrite Nat.sub_diag. Qed.

Lemma elem_of_decode : forall a i,
  nulls_empty a = true -> i < la_len a ->
  elem_flat a i = coords_of (nth i (decode_flat a) None).
Proof.
  intros a i Hn Hi. unfold decode_flat.
  rewrite (nth_indep _ None ((fun i => if isna_at (la_valid a) (la_off a) i then None
                                       else Some (elem_flat a i)) 0))
    by (now rewrite map_length, seq_length).
  rewrite (map_nth (fun i => if isna_at (la_valid a) (la_off a) i then None
                             else Some (elem_flat a i))), seq_nth by assumption.
  cbn [Nat.add]. destruct (isna_at (la_valid a) (la_off a) i) eqn:E; [|reflexivity].
  unfold nulls_empty in Hn. rewrite forallb_forall in Hn.
  specialize (Hn i). rewrite E in Hn. cbn in Hn.
  assert (Hin : In i (seq 0 (la_len a))) by (apply in_seq; lia).
  apply Hn, Nat.eqb_eq in Hin. unfold elem_flat. rewrite Hin. apply slice_same.
Qed.

Lemma bounds_of_decode : forall a,
  wf_listarr a = true -> nulls_empty a = true ->
  la_bounds a = map (fun o => total_bounds_interleaved (coords_of o)) (decode_flat a).
Proof.
  intros a Hw Hn. rewrite (la_bounds_rows a Hw).
  apply nth_ext with (d := nanbox) (d' := nanbox).
  - now rewrite !map_length, seq_length, decode_length.
  - intros i Hi. rewrite map_length, seq_length in Hi.
    rewrite (nth_indep _ nanbox ((fun i => total_bounds_interleaved (elem_flat a i)) 0))
      by (now rewrite map_length, seq_length).
    rewrite (map_nth (fun i => total_bounds_interleaved (elem_flat a i))), seq_nth by assumption.
    rewrite (nth_indep _ nanbox ((fun o => total_bounds_interleaved (coords_of o)) None))
      by (now rewrite map_length, decode_length).
    rewrite (map_nth (fun o => total_bounds_interleaved (coords_of o))).
    cbn [Nat.add]. now rewrite elem_of_decode.
Qed.

Lemma isna_of_decode : forall a,
  la_isna a = map (fun o => match o with None => true | Some _ => false end) (decode_flat a).
Proof.
  intros a. unfold la_isna, decode_flat. rewrite map_map. apply map_ext.
  intros i. destruct (isna_at (la_valid a) (la_off a) i); reflexivity.
Qed.

Theorem same_decode_equal : forall a b,
  wf_listarr a = true -> wf_listarr b = true ->
  nulls_empty a = true -> nulls_empty b = true ->
  decode_flat a = decode_flat b ->
  la_len a = la_len b /\ la_isna a = la_isna b /\
  la_bounds a = la_bounds b /\ la_total_bounds a = la_total_bounds b /\
  la_total_bounds_x a = la_total_bounds_x b /\ la_total_bounds_y a = la_total_bounds_y b.
Proof.
  intros a b Wa Wb Na Nb E.
  assert (Hf : flat_values a = flat_values b).
  { rewrite (flat_values_valid_coords a Wa Na), (flat_values_valid_coords b Wb Nb).
    unfold la_valid_coords. now rewrite E. }
  split; [now rewrite <- (decode_length a), <- (decode_length b), E|].
  split; [now rewrite !isna_of_decode, E|].
  split; [now rewrite (bounds_of_decode a Wa Na), (bounds_of_decode b Wb Nb), E|].
  unfold la_total_bounds, la_total_bounds_x, la_total_bounds_y. now rewrite Hf.
Qed.

(* point arrays: the decode determines length, missing mask, bounds *)
Lemma fa_decode_length : forall a, length (fa_decode a) = fa_len a.
Proof. intros a. unfold fa_decode. now rewrite map_length, seq_length. Qed.

Lemma fa_isna_of_decode : forall a,
  fa_isna a = map (fun o => match o with None => true | Some _ => false end) (fa_decode a).
Proof.
  intros a. unfold fa_isna, fa_decode. rewrite map_map. apply map_ext.
  intros i. destruct (isna_at (fa_valid a) (fa_off a) i); reflexivity.
Qed.

Theorem fa_same_decode_equal : forall a b,
  wf_fixarr a = true -> wf_fixarr b = true ->
  fa_decode a = fa_decode b ->
  fa_len a = fa_len b /\ fa_isna a = fa_isna b /\ fa_bounds a = fa_bounds b.
Proof.
  intros a b Wa Wb E.
  split; [now rewrite <- (fa_decode_length a), <- (fa_decode_length b), E|].
  split; [now rewrite !fa_isna_of_decode, E|].
  now rewrite (fa_bounds_rows a Wa), (fa_bounds_rows b Wb), E.
Qed.
