(* C18, round 4: lemmas about Model/SchedBuffers.v *)
From Coq Require Import List Bool Arith.
From Coq Require Import PrimFloat.
From SP Require Import Model.Sched Model.SchedBuffers.
Import ListNotations.

Lemma fill_repeat : forall (V : Type) (v : V) r, fill v r = repeat v (length r).
Proof. induction r as [|x t IH]; simpl; [reflexivity | now rewrite <- IH]. Qed.

Lemma fill_same_length : forall (V : Type) (v : V) r1 r2,
  length r1 = length r2 -> fill v r1 = fill v r2.
Proof. intros V v r1 r2 Hl. rewrite !fill_repeat. now rewrite Hl. Qed.

(* the kernels of the repository: the result is a function of the inputs and of the LENGTH of
   the buffer only, whatever the buffer held *)
Lemma bounds_kernel_ignores_buffer : forall (V : Type) (clear : V) degenerate stores g1 g2,
  length g1 = length g2 ->
  bounds_kernel clear degenerate stores g1 = bounds_kernel clear degenerate stores g2.
Proof.
  intros V clear degenerate stores g1 g2 Hl. unfold bounds_kernel.
  now rewrite (fill_same_length V clear g1 g2 Hl).
Qed.

Lemma measure_wrapper_ignores_buffer : forall (V : Type) (nan : V) missing fn g1 g2,
  length g1 = length g2 ->
  measure_wrapper nan missing fn g1 = measure_wrapper nan missing fn g2.
Proof.
  intros V nan missing fn g1 g2 Hl. unfold measure_wrapper.
  now rewrite (fill_same_length V nan g1 g2 Hl).
Qed.

(* the early return before the clearing: two buffers of the same length, two answers *)
Lemma late_clear_depends_on_buffer :
  exists (stores : list (nat * bool)) g1 g2, length g1 = length g2 /\
    bounds_kernel_late_clear false true stores g1 <> bounds_kernel_late_clear false true stores g2.
Proof. exists [], [true; true], [false; false]. split; [reflexivity | discriminate]. Qed.

(* np.empty under the map kernel: the row of a missing element is whatever the block held *)
Lemma empty_measure_depends_on_buffer :
  exists (missing : list bool) (fn : nat -> nat) g1 g2, length g1 = length g2 /\
    measure_wrapper_empty missing fn g1 <> measure_wrapper_empty missing fn g2.
Proof.
  exists [false; true], (fun i => 7 + i), [0; 0], [1; 1]. split; [reflexivity | ].
  vm_compute. discriminate.
Qed.

(* binary64 addition is not associative: 0.1, 0.2, 0.3 summed by one thread and by two *)
Definition c01 : float := 0x1.999999999999ap-4%float.
Definition c02 : float := 0x1.999999999999ap-3%float.
Definition c03 : float := 0x1.3333333333333p-2%float.

Lemma chunking_matters :
  exists chunks1 chunks2 : list (list float),
    concat chunks1 = concat chunks2 /\ chunked_sum chunks1 <> chunked_sum chunks2.
Proof.
  exists [[c01; c02; c03]], [[c01]; [c02; c03]]. split; [reflexivity | ].
  intro H.
  assert (E : (chunked_sum [[c01; c02; c03]] =? chunked_sum [[c01]; [c02; c03]])%float = false)
    by (vm_compute; reflexivity).
  rewrite H in E. vm_compute in E. discriminate.
Qed.
