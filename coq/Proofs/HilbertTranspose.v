(* _hilbert_integer_to_transpose and _transpose_to_hilbert_integer (bit
   de-interleave / interleave) are inverse to each other. *)
From Coq Require Import NArith NArithRing List Bool Arith Lia.
From SP Require Import Model.Hilbert Proofs.HilbertLists.
Import ListNotations.
Local Open Scope N_scope.

Definition isbit (x : N) : Prop := x < 2.

(* ---- binary digits, least significant first ----------------------------- *)
Fixpoint bitsL (v : N) (k : nat) : list N :=
  match k with O => [] | S k' => (v mod 2) :: bitsL (N.shiftr v 1) k' end.
Fixpoint valL (l : list N) : N :=
  match l with [] => 0 | x :: t => x + 2 * valL t end.

Lemma bitsL_length : forall k v, length (bitsL v k) = k.
Proof. induction k; intros; simpl; auto. Qed.

Lemma bitsL_isbit : forall k v, Forall isbit (bitsL v k).
Proof.
  induction k as [|k IH]; intros; simpl; constructor; auto.
  unfold isbit. apply N.mod_lt. lia.
Qed.

Lemma int_2_binary_loop_eq : forall k v acc, int_2_binary_loop k v acc = rev (bitsL v k) ++ acc.
Proof.
  induction k as [|k IH]; intros; simpl; auto.
  rewrite IH, <- app_assoc. reflexivity.
Qed.

Lemma int_2_binary_eq : forall v w, int_2_binary v w = rev (bitsL v w).
Proof. intros. unfold int_2_binary. now rewrite int_2_binary_loop_eq, app_nil_r. Qed.

Lemma b2i_fold : forall l res nv,
    fold_left binary_2_int_step l (res, nv) = (res + nv * valL l, nv * 2 ^ N.of_nat (length l)).
Proof.
  induction l as [|x t IH]; intros res nv.
  - simpl. f_equal; lia.
  - cbn [fold_left binary_2_int_step valL length]. rewrite IH, N.shiftl_mul_pow2, N.pow_1_r.
    rewrite Nat2N.inj_succ, N.pow_succ_r'. f_equal; lia.
Qed.

Lemma binary_2_int_eq : forall bin, binary_2_int bin = valL (rev bin).
Proof. intros. unfold binary_2_int. rewrite b2i_fold. cbn [fst]. lia. Qed.

Lemma valL_bitsL : forall k v, valL (bitsL v k) = v mod 2 ^ N.of_nat k.
Proof.
  induction k as [|k IH]; intros v.
  - simpl. now rewrite N.mod_1_r.
  - cbn [bitsL valL]. rewrite IH, Nat2N.inj_succ, N.pow_succ_r'.
    rewrite N.mod_mul_r by (try apply N.pow_nonzero; lia).
    now rewrite N.shiftr_div_pow2, N.pow_1_r.
Qed.

Lemma bitsL_valL : forall l, Forall isbit l -> bitsL (valL l) (length l) = l.
Proof.
  induction l as [|x t IH]; intros H; [reflexivity|]. inversion H as [|? ? Hx Ht]; subst.
  unfold isbit in Hx. cbn [length bitsL valL]. f_equal.
  - replace (x + 2 * valL t) with (x + valL t * 2) by lia.
    rewrite N.mod_add by lia. now apply N.mod_small.
  - rewrite N.shiftr_div_pow2, N.pow_1_r.
    replace (x + 2 * valL t) with (x + valL t * 2) by lia.
    rewrite N.div_add by lia.
    rewrite (N.div_small x 2) by assumption. rewrite N.add_0_l. now apply IH.
Qed.

Lemma valL_lt : forall l, Forall isbit l -> valL l < 2 ^ N.of_nat (length l).
Proof.
  induction l as [|x t IH]; intros H; [simpl; lia|]. inversion H as [|? ? Hx Ht]; subst.
  unfold isbit in Hx. cbn [length valL]. rewrite Nat2N.inj_succ, N.pow_succ_r'.
  specialize (IH Ht). lia.
Qed.

(* i2b (b2i S) (length S) = S for a list of bits *)
Lemma i2b_b2i : forall S, Forall isbit S -> int_2_binary (binary_2_int S) (length S) = S.
Proof.
  intros S HS. rewrite int_2_binary_eq, binary_2_int_eq.
  rewrite <- (rev_length S), bitsL_valL by (now apply Forall_rev). apply rev_involutive.
Qed.

Lemma b2i_i2b : forall v p, binary_2_int (int_2_binary v p) = v mod 2 ^ N.of_nat p.
Proof.
  intros. now rewrite int_2_binary_eq, binary_2_int_eq, rev_involutive, valL_bitsL.
Qed.

Lemma i2b_length : forall v w, length (int_2_binary v w) = w.
Proof. intros. now rewrite int_2_binary_eq, rev_length, bitsL_length. Qed.

Lemma i2b_isbit : forall v w, Forall isbit (int_2_binary v w).
Proof. intros. rewrite int_2_binary_eq. apply Forall_rev, bitsL_isbit. Qed.

(* ---- strided slices ------------------------------------------------------ *)
Lemma nth_skipn' : forall {A} k (l : list A) i d, nth i (skipn k l) d = nth (k + i) l d.
Proof.
  induction k as [|k IH]; intros l i d; [reflexivity|].
  destruct l as [|x l]; simpl; [now destruct i|apply IH].
Qed.

Lemma strided_from_nil : forall {A} f step, @strided_from A f step [] = [].
Proof. now destruct f. Qed.

Lemma nth_nil' : forall {A} k (d : A), nth k [] d = d.
Proof. now destruct k. Qed.

Lemma strided_from_nth : forall {A} fuel step (l : list A) k d,
    (1 <= step)%nat -> (length l <= fuel)%nat ->
    nth k (strided_from fuel step l) d = nth (k * step) l d.
Proof.
  induction fuel as [|f IH]; intros step l k d Hs Hl.
  - destruct l; [|simpl in Hl; lia]. now rewrite strided_from_nil, !nth_nil'.
  - destruct l as [|x l'].
    + now rewrite strided_from_nil, !nth_nil'.
    + cbn [strided_from]. destruct k as [|k']; [reflexivity|].
      change (nth (S k') (x :: strided_from f step (skipn step (x :: l'))) d)
        with (nth k' (strided_from f step (skipn step (x :: l'))) d).
      rewrite IH; [|assumption|].
      * rewrite nth_skipn'. f_equal; lia.
      * rewrite skipn_length. cbn [length] in *. lia.
Qed.

Lemma strided_from_length : forall {A} q fuel step (l : list A) r,
    (1 <= step)%nat -> (length l <= fuel)%nat -> (length l = q * step + r)%nat ->
    (1 <= r <= step)%nat -> length (strided_from fuel step l) = S q.
Proof.
  induction q as [|q IH]; intros fuel step l r Hs Hf Hl Hr.
  - destruct l as [|x l']; [simpl in Hl; lia|]. destruct fuel as [|f]; [simpl in Hf; lia|].
    cbn [strided_from]. rewrite skipn_all2 by lia. now rewrite strided_from_nil.
  - destruct l as [|x l']; [simpl in Hl; lia|]. destruct fuel as [|f]; [simpl in Hf; lia|].
    cbn [strided_from length]. f_equal. apply (IH f step _ r); try assumption.
    + rewrite skipn_length. cbn [length] in *. lia.
    + rewrite skipn_length. lia.
Qed.

Lemma strided_nth : forall {A} i n (l : list A) k d,
    (1 <= n)%nat -> nth k (strided i n l) d = nth (i + k * n) l d.
Proof.
  intros. unfold strided. rewrite strided_from_nth; [|assumption|].
  - apply nth_skipn'.
  - rewrite skipn_length. lia.
Qed.

Lemma strided_length : forall {A} i n p (l : list A),
    (1 <= p)%nat -> (i < n)%nat -> length l = (p * n)%nat -> length (strided i n l) = p.
Proof.
  intros A i n p l Hp Hi Hl. unfold strided.
  destruct p as [|q]; [lia|].
  apply (strided_from_length q _ _ _ (n - i)); try lia.
  - rewrite skipn_length. lia.
  - rewrite skipn_length, Hl. lia.
Qed.

(* ---- reading a matrix out row by row ------------------------------------ *)
Lemma flat_map_rows_length : forall (g : nat -> list N) n p a,
    (forall k, length (g k) = n) -> length (flat_map g (seq a p)) = (p * n)%nat.
Proof.
  induction p as [|p IH]; intros a Hg; [reflexivity|].
  cbn [seq flat_map]. rewrite app_length, Hg, IH by assumption. lia.
Qed.

Lemma flat_map_rows_nth : forall (g : nat -> list N) n p a i j d,
    (forall k, length (g k) = n) -> (i < p)%nat -> (j < n)%nat ->
    nth (i * n + j) (flat_map g (seq a p)) d = nth j (g (a + i)%nat) d.
Proof.
  induction p as [|p IH]; intros a i j d Hg Hi Hj; [lia|].
  cbn [seq flat_map]. destruct i as [|i].
  - rewrite app_nth1 by (rewrite Hg; lia). simpl. now rewrite Nat.add_0_r.
  - rewrite app_nth2 by (rewrite Hg; simpl; lia). rewrite Hg.
    replace (S i * n + j - n)%nat with (i * n + j)%nat by (simpl; lia).
    rewrite IH by (try assumption; lia). f_equal. f_equal. lia.
Qed.

Lemma nth_map_seq : forall (f : nat -> N) n j d, (j < n)%nat -> nth j (map f (seq 0 n)) d = f j.
Proof.
  intros f n j d Hj.
  rewrite (nth_indep _ _ (f 0%nat)) by (now rewrite map_length, seq_length).
  rewrite map_nth, seq_nth by assumption. reflexivity.
Qed.

Lemma map_nth_seq_id : forall (c : list N) n, length c = n -> map (fun i => nth i c 0) (seq 0 n) = c.
Proof.
  intros c n Hn. apply (nth_ext _ _ 0 0).
  - now rewrite map_length, seq_length.
  - intros i Hi. rewrite map_length, seq_length in Hi. now rewrite nth_map_seq.
Qed.

(* ---- the two round trips ------------------------------------------------- *)
Theorem transpose_roundtrip_d : forall p n h, (1 <= p)%nat -> (1 <= n)%nat ->
    h < 2 ^ N.of_nat (n * p) ->
    transpose_to_hilbert_integer p (hilbert_integer_to_transpose p h n) = h.
Proof.
  intros p n h Hp Hn Hh.
  unfold transpose_to_hilbert_integer, hilbert_integer_to_transpose. cbv zeta.
  set (B := int_2_binary h (p * n)).
  assert (HBl : length B = (p * n)%nat) by apply i2b_length.
  assert (HBb : Forall isbit B) by apply i2b_isbit.
  rewrite map_map.
  (* the bins are the strided slices themselves *)
  assert (Hbins : map (fun i => int_2_binary (binary_2_int (strided i n B)) p) (seq 0 n)
                  = map (fun i => strided i n B) (seq 0 n)).
  { apply map_ext_in. intros i Hi. apply in_seq in Hi.
    assert (Hl : length (strided i n B) = p) by (apply strided_length; lia).
    rewrite <- Hl at 1. apply i2b_b2i.
    apply Forall_nth. intros k d Hk. rewrite strided_nth by assumption.
    destruct (Nat.lt_ge_cases (i + k * n) (length B)) as [Hin|Hout].
    - now apply Forall_nth.
    - exfalso. rewrite Hl in Hk. rewrite HBl in Hout.
      pose proof (Nat.mul_le_mono_r (S k) p n ltac:(lia)) as Hm. cbn [Nat.mul] in Hm. lia. }
  rewrite Hbins.
  set (g := fun k : nat => map (fun b : list N => nth k b 0) (map (fun i => strided i n B) (seq 0 n))).
  assert (Hg : forall k, length (g k) = n) by (intro; unfold g; now rewrite !map_length, seq_length).
  assert (Hcat : flat_map g (seq 0 p) = B).
  { apply (nth_ext _ _ 0 0).
    - now rewrite (flat_map_rows_length g n), HBl.
    - intros m Hm. rewrite (flat_map_rows_length g n) in Hm by assumption.
      assert (Hn0 : n <> 0%nat) by lia.
      pose proof (Nat.div_mod m n Hn0) as Hdm.
      pose proof (Nat.mod_upper_bound m n Hn0) as Hj.
      assert (Hi : (m / n < p)%nat) by (apply Nat.div_lt_upper_bound; lia).
      rewrite Hdm at 1. rewrite (Nat.mul_comm n).
      rewrite (flat_map_rows_nth g n) by assumption.
      unfold g. rewrite map_map. rewrite nth_map_seq by assumption.
      rewrite strided_nth by assumption. f_equal. lia. }
  rewrite Hcat. unfold B. rewrite b2i_i2b. apply N.mod_small.
  now rewrite Nat.mul_comm.
Qed.

Theorem transpose_roundtrip_c : forall p n c, (1 <= p)%nat -> (1 <= n)%nat ->
    length c = n -> Forall (fits (N.of_nat p)) c ->
    hilbert_integer_to_transpose p (transpose_to_hilbert_integer p c) n = c.
Proof.
  intros p n c Hp Hn Hlen Hc.
  unfold transpose_to_hilbert_integer, hilbert_integer_to_transpose. cbv zeta.
  set (bins := map (fun v => int_2_binary v p) c).
  set (g := fun k : nat => map (fun b : list N => nth k b 0) bins).
  assert (Hg : forall k, length (g k) = n) by (intro; unfold g, bins; now rewrite !map_length).
  set (cat := flat_map g (seq 0 p)).
  assert (Hcl : length cat = (p * n)%nat) by (apply flat_map_rows_length; assumption).
  assert (Hbin_i : forall i, (i < n)%nat -> nth i bins [] = int_2_binary (nth i c 0) p).
  { intros i Hi. unfold bins.
    rewrite (nth_indep _ _ (int_2_binary 0 p)) by (rewrite map_length; lia).
    exact (map_nth (fun v => int_2_binary v p) c 0 i). }
  assert (Hcb : Forall isbit cat).
  { unfold cat. apply Forall_forall. intros x Hx. apply in_flat_map in Hx.
    destruct Hx as [k [_ Hx]]. unfold g in Hx. apply in_map_iff in Hx.
    destruct Hx as [b [<- Hb]]. unfold bins in Hb. apply in_map_iff in Hb.
    destruct Hb as [v [<- _]].
    destruct (Nat.lt_ge_cases k (length (int_2_binary v p))) as [Hin|Hout].
    - apply Forall_nth; [apply i2b_isbit|assumption].
    - rewrite nth_overflow by assumption. unfold isbit. lia. }
  rewrite <- Hcl, i2b_b2i by assumption.
  rewrite <- (map_nth_seq_id c n Hlen) at 1.
  apply map_ext_in. intros i Hi. apply in_seq in Hi.
  assert (Hs : strided i n cat = int_2_binary (nth i c 0) p).
  { apply (nth_ext _ _ 0 0).
    - rewrite i2b_length. apply strided_length; lia.
    - intros k Hk. rewrite (strided_length i n p) in Hk by lia.
      rewrite strided_nth by assumption.
      replace (i + k * n)%nat with (k * n + i)%nat by lia.
      unfold cat. rewrite (flat_map_rows_nth g n) by (try assumption; lia).
      unfold g. cbn [plus].
      rewrite (nth_indep _ _ ((fun b : list N => nth k b 0) []))
        by (unfold bins; rewrite !map_length; lia).
      rewrite (map_nth (fun b : list N => nth k b 0) bins [] i). now rewrite Hbin_i by lia. }
  rewrite Hs, b2i_i2b. apply N.mod_small. apply fits_lt.
  apply Forall_nth; [assumption|lia].
Qed.

(* ---- ranges -------------------------------------------------------------- *)
Lemma binary_2_int_lt : forall S, Forall isbit S -> binary_2_int S < 2 ^ N.of_nat (length S).
Proof.
  intros S HS. rewrite binary_2_int_eq, <- rev_length. apply valL_lt. now apply Forall_rev.
Qed.

Lemma h2t_length : forall p h n, length (hilbert_integer_to_transpose p h n) = n.
Proof. intros. unfold hilbert_integer_to_transpose. now rewrite map_length, seq_length. Qed.

Lemma h2t_fits : forall p h n, (1 <= p)%nat -> (1 <= n)%nat ->
    Forall (fits (N.of_nat p)) (hilbert_integer_to_transpose p h n).
Proof.
  intros p h n Hp Hn. unfold hilbert_integer_to_transpose. cbv zeta.
  apply Forall_forall. intros x Hx. apply in_map_iff in Hx. destruct Hx as [i [<- Hi]].
  apply in_seq in Hi. apply fits_lt.
  set (B := int_2_binary h (p * n)).
  assert (Hl : length (strided i n B) = p) by (apply strided_length; [lia|lia|apply i2b_length]).
  rewrite <- Hl at 1. apply binary_2_int_lt.
  apply Forall_nth. intros k d Hk. rewrite strided_nth by assumption.
  destruct (Nat.lt_ge_cases (i + k * n) (length B)) as [Hin|Hout].
  - apply Forall_nth; [apply i2b_isbit|assumption].
  - exfalso. rewrite Hl in Hk. unfold B in Hout. rewrite i2b_length in Hout.
    pose proof (Nat.mul_le_mono_r (S k) p n ltac:(lia)) as Hm. cbn [Nat.mul] in Hm. lia.
Qed.

(* any coordinate list gives a distance below 2^(np): the bit packing cannot overflow *)
Lemma t2h_lt : forall p c, transpose_to_hilbert_integer p c < 2 ^ N.of_nat (length c * p).
Proof.
  intros p c. unfold transpose_to_hilbert_integer. cbv zeta.
  set (bins := map (fun v => int_2_binary v p) c).
  set (g := fun k : nat => map (fun b : list N => nth k b 0) bins).
  assert (Hg : forall k, length (g k) = length c) by (intro; unfold g, bins; now rewrite !map_length).
  assert (Hl : length (flat_map g (seq 0 p)) = (length c * p)%nat)
    by (rewrite (flat_map_rows_length g (length c)) by assumption; lia).
  rewrite <- Hl. apply binary_2_int_lt.
  apply Forall_forall. intros x Hx. apply in_flat_map in Hx.
  destruct Hx as [k [_ Hx]]. unfold g in Hx. apply in_map_iff in Hx.
  destruct Hx as [b [<- Hb]]. unfold bins in Hb. apply in_map_iff in Hb.
  destruct Hb as [v [<- _]].
  destruct (Nat.lt_ge_cases k (length (int_2_binary v p))) as [Hin|Hout].
  - apply Forall_nth; [apply i2b_isbit|assumption].
  - rewrite nth_overflow by assumption. unfold isbit. lia.
Qed.
