(* C19: a run under faults either raises or ends exactly as the fault-free run.
   Structure:
     - [sim]: the relation between a faulty computation and the fault-free one;
     - it is preserved by ret / bind / loops, hence by [pack_proc] as soon as every wrapper
       satisfies it ([pack_proc_sim]);
     - a retried function satisfies it when one faulty ATTEMPT either returns the fault-free
       result or raises leaving a state from which the fault-free function still reaches the
       same result ([attempt_ok], [retry_sim]) -- the "idempotence" of the nine wrappers;
     - the attempts of each wrapper ([attempt_*]).
   Fault kinds covered: FRaise, FNotFound, FAfter, FPartial, FStale -- any number, anywhere
   (instance [faulty_prims false]: a lying existence check is not part of the fault model). *)
From Coq Require Import ZArith List Bool Arith Lia.
From SP Require Import Harness Model.FS Model.PackFS Model.Retry Proofs.FSProofs.
Import ListNotations.

(* ------------------------------------------------------------------ the relation *)
Definition sim {A} (mF : M fstate A) (m : M fs A) : Prop :=
  forall s a f', m (st_fs s) = OK a f' ->
    (exists s', mF s = Err s') \/ (exists s', mF s = OK a s' /\ st_fs s' = f').

Lemma sim_ret : forall A (a : A), sim (ret a) (ret a).
Proof. intros A a s b f' H. right. unfold ret in *. injection H as <- <-. eauto. Qed.

Lemma sim_fail : forall A, sim (@fail fstate A) (@fail fs A).
Proof. intros A s a f' H. discriminate. Qed.

Lemma sim_bind : forall A B (m1F : M fstate A) (m1 : M fs A) (kF : A -> M fstate B) (k : A -> M fs B),
  sim m1F m1 -> (forall a, sim (kF a) (k a)) -> sim (bind m1F kF) (bind m1 k).
Proof.
  intros A B m1F m1 kF k H1 H2 s b f' H. unfold bind in *.
  destruct (m1 (st_fs s)) as [a f1|f1] eqn:E1; [|discriminate].
  destruct (H1 s a f1 E1) as [[s' Es]|[s' [Es Ef]]].
  - left. exists s'. rewrite Es. reflexivity.
  - rewrite Es. subst f1. apply (H2 a s' b f' H).
Qed.

(* ------------------------------------------------------------------ the procedure *)
(* [pack_proc] preserves every relation between computations that is preserved by
   ret / fail / bind *)
Section Rel.
Context {S1 S2 : Type}.
Variable R : forall A, M S1 A -> M S2 A -> Prop.
Hypothesis R_ret : forall A (a : A), R A (ret a) (ret a).
Hypothesis R_fail : forall A, R A fail fail.
Hypothesis R_bind : forall A B (m1 : M S1 A) (m2 : M S2 A) (k1 : A -> M S1 B) (k2 : A -> M S2 B),
  R A m1 m2 -> (forall a, R B (k1 a) (k2 a)) -> R B (bind m1 k1) (bind m2 k2).

Lemma R_miter : forall A (f1 : A -> M S1 unit) (f2 : A -> M S2 unit) l,
  (forall x, R unit (f1 x) (f2 x)) -> R unit (miter f1 l) (miter f2 l).
Proof.
  intros A f1 f2 l H. induction l as [|x l IH]; simpl.
  - apply R_ret.
  - apply R_bind; [apply H|]. intros _. exact IH.
Qed.

Lemma R_mmap : forall A B (f1 : A -> M S1 B) (f2 : A -> M S2 B) l,
  (forall x, R B (f1 x) (f2 x)) -> R (list B) (mmap f1 l) (mmap f2 l).
Proof.
  intros A B f1 f2 l H. induction l as [|x l IH]; simpl.
  - apply R_ret.
  - apply R_bind; [apply H|]. intros y. apply R_bind; [exact IH|]. intros ys. apply R_ret.
Qed.

Definition wrappers_rel (W1 : wrappers S1) (W2 : wrappers S2) : Prop :=
  (forall p, R _ (w_rm W1 p) (w_rm W2 p)) /\
  (forall p, R _ (w_mkdirs W1 p) (w_mkdirs W2 p)) /\
  (forall p c, R _ (w_write_partition W1 p c) (w_write_partition W2 p c)) /\
  (forall t s o, R _ (w_read_parquet W1 t s o) (w_read_parquet W2 t s o)) /\
  (forall o c, R _ (w_write_concatted W1 o c) (w_write_concatted W2 o c)) /\
  (forall p1 p2, R _ (w_move W1 p1 p2) (w_move W2 p1 p2)) /\
  (forall d ps, R _ (w_write_metadata W1 d ps) (w_write_metadata W2 d ps)) /\
  (forall d ps, R _ (w_write_common W1 d ps) (w_write_common W2 d ps)) /\
  (forall d, R _ (w_final_read W1 d) (w_final_read W2 d)).

Lemma compact_rel : forall W1 W2 cfg ne j, wrappers_rel W1 W2 ->
  R _ (compact W1 cfg ne j) (compact W2 cfg ne j).
Proof.
  intros W1 W2 cfg ne. induction ne as [|[N c] ne IH]; intros j HW; simpl.
  - apply R_ret.
  - apply R_bind.
    + destruct (Nat.eqb N j); [apply R_ret|]. apply HW.
    + intros _. apply IH. exact HW.
Qed.

Lemma concat_parts_rel : forall W1 W2 tmp subs out, wrappers_rel W1 W2 ->
  R _ (concat_parts W1 tmp subs out) (concat_parts W2 tmp subs out).
Proof.
  intros W1 W2 tmp subs out HW. unfold concat_parts.
  destruct HW as (Hrm & _ & _ & Hrd & Hwc & _).
  destruct subs as [|s0 subs].
  - apply R_bind; [apply Hrm|]. intros _. apply R_bind; [apply Hrm|]. intros _. apply R_ret.
  - apply R_bind; [apply Hrd|]. intros cells.
    apply R_bind; [apply Hrm|]. intros _. apply R_bind; [apply Hrm|]. intros _.
    apply R_bind; [apply Hwc|]. intros _. apply R_ret.
Qed.

Theorem pack_proc_rel : forall W1 W2 cfg asg, wrappers_rel W1 W2 ->
  R _ (pack_proc W1 cfg asg) (pack_proc W2 cfg asg).
Proof.
  intros W1 W2 cfg asg HW. unfold pack_proc.
  pose proof HW as (Hrm & Hmk & Hwp & Hrd & Hwc & Hmv & Hmd & Hcm & Hfr).
  apply R_bind.
  { destruct (c_overwrite cfg); [apply Hrm|apply R_ret]. }
  intros _. apply R_bind.
  { apply R_miter. intro N. apply R_bind; [apply Hmk|]. intros _. apply Hmk. }
  intros _. apply R_bind.
  { apply R_miter. intro i. unfold process_partition. apply R_miter. intro N. apply Hwp. }
  intros _. apply R_bind.
  { apply R_mmap. intro N. apply R_bind; [apply concat_parts_rel; exact HW|].
    intro r. apply R_ret. }
  intros rs.
  destruct (nonempty_parts rs (seq 0 (c_k cfg))) as [|x ne] eqn:E; [apply R_fail|].
  apply R_bind; [apply compact_rel; exact HW|]. intros _.
  apply R_bind; [apply Hmd|]. intros _.
  apply R_bind; [apply Hcm|]. intros _.
  apply R_bind; [apply Hfr|]. intros _. apply R_ret.
Qed.
End Rel.

Definition wrappers_sim := wrappers_rel (@sim).

Theorem pack_proc_sim : forall WF W cfg asg, wrappers_sim WF W ->
  sim (pack_proc WF cfg asg) (pack_proc W cfg asg).
Proof.
  intros. apply (pack_proc_rel (@sim) sim_ret sim_fail sim_bind). assumption.
Qed.

(* ------------------------------------------------------------------ retry *)
Definition attempt_ok {A} (mF : M fstate A) (m : M fs A) : Prop :=
  forall s a f', m (st_fs s) = OK a f' ->
    (exists s', mF s = Err s' /\ m (st_fs s') = OK a f') \/
    (exists s', mF s = OK a s' /\ st_fs s' = f').

Lemma retry_sim : forall A (mF : M fstate A) (m : M fs A),
  attempt_ok mF m -> forall K, sim (retry K mF) m.
Proof.
  intros A mF m H K. induction K as [|K IH]; intros s a f' Hm; simpl.
  - left. eauto.
  - destruct (H s a f' Hm) as [[s' [Es Hm']]|[s' [Es Ef]]].
    + rewrite Es. apply IH. exact Hm'.
    + rewrite Es. right. eauto.
Qed.

(* read-only computations: the state is never touched; [roc]: whenever the fault-free one
   returns, the faulty one raises or returns the same value *)
Definition roc {A} (mF : M fstate A) (m : M fs A) : Prop :=
  forall s a f', m (st_fs s) = OK a f' ->
    (exists s', mF s = Err s' /\ st_fs s' = st_fs s) \/
    (exists s', mF s = OK a s' /\ st_fs s' = st_fs s /\ f' = st_fs s).

Lemma roc_ret : forall A (a : A), roc (ret a) (ret a).
Proof. intros A a s b f' H. unfold ret in *. injection H as <- <-. right. eauto. Qed.

Lemma roc_fail : forall A, roc (@fail fstate A) (@fail fs A).
Proof. intros A s a f' H. discriminate. Qed.

Lemma roc_bind : forall A B (m1F : M fstate A) (m1 : M fs A) (kF : A -> M fstate B) (k : A -> M fs B),
  roc m1F m1 -> (forall a, roc (kF a) (k a)) -> roc (bind m1F kF) (bind m1 k).
Proof.
  intros A B m1F m1 kF k H1 H2 s b f' H. unfold bind in *.
  destruct (m1 (st_fs s)) as [a f1|f1] eqn:E1; [|discriminate].
  destruct (H1 s a f1 E1) as [[s' [Es Ef]]|[s' [Es [Ef E]]]].
  - left. exists s'. rewrite Es. auto.
  - rewrite Es. subst f1. rewrite <- Ef in H.
    destruct (H2 a s' b f' H) as [[s2 [E2 F2]]|[s2 [E2 [F2 F3]]]].
    + left. exists s2. split; [exact E2|congruence].
    + right. exists s2. repeat split; congruence.
Qed.

Lemma roc_attempt_ok : forall A (mF : M fstate A) (m : M fs A), roc mF m -> attempt_ok mF m.
Proof.
  intros A mF m H s a f' Hm. destruct (H s a f' Hm) as [[s' [Es Ef]]|[s' [Es [Ef E]]]].
  - left. exists s'. split; [exact Es|]. rewrite Ef. exact Hm.
  - right. exists s'. split; [exact Es|congruence].
Qed.

Lemma roc_sim : forall A (mF : M fstate A) (m : M fs A), roc mF m -> sim mF m.
Proof.
  intros A mF m H s a f' Hm. destruct (H s a f' Hm) as [[s' [Es Ef]]|[s' [Es [Ef E]]]].
  - left. eauto.
  - right. exists s'. split; [exact Es|congruence].
Qed.

(* ------------------------------------------------------------------ the faulty primitives *)
Lemma tick_spec : forall k p p2 s, exists ft s1,
  tick k p p2 s = OK ft s1 /\ st_fs s1 = st_fs s.
Proof.
  intros k p p2 s. unfold tick. destruct (st_sched s) as [|x t]; eexists; eexists; split; reflexivity.
Qed.

Ltac tick_step k p p2 s ft s1 E1 F1 :=
  destruct (tick_spec k p p2 s) as [ft [s1 [E1 F1]]].

(* [ro]: unconditional version -- the faulty one raises or returns what the fault-free one
   returns *)
Definition ro {A} (mF : M fstate A) (m : M fs A) : Prop :=
  forall s,
    (exists s', mF s = Err s' /\ st_fs s' = st_fs s) \/
    (exists a s', mF s = OK a s' /\ st_fs s' = st_fs s /\ m (st_fs s) = OK a (st_fs s)).

Lemma ro_roc : forall A (mF : M fstate A) (m : M fs A), ro mF m -> roc mF m.
Proof.
  intros A mF m H s a f' Hm. destruct (H s) as [[s' [Es Ef]]|[a0 [s' [Es [Ef Hp]]]]].
  - left. eauto.
  - right. rewrite Hp in Hm. injection Hm as <- <-. exists s'. auto.
Qed.

Lemma ro_ret : forall A (a : A), ro (ret a) (ret a).
Proof. intros A a s. right. exists a, s. unfold ret. auto. Qed.

Lemma ro_fail : forall A, ro (@fail fstate A) (@fail fs A).
Proof. intros A s. left. exists s. unfold fail. auto. Qed.

Lemma ro_bind : forall A B (m1F : M fstate A) (m1 : M fs A) (kF : A -> M fstate B) (k : A -> M fs B),
  ro m1F m1 -> (forall a, ro (kF a) (k a)) -> ro (bind m1F kF) (bind m1 k).
Proof.
  intros A B m1F m1 kF k H1 H2 s. unfold bind.
  destruct (H1 s) as [[s' [Es Ef]]|[a [s' [Es [Ef Hp]]]]].
  - left. exists s'. rewrite Es. auto.
  - rewrite Es, Hp. destruct (H2 a s') as [[s2 [E2 F2]]|[b [s2 [E2 [F2 Hp2]]]]].
    + left. exists s2. split; [exact E2|congruence].
    + right. exists b, s2. rewrite Ef in Hp2. repeat split; congruence.
Qed.

Lemma f_stat_ro : forall k q p,
  ro (f_stat false k q p) (lift_q (fun f => q f p)).
Proof.
  intros k q p s. unfold f_stat, bind. tick_step k p (@nil name) s ft s1 E1 F1. rewrite E1.
  destruct ft as [[]|]; simpl; try (left; exists s1; split; [reflexivity|exact F1]).
  right. exists (q (st_fs s) p), s1. unfold get_fs, ret, lift_q. simpl. rewrite F1. auto.
Qed.

Lemma f_info_ro : forall p,
  ro (f_info p) (lift_o (fun f => if exists_b f p then Some tt else None)).
Proof.
  intros p s. unfold f_info, bind. tick_step KInfo p (@nil name) s ft s1 E1 F1. rewrite E1.
  destruct ft as [ft|]; simpl; [left; exists s1; split; [reflexivity|exact F1]|].
  unfold get_fs, lift_o. rewrite F1. destruct (exists_b (st_fs s) p) eqn:Ex.
  - right. exists tt, s1. unfold ret. auto.
  - left. exists s1. unfold fail. auto.
Qed.

Lemma f_read_ro : forall p, ro (f_read p) (lift_o (fun f => read f p)).
Proof.
  intros p s. unfold f_read, bind. tick_step KOpenR p (@nil name) s ft s1 E1 F1. rewrite E1.
  destruct ft as [ft|]; simpl; [left; exists s1; split; [reflexivity|exact F1]|].
  unfold get_fs, of_option, lift_o. rewrite F1. destruct (read (st_fs s) p) as [c|] eqn:Er.
  - right. exists c, s1. unfold ret. auto.
  - left. exists s1. unfold fail. auto.
Qed.

(* a mutation: what one faulty call can do *)
Lemma f_mut_spec : forall k p p2 eff part s,
  (exists s', f_mut k p p2 eff part s = Err s' /\
              (st_fs s' = st_fs s \/
               eff (st_fs s) = Some (st_fs s') \/
               exists n, st_fs s' = part n (st_fs s))) \/
  (exists s', f_mut k p p2 eff part s = OK tt s' /\ eff (st_fs s) = Some (st_fs s')).
Proof.
  intros k p p2 eff part s. unfold f_mut, bind.
  tick_step k p p2 s ft s1 E1 F1. rewrite E1.
  destruct ft as [[]|]; simpl; try (left; exists s1; split; [reflexivity|left; exact F1]).
  - (* FAfter *)
    unfold get_fs, of_option, put_fs. rewrite F1.
    destruct (eff (st_fs s)) as [g|] eqn:Ee; simpl.
    + left. exists (set_fs s1 g). split; [reflexivity|]. right. left. reflexivity.
    + left. exists s1. split; [reflexivity|left; exact F1].
  - (* FPartial *)
    unfold get_fs, put_fs. rewrite F1. simpl.
    left. exists (set_fs s1 (part n (st_fs s))). split; [reflexivity|]. right. right. exists n. reflexivity.
  - (* no fault *)
    unfold get_fs, of_option, put_fs. rewrite F1.
    destruct (eff (st_fs s)) as [g|] eqn:Ee; simpl.
    + right. exists (set_fs s1 g). split; reflexivity.
    + left. exists s1. split; [reflexivity|left; exact F1].
Qed.

(* a single-mutation body whose effect is idempotent and absorbs its interrupted effect *)
Lemma attempt_mut : forall k p p2 eff part,
  (forall f f', eff f = Some f' -> eff f' = Some f') ->
  (forall f f' n, eff f = Some f' -> eff (part n f) = Some f') ->
  attempt_ok (f_mut k p p2 eff part) (lift_m eff).
Proof.
  intros k p p2 eff part Hidem Hpart s a f' H. unfold lift_m in *.
  destruct (eff (st_fs s)) as [g|] eqn:Ee; [|discriminate]. injection H as <- <-.
  destruct (f_mut_spec k p p2 eff part s) as [[s' [Es Hs]]|[s' [Es Hs]]].
  - left. exists s'. split; [exact Es|].
    destruct Hs as [Hs|[Hs|[n Hs]]].
    + rewrite Hs, Ee. reflexivity.
    + rewrite Ee in Hs. injection Hs as Hs. rewrite <- Hs. rewrite (Hidem _ _ Ee). reflexivity.
    + rewrite Hs. rewrite (Hpart _ _ n Ee). reflexivity.
  - right. exists s'. split; [exact Es|]. rewrite Ee in Hs. injection Hs as Hs. auto.
Qed.

(* ------------------------------------------------------------------ mkdirs_retry *)
Lemma attempt_mkdirs : forall lies p,
  attempt_ok (body_mkdirs (faulty_prims lies) p) (body_mkdirs pure_prims p).
Proof.
  intros lies p. unfold body_mkdirs. simpl. apply attempt_mut.
  - intros f f' H. unfold makedirs in *. eapply mk_all_idem; eauto.
  - intros f f' n H. unfold makedirs, makedirs_partial in *. apply mk_first_then_all. exact H.
Qed.

(* ------------------------------------------------------------------ the writers *)
Lemma write_idem : forall p c f f', write f p c = Some f' -> write f' p c = Some f'.
Proof.
  intros p c f f' H. pose proof H as H0. apply write_spec in H as [Hp [Hd [Hn ->]]].
  rewrite (write_after_write _ _ _ c _ H0). reflexivity.
Qed.

Lemma write_absorbs_partial : forall p c f f', write f p c = Some f' ->
  write (match write f p CPartial with Some g => g | None => f end) p c = Some f'.
Proof.
  intros p c f f' H. pose proof H as H0. apply write_spec in H as [Hp [Hd [Hn ->]]].
  rewrite (write_intro f p CPartial Hp Hd Hn). apply write_after_write. exact H0.
Qed.

Lemma attempt_write : forall lies p c,
  attempt_ok (p_write (faulty_prims lies) p c) (p_write pure_prims p c).
Proof.
  intros lies p c. simpl. apply attempt_mut.
  - intros f f' H. eapply write_idem; eauto.
  - intros f f' n H. apply write_absorbs_partial. exact H.
Qed.

(* ------------------------------------------------------------------ rm_retry *)
Lemma rm_some : forall f p g, rm f p = Some g -> p <> [] /\ g = rm_tree f p.
Proof.
  intros f p g H. unfold rm in H. destruct p as [|a p]; [discriminate|].
  destruct (node_at f (a :: p)); [|discriminate]. injection H as <-. split; [discriminate|reflexivity].
Qed.

Lemma rm_intro : forall f p, p <> [] -> exists_b f p = true -> rm f p = Some (rm_tree f p).
Proof.
  intros f p Hp He. unfold rm. destruct p as [|a p]; [contradiction|].
  unfold exists_b in He. destruct (node_at f (a :: p)); [reflexivity|discriminate].
Qed.

Lemma exists_after_rm_tree : forall f p, p <> [] -> exists_b (rm_tree f p) p = false.
Proof.
  intros f p Hp. unfold exists_b. rewrite node_at_rm_tree by exact Hp.
  rewrite is_prefix_refl. reflexivity.
Qed.

Definition rmP (p : path) (f : fs) : option fs := if exists_b f p then rm f p else Some f.

Lemma body_rm_pure : forall p f,
  body_rm pure_prims p f =
    match rmP p f with
    | Some f1 => if exists_b f1 p then Err f1 else OK tt f1
    | None => Err f
    end.
Proof.
  intros p f. unfold body_rm, bind, rmP. simpl. unfold lift_m, lift_q.
  destruct (if exists_b f p then rm f p else Some f) as [f1|]; [|reflexivity].
  destruct (exists_b f1 p); reflexivity.
Qed.

Lemma body_rm_ok_inv : forall p f f', body_rm pure_prims p f = OK tt f' ->
  p <> [] /\ f' = (if exists_b f p then rm_tree f p else f) /\ exists_b f' p = false.
Proof.
  intros p f f' H. rewrite body_rm_pure in H. unfold rmP in H.
  destruct (exists_b f p) eqn:Ex.
  - destruct (rm f p) as [g|] eqn:Er; [|discriminate]. apply rm_some in Er as [Hp ->].
    rewrite exists_after_rm_tree in H by exact Hp. injection H as <-.
    repeat split; [exact Hp|apply exists_after_rm_tree; exact Hp].
  - rewrite Ex in H. injection H as <-. repeat split; [|exact Ex].
    intros ->. discriminate.
Qed.

Lemma body_rm_gone : forall p f, p <> [] -> exists_b f p = false -> body_rm pure_prims p f = OK tt f.
Proof.
  intros p f Hp Ex. rewrite body_rm_pure. unfold rmP. rewrite Ex, Ex. reflexivity.
Qed.

Lemma body_rm_there : forall p f, p <> [] -> exists_b f p = true ->
  body_rm pure_prims p f = OK tt (rm_tree f p).
Proof.
  intros p f Hp Ex. rewrite body_rm_pure. unfold rmP. rewrite Ex, (rm_intro _ _ Hp Ex).
  rewrite exists_after_rm_tree by exact Hp. reflexivity.
Qed.

Lemma rm_partial_absent : forall f p n, isdir_b f p = false -> rm_partial f p n = f.
Proof. intros f p n H. unfold rm_partial. rewrite H. reflexivity. Qed.

Lemma isdir_exists : forall f p, isdir_b f p = true -> exists_b f p = true.
Proof. intros f p. unfold isdir_b, exists_b. destruct (node_at f p) as [[|]|]; congruence. Qed.

(* after an interrupted removal the fault-free function still ends in the same tree *)
Lemma body_rm_after_partial : forall p f f' n,
  body_rm pure_prims p f = OK tt f' -> body_rm pure_prims p (rm_partial f p n) = OK tt f'.
Proof.
  intros p f f' n H. destruct (isdir_b f p) eqn:Ed; [|rewrite rm_partial_absent by exact Ed; exact H].
  apply body_rm_ok_inv in H as [Hp [Hf _]]. rewrite (isdir_exists _ _ Ed) in Hf. subst f'.
  destruct (rm_partial_spec f p n) as [->|[a ->]].
  - apply body_rm_there; [exact Hp|apply isdir_exists; exact Ed].
  - rewrite <- (rm_tree_below f p (p ++ [a])) by apply is_prefix_app.
    apply body_rm_there; [exact Hp|].
    unfold exists_b. rewrite node_at_rm_tree by apply snoc_not_nil.
    rewrite is_prefix_snoc_self. apply isdir_exists in Ed. exact Ed.
Qed.

(* what one faulty rm call can do *)
Lemma f_rm_spec : forall p s,
  (exists s', f_rm p s = Err s' /\
     (st_fs s' = st_fs s \/
      (exists_b (st_fs s) p = true /\ rm (st_fs s) p = Some (st_fs s')) \/
      exists n, st_fs s' = rm_partial (st_fs s) p n)) \/
  (exists s', f_rm p s = OK tt s' /\
     (st_fs s' = st_fs s \/
      (exists_b (st_fs s) p = true /\ rm (st_fs s) p = Some (st_fs s')))).
Proof.
  intros p s. unfold f_rm, bind. tick_step KRm p (@nil name) s ft s1 E1 F1. rewrite E1.
  destruct ft as [[]|]; simpl; try (left; exists s1; split; [reflexivity|left; exact F1]).
  - (* FNotFound: swallowed *)
    right. exists s1. split; [reflexivity|left; exact F1].
  - (* FAfter *)
    unfold get_fs. rewrite F1. destruct (exists_b (st_fs s) p) eqn:Ex.
    + unfold of_option, put_fs. destruct (rm (st_fs s) p) as [g|] eqn:Er; simpl.
      * left. exists (set_fs s1 g). split; [reflexivity|]. right. left. split; reflexivity.
      * left. exists s1. split; [reflexivity|left; exact F1].
    + right. exists s1. split; [reflexivity|left; exact F1].
  - (* FPartial *)
    unfold get_fs, put_fs. rewrite F1. simpl. left.
    exists (set_fs s1 (rm_partial (st_fs s) p n)). split; [reflexivity|]. right. right. exists n. reflexivity.
  - (* no fault *)
    unfold get_fs. rewrite F1. destruct (exists_b (st_fs s) p) eqn:Ex.
    + unfold of_option, put_fs. destruct (rm (st_fs s) p) as [g|] eqn:Er; simpl.
      * right. exists (set_fs s1 g). split; [reflexivity|]. right. split; reflexivity.
      * left. exists s1. split; [reflexivity|left; exact F1].
    + right. exists s1. split; [reflexivity|left; exact F1].
Qed.

Lemma f_stat_cases : forall k q p s,
  (exists s', f_stat false k q p s = Err s' /\ st_fs s' = st_fs s) \/
  (exists s', f_stat false k q p s = OK (q (st_fs s) p) s' /\ st_fs s' = st_fs s).
Proof.
  intros k q p s. destruct (f_stat_ro k q p s) as [H|[a [s' [Es [Ef Hp]]]]]; [left; exact H|].
  right. unfold lift_q in Hp. injection Hp as <-. eauto.
Qed.

Lemma attempt_rm : forall p,
  attempt_ok (body_rm (faulty_prims false) p) (body_rm pure_prims p).
Proof.
  intros p s a f' H. destruct a.
  pose proof (body_rm_ok_inv _ _ _ H) as [Hp [Hf Hgone]].
  assert (Hbody : body_rm (faulty_prims false) p s =
            match f_rm p s with
            | OK _ s1 => match f_stat false KExists exists_b p s1 with
                         | OK b s2 => if b then Err s2 else OK tt s2
                         | Err s2 => Err s2
                         end
            | Err s1 => Err s1
            end).
  { unfold body_rm, bind. simpl. destruct (f_rm p s) as [u s1|s1]; [|reflexivity].
    destruct (f_stat false KExists exists_b p s1) as [b s2|s2]; [|reflexivity].
    destruct b; reflexivity. }
  rewrite Hbody. clear Hbody.
  destruct (f_rm_spec p s) as [[s1 [E1 Hs]]|[s1 [E1 Hs]]]; rewrite E1.
  - (* rm raised *)
    left. exists s1. split; [reflexivity|].
    destruct Hs as [Hs|[[Ex Er]|[n Hs]]].
    + rewrite Hs. exact H.
    + apply rm_some in Er as [_ Er]. rewrite Ex in Hf. rewrite Er, <- Hf.
      apply body_rm_gone; [exact Hp|exact Hgone].
    + rewrite Hs. apply body_rm_after_partial. exact H.
  - (* rm returned: the existence check *)
    destruct (f_stat_cases KExists exists_b p s1) as [[s2 [E2 F2]]|[s2 [E2 F2]]]; rewrite E2.
    + left. exists s2. split; [reflexivity|]. rewrite F2.
      destruct Hs as [Hs|[Ex Er]].
      * rewrite Hs. exact H.
      * apply rm_some in Er as [_ Er]. rewrite Ex in Hf. rewrite Er, <- Hf.
        apply body_rm_gone; [exact Hp|exact Hgone].
    + destruct Hs as [Hs|[Ex Er]].
      * rewrite Hs. destruct (exists_b (st_fs s) p) eqn:Ex.
        -- left. exists s2. split; [reflexivity|]. rewrite F2, Hs. exact H.
        -- right. exists s2. split; [reflexivity|]. rewrite F2, Hs. symmetry. exact Hf.
      * apply rm_some in Er as [_ Er]. rewrite Ex in Hf. rewrite Er, <- Hf, Hgone.
        right. exists s2. split; [reflexivity|]. rewrite F2, Er. symmetry. exact Hf.
Qed.

(* ------------------------------------------------------------------ move_retry *)
Lemma body_move_pure : forall p1 p2 f,
  body_move pure_prims p1 p2 f =
    if exists_b f p1 then match move f p1 p2 with Some g => OK tt g | None => Err f end
    else if exists_b f p2 then OK tt f else Err f.
Proof.
  intros p1 p2 f. unfold body_move, bind. simpl. unfold lift_q, lift_m.
  destruct (exists_b f p1); [reflexivity|]. destruct (exists_b f p2); reflexivity.
Qed.

(* after a completed move, running move_retry again changes nothing *)
Lemma body_move_after_move : forall f p1 p2 f', move f p1 p2 = Some f' -> exists_b f p1 = true ->
  body_move pure_prims p1 p2 f' = OK tt f'.
Proof.
  intros f p1 p2 f' H Hex. rewrite body_move_pure.
  destruct (path_eqb_spec p1 p2) as [E|NE].
  - subst p2. pose proof H as H0. apply move_cases in H as [[-> _]|[g [dst [_ [Hp [_ [H1 [_ [_ Hdst]]]]]]]]].
    + rewrite Hex, H0. reflexivity.
    + exfalso. destruct Hdst as [->|[-> _]].
      * rewrite is_prefix_refl in H1. discriminate.
      * rewrite is_prefix_app in H1. discriminate.
  - destruct (move_done _ _ _ _ H NE) as [G1 G2]. rewrite G1, G2. reflexivity.
Qed.

Lemma attempt_move : forall p1 p2,
  attempt_ok (body_move (faulty_prims false) p1 p2) (body_move pure_prims p1 p2).
Proof.
  intros p1 p2 s a f' H. destruct a.
  assert (Hbody : body_move (faulty_prims false) p1 p2 s =
            match f_stat false KExists exists_b p1 s with
            | OK b s1 =>
                if b then f_mut KMove p1 p2 (fun f => move f p1 p2) (fun _ f => f) s1
                else match f_stat false KExists exists_b p2 s1 with
                     | OK b2 s2 => if b2 then OK tt s2 else Err s2
                     | Err s2 => Err s2
                     end
            | Err s1 => Err s1
            end).
  { unfold body_move, bind. simpl. destruct (f_stat false KExists exists_b p1 s) as [b s1|s1]; [|reflexivity].
    destruct b; [reflexivity|].
    destruct (f_stat false KExists exists_b p2 s1) as [b2 s2|s2]; [|reflexivity]. destruct b2; reflexivity. }
  rewrite Hbody. clear Hbody. pose proof H as Hpure. rewrite body_move_pure in H.
  destruct (f_stat_cases KExists exists_b p1 s) as [[s1 [E1 F1]]|[s1 [E1 F1]]]; rewrite E1.
  - left. exists s1. split; [reflexivity|]. rewrite F1. exact Hpure.
  - destruct (exists_b (st_fs s) p1) eqn:Ex1.
    + destruct (move (st_fs s) p1 p2) as [g|] eqn:Em; [|discriminate]. injection H as <-.
      destruct (f_mut_spec KMove p1 p2 (fun f => move f p1 p2) (fun _ f => f) s1) as [[s2 [E2 Hs]]|[s2 [E2 Hs]]];
        rewrite E2.
      * left. exists s2. split; [reflexivity|]. rewrite F1 in Hs.
        destruct Hs as [Hs|[Hs|[n Hs]]].
        -- rewrite Hs. exact Hpure.
        -- rewrite Em in Hs. injection Hs as Hs. rewrite <- Hs.
           eapply body_move_after_move; eauto.
        -- rewrite Hs. exact Hpure.
      * right. exists s2. split; [reflexivity|]. rewrite F1, Em in Hs. injection Hs as Hs. auto.
    + destruct (exists_b (st_fs s) p2) eqn:Ex2; [|discriminate]. injection H as <-.
      destruct (f_stat_cases KExists exists_b p2 s1) as [[s2 [E2 F2]]|[s2 [E2 F2]]]; rewrite E2.
      * left. exists s2. split; [reflexivity|]. rewrite F2, F1. exact Hpure.
      * rewrite F1, Ex2. right. exists s2. split; [reflexivity|]. congruence.
Qed.

(* ------------------------------------------------------------------ write_commonmetadata_file *)
Lemma attempt_write_common : forall d ps,
  attempt_ok (body_write_common (faulty_prims false) d ps) (body_write_common pure_prims d ps).
Proof.
  intros d ps s a f' H. destruct a.
  set (p0 := d ++ [NPart 0]) in *. set (pc := d ++ [NCommon]) in *.
  assert (Hpure : forall f, body_write_common pure_prims d ps f =
            match read f p0 with
            | Some (CRows _) => match write f pc (CCommon ps) with Some g => OK tt g | None => Err f end
            | _ => Err f
            end).
  { intro f. unfold body_write_common, bind. simpl. unfold lift_o, lift_m. fold p0 pc.
    destruct (read f p0) as [[]|]; reflexivity. }
  assert (Hbody : body_write_common (faulty_prims false) d ps s =
            match f_read p0 s with
            | OK (CRows _) s1 =>
                f_mut KOpenW pc [] (fun f => write f pc (CCommon ps))
                  (fun _ f => match write f pc CPartial with Some g => g | None => f end) s1
            | OK _ s1 => Err s1
            | Err s1 => Err s1
            end).
  { unfold body_write_common, bind. simpl. fold p0 pc.
    destruct (f_read p0 s) as [c s1|s1]; [|reflexivity]. destruct c; reflexivity. }
  rewrite Hbody. clear Hbody. pose proof H as H0. rewrite Hpure in H.
  destruct (read (st_fs s) p0) as [[cells| | | |]|] eqn:Er; try discriminate.
  destruct (write (st_fs s) pc (CCommon ps)) as [g|] eqn:Ew; [|discriminate]. injection H as <-.
  (* reading part.0 is not disturbed by anything written at _common_metadata *)
  assert (Hne : pc <> p0).
  { unfold pc, p0. intro E. apply app_inv_head in E. discriminate. }
  assert (Hread : forall c, read (upsert (st_fs s) pc (File c)) p0 = Some (CRows cells)).
  { intro c. unfold read in *. pose proof (write_spec _ _ _ _ Ew) as [Hp _].
    rewrite node_at_upsert by exact Hp. destruct (path_eqb_spec pc p0); [contradiction|exact Er]. }
  destruct (f_read_ro p0 s) as [[s1 [E1 F1]]|[c [s1 [E1 [F1 Hp]]]]]; rewrite E1.
  - left. exists s1. split; [reflexivity|]. rewrite F1. exact H0.
  - unfold lift_o in Hp. rewrite Er in Hp. injection Hp as <-.
    destruct (f_mut_spec KOpenW pc [] (fun f => write f pc (CCommon ps))
                (fun _ f => match write f pc CPartial with Some g => g | None => f end) s1)
      as [[s2 [E2 Hs]]|[s2 [E2 Hs]]]; rewrite E2.
    + left. exists s2. split; [reflexivity|]. rewrite F1 in Hs. rewrite Hpure.
      pose proof (write_spec _ _ _ _ Ew) as [Hpc [Hd [Hn Hg]]].
      destruct Hs as [Hs|[Hs|[n Hs]]].
      * rewrite Hs, Er, Ew. reflexivity.
      * rewrite Ew in Hs. injection Hs as Hs. rewrite <- Hs, Hg, Hread, <- Hg.
        rewrite (write_idem _ _ _ _ Ew). reflexivity.
      * rewrite Hs, (write_intro _ _ CPartial Hpc Hd Hn), Hread.
        rewrite (write_after_write _ _ _ CPartial _ Ew). reflexivity.
    + right. exists s2. split; [reflexivity|]. rewrite F1, Ew in Hs. injection Hs as Hs. auto.
Qed.

(* ------------------------------------------------------------------ reading parquet files *)
Lemma pq_read_file_ro : forall p,
  ro (pq_read_file (faulty_prims false) p) (pq_read_file pure_prims p).
Proof.
  intro p. unfold pq_read_file. apply ro_bind; [apply f_stat_ro|].
  intros [|]; [|apply ro_fail].
  apply ro_bind; [apply f_read_ro|]. intros [cells| | | |]; try apply ro_fail. apply ro_ret.
Qed.

(* a fault-free read-only step leaves the state alone also when it raises *)
Lemma pq_read_file_pure_state : forall p f,
  match pq_read_file pure_prims p f with OK _ f' => f' = f | Err f' => f' = f end.
Proof.
  intros p f. unfold pq_read_file, bind. simpl. unfold lift_q, lift_o.
  destruct (isfile_b f p); [|reflexivity].
  destruct (read f p) as [[]|]; reflexivity.
Qed.

Lemma mmap_cons : forall St A B (f : A -> M St B) x t s,
  mmap f (x :: t) s =
    match f x s with
    | OK y s1 => match mmap f t s1 with OK ys s2 => OK (y :: ys) s2 | Err s2 => Err s2 end
    | Err s1 => Err s1
    end.
Proof.
  intros. simpl. unfold bind. destruct (f x s) as [y s1|s1]; [|reflexivity].
  destruct (mmap f t s1); reflexivity.
Qed.

Lemma try_eq : forall St A (m : M St A) s,
  try m s = match m s with OK a s' => OK (Some a) s' | Err s' => OK None s' end.
Proof. reflexivity. Qed.

(* visiting all files with try: the faulty visit returns, file by file, None or what the
   fault-free visit returns *)
Lemma try_mmap_rel : forall l s,
  exists rsF s', mmap (fun p => try (pq_read_file (faulty_prims false) p)) l s = OK rsF s' /\
    st_fs s' = st_fs s /\
    exists rs, mmap (fun p => try (pq_read_file pure_prims p)) l (st_fs s) = OK rs (st_fs s) /\
      Forall2 (fun x y => x = None \/ x = y) rsF rs.
Proof.
  induction l as [|p l IH]; intro s.
  - exists [], s. simpl. unfold ret. repeat split. exists []. split; [reflexivity|constructor].
  - rewrite !mmap_cons, !try_eq.
    pose proof (pq_read_file_pure_state p (st_fs s)) as Hst.
    destruct (pq_read_file_ro p s) as [[s1 [E1 F1]]|[a [s1 [E1 [F1 Hp]]]]]; rewrite E1.
    + destruct (IH s1) as [rsF [s2 [E2 [F2 [rs [Ep HF]]]]]]. rewrite E2.
      exists (None :: rsF), s2. split; [reflexivity|]. split; [congruence|].
      rewrite F1 in Ep.
      destruct (pq_read_file pure_prims p (st_fs s)) as [b fb|fb]; subst fb; rewrite Ep.
      * exists (Some b :: rs). split; [reflexivity|]. constructor; [left; reflexivity|exact HF].
      * exists (None :: rs). split; [reflexivity|]. constructor; [left; reflexivity|exact HF].
    + destruct (IH s1) as [rsF [s2 [E2 [F2 [rs [Ep HF]]]]]]. rewrite E2.
      exists (Some a :: rsF), s2. split; [reflexivity|]. split; [congruence|].
      rewrite Hp. rewrite F1 in Ep. rewrite Ep.
      exists (Some a :: rs). split; [reflexivity|]. constructor; [right; reflexivity|exact HF].
Qed.

Lemma all_some_eq : forall A (rsF rs : list (option A)),
  Forall2 (fun x y => x = None \/ x = y) rsF rs ->
  forallb (fun r => match r with Some _ => true | None => false end) rsF = true -> rsF = rs.
Proof.
  intros A rsF rs H. induction H as [|x y l l' Hxy H IH]; intro Hall; [reflexivity|].
  simpl in Hall. apply andb_prop in Hall as [Hx Hl].
  destruct Hxy as [-> | ->]; [discriminate|]. f_equal. apply IH. exact Hl.
Qed.

Lemma pq_read_list_ro : forall l,
  ro (pq_read_list (faulty_prims false) l) (pq_read_list pure_prims l).
Proof.
  intros [|p0 l]; [apply ro_fail|]. unfold pq_read_list.
  apply ro_bind; [apply pq_read_file_ro|]. intros _ s. unfold bind.
  destruct (try_mmap_rel (p0 :: l) s) as [rsF [s' [E [F [rs [Ep HF]]]]]]. rewrite E, Ep.
  destruct (forallb (fun r => match r with Some _ => true | None => false end) rsF) eqn:Hall.
  - apply all_some_eq in HF; [|exact Hall]. subst rs. rewrite Hall.
    right. eexists. exists s'. unfold ret. rewrite F. auto.
  - left. exists s'. unfold fail. auto.
Qed.

(* ------------------------------------------------------------------ read_parquet_retry *)
Lemma sort_paths_length : forall l, List.length (sort_paths l) = List.length l.
Proof.
  assert (I : forall p l, List.length (insert_path p l) = S (List.length l)).
  { intros p l. induction l as [|q l IH]; simpl; [reflexivity|].
    destruct (path_leb p q); simpl; [reflexivity|]. rewrite IH. reflexivity. }
  induction l as [|p l IH]; simpl; [reflexivity|]. rewrite I, IH. reflexivity.
Qed.

Lemma remove_nth_length : forall A n (l : list A), n < List.length l ->
  S (List.length (remove_nth n l)) = List.length l.
Proof.
  intros A n. induction n as [|n IH]; intros [|x l] H; simpl in *; try lia.
  rewrite IH by lia. reflexivity.
Qed.

Lemma drop_entry_cases : forall A n (l : list A),
  drop_entry n l = l \/ S (List.length (drop_entry n l)) = List.length l.
Proof.
  intros A n [|x l]; [left; reflexivity|]. right. unfold drop_entry.
  apply remove_nth_length. apply Nat.mod_upper_bound. discriminate.
Qed.

Lemma perm_eqb_length : forall a b, paths_perm_eqb a b = true -> List.length a = List.length b.
Proof.
  intros a b H. unfold paths_perm_eqb in H. apply andb_prop in H as [H _].
  apply Nat.eqb_eq. exact H.
Qed.

Lemma f_ls_spec : forall p s,
  (exists s', f_ls p s = Err s' /\ st_fs s' = st_fs s) \/
  (exists l0 l s', f_ls p s = OK l s' /\ st_fs s' = st_fs s /\ ls (st_fs s) p = Some l0 /\
                   (l = l0 \/ exists n, l = drop_entry n l0)).
Proof.
  intros p s. unfold f_ls, bind. tick_step KLs p (@nil name) s ft s1 E1 F1. rewrite E1.
  destruct ft as [[]|]; simpl; try (left; exists s1; split; [reflexivity|exact F1]).
  - unfold get_fs, of_option. rewrite F1. destruct (ls (st_fs s) p) as [l0|] eqn:El; simpl.
    + right. exists l0, (drop_entry n l0), s1. unfold ret. repeat split; eauto.
    + left. exists s1. split; [reflexivity|exact F1].
  - unfold get_fs, of_option. rewrite F1. destruct (ls (st_fs s) p) as [l0|] eqn:El; simpl.
    + right. exists l0, l0, s1. unfold ret. repeat split; auto.
    + left. exists s1. split; [reflexivity|exact F1].
Qed.

Lemma read_parquet_roc : forall tmp subs out,
  roc (body_read_parquet (faulty_prims false) tmp subs out) (body_read_parquet pure_prims tmp subs out).
Proof.
  intros tmp subs out. unfold body_read_parquet.
  apply roc_bind; [apply ro_roc; apply f_stat_ro|]. intro b1.
  apply roc_bind.
  { destruct b1; [|apply roc_ret]. apply roc_bind; [apply ro_roc; apply f_stat_ro|]. intro. apply roc_ret. }
  intros [|]; [apply ro_roc; apply pq_read_list_ro|].
  (* the listing and its consistency check *)
  intros s a f' H. unfold bind in *. simpl in H. unfold lift_o in H.
  destruct (ls (st_fs s) tmp) as [l0|] eqn:El; [|discriminate].
  destruct (paths_perm_eqb subs (sort_paths l0)) eqn:Echk; [|discriminate].
  simpl. destruct (f_ls_spec tmp s) as [[s1 [E1 F1]]|[l0' [l [s1 [E1 [F1 [El' Hl]]]]]]]; rewrite E1.
  - left. eauto.
  - rewrite El in El'. injection El' as <-.
    assert (Hsame : l = l0 \/ paths_perm_eqb subs (sort_paths l) = false).
    { destruct Hl as [->|[n ->]]; [left; reflexivity|].
      destruct (drop_entry_cases _ n l0) as [->|Hlen]; [left; reflexivity|]. right.
      destruct (paths_perm_eqb subs (sort_paths (drop_entry n l0))) eqn:E; [|reflexivity].
      apply perm_eqb_length in E. apply perm_eqb_length in Echk.
      rewrite sort_paths_length in *. lia. }
    destruct Hsame as [->|Hbad].
    + rewrite Echk.
      assert (G : pq_read_list pure_prims (sort_paths l0) (st_fs s1) = OK a f') by (rewrite F1; exact H).
      destruct (ro_roc _ _ _ (pq_read_list_ro (sort_paths l0)) s1 a f' G) as [[s2 [E2 F2]]|[s2 [E2 [F2 F3]]]].
      * left. exists s2. split; [exact E2|congruence].
      * right. exists s2. repeat split; congruence.
    + rewrite Hbad. left. exists s1. unfold fail. auto.
Qed.

(* ------------------------------------------------------------------ the final read_parquet_dask *)
Lemma f_find_spec : forall p s,
  (exists s', f_find p s = Err s' /\ st_fs s' = st_fs s) \/
  (exists l s', f_find p s = OK l s' /\ st_fs s' = st_fs s).
Proof.
  intros p s. unfold f_find, bind. tick_step KFind p (@nil name) s ft s1 E1 F1. rewrite E1.
  destruct ft as [[]|]; simpl; try (left; exists s1; split; [reflexivity|exact F1]);
    (unfold get_fs, ret; right; eexists; exists s1; split; [reflexivity|exact F1]).
Qed.

Lemma f_read_opt_spec : forall p s,
  (exists s', f_read_opt p s = Err s' /\ st_fs s' = st_fs s) \/
  (exists s', f_read_opt p s = OK (read (st_fs s) p) s' /\ st_fs s' = st_fs s) \/
  (exists s', f_read_opt p s = OK None s' /\ st_fs s' = st_fs s).
Proof.
  intros p s. unfold f_read_opt, bind. tick_step KOpenR p (@nil name) s ft s1 E1 F1. rewrite E1.
  destruct ft as [[]|]; simpl; try (left; exists s1; split; [reflexivity|exact F1]).
  - right. right. exists s1. unfold ret. auto.
  - right. left. exists s1. unfold get_fs, ret. rewrite F1. auto.
Qed.

Lemma final_read_roc : forall d,
  roc (body_final_read (faulty_prims false) d) (body_final_read pure_prims d).
Proof.
  intro d. unfold body_final_read.
  apply roc_bind; [apply ro_roc; apply f_stat_ro|]. intros [|]; simpl negb; cbv iota; [|apply roc_fail].
  apply roc_bind; [apply ro_roc; apply f_stat_ro|]. intros [|]; simpl negb; cbv iota; [|apply roc_fail].
  set (f0 := d ++ [NPart 0]).
  set (RF := (d0 <- p_isdir (faulty_prims false) f0 ;;
              if d0 then fail else
              pq_read_file (faulty_prims false) f0 ;;; pq_read_file (faulty_prims false) f0 ;;;
              p_info (faulty_prims false) f0)).
  set (RP := (d0 <- p_isdir pure_prims f0 ;;
              if d0 then fail else
              pq_read_file pure_prims f0 ;;; pq_read_file pure_prims f0 ;;;
              p_info pure_prims f0)).
  assert (HR : roc RF RP).
  { unfold RF, RP. apply roc_bind; [apply ro_roc; apply f_stat_ro|]. intros [|]; [apply roc_fail|].
    apply roc_bind; [apply ro_roc; apply pq_read_file_ro|]. intros _.
    apply roc_bind; [apply ro_roc; apply pq_read_file_ro|]. intros _.
    apply ro_roc. apply f_info_ro. }
  set (KF := fun cm : option content =>
               match cm with Some (CCommon _) | None => ret tt | _ => @fail fstate unit end ;;; RF).
  set (KP := fun cm : option content =>
               match cm with Some (CCommon _) | None => ret tt | _ => @fail fs unit end ;;; RP).
  assert (HK : forall cm, roc (KF cm) (KP cm)).
  { intro cm. unfold KF, KP. apply roc_bind; [|intros _; exact HR].
    destruct cm as [[]|]; try apply roc_fail; apply roc_ret. }
  (* _common_metadata is read under `except FileNotFoundError` *)
  assert (HC : roc (cm <- p_read_opt (faulty_prims false) (d ++ [NCommon]) ;; KF cm)
                   (cm <- p_read_opt pure_prims (d ++ [NCommon]) ;; KP cm)).
  { intros s a f' H. unfold bind at 1 in H. simpl p_read_opt in *. unfold lift_q in H.
    assert (Hb : (cm <- f_read_opt (d ++ [NCommon]) ;; KF cm) s =
                 match f_read_opt (d ++ [NCommon]) s with OK cm s1 => KF cm s1 | Err s1 => Err s1 end)
      by reflexivity.
    rewrite Hb. clear Hb.
    destruct (f_read_opt_spec (d ++ [NCommon]) s) as [[s1 [E1 F1]]|[[s1 [E1 F1]]|[s1 [E1 F1]]]]; rewrite E1.
    - left. eauto.
    - assert (G : KP (read (st_fs s) (d ++ [NCommon])) (st_fs s1) = OK a f') by (rewrite F1; exact H).
      destruct (HK _ s1 a f' G) as [[s2 [E2 F2]]|[s2 [E2 [F2 F3]]]].
      + left. exists s2. split; [exact E2|congruence].
      + right. exists s2. split; [exact E2|]. split; congruence.
    - assert (G : KP None (st_fs s1) = OK a f').
      { rewrite F1. destruct (read (st_fs s) (d ++ [NCommon])) as [[]|]; try exact H; discriminate. }
      destruct (HK _ s1 a f' G) as [[s2 [E2 F2]]|[s2 [E2 [F2 F3]]]].
      + left. exists s2. split; [exact E2|congruence].
      + right. exists s2. split; [exact E2|]. split; congruence. }
  set (restF := pq_read_file (faulty_prims false) f0 ;;;
                (cm <- p_read_opt (faulty_prims false) (d ++ [NCommon]) ;; KF cm)).
  set (restP := pq_read_file pure_prims f0 ;;;
                (cm <- p_read_opt pure_prims (d ++ [NCommon]) ;; KP cm)).
  assert (Hrest : roc restF restP).
  { unfold restF, restP. apply roc_bind; [apply ro_roc; apply pq_read_file_ro|]. intros _. exact HC. }
  intros s a f' H. unfold bind at 1 in H. simpl p_find in *. unfold lift_q at 1 in H.
  destruct (existsb (path_eqb f0) (find (st_fs s) d)) eqn:Ein; [|discriminate].
  change (negb true) with false in H. cbv iota in H.
  match goal with |- context [bind (f_find d) ?k] =>
    assert (Hb : bind (f_find d) k s =
                 match f_find d s with OK l s1 => k l s1 | Err s1 => Err s1 end) by reflexivity;
    rewrite Hb; clear Hb end.
  destruct (f_find_spec d s) as [[s1 [E1 F1]]|[l [s1 [E1 F1]]]]; rewrite E1.
  - left. eauto.
  - destruct (existsb (path_eqb f0) l);
      [change (negb true) with false|change (negb false) with true]; cbv iota.
    + assert (G : restP (st_fs s1) = OK a f') by (rewrite F1; exact H).
      destruct (Hrest s1 a f' G) as [[s2 [E2 F2]]|[s2 [E2 [F2 F3]]]].
      * left. exists s2. split; [exact E2|congruence].
      * right. exists s2. split; [exact E2|]. split; congruence.
    + left. exists s1. unfold fail. auto.
Qed.

(* ------------------------------------------------------------------ all wrappers, the theorem *)
Lemma faulty_wrappers_sim : forall K, wrappers_sim (faulty_wrappers false K) pure_wrappers.
Proof.
  intro K. unfold wrappers_sim. simpl. repeat split; intros.
  - apply retry_sim. apply attempt_rm.
  - apply retry_sim. apply (attempt_mkdirs false).
  - apply retry_sim. apply (attempt_write false).
  - apply retry_sim. apply roc_attempt_ok. apply read_parquet_roc.
  - apply retry_sim. apply (attempt_write false).
  - apply retry_sim. apply attempt_move.
  - apply retry_sim. apply (attempt_write false).
  - apply retry_sim. apply attempt_write_common.
  - apply roc_sim. apply final_read_roc.
Qed.

(* Every run under faults of the kinds raise-before / FileNotFoundError / raise-after-the-
   effect / raise-after-a-partial-effect / stale listing -- any number of them, at any calls,
   any retry budget, any tree, configuration, task order and assignment -- either raises or
   ends with exactly the tree and the parts of the fault-free run. *)
Theorem all_or_error : forall K sched f0 cfg asg parts f1,
  pack f0 cfg asg = OK parts f1 ->
  (exists s, packF_gen false K sched f0 cfg asg = Err s) \/
  (exists s, packF_gen false K sched f0 cfg asg = OK parts s /\ st_fs s = f1).
Proof.
  intros K sched f0 cfg asg parts f1 H. unfold packF_gen, pack in *.
  exact (pack_proc_sim _ _ cfg asg (faulty_wrappers_sim K)
           {| st_fs := f0; st_sched := sched; st_trace := [] |} parts f1 H).
Qed.

(* ------------------------------------------------------------------ schedules without lies *)
(* On a schedule that contains no FLie the full model [packF] (the one the correspondence
   run evaluates) and the instance the theorem above is about are the same function. *)
Definition nl (s : fstate) : Prop := Forall (fun o => o <> Some FLie) (st_sched s).

Definition agree {A} (m1 m2 : M fstate A) : Prop :=
  forall s, nl s -> m1 s = m2 s /\ match m1 s with OK _ s' => nl s' | Err s' => nl s' end.

Lemma agree_ret : forall A (a : A), agree (ret a) (ret a).
Proof. intros A a s H. split; [reflexivity|exact H]. Qed.

Lemma agree_fail : forall A, agree (@fail fstate A) fail.
Proof. intros A s H. split; [reflexivity|exact H]. Qed.

Lemma agree_bind : forall A B (m1 m2 : M fstate A) (k1 k2 : A -> M fstate B),
  agree m1 m2 -> (forall a, agree (k1 a) (k2 a)) -> agree (bind m1 k1) (bind m2 k2).
Proof.
  intros A B m1 m2 k1 k2 H1 H2 s Hs. unfold bind. destruct (H1 s Hs) as [E N]. rewrite <- E.
  destruct (m1 s) as [a s'|s']; [apply H2; exact N|split; [reflexivity|exact N]].
Qed.

Lemma agree_try : forall A (m1 m2 : M fstate A), agree m1 m2 -> agree (try m1) (try m2).
Proof.
  intros A m1 m2 H s Hs. unfold try. destruct (H s Hs) as [E N]. rewrite <- E.
  destruct (m1 s); split; auto.
Qed.

Lemma agree_retry : forall A (m1 m2 : M fstate A) K, agree m1 m2 -> agree (retry K m1) (retry K m2).
Proof.
  intros A m1 m2 K H. induction K as [|K IH]; intros s Hs; simpl.
  - split; [reflexivity|exact Hs].
  - destruct (H s Hs) as [E N]. rewrite <- E. destruct (m1 s) as [a s'|s'].
    + split; [reflexivity|exact N].
    + apply IH. exact N.
Qed.

Lemma agree_tick : forall k p p2 (k1 k2 : option fault -> M fstate unit) A (c1 c2 : option fault -> M fstate A),
  (forall ft, ft <> Some FLie -> agree (c1 ft) (c2 ft)) ->
  agree (bind (tick k p p2) c1) (bind (tick k p p2) c2).
Proof.
  intros k p p2 _ _ A c1 c2 H s Hs. unfold bind, tick. unfold nl in Hs.
  destruct (st_sched s) as [|x t] eqn:Es.
  - apply (H None); [discriminate|]. unfold nl. simpl. constructor.
  - inversion Hs as [|? ? Hx Ht]. subst. apply (H x Hx). unfold nl. simpl. exact Ht.
Qed.

Lemma agree_get_fs : forall A (k1 k2 : fs -> M fstate A),
  (forall f, agree (k1 f) (k2 f)) -> agree (bind get_fs k1) (bind get_fs k2).
Proof. intros A k1 k2 H s Hs. unfold bind, get_fs. apply H. exact Hs. Qed.

Lemma agree_put_fs : forall f, agree (put_fs f) (put_fs f).
Proof. intros f s Hs. split; [reflexivity|exact Hs]. Qed.

Lemma agree_of_option : forall A (o : option A), agree (of_option o) (of_option o).
Proof. intros A [a|]; [apply agree_ret|apply agree_fail]. Qed.

Ltac agr :=
  repeat first
    [ apply agree_ret | apply agree_fail | apply agree_put_fs | apply agree_of_option
    | apply agree_try
    | (apply agree_get_fs; intro)
    | (apply agree_bind; [|intro])
    | match goal with
      | |- agree (if ?b then _ else _) (if ?b then _ else _) => destruct b
      | |- agree (match ?x with _ => _ end) (match ?x with _ => _ end) => destruct x
      end ].

Lemma agree_stat : forall k q p, agree (f_stat true k q p) (f_stat false k q p).
Proof.
  intros k q p. unfold f_stat. apply (agree_tick k p [] (fun _ => ret tt) (fun _ => ret tt)).
  intros ft Hft. destruct ft as [[]|]; try contradiction; agr.
Qed.

Lemma agree_self_tick : forall k p p2 A (c : option fault -> M fstate A),
  (forall ft, agree (c ft) (c ft)) -> agree (bind (tick k p p2) c) (bind (tick k p p2) c).
Proof.
  intros. apply (agree_tick k p p2 (fun _ => ret tt) (fun _ => ret tt)). intros ft _. apply H.
Qed.

Lemma agree_prims :
  let P1 := faulty_prims true in let P2 := faulty_prims false in
  (forall p, agree (p_exists P1 p) (p_exists P2 p)) /\
  (forall p, agree (p_isfile P1 p) (p_isfile P2 p)) /\
  (forall p, agree (p_isdir P1 p) (p_isdir P2 p)) /\
  (forall p, agree (p_info P1 p) (p_info P2 p)) /\
  (forall p, agree (p_ls P1 p) (p_ls P2 p)) /\
  (forall p, agree (p_find P1 p) (p_find P2 p)) /\
  (forall p, agree (p_makedirs P1 p) (p_makedirs P2 p)) /\
  (forall p, agree (p_rm P1 p) (p_rm P2 p)) /\
  (forall p c, agree (p_write P1 p c) (p_write P2 p c)) /\
  (forall p, agree (p_read P1 p) (p_read P2 p)) /\
  (forall p, agree (p_read_opt P1 p) (p_read_opt P2 p)) /\
  (forall p1 p2, agree (p_move P1 p1 p2) (p_move P2 p1 p2)).
Proof.
  simpl. repeat match goal with |- _ /\ _ => split end; intros; try apply agree_stat;
    unfold f_info, f_ls, f_find, f_mut, f_rm, f_read, f_read_opt;
    apply agree_self_tick; intros ft; destruct ft as [[]|]; agr.
Qed.

Lemma agree_mmap : forall A B (f1 f2 : A -> M fstate B) l,
  (forall x, agree (f1 x) (f2 x)) -> agree (mmap f1 l) (mmap f2 l).
Proof.
  intros. apply (R_mmap (fun A => @agree A) agree_ret agree_bind). assumption.
Qed.

Lemma agree_wrappers : forall K,
  wrappers_rel (fun A => @agree A) (faulty_wrappers true K) (faulty_wrappers false K).
Proof.
  intro K. destruct agree_prims as (Hex & Hif & Hid & Hin & Hls & Hfi & Hmk & Hrm & Hwr & Hrd & Hro & Hmv).
  assert (Hfile : forall p, agree (pq_read_file (faulty_prims true) p) (pq_read_file (faulty_prims false) p)).
  { intro p. unfold pq_read_file. apply agree_bind; [apply Hif|]. intros [|]; [|apply agree_fail].
    apply agree_bind; [apply Hrd|]. intro c. destruct c; agr. }
  assert (Hlist : forall l, agree (pq_read_list (faulty_prims true) l) (pq_read_list (faulty_prims false) l)).
  { intros [|p0 l]; [apply agree_fail|]. unfold pq_read_list.
    apply agree_bind; [apply Hfile|]. intros _.
    apply agree_bind; [apply agree_mmap; intro; apply agree_try; apply Hfile|]. intro rs.
    destruct (forallb _ rs); agr. }
  unfold wrappers_rel. simpl. repeat match goal with |- _ /\ _ => split end; intros; try apply agree_retry.
  - unfold body_rm. apply agree_bind; [apply Hrm|]. intros _.
    apply agree_bind; [apply Hex|]. intros [|]; agr.
  - apply Hmk.
  - apply Hwr.
  - unfold body_read_parquet. apply agree_bind; [apply Hif|]. intro b1.
    apply agree_bind.
    { destruct b1; [|apply agree_ret]. apply agree_bind; [apply Hid|]. intro. apply agree_ret. }
    intros [|]; [apply Hlist|].
    apply agree_bind; [apply Hls|]. intro l.
    destruct (paths_perm_eqb s (sort_paths l)); [apply Hlist|apply agree_fail].
  - apply Hwr.
  - unfold body_move. apply agree_bind; [apply Hex|]. intros [|]; [apply Hmv|].
    apply agree_bind; [apply Hex|]. intros [|]; agr.
  - apply Hwr.
  - unfold body_write_common. apply agree_bind; [apply Hrd|]. intro c.
    destruct c; try apply agree_fail. apply Hwr.
  - unfold body_final_read.
    apply agree_bind; [apply Hex|]. intros [|]; simpl negb; cbv iota; [|apply agree_fail].
    apply agree_bind; [apply Hid|]. intros [|]; simpl negb; cbv iota; [|apply agree_fail].
    apply agree_bind; [apply Hfi|]. intro files.
    destruct (negb (existsb (path_eqb (d ++ [NPart 0])) files)); [apply agree_fail|].
    apply agree_bind; [apply Hfile|]. intros _.
    apply agree_bind; [apply Hro|]. intro cm.
    apply agree_bind; [destruct cm as [[]|]; agr|]. intros _.
    apply agree_bind; [apply Hid|]. intros [|]; [apply agree_fail|].
    apply agree_bind; [apply Hfile|]. intros _.
    apply agree_bind; [apply Hfile|]. intros _. apply Hin.
Qed.

Theorem packF_no_lie : forall K sched f0 cfg asg,
  ~ In (Some FLie) sched ->
  packF K sched f0 cfg asg = packF_gen false K sched f0 cfg asg.
Proof.
  intros K sched f0 cfg asg Hnl. unfold packF, packF_gen.
  apply (pack_proc_rel (fun A => @agree A) agree_ret agree_fail agree_bind _ _ cfg asg (agree_wrappers K)).
  unfold nl. simpl. apply Forall_forall. intros o Ho E. subst o. contradiction.
Qed.

Theorem all_or_error_no_lie : forall K sched f0 cfg asg parts f1,
  ~ In (Some FLie) sched ->
  pack f0 cfg asg = OK parts f1 ->
  (exists s, packF K sched f0 cfg asg = Err s) \/
  (exists s, packF K sched f0 cfg asg = OK parts s /\ st_fs s = f1).
Proof.
  intros K sched f0 cfg asg parts f1 Hnl H. rewrite (packF_no_lie _ _ _ _ _ Hnl).
  apply all_or_error. exact H.
Qed.
