(* Gray decode (coordinate_from_distance) and Gray encode
   (distance_from_coordinate) of the Hilbert model are inverse to each other. *)
From Coq Require Import NArith List Bool Arith Lia.
From SP Require Import Model.Hilbert Proofs.HilbertLists.
Import ListNotations.
Local Open Scope N_scope.

(* ---- structural forms of the index loops -------------------------------- *)
Fixpoint diffs (prev : N) (l : list N) : list N :=
  match l with [] => [] | x :: t => N.lxor x prev :: diffs x t end.
Fixpoint prefx (acc : N) (l : list N) : list N :=
  match l with [] => [] | x :: t => N.lxor x acc :: prefx (N.lxor x acc) t end.

Definition stepx (c : list N) (i : nat) : list N :=
  setc c i (N.lxor (getc c i) (getc c (i - 1))).

Lemma app_mid_assoc : forall (pre : list N) a l, pre ++ a :: l = (pre ++ [a]) ++ l.
Proof. intros. now rewrite <- app_assoc. Qed.

Lemma stepx_at : forall pre a x r,
    stepx (pre ++ a :: x :: r) (S (length pre)) = pre ++ a :: N.lxor x a :: r.
Proof.
  intros. unfold stepx.
  replace (S (length pre) - 1)%nat with (length pre) by lia.
  rewrite getc_app_mid.
  rewrite (app_mid_assoc pre a (x :: r)).
  replace (S (length pre)) with (length (pre ++ [a])) by (rewrite app_length; simpl; lia).
  rewrite getc_app_mid, setc_app_mid. now rewrite <- app_assoc.
Qed.

Lemma loop_up_prefx : forall rest pre a,
    fold_left stepx (seq (S (length pre)) (length rest)) (pre ++ a :: rest)
    = pre ++ a :: prefx a rest.
Proof.
  induction rest as [|x r IH]; intros pre a; [reflexivity|].
  cbn [length seq fold_left prefx]. rewrite stepx_at.
  rewrite (app_mid_assoc pre a).
  replace (S (S (length pre))) with (S (length (pre ++ [a]))) by (rewrite app_length; simpl; lia).
  rewrite IH. now rewrite <- app_assoc.
Qed.

Lemma loop_down_diffs : forall rest pre a,
    fold_left stepx (rev (seq (S (length pre)) (length rest))) (pre ++ a :: rest)
    = pre ++ a :: diffs a rest.
Proof.
  induction rest as [|x r IH]; intros pre a; [reflexivity|].
  cbn [length seq rev diffs]. rewrite fold_left_app. cbn [fold_left].
  rewrite (app_mid_assoc pre a (x :: r)).
  replace (S (S (length pre))) with (S (length (pre ++ [a]))) by (rewrite app_length; simpl; lia).
  rewrite IH. rewrite <- app_assoc. cbn [app]. now rewrite stepx_at.
Qed.

Lemma loop_xor_all : forall t rest pre,
    fold_left (fun c i => setc c i (N.lxor (getc c i) t)) (seq (length pre) (length rest)) (pre ++ rest)
    = pre ++ map (fun x => N.lxor x t) rest.
Proof.
  induction rest as [|x r IH]; intros pre; [reflexivity|].
  cbn [length seq fold_left map]. rewrite getc_app_mid, setc_app_mid.
  rewrite (app_mid_assoc pre (N.lxor x t) r).
  replace (S (length pre)) with (length (pre ++ [N.lxor x t])) by (rewrite app_length; simpl; lia).
  rewrite IH. now rewrite <- app_assoc.
Qed.

Lemma prefx_diffs_shift : forall l a t, prefx (N.lxor a t) (diffs a l) = map (fun x => N.lxor x t) l.
Proof.
  induction l as [|x r IH]; intros a t; [reflexivity|]. cbn [diffs prefx map].
  assert (E : N.lxor (N.lxor x a) (N.lxor a t) = N.lxor x t).
  { rewrite N.lxor_assoc, <- (N.lxor_assoc a a t), N.lxor_nilpotent, N.lxor_0_l. reflexivity. }
  rewrite E. now rewrite IH.
Qed.

Lemma diffs_prefx : forall l a, diffs a (prefx a l) = l.
Proof.
  induction l as [|x r IH]; intros a; [reflexivity|]. cbn [diffs prefx].
  now rewrite lxor_cancel_r, IH.
Qed.

Lemma diffs_map_xor : forall l u t, diffs (N.lxor u t) (map (fun x => N.lxor x t) l) = diffs u l.
Proof.
  induction l as [|x r IH]; intros u t; [reflexivity|]. cbn [diffs map].
  now rewrite lxor_both, IH.
Qed.

Lemma map_xor_twice : forall l t, map (fun x => N.lxor x t) (map (fun x => N.lxor x t) l) = l.
Proof.
  induction l as [|x r IH]; intros t; [reflexivity|]. cbn [map]. now rewrite lxor_cancel_r, IH.
Qed.

Lemma getc_map_xor : forall l i t, (i < length l)%nat ->
    getc (map (fun x => N.lxor x t) l) i = N.lxor (getc l i) t.
Proof.
  unfold getc. induction l as [|x r IH]; intros [|i] t H; simpl in *; try lia; auto.
  apply IH. lia.
Qed.

Lemma Forall_fits_prefx : forall p l a, fits p a -> Forall (fits p) l -> Forall (fits p) (prefx a l).
Proof.
  induction l as [|x r IH]; intros a Ha Hl; [constructor|]. inversion Hl; subst.
  cbn [prefx]. constructor; [now apply fits_lxor|]. apply IH; [now apply fits_lxor|assumption].
Qed.

Lemma Forall_fits_diffs : forall p l a, fits p a -> Forall (fits p) l -> Forall (fits p) (diffs a l).
Proof.
  induction l as [|x r IH]; intros a Ha Hl; [constructor|]. inversion Hl; subst.
  cbn [diffs]. constructor; [now apply fits_lxor|]. apply IH; assumption.
Qed.

Lemma Forall_fits_map_xor : forall p l t, fits p t -> Forall (fits p) l ->
    Forall (fits p) (map (fun x => N.lxor x t) l).
Proof.
  induction l as [|x r IH]; intros t Ht Hl; [constructor|]. inversion Hl; subst.
  cbn [map]. constructor; [now apply fits_lxor|]. now apply IH.
Qed.

(* ---- the t loop of the Gray encode -------------------------------------- *)
Lemma fits_testbit : forall p x m, fits p x -> p <= m -> N.testbit x m = false.
Proof.
  intros p x m Hx Hm. unfold fits in Hx.
  replace m with ((m - p) + p) by lia. rewrite <- N.shiftr_spec', Hx. apply N.bits_0.
Qed.

Lemma testbit_fits : forall p x, (forall m, p <= m -> N.testbit x m = false) -> fits p x.
Proof.
  intros p x H. unfold fits. apply N.bits_inj. intro m.
  rewrite N.shiftr_spec', N.bits_0. apply H. lia.
Qed.

Lemma truthy_land_pow2 : forall g m, truthy (N.land g (2 ^ m)) = N.testbit g m.
Proof.
  intros g m. unfold truthy. destruct (N.testbit g m) eqn:E.
  - assert (H : N.land g (2 ^ m) = 2 ^ m).
    { apply N.bits_inj. intro i. rewrite N.land_spec, N.pow2_bits_eqb.
      destruct (N.eqb_spec m i) as [->|]; [now rewrite E|apply andb_false_r]. }
    rewrite H. destruct (N.eqb_spec (2 ^ m) 0) as [H0|]; [|reflexivity].
    exfalso. revert H0. apply N.pow_nonzero. lia.
  - assert (H : N.land g (2 ^ m) = 0).
    { apply N.bits_inj. intro i. rewrite N.land_spec, N.pow2_bits_eqb, N.bits_0.
      destruct (N.eqb_spec m i) as [->|]; [now rewrite E|apply andb_false_r]. }
    now rewrite H.
Qed.

(* what the loop adds to t when started at Q = 2^k *)
Fixpoint Tk (g : N) (k : nat) : N :=
  match k with
  | O => 0
  | S k' => N.lxor (if N.testbit g (N.of_nat (S k')) then 2 ^ N.of_nat (S k') - 1 else 0) (Tk g k')
  end.

Lemma shiftr1_pow2' : forall k, N.shiftr (2 ^ N.of_nat (S k)) 1 = 2 ^ N.of_nat k.
Proof.
  intros. rewrite N.shiftr_div_pow2, Nat2N.inj_succ, N.pow_succ_r', N.pow_1_r.
  rewrite N.mul_comm. apply N.div_mul. lia.
Qed.

Lemma gray_t_loop_spec : forall k fuel g t, (k + 1 <= fuel)%nat ->
    gray_t_loop fuel (2 ^ N.of_nat k) g t = N.lxor t (Tk g k).
Proof.
  induction k as [|k IH]; intros fuel g t Hf.
  - destruct fuel as [|f]; [lia|]. simpl. now rewrite N.lxor_0_r.
  - destruct fuel as [|f]; [lia|]. cbn [gray_t_loop Tk].
    assert (H1 : 1 <? 2 ^ N.of_nat (S k) = true).
    { apply N.ltb_lt. rewrite Nat2N.inj_succ, N.pow_succ_r'.
      assert (0 < 2 ^ N.of_nat k) by (apply N.neq_0_lt_0, N.pow_nonzero; lia). lia. }
    rewrite H1, truthy_land_pow2, shiftr1_pow2', IH by lia.
    destruct (N.testbit g (N.of_nat (S k))).
    + now rewrite N.lxor_assoc.
    + now rewrite N.lxor_0_l.
Qed.

(* bit j of Tk g k: XOR of the bits g_m, max(j,0) < m <= k *)
Fixpoint xb (g : N) (j : N) (k : nat) : bool :=
  match k with
  | O => false
  | S k' => xorb ((j <? N.of_nat (S k')) && N.testbit g (N.of_nat (S k'))) (xb g j k')
  end.

Lemma Tk_testbit : forall g k j, N.testbit (Tk g k) j = xb g j k.
Proof.
  induction k as [|k IH]; intros j; cbn [Tk xb]; [apply N.bits_0|].
  rewrite N.lxor_spec, IH. f_equal.
  destruct (N.testbit g (N.of_nat (S k))).
  - replace (2 ^ N.of_nat (S k) - 1) with (N.ones (N.of_nat (S k))) by (rewrite N.ones_equiv; lia).
    rewrite andb_true_r. destruct (N.ltb_spec j (N.of_nat (S k))).
    + apply N.ones_spec_low. lia.
    + apply N.ones_spec_high. lia.
  - now rewrite N.bits_0, andb_false_r.
Qed.

(* telescoping for g = b xor (b >> 1) *)
Lemma xb_gray : forall b k j,
    xb (N.lxor b (N.shiftr b 1)) j k =
    if j <? N.of_nat k then xorb (N.testbit b (j + 1)) (N.testbit b (N.of_nat k + 1)) else false.
Proof.
  induction k as [|k IH]; intros j; cbn [xb].
  - destruct (N.ltb_spec j (N.of_nat 0)); [lia|reflexivity].
  - rewrite IH, N.lxor_spec, N.shiftr_spec'.
    rewrite Nat2N.inj_succ.
    replace (N.succ (N.of_nat k) + 1) with (N.of_nat k + 1 + 1) by lia.
    replace (N.succ (N.of_nat k)) with (N.of_nat k + 1) by lia.
    destruct (N.ltb_spec j (N.of_nat k + 1)) as [H1|H1];
      destruct (N.ltb_spec j (N.of_nat k)) as [H2|H2]; try lia; cbn [andb].
    + destruct (N.testbit b (N.of_nat k + 1)), (N.testbit b (N.of_nat k + 1 + 1)),
        (N.testbit b (j + 1)); reflexivity.
    + assert (j = N.of_nat k) by lia. subst j.
      destruct (N.testbit b (N.of_nat k + 1)), (N.testbit b (N.of_nat k + 1 + 1)); reflexivity.
    + reflexivity.
Qed.

Lemma xb_shift : forall g k j,
    xb g j k = xorb ((j + 1 <=? N.of_nat k) && N.testbit g (j + 1)) (xb g (j + 1) k).
Proof.
  induction k as [|k IH]; intros j; cbn [xb].
  - destruct (N.leb_spec (j + 1) (N.of_nat 0)); [lia|reflexivity].
  - rewrite IH. rewrite Nat2N.inj_succ.
    destruct (N.ltb_spec j (N.succ (N.of_nat k))) as [H1|H1];
      destruct (N.leb_spec (j + 1) (N.of_nat k)) as [H2|H2];
      destruct (N.leb_spec (j + 1) (N.succ (N.of_nat k))) as [H3|H3];
      destruct (N.ltb_spec (j + 1) (N.succ (N.of_nat k))) as [H4|H4]; try lia; cbn [andb].
    + destruct (N.testbit g (N.succ (N.of_nat k))), (N.testbit g (j + 1)), (xb g (j + 1) k); reflexivity.
    + assert (E : j + 1 = N.succ (N.of_nat k)) by lia. rewrite E.
      destruct (N.testbit g (N.succ (N.of_nat k))), (xb g (N.succ (N.of_nat k)) k); reflexivity.
    + reflexivity.
Qed.

(* T(b xor b>>1) = b >> 1 *)
Lemma Tk_gray : forall p b, (1 <= p)%nat -> fits (N.of_nat p) b ->
    Tk (N.lxor b (N.shiftr b 1)) (p - 1) = N.shiftr b 1.
Proof.
  intros p b Hp Hb. apply N.bits_inj. intro j.
  rewrite Tk_testbit, xb_gray, N.shiftr_spec'.
  replace (N.of_nat (p - 1) + 1) with (N.of_nat p) by lia.
  rewrite (fits_testbit _ _ (N.of_nat p) Hb) by lia.
  destruct (N.ltb_spec j (N.of_nat (p - 1))) as [H|H].
  - now rewrite xorb_false_r.
  - symmetry. apply (fits_testbit _ _ _ Hb). lia.
Qed.

(* with t = T(g):  (g xor t) >> 1 = t *)
Lemma Tk_fix : forall p g, (1 <= p)%nat -> fits (N.of_nat p) g ->
    N.shiftr (N.lxor g (Tk g (p - 1))) 1 = Tk g (p - 1).
Proof.
  intros p g Hp Hg. apply N.bits_inj. intro j.
  rewrite N.shiftr_spec', N.lxor_spec, !Tk_testbit, (xb_shift g (p - 1) j).
  f_equal.
  destruct (N.leb_spec (j + 1) (N.of_nat (p - 1))) as [H|H]; cbn [andb]; [reflexivity|].
  apply (fits_testbit _ _ _ Hg). lia.
Qed.

Lemma Tk_fits : forall p g, (1 <= p)%nat -> fits (N.of_nat p) (Tk g (p - 1)).
Proof.
  intros p g Hp. apply testbit_fits. intros m Hm. rewrite Tk_testbit.
  assert (forall k, (k <= p - 1)%nat -> xb g m k = false) as Hx.
  { induction k as [|k IHk]; intros Hle; cbn [xb]; [reflexivity|].
    rewrite IHk by lia. destruct (N.ltb_spec m (N.of_nat (S k))); [lia|reflexivity]. }
  apply Hx. lia.
Qed.

(* ---- decode / encode on lists ------------------------------------------- *)
Lemma gray_decode_cons : forall a rest,
    gray_decode (S (length rest)) (a :: rest)
    = N.lxor a (N.shiftr (getc (a :: rest) (length rest)) 1) :: diffs a rest.
Proof.
  intros. unfold gray_decode.
  replace (S (length rest) - 1)%nat with (length rest) by lia.
  pose proof (loop_down_diffs rest [] a) as H. cbn [app length] in H.
  fold stepx. rewrite H. reflexivity.
Qed.

Lemma gray_encode_cons : forall p M a rest,
    gray_encode p (S (length rest)) M (a :: rest)
    = let s := a :: prefx a rest in
      let t := gray_t_loop p M (getc s (length rest)) 0 in
      map (fun x => N.lxor x t) s.
Proof.
  intros. unfold gray_encode.
  replace (S (length rest) - 1)%nat with (length rest) by lia.
  pose proof (loop_up_prefx rest [] a) as H. cbn [app length] in H.
  fold stepx. rewrite H. cbv zeta.
  set (s := a :: prefx a rest). set (t := gray_t_loop _ _ _ _).
  pose proof (loop_xor_all t s []) as H2. cbn [app length] in H2.
  replace (length s) with (S (length rest)) in H2.
  - exact H2.
  - unfold s. cbn [length]. f_equal. clear. revert a.
    induction rest as [|x r IH]; intros; cbn [prefx length]; auto.
Qed.

Lemma prefx_length : forall l a, length (prefx a l) = length l.
Proof. induction l as [|x r IH]; intros; cbn [prefx length]; auto. Qed.

Lemma diffs_length : forall l a, length (diffs a l) = length l.
Proof. induction l as [|x r IH]; intros; cbn [diffs length]; auto. Qed.

Definition Mof (p : nat) : N := N.shiftl 1 (N.of_nat (p - 1)).

Lemma Mof_pow2 : forall p, Mof p = 2 ^ N.of_nat (p - 1).
Proof. intros. unfold Mof. rewrite N.shiftl_mul_pow2. lia. Qed.

(* encode after decode *)
Theorem gray_encode_decode : forall p n c, (1 <= p)%nat -> (1 <= n)%nat -> length c = n ->
    Forall (fits (N.of_nat p)) c ->
    gray_encode p n (Mof p) (gray_decode n c) = c.
Proof.
  intros p n c Hp Hn Hlen Hc.
  destruct c as [|a rest]; [simpl in Hlen; lia|]. cbn [length] in Hlen. subst n.
  rewrite gray_decode_cons.
  set (b := getc (a :: rest) (length rest)).
  set (t := N.shiftr b 1).
  assert (Hb : fits (N.of_nat p) b) by (apply Forall_getc; [apply fits_0|assumption]).
  rewrite <- (diffs_length rest a) at 1.
  rewrite gray_encode_cons. cbv zeta.
  rewrite prefx_diffs_shift, diffs_length.
  change (N.lxor a t :: map (fun x => N.lxor x t) rest) with (map (fun x => N.lxor x t) (a :: rest)).
  rewrite getc_map_xor by (cbn [length]; lia). fold b.
  rewrite Mof_pow2, gray_t_loop_spec by lia. rewrite N.lxor_0_l.
  unfold t at 2. rewrite Tk_gray by assumption. fold t.
  apply map_xor_twice.
Qed.

(* decode after encode *)
Theorem gray_decode_encode : forall p n c, (1 <= p)%nat -> (1 <= n)%nat -> length c = n ->
    Forall (fits (N.of_nat p)) c ->
    gray_decode n (gray_encode p n (Mof p) c) = c.
Proof.
  intros p n c Hp Hn Hlen Hc.
  destruct c as [|a rest]; [simpl in Hlen; lia|]. cbn [length] in Hlen. subst n.
  rewrite gray_encode_cons. cbv zeta.
  set (s := a :: prefx a rest).
  set (g := getc s (length rest)).
  rewrite Mof_pow2, gray_t_loop_spec by lia. rewrite N.lxor_0_l.
  set (t := Tk g (p - 1)).
  assert (Hs : Forall (fits (N.of_nat p)) s).
  { unfold s. inversion Hc; subst. constructor; [assumption|]. now apply Forall_fits_prefx. }
  assert (Hg : fits (N.of_nat p) g) by (apply Forall_getc; [apply fits_0|assumption]).
  unfold s. cbn [map].
  replace (S (length rest)) with (S (length (map (fun x => N.lxor x t) (prefx a rest))))
    by (now rewrite map_length, prefx_length).
  rewrite gray_decode_cons.
  rewrite map_length, prefx_length.
  change (N.lxor a t :: map (fun x => N.lxor x t) (prefx a rest))
    with (map (fun x => N.lxor x t) s).
  rewrite getc_map_xor by (unfold s; cbn [length]; rewrite prefx_length; lia).
  fold g. unfold t at 2. rewrite Tk_fix by assumption. fold t.
  rewrite lxor_cancel_r, diffs_map_xor, diffs_prefx. reflexivity.
Qed.

Lemma gray_decode_length : forall n c, (1 <= n)%nat -> length c = n -> length (gray_decode n c) = n.
Proof.
  intros n c Hn Hlen. destruct c as [|a rest]; [simpl in Hlen; lia|]. cbn [length] in Hlen. subst n.
  rewrite gray_decode_cons. cbn [length]. now rewrite diffs_length.
Qed.

Lemma gray_encode_length : forall p n M c, (1 <= n)%nat -> length c = n ->
    length (gray_encode p n M c) = n.
Proof.
  intros p n M c Hn Hlen. destruct c as [|a rest]; [simpl in Hlen; lia|]. cbn [length] in Hlen. subst n.
  rewrite gray_encode_cons. cbv zeta. rewrite map_length. cbn [length]. now rewrite prefx_length.
Qed.

Lemma gray_decode_fits : forall p n c, (1 <= n)%nat -> length c = n ->
    Forall (fits (N.of_nat p)) c -> Forall (fits (N.of_nat p)) (gray_decode n c).
Proof.
  intros p n c Hn Hlen Hc. destruct c as [|a rest]; [simpl in Hlen; lia|]. cbn [length] in Hlen. subst n.
  rewrite gray_decode_cons. inversion Hc; subst. constructor.
  - apply fits_lxor; [assumption|]. apply fits_shiftr. apply Forall_getc; [apply fits_0|assumption].
  - now apply Forall_fits_diffs.
Qed.

Lemma gray_encode_fits : forall p n c, (1 <= p)%nat -> (1 <= n)%nat -> length c = n ->
    Forall (fits (N.of_nat p)) c -> Forall (fits (N.of_nat p)) (gray_encode p n (Mof p) c).
Proof.
  intros p n c Hp Hn Hlen Hc. destruct c as [|a rest]; [simpl in Hlen; lia|]. cbn [length] in Hlen. subst n.
  rewrite gray_encode_cons. cbv zeta.
  rewrite Mof_pow2, gray_t_loop_spec by lia. rewrite N.lxor_0_l.
  apply Forall_fits_map_xor; [now apply Tk_fits|].
  inversion Hc; subst. constructor; [assumption|]. now apply Forall_fits_prefx.
Qed.
