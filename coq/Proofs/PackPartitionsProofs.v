(* C09: pack_partitions under the set_index / repartition contracts. *)
From Coq Require Import ZArith NArith List Bool Arith Lia Permutation Sorted.
From SP Require Import Model.Num Model.Bounds Model.DaskModel Model.Pack
                       Spec.DaskSpec Proofs.DaskProofs.
Import ListNotations.

(* two sorted lists of keys with the same multiset of keys are the same list *)
Lemma sorted_perm_eq : forall l1 l2 : list N,
  StronglySorted N.le l1 -> StronglySorted N.le l2 -> Permutation l1 l2 -> l1 = l2.
Proof.
  induction l1 as [|a t1 IH]; intros l2 S1 S2 P.
  - apply Permutation_nil in P. subst. reflexivity.
  - destruct l2 as [|b t2]; [apply Permutation_sym, Permutation_nil in P; discriminate P|].
    inversion S1 as [|? ? S1' F1]; subst. inversion S2 as [|? ? S2' F2]; subst.
    rewrite Forall_forall in F1, F2.
    assert (Hab : a = b).
    { assert (Ia : In a (b :: t2)) by (eapply Permutation_in; [exact P | left; reflexivity]).
      assert (Ib : In b (a :: t1))
        by (eapply Permutation_in; [apply Permutation_sym, P | left; reflexivity]).
      destruct Ia as [Ea|Ia]; [symmetry; exact Ea|].
      destruct Ib as [Eb|Ib]; [exact Eb|].
      pose proof (F2 a Ia). pose proof (F1 b Ib). lia. }
    subst b. f_equal. apply IH; [exact S1' | exact S2' |].
    eapply Permutation_cons_inv. exact P.
Qed.

Lemma keys_sorted_map : forall {A} (key : A -> N) l,
  keys_sorted A key l -> StronglySorted N.le (map key l).
Proof.
  intros A key l H. apply Sorted_StronglySorted.
  - intros x y z; lia.
  - unfold keys_sorted in H. induction H as [|a l Hs IH Hhd]; [constructor|].
    cbn [map]. constructor; [exact IH|].
    destruct Hhd as [|b l' Hab]; constructor. exact Hab.
Qed.

Section PackProofs.
  Variable R : Type.
  Variable rbox : R -> bbox.
  Variable hkey : bbox -> nat -> bbox -> N.
  Variable set_index : (R * N -> N) -> N -> list (list (R * N)) -> list (list (R * N)).
  Variable repartition : N -> list (list (R * N)) -> list (list (R * N)).

  Notation with_hd := (with_hilbert_distance_column R rbox hkey).
  Notation pack := (pack_partitions R rbox hkey set_index repartition).
  Notation keyed := (keyed_rows R rbox hkey).

  (* ---- C09_key_partition_independent: the keyed rows do not depend on the input
     partitioning: the total bounds are those of the whole frame
     (total_bounds_concat) and the key is computed row by row *)
  Lemma with_hd_concat : forall parts p,
    concat (with_hd parts p) = keyed (concat parts) p.
  Proof.
    intros parts p. unfold with_hilbert_distance_column, keyed_rows.
    rewrite total_bounds_concat_rows. symmetry. apply concat_map.
  Qed.

  Lemma key_partition_independent : forall parts parts' p,
    concat parts = concat parts' ->
    concat (with_hd parts p) = concat (with_hd parts' p).
  Proof. intros parts parts' p H. rewrite !with_hd_concat, H. reflexivity. Qed.

  Hypothesis Hperm : set_index_perm (R * N) set_index.
  Hypothesis Hsorted : set_index_sorted (R * N) set_index.
  Hypothesis Hkeeps : repartition_keeps (R * N) repartition.
  Hypothesis Hcount : repartition_count (R * N) repartition.

  Lemma pack_concat : forall parts n p,
    concat (pack parts (Some n) p) = concat (set_index snd n (with_hd parts p)).
  Proof.
    intros parts n p. unfold pack_partitions. cbn [compute_packing_npartitions].
    destruct (negb (nparts (set_index snd n (with_hd parts p)) =? n)%N);
      [apply Hkeeps | reflexivity].
  Qed.

  (* ---- C09_partial *)
  Theorem pack_rows : forall parts n p,
    Permutation (concat (pack parts (Some n) p)) (keyed (concat parts) p).
  Proof.
    intros parts n p. rewrite pack_concat, <- with_hd_concat. apply Hperm.
  Qed.

  Theorem pack_own_key : forall parts n p r k,
    In (r, k) (concat (pack parts (Some n) p)) ->
    In r (concat parts) /\
    k = hkey (pandas_total_bounds R rbox (concat parts)) p (rbox r).
  Proof.
    intros parts n p r k Hin.
    apply (Permutation_in _ (pack_rows parts n p)) in Hin.
    unfold keyed_rows in Hin. apply in_map_iff in Hin.
    destruct Hin as (r' & E & Hr'). injection E as -> <-. split; [exact Hr' | reflexivity].
  Qed.

  Theorem pack_sorted : forall parts n p,
    keys_sorted (R * N) snd (concat (pack parts (Some n) p)).
  Proof. intros parts n p. rewrite pack_concat. apply Hsorted. Qed.

  Theorem pack_count : forall parts n p,
    N.of_nat (length (pack parts (Some n) p)) = n.
  Proof.
    intros parts n p. unfold pack_partitions. cbn [compute_packing_npartitions].
    destruct (nparts (set_index snd n (with_hd parts p)) =? n)%N eqn:E; cbn [negb].
    - apply N.eqb_eq in E. exact E.
    - apply Hcount.
  Qed.

  (* two packings of the same rows, differently partitioned: the same ordered list of
     keys, and for every key value the same rows (up to order: ties) *)
  Theorem pack_input_partitioning : forall parts parts' n n' p,
    concat parts = concat parts' ->
    map snd (concat (pack parts (Some n) p)) = map snd (concat (pack parts' (Some n') p)) /\
    forall k, Permutation (filter (fun x => N.eqb (snd x) k) (concat (pack parts (Some n) p)))
                          (filter (fun x => N.eqb (snd x) k) (concat (pack parts' (Some n') p))).
  Proof.
    intros parts parts' n n' p H.
    assert (P : Permutation (concat (pack parts (Some n) p)) (concat (pack parts' (Some n') p))).
    { eapply Permutation_trans; [apply pack_rows|].
      rewrite H. apply Permutation_sym, pack_rows. }
    split.
    - apply sorted_perm_eq.
      + apply keys_sorted_map, pack_sorted.
      + apply keys_sorted_map, pack_sorted.
      + apply Permutation_map, P.
    - intros k. clear H.
      induction P as [|x l l' P IH|x y l|l l' l'' P1 IH1 P2 IH2].
      + constructor.
      + cbn. destruct (snd x =? k)%N; [constructor|]; exact IH.
      + cbn. destruct (snd x =? k)%N, (snd y =? k)%N; try apply Permutation_refl. apply perm_swap.
      + eapply Permutation_trans; eassumption.
  Qed.
End PackProofs.
