(* C19, recovery clause: closed instances (setup M of harness/c19.py, Proofs/PackExamples.v),
   decided by computation inside the kernel. *)
From Coq Require Import ZArith List Bool Arith String Permutation.
From SP Require Import Harness Model.FS Model.PackFS Model.Retry Spec.PackSpec Proofs.PackExamples
  Proofs.RetryRecover.
Import ListNotations.
Local Open Scope string_scope.
Local Open Scope list_scope.

(* an aborted run: retry budget 1, the 31st filesystem call (the open-for-write of
   ds/part.2.parquet in concat_parts) fails after creating the file *)
Definition sched_abort : list (option fault) := single 30 (FPartial 0).

(* the repeat runs its tasks in another order *)
Definition io2 : list nat := [0; 1].
Definition co2 : list nat := [0; 1; 2; 3].

(* non-vacuity of C19_recover (flat external temp directories t<N>): the premises hold, the
   run aborts leaving a half-built dataset (placeholder directories, one finished part, no
   metadata) AND sub-part files in the temp directories t0, t2 outside the dataset; the
   fault-free repeat with overwrite=True, in another task order, ends in exactly keep/ + the
   fault-free dataset: nothing of the aborted run is left inside or outside *)
Lemma recover_example_flat :
  (prior_ok priorM (cfgM (TExternal [])) /\ tmp_separate (cfgM (TExternal [])) /\ wf_asg 4 asgM /\
   wf_orders (cfgM (TExternal [])) asgM /\ wf_orders (recover_cfg (cfgM (TExternal [])) io2 co2) asgM /\
   nonempty_outputs 4 asgM <> []) /\
  exists s parts f2,
    packF 1 sched_abort priorM (cfgM (TExternal [])) asgM = Err s /\
    node_at (st_fs s) [NTmp 0; NSub 1] = Some (File (CRows [(1, 0)])) /\
    node_at (st_fs s) [NTmp 2; NSub 1] = Some (File (CRows [(1, 2)])) /\
    node_at (st_fs s) (ds ++ [NPart 0]) = Some Dir /\
    node_at (st_fs s) (ds ++ [NMeta]) = None /\
    pack (st_fs s) (recover_cfg (cfgM (TExternal [])) io2 co2) asgM = OK parts f2 /\
    fs_eqb f2 (keepM ++ datasetM) = true /\
    node_at f2 [NTmp 0] = None /\ node_at f2 [NTmp 2; NSub 1] = None.
Proof.
  split.
  - destruct premises_M_flat as (H1 & H2 & H3 & H4 & H5).
    split; [exact H1|]. split; [exact H2|]. split; [exact H3|]. split; [exact H4|]. split; [|exact H5].
    split; simpl; apply Permutation_refl.
  - eexists. eexists. eexists. split; [vm_compute; reflexivity|].
    repeat (split; [vm_compute; reflexivity|]). vm_compute; reflexivity.
Qed.

(* the same in the default mode (temp directory = the part's own placeholder directory) *)
Lemma recover_example_inside :
  exists s parts f2,
    packF 1 sched_abort priorM (cfgM TInside) asgM = Err s /\
    node_at (st_fs s) (ds ++ [NPart 0; NSub 1]) = Some (File (CRows [(1, 0)])) /\
    pack (st_fs s) (recover_cfg (cfgM TInside) io2 co2) asgM = OK parts f2 /\
    fs_eqb f2 (keepM ++ datasetM) = true.
Proof.
  eexists. eexists. eexists. split; [vm_compute; reflexivity|].
  repeat (split; [vm_compute; reflexivity|]). vm_compute; reflexivity.
Qed.

(* ------------------------------------------------------------------ {uuid} in the temp format *)
Definition uuid_parent2 : path := [NStr "tmp"; NStr "5eed0000-0000-4000-8000-000000000002"].

(* "nothing of the aborted run survives the repeat" is FALSE when tempdir_format has a {uuid}:
   the repeat uses tmp/<uuid2>/t<N>, returns normally with the right dataset, and the sub-part
   file tmp/<uuid1>/t0/part1.parquet of the aborted run -- which is neither in the prior tree
   nor in the tree of a fault-free call -- is still there *)
Lemma uuid_debris_stays :
  exists s parts f2 parts1 f1 q,
    packF 1 sched_abort priorM (cfgM (TExternal uuid_parent)) asgM = Err s /\
    pack (st_fs s) (retmp_cfg (cfgM (TExternal uuid_parent)) uuid_parent2 io2 co2) asgM = OK parts f2 /\
    pack priorM (cfgM (TExternal uuid_parent)) asgM = OK parts1 f1 /\
    fs_eqb (filter (fun e => is_prefix ds (fst e)) f2) datasetM = true /\
    is_prefix ds q = false /\
    node_at priorM q = None /\ node_at f1 q = None /\
    node_at f2 q = Some (File (CRows [(1, 0)])).
Proof.
  eexists. eexists. eexists. eexists. eexists. exists (uuid_parent ++ [NTmp 0; NSub 1]).
  split; [vm_compute; reflexivity|].
  repeat (split; [vm_compute; reflexivity|]). vm_compute; reflexivity.
Qed.
