(* segment_intersects_point is exactly "P lies on the closed segment". *)
From Coq Require Import ZArith List Bool Reals Lra Lia Psatz ZifyBool.
From SP Require Import Model.PointKernels Spec.PointShapeSpec.
Import ListNotations.

(* the decision, as integer (in)equalities *)
Lemma sip_spec_z : forall ax0 ay0 ax1 ay1 bx by_,
  segment_intersects_point ax0 ay0 ax1 ay1 bx by_ = true <->
  ((ax0 <= bx <= ax1 \/ ax1 <= bx <= ax0) /\
   (ay0 <= by_ <= ay1 \/ ay1 <= by_ <= ay0) /\
   (ax1 - ax0) * (by_ - ay0) - (ay1 - ay0) * (bx - ax0) = 0)%Z.
Proof.
  intros. unfold segment_intersects_point.
  destruct ((bx <? Z.min ax0 ax1)%Z || (Z.max ax0 ax1 <? bx)%Z) eqn:E1.
  { split; [discriminate | lia]. }
  destruct ((by_ <? Z.min ay0 ay1)%Z || (Z.max ay0 ay1 <? by_)%Z) eqn:E2.
  { split; [discriminate | lia]. }
  rewrite Z.eqb_eq. lia.
Qed.

Open Scope R_scope.

Lemma on_seg_of_cross : forall a0 b0 a1 b1 x y : R,
  (a0 <= x <= a1 \/ a1 <= x <= a0) ->
  (b0 <= y <= b1 \/ b1 <= y <= b0) ->
  (a1 - a0) * (y - b0) - (b1 - b0) * (x - a0) = 0 ->
  on_seg (a0, b0) (a1, b1) (x, y).
Proof.
  intros a0 b0 a1 b1 x y Hx Hy Hc. unfold on_seg; simpl.
  destruct (Req_dec a0 a1) as [Ea|Na].
  - subst a1. assert (x = a0) by lra. subst x.
    destruct (Req_dec b0 b1) as [Eb|Nb].
    + subst b1. exists 0. split; [lra|]. split; lra.
    + set (t := (y - b0) / (b1 - b0)).
      assert (Ht : t * (b1 - b0) = y - b0) by (unfold t; field; lra).
      exists t. split; [|split; [lra | lra]].
      destruct Hy as [Hy|Hy]; split; nra.
  - set (t := (x - a0) / (a1 - a0)).
    assert (Ht : t * (a1 - a0) = x - a0) by (unfold t; field; lra).
    exists t. split; [|split; [lra|]].
    + destruct Hx as [Hx|Hx]; split; nra.
    + apply Rmult_eq_reg_l with (a1 - a0); [|lra].
      replace ((a1 - a0) * (b0 + t * (b1 - b0)))
        with ((a1 - a0) * b0 + (t * (a1 - a0)) * (b1 - b0)) by ring.
      rewrite Ht. lra.
Qed.

Lemma cross_of_on_seg : forall a0 b0 a1 b1 x y : R,
  on_seg (a0, b0) (a1, b1) (x, y) ->
  (a0 <= x <= a1 \/ a1 <= x <= a0) /\
  (b0 <= y <= b1 \/ b1 <= y <= b0) /\
  (a1 - a0) * (y - b0) - (b1 - b0) * (x - a0) = 0.
Proof.
  intros a0 b0 a1 b1 x y [t [Ht [Hx Hy]]]. simpl in *. subst x y.
  split; [|split].
  - destruct (Rle_dec a0 a1); [left | right]; split; nra.
  - destruct (Rle_dec b0 b1); [left | right]; split; nra.
  - ring.
Qed.

(* both directions; the zero-length segment (a0 = a1) is the point a0; a point
   collinear with the segment but beyond its end fails the coordinate ranges *)
Theorem sip_correct : forall ax0 ay0 ax1 ay1 bx by_ : Z,
  segment_intersects_point ax0 ay0 ax1 ay1 bx by_ = true <->
  on_seg (IZR ax0, IZR ay0) (IZR ax1, IZR ay1) (IZR bx, IZR by_).
Proof.
  intros. rewrite sip_spec_z. split.
  - intros [Hx [Hy Hc]]. apply on_seg_of_cross.
    + destruct Hx as [[H1 H2]|[H1 H2]]; [left | right]; split; now apply IZR_le.
    + destruct Hy as [[H1 H2]|[H1 H2]]; [left | right]; split; now apply IZR_le.
    + rewrite <- !minus_IZR, <- !mult_IZR, <- minus_IZR. now rewrite Hc.
  - intros H. apply cross_of_on_seg in H as [Hx [Hy Hc]]. split; [|split].
    + destruct Hx as [[H1 H2]|[H1 H2]]; [left | right]; split; now apply le_IZR.
    + destruct Hy as [[H1 H2]|[H1 H2]]; [left | right]; split; now apply le_IZR.
    + apply eq_IZR. rewrite minus_IZR, !mult_IZR, !minus_IZR. exact Hc.
Qed.

(* a point collinear with a non-degenerate segment but beyond its end is
   rejected (the configuration named in the property's quantifier) *)
Corollary sip_beyond_end : forall ax0 ay0 ax1 ay1 bx by_ : Z,
  ((bx < ax0 /\ bx < ax1) \/ (ax0 < bx /\ ax1 < bx) \/
   (by_ < ay0 /\ by_ < ay1) \/ (ay0 < by_ /\ ay1 < by_))%Z ->
  segment_intersects_point ax0 ay0 ax1 ay1 bx by_ = false.
Proof.
  intros. destruct (segment_intersects_point ax0 ay0 ax1 ay1 bx by_) eqn:E; [|reflexivity].
  apply sip_spec_z in E. lia.
Qed.
