(* Completeness of the bounds= filter: a partition holding an element whose
   bounds overlap the query box is kept.  Uses C13: every bounds row lies inside
   the total bounds of its array (BoundsProofs.la_rows_in_total), and the
   recorded partition extent is that total (C12_codec / C12_alignment). *)
From Coq Require Import ZArith List Bool Arith Lia.
From SP Require Import Model.Num Model.Arrow Model.Bounds Spec.BoundsSpec Proofs.BoundsProofs
  Model.MetaCodec Spec.ParquetSpec Proofs.MetaCodecProofs.
Import ListNotations.
Local Open Scope nat_scope.

Lemma overlaps_grow : forall q x0 y0 x1 y1 X0 Y0 X1 Y1,
  overlaps q (Some x0, Some y0, Some x1, Some y1) ->
  (X0 <= x0)%Z -> (Y0 <= y0)%Z -> (x1 <= X1)%Z -> (y1 <= Y1)%Z ->
  overlaps q (Some X0, Some Y0, Some X1, Some Y1).
Proof.
  intros q x0 y0 x1 y1 X0 Y0 X1 Y1 (ax & ay & cx & cy & a0 & b0 & a1 & b1 & Eq & Eb & H) H0 H1 H2 H3.
  injection Eb as <- <- <- <-.
  exists ax, ay, cx, cy, X0, Y0, X1, Y1. repeat split; try assumption; lia.
Qed.

(* list-backed arrays *)
Theorem la_row_overlap_keeps : forall a i q,
  wf_listarr a = true -> nulls_empty a = true -> even_outer a = true ->
  i < la_len a -> isna_at (la_valid a) (la_off a) i = false ->
  overlaps q (nth i (la_bounds a) nanbox) ->
  keep q (la_total_bounds a) = true.
Proof.
  intros a i q Hw Hn He Hi Hna Hov. apply keep_iff.
  destruct (nth i (la_bounds a) nanbox) as [[[x0 y0] x1] y1] eqn:Er.
  pose proof (la_rows_in_total a i x0 y0 x1 y1 Hw Hn He Hi Hna Er) as H.
  destruct (la_total_bounds a) as [[[X0 Y0] X1] Y1].
  destruct H as (Hx0 & Hx1 & Hy0 & Hy1).
  assert (Hov' := Hov).
  destruct Hov' as (ax & ay & cx & cy & a0 & b0 & a1 & b1 & Eq & Eb & _).
  injection Eb as -> -> -> ->.
  destruct (Hx0 _ eq_refl) as (t0 & -> & L0). destruct (Hx1 _ eq_refl) as (t1 & -> & L1).
  destruct (Hy0 _ eq_refl) as (u0 & -> & M0). destruct (Hy1 _ eq_refl) as (u1 & -> & M1).
  eapply overlaps_grow; eauto.
Qed.

(* point arrays *)
Lemma pairs_point_coords : forall l,
  pairs (concat (map point_coords l)) =
  flat_map (fun p => match p with Some xy => [xy] | None => [] end) l.
Proof.
  induction l as [|p l IH]; [reflexivity|].
  cbn [map concat flat_map]. destruct p as [[x y]|]; cbn; now rewrite IH.
Qed.

Lemma fa_point_in_total : forall a x y,
  wf_fixarr a = true -> In (Some (Some x, Some y)) (fa_decode a) ->
  exists t0 u0 t1 u1, fa_total_bounds a = (Some t0, Some u0, Some t1, Some u1) /\
    (t0 <= x <= t1)%Z /\ (u0 <= y <= u1)%Z.
Proof.
  intros a x y Hw Hin.
  pose proof (fa_total_tight a Hw) as Ht.
  destruct (fa_total_bounds a) as [[[X0 Y0] X1] Y1]. destruct Ht as [Hx Hy].
  assert (Hp : In (Some x, Some y) (pairs (fa_valid_coords a))).
  { unfold fa_valid_coords. rewrite pairs_point_coords, in_flat_map.
    exists (Some (Some x, Some y)). split; [assumption | now left]. }
  assert (Ix : In x (xs_of (fa_valid_coords a))).
  { unfold xs_of. apply in_finite_of. apply in_map_iff. exists (Some x, Some y). auto. }
  assert (Iy : In y (ys_of (fa_valid_coords a))).
  { unfold ys_of. apply in_finite_of. apply in_map_iff. exists (Some x, Some y). auto. }
  unfold extent in Hx, Hy.
  destruct (xs_of (fa_valid_coords a)) as [|x' xs] eqn:Ex; [destruct Ix|].
  destruct (ys_of (fa_valid_coords a)) as [|y' ys] eqn:Ey; [destruct Iy|].
  destruct Hx as (a0 & b0 & -> & -> & [_ Hmin] & [_ Hmax]).
  destruct Hy as (c0 & d0 & -> & -> & [_ Hmin'] & [_ Hmax']).
  exists a0, c0, b0, d0. split; [reflexivity|].
  specialize (Hmin _ Ix). specialize (Hmax _ Ix).
  specialize (Hmin' _ Iy). specialize (Hmax' _ Iy). lia.
Qed.

Theorem fa_row_overlap_keeps : forall a i q,
  wf_fixarr a = true -> i < fa_len a ->
  overlaps q (nth i (fa_bounds a) nanbox) ->
  keep q (fa_total_bounds a) = true.
Proof.
  intros a i q Hw Hi Hov. apply keep_iff.
  rewrite (fa_bounds_rows a Hw) in Hov.
  assert (Hlen : length (fa_decode a) = fa_len a)
    by (unfold fa_decode; now rewrite map_length, seq_length).
  rewrite (nth_indep _ nanbox ((fun p => total_bounds_interleaved (point_coords p)) None)) in Hov
    by (now rewrite map_length, Hlen).
  rewrite (map_nth (fun p => total_bounds_interleaved (point_coords p))) in Hov.
  assert (Hin : In (nth i (fa_decode a) None) (fa_decode a)) by (apply nth_In; lia).
  destruct (nth i (fa_decode a) None) as [[x y]|] eqn:Ed.
  - destruct x as [x|], y as [y|]; cbn in Hov;
      try (destruct Hov as (? & ? & ? & ? & ? & ? & ? & ? & _ & Eb & _); discriminate).
    destruct (fa_point_in_total a x y Hw Hin) as (t0 & u0 & t1 & u1 & -> & Hx & Hy).
    eapply overlaps_grow; [exact Hov | lia | lia | lia | lia].
  - cbn in Hov. destruct Hov as (? & ? & ? & ? & ? & ? & ? & ? & _ & Eb & _). discriminate.
Qed.

(* the partition-level statement: the recorded rows are the total bounds of the
   partitions' active geometry arrays; an overlapping element puts its partition
   among the kept positions *)
Theorem prune_complete_list : forall (parts : list listarr) q j i d,
  j < length parts ->
  let a := nth j parts d in
  wf_listarr a = true -> nulls_empty a = true -> even_outer a = true ->
  i < la_len a -> isna_at (la_valid a) (la_off a) i = false ->
  overlaps q (nth i (la_bounds a) nanbox) ->
  In j (overlapping q (map la_total_bounds parts)).
Proof.
  intros parts q j i d Hj a Hw Hn He Hi Hna Hov.
  unfold overlapping. apply filter_In. rewrite map_length. split; [apply in_seq; lia|].
  rewrite (nth_indep _ nanbox (la_total_bounds d)) by (now rewrite map_length).
  rewrite map_nth. fold a. rewrite <- keep_overlapsb.
  eapply la_row_overlap_keeps; eauto.
Qed.

Theorem prune_complete_points : forall (parts : list fixarr) q j i d,
  j < length parts ->
  let a := nth j parts d in
  wf_fixarr a = true -> i < fa_len a ->
  overlaps q (nth i (fa_bounds a) nanbox) ->
  In j (overlapping q (map fa_total_bounds parts)).
Proof.
  intros parts q j i d Hj a Hw Hi Hov.
  unfold overlapping. apply filter_In. rewrite map_length. split; [apply in_seq; lia|].
  rewrite (nth_indep _ nanbox (fa_total_bounds d)) by (now rewrite map_length).
  rewrite map_nth. fold a. rewrite <- keep_overlapsb.
  eapply fa_row_overlap_keeps; eauto.
Qed.
