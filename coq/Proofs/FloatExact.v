(* A-FLOAT (DESIGN 3.1) as a theorem, for the scalar intersection kernels.

   Model/FloatKernels.v transcribes the numba kernels over IEEE binary64 (Coq's
   primitive floats).  Here: on floats that are images of integers |z| <= 2^25 these
   float kernels return exactly what the integer models of Model/PointKernels.v and
   Model/Intersect.v return.  Route: Flocq's IEEE754.PrimFloat ties the primitive
   operations to [Bplus]/[Bminus]/[Bmult]/[Bltb]... (through the standard library's
   FloatAxioms); [Bminus_correct]/[Bmult_correct] say the result is the rounding of
   the exact result; an integer of magnitude <= 2^53 is in the binary64 format, so
   rounding is the identity; the kernels only form differences of coordinates
   (<= 2^26), products of two differences (<= 2^52) and differences of two such
   products (<= 2^53).

   [Fint f z]: f is finite and its real value is the integer z (so both +0.0 and
   -0.0 represent 0).  The [..._rel] theorems are stated for ANY floats related to
   small integers; the [..._float_exact] theorems instantiate them with the
   executable injection [Z2F].  At the end: compute_area (measures.py), PARTIAL (the
   running sum must stay within 2^53; see there). *)
From Coq Require Import ZArith List Bool Arith Lia Reals Lra Floats.
From Flocq Require Import Core.Core IEEE754.BinarySingleNaN IEEE754.PrimFloat.
From SP Require Import Model.Num Model.Arrow Model.FloatKernels Model.PointKernels Model.Intersect
                       Model.Measures.
Import ListNotations.

Local Notation fexp64 := (SpecFloat.fexp prec emax).

(* f is a finite float whose value is the integer z *)
Definition Fint (f : float) (z : Z) : Prop :=
  BinarySingleNaN.is_finite (Prim2B f) = true /\ B2R (Prim2B f) = IZR z.

Lemma int_format : forall z, (Z.abs z <= 2 ^ 53)%Z ->
  generic_format radix2 fexp64 (IZR z).
Proof.
  intros z Hz.
  change fexp64 with (FLT_exp (-1074) 53).
  destruct (Z.eq_dec (Z.abs z) (2 ^ 53)) as [E|NE].
  - apply generic_format_FLT.
    apply (FLT_spec radix2 (-1074) 53 (IZR z) (Float radix2 (Z.sgn z) 53)).
    + unfold F2R; simpl Fnum; simpl Fexp.
      change (bpow radix2 53) with (IZR (2 ^ 53)).
      rewrite <- mult_IZR. f_equal. lia.
    + simpl. lia.
    + simpl. lia.
  - apply generic_format_FLT.
    apply (FLT_spec radix2 (-1074) 53 (IZR z) (Float radix2 z 0)).
    + unfold F2R; simpl. lra.
    + simpl. change (Z.pow_pos 2 53) with (2 ^ 53)%Z. lia.
    + simpl. lia.
Qed.

Lemma int_round : forall z, (Z.abs z <= 2 ^ 53)%Z ->
  round radix2 fexp64 (round_mode mode_NE) (IZR z) = IZR z.
Proof.
  intros z Hz. apply round_generic.
  - apply valid_rnd_N.
  - apply int_format; exact Hz.
Qed.

Lemma int_lt_emax : forall z, (Z.abs z <= 2 ^ 53)%Z ->
  Rlt_bool (Rabs (IZR z)) (bpow radix2 emax) = true.
Proof.
  intros z Hz. apply Rlt_bool_true.
  rewrite <- abs_IZR.
  change (bpow radix2 emax) with (IZR (2 ^ 1024)).
  apply IZR_lt.
  assert (2 ^ 53 < 2 ^ 1024)%Z by (apply Z.pow_lt_mono_r; lia).
  lia.
Qed.

(* ---- comparisons of reals that are integers ---- *)
Lemma Rlt_bool_IZR : forall a b, Rlt_bool (IZR a) (IZR b) = (a <? b)%Z.
Proof.
  intros a b. destruct (Z.ltb_spec a b) as [H|H].
  - apply Rlt_bool_true. apply IZR_lt; exact H.
  - apply Rlt_bool_false. apply IZR_le; exact H.
Qed.

Lemma Rle_bool_IZR : forall a b, Rle_bool (IZR a) (IZR b) = (a <=? b)%Z.
Proof.
  intros a b. destruct (Z.leb_spec a b) as [H|H].
  - apply Rle_bool_true. apply IZR_le; exact H.
  - apply Rle_bool_false. apply IZR_lt; exact H.
Qed.

Lemma Req_bool_IZR : forall a b, Req_bool (IZR a) (IZR b) = (a =? b)%Z.
Proof.
  intros a b. destruct (Z.eqb_spec a b) as [H|H].
  - apply Req_bool_true. rewrite H; reflexivity.
  - apply Req_bool_false. intro E. apply eq_IZR in E. contradiction.
Qed.

(* ---- float comparisons agree with Z comparisons ---- *)
Lemma Fint_ltb : forall a b za zb, Fint a za -> Fint b zb ->
  (a <? b)%float = (za <? zb)%Z.
Proof.
  intros a b za zb [Fa Ra] [Fb Rb].
  rewrite ltb_equiv, Bltb_correct by assumption.
  rewrite Ra, Rb. apply Rlt_bool_IZR.
Qed.

Lemma Fint_leb : forall a b za zb, Fint a za -> Fint b zb ->
  (a <=? b)%float = (za <=? zb)%Z.
Proof.
  intros a b za zb [Fa Ra] [Fb Rb].
  rewrite leb_equiv, Bleb_correct by assumption.
  rewrite Ra, Rb. apply Rle_bool_IZR.
Qed.

Lemma Fint_eqb : forall a b za zb, Fint a za -> Fint b zb ->
  (a =? b)%float = (za =? zb)%Z.
Proof.
  intros a b za zb [Fa Ra] [Fb Rb].
  rewrite eqb_equiv, Beqb_correct by assumption.
  rewrite Ra, Rb. apply Req_bool_IZR.
Qed.

(* ---- exact operations ---- *)
Lemma Fint_sub : forall a b za zb, Fint a za -> Fint b zb ->
  (Z.abs (za - zb) <= 2 ^ 53)%Z -> Fint (a - b)%float (za - zb).
Proof.
  intros a b za zb [Fa Ra] [Fb Rb] H.
  unfold Fint. rewrite sub_equiv.
  generalize (Bminus_correct prec emax Hprec Hmax mode_NE (Prim2B a) (Prim2B b) Fa Fb).
  rewrite Ra, Rb, <- minus_IZR, (int_round _ H), (int_lt_emax _ H).
  intros (R & F & _). split; assumption.
Qed.

Lemma Fint_add : forall a b za zb, Fint a za -> Fint b zb ->
  (Z.abs (za + zb) <= 2 ^ 53)%Z -> Fint (a + b)%float (za + zb).
Proof.
  intros a b za zb [Fa Ra] [Fb Rb] H.
  unfold Fint. rewrite add_equiv.
  generalize (Bplus_correct prec emax Hprec Hmax mode_NE (Prim2B a) (Prim2B b) Fa Fb).
  rewrite Ra, Rb, <- plus_IZR, (int_round _ H), (int_lt_emax _ H).
  intros (R & F & _). split; assumption.
Qed.

Lemma Fint_mul : forall a b za zb, Fint a za -> Fint b zb ->
  (Z.abs (za * zb) <= 2 ^ 53)%Z -> Fint (a * b)%float (za * zb).
Proof.
  intros a b za zb [Fa Ra] [Fb Rb] H.
  unfold Fint. rewrite mul_equiv.
  generalize (Bmult_correct prec emax Hprec Hmax mode_NE (Prim2B a) (Prim2B b)).
  rewrite Ra, Rb, <- mult_IZR, (int_round _ H), (int_lt_emax _ H).
  intros (R & F & _). rewrite Fa, Fb in F. split; assumption.
Qed.

Lemma Fint_zero : Fint 0%float 0.
Proof.
  change 0%float with zero. rewrite zero_equiv.
  unfold Fint. rewrite Prim2B_B2Prim. split; reflexivity.
Qed.

Lemma Fint_neg_zero : Fint neg_zero 0.
Proof.
  rewrite neg_zero_equiv.
  unfold Fint. rewrite Prim2B_B2Prim. split; reflexivity.
Qed.

Lemma Fint_opp : forall a za, Fint a za -> Fint (- a)%float (- za).
Proof.
  intros a za [Fa Ra]. unfold Fint.
  rewrite opp_equiv, is_finite_Bopp, B2R_Bopp, Ra, opp_IZR. split; [assumption|reflexivity].
Qed.

Lemma Fint_of_pos : forall p, (Z.pos p <= 2 ^ 53)%Z ->
  Fint (of_uint63 (Uint63.of_Z (Z.pos p))) (Z.pos p).
Proof.
  intros p Hp. unfold Fint.
  rewrite of_int63_equiv.
  assert (E : Uint63.to_Z (Uint63.of_Z (Z.pos p)) = Z.pos p).
  { rewrite Uint63.of_Z_spec. apply Z.mod_small.
    assert (2 ^ 53 < Uint63.wB)%Z by reflexivity. lia. }
  rewrite E.
  generalize (binary_normalize_correct prec emax Hprec Hmax mode_NE (Z.pos p) 0 false).
  assert (EF : F2R (Float radix2 (Z.pos p) 0) = IZR (Z.pos p)).
  { unfold F2R; simpl. lra. }
  assert (Hp' : (Z.abs (Z.pos p) <= 2 ^ 53)%Z) by (simpl; exact Hp).
  cbv zeta. rewrite EF, (int_round _ Hp'), (int_lt_emax _ Hp').
  intros (R & F & _). split; assumption.
Qed.

(* the executable injection is correct on |z| <= 2^53 *)
Theorem Z2F_Fint : forall z, (Z.abs z <= 2 ^ 53)%Z -> Fint (Z2F z) z.
Proof.
  intros [|p|p] H; unfold Z2F.
  - exact Fint_zero.
  - apply Fint_of_pos. exact H.
  - change (Z.neg p) with (- Z.pos p)%Z. apply Fint_opp. apply Fint_of_pos. exact H.
Qed.

(* ====================================================================
   the kernels
   ==================================================================== *)

(* a coordinate of the exact regime (DESIGN 3.1): |z| <= 2^25 *)
Definition small (z : Z) : Prop := (Z.abs z <= 2 ^ 25)%Z.

(* f represents the small integer z *)
Definition FintS (f : float) (z : Z) : Prop := Fint f z /\ small z.

Lemma FintS_Z2F : forall z, small z -> FintS (Z2F z) z.
Proof.
  intros z H. split; [|exact H]. apply Z2F_Fint. unfold small in H.
  assert (2 ^ 25 <= 2 ^ 53)%Z by (apply Z.pow_le_mono_r; lia). lia.
Qed.

Lemma abs_mul_le : forall a b A B, (Z.abs a <= A)%Z -> (Z.abs b <= B)%Z ->
  (Z.abs (a * b) <= A * B)%Z.
Proof.
  intros a b A B Ha Hb. rewrite Z.abs_mul.
  apply Z.mul_le_mono_nonneg; try assumption; apply Z.abs_nonneg.
Qed.

(* difference of two coordinates: exact, |.| <= 2^26 *)
Lemma FintS_diff : forall a b za zb, FintS a za -> FintS b zb ->
  Fint (a - b)%float (za - zb) /\ (Z.abs (za - zb) <= 2 ^ 26)%Z.
Proof.
  intros a b za zb [Fa Sa] [Fb Sb]. unfold small in *.
  change (2 ^ 25)%Z with 33554432%Z in *.
  assert (H : (Z.abs (za - zb) <= 2 ^ 26)%Z) by (change (2 ^ 26)%Z with 67108864%Z; lia).
  split; [|exact H].
  apply Fint_sub; try assumption.
  change (2 ^ 26)%Z with 67108864%Z in H. change (2 ^ 53)%Z with 9007199254740992%Z. lia.
Qed.

(* a*b - c*d for differences a b c d: products <= 2^52, result <= 2^53, all exact *)
Lemma Fint_cross : forall a b c d za zb zc zd,
  Fint a za -> Fint b zb -> Fint c zc -> Fint d zd ->
  (Z.abs za <= 2 ^ 26)%Z -> (Z.abs zb <= 2 ^ 26)%Z ->
  (Z.abs zc <= 2 ^ 26)%Z -> (Z.abs zd <= 2 ^ 26)%Z ->
  Fint (a * b - c * d)%float (za * zb - zc * zd).
Proof.
  intros a b c d za zb zc zd Fa Fb Fc Fd Ha Hb Hc Hd.
  pose proof (abs_mul_le _ _ _ _ Ha Hb) as Hab.
  pose proof (abs_mul_le _ _ _ _ Hc Hd) as Hcd.
  change (2 ^ 26 * 2 ^ 26)%Z with 4503599627370496%Z in *.
  apply Fint_sub.
  - apply Fint_mul; try assumption. change (2 ^ 53)%Z with 9007199254740992%Z. lia.
  - apply Fint_mul; try assumption. change (2 ^ 53)%Z with 9007199254740992%Z. lia.
  - change (2 ^ 53)%Z with 9007199254740992%Z. lia.
Qed.

(* the cross product of two difference vectors, as all three kernels form it *)
Lemma FintS_cross : forall p q r s t u v w zp zq zr zs zt zu zv zw,
  FintS p zp -> FintS q zq -> FintS r zr -> FintS s zs ->
  FintS t zt -> FintS u zu -> FintS v zv -> FintS w zw ->
  Fint ((p - q) * (r - s) - (t - u) * (v - w))%float
       ((zp - zq) * (zr - zs) - (zt - zu) * (zv - zw)).
Proof.
  intros p q r s t u v w zp zq zr zs zt zu zv zw Hp Hq Hr Hs Ht Hu Hv Hw.
  destruct (FintS_diff _ _ _ _ Hp Hq) as [F1 B1].
  destruct (FintS_diff _ _ _ _ Hr Hs) as [F2 B2].
  destruct (FintS_diff _ _ _ _ Ht Hu) as [F3 B3].
  destruct (FintS_diff _ _ _ _ Hv Hw) as [F4 B4].
  apply Fint_cross; assumption.
Qed.

(* numba's min / max *)
Lemma FintS_fmin : forall a b za zb, FintS a za -> FintS b zb ->
  FintS (fmin a b) (Z.min za zb).
Proof.
  intros a b za zb Ha Hb. unfold fmin.
  rewrite (Fint_ltb _ _ _ _ (proj1 Hb) (proj1 Ha)).
  destruct (Z.ltb_spec zb za) as [H|H].
  - rewrite Z.min_r by lia. exact Hb.
  - rewrite Z.min_l by lia. exact Ha.
Qed.

Lemma FintS_fmax : forall a b za zb, FintS a za -> FintS b zb ->
  FintS (fmax a b) (Z.max za zb).
Proof.
  intros a b za zb Ha Hb. unfold fmax.
  rewrite (Fint_ltb _ _ _ _ (proj1 Ha) (proj1 Hb)).
  destruct (Z.ltb_spec za zb) as [H|H].
  - rewrite Z.max_r by lia. exact Hb.
  - rewrite Z.max_l by lia. exact Ha.
Qed.

(* ---- triangle_orientation ---- *)
Theorem triangle_orientation_float_exact_rel :
  forall ax ay bx by_ cx cy zax zay zbx zby zcx zcy,
  FintS ax zax -> FintS ay zay -> FintS bx zbx -> FintS by_ zby ->
  FintS cx zcx -> FintS cy zcy ->
  ftriangle_orientation ax ay bx by_ cx cy =
  triangle_orientation zax zay zbx zby zcx zcy.
Proof.
  intros ax ay bx by_ cx cy zax zay zbx zby zcx zcy Hax Hay Hbx Hby Hcx Hcy.
  unfold ftriangle_orientation, triangle_orientation. cbv zeta.
  pose proof (FintS_cross _ _ _ _ _ _ _ _ _ _ _ _ _ _ _ _ Hbx Hax Hcy Hay Hby Hay Hcx Hax) as Hc.
  rewrite (Fint_ltb _ _ _ _ Fint_zero Hc), (Fint_ltb _ _ _ _ Hc Fint_zero).
  reflexivity.
Qed.

(* ---- segments_intersect_1d ---- *)
Theorem segments_intersect_1d_float_exact_rel :
  forall ax0 ax1 bx0 bx1 zax0 zax1 zbx0 zbx1,
  FintS ax0 zax0 -> FintS ax1 zax1 -> FintS bx0 zbx0 -> FintS bx1 zbx1 ->
  fsegments_intersect_1d ax0 ax1 bx0 bx1 = segments_intersect_1d zax0 zax1 zbx0 zbx1.
Proof.
  intros ax0 ax1 bx0 bx1 zax0 zax1 zbx0 zbx1 Ha0 Ha1 Hb0 Hb1.
  unfold fsegments_intersect_1d, segments_intersect_1d.
  rewrite (Fint_ltb _ _ _ _ (proj1 Ha1) (proj1 Ha0)), (Fint_ltb _ _ _ _ (proj1 Hb1) (proj1 Hb0)).
  destruct (zax1 <? zax0)%Z; destruct (zbx1 <? zbx0)%Z;
    (apply Fint_leb; [apply FintS_fmax | apply FintS_fmin]; assumption).
Qed.

(* ---- segment_intersects_point ---- *)
Theorem segment_intersects_point_float_exact_rel :
  forall ax0 ay0 ax1 ay1 bx by_ zax0 zay0 zax1 zay1 zbx zby,
  FintS ax0 zax0 -> FintS ay0 zay0 -> FintS ax1 zax1 -> FintS ay1 zay1 ->
  FintS bx zbx -> FintS by_ zby ->
  fsegment_intersects_point ax0 ay0 ax1 ay1 bx by_ =
  segment_intersects_point zax0 zay0 zax1 zay1 zbx zby.
Proof.
  intros ax0 ay0 ax1 ay1 bx by_ zax0 zay0 zax1 zay1 zbx zby Hax0 Hay0 Hax1 Hay1 Hbx Hby.
  unfold fsegment_intersects_point, segment_intersects_point. cbv zeta.
  rewrite (Fint_ltb _ _ _ _ (proj1 Hbx) (proj1 (FintS_fmin _ _ _ _ Hax0 Hax1))).
  rewrite (Fint_ltb _ _ _ _ (proj1 (FintS_fmax _ _ _ _ Hax0 Hax1)) (proj1 Hbx)).
  rewrite (Fint_ltb _ _ _ _ (proj1 Hby) (proj1 (FintS_fmin _ _ _ _ Hay0 Hay1))).
  rewrite (Fint_ltb _ _ _ _ (proj1 (FintS_fmax _ _ _ _ Hay0 Hay1)) (proj1 Hby)).
  pose proof (FintS_cross _ _ _ _ _ _ _ _ _ _ _ _ _ _ _ _ Hax1 Hax0 Hby Hay0 Hay1 Hay0 Hbx Hax0) as Hc.
  rewrite (Fint_eqb _ _ _ _ Hc Fint_zero).
  reflexivity.
Qed.

(* ---- segments_intersect ---- *)
Theorem segments_intersect_float_exact_rel :
  forall ax0 ay0 ax1 ay1 bx0 by0 bx1 by1 zax0 zay0 zax1 zay1 zbx0 zby0 zbx1 zby1,
  FintS ax0 zax0 -> FintS ay0 zay0 -> FintS ax1 zax1 -> FintS ay1 zay1 ->
  FintS bx0 zbx0 -> FintS by0 zby0 -> FintS bx1 zbx1 -> FintS by1 zby1 ->
  fsegments_intersect ax0 ay0 ax1 ay1 bx0 by0 bx1 by1 =
  segments_intersect zax0 zay0 zax1 zay1 zbx0 zby0 zbx1 zby1.
Proof.
  intros ax0 ay0 ax1 ay1 bx0 by0 bx1 by1 zax0 zay0 zax1 zay1 zbx0 zby0 zbx1 zby1
         Hax0 Hay0 Hax1 Hay1 Hbx0 Hby0 Hbx1 Hby1.
  unfold fsegments_intersect, segments_intersect. cbv zeta.
  rewrite (segments_intersect_1d_float_exact_rel _ _ _ _ _ _ _ _ Hax0 Hax1 Hbx0 Hbx1).
  rewrite (segments_intersect_1d_float_exact_rel _ _ _ _ _ _ _ _ Hay0 Hay1 Hby0 Hby1).
  rewrite (Fint_eqb _ _ _ _ (proj1 Hax0) (proj1 Hax1)), (Fint_eqb _ _ _ _ (proj1 Hay0) (proj1 Hay1)).
  rewrite (Fint_eqb _ _ _ _ (proj1 Hbx0) (proj1 Hbx1)), (Fint_eqb _ _ _ _ (proj1 Hby0) (proj1 Hby1)).
  rewrite (Fint_eqb _ _ _ _ (proj1 Hax0) (proj1 Hbx0)), (Fint_eqb _ _ _ _ (proj1 Hay0) (proj1 Hby0)).
  rewrite (Fint_eqb _ _ _ _ (proj1 Hax0) (proj1 Hbx1)), (Fint_eqb _ _ _ _ (proj1 Hay0) (proj1 Hby1)).
  rewrite (Fint_eqb _ _ _ _ (proj1 Hbx0) (proj1 Hax0)), (Fint_eqb _ _ _ _ (proj1 Hby0) (proj1 Hay0)).
  rewrite (Fint_eqb _ _ _ _ (proj1 Hbx0) (proj1 Hax1)), (Fint_eqb _ _ _ _ (proj1 Hby0) (proj1 Hay1)).
  rewrite (triangle_orientation_float_exact_rel _ _ _ _ _ _ _ _ _ _ _ _ Hax0 Hay0 Hax1 Hay1 Hbx0 Hby0).
  rewrite (triangle_orientation_float_exact_rel _ _ _ _ _ _ _ _ _ _ _ _ Hax0 Hay0 Hax1 Hay1 Hbx1 Hby1).
  rewrite (triangle_orientation_float_exact_rel _ _ _ _ _ _ _ _ _ _ _ _ Hbx0 Hby0 Hbx1 Hby1 Hax0 Hay0).
  rewrite (triangle_orientation_float_exact_rel _ _ _ _ _ _ _ _ _ _ _ _ Hbx0 Hby0 Hbx1 Hby1 Hax1 Hay1).
  reflexivity.
Qed.

(* ---- point_intersects_polygon ---- *)
Lemma pip_edge_float_exact : forall x y zx zy x0 y0 x1 y1 zx0 zy0 zx1 zy1,
  FintS x zx -> FintS y zy ->
  FintS x0 zx0 -> FintS y0 zy0 -> FintS x1 zx1 -> FintS y1 zy1 ->
  fpip_edge x y ((x0, y0), (x1, y1)) = pip_edge zx zy ((zx0, zy0), (zx1, zy1)).
Proof.
  intros x y zx zy x0 y0 x1 y1 zx0 zy0 zx1 zy1 Hx Hy Hx0 Hy0 Hx1 Hy1.
  unfold fpip_edge, pip_edge.
  rewrite (Fint_eqb _ _ _ _ (proj1 Hy1) (proj1 Hy0)).
  destruct (zy1 =? zy0)%Z; [reflexivity|].
  rewrite (Fint_ltb _ _ _ _ (proj1 Hy1) (proj1 Hy0)).
  destruct (zy1 <? zy0)%Z.
  - rewrite (Fint_leb _ _ _ _ (proj1 Hy) (proj1 Hy1)), (Fint_ltb _ _ _ _ (proj1 Hy0) (proj1 Hy)).
    rewrite (Fint_ltb _ _ _ _ (proj1 Hx1) (proj1 Hx)), (Fint_ltb _ _ _ _ (proj1 Hx0) (proj1 Hx)).
    rewrite (Fint_leb _ _ _ _ (proj1 Hx) (proj1 Hx1)), (Fint_leb _ _ _ _ (proj1 Hx) (proj1 Hx0)).
    cbv zeta.
    pose proof (FintS_cross _ _ _ _ _ _ _ _ _ _ _ _ _ _ _ _ Hx1 Hx Hy0 Hy Hy1 Hy Hx0 Hx) as Hc.
    rewrite (Fint_ltb _ _ _ _ Fint_zero Hc), (Fint_eqb _ _ _ _ Hc Fint_zero).
    reflexivity.
  - rewrite (Fint_leb _ _ _ _ (proj1 Hy) (proj1 Hy0)), (Fint_ltb _ _ _ _ (proj1 Hy1) (proj1 Hy)).
    rewrite (Fint_ltb _ _ _ _ (proj1 Hx0) (proj1 Hx)), (Fint_ltb _ _ _ _ (proj1 Hx1) (proj1 Hx)).
    rewrite (Fint_leb _ _ _ _ (proj1 Hx) (proj1 Hx0)), (Fint_leb _ _ _ _ (proj1 Hx) (proj1 Hx1)).
    cbv zeta.
    pose proof (FintS_cross _ _ _ _ _ _ _ _ _ _ _ _ _ _ _ _ Hx0 Hx Hy1 Hy Hy0 Hy Hx1 Hx) as Hc.
    rewrite (Fint_ltb _ _ _ _ Fint_zero Hc), (Fint_eqb _ _ _ _ Hc Fint_zero).
    reflexivity.
Qed.

Definition FintP (p : fpt) (q : pt) : Prop := FintS (fst p) (fst q) /\ FintS (snd p) (snd q).
Definition FintE (e : fpt * fpt) (g : pt * pt) : Prop :=
  FintP (fst e) (fst g) /\ FintP (snd e) (snd g).

Lemma fpairs_rel : forall fs zs, Forall2 FintS fs zs -> Forall2 FintP (fpairs fs) (zpairs zs).
Proof.
  fix IH 3. intros fs zs H.
  destruct H as [|f z fs' zs' Hf H']; [constructor|].
  destruct H' as [|f2 z2 fs'' zs'' Hf2 H'']; [constructor|].
  simpl. constructor.
  - split; assumption.
  - apply IH. exact H''.
Qed.

Lemma fedges_rel : forall ps qs, Forall2 FintP ps qs -> Forall2 FintE (fedges ps) (edges qs).
Proof.
  intros ps qs H. induction H as [|p q ps qs Hp H IH]; [constructor|].
  destruct H as [|p2 q2 ps' qs' Hp2 H']; [constructor|].
  simpl. constructor.
  - split; assumption.
  - exact IH.
Qed.

Lemma fold_sum_rel : forall {A B} (R : A -> B -> Prop) (f : A -> Z) (g : B -> Z) la lb,
  Forall2 R la lb -> (forall a b, R a b -> f a = g b) ->
  forall acc, fold_left (fun acc e => (acc + f e)%Z) la acc =
              fold_left (fun acc e => (acc + g e)%Z) lb acc.
Proof.
  intros A B R f g la lb H Hfg. induction H as [|a b la lb Hab H IH]; intro acc; simpl.
  - reflexivity.
  - rewrite (Hfg _ _ Hab). apply IH.
Qed.

Lemma pip_ring_float_exact : forall x y zx zy fs zs,
  FintS x zx -> FintS y zy -> Forall2 FintS fs zs ->
  fpip_ring x y fs = pip_ring zx zy zs.
Proof.
  intros x y zx zy fs zs Hx Hy H. unfold fpip_ring, pip_ring.
  apply (fold_sum_rel FintE).
  - apply fedges_rel, fpairs_rel, H.
  - intros [[x0 y0] [x1 y1]] [[zx0 zy0] [zx1 zy1]] [[H1 H2] [H3 H4]]. simpl in *.
    apply pip_edge_float_exact; assumption.
Qed.

Lemma Forall2_skipn : forall {A B} (R : A -> B -> Prop) n la lb,
  Forall2 R la lb -> Forall2 R (skipn n la) (skipn n lb).
Proof.
  intros A B R n. induction n as [|n IH]; intros la lb H; simpl; [exact H|].
  destruct H; [constructor|]. apply IH; assumption.
Qed.

Lemma Forall2_firstn : forall {A B} (R : A -> B -> Prop) n la lb,
  Forall2 R la lb -> Forall2 R (firstn n la) (firstn n lb).
Proof.
  intros A B R n. induction n as [|n IH]; intros la lb H; simpl; [constructor|].
  destruct H; [constructor|]. constructor; [assumption|]. apply IH; assumption.
Qed.

Lemma slice_rel : forall {A B} (R : A -> B -> Prop) s e la lb,
  Forall2 R la lb -> Forall2 R (slice s e la) (slice s e lb).
Proof.
  intros. unfold slice. apply Forall2_firstn, Forall2_skipn. assumption.
Qed.

Lemma frings_rel : forall fs zs offs, Forall2 FintS fs zs ->
  Forall2 (Forall2 FintS) (frings_of fs offs) (rings_of zs offs).
Proof.
  intros fs zs offs H. induction offs as [|s t IH]; [constructor|].
  destruct t as [|e t']; [constructor|].
  change (frings_of fs (s :: e :: t')) with (slice s e fs :: frings_of fs (e :: t')).
  change (rings_of zs (s :: e :: t')) with (slice s e zs :: rings_of zs (e :: t')).
  constructor; [apply slice_rel; exact H | exact IH].
Qed.

(* np.isfinite of the image of an integer is True: the guard
   "not (isfinite(x) or isfinite(y))" of point_intersects_polygon is not taken *)
Lemma Fint_isfinite : forall f z, Fint f z -> fisfinite f = true.
Proof.
  intros f z [Ff _]. unfold fisfinite. rewrite is_finite_equiv. exact Ff.
Qed.

Theorem point_intersects_polygon_float_exact_rel : forall x y zx zy fs zs offs,
  FintS x zx -> FintS y zy -> Forall2 FintS fs zs ->
  fpoint_intersects_polygon x y fs offs = point_intersects_polygon zx zy zs offs.
Proof.
  intros x y zx zy fs zs offs Hx Hy H.
  unfold fpoint_intersects_polygon, point_intersects_polygon, fwinding_number, winding_number.
  rewrite (Fint_isfinite _ _ (proj1 Hx)). cbn [orb negb].
  f_equal. f_equal.
  apply (fold_sum_rel (Forall2 FintS)).
  - apply frings_rel, H.
  - intros a b Hab. apply pip_ring_float_exact; assumption.
Qed.

(* ---- empty points (C17): a point without any finite coordinate ----
   [fnonfinite v]: v is a NaN (any payload), +inf or -inf, i.e. np.isfinite(v) is False *)
Definition fnonfinite (v : float) : Prop :=
  is_nan v = true \/ v = infinity \/ v = neg_infinity.

Lemma fnonfinite_not_isfinite : forall v, fnonfinite v -> fisfinite v = false.
Proof.
  intros v [H|[H|H]]; unfold fisfinite, is_finite.
  - rewrite H. reflexivity.
  - subst v. reflexivity.
  - subst v. reflexivity.
Qed.

(* the converse: np.isfinite(v) False leaves only NaN and the two infinities *)
Lemma not_isfinite_fnonfinite : forall v, fisfinite v = false -> fnonfinite v.
Proof.
  intros v H. unfold fisfinite, is_finite in H.
  apply negb_false_iff, orb_true_iff in H. destruct H as [H|H]; [left; exact H|right].
  rewrite is_infinity_equiv in H.
  rewrite <- (B2Prim_Prim2B v).
  destruct (Prim2B v) as [s|s| |s m e Hb]; try discriminate H.
  destruct s; [right|left]; reflexivity.
Qed.

(* every mixture of NaN / +inf / -inf in the two coordinates: inside no polygon,
   whatever the buffers hold (no well-formedness needed) *)
Theorem empty_point_in_no_polygon : forall x y values offs,
  fnonfinite x -> fnonfinite y -> fpoint_intersects_polygon x y values offs = false.
Proof.
  intros x y values offs Hx Hy. unfold fpoint_intersects_polygon.
  rewrite (fnonfinite_not_isfinite _ Hx), (fnonfinite_not_isfinite _ Hy). reflexivity.
Qed.

(* ---- empty polygons (C17): no finite coordinate in the polygon's buffer ----
   the wrappers Point._intersects_polygon / PointArray._intersects_polygon answer False for
   EVERY point (finite or not), whatever the offsets; the kernel alone does not (see the
   Example in Properties/C17.v: the ray test against infinite vertices) *)
Lemma existsb_isfinite_nonfinite : forall values,
  Forall fnonfinite values -> existsb fisfinite values = false.
Proof.
  intros values H. induction H as [|v vs Hv H IH]; [reflexivity|].
  simpl. rewrite (fnonfinite_not_isfinite _ Hv). exact IH.
Qed.

Theorem inf_polygon_contains_no_point : forall x y values offs,
  Forall fnonfinite values -> fpolygon_intersects x y values offs = false.
Proof.
  intros x y values offs H. unfold fpolygon_intersects.
  rewrite (existsb_isfinite_nonfinite _ H). reflexivity.
Qed.

(* part (b): a polygon with at least one finite coordinate goes to the kernel unchanged *)
Theorem finite_polygon_kernel : forall x y values offs,
  Exists (fun v => fisfinite v = true) values ->
  fpolygon_intersects x y values offs = fpoint_intersects_polygon x y values offs.
Proof.
  intros x y values offs H. unfold fpolygon_intersects.
  assert (E : existsb fisfinite values = true).
  { apply existsb_exists. apply Exists_exists in H. exact H. }
  rewrite E. reflexivity.
Qed.

(* part (b): a point with at least one finite coordinate is answered by its winding number *)
Theorem nonempty_point_winding : forall x y values offs,
  fisfinite x = true \/ fisfinite y = true ->
  fpoint_intersects_polygon x y values offs = negb (fwinding_number x y values offs =? 0)%Z.
Proof.
  intros x y values offs H. unfold fpoint_intersects_polygon.
  destruct H as [H|H]; rewrite H; [|rewrite orb_true_r]; reflexivity.
Qed.

(* ====================================================================
   the statements for the executable injection Z2F
   ==================================================================== *)
Lemma map_Z2F_rel : forall zs, Forall small zs -> Forall2 FintS (map Z2F zs) zs.
Proof.
  intros zs H. induction H as [|z zs Hz H IH]; simpl; constructor.
  - apply FintS_Z2F; exact Hz.
  - exact IH.
Qed.

Theorem triangle_orientation_float_exact : forall ax ay bx by_ cx cy,
  small ax -> small ay -> small bx -> small by_ -> small cx -> small cy ->
  ftriangle_orientation (Z2F ax) (Z2F ay) (Z2F bx) (Z2F by_) (Z2F cx) (Z2F cy) =
  triangle_orientation ax ay bx by_ cx cy.
Proof.
  intros. apply triangle_orientation_float_exact_rel; apply FintS_Z2F; assumption.
Qed.

Theorem segments_intersect_1d_float_exact : forall ax0 ax1 bx0 bx1,
  small ax0 -> small ax1 -> small bx0 -> small bx1 ->
  fsegments_intersect_1d (Z2F ax0) (Z2F ax1) (Z2F bx0) (Z2F bx1) =
  segments_intersect_1d ax0 ax1 bx0 bx1.
Proof.
  intros. apply segments_intersect_1d_float_exact_rel; apply FintS_Z2F; assumption.
Qed.

Theorem segment_intersects_point_float_exact : forall ax0 ay0 ax1 ay1 bx by_,
  small ax0 -> small ay0 -> small ax1 -> small ay1 -> small bx -> small by_ ->
  fsegment_intersects_point (Z2F ax0) (Z2F ay0) (Z2F ax1) (Z2F ay1) (Z2F bx) (Z2F by_) =
  segment_intersects_point ax0 ay0 ax1 ay1 bx by_.
Proof.
  intros. apply segment_intersects_point_float_exact_rel; apply FintS_Z2F; assumption.
Qed.

Theorem segments_intersect_float_exact : forall ax0 ay0 ax1 ay1 bx0 by0 bx1 by1,
  small ax0 -> small ay0 -> small ax1 -> small ay1 ->
  small bx0 -> small by0 -> small bx1 -> small by1 ->
  fsegments_intersect (Z2F ax0) (Z2F ay0) (Z2F ax1) (Z2F ay1)
                      (Z2F bx0) (Z2F by0) (Z2F bx1) (Z2F by1) =
  segments_intersect ax0 ay0 ax1 ay1 bx0 by0 bx1 by1.
Proof.
  intros. apply segments_intersect_float_exact_rel; apply FintS_Z2F; assumption.
Qed.

Theorem point_intersects_polygon_float_exact : forall x y values offs,
  small x -> small y -> Forall small values ->
  fpoint_intersects_polygon (Z2F x) (Z2F y) (map Z2F values) offs =
  point_intersects_polygon x y values offs.
Proof.
  intros. apply point_intersects_polygon_float_exact_rel;
    [apply FintS_Z2F; assumption | apply FintS_Z2F; assumption | apply map_Z2F_rel; assumption].
Qed.

(* ====================================================================
   compute_area
   ==================================================================== *)
(* compute_area (measures.py) in binary64 = the integer model of Model/Measures.v,
   PARTIAL: under the extra hypothesis that every partial sum of the doubled area stays
   within 2^53 in magnitude (expressed by the guarded copy [area_loop_b] of the integer
   model, which answers None as soon as an accumulator leaves that range).  Each term
   x_i * (y_j - y_k) is always exact for |coord| <= 2^25 (<= 2^51); only the running
   sum can leave the exact range, after at least 4 terms. *)

(* nadd that answers None when the sum leaves [-2^53, 2^53] *)
Definition badd (a b : num) : num :=
  match nadd a b with
  | Some s => if (Z.abs s <=? 2 ^ 53)%Z then Some s else None
  | None => None
  end.

Fixpoint area_main_b (vals : list num) (n k : nat) (acc : num) : num :=
  match n with
  | O => acc
  | S n' =>
      area_main_b vals n' (k + 2)
        (badd acc (nmul (vget vals (k + 2)) (nsub (vget vals (k + 4 + 1)) (vget vals (k + 1)))))
  end.

Definition area_ring_b (vals : list num) (start stop : nat) (acc : num) : num :=
  if Nat.ltb (stop - start) 6 then acc
  else
    badd (area_main_b vals (range2_count start (stop - 4)) start acc)
         (nmul (vget vals start) (nsub (vget vals (start + 3)) (vget vals (stop - 3)))).

Fixpoint area_loop_b (vals : list num) (offs : list nat) (acc : num) : num :=
  match offs with
  | start :: ((stop :: _) as t) => area_loop_b vals t (area_ring_b vals start stop acc)
  | _ => acc
  end.

(* ---- the guarded model refines the plain one ---- *)
Lemma badd_None_l : forall b, badd None b = None.
Proof. reflexivity. Qed.

Lemma badd_nadd : forall a b s, badd a b = Some s -> nadd a b = Some s.
Proof.
  intros a b s. unfold badd. destruct (nadd a b) as [t|]; [|discriminate].
  destruct (Z.abs t <=? 2 ^ 53)%Z; [tauto|discriminate].
Qed.

Lemma area_main_b_None : forall vals n k, area_main_b vals n k None = None.
Proof. intros vals n. induction n as [|n IH]; intro k; simpl; [reflexivity|apply IH]. Qed.

Lemma area_ring_b_None : forall vals s e, area_ring_b vals s e None = None.
Proof.
  intros. unfold area_ring_b. destruct (Nat.ltb (e - s) 6); [reflexivity|].
  rewrite area_main_b_None. reflexivity.
Qed.

Lemma area_loop_b_None : forall vals offs, area_loop_b vals offs None = None.
Proof.
  intros vals offs. induction offs as [|s t IH]; [reflexivity|].
  destruct t as [|e t']; [reflexivity|].
  change (area_loop_b vals (s :: e :: t') None)
    with (area_loop_b vals (e :: t') (area_ring_b vals s e None)).
  rewrite area_ring_b_None. exact IH.
Qed.

Lemma area_main_b_plain : forall vals n k acc d,
  area_main_b vals n k acc = Some d -> area_main vals n k acc = Some d.
Proof.
  intros vals n. induction n as [|n IH]; intros k acc d H; simpl in *; [exact H|].
  destruct (badd acc (nmul (vget vals (k + 2)) (nsub (vget vals (k + 4 + 1)) (vget vals (k + 1)))))
    as [s|] eqn:E.
  - rewrite (badd_nadd _ _ _ E). apply IH. exact H.
  - rewrite area_main_b_None in H. discriminate.
Qed.

Lemma area_ring_b_plain : forall vals s e acc d,
  area_ring_b vals s e acc = Some d -> area_ring vals s e acc = Some d.
Proof.
  intros vals s e acc d. unfold area_ring_b, area_ring.
  destruct (Nat.ltb (e - s) 6); [tauto|].
  intro H.
  destruct (area_main_b vals (range2_count s (e - 4)) s acc) as [m|] eqn:E; [|discriminate].
  rewrite (area_main_b_plain _ _ _ _ _ E). apply badd_nadd. exact H.
Qed.

Lemma area_loop_b_plain : forall vals offs acc d,
  area_loop_b vals offs acc = Some d -> area_loop vals offs acc = Some d.
Proof.
  intros vals offs. induction offs as [|s t IH]; intros acc d H; [exact H|].
  destruct t as [|e t']; [exact H|].
  change (area_loop_b vals (s :: e :: t') acc)
    with (area_loop_b vals (e :: t') (area_ring_b vals s e acc)) in H.
  change (area_loop vals (s :: e :: t') acc)
    with (area_loop vals (e :: t') (area_ring vals s e acc)).
  destruct (area_ring_b vals s e acc) as [r|] eqn:E.
  - rewrite (area_ring_b_plain _ _ _ _ _ E). apply IH. exact H.
  - rewrite area_loop_b_None in H. discriminate.
Qed.

(* ---- reads ---- *)
Lemma vget_some : forall fs zs, Forall2 FintS fs zs ->
  forall i z, vget (map Some zs) i = Some z -> FintS (fget fs i) z.
Proof.
  intros fs zs H. induction H as [|f z0 fs zs Hf H IH]; intros i z E.
  - destruct i; discriminate.
  - destruct i as [|i].
    + simpl in E. injection E as <-. exact Hf.
    + apply IH. exact E.
Qed.

(* exact and still inside the range in which the next addition can be judged *)
Definition Fint53 (f : float) (z : Z) : Prop := Fint f z /\ (Z.abs z <= 2 ^ 53)%Z.

(* ---- one accumulation step ---- *)
Lemma term_exact : forall fs zs i j k acc zacc s,
  Forall2 FintS fs zs -> Fint acc zacc ->
  badd (Some zacc) (nmul (vget (map Some zs) i)
                         (nsub (vget (map Some zs) j) (vget (map Some zs) k))) = Some s ->
  Fint53 (acc + fget fs i * (fget fs j - fget fs k))%float s.
Proof.
  intros fs zs i j k acc zacc s H Hacc E.
  destruct (vget (map Some zs) i) as [zi|] eqn:Ei; [|discriminate].
  destruct (vget (map Some zs) j) as [zj|] eqn:Ej; [|discriminate].
  destruct (vget (map Some zs) k) as [zk|] eqn:Ek; [|discriminate].
  pose proof (vget_some _ _ H _ _ Ei) as Hi.
  pose proof (vget_some _ _ H _ _ Ej) as Hj.
  pose proof (vget_some _ _ H _ _ Ek) as Hk.
  unfold badd, nmul, nsub, nadd in E. cbv beta iota in E.
  destruct (Z.leb_spec (Z.abs (zacc + zi * (zj - zk))) (2 ^ 53)) as [Hb|Hb]; [|discriminate].
  injection E as <-.
  destruct (FintS_diff _ _ _ _ Hj Hk) as [Fd Bd].
  destruct Hi as [Fi Si]. unfold small in Si.
  pose proof (abs_mul_le _ _ _ _ Si Bd) as Hm.
  change (2 ^ 25 * 2 ^ 26)%Z with 2251799813685248%Z in Hm.
  split; [|exact Hb].
  apply Fint_add; [exact Hacc | | exact Hb].
  apply Fint_mul; [exact Fi | exact Fd |].
  change (2 ^ 53)%Z with 9007199254740992%Z. lia.
Qed.

Lemma area_main_exact : forall fs zs, Forall2 FintS fs zs ->
  forall n k acc zacc d, Fint53 acc zacc ->
  area_main_b (map Some zs) n k (Some zacc) = Some d ->
  Fint53 (farea_main fs n k acc) d.
Proof.
  intros fs zs H n. induction n as [|n IH]; intros k acc zacc d Hacc E; simpl in *.
  - injection E as <-. exact Hacc.
  - destruct (badd (Some zacc) (nmul (vget (map Some zs) (k + 2))
              (nsub (vget (map Some zs) (k + 4 + 1)) (vget (map Some zs) (k + 1))))) as [s|] eqn:Es.
    + apply (IH _ _ s); [|exact E]. apply (term_exact _ _ _ _ _ _ _ _ H (proj1 Hacc) Es).
    + rewrite area_main_b_None in E. discriminate.
Qed.

Lemma area_ring_exact : forall fs zs, Forall2 FintS fs zs ->
  forall s e acc zacc d, Fint53 acc zacc ->
  area_ring_b (map Some zs) s e (Some zacc) = Some d ->
  Fint53 (farea_ring fs s e acc) d.
Proof.
  intros fs zs H s e acc zacc d Hacc E. unfold area_ring_b in E. unfold farea_ring.
  destruct (Nat.ltb (e - s) 6).
  - injection E as <-. exact Hacc.
  - destruct (area_main_b (map Some zs) (range2_count s (e - 4)) s (Some zacc)) as [m|] eqn:Em;
      [|discriminate].
    change (frange2_count s (e - 4)) with (range2_count s (e - 4)).
    apply (term_exact _ _ _ _ _ _ m _ H); [|exact E].
    apply (proj1 (area_main_exact _ _ H _ _ _ _ _ Hacc Em)).
Qed.

Lemma area_loop_exact : forall fs zs, Forall2 FintS fs zs ->
  forall offs acc zacc d, Fint53 acc zacc ->
  area_loop_b (map Some zs) offs (Some zacc) = Some d ->
  Fint53 (farea_loop fs offs acc) d.
Proof.
  intros fs zs H offs. induction offs as [|s t IH]; intros acc zacc d Hacc E.
  - injection E as <-. exact Hacc.
  - destruct t as [|e t'].
    + injection E as <-. exact Hacc.
    + change (area_loop_b (map Some zs) (s :: e :: t') (Some zacc))
        with (area_loop_b (map Some zs) (e :: t') (area_ring_b (map Some zs) s e (Some zacc))) in E.
      change (farea_loop fs (s :: e :: t') acc)
        with (farea_loop fs (e :: t') (farea_ring fs s e acc)).
      destruct (area_ring_b (map Some zs) s e (Some zacc)) as [r|] eqn:Er.
      * apply (IH _ r); [|exact E]. apply (area_ring_exact _ _ H _ _ _ _ _ Hacc Er).
      * rewrite area_loop_b_None in E. discriminate.
Qed.

(* ---- the final halving is exact ---- *)
Lemma half_format : forall z, (Z.abs z <= 2 ^ 53)%Z ->
  generic_format radix2 fexp64 (IZR z / 2).
Proof.
  intros z Hz.
  change fexp64 with (FLT_exp (-1074) 53).
  apply generic_format_FLT.
  destruct (Z.eq_dec (Z.abs z) (2 ^ 53)) as [E|NE].
  - apply (FLT_spec radix2 (-1074) 53 _ (Float radix2 (Z.sgn z) 52)).
    + unfold F2R; simpl Fnum; simpl Fexp.
      change (bpow radix2 52) with (IZR (2 ^ 52)).
      replace z with (Z.sgn z * 2 ^ 53)%Z at 1 by lia.
      rewrite mult_IZR. change (2 ^ 53)%Z with (2 ^ 52 * 2)%Z. rewrite mult_IZR. field.
    + simpl. lia.
    + simpl. lia.
  - apply (FLT_spec radix2 (-1074) 53 _ (Float radix2 z (-1))).
    + unfold F2R; simpl. lra.
    + simpl. change (Z.pow_pos 2 53) with (2 ^ 53)%Z. lia.
    + simpl. lia.
Qed.

Lemma Fint_half : forall a za, Fint a za -> (Z.abs za <= 2 ^ 53)%Z ->
  BinarySingleNaN.is_finite (Prim2B (a / 2)%float) = true /\
  B2R (Prim2B (a / 2)%float) = (IZR za / 2)%R.
Proof.
  intros a za [Fa Ra] Hz.
  assert (H2 : Fint 2%float 2).
  { change 2%float with (Z2F 2). apply Z2F_Fint. simpl. lia. }
  destruct H2 as [F2 R2].
  rewrite div_equiv.
  assert (N2 : B2R (Prim2B 2%float) <> 0%R) by (rewrite R2; lra).
  generalize (Bdiv_correct prec emax Hprec Hmax mode_NE (Prim2B a) (Prim2B 2%float) N2).
  rewrite Ra, R2.
  rewrite (round_generic radix2 fexp64 (round_mode mode_NE) _ (half_format _ Hz)).
  rewrite Rlt_bool_true.
  - intros (R & F & _). rewrite F. split; assumption.
  - apply Rle_lt_trans with (Rabs (IZR za)).
    + unfold Rdiv. rewrite Rabs_mult. rewrite (Rabs_pos_eq (/ 2)) by lra.
      pose proof (Rabs_pos (IZR za)). lra.
    + generalize (int_lt_emax _ Hz). case Rlt_bool_spec; [tauto|discriminate].
Qed.

(* PARTIAL (see the head of this file): guarded integer model answers => the plain integer
   model of Model/Measures.v gives the same doubled area d, and the float64 kernel returns
   the finite float of value d / 2 *)
Theorem compute_area_float_exact_partial : forall zs offs d,
  Forall small zs ->
  area_loop_b (map Some zs) offs (Some 0%Z) = Some d ->
  Measures.compute_area (map Some zs) offs = Some d /\
  BinarySingleNaN.is_finite (Prim2B (fcompute_area (map Z2F zs) offs)) = true /\
  B2R (Prim2B (fcompute_area (map Z2F zs) offs)) = (IZR d / 2)%R.
Proof.
  intros zs offs d Hs E. split.
  - apply area_loop_b_plain. exact E.
  - unfold fcompute_area.
    assert (H0 : Fint53 0%float 0) by (split; [exact Fint_zero | simpl; lia]).
    destruct (area_loop_exact _ _ (map_Z2F_rel _ Hs) _ _ _ _ H0 E) as [Hd Bd].
    apply Fint_half; assumption.
Qed.
