(* Axis-aligned rectangles: the winding number of a rectangle ring (any start
   vertex, both directions) is +-1 strictly inside and 0 strictly outside;
   rectangles with rectangular holes.  The polygon-level statements about the
   code are at the end. *)
From Coq Require Import ZArith List Bool Arith Reals Lra Lia.
From SP Require Import Model.Num Model.PointKernels Spec.PointShapeSpec Spec.Winding
                       Proofs.WindingRefine Proofs.WindingLaws.
Import ListNotations.

Record rect := { xa : R; yb : R; xc : R; yd : R }.

Definition rect_ok (r : rect) : Prop := (xa r < xc r /\ yb r < yd r)%R.

(* counter-clockwise, starting at vertex k (0: lower left, 1: lower right,
   2: upper right, 3: upper left), closed *)
Definition rect_ccw (r : rect) (k : nat) : list rpt :=
  let v0 := (xa r, yb r) in let v1 := (xc r, yb r) in
  let v2 := (xc r, yd r) in let v3 := (xa r, yd r) in
  match k with
  | 0%nat => [v0; v1; v2; v3; v0]
  | 1%nat => [v1; v2; v3; v0; v1]
  | 2%nat => [v2; v3; v0; v1; v2]
  | _ => [v3; v0; v1; v2; v3]
  end.

Definition rect_ring (r : rect) (k : nat) (ccw : bool) : list rpt :=
  if ccw then rect_ccw r k else rev (rect_ccw r k).

Definition strictly_in (r : rect) (P : rpt) : Prop :=
  (xa r < fst P < xc r /\ yb r < snd P < yd r)%R.

Definition strictly_out (r : rect) (P : rpt) : Prop :=
  (fst P < xa r \/ xc r < fst P \/ snd P < yb r \/ yd r < snd P)%R.

Definition leR (x c : R) : Z := if Rle_dec x c then 1%Z else 0%Z.

Lemma X_at_vertical : forall c b0 b1 y, X_at (c, b0) (c, b1) y = c.
Proof.
  intros. unfold X_at; simpl. replace (c - c)%R with 0%R by ring.
  unfold Rdiv. rewrite Rmult_0_r, Rmult_0_l. ring.
Qed.

Lemma wn_edge_vertical : forall P c b0 b1,
  wn_edge P (c, b0) (c, b1) = ((above (snd P) b1 - above (snd P) b0) * leR (fst P) c)%Z.
Proof. intros. unfold wn_edge, crosses_right, leR. cbn [fst snd]. now rewrite X_at_vertical. Qed.

Lemma wn_edge_horiz : forall P a0 a1 b, wn_edge P (a0, b) (a1, b) = 0%Z.
Proof. intros. now apply wn_edge_horizontal. Qed.

Lemma wn_rect_value : forall r k P,
  wn_ring P (rect_ccw r k) =
  ((above (snd P) (yd r) - above (snd P) (yb r)) * (leR (fst P) (xc r) - leR (fst P) (xa r)))%Z.
Proof.
  intros r k P. destruct k as [|[|[|k]]]; unfold wn_ring, rect_ccw;
    cbn [consec map zsum fold_right fst snd];
    rewrite !wn_edge_vertical, !wn_edge_horiz; ring.
Qed.

(* every start vertex, both directions *)
Theorem wn_rectangle : forall r k ccw P, rect_ok r ->
  (strictly_in r P -> wn_ring P (rect_ring r k ccw) = if ccw then 1%Z else (-1)%Z) /\
  (strictly_out r P -> wn_ring P (rect_ring r k ccw) = 0%Z).
Proof.
  intros r k ccw P [Hx Hy].
  assert (Hval : wn_ring P (rect_ring r k ccw) =
                 ((if ccw then 1 else -1) *
                  ((above (snd P) (yd r) - above (snd P) (yb r)) *
                   (leR (fst P) (xc r) - leR (fst P) (xa r))))%Z).
  { unfold rect_ring. destruct ccw; [|rewrite wn_ring_rev]; rewrite wn_rect_value; ring. }
  rewrite Hval. unfold above, leR. split.
  - intros [[H1 H2] [H3 H4]].
    destruct (Rle_dec (snd P) (yd r)); [|exfalso; lra].
    destruct (Rle_dec (snd P) (yb r)); [exfalso; lra|].
    destruct (Rle_dec (fst P) (xc r)); [|exfalso; lra].
    destruct (Rle_dec (fst P) (xa r)); [exfalso; lra|].
    destruct ccw; reflexivity.
  - intros Hout. unfold strictly_out in Hout.
    destruct (Rle_dec (snd P) (yd r)), (Rle_dec (snd P) (yb r)),
             (Rle_dec (fst P) (xc r)), (Rle_dec (fst P) (xa r));
      try (destruct ccw; reflexivity); exfalso; lra.
Qed.

(* ---- a rectangle with rectangular holes wound the other way ---- *)

Definition rect_polygon (shell : rect) (ks : nat) (ccw : bool) (holes : list (rect * nat))
  : list (list rpt) :=
  rect_ring shell ks ccw :: map (fun hk => rect_ring (fst hk) (snd hk) (negb ccw)) holes.

Definition holes_ok (holes : list (rect * nat)) : Prop := Forall (fun hk => rect_ok (fst hk)) holes.
Definition out_of_all (holes : list (rect * nat)) (P : rpt) : Prop :=
  Forall (fun hk => strictly_out (fst hk) P) holes.

Lemma wn_holes_out : forall P ccw holes, holes_ok holes -> out_of_all holes P ->
  wn P (map (fun hk => rect_ring (fst hk) (snd hk) ccw) holes) = 0%Z.
Proof.
  intros P ccw holes Hok Hout. unfold wn. rewrite map_map. apply zsum_zero.
  intros [h k] Hin. cbn [fst snd].
  unfold holes_ok, out_of_all in *. rewrite Forall_forall in Hok, Hout.
  apply (wn_rectangle h k ccw P (Hok _ Hin)). exact (Hout _ Hin).
Qed.

Theorem wn_rect_polygon : forall shell ks ccw holes P,
  rect_ok shell -> holes_ok holes ->
  (* strictly inside the shell, strictly outside every hole *)
  (strictly_in shell P -> out_of_all holes P ->
     wn P (rect_polygon shell ks ccw holes) = if ccw then 1%Z else (-1)%Z) /\
  (* strictly outside the shell (hence outside the holes, which lie in it) *)
  (strictly_out shell P -> out_of_all holes P -> wn P (rect_polygon shell ks ccw holes) = 0%Z) /\
  (* strictly inside one hole, strictly outside the others (they are disjoint) *)
  (forall h1 h h2, holes = h1 ++ h :: h2 -> strictly_in shell P -> strictly_in (fst h) P ->
     out_of_all h1 P -> out_of_all h2 P -> wn P (rect_polygon shell ks ccw holes) = 0%Z).
Proof.
  intros shell ks ccw holes P Hs Hh. unfold rect_polygon. split; [|split].
  - intros Hin Hout. rewrite wn_cons, wn_holes_out by assumption.
    rewrite (proj1 (wn_rectangle shell ks ccw P Hs) Hin). lia.
  - intros Hin Hout. rewrite wn_cons, wn_holes_out by assumption.
    rewrite (proj2 (wn_rectangle shell ks ccw P Hs) Hin). lia.
  - intros h1 h h2 -> Hin Hinh Ho1 Ho2. unfold holes_ok in Hh.
    apply Forall_app in Hh as [Hh1 Hh2]. inversion Hh2 as [|? ? Hhh Hh2']; subst.
    rewrite wn_cons, map_app, wn_app. cbn [map]. rewrite wn_cons.
    rewrite !wn_holes_out by assumption.
    rewrite (proj1 (wn_rectangle shell ks ccw P Hs) Hin).
    rewrite (proj1 (wn_rectangle (fst h) (snd h) (negb ccw) P Hhh) Hinh).
    destruct ccw; reflexivity.
Qed.

(* ---- what this says about the code ---- *)

Theorem polygon_rect_with_rect_holes : forall x y values offs shell ks ccw holes,
  map ring_of (rings_of values offs) = rect_polygon shell ks ccw holes ->
  rect_ok shell -> holes_ok holes ->
  let P := (IZR x, IZR y) in
  (strictly_in shell P -> out_of_all holes P ->
     point_intersects_polygon x y values offs = true) /\
  (strictly_out shell P -> out_of_all holes P ->
     point_intersects_polygon x y values offs = false) /\
  (forall h1 h h2, holes = h1 ++ h :: h2 -> strictly_in shell P -> strictly_in (fst h) P ->
     out_of_all h1 P -> out_of_all h2 P ->
     point_intersects_polygon x y values offs = false).
Proof.
  intros x y values offs shell ks ccw holes Hrings Hs Hh P.
  destruct (wn_rect_polygon shell ks ccw holes P Hs Hh) as [H1 [H2 H3]].
  rewrite pip_refines_wn, Hrings. fold P. split; [|split].
  - intros Hin Hout. rewrite (H1 Hin Hout). destruct ccw; reflexivity.
  - intros Hin Hout. now rewrite (H2 Hin Hout).
  - intros h1 h h2 E Hin Hinh Ho1 Ho2. now rewrite (H3 h1 h h2 E Hin Hinh Ho1 Ho2).
Qed.

(* General rings.  Proved for every list of rings: the test is "winding number
   <> 0" under the declarative half-open rule; the answer is the same whichever
   way round all rings are wound; closed rings answer False strictly outside
   their bounding box.  NOT proved: that for a valid polygon (simple shell,
   holes strictly inside, wound opposite) "winding number <> 0" is "strictly
   inside the shell and in no hole" -- the polygonal Jordan curve theorem.  That
   reading is established for rectangles with rectangular holes above and
   otherwise validated by the correspondence run against an exact oracle. *)
Theorem polygon_partial : forall x y values offs,
  let rings := map ring_of (rings_of values offs) in
  let P := (IZR x, IZR y) in
  point_intersects_polygon x y values offs = negb (wn P rings =? 0)%Z /\
  negb (wn P (map (@rev rpt) rings) =? 0)%Z = negb (wn P rings =? 0)%Z /\
  (Forall closed rings -> outside_bbox P (all_vertices rings) ->
     point_intersects_polygon x y values offs = false).
Proof.
  intros x y values offs rings P. split; [apply pip_refines_wn|]. split.
  - now rewrite wn_rev_nonzero.
  - intros Hc Hout. rewrite pip_refines_wn. fold rings P.
    now rewrite (wn_outside_bbox P rings Hc Hout).
Qed.
