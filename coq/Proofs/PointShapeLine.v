(* Point versus multipoint / line / multiline: the scalar kernel and the array
   kernel's per-point body decide membership in the declarative point sets. *)
From Coq Require Import ZArith List Bool Arith Reals Lra Lia ZifyBool.
From SP Require Import Model.Num Model.Arrow Model.PointKernels Model.PointShape
                       Spec.PointShapeSpec Proofs.PointShapeBasics Proofs.PointShapeSeg.
Import ListNotations.

Definition even_len (l : list Z) : Prop := Nat.even (length l) = true.

Lemma inj_eq : forall (v : pt) (x y : Z), (IZR x, IZR y) = inj v <-> (x, y) = v.
Proof.
  intros [vx vy] x y. unfold inj; simpl. split; intros H; inversion H; subst.
  - f_equal; now apply eq_IZR.
  - reflexivity.
Qed.

(* ---- point, multipoint ---- *)

Lemma sc_point_correct : forall x y px py,
  sc_point x y px py = true <-> (x, y) = (px, py).
Proof.
  intros. unfold sc_point. rewrite andb_true_iff, !Z.eqb_eq. split.
  - intros [-> ->]. reflexivity.
  - intros H. inversion H. auto.
Qed.

Lemma sc_multipoint_correct : forall x y flat,
  sc_multipoint x y flat = true <-> points_set (zpairs flat) (IZR x, IZR y).
Proof.
  intros. unfold sc_multipoint. rewrite any_vertex_In. unfold points_set. split.
  - intros H. exists (x, y). split; [assumption | reflexivity].
  - intros [v [Hin Hv]]. apply inj_eq in Hv. now subst.
Qed.

(* ---- one line ---- *)

Lemma any_segment_correct : forall x y xs ys,
  any_segment x y xs ys = true <->
  exists A B, In (A, B) (edges (combine xs ys)) /\ on_seg (inj A) (inj B) (IZR x, IZR y).
Proof.
  intros. unfold any_segment. rewrite existsb_exists. split.
  - intros [[[a0 b0] [a1 b1]] [Hin H]]. apply sip_correct in H.
    exists (a0, b0), (a1, b1). split; assumption.
  - intros [[a0 b0] [[a1 b1] [Hin H]]]. exists ((a0, b0), (a1, b1)). split; [assumption|].
    apply sip_correct. exact H.
Qed.

Lemma sc_in_bounds_ordered : forall x y a b c d, (a <= c)%Z -> (b <= d)%Z ->
  sc_in_bounds x y (a, b, c, d) = true <-> (a <= x <= c /\ b <= y <= d)%Z.
Proof.
  intros. unfold sc_in_bounds.
  destruct (c <? a)%Z eqn:E1; [lia|]. destruct (d <? b)%Z eqn:E2; [lia|]. lia.
Qed.

(* a point of the line lies in the line's bounding box: the bbox shortcut is sound *)
Lemma line_set_in_bounds : forall x y flat hx tx hy ty,
  evens flat = hx :: tx -> odds flat = hy :: ty ->
  line_set (zpairs flat) (IZR x, IZR y) ->
  (lmin hx tx <= x <= lmax hx tx /\ lmin hy ty <= y <= lmax hy ty)%Z.
Proof.
  intros x y flat hx tx hy ty Ex Ey [[v [Hin Hv]]|[A [B [Hin Hon]]]].
  - apply inj_eq in Hv. subst v. apply zpairs_In_evens_odds in Hin as [H1 H2].
    rewrite Ex in H1. rewrite Ey in H2.
    pose proof (lmin_le _ _ _ H1). pose proof (lmax_ge _ _ _ H1).
    pose proof (lmin_le _ _ _ H2). pose proof (lmax_ge _ _ _ H2). lia.
  - destruct A as [a0 b0], B as [a1 b1]. apply edges_In in Hin as [HA HB].
    apply zpairs_In_evens_odds in HA as [HA1 HA2], HB as [HB1 HB2].
    rewrite Ex in HA1, HB1. rewrite Ey in HA2, HB2.
    unfold inj in Hon; simpl in Hon. apply sip_correct, sip_spec_z in Hon.
    pose proof (lmin_le _ _ _ HA1). pose proof (lmax_ge _ _ _ HA1).
    pose proof (lmin_le _ _ _ HA2). pose proof (lmax_ge _ _ _ HA2).
    pose proof (lmin_le _ _ _ HB1). pose proof (lmax_ge _ _ _ HB1).
    pose proof (lmin_le _ _ _ HB2). pose proof (lmax_ge _ _ _ HB2). lia.
Qed.

(* what one iteration of the loop over sub-lines decides *)
Definition line_step (x y : Z) (flat : list Z) hx tx hy ty : bool :=
  sc_in_bounds x y (lmin hx tx, lmin hy ty, lmax hx tx, lmax hy ty)
  && (any_vertex x y flat || any_segment x y (hx :: tx) (hy :: ty)).

Lemma line_step_correct : forall x y flat hx tx hy ty,
  evens flat = hx :: tx -> odds flat = hy :: ty ->
  line_step x y flat hx tx hy ty = true <-> line_set (zpairs flat) (IZR x, IZR y).
Proof.
  intros x y flat hx tx hy ty Ex Ey. unfold line_step.
  rewrite andb_true_iff, orb_true_iff, any_vertex_In, any_segment_correct.
  rewrite <- Ex, <- Ey, combine_evens_odds.
  rewrite sc_in_bounds_ordered by apply lmin_le_lmax.
  split.
  - intros [_ [H|H]].
    + left. exists (x, y). split; [assumption | reflexivity].
    + right. exact H.
  - intros H. split; [eapply line_set_in_bounds; eassumption|].
    destruct H as [[v [Hin Hv]]|H].
    + left. apply inj_eq in Hv. now subst.
    + right. exact H.
Qed.

(* the array kernel tests the same box with four comparisons *)
Lemma ar_bbox_reject : forall x y a b c d, (a <= c)%Z -> (b <= d)%Z ->
  ((x <? a)%Z || (y <? b)%Z || (c <? x)%Z || (d <? y)%Z) = negb (sc_in_bounds x y (a, b, c, d)).
Proof.
  intros. unfold sc_in_bounds.
  destruct (c <? a)%Z eqn:E1; [lia|]. destruct (d <? b)%Z eqn:E2; [lia|].
  rewrite negb_involutive. destruct (x <? a)%Z, (y <? b)%Z, (c <? x)%Z, (d <? y)%Z; reflexivity.
Qed.

Lemma even_len_views : forall l hx tx, even_len l -> evens l = hx :: tx -> odds l <> [].
Proof.
  intros [|a [|b l]] hx tx He Hx; simpl in *; discriminate.
Qed.

(* ---- the loop over sub-lines: scalar kernel ---- *)

Lemma line_set_nil : forall P, ~ line_set [] P.
Proof. intros P [[v [[] _]]|[A [B [[] _]]]]. Qed.

Lemma sc_lines_cons : forall x y flat rest,
  sc_lines x y (flat :: rest) =
  match evens flat, odds flat with
  | [], _ => sc_lines x y rest
  | _ :: _, [] => RaisesEmptyLine
  | hx :: tx, hy :: ty =>
      if line_step x y flat hx tx hy ty then Value true else sc_lines x y rest
  end.
Proof.
  intros. cbn [sc_lines]. destruct (evens flat) as [|hx tx]; [reflexivity|].
  destruct (odds flat) as [|hy ty]; [reflexivity|]. unfold line_step. cbv zeta.
  destruct (sc_in_bounds x y (lmin hx tx, lmin hy ty, lmax hx tx, lmax hy ty));
    cbn [negb andb]; [|reflexivity].
  destruct (any_vertex x y flat); cbn [orb]; [reflexivity|].
  destruct (any_segment x y (hx :: tx) (hy :: ty)); reflexivity.
Qed.

Theorem sc_lines_correct : forall x y lines, Forall even_len lines ->
  exists b, sc_lines x y lines = Value b /\
            (b = true <-> multiline_set lines (IZR x, IZR y)).
Proof.
  intros x y lines Hev. induction Hev as [|flat rest Hflat _ IH].
  - exists false. split; [reflexivity|]. split; [discriminate|].
    intros [l [[] _]].
  - destruct IH as [b [Hb Hiff]]. rewrite sc_lines_cons.
    destruct (evens flat) as [|hx tx] eqn:Ex.
    + apply (proj1 (evens_nil_iff flat)) in Ex. subst flat. exists b. split; [assumption|].
      rewrite Hiff. unfold multiline_set. split.
      * intros [l [Hin Hl]]. exists l. split; [now right | assumption].
      * intros [l [[<-|Hin] Hl]]; [now apply line_set_nil in Hl|]. exists l. now split.
    + destruct (odds flat) as [|hy ty] eqn:Ey.
      { exfalso. eapply even_len_views; eassumption. }
      pose proof (line_step_correct x y flat hx tx hy ty Ex Ey) as Hstep.
      destruct (line_step x y flat hx tx hy ty).
      * exists true. split; [reflexivity|]. split; [|reflexivity].
        intros _. exists flat. split; [now left | now apply Hstep].
      * exists b. split; [assumption|]. rewrite Hiff. unfold multiline_set. split.
        -- intros [l [Hin Hl]]. exists l. split; [now right | assumption].
        -- intros [l [[<-|Hin] Hl]].
           ++ apply Hstep in Hl. discriminate.
           ++ exists l. now split.
Qed.

(* an empty (sub-)line contributes nothing (it used to raise) *)
Lemma sc_lines_skip_empty : forall x y rest, sc_lines x y ([] :: rest) = sc_lines x y rest.
Proof. reflexivity. Qed.

(* ---- the loop over sub-lines: array kernel, one point ---- *)

Lemma ar_lines_cons : forall x y flat rest acc,
  ar_lines x y (flat :: rest) acc =
  match evens flat, odds flat with
  | [], _ => ar_lines x y rest acc
  | _ :: _, [] => RaisesEmptyLine
  | hx :: tx, hy :: ty => ar_lines x y rest (acc || line_step x y flat hx tx hy ty)
  end.
Proof.
  intros. cbn [ar_lines]. destruct (evens flat) as [|hx tx]; [reflexivity|].
  destruct (odds flat) as [|hy ty]; [reflexivity|]. unfold line_step. cbv zeta.
  rewrite ar_bbox_reject by apply lmin_le_lmax.
  destruct (sc_in_bounds x y (lmin hx tx, lmin hy ty, lmax hx tx, lmax hy ty));
    cbn [negb andb].
  - destruct (any_vertex x y flat); cbn [orb].
    + now rewrite orb_true_r.
    + reflexivity.
  - now rewrite orb_false_r.
Qed.

(* whenever the array kernel returns, the scalar kernel returns the same *)
Lemma ar_lines_sc_lines : forall x y lines acc r,
  ar_lines x y lines acc = Value r ->
  exists b, sc_lines x y lines = Value b /\ r = acc || b.
Proof.
  intros x y lines. induction lines as [|flat rest IH]; intros acc r H.
  - simpl in H. inversion H; subst. exists false. split; [reflexivity|]. now rewrite orb_false_r.
  - rewrite ar_lines_cons in H. rewrite sc_lines_cons.
    destruct (evens flat) as [|hx tx]; [now apply IH|].
    destruct (odds flat) as [|hy ty]; [discriminate|].
    apply IH in H as [b [Hb Hr]].
    destruct (line_step x y flat hx tx hy ty).
    + exists true. split; [reflexivity|]. subst r. now rewrite !orb_true_r.
    + exists b. split; [assumption|]. subst r. now rewrite orb_false_r.
Qed.

Lemma ar_lines_total : forall x y lines acc, Forall even_len lines ->
  exists r, ar_lines x y lines acc = Value r.
Proof.
  intros x y lines acc Hev. revert acc. induction Hev as [|flat rest Hflat _ IH]; intros acc.
  - exists acc. reflexivity.
  - rewrite ar_lines_cons. destruct (evens flat) as [|hx tx] eqn:Ex; [apply IH|].
    destruct (odds flat) as [|hy ty] eqn:Ey; [|apply IH].
    exfalso. eapply even_len_views; eassumption.
Qed.

Theorem ar_lines_correct : forall x y lines, Forall even_len lines ->
  exists b, ar_lines x y lines false = Value b /\
            (b = true <-> multiline_set lines (IZR x, IZR y)).
Proof.
  intros x y lines Hev.
  destruct (ar_lines_total x y lines false Hev) as [r Hr].
  destruct (ar_lines_sc_lines _ _ _ _ _ Hr) as [b [Hb Hrb]]. simpl in Hrb. subst r.
  destruct (sc_lines_correct x y lines Hev) as [b' [Hb' Hiff]].
  rewrite Hb in Hb'. inversion Hb'; subst. exists b'. split; assumption.
Qed.

(* ---- shape level ---- *)

Theorem point_point_correct : forall x y px py,
  exists b, point_intersects x y (ShPoint (Some px) (Some py)) = Some (Value b) /\
            (b = true <-> (x, y) = (px, py)).
Proof.
  intros. exists (sc_point x y px py). split; [reflexivity | apply sc_point_correct].
Qed.

Theorem point_multipoint_correct : forall x y b sf,
  finite_vals (sb_flat_values b) = Some sf ->
  exists r, point_intersects x y (ShMultiPoint b) = Some (Value r) /\
            (r = true <-> points_set (zpairs sf) (IZR x, IZR y)).
Proof.
  intros x y b sf H. exists (sc_multipoint x y sf). simpl. rewrite H. simpl.
  split; [reflexivity | apply sc_multipoint_correct].
Qed.

Theorem point_line_correct : forall x y b sv,
  finite_vals (sb_buffer_values b) = Some sv ->
  Forall even_len (rings_of sv (sb_inner_offsets b)) ->
  exists r, point_intersects x y (ShLine b) = Some (Value r) /\
            (r = true <-> multiline_set (rings_of sv (sb_inner_offsets b)) (IZR x, IZR y)).
Proof.
  intros x y b sv H Hev. simpl. rewrite H. simpl.
  destruct (sc_lines_correct x y _ Hev) as [r [Hr Hiff]]. exists r. rewrite Hr. now split.
Qed.

Theorem point_multiline_correct : forall x y b sv,
  finite_vals (sb_buffer_values b) = Some sv ->
  Forall even_len (rings_of sv (sb_inner_offsets b)) ->
  exists r, point_intersects x y (ShMultiLine b) = Some (Value r) /\
            (r = true <-> multiline_set (rings_of sv (sb_inner_offsets b)) (IZR x, IZR y)).
Proof.
  intros x y b sv H Hev. simpl. rewrite H. simpl.
  destruct (sc_lines_correct x y _ Hev) as [r [Hr Hiff]]. exists r. rewrite Hr. now split.
Qed.
