(* C05, names: the columns of the joined frame (pandas' suffix rule, set_index,
   drop) in closed form, and the restored index names. *)
From Coq Require Import ZArith List Bool Arith Lia String.
From SP Require Import Model.Num Model.Arrow Model.Bounds Model.PointKernels Model.PointShape
                       Model.Sjoin Spec.SjoinSpec Proofs.SjoinRows Proofs.SjoinPairs.
Import ListNotations.
Local Open Scope nat_scope.

(* ------------------------------------------------------------------ *)
(* membership *)

Lemma mem_In : forall s l, mem s l = true <-> In s l.
Proof.
  intros s l. unfold mem. rewrite existsb_exists. split.
  - intros [x [Hin He]]. apply String.eqb_eq in He. now subst.
  - intros H. exists s. split; [exact H|apply String.eqb_refl].
Qed.

Lemma mem_false : forall s l, mem s l = false <-> ~ In s l.
Proof.
  intros s l. rewrite <- mem_In. destruct (mem s l); split; intros H; try reflexivity;
    try discriminate; try (intros H'; discriminate). exfalso. apply H. reflexivity.
Qed.

Definition disjoint (l1 l2 : list string) : Prop := forall x, In x l1 -> ~ In x l2.

Lemma remove_all_none : forall xs l, disjoint l xs -> remove_all xs l = l.
Proof.
  intros xs l H. unfold remove_all. apply filter_all. intros x Hx.
  apply negb_true_iff, mem_false. exact (H x Hx).
Qed.

Lemma remove_all_all : forall xs l, (forall x, In x l -> In x xs) -> remove_all xs l = [].
Proof.
  intros xs l H. unfold remove_all. apply filter_none. intros x Hx.
  apply negb_false_iff, mem_In. exact (H x Hx).
Qed.

Lemma remove_all_app : forall xs l1 l2, remove_all xs (l1 ++ l2) = remove_all xs l1 ++ remove_all xs l2.
Proof. intros. unfold remove_all. apply filter_app. Qed.

(* ------------------------------------------------------------------ *)
(* duplicated / NoDup *)

Lemma dup_from_false : forall l seen,
  NoDup l -> (forall x, In x l -> ~ In x seen) ->
  duplicated_from seen l = repeat false (List.length l).
Proof.
  induction l as [|x t IH]; intros seen Hnd Hs; cbn; [reflexivity|].
  inversion Hnd; subst. f_equal.
  - apply mem_false. apply Hs. left. reflexivity.
  - apply IH; [assumption|]. intros y Hy [E|Hin].
    + subst. contradiction.
    + exact (Hs y (or_intror Hy) Hin).
Qed.

Lemma dup_from_nodup : forall l seen,
  existsb (fun b => b) (duplicated_from seen l) = false ->
  NoDup l /\ forall x, In x l -> ~ In x seen.
Proof.
  induction l as [|x t IH]; intros seen H; cbn in *.
  - split; [constructor|intros x []].
  - apply orb_false_iff in H. destruct H as [Hx Ht].
    apply mem_false in Hx. destruct (IH _ Ht) as [Hnd Hs].
    split.
    + constructor; [|exact Hnd]. intros Hin. apply (Hs x Hin). left. reflexivity.
    + intros y [E|Hy].
      * subst. exact Hx.
      * intros Hin. apply (Hs y Hy). right. exact Hin.
Qed.

Lemma has_dup_false : forall l, has_dup l = false -> NoDup l.
Proof. intros l H. exact (proj1 (dup_from_nodup l [] H)). Qed.

Lemma nodup_has_dup : forall l, NoDup l -> has_dup l = false.
Proof.
  intros l H. unfold has_dup, duplicated. rewrite dup_from_false; [|exact H|intros x _ []].
  induction (List.length l); cbn; [reflexivity|assumption].
Qed.

Lemma existsb_combine_false : forall (bs : list bool) n,
  List.length bs = n ->
  existsb (fun p : bool * bool => fst p && negb (snd p)) (combine bs (repeat false n)) =
  existsb (fun b => b) bs.
Proof.
  induction bs as [|b t IH]; intros n H; cbn in *; subst; [reflexivity|].
  cbn. rewrite andb_true_r. f_equal. apply IH. reflexivity.
Qed.

Lemma dup_from_length : forall l seen, List.length (duplicated_from seen l) = List.length l.
Proof. induction l as [|x t IH]; intros seen; cbn; [reflexivity|]. now rewrite IH. Qed.

Lemma new_dups_nodup : forall orig labels,
  NoDup orig -> List.length labels = List.length orig ->
  new_dups orig labels = false -> NoDup labels.
Proof.
  intros orig labels Hnd Hlen H. unfold new_dups, duplicated in H.
  rewrite (dup_from_false orig [] Hnd) in H by (intros x _ []).
  rewrite existsb_combine_false in H by (rewrite dup_from_length; exact Hlen).
  apply has_dup_false. exact H.
Qed.

(* ------------------------------------------------------------------ *)
(* the suffix rule in closed form.
   left = P1 ++ U ++ P2, right = Q ++ V: P1, P2, Q hold names that do not occur on
   the other side (generated index names, _key_left/_key_right); U, V are the
   user columns. *)

Lemma map_renamer_id : forall tr sfx l, disjoint l tr -> map (renamer tr sfx) l = l.
Proof.
  intros tr sfx l H. rewrite <- (map_id l) at 2. apply map_ext_in. intros x Hx.
  unfold renamer. rewrite (proj2 (mem_false x tr) (H x Hx)). reflexivity.
Qed.

Lemma filter_mem_none : forall l r, disjoint l r -> filter (fun c => mem c r) l = [].
Proof. intros l r H. apply filter_none. intros x Hx. apply mem_false. exact (H x Hx). Qed.

Section SuffixClosed.
  Variables lsfx rsfx : string.
  Variables P1 U P2 Q V : list string.
  Let left_ := P1 ++ U ++ P2.
  Let right_ := Q ++ V.
  Hypothesis nd_left : NoDup left_.
  Hypothesis nd_right : NoDup right_.
  Hypothesis P1_right : disjoint P1 right_.
  Hypothesis P2_right : disjoint P2 right_.
  Hypothesis Q_left : disjoint Q left_.

  Definition clash_names : list string := filter (fun c => mem c V) U.

  Lemma to_rename_is_clash : filter (fun c => mem c right_) left_ = clash_names.
  Proof.
    unfold left_. rewrite !filter_app.
    rewrite (filter_mem_none P1 right_ P1_right), (filter_mem_none P2 right_ P2_right).
    rewrite app_nil_r. cbn [app]. unfold clash_names. apply filter_ext_in. intros c Hc.
    unfold right_, mem. rewrite existsb_app. fold (mem c Q). fold (mem c V).
    replace (mem c Q) with false; [reflexivity|]. symmetry. apply mem_false.
    intros HQ. apply (Q_left c HQ). unfold left_. rewrite !in_app_iff. right. left. exact Hc.
  Qed.

  Lemma clash_in_U : forall c, In c clash_names -> In c U /\ In c V.
  Proof.
    intros c H. unfold clash_names in H. apply filter_In in H. destruct H as [H1 H2].
    split; [exact H1|]. apply mem_In. exact H2.
  Qed.

  Lemma P_not_clash : disjoint (P1 ++ P2) clash_names.
  Proof.
    intros c Hc Hcl. apply clash_in_U in Hcl. destruct Hcl as [_ HV].
    apply in_app_iff in Hc. destruct Hc as [Hc|Hc].
    - apply (P1_right c Hc). unfold right_. apply in_app_iff. right. exact HV.
    - apply (P2_right c Hc). unfold right_. apply in_app_iff. right. exact HV.
  Qed.

  Lemma Q_not_clash : disjoint Q clash_names.
  Proof.
    intros c Hc Hcl. apply clash_in_U in Hcl. destruct Hcl as [HU _].
    apply (Q_left c Hc). unfold left_. rewrite !in_app_iff. right. left. exact HU.
  Qed.

  Definition ll_closed : list string := P1 ++ map (renamer clash_names lsfx) U ++ P2.
  Definition rl_closed : list string := Q ++ map (renamer clash_names rsfx) V.

  Lemma map_left_closed : map (renamer clash_names lsfx) left_ = ll_closed.
  Proof.
    unfold left_, ll_closed. rewrite !map_app.
    rewrite (map_renamer_id _ _ P1), (map_renamer_id _ _ P2); [reflexivity| |].
    - intros c Hc. apply P_not_clash. apply in_app_iff. right. exact Hc.
    - intros c Hc. apply P_not_clash. apply in_app_iff. left. exact Hc.
  Qed.

  Lemma map_right_closed : map (renamer clash_names rsfx) right_ = rl_closed.
  Proof.
    unfold right_, rl_closed. rewrite map_app. rewrite (map_renamer_id _ _ Q Q_not_clash).
    reflexivity.
  Qed.

  Theorem suffix_cols_closed : forall ll rl,
    suffix_cols lsfx rsfx left_ right_ = Some (ll, rl) ->
    ll = ll_closed /\ rl = rl_closed /\ NoDup ll /\ NoDup rl /\
    disjoint (P1 ++ P2) rl /\ disjoint Q ll.
  Proof.
    intros ll rl H. unfold suffix_cols in H. rewrite to_rename_is_clash in H.
    destruct clash_names as [|c0 ct] eqn:Ecl.
    - inversion H; subst ll rl. clear H.
      assert (Hl : ll_closed = left_).
      { unfold ll_closed. rewrite Ecl. unfold left_. f_equal. f_equal.
        rewrite <- (map_id U) at 2. apply map_ext. intros x. reflexivity. }
      assert (Hr : rl_closed = right_).
      { unfold rl_closed. rewrite Ecl. unfold right_. f_equal.
        rewrite <- (map_id V) at 2. apply map_ext. intros x. reflexivity. }
      rewrite Hl, Hr. repeat split; try assumption; try reflexivity.
      intros c Hc. apply in_app_iff in Hc. destruct Hc as [Hc|Hc]; [exact (P1_right c Hc)|exact (P2_right c Hc)].
    - rewrite <- Ecl in H.
      destruct (new_dups left_ (map (renamer clash_names lsfx) left_)) eqn:D1; [discriminate|].
      destruct (new_dups right_ (map (renamer clash_names rsfx) right_)) eqn:D2; [discriminate|].
      cbn [orb] in H.
      destruct (existsb (fun c => mem c right_ && negb (mem c clash_names))
                        (map (renamer clash_names lsfx) left_)) eqn:D3; [discriminate|].
      cbn [orb] in H.
      destruct (existsb (fun c => mem c left_ && negb (mem c clash_names))
                        (map (renamer clash_names rsfx) right_)) eqn:D4; [discriminate|].
      inversion H; subst ll rl. clear H.
      split; [apply map_left_closed|]. split; [apply map_right_closed|].
      split; [apply (new_dups_nodup left_); [exact nd_left|apply map_length|exact D1]|].
      split; [apply (new_dups_nodup right_); [exact nd_right|apply map_length|exact D2]|].
      split.
      + intros c Hc Hin.
        assert (Hex : existsb (fun c => mem c left_ && negb (mem c clash_names))
                              (map (renamer clash_names rsfx) right_) = true).
        { apply existsb_exists. exists c. split; [exact Hin|].
          apply andb_true_iff. split.
          - apply mem_In. unfold left_. apply in_app_iff in Hc. rewrite !in_app_iff. tauto.
          - apply negb_true_iff, mem_false. exact (P_not_clash c Hc). }
        rewrite Hex in D4. discriminate.
      + intros c Hc Hin.
        assert (Hex : existsb (fun c => mem c right_ && negb (mem c clash_names))
                              (map (renamer clash_names lsfx) left_) = true).
        { apply existsb_exists. exists c. split; [exact Hin|].
          apply andb_true_iff. split.
          - apply mem_In. unfold right_. apply in_app_iff. left. exact Hc.
          - apply negb_true_iff, mem_false. exact (Q_not_clash c Hc). }
        rewrite Hex in D3. discriminate.
  Qed.
End SuffixClosed.

(* ------------------------------------------------------------------ *)
(* the columns of the joined frame *)

Lemma renamed_as_map : forall f c cols, In c cols -> renamed_as c cols (map f cols) = f c.
Proof.
  induction cols as [|x t IH]; intros H; [contradiction|]. cbn.
  destruct (String.eqb_spec x c) as [E|E]; [now subst|].
  destruct H as [H|H]; [contradiction|]. exact (IH H).
Qed.

Lemma disjoint_app_l : forall l1 l2 r, disjoint (l1 ++ l2) r <-> disjoint l1 r /\ disjoint l2 r.
Proof.
  intros. unfold disjoint. split.
  - intros H. split; intros x Hx; apply H; apply in_app_iff; tauto.
  - intros [H1 H2] x Hx. apply in_app_iff in Hx. destruct Hx; auto.
Qed.

Lemma disjoint_app_r : forall l r1 r2, disjoint l (r1 ++ r2) <-> disjoint l r1 /\ disjoint l r2.
Proof.
  intros. unfold disjoint. split.
  - intros H. split; intros x Hx Hin; apply (H x Hx); apply in_app_iff; tauto.
  - intros [H1 H2] x Hx Hin. apply in_app_iff in Hin. destruct Hin; [exact (H1 x Hx H)|exact (H2 x Hx H)].
Qed.

Lemma disjoint_sym : forall l r, disjoint l r -> disjoint r l.
Proof. intros l r H x Hx Hin. exact (H x Hin Hx). Qed.

Lemma NoDup_app_inv : forall (l1 l2 : list string),
  NoDup (l1 ++ l2) -> NoDup l1 /\ NoDup l2 /\ disjoint l1 l2.
Proof.
  induction l1 as [|x t IH]; intros l2 H; cbn in *.
  - repeat split; [constructor|exact H|intros x []].
  - inversion H; subst. destruct (IH l2 H3) as [H1 [H2' Hd]]. repeat split.
    + constructor; [|exact H1]. intros Hin. apply H2. apply in_app_iff. left. exact Hin.
    + exact H2'.
    + intros y [E|Hy] Hin.
      * subst. apply H2. apply in_app_iff. right. exact Hin.
      * exact (Hd y Hy Hin).
Qed.

Lemma NoDup_app_build : forall (l1 l2 : list string),
  NoDup l1 -> NoDup l2 -> disjoint l1 l2 -> NoDup (l1 ++ l2).
Proof. intros. apply NoDup_app_disj; assumption. Qed.

Lemma remove_all_incl : forall xs l x, In x (remove_all xs l) -> In x l /\ ~ In x xs.
Proof.
  intros xs l x H. unfold remove_all in H. apply filter_In in H. destruct H as [H1 H2].
  split; [exact H1|]. apply mem_false. now apply negb_true_iff.
Qed.

(* generated names and key names are pairwise different and differ from every user column *)
Definition names_ok (lm rm : fmeta) (il ir : list string) : Prop :=
  NoDup (fm_cols lm) /\ NoDup (fm_cols rm) /\
  In (fm_geom lm) (fm_cols lm) /\ In (fm_geom rm) (fm_cols rm) /\
  disjoint (fm_cols lm ++ fm_cols rm) (il ++ ir ++ [key_left; key_right]) /\
  NoDup (il ++ ir ++ [key_left; key_right]).

(* names occurring in both frames (the dropped geometry column excluded) *)
Definition clash_of (h : how) (lm rm : fmeta) : list string :=
  match h with
  | Right => filter (fun c => mem c (fm_cols rm)) (remove_all [fm_geom lm] (fm_cols lm))
  | _ => filter (fun c => mem c (remove_all [fm_geom rm] (fm_cols rm))) (fm_cols lm)
  end.

Section JoinCols.
  Variables lsuffix rsuffix : string.
  Variables lm rm : fmeta.
  Variables il ir : list string.
  Hypothesis Hok : names_ok lm rm il ir.

  Let lcols := fm_cols lm.
  Let rcols := fm_cols rm.

  Lemma ok_parts :
    NoDup lcols /\ NoDup rcols /\ In (fm_geom lm) lcols /\ In (fm_geom rm) rcols /\
    disjoint lcols il /\ disjoint lcols ir /\ disjoint lcols [key_left; key_right] /\
    disjoint rcols il /\ disjoint rcols ir /\ disjoint rcols [key_left; key_right] /\
    NoDup il /\ NoDup ir /\ disjoint il ir /\ disjoint il [key_left; key_right] /\
    disjoint ir [key_left; key_right] /\ key_left <> key_right.
  Proof.
    destruct Hok as [H1 [H2 [H3 [H4 [H5 H6]]]]].
    apply disjoint_app_l in H5. destruct H5 as [H5l H5r].
    apply disjoint_app_r in H5l. destruct H5l as [Hl1 Hl2]. apply disjoint_app_r in Hl2.
    apply disjoint_app_r in H5r. destruct H5r as [Hr1 Hr2]. apply disjoint_app_r in Hr2.
    apply NoDup_app_inv in H6. destruct H6 as [N1 [N2 D1]].
    apply NoDup_app_inv in N2. destruct N2 as [N2 [N3 D2]].
    apply disjoint_app_r in D1.
    repeat split; try tauto.
    intros E. inversion E.
  Qed.

  (* how = inner / left *)
  Theorem join_cols_left_closed : forall h cols g,
    h <> Right ->
    join_cols h lsuffix rsuffix lm rm il ir = inr (cols, g) ->
    cols = map (suffixed (clash_of h lm rm) lsuffix) lcols ++ ir ++
           map (suffixed (clash_of h lm rm) rsuffix) (remove_all [fm_geom rm] rcols) /\
    g = suffixed (clash_of h lm rm) lsuffix (fm_geom lm).
  Proof.
    intros h cols g Hh H.
    destruct ok_parts as [Nl [Nr [Gl [Gr [Lil [Lir [Lk [Ril [Rir [Rk [Nil [Nir [Dil [Ilk [Irk Kne]]]]]]]]]]]]]]].
    assert (Hcl : clash_of h lm rm = filter (fun c => mem c (remove_all [fm_geom rm] rcols)) lcols)
      by (destruct h; [reflexivity|reflexivity|contradiction]).
    rewrite Hcl. clear Hcl.
    assert (Hj : join_cols Inner lsuffix rsuffix lm rm il ir = inr (cols, g))
      by (destruct h; [exact H|exact H|contradiction]).
    clear H. unfold join_cols in Hj. fold lcols rcols in Hj.
    set (rc' := remove_all [fm_geom rm] rcols) in *.
    assert (Hdrop : drop_cols [fm_geom rm] (ir ++ rcols) = Some (ir ++ rc')).
    { unfold drop_cols. cbn [forallb]. replace (mem (fm_geom rm) (ir ++ rcols)) with true.
      - cbn. rewrite remove_all_app. rewrite remove_all_none; [reflexivity|].
        intros x Hx [E|[]]. subst x. exact (Rir _ Gr Hx).
      - symmetry. apply mem_In. apply in_app_iff. right. exact Gr. }
    rewrite Hdrop in Hj. clear Hdrop.
    assert (Hrc : forall x, In x rc' -> In x rcols) by (intros x Hx; exact (proj1 (remove_all_incl _ _ _ Hx))).
    (* the closed form of the suffix rule *)
    assert (NDl : NoDup (il ++ lcols ++ [key_right])).
    { apply NoDup_app_build; [exact Nil| |].
      - apply NoDup_app_build; [exact Nl|repeat constructor; intros []|].
        intros x Hx [E|[]]. subst x. apply (Lk _ Hx). right. left. reflexivity.
      - intros x Hx Hin. apply in_app_iff in Hin. destruct Hin as [Hin|[E|[]]].
        + exact (Lil _ Hin Hx).
        + subst x. apply (Ilk _ Hx). right. left. reflexivity. }
    assert (NDr : NoDup (ir ++ rc')).
    { apply NoDup_app_build; [exact Nir|apply NoDup_filter; exact Nr|].
      intros x Hx Hin. exact (Rir _ (Hrc _ Hin) Hx). }
    assert (D1 : disjoint il (ir ++ rc')).
    { intros x Hx Hin. apply in_app_iff in Hin. destruct Hin as [Hin|Hin];
        [exact (Dil _ Hx Hin)|exact (Ril _ (Hrc _ Hin) Hx)]. }
    assert (D2 : disjoint [key_right] (ir ++ rc')).
    { intros x [E|[]] Hin. subst x. apply in_app_iff in Hin. destruct Hin as [Hin|Hin].
      - apply (Irk _ Hin). right. left. reflexivity.
      - apply (Rk _ (Hrc _ Hin)). right. left. reflexivity. }
    assert (D3 : disjoint ir (il ++ lcols ++ [key_right])).
    { intros x Hx Hin. apply in_app_iff in Hin. destruct Hin as [Hin|Hin].
      - exact (Dil _ Hin Hx).
      - apply in_app_iff in Hin. destruct Hin as [Hin|[E|[]]].
        + exact (Lir _ Hin Hx).
        + subst x. apply (Irk _ Hx). right. left. reflexivity. }
    destruct (suffix_cols (sapp "_" lsuffix) (sapp "_" rsuffix)
                          ((il ++ lcols) ++ [key_right]) (ir ++ rc')) as [[ll rl]|] eqn:Es;
      [|discriminate].
    rewrite <- app_assoc in Es.
    destruct (suffix_cols_closed (sapp "_" lsuffix) (sapp "_" rsuffix) il lcols [key_right] ir rc'
                                 NDl NDr D1 D2 D3 ll rl Es)
      as [Hll [Hrl [Nll [Nrl [DP DQ]]]]].
    unfold ll_closed, rl_closed, clash_names in Hll, Hrl.
    set (cl := filter (fun c => mem c rc') lcols) in *.
    set (renL := renamer cl (sapp "_" lsuffix)) in *.
    set (renR := renamer cl (sapp "_" rsuffix)) in *.
    (* set_index(index_left) *)
    assert (Dl : disjoint il (map renL lcols ++ [key_right])).
    { rewrite Hll in Nll. apply NoDup_app_inv in Nll. tauto. }
    assert (Hset : set_index il (ll ++ rl) = Some (map renL lcols ++ [key_right] ++ rl)).
    { unfold set_index.
      replace (forallb (fun k => mem k (ll ++ rl)) il) with true.
      - f_equal. rewrite Hll. rewrite <- !app_assoc. rewrite remove_all_app.
        rewrite (remove_all_all il il) by (intros x Hx; exact Hx). cbn [app].
        apply remove_all_none.
        intros x Hx Hin. apply in_app_iff in Hx. destruct Hx as [Hx|[E|Hx]].
        + apply (Dl _ Hin). apply in_app_iff. left. exact Hx.
        + subst x. apply (Dl _ Hin). apply in_app_iff. right. left. reflexivity.
        + apply (DP x); [apply in_app_iff; left; exact Hin|exact Hx].
      - symmetry. apply forallb_forall. intros k Hk. apply mem_In.
        apply in_app_iff. left. rewrite Hll. apply in_app_iff. left. exact Hk. }
    rewrite Hset in Hj. clear Hset.
    (* drop(_key_right) *)
    assert (Hd : drop_cols [key_right] (map renL lcols ++ [key_right] ++ rl) =
                 Some (map renL lcols ++ rl)).
    { unfold drop_cols. cbn [forallb].
      replace (mem key_right (map renL lcols ++ [key_right] ++ rl)) with true.
      - cbn [andb]. f_equal. rewrite !remove_all_app.
        rewrite (remove_all_all [key_right] [key_right]) by (intros x Hx; exact Hx).
        cbn [app]. rewrite !remove_all_none; [reflexivity| |].
        + intros x Hx [E|[]]. subst x.
          apply (DP key_right); [apply in_app_iff; right; left; reflexivity|exact Hx].
        + intros x Hx [E|[]]. subst x.
          rewrite Hll in Nll. apply NoDup_app_inv in Nll. destruct Nll as [_ [N2 _]].
          apply NoDup_app_inv in N2. destruct N2 as [_ [_ D]].
          apply (D _ Hx). left. reflexivity.
      - symmetry. apply mem_In. rewrite !in_app_iff. right. left. left. reflexivity. }
    rewrite Hd in Hj. clear Hd.
    inversion Hj; subst cols g. clear Hj.
    split.
    - rewrite Hrl. reflexivity.
    - assert (Hmap : ll = map renL (il ++ lcols ++ [key_right])).
      { rewrite Hll. symmetry.
        apply (map_left_closed (sapp "_" lsuffix) il lcols [key_right] ir rc' D1 D2). }
      rewrite app_assoc in Hmap. rewrite Hmap.
      rewrite renamed_as_map; [reflexivity|].
      rewrite !in_app_iff. left. right. exact Gl.
  Qed.
End JoinCols.

Section JoinColsRight.
  Variables lsuffix rsuffix : string.
  Variables lm rm : fmeta.
  Variables il ir : list string.
  Hypothesis Hok : names_ok lm rm il ir.

  Let lcols := fm_cols lm.
  Let rcols := fm_cols rm.

  (* how = right *)
  Theorem join_cols_right_closed : forall cols g,
    join_cols Right lsuffix rsuffix lm rm il ir = inr (cols, g) ->
    cols = il ++ map (suffixed (clash_of Right lm rm) lsuffix) (remove_all [fm_geom lm] lcols) ++
           map (suffixed (clash_of Right lm rm) rsuffix) rcols /\
    g = suffixed (clash_of Right lm rm) rsuffix (fm_geom rm).
  Proof.
    intros cols g Hj.
    destruct (ok_parts lm rm il ir Hok)
      as [Nl [Nr [Gl [Gr [Lil [Lir [Lk [Ril [Rir [Rk [Nil [Nir [Dil [Ilk [Irk Kne]]]]]]]]]]]]]]].
    fold lcols rcols in Nl, Nr, Gl, Gr, Lil, Lir, Lk, Ril, Rir, Rk.
    unfold clash_of. fold lcols rcols.
    unfold join_cols in Hj. fold lcols rcols in Hj.
    set (lc' := remove_all [fm_geom lm] lcols) in *.
    assert (Hdrop : drop_cols [fm_geom lm] (il ++ lcols) = Some (il ++ lc')).
    { unfold drop_cols. cbn [forallb]. replace (mem (fm_geom lm) (il ++ lcols)) with true.
      - cbn. rewrite remove_all_app. rewrite remove_all_none; [reflexivity|].
        intros x Hx [E|[]]. subst x. exact (Lil _ Gl Hx).
      - symmetry. apply mem_In. apply in_app_iff. right. exact Gl. }
    rewrite Hdrop in Hj. clear Hdrop.
    assert (Hlc : forall x, In x lc' -> In x lcols) by (intros x Hx; exact (proj1 (remove_all_incl _ _ _ Hx))).
    set (Q := [key_left; key_right] ++ ir).
    assert (NQ : NoDup Q).
    { unfold Q. apply NoDup_app_build; [|exact Nir|].
      - constructor; [intros [E|[]]; exact (Kne (eq_sym E))|repeat constructor; intros []].
      - intros x Hx Hin. exact (Irk _ Hin Hx). }
    assert (NDl : NoDup (il ++ lc' ++ [])).
    { rewrite app_nil_r. apply NoDup_app_build; [exact Nil|apply NoDup_filter; exact Nl|].
      intros x Hx Hin. exact (Lil _ (Hlc _ Hin) Hx). }
    assert (NDr : NoDup (Q ++ rcols)).
    { apply NoDup_app_build; [exact NQ|exact Nr|].
      intros x Hx Hin. unfold Q in Hx. apply in_app_iff in Hx. destruct Hx as [Hx|Hx].
      - exact (Rk _ Hin Hx).
      - exact (Rir _ Hin Hx). }
    assert (D1 : disjoint il (Q ++ rcols)).
    { intros x Hx Hin. apply in_app_iff in Hin. destruct Hin as [Hin|Hin].
      - unfold Q in Hin. apply in_app_iff in Hin. destruct Hin as [Hin|Hin].
        + exact (Ilk _ Hx Hin).
        + exact (Dil _ Hx Hin).
      - exact (Ril _ Hin Hx). }
    assert (D2 : disjoint [] (Q ++ rcols)) by (intros x []).
    assert (D3 : disjoint Q (il ++ lc' ++ [])).
    { rewrite app_nil_r. intros x Hx Hin. unfold Q in Hx. apply in_app_iff in Hx.
      apply in_app_iff in Hin. destruct Hx as [Hx|Hx], Hin as [Hin|Hin].
      - exact (Ilk _ Hin Hx).
      - exact (Lk _ (Hlc _ Hin) Hx).
      - exact (Dil _ Hin Hx).
      - exact (Lir _ (Hlc _ Hin) Hx). }
    change ([key_left; key_right] ++ ir ++ rcols) with (Q ++ rcols) in Hj.
    destruct (suffix_cols (sapp "_" lsuffix) (sapp "_" rsuffix) (il ++ lc') (Q ++ rcols))
      as [[ll rl]|] eqn:Es; [|discriminate].
    rewrite <- (app_nil_r lc') in Es.
    destruct (suffix_cols_closed (sapp "_" lsuffix) (sapp "_" rsuffix) il lc' [] Q rcols
                                 NDl NDr D1 D2 D3 ll rl Es)
      as [Hll [Hrl [Nll [Nrl [DP DQ]]]]].
    unfold ll_closed, rl_closed, clash_names in Hll, Hrl. rewrite app_nil_r in Hll.
    set (cl := filter (fun c => mem c rcols) lc') in *.
    set (renL := renamer cl (sapp "_" lsuffix)) in *.
    set (renR := renamer cl (sapp "_" rsuffix)) in *.
    (* rl = [_key_left; _key_right] ++ ir ++ map renR rcols, without duplicates *)
    assert (Drl : disjoint Q (map renR rcols)).
    { rewrite Hrl in Nrl. apply NoDup_app_inv in Nrl. tauto. }
    (* set_index(index_right) *)
    assert (Hset : set_index ir (ll ++ rl) =
                   Some (ll ++ [key_left; key_right] ++ map renR rcols)).
    { unfold set_index.
      replace (forallb (fun k => mem k (ll ++ rl)) ir) with true.
      - f_equal. rewrite Hrl. unfold Q. rewrite <- !app_assoc. rewrite !remove_all_app.
        rewrite (remove_all_all ir ir) by (intros x Hx; exact Hx). cbn [app].
        rewrite (remove_all_none ir ll).
        + rewrite (remove_all_none ir [key_left; key_right]).
          * rewrite (remove_all_none ir (map renR rcols)); [reflexivity|].
            intros x Hx Hin. apply (Drl x); [unfold Q; apply in_app_iff; right; exact Hin|exact Hx].
          * intros x Hx Hin. exact (Irk _ Hin Hx).
        + intros x Hx Hin. apply (DQ x); [unfold Q; apply in_app_iff; right; exact Hin|exact Hx].
      - symmetry. apply forallb_forall. intros k Hk. apply mem_In.
        apply in_app_iff. right. rewrite Hrl. unfold Q. rewrite !in_app_iff. left. right. exact Hk. }
    rewrite Hset in Hj. clear Hset.
    (* drop(_key_left, _key_right) *)
    assert (Hd : drop_cols [key_left; key_right] (ll ++ [key_left; key_right] ++ map renR rcols) =
                 Some (ll ++ map renR rcols)).
    { unfold drop_cols.
      replace (forallb (fun k => mem k (ll ++ [key_left; key_right] ++ map renR rcols))
                       [key_left; key_right]) with true.
      - f_equal. rewrite !remove_all_app.
        rewrite (remove_all_all [key_left; key_right] [key_left; key_right]) by (intros x Hx; exact Hx).
        cbn [app]. rewrite !remove_all_none; [reflexivity| |].
        + intros x Hx Hin. apply (Drl x); [unfold Q; apply in_app_iff; left; exact Hin|exact Hx].
        + intros x Hx Hin. apply (DQ x); [unfold Q; apply in_app_iff; left; exact Hin|exact Hx].
      - symmetry. apply forallb_forall. intros k Hk. apply mem_In.
        rewrite !in_app_iff. right. left. exact Hk. }
    rewrite Hd in Hj. clear Hd.
    assert (Hg : renamed_as (fm_geom rm) (Q ++ rcols) rl = renR (fm_geom rm)).
    { assert (Hmap : rl = map renR (Q ++ rcols)).
      { rewrite Hrl. symmetry.
        apply (map_right_closed (sapp "_" rsuffix) il lc' [] Q rcols D3). }
      rewrite Hmap. apply renamed_as_map. apply in_app_iff. right. exact Gr. }
    rewrite Hg in Hj. clear Hg.
    assert (Hc : cols = ll ++ map renR rcols) by congruence.
    assert (Hgg : g = renR (fm_geom rm)) by congruence.
    split.
    - rewrite Hc, Hll. rewrite <- app_assoc. reflexivity.
    - exact Hgg.
  Qed.
End JoinColsRight.

(* ------------------------------------------------------------------ *)
(* sjoin as a whole: names *)

Definition kept (h : how) (lm rm : fmeta) : fmeta := match h with Right => rm | _ => lm end.

Definition index_names (ix : index_kind) : list (option string) :=
  match ix with IxPlain nm => [nm] | IxMulti names => names end.

(* a plain index (named or not) or a MultiIndex with at least two levels *)
Definition ordinary_index (ix : index_kind) : Prop :=
  match ix with IxPlain _ => True | IxMulti names => 2 <= List.length names end.

Lemma record_reset_index_names : forall ix s,
  ordinary_index ix -> fst (record_reset_index ix s) = index_names ix.
Proof.
  intros [nm|names] s H; cbn; [reflexivity|].
  destruct names as [|n1 [|n2 t]]; cbn in H; try lia. reflexivity.
Qed.

Theorem sjoin_index_restored : forall mrg cand h ls rs lm rm a rgeoms res,
  sjoin mrg cand h ls rs lm rm a rgeoms = Some (inr res) ->
  ordinary_index (fm_index (kept h lm rm)) ->
  j_index_names res = index_names (fm_index (kept h lm rm)).
Proof.
  intros mrg cand h ls rs lm rm a rgeoms res H Ho.
  destruct (sjoin_inr_inv _ _ _ _ _ _ _ _ _ _ H) as [ps [cols [g [_ [_ [_ [_ Hres]]]]]]].
  subst res. cbn [j_index_names].
  destruct h; cbn [kept] in Ho; now apply record_reset_index_names.
Qed.

Lemma sjoin_inr_in_model : forall mrg cand h ls rs lm rm a rgeoms res,
  sjoin mrg cand h ls rs lm rm a rgeoms = Some (inr res) ->
  in_model lm rm = true /\ wf_fixarr a = true.
Proof.
  intros mrg cand h ls rs lm rm a rgeoms res H. unfold sjoin in H.
  destruct (in_model lm rm && wf_fixarr a) eqn:E; [|discriminate].
  apply andb_true_iff in E. exact E.
Qed.

Lemma names_ok_intro : forall lm rm il ir,
  in_model lm rm = true ->
  name_clash (fm_cols lm) (fm_cols rm) il ir = false ->
  NoDup (il ++ ir ++ [key_left; key_right]) ->
  names_ok lm rm il ir.
Proof.
  intros lm rm il ir Hm Hc Hn. unfold in_model in Hm.
  repeat (apply andb_true_iff in Hm; destruct Hm as [Hm ?]).
  unfold names_ok.
  split; [apply has_dup_false; now apply negb_true_iff|].
  split; [apply has_dup_false; now apply negb_true_iff|].
  split; [now apply mem_In|]. split; [now apply mem_In|]. split; [|exact Hn].
  unfold name_clash in Hc. apply orb_false_iff in Hc. destruct Hc as [Hcl Hcr].
  match goal with Hk : negb (existsb _ (fm_cols lm ++ fm_cols rm)) = true |- _ =>
    apply negb_true_iff in Hk; rename Hk into Hkeys end.
  intros x Hx Hin. rewrite app_assoc in Hin. apply in_app_iff in Hin. destruct Hin as [Hin|Hin].
  - apply in_app_iff in Hx. destruct Hx as [Hx|Hx].
    + assert (E : existsb (fun c => mem c (il ++ ir)) (fm_cols lm) = true)
        by (apply existsb_exists; exists x; split; [exact Hx|now apply mem_In]).
      rewrite E in Hcl. discriminate.
    + assert (E : existsb (fun c => mem c (il ++ ir)) (fm_cols rm) = true)
        by (apply existsb_exists; exists x; split; [exact Hx|now apply mem_In]).
      rewrite E in Hcr. discriminate.
  - assert (E : existsb (fun c => mem c [key_left; key_right]) (fm_cols lm ++ fm_cols rm) = true)
      by (apply existsb_exists; exists x; split; [exact Hx|now apply mem_In]).
    rewrite E in Hkeys. discriminate.
Qed.

(* The columns of the joined frame.  [clash] = the names occurring in both frames (the
   dropped geometry column excluded): they get "_<lsuffix>" / "_<rsuffix>", every other
   name is unchanged.  how = inner/left: the left columns (with the left geometry), then the
   right index column(s), then the right columns without the right geometry; how = right:
   the left index column(s), the left columns without the left geometry, the right columns
   (with the right geometry).  Premise: the generated names index_<suffix>[<level>] and the
   key names are pairwise different (excludes only: one suffix = the other + a level digit). *)
Theorem sjoin_suffixes : forall mrg cand h ls rs lm rm a rgeoms res,
  sjoin mrg cand h ls rs lm rm a rgeoms = Some (inr res) ->
  let il := snd (record_reset_index (fm_index lm) ls) in
  let ir := snd (record_reset_index (fm_index rm) rs) in
  let cl := clash_of h lm rm in
  NoDup (il ++ ir ++ [key_left; key_right]) ->
  match h with
  | Right =>
      j_cols res = il ++ map (suffixed cl ls) (remove_all [fm_geom lm] (fm_cols lm)) ++
                   map (suffixed cl rs) (fm_cols rm) /\
      j_geom res = suffixed cl rs (fm_geom rm)
  | _ =>
      j_cols res = map (suffixed cl ls) (fm_cols lm) ++ ir ++
                   map (suffixed cl rs) (remove_all [fm_geom rm] (fm_cols rm)) /\
      j_geom res = suffixed cl ls (fm_geom lm)
  end.
Proof.
  intros mrg cand h ls rs lm rm a rgeoms res H il ir cl Hn.
  destruct (sjoin_inr_in_model _ _ _ _ _ _ _ _ _ _ H) as [Hm _].
  destruct (sjoin_inr_inv _ _ _ _ _ _ _ _ _ _ H) as [ps [cols [g [_ [_ [Hc [Hj Hres]]]]]]].
  fold il ir in Hc, Hj.
  pose proof (names_ok_intro lm rm il ir Hm Hc Hn) as Hok.
  subst res. cbn [j_cols j_geom]. subst cl.
  destruct h.
  - apply (join_cols_left_closed ls rs lm rm il ir Hok Inner cols g); [discriminate|exact Hj].
  - apply (join_cols_left_closed ls rs lm rm il ir Hok Left cols g); [discriminate|exact Hj].
  - apply (join_cols_right_closed ls rs lm rm il ir Hok cols g). exact Hj.
Qed.

(* the premise holds for two plain indexes whenever the suffixes differ *)
Lemma generated_names_plain : forall nl nr ls rs,
  ls <> rs ->
  NoDup (snd (record_reset_index (IxPlain nl) ls) ++ snd (record_reset_index (IxPlain nr) rs) ++
         [key_left; key_right]).
Proof.
  intros nl nr ls rs Hne. cbn.
  repeat constructor; cbn; intros H;
    repeat (destruct H as [H|H]; [try discriminate; try (inversion H; subst; now apply Hne)|]);
    try contradiction.
Qed.

(* excluded input F1: a MultiIndex with a single level comes back unnamed *)
Local Open Scope string_scope.
Definition f1_left : fixarr :=
  {| fa_off := 0; fa_len := 1; fa_valid := None; fa_vals := [Some 1%Z; Some 1%Z] |}.
Definition f1_lm := {| fm_index := IxMulti [Some "k1"]; fm_cols := ["geometry"; "lid"];
                       fm_geom := "geometry" |}.
Definition f1_rm := {| fm_index := IxPlain None; fm_cols := ["geometry"; "rid"];
                       fm_geom := "geometry" |}.
Definition f1_right : list (option shape) := [Some (ShPoint (Some 1%Z) (Some 1%Z))].

Lemma index_multi1_refuted :
  exists res,
    sjoin merge_rel_op scan_cand Inner "left" "right" f1_lm f1_rm f1_left f1_right = Some (inr res) /\
    j_index_names res = [None] /\
    j_index_names res <> index_names (fm_index (kept Inner f1_lm f1_rm)).
Proof.
  eexists. split; [vm_compute; reflexivity|]. split; [reflexivity|]. cbn. discriminate.
Qed.
