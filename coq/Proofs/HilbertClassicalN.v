(* C07, EVERY dimension n and EVERY order p: consecutive distances are grid neighbours.

   Bit level, coordinates as functions.  [bitf c m t] is bit m of coordinate t.
   * one step of the excess-work loop at level k acts on every bit vector below k as
     [estepf]: flip coordinate 0, or exchange coordinates 0 and i;
   * one level acts as the fold [Lbf] of these steps, governed by the bit vector at k;
   * the Gray-decoded transpose of h is the Gray code g = h xor (h >> 1), read n bits
     per level; g(h) and g(h+1) differ in exactly one bit (level J, coordinate a0), and
     below that bit g(h) is 0...01 0...0;
   * [glue]: level J maps the bit vectors below J of the two runs to vectors that agree
     except at coordinate a0, where they hold the complements of bit J;
   * [conf_Lbf]: every higher level (the same for both runs) preserves this
     configuration, moving the distinguished coordinate along;
   * a coordinate whose bits above J agree, differ at J, and below J are the complement
     of bit J in both numbers, holds two numbers that differ by one ([incr_bits]). *)
From Coq Require Import NArith List Bool Arith Lia.
From SP Require Import Model.Hilbert Spec.Curve Proofs.HilbertLists Proofs.HilbertExcess
     Proofs.HilbertGray Proofs.HilbertTranspose Proofs.HilbertRoundtrip Proofs.HilbertClassical.
Import ListNotations.
Local Open Scope N_scope.

(* ======================================================================== *)
(* 1. bit vectors as functions; one step                                     *)

Definition upd (v : nat -> bool) (j : nat) (x : bool) : nat -> bool :=
  fun t => if (t =? j)%nat then x else v t.

Definition estepf (b : bool) (i : nat) (v : nat -> bool) : nat -> bool :=
  if b then upd v 0 (negb (v 0%nat)) else upd (upd v 0 (v i)) i (v 0%nat).

Definition bitf (c : list N) (m : N) (t : nat) : bool := N.testbit (getc c t) m.

Lemma bitf_setc : forall c i x m t, (i < length c)%nat ->
    bitf (setc c i x) m t = upd (bitf c m) i (N.testbit x m) t.
Proof.
  intros c i x m t Hi. unfold bitf, upd. destruct (Nat.eqb_spec t i) as [->|Hne].
  - now rewrite getc_setc_same.
  - rewrite getc_setc_other by congruence. reflexivity.
Qed.

Lemma excess_step_bitf : forall k c i m t, (0 < length c)%nat -> (i < length c)%nat ->
    bitf (excess_step (2 ^ k) (N.ones k) c i) m t
    = if m <? k then estepf (bitf c k i) i (bitf c m) t else bitf c m t.
Proof.
  intros k c i m t H0 Hi. unfold excess_step. rewrite truthy_land_pow2.
  fold (bitf c k i). destruct (bitf c k i).
  - rewrite bitf_setc by assumption. unfold estepf, upd.
    rewrite N.lxor_spec, ones_bit. fold (bitf c m 0).
    destruct (m <? k); destruct (Nat.eqb_spec t 0); subst; try reflexivity;
      now destruct (bitf c m 0).
  - set (tt := N.land (N.lxor (getc c 0) (getc c i)) (N.ones k)).
    assert (Htt : N.testbit tt m = xorb (bitf c m 0) (bitf c m i) && (m <? k)).
    { unfold tt, bitf. now rewrite N.land_spec, N.lxor_spec, ones_bit. }
    rewrite bitf_setc by (now rewrite setc_length).
    rewrite N.lxor_spec. fold (bitf (setc c 0 (N.lxor (getc c 0) tt)) m i).
    unfold upd at 1. rewrite !bitf_setc by assumption.
    rewrite N.lxor_spec, Htt. fold (bitf c m 0). unfold estepf, upd.
    destruct (m <? k);
      destruct (Nat.eqb_spec t i), (Nat.eqb_spec t 0), (Nat.eqb_spec i 0); subst; try lia;
      repeat match goal with |- context [bitf c m ?j] => destruct (bitf c m j) end;
      reflexivity.
Qed.

Lemma excess_step_length' : forall Q P c i, length (excess_step Q P c i) = length c.
Proof. apply excess_step_length. Qed.

(* ======================================================================== *)
(* 2. one level, all levels                                                  *)

Definition Lbf (b : nat -> bool) (steps : list nat) (v : nat -> bool) : nat -> bool :=
  fold_left (fun v i => estepf (b i) i v) steps v.

Lemma estepf_ext : forall b i v v', (forall t, v t = v' t) -> forall t, estepf b i v t = estepf b i v' t.
Proof.
  intros b i v v' H t. unfold estepf, upd. rewrite !H.
  destruct b; destruct (t =? 0)%nat, (t =? i)%nat; auto.
Qed.

Lemma Lbf_ext : forall steps b b' v v',
    (forall i, In i steps -> b i = b' i) -> (forall t, v t = v' t) ->
    forall t, Lbf b steps v t = Lbf b' steps v' t.
Proof.
  induction steps as [|i r IH]; intros b b' v v' Hb Hv t; cbn [Lbf fold_left]; [apply Hv|].
  apply IH.
  - intros j Hj. apply Hb. now right.
  - intro t'. rewrite (Hb i) by now left. now apply estepf_ext.
Qed.

Lemma steps_bitf : forall k steps c m t, (0 < length c)%nat ->
    (forall i, In i steps -> (i < length c)%nat) ->
    bitf (fold_left (excess_step (2 ^ k) (N.ones k)) steps c) m t
    = if m <? k then Lbf (bitf c k) steps (bitf c m) t else bitf c m t.
Proof.
  intros k. induction steps as [|i r IH]; intros c m t H0 Hs; cbn [fold_left Lbf].
  - now destruct (m <? k).
  - assert (Hi : (i < length c)%nat) by (apply Hs; now left).
    rewrite IH; [|now rewrite excess_step_length|
                 intros j Hj; rewrite excess_step_length; apply Hs; now right].
    destruct (N.ltb_spec m k) as [Hm|Hm].
    + apply Lbf_ext.
      * intros j _. rewrite excess_step_bitf by assumption. now rewrite N.ltb_irrefl.
      * intro t'. rewrite excess_step_bitf by assumption.
        destruct (N.ltb_spec m k); [reflexivity|lia].
    + rewrite excess_step_bitf by assumption. destruct (N.ltb_spec m k); [lia|reflexivity].
Qed.

Definition down_steps (n : nat) : list nat := rev (seq 0 n).

Lemma level_bitf : forall n k c m t, (1 <= n)%nat -> length c = n ->
    bitf (level_down n c k) m t
    = if m <? N.of_nat k then Lbf (bitf c (N.of_nat k)) (down_steps n) (bitf c m) t
      else bitf c m t.
Proof.
  intros n k c m t Hn Hl. unfold level_down. cbv zeta. rewrite ones_pred.
  apply steps_bitf; [lia|]. intros i Hi. apply in_rev, in_seq in Hi. lia.
Qed.

Fixpoint ubfn (n : nat) (g : N -> nat -> bool) (k : nat) (m : N) : nat -> bool :=
  match k with
  | O => g m
  | S k' => if m <? N.of_nat (S k')
            then Lbf (g (N.of_nat (S k'))) (down_steps n) (ubfn n g k' m)
            else g m
  end.

Lemma ubfn_high : forall n g k m, N.of_nat k <= m -> ubfn n g k m = g m.
Proof.
  induction k as [|k IH]; intros m Hm; [reflexivity|]. cbn [ubfn].
  destruct (N.ltb_spec m (N.of_nat (S k))); [lia|reflexivity].
Qed.

Lemma ubfn_ext : forall n g g' k m, (forall j t, m <= j -> g j t = g' j t) ->
    forall t, ubfn n g k m t = ubfn n g' k m t.
Proof.
  induction k as [|k IH]; intros m H t; cbn [ubfn]; [apply H; lia|].
  destruct (N.ltb_spec m (N.of_nat (S k))).
  - apply Lbf_ext; [intros i _; apply H; lia|]. intro t'. now apply IH.
  - apply H. lia.
Qed.

Lemma levels_length : forall n k c, length (fold_left (level_down n) (seq 1 k) c) = length c.
Proof.
  intros n k c. apply (fold_inv _ (fun a => length a = length c)); auto.
  intros a j Ha _. now rewrite level_down_length.
Qed.

Lemma levels_bitf : forall n k c m t, (1 <= n)%nat -> length c = n ->
    bitf (fold_left (level_down n) (seq 1 k) c) m t = ubfn n (bitf c) k m t.
Proof.
  intros n. induction k as [|k IH]; intros c m t Hn Hl; [reflexivity|].
  rewrite seq_S, fold_left_app. cbn [fold_left plus ubfn].
  rewrite level_bitf by (try assumption; now rewrite levels_length).
  destruct (N.ltb_spec m (N.of_nat (S k))).
  - apply Lbf_ext.
    + intros i _. rewrite IH by assumption. now rewrite ubfn_high by lia.
    + intro t'. now apply IH.
  - rewrite IH by assumption. apply (f_equal (fun f => f t)). apply ubfn_high. lia.
Qed.

(* ======================================================================== *)
(* 3. the Gray-decoded transpose is the Gray code of h, n bits per level      *)

Lemma getc_diffs : forall rest a i, (i < length rest)%nat ->
    getc (a :: diffs a rest) (S i) = N.lxor (getc (a :: rest) (S i)) (getc (a :: rest) i).
Proof.
  induction rest as [|x r IH]; intros a i Hi; [simpl in Hi; lia|].
  cbn [diffs]. destruct i as [|i]; [reflexivity|].
  change (getc (a :: N.lxor x a :: diffs x r) (S (S i))) with (getc (x :: diffs x r) (S i)).
  change (getc (a :: x :: r) (S (S i))) with (getc (x :: r) (S i)).
  change (getc (a :: x :: r) (S i)) with (getc (x :: r) i).
  apply IH. simpl in Hi. lia.
Qed.

Lemma gray_decode_bitf : forall n c m t, (1 <= n)%nat -> length c = n -> (t < n)%nat ->
    bitf (gray_decode n c) m t
    = if (t =? 0)%nat then xorb (bitf c m 0) (bitf c (m + 1) (n - 1))
      else xorb (bitf c m t) (bitf c m (t - 1)).
Proof.
  intros n c m t Hn Hl Ht. destruct c as [|a rest]; [simpl in Hl; lia|].
  cbn [length] in Hl. subst n. rewrite gray_decode_cons. unfold bitf.
  replace (S (length rest) - 1)%nat with (length rest) by lia.
  destruct t as [|t].
  - cbn [Nat.eqb]. change (getc (_ :: diffs a rest) 0) with
        (N.lxor a (N.shiftr (getc (a :: rest) (length rest)) 1)).
    rewrite N.lxor_spec, N.shiftr_spec'. reflexivity.
  - cbn [Nat.eqb]. replace (S t - 1)%nat with t by lia.
    change (getc (N.lxor a (N.shiftr (getc (a :: rest) (length rest)) 1) :: diffs a rest) (S t))
      with (getc (a :: diffs a rest) (S t)).
    rewrite getc_diffs by lia. now rewrite N.lxor_spec.
Qed.

(* the Gray code of h, bit q *)
Definition gam (h : N) (q : N) : bool := xorb (N.testbit h q) (N.testbit h (q + 1)).

(* bit vector of level m: coordinate t holds Gray bit m*n + (n-1-t) *)
Definition grn (n : nat) (h : N) (m : N) (t : nat) : bool :=
  if (t <? n)%nat then gam h (m * N.of_nat n + N.of_nat (n - 1 - t)) else false.

Lemma h2t_bitf : forall p n h m i, (1 <= p)%nat -> (i < n)%nat -> h < 2 ^ N.of_nat (n * p) ->
    bitf (hilbert_integer_to_transpose p h n) m i
    = N.testbit h (m * N.of_nat n + N.of_nat (n - 1 - i)).
Proof.
  intros p n h m i Hp Hi Hh. unfold bitf. rewrite <- (N2Nat.id m) at 1.
  rewrite h2t_testbit by assumption.
  replace (N.of_nat (N.to_nat m * n + (n - 1 - i))) with (m * N.of_nat n + N.of_nat (n - 1 - i)) by lia.
  destruct (Nat.ltb_spec (N.to_nat m) p) as [Hlt|Hge]; [reflexivity|].
  symmetry. apply (lt_testbit_high _ h _ Hh).
  assert (N.of_nat p <= m) by lia.
  replace (N.of_nat (n * p)) with (N.of_nat p * N.of_nat n) by lia.
  assert (N.of_nat p * N.of_nat n <= m * N.of_nat n) by (apply N.mul_le_mono_r; assumption).
  lia.
Qed.

Lemma gray_h2t_bitf : forall p n h m t, (1 <= p)%nat -> (1 <= n)%nat -> h < 2 ^ N.of_nat (n * p) ->
    bitf (gray_decode n (hilbert_integer_to_transpose p h n)) m t = grn n h m t.
Proof.
  intros p n h m t Hp Hn Hh. unfold grn.
  destruct (Nat.ltb_spec t n) as [Ht|Ht].
  - rewrite gray_decode_bitf by (try assumption; apply h2t_length).
    unfold gam. destruct (Nat.eqb_spec t 0) as [->|Hne].
    + rewrite !h2t_bitf by (try assumption; lia). f_equal. f_equal. lia.
    + rewrite !h2t_bitf by (try assumption; lia). f_equal. f_equal. lia.
  - unfold bitf, getc. rewrite nth_overflow; [apply N.bits_0|].
    rewrite gray_decode_length; [lia|lia|apply h2t_length].
Qed.

(* ======================================================================== *)
(* 4. the bits of h + 1; the Gray codes of h and h + 1                        *)

Lemma incr_bits : forall t0 x, N.testbit x t0 = false -> (forall m, m < t0 -> N.testbit x m = true) ->
    forall m, N.testbit (x + 1) m = if m <? t0 then false else if m =? t0 then true else N.testbit x m.
Proof.
  intro t0. induction t0 as [|t IH] using N.peano_ind; intros x H0 Hlow m.
  - assert (Hx : x = 2 * N.div2 x).
    { rewrite (N.div2_odd x) at 1. rewrite <- N.bit0_odd, H0. cbn [N.b2n]. lia. }
    rewrite Hx. destruct (N.eq_dec m 0) as [->|Hm].
    + cbn [N.ltb N.compare N.eqb]. apply N.testbit_odd_0.
    + rewrite <- (N.succ_pred m Hm).
      destruct (N.ltb_spec (N.succ (N.pred m)) 0); [lia|].
      destruct (N.eqb_spec (N.succ (N.pred m)) 0); [lia|].
      rewrite N.testbit_odd_succ, N.testbit_even_succ by lia. reflexivity.
  - assert (Hb0 : N.testbit x 0 = true) by (apply Hlow; lia).
    assert (Hx : x = 2 * N.div2 x + 1).
    { rewrite (N.div2_odd x) at 1. rewrite <- N.bit0_odd, Hb0. reflexivity. }
    set (d := N.div2 x) in *.
    assert (Hd : forall j, N.testbit d j = N.testbit x (N.succ j))       by (intro j; unfold d; rewrite N.div2_spec, N.shiftr_spec'; f_equal; lia).
    replace (x + 1) with (2 * (d + 1)) by lia.
    destruct (N.eq_dec m 0) as [->|Hm].
    + destruct (N.ltb_spec 0 (N.succ t)); [|lia]. apply N.testbit_even_0.
    + rewrite <- (N.succ_pred m Hm). set (m' := N.pred m).
      rewrite N.testbit_even_succ by lia.
      rewrite IH; [| rewrite Hd; exact H0 | intros j Hj; rewrite Hd; apply Hlow; lia].
      rewrite Hd.
      destruct (N.ltb_spec m' t), (N.ltb_spec (N.succ m') (N.succ t)); try lia; try reflexivity.
      destruct (N.eqb_spec m' t), (N.eqb_spec (N.succ m') (N.succ t)); try lia; reflexivity.
Qed.

Lemma lowest_zero : forall x, exists t0,
    N.testbit x t0 = false /\ forall m, m < t0 -> N.testbit x m = true.
Proof.
  intros [|p].
  - exists 0. split; [reflexivity|]. intros m Hm. lia.
  - induction p as [p IH|p IH|].
    + destruct IH as [t0 [H0 Hlt]]. exists (N.succ t0).
      change (N.pos p~1) with (2 * N.pos p + 1). split.
      * rewrite N.testbit_odd_succ by lia. exact H0.
      * intros m Hm. destruct (N.eq_dec m 0) as [->|Hne]; [apply N.testbit_odd_0|].
        rewrite <- (N.succ_pred m Hne). rewrite N.testbit_odd_succ by lia. apply Hlt. lia.
    + exists 0. split; [reflexivity|]. intros m Hm. lia.
    + exists 1. split; [reflexivity|]. intros m Hm. assert (m = 0) by lia. now subst.
Qed.

(* Gray codes of consecutive numbers differ in exactly one bit, t0 = the number of
   trailing ones of h; below t0 the Gray code of h is 0..01 0..0 (a one at t0 - 1) *)
Lemma gray_succ : forall h, exists t0,
    N.testbit (h + 1) t0 = true /\
    (forall q, gam (h + 1) q = if q =? t0 then negb (gam h q) else gam h q) /\
    (forall q, q < t0 -> gam h q = (q + 1 =? t0)).
Proof.
  intros h. destruct (lowest_zero h) as [t0 [H0 Hlow]]. exists t0.
  pose proof (incr_bits t0 h H0 Hlow) as Hinc.
  split; [|split].
  - rewrite Hinc. destruct (N.ltb_spec t0 t0); [lia|]. now rewrite N.eqb_refl.
  - intros q. unfold gam. rewrite !Hinc.
    destruct (N.lt_trichotomy q t0) as [Hlt|[Heq|Hgt]].
    + destruct (N.ltb_spec q t0); [|lia]. destruct (N.eqb_spec q t0); [lia|].
      rewrite (Hlow q Hlt).
      destruct (N.eq_dec (q + 1) t0) as [E|E].
      * rewrite E, H0. destruct (N.ltb_spec t0 t0); [lia|]. now rewrite N.eqb_refl.
      * destruct (N.ltb_spec (q + 1) t0); [|lia]. rewrite Hlow by lia. reflexivity.
    + rewrite Heq, H0. destruct (N.ltb_spec t0 t0); [lia|]. rewrite N.eqb_refl.
      destruct (N.ltb_spec (t0 + 1) t0); [lia|]. destruct (N.eqb_spec (t0 + 1) t0); [lia|].
      now destruct (N.testbit h (t0 + 1)).
    + destruct (N.ltb_spec q t0); [lia|]. destruct (N.eqb_spec q t0); [lia|].
      destruct (N.ltb_spec (q + 1) t0); [lia|]. destruct (N.eqb_spec (q + 1) t0); [lia|].
      reflexivity.
  - intros q Hq. unfold gam. rewrite (Hlow q Hq).
    destruct (N.eqb_spec (q + 1) t0) as [E|E].
    + rewrite E, H0. reflexivity.
    + rewrite Hlow by lia. reflexivity.
Qed.

(* ======================================================================== *)
(* 5. a step is a signed coordinate permutation; what it preserves            *)

Definition perm (b : bool) (i t : nat) : nat :=
  if b then t else if (t =? 0)%nat then i else if (t =? i)%nat then 0%nat else t.

Lemma estepf_alt : forall b i v t,
    estepf b i v t = xorb (v (perm b i t)) (b && (t =? 0)%nat).
Proof.
  intros b i v t. unfold estepf, upd, perm. destruct b; cbn [andb].
  - destruct (Nat.eqb_spec t 0) as [->|]; [now destruct (v 0%nat)|apply eq_sym, xorb_false_r].
  - rewrite xorb_false_r.
    destruct (Nat.eqb_spec t i), (Nat.eqb_spec t 0); subst; reflexivity.
Qed.

Lemma perm_invol : forall b i t, perm b i (perm b i t) = t.
Proof.
  intros b i t. unfold perm. destruct b; [reflexivity|].
  destruct (Nat.eqb_spec t 0); subst.
  - destruct (Nat.eqb_spec i 0); [congruence|]. now rewrite Nat.eqb_refl.
  - destruct (Nat.eqb_spec t i); subst; [reflexivity|].
    destruct (Nat.eqb_spec t 0); [lia|]. destruct (Nat.eqb_spec t i); [lia|reflexivity].
Qed.

Lemma perm_lt : forall b i t n, (1 <= n)%nat -> (i < n)%nat -> (t < n)%nat -> (perm b i t < n)%nat.
Proof.
  intros b i t n Hn Hi Ht. unfold perm. destruct b; [assumption|].
  destruct (t =? 0)%nat; [assumption|]. destruct (t =? i)%nat; lia.
Qed.

(* x, x' differ exactly at coordinate a *)
Definition dif1 (a : nat) (x x' : nat -> bool) : Prop :=
  (forall t, t <> a -> x t = x' t) /\ x' a = negb (x a).

(* y, y' agree except at a, where they hold the complements of x a, x' a *)
Definition low1 (a : nat) (x x' y y' : nat -> bool) : Prop :=
  (forall t, t <> a -> y t = y' t) /\ y a = negb (x a) /\ y' a = negb (x' a).

Lemma dif1_ext : forall a x x' z z', (forall t, x t = z t) -> (forall t, x' t = z' t) ->
    dif1 a x x' -> dif1 a z z'.
Proof.
  intros a x x' z z' H H' [H1 H2]. split.
  - intros t Ht. rewrite <- H, <- H'. now apply H1.
  - now rewrite <- H, <- H'.
Qed.

Lemma low1_ext : forall a x x' y y' z z' w w',
    (forall t, x t = z t) -> (forall t, x' t = z' t) ->
    (forall t, y t = w t) -> (forall t, y' t = w' t) ->
    low1 a x x' y y' -> low1 a z z' w w'.
Proof.
  intros a x x' y y' z z' w w' Hx Hx' Hy Hy' (H1 & H2 & H3). split; [|split].
  - intros t Ht. rewrite <- Hy, <- Hy'. now apply H1.
  - now rewrite <- Hy, <- Hx.
  - now rewrite <- Hy', <- Hx'.
Qed.

Lemma estepf_dif1 : forall b i a x x', dif1 a x x' ->
    dif1 (perm b i a) (estepf b i x) (estepf b i x').
Proof.
  intros b i a x x' [H1 H2]. split.
  - intros t Ht. rewrite !estepf_alt. f_equal. apply H1.
    intro E. apply Ht. rewrite <- E. symmetry. apply perm_invol.
  - rewrite !estepf_alt, perm_invol, H2. symmetry; apply negb_xorb_l.
Qed.

Lemma estepf_low1 : forall b i a x x' y y', low1 a x x' y y' ->
    low1 (perm b i a) (estepf b i x) (estepf b i x') (estepf b i y) (estepf b i y').
Proof.
  intros b i a x x' y y' (H1 & H2 & H3). split; [|split].
  - intros t Ht. rewrite !estepf_alt. f_equal. apply H1.
    intro E. apply Ht. rewrite <- E. symmetry. apply perm_invol.
  - rewrite !estepf_alt, perm_invol, H2. symmetry; apply negb_xorb_l.
  - rewrite !estepf_alt, perm_invol, H3. symmetry; apply negb_xorb_l.
Qed.

Definition permfold (b : nat -> bool) (steps : list nat) (a : nat) : nat :=
  fold_left (fun a i => perm (b i) i a) steps a.

Lemma Lbf_dif1 : forall b steps a x x', dif1 a x x' ->
    dif1 (permfold b steps a) (Lbf b steps x) (Lbf b steps x').
Proof.
  intros b. induction steps as [|i r IH]; intros a x x' H; cbn [permfold Lbf fold_left]; [assumption|].
  apply IH. now apply estepf_dif1.
Qed.

Lemma Lbf_low1 : forall b steps a x x' y y', low1 a x x' y y' ->
    low1 (permfold b steps a) (Lbf b steps x) (Lbf b steps x') (Lbf b steps y) (Lbf b steps y').
Proof.
  intros b. induction steps as [|i r IH]; intros a x x' y y' H; cbn [permfold Lbf fold_left];
    [assumption|].
  apply IH. now apply estepf_low1.
Qed.

Lemma permfold_lt : forall b steps a n, (1 <= n)%nat -> (forall i, In i steps -> (i < n)%nat) ->
    (a < n)%nat -> (permfold b steps a < n)%nat.
Proof.
  intros b. induction steps as [|i r IH]; intros a n Hn Hs Ha; cbn [permfold fold_left]; [assumption|].
  apply IH; [assumption|intros j Hj; apply Hs; now right|].
  apply perm_lt; [assumption|apply Hs; now left|assumption].
Qed.

(* ======================================================================== *)
(* 6. the level at which the two Gray codes differ                            *)

Definition e0 : nat -> bool := fun t => (t =? 0)%nat.

Lemma Lbf_cons : forall b i r v, Lbf b (i :: r) v = Lbf b r (estepf (b i) i v).
Proof. reflexivity. Qed.

Lemma Lbf_nil : forall b v, Lbf b [] v = v.
Proof. reflexivity. Qed.

Lemma Lbf_app : forall b s1 s2 v, Lbf b (s1 ++ s2) v = Lbf b s2 (Lbf b s1 v).
Proof. intros. unfold Lbf. apply fold_left_app. Qed.

Lemma zero_swaps : forall b steps v, (forall i, In i steps -> b i = false) ->
    (forall t, v t = false) -> forall t, Lbf b steps v t = false.
Proof.
  intros b. induction steps as [|i r IH]; intros v Hb Hv t; [apply Hv|].
  rewrite Lbf_cons. apply IH; [intros j Hj; apply Hb; now right|].
  intro t'. rewrite (Hb i) by now left. unfold estepf, upd.
  destruct (t' =? i)%nat, (t' =? 0)%nat; apply Hv.
Qed.

Lemma untouched : forall b steps a v, a <> 0%nat -> (forall i, In i steps -> i <> a) ->
    Lbf b steps v a = v a.
Proof.
  intros b. induction steps as [|i r IH]; intros a v Ha Hs; [reflexivity|].
  rewrite Lbf_cons. rewrite (IH a (estepf (b i) i v)) by (try assumption; intros j Hj; apply Hs; now right).
  assert (Hi : i <> a) by (apply Hs; now left).
  unfold estepf, upd. destruct (b i);
    destruct (Nat.eqb_spec a 0); try lia; destruct (Nat.eqb_spec a i); try lia; reflexivity.
Qed.

Lemma agree_off : forall b b' steps a v v', a <> 0%nat -> (forall i, In i steps -> i <> a) ->
    (forall i, In i steps -> b i = b' i) -> (forall t, t <> a -> v t = v' t) ->
    forall t, t <> a -> Lbf b steps v t = Lbf b' steps v' t.
Proof.
  intros b b'. induction steps as [|i r IH]; intros a v v' Ha Hs Hb Hv t Ht;
    [now apply Hv|].
  rewrite !Lbf_cons.
  apply (IH a); try assumption.
  - intros j Hj. apply Hs. now right.
  - intros j Hj. apply Hb. now right.
  - assert (Hi : i <> a) by (apply Hs; now left).
    intros t' Ht'. rewrite <- (Hb i) by now left. unfold estepf, upd.
    destruct (b i); destruct (Nat.eqb_spec t' 0), (Nat.eqb_spec t' i); subst;
      rewrite ?(Hv 0%nat), ?(Hv i), ?(Hv t') by lia; reflexivity.
Qed.

Lemma down_steps_split : forall n a, (a < n)%nat ->
    down_steps n = rev (seq (S a) (n - S a)) ++ a :: rev (seq 0 a).
Proof.
  intros n a Ha. unfold down_steps.
  replace n with (a + S (n - S a))%nat at 1 by lia.
  rewrite seq_app. cbn [seq plus]. rewrite rev_app_distr. cbn [rev]. now rewrite <- app_assoc.
Qed.

Lemma step_e0 : forall bb a v, (forall t, v t = e0 t) ->
    forall t, estepf bb a v t = (t =? a)%nat && negb bb.
Proof.
  intros bb a v Hv t. rewrite (estepf_ext bb a v e0 Hv). unfold estepf, upd, e0.
  destruct bb; cbn [negb].
  - rewrite andb_false_r. now destruct (Nat.eqb_spec t 0).
  - rewrite andb_true_r. destruct (Nat.eqb_spec t a) as [->|Hne]; [reflexivity|].
    destruct (Nat.eqb_spec t 0) as [->|]; [|reflexivity].
    destruct (Nat.eqb_spec a 0); [lia|reflexivity].
Qed.

(* before step a0 the register (coordinate 0) holds a one and everything else is zero *)
Lemma glue_phase1 : forall n a0 bb, (a0 < n)%nat ->
    (forall t, (a0 < t)%nat -> (t < n)%nat -> bb t = (t =? S a0)%nat) ->
    forall t, Lbf bb (rev (seq (S a0) (n - S a0))) (fun t => (t =? 0)%nat && (a0 =? n - 1)%nat) t
              = e0 t.
Proof.
  intros n a0 bb Ha Hb t.
  destruct (Nat.eq_dec a0 (n - 1)) as [E|E].
  - replace (n - S a0)%nat with 0%nat by lia. cbn [seq rev]. rewrite Lbf_nil.
    rewrite <- E, Nat.eqb_refl. apply andb_true_r.
  - replace (n - S a0)%nat with (S (n - S (S a0))) by lia.
    cbn [seq rev]. rewrite Lbf_app, Lbf_cons, Lbf_nil.
    rewrite (Hb (S a0)) by lia. rewrite Nat.eqb_refl.
    rewrite (estepf_ext _ _ _ (fun _ => false)).
    + unfold estepf, upd, e0. now destruct (t =? 0)%nat.
    + intro t'. apply zero_swaps.
      * intros i Hi. apply in_rev, in_seq in Hi. rewrite Hb by lia.
        destruct (Nat.eqb_spec i (S a0)); [lia|reflexivity].
      * intro t''. destruct (Nat.eqb_spec a0 (n - 1)); [lia|]. apply andb_false_r.
Qed.

Lemma glue : forall n a0 b b', (1 <= n)%nat -> (a0 < n)%nat -> dif1 a0 b b' ->
    (forall t, (a0 < t)%nat -> (t < n)%nat -> b t = (t =? S a0)%nat) ->
    let u := fun t => (t =? 0)%nat && (a0 =? n - 1)%nat in
    low1 a0 b b' (Lbf b (down_steps n) u) (Lbf b' (down_steps n) u).
Proof.
  intros n a0 b b' Hn Ha [Hd1 Hd2] Hb u.
  assert (Hb' : forall t, (a0 < t)%nat -> (t < n)%nat -> b' t = (t =? S a0)%nat).
  { intros t H1 H2. rewrite <- Hd1 by lia. now apply Hb. }
  rewrite (down_steps_split n a0 Ha), !Lbf_app, !Lbf_cons.
  set (s1 := rev (seq (S a0) (n - S a0))). set (s3 := rev (seq 0 a0)).
  pose proof (glue_phase1 n a0 b Ha Hb) as P1. pose proof (glue_phase1 n a0 b' Ha Hb') as P1'.
  fold u s1 in P1, P1'.
  pose proof (step_e0 (b a0) a0 _ P1) as P2. pose proof (step_e0 (b' a0) a0 _ P1') as P2'.
  set (v2 := estepf (b a0) a0 (Lbf b s1 u)) in *.
  set (v2' := estepf (b' a0) a0 (Lbf b' s1 u)) in *.
  assert (Hs3 : forall i, In i s3 -> (i < a0)%nat).
  { intros i Hi. unfold s3 in Hi. apply in_rev, in_seq in Hi. lia. }
  destruct (Nat.eq_dec a0 0) as [Ez|Enz].
  - assert (s3 = []) by (unfold s3; rewrite Ez; reflexivity).
    rewrite H, !Lbf_nil. split; [|split].
    + intros t Ht. rewrite P2, P2'. destruct (Nat.eqb_spec t a0); [lia|reflexivity].
    + rewrite P2, Nat.eqb_refl. reflexivity.
    + rewrite P2', Nat.eqb_refl. reflexivity.
  - split; [|split].
    + intros t Ht. apply (agree_off b b' s3 a0); try assumption.
      * intros i Hi. apply Hs3 in Hi. lia.
      * intros i Hi. apply Hs3 in Hi. apply Hd1. lia.
      * intros t' Ht'. rewrite P2, P2'. destruct (Nat.eqb_spec t' a0); [lia|reflexivity].
    + rewrite untouched by (try assumption; intros i Hi; apply Hs3 in Hi; lia).
      rewrite P2, Nat.eqb_refl. reflexivity.
    + rewrite untouched by (try assumption; intros i Hi; apply Hs3 in Hi; lia).
      rewrite P2', Nat.eqb_refl. reflexivity.
Qed.

(* ======================================================================== *)
(* 7. two runs whose Gray streams differ in one bit                           *)

Lemma ubfn_ext' : forall n g g' k m,
    (forall j t, m <= j -> (j <= N.of_nat k \/ j = m) -> g j t = g' j t) ->
    forall t, ubfn n g k m t = ubfn n g' k m t.
Proof.
  induction k as [|k IH]; intros m H t; cbn [ubfn]; [apply H; [lia|now right]|].
  destruct (N.ltb_spec m (N.of_nat (S k))).
  - apply Lbf_ext; [intros i _; apply H; [lia|left; lia]|]. intro t'. apply IH.
    intros j t'' H1 [H2|H2]; apply H; try assumption; [left; lia|now right].
  - apply H; [lia|now right].
Qed.

Lemma ubfn_S_low : forall n g k m, m < N.of_nat (S k) ->
    ubfn n g (S k) m = Lbf (g (N.of_nat (S k))) (down_steps n) (ubfn n g k m).
Proof. intros n g k m H. cbn [ubfn]. destruct (N.ltb_spec m (N.of_nat (S k))); [reflexivity|lia]. Qed.

Lemma ubfn_low_eq : forall n g k k' m, k = S k' -> m < N.of_nat k ->
    ubfn n g k m = Lbf (g (N.of_nat k)) (down_steps n) (ubfn n g k' m).
Proof. intros n g k k' m E H. subst k. now apply ubfn_S_low. Qed.

Lemma Lu0 : forall n z t, (1 <= n)%nat ->
    Lbf (fun t => (t =? 0)%nat && z) (down_steps n) (fun _ => false) t = (t =? 0)%nat && z.
Proof.
  intros n z t Hn. rewrite (down_steps_split n 0) by lia. cbn [seq rev].
  rewrite Lbf_app, Lbf_cons, Lbf_nil. cbn [Nat.eqb andb].
  rewrite (estepf_ext _ _ _ (fun _ => false)).
  - unfold estepf, upd. destruct z, (t =? 0)%nat; reflexivity.
  - intro t'. apply zero_swaps; [|reflexivity].
    intros i Hi. apply in_rev, in_seq in Hi. destruct (Nat.eqb_spec i 0); [lia|reflexivity].
Qed.

Section Stream.
  Variable n : nat.
  Hypothesis Hn : (1 <= n)%nat.
  Variables g g' : N -> nat -> bool.
  Variables J a0 : nat.
  Hypothesis Ha0 : (a0 < n)%nat.
  Hypothesis G1 : forall m t, (m <> N.of_nat J \/ t <> a0) -> g' m t = g m t.
  Hypothesis G2 : g' (N.of_nat J) a0 = negb (g (N.of_nat J) a0).
  Hypothesis G3 : forall m t, m < N.of_nat J ->
      g m t = (m + 1 =? N.of_nat J) && ((t =? 0)%nat && (a0 =? n - 1)%nat).
  Hypothesis G4 : forall t, (a0 < t)%nat -> (t < n)%nat -> g (N.of_nat J) t = (t =? S a0)%nat.

  Lemma Z0 : forall k m, (S k < J)%nat -> m <= N.of_nat k -> forall t, ubfn n g k m t = false.
  Proof.
    induction k as [|k IH]; intros m Hk Hm t.
    - cbn [ubfn]. rewrite G3 by lia. destruct (N.eqb_spec (m + 1) (N.of_nat J)); [lia|reflexivity].
    - cbn [ubfn]. destruct (N.ltb_spec m (N.of_nat (S k))).
      + apply zero_swaps.
        * intros i _. rewrite G3 by lia.
          destruct (N.eqb_spec (N.of_nat (S k) + 1) (N.of_nat J)); [lia|reflexivity].
        * intro t'. apply IH; lia.
      + rewrite G3 by lia. destruct (N.eqb_spec (m + 1) (N.of_nat J)); [lia|reflexivity].
  Qed.

  Lemma Zu : forall J', J = S J' -> forall m, m <= N.of_nat J' ->
      forall t, ubfn n g J' m t = (t =? 0)%nat && (a0 =? n - 1)%nat.
  Proof.
    intros J' EJ m Hm t. destruct J' as [|k].
    - cbn [ubfn]. rewrite G3 by lia.
      destruct (N.eqb_spec (m + 1) (N.of_nat J)); [reflexivity|lia].
    - cbn [ubfn]. destruct (N.ltb_spec m (N.of_nat (S k))).
      + rewrite <- (Lu0 n (a0 =? n - 1)%nat t Hn). apply Lbf_ext.
        * intros i _. rewrite G3 by lia.
          destruct (N.eqb_spec (N.of_nat (S k) + 1) (N.of_nat J)); [reflexivity|lia].
        * intro t'. apply Z0; lia.
      + rewrite G3 by lia. destruct (N.eqb_spec (m + 1) (N.of_nat J)); [reflexivity|lia].
  Qed.

  Definition Good (K a : nat) : Prop :=
    (a < n)%nat /\
    (forall m, N.of_nat J < m -> forall t, ubfn n g K m t = ubfn n g' K m t) /\
    dif1 a (ubfn n g K (N.of_nat J)) (ubfn n g' K (N.of_nat J)) /\
    (forall m, m < N.of_nat J ->
               low1 a (ubfn n g K (N.of_nat J)) (ubfn n g' K (N.of_nat J))
                    (ubfn n g K m) (ubfn n g' K m)).

  Lemma good_base : Good J a0.
  Proof.
    unfold Good. rewrite !(ubfn_high n _ J (N.of_nat J)) by lia.
    assert (Hd : dif1 a0 (g (N.of_nat J)) (g' (N.of_nat J))).
    { split; [|exact G2]. intros t Ht. symmetry. apply G1. now right. }
    split; [assumption|]. split; [|split; [assumption|]].
    - intros m Hm t. rewrite !ubfn_high by lia. symmetry. apply G1. left. lia.
    - intros m Hm.
      assert (EJ : exists J', J = S J') by (destruct J; [lia|eauto]). destruct EJ as [J' EJ].
      rewrite !(ubfn_low_eq n _ J J' m EJ Hm).
      pose proof (glue n a0 _ _ Hn Ha0 Hd G4) as Hg. cbv zeta in Hg.
      eapply low1_ext; [| | | |exact Hg]; try reflexivity.
      + intro t. apply Lbf_ext; [reflexivity|]. intro t'. symmetry. apply (Zu J'); [assumption|lia].
      + intro t. apply Lbf_ext; [reflexivity|]. intro t'. symmetry.
        rewrite (ubfn_ext' n g' g J' m).
        * apply (Zu J'); [assumption|lia].
        * intros j t'' H1 H2. apply G1. left. lia.
  Qed.

  Lemma good_step : forall K a, (J <= K)%nat -> Good K a ->
      Good (S K) (permfold (g (N.of_nat (S K))) (down_steps n) a).
  Proof.
    intros K a HK (Ha & Hhi & Hd & Hlo).
    assert (HB : forall t, g' (N.of_nat (S K)) t = g (N.of_nat (S K)) t)
      by (intro t; apply G1; left; lia).
    assert (Hsteps : forall i, In i (down_steps n) -> (i < n)%nat).
    { intros i Hi. unfold down_steps in Hi. apply in_rev, in_seq in Hi. lia. }
    unfold Good. rewrite !(ubfn_S_low n _ K (N.of_nat J)) by lia.
    split; [now apply permfold_lt|]. split; [|split].
    - intros m Hm t. destruct (N.lt_ge_cases m (N.of_nat (S K))) as [Hlt|Hge].
      + rewrite !ubfn_S_low by assumption. apply Lbf_ext.
        * intros i _. symmetry. apply HB.
        * intro t'. now apply Hhi.
      + rewrite !ubfn_high by lia. symmetry. apply G1. left. lia.
    - eapply dif1_ext; [| |apply (Lbf_dif1 (g (N.of_nat (S K))) (down_steps n) a _ _ Hd)].
      + reflexivity.
      + intro t. apply Lbf_ext; [intros i _; symmetry; apply HB|reflexivity].
    - intros m Hm. rewrite !ubfn_S_low by lia.
      eapply low1_ext;
        [| | | |apply (Lbf_low1 (g (N.of_nat (S K))) (down_steps n) a _ _ _ _ (Hlo m Hm))].
      + reflexivity.
      + intro t. apply Lbf_ext; [intros i _; symmetry; apply HB|reflexivity].
      + reflexivity.
      + intro t. apply Lbf_ext; [intros i _; symmetry; apply HB|reflexivity].
  Qed.

  Theorem good_all : forall K, (J <= K)%nat -> exists a, Good K a.
  Proof.
    intros K HK. replace K with (J + (K - J))%nat by lia.
    induction (K - J)%nat as [|d IH].
    - rewrite Nat.add_0_r. exists a0. apply good_base.
    - destruct IH as [a Ha]. rewrite Nat.add_succ_r. eexists. apply good_step; [lia|exact Ha].
  Qed.
End Stream.

(* ======================================================================== *)
(* 8. from bits to numbers; the theorem                                       *)

(* bits above J agree, bit J differs, below J both numbers hold the complement of
   their bit J: the numbers differ by one *)
Lemma adj_bits : forall J x x',
    (forall m, J < m -> N.testbit x m = N.testbit x' m) ->
    N.testbit x' J = negb (N.testbit x J) ->
    (forall m, m < J -> N.testbit x m = negb (N.testbit x J)) ->
    (forall m, m < J -> N.testbit x' m = negb (N.testbit x' J)) ->
    x + 1 = x' \/ x' + 1 = x.
Proof.
  intros J x x' Hhi HJ Hlo Hlo'. destruct (N.testbit x J) eqn:E; cbn [negb] in *.
  - right. apply N.bits_inj. intro m. rewrite (incr_bits J x' HJ).
    + destruct (N.ltb_spec m J); [now rewrite Hlo|].
      destruct (N.eqb_spec m J) as [->|]; [now rewrite E|]. symmetry. apply Hhi. lia.
    + intros j Hj. rewrite Hlo' by assumption. now rewrite HJ.
  - left. apply N.bits_inj. intro m. rewrite (incr_bits J x E).
    + destruct (N.ltb_spec m J); [rewrite Hlo' by assumption; now rewrite HJ|].
      destruct (N.eqb_spec m J) as [->|]; [now rewrite HJ|]. apply Hhi. lia.
    + intros j Hj. now apply Hlo.
Qed.

(* the Gray streams of h and h + 1 *)
Lemma grn_succ : forall n h, (1 <= n)%nat -> exists t0 J a0,
    (a0 < n)%nat /\ N.testbit (h + 1) t0 = true /\
    t0 = N.of_nat J * N.of_nat n + N.of_nat (n - 1 - a0) /\
    (forall m t, (m <> N.of_nat J \/ t <> a0) -> grn n (h + 1) m t = grn n h m t) /\
    grn n (h + 1) (N.of_nat J) a0 = negb (grn n h (N.of_nat J) a0) /\
    (forall m t, m < N.of_nat J ->
                 grn n h m t = (m + 1 =? N.of_nat J) && ((t =? 0)%nat && (a0 =? n - 1)%nat)) /\
    (forall t, (a0 < t)%nat -> (t < n)%nat -> grn n h (N.of_nat J) t = (t =? S a0)%nat).
Proof.
  intros n h Hn. destruct (gray_succ h) as (t0 & Ht0 & Hg & Hlow).
  set (nn := N.of_nat n). assert (Hnn : nn <> 0) by (unfold nn; lia).
  pose proof (N.div_mod t0 nn Hnn) as Hdm. pose proof (N.mod_lt t0 nn Hnn) as Hr.
  set (Jn := t0 / nn) in *. set (r := t0 mod nn) in *.
  exists t0, (N.to_nat Jn), (n - 1 - N.to_nat r)%nat.
  assert (Hrn : (N.to_nat r < n)%nat) by (unfold nn in Hr; lia).
  rewrite N2Nat.id.
  replace (N.of_nat (n - 1 - (n - 1 - N.to_nat r))) with r by lia.
  assert (Huniq : forall m s, s < nn -> m * nn + s = t0 -> m = Jn /\ s = r).
  { intros m s Hs E. apply (N.div_mod_unique nn); try assumption. lia. }
  split; [lia|]. split; [assumption|]. split; [lia|]. split; [|split; [|split]].
  - intros m t Hne. unfold grn. destruct (Nat.ltb_spec t n) as [Ht|Ht]; [|reflexivity].
    rewrite Hg. fold nn.
    destruct (N.eqb_spec (m * nn + N.of_nat (n - 1 - t)) t0) as [E|E]; [|reflexivity].
    exfalso. apply Huniq in E; [|unfold nn; lia]. destruct E as [E1 E2]. destruct Hne; lia.
  - unfold grn. destruct (Nat.ltb_spec (n - 1 - N.to_nat r) n) as [Ht|Ht]; [|lia].
    rewrite Hg. fold nn.
    replace (N.of_nat (n - 1 - (n - 1 - N.to_nat r))) with r by lia.
    destruct (N.eqb_spec (Jn * nn + r) t0); [reflexivity|lia].
  - intros m t Hm. unfold grn. fold nn.
    assert (Hmul : m * nn + nn <= Jn * nn).
    { replace (m * nn + nn) with ((m + 1) * nn) by lia. apply N.mul_le_mono_r. lia. }
    destruct (Nat.ltb_spec t n) as [Ht|Ht].
    + rewrite Hlow by (unfold nn in *; lia).
      destruct (N.eqb_spec (m * nn + N.of_nat (n - 1 - t) + 1) t0) as [E|E].
      * destruct (Nat.eq_dec t 0) as [->|Htz].
        -- destruct (Huniq (m + 1) 0) as [E1 E2]; [lia|unfold nn in *; lia|].
           rewrite E1, N.eqb_refl. cbn [Nat.eqb andb]. symmetry. apply Nat.eqb_eq. lia.
        -- exfalso. destruct (Huniq m (N.of_nat (n - 1 - t) + 1)) as [E1 E2];
             [unfold nn; lia|lia|lia].
      * symmetry. apply andb_false_iff.
        destruct (N.eqb_spec (m + 1) Jn) as [E1|E1]; [|now left]. right.
        apply andb_false_iff.
        destruct (Nat.eqb_spec t 0) as [E2|E2]; [|now left]. right.
        apply Nat.eqb_neq. intro E3. apply E. subst t. rewrite <- E1 in Hdm.
        unfold nn in *. lia.
    + symmetry. apply andb_false_iff. right. apply andb_false_iff. left. apply Nat.eqb_neq. lia.
  - intros t Ht1 Ht2. unfold grn. fold nn. destruct (Nat.ltb_spec t n); [|lia].
    rewrite Hlow by (unfold nn in *; lia).
    destruct (N.eqb_spec (Jn * nn + N.of_nat (n - 1 - t) + 1) t0), (Nat.eqb_spec t (S (n - 1 - N.to_nat r)));
      try reflexivity; unfold nn in *; lia.
Qed.

Lemma cfd_bitf : forall p n h m t, hilbert_guard p n -> distance p n h ->
    bitf (coordinate_from_distance p n h) m t = ubfn n (grn n h) (p - 1) m t.
Proof.
  intros p n h m t (Hp & Hn & _) Hh. unfold distance in Hh.
  rewrite cfd_unfold, undo_excess_eq by assumption.
  assert (Hl : length (gray_decode n (hilbert_integer_to_transpose p h n)) = n)
    by (apply gray_decode_length; [assumption|apply h2t_length]).
  rewrite levels_bitf by assumption.
  apply ubfn_ext. intros j t' _. now apply gray_h2t_bitf.
Qed.

Theorem adjacent_all : forall p n h, hilbert_guard p n -> distance p n (h + 1) ->
    neighbours (coordinate_from_distance p n h) (coordinate_from_distance p n (h + 1)).
Proof.
  intros p n h Hg Hh1. pose proof Hg as (Hp & Hn & _).
  assert (Hh : distance p n h) by (unfold distance in *; lia).
  destruct (grn_succ n h Hn) as (t0 & J & a0 & Ha0 & Ht0 & Et0 & G1 & G2 & G3 & G4).
  assert (HJ : (J <= p - 1)%nat).
  { unfold distance in Hh1.
    destruct (N.lt_ge_cases t0 (N.of_nat (n * p))) as [Hlt|Hge].
    - assert (N.of_nat J * N.of_nat n < N.of_nat p * N.of_nat n) by lia.
      assert (N.of_nat J < N.of_nat p) by (eapply N.mul_lt_mono_pos_r; [|eassumption]; lia).
      lia.
    - rewrite (lt_testbit_high _ _ t0 Hh1 Hge) in Ht0. discriminate. }
  destruct (good_all n Hn _ _ J a0 Ha0 G1 G2 G3 G4 (p - 1)%nat HJ) as (a & Ha & Hhi & [Hd1 Hd2] & Hlo).
  set (c := coordinate_from_distance p n h) in *.
  set (c' := coordinate_from_distance p n (h + 1)) in *.
  assert (Hb : forall m t, N.testbit (getc c t) m = ubfn n (grn n h) (p - 1) m t)
    by (intros m t; apply (cfd_bitf p n h m t Hg Hh)).
  assert (Hb' : forall m t, N.testbit (getc c' t) m = ubfn n (grn n (h + 1)) (p - 1) m t)
    by (intros m t; apply (cfd_bitf p n (h + 1) m t Hg Hh1)).
  assert (Hl : length c = n) by (now apply cfd_length).
  assert (Hl' : length c' = n) by (now apply cfd_length).
  split; [now rewrite Hl, Hl'|]. exists a. split; [now rewrite Hl|]. split.
  - change (nth a c 0) with (getc c a). change (nth a c' 0) with (getc c' a).
    apply (adj_bits (N.of_nat J)).
    + intros m Hm. rewrite Hb, Hb'. now apply Hhi.
    + rewrite Hb, Hb'. exact Hd2.
    + intros m Hm. rewrite !Hb. now destruct (Hlo m Hm) as (_ & H2 & _).
    + intros m Hm. rewrite !Hb'. now destruct (Hlo m Hm) as (_ & _ & H3).
  - intros j Hj. change (nth j c 0) with (getc c j). change (nth j c' 0) with (getc c' j).
    apply N.bits_inj. intro m. rewrite Hb, Hb'.
    destruct (N.lt_trichotomy m (N.of_nat J)) as [Hlt|[->|Hgt]].
    + destruct (Hlo m Hlt) as (H1 & _). now apply H1.
    + now apply Hd1.
    + now apply Hhi.
Qed.

(* the same, seen from the cells: two cells whose distances are consecutive are neighbours *)
Corollary adjacent_cells : forall p n c c', hilbert_guard p n -> cell p n c -> cell p n c' ->
    distance_from_coordinate p c' = distance_from_coordinate p c + 1 -> neighbours c c'.
Proof.
  intros p n c c' Hg Hc Hc' E.
  rewrite <- (roundtrip_c p n c Hg Hc), <- (roundtrip_c p n c' Hg Hc'), E.
  apply adjacent_all; [assumption|]. rewrite <- E. apply dfc_range; [assumption|apply Hc'].
Qed.

(* n = 2: distance_from_coordinate inverts the classical curve *)
Corollary classical_inverse : forall p h, hilbert_guard p 2 -> distance p 2 h ->
    distance_from_coordinate p [fst (hilbert_ref p h); snd (hilbert_ref p h)] = h.
Proof.
  intros p h Hg Hh. rewrite <- classical_all by assumption. now apply roundtrip_d.
Qed.
