(* Model of spatialpandas/spatialindex/hilbert_curve.py (Skilling's transpose
   algorithm), function for function, loop for loop.

   Integers are [N]: the code computes in int64 on non-negative values; every
   theorem carries the guard [1 <= p], [1 <= n], [n * p <= 62] under which no
   intermediate value reaches 2^63, so N arithmetic and int64 arithmetic agree.
   A coordinate vector (numba reflected list / 1-d int64 array row) is a
   [list N]; [getc]/[setc] are the unchecked element read / write.

   No proofs in this file. *)
From Coq Require Import NArith List Bool Arith.
Import ListNotations.
Local Open Scope N_scope.

(* coord[i] (a default is returned out of range; theorems state [length coord = n]) *)
Definition getc (c : list N) (i : nat) : N := nth i c 0.

(* coord[i] = v *)
Fixpoint setc (c : list N) (i : nat) (v : N) : list N :=
  match c, i with
  | [], _ => []
  | _ :: t, O => v :: t
  | x :: t, S j => x :: setc t j v
  end.

(* truth value of an integer in [if coord[i] & Q:] *)
Definition truthy (v : N) : bool := negb (v =? 0).

(* ---- _int_2_binary(v, width) ------------------------------------------
     res = zeros(width)
     for i in range(width): res[width-i-1] = v % 2 ; v = v >> 1
   The loop fills [res] from its last slot towards the first: after i
   iterations the filled suffix is [filled]; the i-th write conses in front. *)
Fixpoint int_2_binary_loop (iters : nat) (v : N) (filled : list N) : list N :=
  match iters with
  | O => filled
  | S k => int_2_binary_loop k (N.shiftr v 1) (N.modulo v 2 :: filled)
  end.

Definition int_2_binary (v : N) (width : nat) : list N :=
  int_2_binary_loop width v [].

(* ---- _binary_2_int(bin_vec) -------------------------------------------
     res = 0 ; next_val = 1
     for i in range(width): res += next_val*bin_vec[width-i-1] ; next_val <<= 1 *)
Definition binary_2_int_step (st : N * N) (b : N) : N * N :=
  let '(res, next_val) := st in (res + next_val * b, N.shiftl next_val 1).

Definition binary_2_int (bin_vec : list N) : N :=
  fst (fold_left binary_2_int_step (rev bin_vec) (0, 1)).

(* numpy basic slicing  a[start::step]  (step >= 1) *)
Fixpoint strided_from {A} (fuel step : nat) (l : list A) : list A :=
  match fuel, l with
  | S f, x :: _ => x :: strided_from f step (skipn step l)
  | _, _ => []
  end.

Definition strided {A} (start step : nat) (l : list A) : list A :=
  strided_from (length l) step (skipn start l).

(* ---- _hilbert_integer_to_transpose(p, h, n) ----------------------------
     h_bits = _int_2_binary(h, p*n)
     x = [_binary_2_int(h_bits[i::n]) for i in range(n)] *)
Definition hilbert_integer_to_transpose (p : nat) (h : N) (n : nat) : list N :=
  let h_bits := int_2_binary h (p * n) in
  map (fun i => binary_2_int (strided i n h_bits)) (seq 0 n).

(* ---- _transpose_to_hilbert_integer(p, coord) ---------------------------
     bins = [_int_2_binary(v, p) for v in coord]
     for i in range(p): for j in range(n): concat[n*i + j] = bins[j][i]
     h = _binary_2_int(concat)
   The double loop writes concat[0], concat[1], ... in this order. *)
Definition transpose_to_hilbert_integer (p : nat) (coord : list N) : N :=
  let bins := map (fun v => int_2_binary v p) coord in
  let concat := flat_map (fun i => map (fun b => nth i b 0) bins) (seq 0 p) in
  binary_2_int concat.

(* ---- the body shared by both "excess work" loops -----------------------
     if coord[i] & Q:  coord[0] ^= P
     else:             t = (coord[0] ^ coord[i]) & P ; coord[0] ^= t ; coord[i] ^= t *)
Definition excess_step (Q P : N) (coord : list N) (i : nat) : list N :=
  if truthy (N.land (getc coord i) Q) then
    setc coord 0 (N.lxor (getc coord 0) P)
  else
    let t := N.land (N.lxor (getc coord 0) (getc coord i)) P in
    let coord := setc coord 0 (N.lxor (getc coord 0) t) in
    setc coord i (N.lxor (getc coord i) t).

(* ---- coordinate_from_distance(p, n, h) --------------------------------- *)

(*   t = coord[n-1] >> 1
     for i in range(n-1, 0, -1): coord[i] ^= coord[i-1]
     coord[0] ^= t *)
Definition gray_decode (n : nat) (coord : list N) : list N :=
  let t := N.shiftr (getc coord (n - 1)) 1 in
  let coord := fold_left (fun c i => setc c i (N.lxor (getc c i) (getc c (i - 1))))
                         (rev (seq 1 (n - 1))) coord in
  setc coord 0 (N.lxor (getc coord 0) t).

(*   Q = 2
     while Q != Z:
         P = Q - 1
         for i in range(n-1, -1, -1): <excess_step>
         Q <<= 1
   [fuel]: the loop body runs for Q = 2, 4, ..., 2^(p-1), i.e. p-1 times; the
   model is given fuel p (enough when 1 <= p). *)
Fixpoint undo_excess_loop (fuel n : nat) (Q Zv : N) (coord : list N) : list N :=
  match fuel with
  | O => coord
  | S f =>
      if Q =? Zv then coord
      else
        let P := Q - 1 in
        let coord := fold_left (excess_step Q P) (rev (seq 0 n)) coord in
        undo_excess_loop f n (N.shiftl Q 1) Zv coord
  end.

Definition coordinate_from_distance (p n : nat) (h : N) : list N :=
  let coord := hilbert_integer_to_transpose p h n in
  let Zv := N.shiftl 2 (N.of_nat (p - 1)) in
  let coord := gray_decode n coord in
  undo_excess_loop p n 2 Zv coord.

(* ---- coordinates_from_distances(p, n, h): row i = coordinate_from_distance(p, n, h[i]) *)
Definition coordinates_from_distances (p n : nat) (hs : list N) : list (list N) :=
  map (coordinate_from_distance p n) hs.

(* ---- distance_from_coordinate(p, coord) -------------------------------- *)

(*   Q = M
     while Q > 1:
         P = Q - 1
         for i in range(n): <excess_step>
         Q >>= 1
   body runs for Q = 2^(p-1), ..., 2: p-1 times; fuel p. *)
Fixpoint inverse_undo_loop (fuel n : nat) (Q : N) (coord : list N) : list N :=
  match fuel with
  | O => coord
  | S f =>
      if 1 <? Q then
        let P := Q - 1 in
        let coord := fold_left (excess_step Q P) (seq 0 n) coord in
        inverse_undo_loop f n (N.shiftr Q 1) coord
      else coord
  end.

(*   t = 0 ; Q = M
     while Q > 1:
         if coord[n-1] & Q: t ^= Q - 1
         Q >>= 1 *)
Fixpoint gray_t_loop (fuel : nat) (Q : N) (last t : N) : N :=
  match fuel with
  | O => t
  | S f =>
      if 1 <? Q then
        let t := if truthy (N.land last Q) then N.lxor t (Q - 1) else t in
        gray_t_loop f (N.shiftr Q 1) last t
      else t
  end.

(*   for i in range(1, n): coord[i] ^= coord[i-1]
     <gray_t_loop>
     for i in range(n): coord[i] ^= t *)
Definition gray_encode (p n : nat) (M : N) (coord : list N) : list N :=
  let coord := fold_left (fun c i => setc c i (N.lxor (getc c i) (getc c (i - 1))))
                         (seq 1 (n - 1)) coord in
  let t := gray_t_loop p M (getc coord (n - 1)) 0 in
  fold_left (fun c i => setc c i (N.lxor (getc c i) t)) (seq 0 n) coord.

(* the contents of the caller's [coord] after the call (the scalar function
   works in place: its argument is left in "transpose" form) *)
Definition distance_from_coordinate_state (p : nat) (coord : list N) : list N :=
  let n := length coord in
  let M := N.shiftl 1 (N.of_nat (p - 1)) in
  let coord := inverse_undo_loop p n M coord in
  gray_encode p n M coord.

Definition distance_from_coordinate (p : nat) (coord : list N) : N :=
  transpose_to_hilbert_integer p (distance_from_coordinate_state p coord).

(* ---- distances_from_coordinates(p, coords): works on a copy, row by row *)
Definition distances_from_coordinates (p : nat) (coords : list (list N)) : list N :=
  map (distance_from_coordinate p) coords.

(* the guard of every theorem: 1 <= p, 1 <= n, n*p <= 62 (int64, no wrap-around) *)
Definition hilbert_guard (p n : nat) : Prop := (1 <= p /\ 1 <= n /\ n * p <= 62)%nat.
Definition hilbert_guardb (p n : nat) : bool :=
  ((1 <=? p) && (1 <=? n) && (n * p <=? 62))%nat.

(* helpers for the correspondence check (exhaustive enumeration in canonical order) *)
Fixpoint nrange (lo : N) (count : nat) : list N :=
  match count with O => [] | S k => lo :: nrange (lo + 1) k end.

(* all cells of the side^n grid, lexicographic, first coordinate slowest *)
Fixpoint all_cells (side : nat) (n : nat) : list (list N) :=
  match n with
  | O => [[]]
  | S k => flat_map (fun x => map (fun c => x :: c) (all_cells side k)) (nrange 0 side)
  end.
