(* Binary64 model of the bounds kernel, on Coq's primitive floats.  Transcribes

     spatialpandas/geometry/_algorithms/bounds.py   total_bounds_interleaved
         xmin = ymin = np.inf;  xmax = ymax = -np.inf
         for i in range(0, len(values), 2):
             x = values[i]
             if np.isfinite(x): xmin = min(xmin, x); xmax = max(xmax, x)
             y = values[i + 1]
             if np.isfinite(y): ymin = min(ymin, y); ymax = max(ymax, y)
         if not np.isfinite(xmin): xmin = xmax = np.nan
         if not np.isfinite(ymin): ymin = ymax = np.nan
         return (xmin, ymin, xmax, ymax)

   numba lowers the two-argument min / max of float64 as (numba/cpython/builtins.py,
   do_minmax)   res = select(v < acc, v, acc)   /   res = select(v > acc, v, acc):
   the running value is KEPT when the new one compares equal (so of +0.0 and -0.0 the first
   one met stays), and a comparison with NaN is false (not reached here: NaN fails isfinite).

   Model/Bounds.v is the same kernel over [num = option Z] (property C13); Model/PackFloat.v
   [f_total_bounds] is the row-level nan-skipping fold that Proofs/FloatBoundsCombine.v shows
   to be what this kernel computes (bit for bit in this left-to-right order).

   The second level, np.nanmin / np.nanmax over the partition_bounds columns
   (DaskGeoSeries.total_bounds), is [f_nanmin] / [f_nanmax] of Model/PackFloat.v as far as
   VALUES go; numpy reduces float64 with SIMD lanes (observed: from 9 elements on the zero
   kept among +0.0 / -0.0 is not the first one), which is why every statement about the
   second level is made up to the sign of a zero ([feq_mod_zero]) and for any order.

   No proofs in this file. *)
From Coq Require Import PrimFloat List Bool.
From SP Require Import Model.FloatData2Coord.
Import ListNotations.

(* numba: min(acc, v), max(acc, v) *)
Definition nb_min (acc v : float) : float := if (v <? acc)%float then v else acc.
Definition nb_max (acc v : float) : float := if (acc <? v)%float then v else acc.

(* the loop; a trailing odd value is not read (the arrays hold whole (x, y) pairs) *)
Fixpoint f_tbi_loop (vs : list float) (xmin xmax ymin ymax : float)
  : float * float * float * float :=
  match vs with
  | x :: y :: t =>
      let '(xmin, xmax) :=
        if is_finite x then (nb_min xmin x, nb_max xmax x) else (xmin, xmax) in
      let '(ymin, ymax) :=
        if is_finite y then (nb_min ymin y, nb_max ymax y) else (ymin, ymax) in
      f_tbi_loop t xmin xmax ymin ymax
  | _ => (xmin, xmax, ymin, ymax)
  end.

Definition f_total_bounds_interleaved (vs : list float) : frow :=
  let '(xmin, xmax, ymin, ymax) := f_tbi_loop vs infinity neg_infinity infinity neg_infinity in
  let '(xmin, xmax) := if is_finite xmin then (xmin, xmax) else (nan, nan) in
  let '(ymin, ymax) := if is_finite ymin then (ymin, ymax) else (nan, nan) in
  (xmin, ymin, xmax, ymax).

(* bounds_interleaved on a list array given element by element: one row per element *)
Definition f_bounds_rows (elements : list (list float)) : list frow :=
  map f_total_bounds_interleaved elements.
