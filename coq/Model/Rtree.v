(* Executable transcription of /repo/spatialpandas/spatialindex/rtree.py
   (HilbertRtree._build_hilbert_rtree, _NumbaRtree).  No proofs here.

   Conventions
   * a coordinate is [num = option Z]; [None] is NaN.  (Infinite coordinates are
     not modelled; the correspondence check feeds finite values and NaN only.)
   * a box (row of the bounds array) is a [list num] of length 2d:
     [min_0 .. min_{d-1}, max_0 .. max_{d-1}].
   * a query is a [list Z] of length 2d (the harness scales half-integers by 2,
     together with the rows).
   * node indices, positions and lengths are [nat].  The only place where the
     code leaves the naturals is [_parent(0) = -1] computed after the last layer
     of the bottom-up loop (and when tree_depth = 0); that value is never used by
     the code, here it is [0].
   * the Hilbert order enters only through [keys = argsort(hilbert_distances)]:
     here [keys] is an input (the check feeds the [_keys] array the real code
     produced); the theorems hold for every permutation.
   * every comparison that the code may evaluate on NaN is written with the IEEE
     meaning (false when an operand is NaN). *)
From Coq Require Import ZArith List Bool Arith.
From SP Require Import Model.Num.
Import ListNotations.

Definition row := list num.

Definition isnan (x : num) : bool := match x with None => true | Some _ => false end.

(* IEEE comparisons: false as soon as an operand is NaN *)
Definition nlt (a b : num) : bool :=
  match a, b with Some x, Some y => Z.ltb x y | _, _ => false end.
Definition nle (a b : num) : bool :=
  match a, b with Some x, Some y => Z.leb x y | _, _ => false end.
Definition ngt (a b : num) : bool := nlt b a.
Definition nge (a b : num) : bool := nle b a.

(* numba's builtin min(a, b) / max(a, b) on floats: [b if b < a else a] / [b if b > a else a] *)
Definition nmin (a b : num) : num := if nlt b a then b else a.
Definition nmax (a b : num) : num := if ngt b a then b else a.

(* r[c] ; reading outside the row gives NaN (never happens for rows of length 2d) *)
Definition col (c : nat) (r : row) : num := nth c r None.
(* bounds[i, :] ; default: the empty row (never happens when keys is a permutation) *)
Definition getrow (i : nat) (b : list row) : row := nth i b [].

Fixpoint upd {A} (i : nat) (v : A) (l : list A) : list A :=
  match l with
  | [] => []
  | x :: t => match i with O => v :: t | S i' => x :: upd i' v t end
  end.

(* _left_child, _right_child, _parent *)
Definition left_child (node : nat) : nat := 2 * node + 1.
Definition right_child (node : nat) : nat := 2 * node + 2.
Definition parent (node : nat) : nat := (node - 1) / 2.

(* ------------------------------------------------------------------ build *)

(* for i in range(input_size): if np.isnan(bounds[i, :]).any(): bounds[i, :] = nan *)
Definition norm_row (r : row) : row :=
  if existsb isnan r then map (fun _ => None) r else r.

(* np.nanmin(page_bounds[:, c]) / np.nanmax(...): NaN entries ignored, NaN when
   there is no other entry *)
Fixpoint col_nanmin (c : nat) (rs : list row) : num :=
  match rs with
  | [] => None
  | r :: t =>
      match col c r, col_nanmin c t with
      | None, m => m
      | Some x, None => Some x
      | Some x, Some m => Some (Z.min x m)
      end
  end.
Fixpoint col_nanmax (c : nat) (rs : list row) : num :=
  match rs with
  | [] => None
  | r :: t =>
      match col c r, col_nanmax c t with
      | None, m => m
      | Some x, None => Some x
      | Some x, Some m => Some (Z.max x m)
      end
  end.

(* d_mins + d_maxes of a page *)
Definition page_box (d : nat) (rs : list row) : row :=
  map (fun c => col_nanmin c rs) (seq 0 d) ++ map (fun c => col_nanmax (c + d) rs) (seq 0 d).

(* int(np.ceil(input_size / page_size)) *)
Definition num_pages_of (n ps : nat) : nat := (n + ps - 1) / ps.

(* for page in range(num_pages): ... bounds_tree[leaf_start + page, :] = d_ranges *)
Definition fill_leaves (d ps leaf_start : nat) (sorted : list row) (num_pages : nat)
           (bt : list row) : list row :=
  fold_left (fun bt page =>
               let start := page * ps in
               let stop := start + ps in
               upd (leaf_start + page) (page_box d (slice start stop sorted)) bt)
            (seq 0 num_pages) bt.

(* body of [for node in range(start, stop + 1)] *)
Definition node_update (d : nat) (bt : list row) (node : nat) : list row :=
  let left_bounds := getrow (left_child node) bt in
  let left_valid := negb (isnan (col 0 left_bounds)) in
  let right_bounds := getrow (right_child node) bt in
  let right_valid := negb (isnan (col 0 right_bounds)) in
  if left_valid then
    if right_valid then
      upd node (map (fun c => nmin (col c left_bounds) (col c right_bounds)) (seq 0 d) ++
                map (fun c => nmax (col (c + d) left_bounds) (col (c + d) right_bounds)) (seq 0 d))
          bt
    else upd node left_bounds bt
  else if right_valid then upd node right_bounds bt
  else bt.

(* while layer >= 0: ... ; [layers] = layer + 1 iterations remain *)
Fixpoint build_layers (d layers start stop : nat) (bt : list row) : list row :=
  match layers with
  | O => bt
  | S layers' =>
      let bt' := fold_left (node_update d) (seq start (stop + 1 - start)) bt in
      build_layers d layers' (parent start) (parent stop) bt'
  end.

Record rtree := mk_rtree {
  t_dim : nat;               (* bounds.shape[1] // 2 *)
  t_bounds : list row;       (* _sorted_bounds *)
  t_keys : list nat;         (* _keys *)
  t_page_size : nat;         (* _page_size *)
  t_tree : list row          (* _bounds_tree *)
}.

(* HilbertRtree.__init__ + _build_hilbert_rtree; [d] = bounds.shape[1] // 2 *)
Definition build (d : nat) (rows : list row) (keys : list nat) (page_size0 : nat) : rtree :=
  let page_size := Nat.max 1 page_size0 in
  match rows with
  | [] => mk_rtree d [] [] page_size []
  | _ =>
      let input_size := length rows in
      let num_pages := num_pages_of input_size page_size in
      let tree_depth := Nat.log2_up num_pages in
      let next_pow2 := 2 ^ tree_depth in
      let tree_length := next_pow2 * 2 - 1 in
      let bounds_tree := repeat (repeat (None : num) (2 * d)) tree_length in
      let leaf_start := tree_length - next_pow2 in
      let nrows := map norm_row rows in
      let sorted_bounds := map (fun k => getrow k nrows) keys in
      let bt1 := fill_leaves d page_size leaf_start sorted_bounds num_pages bounds_tree in
      let bt2 := build_layers d tree_depth (parent (tree_length - next_pow2))
                              (parent (tree_length - 1)) bt1 in
      mk_rtree d sorted_bounds keys page_size bt2
  end.

(* ------------------------------------------------------------- _NumbaRtree *)
Section Query.
  Variable T : rtree.

  Definition tree_len : nat := length (t_tree T).
  (* _leaf_start *)
  Definition leaf_start_of : nat := (tree_len + 1) / 2 - 1.

  (* _start_index / _stop_index: [while True] descents; each iteration strictly
     increases [node], so [tree_len + 1] iterations always suffice (proved:
     RtreeProofs.start_index_fuel_enough); the out-of-fuel value is 0. *)
  Fixpoint start_index_f (fuel node : nat) : nat :=
    match fuel with
    | O => 0
    | S f =>
        let child := left_child node in
        if tree_len <=? child then (node - leaf_start_of) * t_page_size T
        else start_index_f f child
    end.
  Fixpoint stop_index_f (fuel node : nat) : nat :=
    match fuel with
    | O => 0
    | S f =>
        let child := right_child node in
        if tree_len <=? child then (node - leaf_start_of + 1) * t_page_size T
        else stop_index_f f child
    end.
  Definition start_index (node : nat) : nat := start_index_f (S tree_len) node.
  Definition stop_index (node : nat) : nat := stop_index_f (S tree_len) node.

  Definition qv (q : list Z) (i : nat) : num := Some (nth i q 0%Z).

  (* outside = isnan(nb[0]); for d: if q[n+d] < nb[d] or q[d] > nb[n+d]: outside = True; break *)
  Definition node_outside (n : nat) (q : list Z) (nb : row) : bool :=
    isnan (col 0 nb) ||
    existsb (fun d => nlt (qv q (n + d)) (col d nb) || ngt (qv q d) (col (n + d) nb)) (seq 0 n).
  (* inside = True; for d: if nb[d] < q[d] or nb[n+d] > q[n+d]: inside = False; break *)
  Definition node_inside (n : nat) (q : list Z) (nb : row) : bool :=
    negb (existsb (fun d => nlt (col d nb) (qv q d) || ngt (col (n + d) nb) (qv q (n + d))) (seq 0 n)).

  (* the [while nodes] loop.  [nodes]: head = end of the python list (pop());
     each node is popped at most once so [tree_len] iterations suffice (proved:
     RtreeProofs.ranges_loop_fuel).  Out of fuel returns what was accumulated. *)
  Fixpoint ranges_loop (fuel : nat) (q : list Z) (nodes : list nat)
           (covered maybe : list (nat * nat)) : list (nat * nat) * list (nat * nat) :=
    match fuel with
    | O => (covered, maybe)
    | S f =>
        match nodes with
        | [] => (covered, maybe)
        | next_node :: nodes' =>
            let n := length q / 2 in
            let node_bounds := getrow next_node (t_tree T) in
            if node_outside n q node_bounds then ranges_loop f q nodes' covered maybe
            else if node_inside n q node_bounds then
              ranges_loop f q nodes'
                          (covered ++ [(start_index next_node, stop_index next_node)]) maybe
            else
              let start := start_index next_node in
              let stop := stop_index next_node in
              if stop - start <=? t_page_size T then
                ranges_loop f q nodes' covered (maybe ++ [(start, stop)])
              else
                (* nodes.extend([right, left]): left is popped first *)
                ranges_loop f q (left_child next_node :: right_child next_node :: nodes')
                            covered maybe
        end
    end.

  (* _maybe_intersects_ranges *)
  Definition maybe_intersects_ranges (q : list Z) :=
    ranges_loop (S tree_len) q [0] [] [].

  (* outside_mask of one row *)
  Definition row_outside (n : nat) (q : list Z) (r : row) : bool :=
    isnan (col 0 r) ||
    existsb (fun d => nlt (col (d + n) r) (qv q d) || ngt (col d r) (qv q (d + n))) (seq 0 n).
  (* covers_mask of one row *)
  Definition row_covers (n : nat) (q : list Z) (r : row) : bool :=
    forallb (fun d => nge (col d r) (qv q d) && nle (col (d + n) r) (qv q (d + n))) (seq 0 n).

  (* next_slice[mask] where mask is computed row by row from bounds[start:stop, :]
     and next_slice = keys[start:stop] (numpy clips both slices at the length) *)
  Definition scan_slice (keep : row -> bool) (rg : nat * nat) : list nat :=
    let (start, stop) := rg in
    map fst (filter (fun kb => keep (snd kb))
                    (combine (slice start stop (t_keys T)) (slice start stop (t_bounds T)))).

  (* keys[start:stop][~isnan(bounds[start:stop, 0])] *)
  Definition covered_slice (rg : nat * nat) : list nat :=
    scan_slice (fun r => negb (isnan (col 0 r))) rg.

  (* intersects *)
  Definition intersects (q : list Z) : list nat :=
    match t_bounds T with
    | [] => []                                    (* self._bounds.size == 0 *)
    | _ =>
        let n := length q / 2 in
        let (covered_ranges, maybe_ranges) := maybe_intersects_ranges q in
        flat_map covered_slice covered_ranges ++
        flat_map (scan_slice (fun r => negb (row_outside n q r))) maybe_ranges
    end.

  (* covers_overlaps *)
  Definition covers_overlaps (q : list Z) : list nat * list nat :=
    match t_bounds T with
    | [] => ([], [])
    | _ =>
        let n := length q / 2 in
        let (covered_ranges, maybe_ranges) := maybe_intersects_ranges q in
        (flat_map covered_slice covered_ranges ++
         flat_map (scan_slice (row_covers n q)) maybe_ranges,
         flat_map (scan_slice (fun r => negb (row_outside n q r || row_covers n q r))) maybe_ranges)
    end.

  (* total_bounds *)
  Definition total_bounds : row :=
    match t_tree T with
    | [] => repeat None (2 * t_dim T)
    | root :: _ => root
    end.
End Query.

(* ---------------------------------------------- canonical form for the check *)
Fixpoint insert_sorted (x : nat) (l : list nat) : list nat :=
  match l with
  | [] => [x]
  | y :: t => if x <=? y then x :: l else y :: insert_sorted x t
  end.
Definition sort_nat (l : list nat) : list nat := fold_right insert_sorted [] l.

(* one case of the correspondence check: an index build and a batch of queries.
   Result: (_bounds_tree, total_bounds, per query (sorted intersects, sorted covers, sorted overlaps)) *)
Definition rtree_case (c : nat * list row * list nat * nat * list (list Z))
  : list row * row * list (list nat * list nat * list nat) :=
  let '(d, rows, keys, page_size, queries) := c in
  let T := build d rows keys page_size in
  (t_tree T, total_bounds T,
   map (fun q => let (cv, ov) := covers_overlaps T q in
                 (sort_nat (intersects T q), sort_nat cv, sort_nat ov)) queries).

(* the ragged-tree arithmetic alone: for a tree over [n] rows with page size [ps],
   [(start_index node, stop_index node)] of every node.  Only the length of the
   tree matters. *)
Definition ranges_case (c : nat * nat) : nat * list (nat * nat) :=
  let (n, ps) := c in
  let T := build 1 (repeat [Some 0%Z; Some 0%Z] n) (seq 0 n) ps in
  (leaf_start_of T, map (fun node => (start_index T node, stop_index T node)) (seq 0 (tree_len T))).
