(* spatialpandas/geometry/_algorithms/measures.py  (compute_line_length, compute_area),
   spatialpandas/geometry/baselist.py            (_geometry_map_nested1/2/3),
   the length / area / boundary properties of the array and scalar classes in
   spatialpandas/geometry/{point,multipoint,line,ring,multiline,polygon,multipolygon}.py.
   Executable definitions only.

   Numbers.  Coordinates are [num] ([None] = non-finite).  On integer-valued
   coordinates every -, * and + of compute_area is exact in float64, so the model
   computes in Z; the value returned by the model is the DOUBLED area (the code
   returns that / 2.0, which is exact).  A non-finite operand makes every float
   product / sum it enters non-finite (finite*inf = inf, 0*inf = nan, inf-inf = nan,
   x+nan = nan, ...), and a non-finite accumulator never becomes finite again:
   [None] is absorbing.  compute_line_length sums sqrt's: the model returns the
   squared lengths that are summed, in the order in which they are summed. *)
From Coq Require Import ZArith List Bool Arith.
From SP Require Import Model.Num Model.Arrow.
Import ListNotations.

(* unchecked read np.float64(values[i]) *)
Definition vget (vals : list num) (i : nat) : num := nth i vals None.

Definition nadd (a b : num) : num :=
  match a, b with Some x, Some y => Some (x + y)%Z | _, _ => None end.
Definition nsub (a b : num) : num :=
  match a, b with Some x, Some y => Some (x - y)%Z | _, _ => None end.
Definition nmul (a b : num) : num :=
  match a, b with Some x, Some y => Some (x * y)%Z | _, _ => None end.

(* len(range(a, b, 2)) *)
Definition range2_count (a b : nat) : nat := (b - a + 1) / 2.

(* ------------------------------------------------------------------ *)
(* compute_line_length                                                  *)
(* ------------------------------------------------------------------ *)

Definition sqdist (x0 y0 x1 y1 : Z) : Z :=
  ((x1 - x0) * (x1 - x0) + (y1 - y0) * (y1 - y0))%Z.

(* the inner loop  for i in range(start + 2, stop, 2)  with n iterations left,
   (x0, y0) the previous vertex; yields the arguments of the sqrt's that are
   added to total_len *)
Fixpoint ll_inner (vals : list num) (n i : nat) (x0 y0 : num) : list Z :=
  match n with
  | O => []
  | S n' =>
      let x1 := vget vals i in
      let y1 := vget vals (i + 1) in
      let rest := ll_inner vals n' (i + 2) x1 y1 in
      match x0, y0, x1, y1 with
      | Some a, Some b, Some c, Some d => sqdist a b c d :: rest   (* all four isfinite *)
      | _, _, _, _ => rest
      end
  end.

(* the outer loop  for offset_ind in range(len(value_offsets) - 1) *)
Fixpoint ll_terms (vals : list num) (offs : list nat) : list Z :=
  match offs with
  | start :: ((stop :: _) as t) =>
      (if Nat.ltb (stop - start) 4 then []      (* fewer than two vertices: continue *)
       else ll_inner vals (range2_count (start + 2) stop) (start + 2)
                     (vget vals start) (vget vals (start + 1)))
      ++ ll_terms vals t
  | _ => []
  end.

Definition is_square (t : Z) : bool := (Z.sqrt t * Z.sqrt t =? t)%Z.

(* when every summed sqrt has a perfect-square argument the float sum is the
   exact integer sum of the roots *)
Definition exact_sum (ts : list Z) : option Z :=
  if forallb is_square ts then Some (fold_right Z.add 0%Z (map Z.sqrt ts)) else None.

(* result of compute_line_length as the correspondence check sees it:
   (arguments of the sqrt's in summation order, exact total when all are squares) *)
Definition lenres := (list Z * option Z)%type.

Definition compute_line_length (vals : list num) (offs : list nat) : lenres :=
  let ts := ll_terms vals offs in (ts, exact_sum ts).

(* ------------------------------------------------------------------ *)
(* compute_area (doubled)                                               *)
(* ------------------------------------------------------------------ *)

(* for k in range(start, stop - 4, 2): area += values[k+2] * (values[k+5] - values[k+1]) *)
Fixpoint area_main (vals : list num) (n k : nat) (acc : num) : num :=
  match n with
  | O => acc
  | S n' =>
      let ix := vget vals (k + 2) in
      let jy := vget vals (k + 4 + 1) in
      let ky := vget vals (k + 1) in
      area_main vals n' (k + 2) (nadd acc (nmul ix (nsub jy ky)))
  end.

(* body of the outer loop for one (start, stop) *)
Definition area_ring (vals : list num) (start stop : nat) (acc : num) : num :=
  if Nat.ltb (stop - start) 6 then acc                      (* poly_length < 6: continue *)
  else
    let acc1 := area_main vals (range2_count start (stop - 4)) start acc in
    (* wrap-around term: firstx * (secondy - lasty) *)
    nadd acc1 (nmul (vget vals start)
                    (nsub (vget vals (start + 3)) (vget vals (stop - 3)))).

Fixpoint area_loop (vals : list num) (offs : list nat) (acc : num) : num :=
  match offs with
  | start :: ((stop :: _) as t) => area_loop vals t (area_ring vals start stop acc)
  | _ => acc
  end.

(* 2 * compute_area(values, value_offsets) *)
Definition compute_area (vals : list num) (offs : list nat) : num :=
  area_loop vals offs (Some 0%Z).

(* ------------------------------------------------------------------ *)
(* _geometry_map_nested1/2/3: result pre-filled with NaN ([None]), written for
   the rows that are not missing                                         *)
(* ------------------------------------------------------------------ *)

Definition map_nested1 {R} (fn : list num -> list nat -> R) (vals : list num)
           (offs : list (list nat)) (missing : list bool) : list (option R) :=
  match offs with
  | [o0] =>
      map (fun i => if nth i missing false then None
                    else Some (fn vals (slice i (i + 2) o0)))
          (seq 0 (length o0 - 1))
  | _ => []      (* assert len(value_offsets) == 1 *)
  end.

Definition map_nested2 {R} (fn : list num -> list nat -> R) (vals : list num)
           (offs : list (list nat)) (missing : list bool) : list (option R) :=
  match offs with
  | [o0; o1] =>
      map (fun i => if nth i missing false then None
                    else let start := getn o0 i in
                         let stop := getn o0 (i + 1) in
                         Some (fn vals (slice start (stop + 1) o1)))
          (seq 0 (length o0 - 1))
  | _ => []
  end.

Definition map_nested3 {R} (fn : list num -> list nat -> R) (vals : list num)
           (offs : list (list nat)) (missing : list bool) : list (option R) :=
  match offs with
  | [o0; o1; o2] =>
      map (fun i => if nth i missing false then None
                    else let start := getn o1 (getn o0 i) in
                         let stop := getn o1 (getn o0 (i + 1)) in
                         Some (fn vals (slice start (stop + 1) o2)))
          (seq 0 (length o0 - 1))
  | _ => []
  end.

(* ------------------------------------------------------------------ *)
(* the array classes                                                    *)
(* ------------------------------------------------------------------ *)

Inductive kind := KMultiPoint | KLine | KRing | KMultiLine | KPolygon | KMultiPolygon.

(* NaN (missing) and a computed non-finite area are both [None] *)
Definition joinn (o : option num) : num := match o with Some r => r | None => None end.

(* np.where(self.isna(), np.nan, 0.0): zero for every element, NaN for a missing one *)
Definition zeros_nan {R} (zero : R) (missing : list bool) : list (option R) :=
  map (fun m : bool => if m then None else Some zero) missing.

(* <Kind>Array.length: zeros_nan for multipoints; the map kernel of the kind's
   nesting depth over compute_line_length otherwise *)
Definition arr_length (k : kind) (a : listarr) : list (option lenres) :=
  match k with
  | KMultiPoint => zeros_nan ([], Some 0%Z) (la_isna a)
  | KLine | KRing =>
      map_nested1 compute_line_length (buffer_values a) (buffer_offsets a) (la_isna a)
  | KMultiLine | KPolygon =>
      map_nested2 compute_line_length (buffer_values a) (buffer_offsets a) (la_isna a)
  | KMultiPolygon =>
      map_nested3 compute_line_length (buffer_values a) (buffer_offsets a) (la_isna a)
  end.

(* <Kind>Array.area (doubled): zeros_nan for multipoint / line / ring / multiline *)
Definition arr_area (k : kind) (a : listarr) : list num :=
  match k with
  | KMultiPoint | KLine | KRing | KMultiLine => zeros_nan 0%Z (la_isna a)
  | KPolygon =>
      map joinn (map_nested2 compute_area (buffer_values a) (buffer_offsets a) (la_isna a))
  | KMultiPolygon =>
      map joinn (map_nested3 compute_area (buffer_values a) (buffer_offsets a) (la_isna a))
  end.

(* PointArray.length / .area: np.where(self.isna(), np.nan, 0.0) *)
Definition pt_length (a : fixarr) : list (option lenres) := zeros_nan ([], Some 0%Z) (fa_isna a).
Definition pt_area (a : fixarr) : list num := zeros_nan 0%Z (fa_isna a).

(* ------------------------------------------------------------------ *)
(* the scalar classes.  A scalar wraps a pyarrow ListScalar; its [listarray]
   is the scalar's .values (one nesting level less than the array class) and
   goes through the same _ListArrayBufferMixin.                          *)
(* ------------------------------------------------------------------ *)

(* buffer_offsets of a scalar: the branch  len(buffers) < 3  (a Line / Ring /
   MultiPoint scalar: .values is a plain numeric array, "offset values that
   include everything"); a null-typed empty element ( len(buffers) < 2 ,
   buffer_offsets = (np.array([0]),) ) is exported with la_offs = [[0]] *)
Definition sc_buffer_offsets (s : listarr) : list (list nat) :=
  match la_offs s with
  | [] => [[0; la_len s]]
  | _ => buffer_offsets s
  end.

(* buffer_inner_offsets on those:
     if len(buffer_offsets) == 1: return buffer_offsets[0]
     start = buffer_offsets[0][0]; stop = buffer_offsets[0][-1]
     for offsets in buffer_offsets[1:-1]: start = offsets[start]; stop = offsets[stop]
     return buffer_offsets[-1][start:stop + 1] *)
Definition sc_inner_offsets (s : listarr) : list nat :=
  match sc_buffer_offsets s with
  | [] => []
  | [o0] => o0
  | o0 :: rest =>
      let '(st, en) :=
        fold_left (fun '(st, en) offs => (getn offs st, getn offs en))
                  (removelast rest) (getn o0 0, getn o0 (length o0 - 1)) in
      slice st (en + 1) (last (o0 :: rest) [])
  end.

(* the guard under which the reads of the scalar forms are in range *)
Definition sc_wf (s : listarr) : bool :=
  match la_offs s with
  | [] => Nat.eqb (la_off s) 0 && Nat.leb (la_len s) (length (la_vals s))
  | _ => wf_listarr s
  end.

Definition sc_length (k : kind) (s : listarr) : lenres :=
  match k with
  | KMultiPoint => ([], Some 0%Z)
  | _ => compute_line_length (buffer_values s) (sc_inner_offsets s)
  end.

Definition sc_area (k : kind) (s : listarr) : num :=
  match k with
  | KPolygon | KMultiPolygon => compute_area (buffer_values s) (sc_inner_offsets s)
  | _ => Some 0%Z
  end.

(* ------------------------------------------------------------------ *)
(* boundary                                                             *)
(* ------------------------------------------------------------------ *)

(* PolygonArray.boundary = MultiLineArray(self.data): the very same pyarrow array *)
Definition polygon_boundary (a : listarr) : listarr := a.

(* MultiPolygonArray.boundary:
     offsets = self.buffer_offsets; missing = concatenate([self.isna(), [False]])
     inner   = ListArray.from_arrays(offsets[2], self.buffer_values)
     new     = ListArray.from_arrays(pa.array(offsets[1][offsets[0]], mask=missing), inner) *)
Definition multipolygon_boundary (a : listarr) : listarr :=
  match buffer_offsets a with
  | [o0; o1; o2] =>
      {| la_off := 0; la_len := la_len a;
         la_valid := Some (map negb (la_isna a));
         la_offs := [map (getn o1) o0; o2];
         la_vals := buffer_values a |}
  | _ => a
  end.

(* Polygon.boundary = MultiLine(self.data): the very same ListScalar *)
Definition sc_polygon_boundary (s : listarr) : listarr := s.

(* MultiLine([]): a null-typed .values, for which buffer_offsets is (np.array([0]),) *)
Definition empty_scalar : listarr :=
  {| la_off := 0; la_len := 0; la_valid := None; la_offs := [[0]]; la_vals := [] |}.

(* MultiPolygon.boundary:
     buffer_offsets = self.buffer_offsets
     if len(buffer_offsets) < 2: return MultiLine([])
     start, stop = buffer_offsets[0][0], buffer_offsets[0][-1]
     rings = ListArray.from_arrays(buffer_offsets[1][start:stop + 1], self.buffer_values)
     MultiLine(ListArray.from_arrays([0, len(rings)], rings)[0])
   The result's listarray is [rings]. *)
Definition sc_multipolygon_boundary (s : listarr) : listarr :=
  match buffer_offsets s with
  | o0 :: o1 :: _ =>
      let start := getn o0 0 in
      let stop := getn o0 (length o0 - 1) in
      let ro := slice start (stop + 1) o1 in
      {| la_off := 0; la_len := length ro - 1; la_valid := None;
         la_offs := [ro]; la_vals := buffer_values s |}
  | _ => empty_scalar
  end.

(* what a scalar looks like to the library *)
Definition sc_view (s : listarr) : list (list nat) * list num :=
  (sc_buffer_offsets s, buffer_values s).

(* what an array looks like to the library: missing mask, offsets per level
   (first level sliced), values buffer *)
Definition la_view (a : listarr) : list bool * list (list nat) * list num :=
  (la_isna a, buffer_offsets a, buffer_values a).

(* ------------------------------------------------------------------ *)
(* what the correspondence check evaluates                              *)
(* ------------------------------------------------------------------ *)
Definition arr_measures (k : kind) (a : listarr) := (arr_length k a, arr_area k a).
Definition sc_measures (k : kind) (s : listarr) := (sc_length k s, sc_area k s).
Definition pt_measures (a : fixarr) := (pt_length a, pt_area a).
