(* spatialpandas/geometry/point.py: Point.intersects / PointArray.intersects
   (scalar form, array form, array form restricted to positions [inds]) for a
   scalar shape: Point, MultiPoint, Line, MultiLine, Polygon, MultiPolygon.
   The kernels of _algorithms/intersection.py are in Model/PointKernels.v.
   The buffer view of a *scalar* shape (baselist.py: GeometryList.__init__,
   _ListArrayBufferMixin) is transcribed here, including the len(buffers) < 3
   special cases.  Coordinates are exact integers.  Executable only. *)
From Coq Require Import ZArith List Bool Arith.
From SP Require Import Model.Num Model.Arrow Model.PointKernels.
Import ListNotations.

(* ------------------------------------------------------------------ *)
(* outcomes: a value, or the exception min() of an empty sequence provokes
   (builtin min([]) -> ValueError in Point._intersects_line, numba min(empty
   array) in _perform_intersects_line).  Since the code skips (sub-)lines
   without vertices (len(xs) == 0: continue) this only remains for a slice that
   holds a single value (xs = [v], ys = []), which no array built by the library
   contains (inner slices are even: wf). *)
Inductive outcome (A : Type) : Type :=
| Value (v : A)
| RaisesEmptyLine.
Arguments Value {A} v.
Arguments RaisesEmptyLine {A}.

(* the harness's comparison type *)
Definition out_sum {A} (o : outcome A) : unit + A :=
  match o with Value v => inr v | RaisesEmptyLine => inl tt end.

(* ------------------------------------------------------------------ *)
(* numpy strided views flat[0::2] and flat[1::2] *)
Fixpoint evens {A} (l : list A) : list A :=
  match l with
  | [] => []
  | x :: t => x :: match t with [] => [] | _ :: t' => evens t' end
  end.
Definition odds {A} (l : list A) : list A := evens (tl l).

(* unchecked read of a coordinate (numba does not bounds-check) *)
Definition zn (l : list Z) (i : nat) : Z := nth i l 0%Z.

(* builtin min / max of a non-empty sequence *)
Definition lmin (h : Z) (t : list Z) : Z := fold_left Z.min t h.
Definition lmax (h : Z) (t : list Z) : Z := fold_left Z.max t h.

(* ------------------------------------------------------------------ *)
(* The listarray of a scalar shape (GeometryList.__init__: listarray =
   data.values) as _ListArrayBufferMixin sees it through .buffers() *)
Inductive sbuf : Type :=
| BNull                                      (* pa.NullArray: buffers() = [None]          *)
| BPlain (off len : nat) (vals : list num)   (* primitive array: [validity, values]; the
                                                code looks at neither .offset nor validity *)
| BList (a : listarr).                       (* ListArray, 1 or 2 offsets levels            *)

(* buffer_values: the whole last buffer *)
Definition sb_buffer_values (b : sbuf) : list num :=
  match b with
  | BNull => []
  | BPlain _ _ vals => vals
  | BList a => la_vals a
  end.

(* buffer_offsets, with the two short-buffer special cases *)
Definition sb_buffer_offsets (b : sbuf) : list (list nat) :=
  match b with
  | BNull => [[0%nat]]                       (* len(buffers) < 2 *)
  | BPlain _ len _ => [[0%nat; len]]         (* len(buffers) < 3: [0, len(listarray)] *)
  | BList a => Arrow.buffer_offsets a
  end.

(* start = bo[0][0]; stop = bo[0][-1]; for offsets in levels: start, stop = offsets[start], offsets[stop] *)
Definition chase (o0 : list nat) (levels : list (list nat)) : nat * nat :=
  fold_left (fun '(s, e) offs => (getn offs s, getn offs e)) levels
            (getn o0 0, getn o0 (length o0 - 1)).

(* flat_values *)
Definition sb_flat_values (b : sbuf) : list num :=
  match sb_buffer_offsets b with
  | [] => []
  | o0 :: rest => let '(s, e) := chase o0 rest in slice s e (sb_buffer_values b)
  end.

(* buffer_inner_offsets: a single level of offsets is already the innermost
   one; otherwise chase through buffer_offsets[1:-1], then slice the last level
   [start : stop+1] *)
Definition sb_inner_offsets (b : sbuf) : list nat :=
  match sb_buffer_offsets b with
  | [] => []
  | [o0] => o0
  | o0 :: rest =>
      let '(s, e) := chase o0 (removelast rest) in
      slice s (e + 1) (last (o0 :: rest) [])
  end.

(* ------------------------------------------------------------------ *)
(* scalar shapes, by the isinstance dispatch of Point.intersects *)
Inductive shape : Type :=
| ShPoint (x y : num)            (* Point: flat_values[0], flat_values[1] of its own bytes *)
| ShMultiPoint (b : sbuf)
| ShLine (b : sbuf)
| ShMultiLine (b : sbuf)
| ShPolygon (b : sbuf)
| ShMultiPolygon (b : sbuf).

(* ------------------------------------------------------------------ *)
(* kernels over integer coordinates *)

(* Point._intersects_point *)
Definition sc_point (x y px py : Z) : bool := (x =? px)%Z && (y =? py)%Z.

(* np.any((x == flat[0::2]) & (y == flat[1::2])) *)
Definition any_vertex (x y : Z) (flat : list Z) : bool :=
  existsb (fun '(vx, vy) => (x =? vx)%Z && (y =? vy)%Z) (combine (evens flat) (odds flat)).

(* Point._intersects_multipoint; _perform_intersects_multipoint per point *)
Definition sc_multipoint (x y : Z) (flat : list Z) : bool := any_vertex x y flat.

(* Point.intersects_bounds (finite point) *)
Definition sc_in_bounds (x y : Z) (bounds : Z * Z * Z * Z) : bool :=
  let '(x0, y0, x1, y1) := bounds in
  let '(x0, x1) := if (x1 <? x0)%Z then (x1, x0) else (x0, x1) in
  let '(y0, y1) := if (y1 <? y0)%Z then (y1, y0) else (y0, y1) in
  negb ((x <? x0)%Z || (x1 <? x)%Z || (y <? y0)%Z || (y1 <? y)%Z).

(* for j in range(len(xs) - 1): segment_intersects_point(xs[j], ys[j], xs[j+1], ys[j+1], x, y) *)
Definition any_segment (x y : Z) (xs ys : list Z) : bool :=
  existsb (fun '((ax0, ay0), (ax1, ay1)) => segment_intersects_point ax0 ay0 ax1 ay1 x y)
          (edges (combine xs ys)).

(* Point._intersects_line: loop over the sub-lines, first hit returns *)
Fixpoint sc_lines (x y : Z) (lines : list (list Z)) : outcome bool :=
  match lines with
  | [] => Value false
  | flat :: rest =>
      match evens flat, odds flat with
      | [], _ => sc_lines x y rest                     (* len(xs) == 0: continue *)
      | _ :: _, [] => RaisesEmptyLine                  (* min(ys) of nothing *)
      | hx :: tx, hy :: ty =>
          let xs := hx :: tx in let ys := hy :: ty in
          let bounds := (lmin hx tx, lmin hy ty, lmax hx tx, lmax hy ty) in
          if negb (sc_in_bounds x y bounds) then sc_lines x y rest
          else if any_vertex x y flat then Value true
          else if any_segment x y xs ys then Value true
          else sc_lines x y rest
      end
  end.

(* _perform_intersects_line, the body for one point: every sub-line is
   visited (a vertex hit `continue`s, a segment hit `break`s the inner loop only) *)
Fixpoint ar_lines (x y : Z) (lines : list (list Z)) (acc : bool) : outcome bool :=
  match lines with
  | [] => Value acc
  | flat :: rest =>
      match evens flat, odds flat with
      | [], _ => ar_lines x y rest acc                 (* len(line_xs) == 0: continue *)
      | _ :: _, [] => RaisesEmptyLine
      | hx :: tx, hy :: ty =>
          let xs := hx :: tx in let ys := hy :: ty in
          let '(b0, b1, b2, b3) := (lmin hx tx, lmin hy ty, lmax hx tx, lmax hy ty) in
          if (x <? b0)%Z || (y <? b1)%Z || (b2 <? x)%Z || (b3 <? y)%Z then ar_lines x y rest acc
          else if any_vertex x y flat then ar_lines x y rest true
          else ar_lines x y rest (acc || any_segment x y xs ys)
      end
  end.

(* for i, j in enumerate(inds): ... sequentially; the first exception ends the call *)
Fixpoint out_map {A B} (f : A -> outcome B) (l : list A) : outcome (list B) :=
  match l with
  | [] => Value []
  | a :: t =>
      match f a with
      | RaisesEmptyLine => RaisesEmptyLine
      | Value v => match out_map f t with
                   | RaisesEmptyLine => RaisesEmptyLine
                   | Value r => Value (v :: r)
                   end
      end
  end.

(* ------------------------------------------------------------------ *)
(* the three families of entry points on integer buffers.
   [flat] = PointArray.flat_values, [sv] = shape.buffer_values,
   [so] = shape.buffer_inner_offsets, [sf] = shape.flat_values *)

(* coordinates read for position j: flat_points[2*j], flat_points[2*j+1] *)
Definition pt_at (flat : list Z) (j : nat) : Z * Z := (zn flat (2 * j), zn flat (2 * j + 1)).

(* PointArray._intersects_point *)
Definition arr_point (flat : list Z) (n : nat) (inds : option (list nat)) (px py : Z) : list bool :=
  match inds with
  | None => map (fun '(vx, vy) => (vx =? px)%Z && (vy =? py)%Z) (combine (evens flat) (odds flat))
  | Some l => map (fun j => (zn flat (j * 2) =? px)%Z && (zn flat (j * 2 + 1) =? py)%Z) l
  end.

(* if inds is None: inds = np.arange(len(self)) *)
Definition the_inds (n : nat) (inds : option (list nat)) : list nat :=
  match inds with None => seq 0 n | Some l => l end.

(* PointArray._intersects_multipoint / _perform_intersects_multipoint *)
Definition arr_multipoint (flat : list Z) (n : nat) (inds : option (list nat)) (sf : list Z) : list bool :=
  map (fun j => let '(x, y) := pt_at flat j in sc_multipoint x y sf) (the_inds n inds).

(* PointArray._intersects_line / _perform_intersects_line *)
Definition arr_line (flat : list Z) (n : nat) (inds : option (list nat))
                    (sv : list Z) (so : list nat) : outcome (list bool) :=
  out_map (fun j => let '(x, y) := pt_at flat j in ar_lines x y (rings_of sv so) false)
          (the_inds n inds).

(* PointArray._intersects_polygon / _perform_intersects_polygon *)
Definition arr_polygon (flat : list Z) (n : nat) (inds : option (list nat))
                       (sv : list Z) (so : list nat) : list bool :=
  map (fun j => let '(x, y) := pt_at flat j in point_intersects_polygon x y sv so)
      (the_inds n inds).

(* ------------------------------------------------------------------ *)
(* dispatch on the shape; [None] = a non-finite coordinate (outside the model) *)

Definition obind {A B} (o : option A) (f : A -> option B) : option B :=
  match o with Some a => f a | None => None end.

(* Point.intersects(shape) for the point (x, y) *)
Definition point_intersects (x y : Z) (s : shape) : option (outcome bool) :=
  match s with
  | ShPoint (Some px) (Some py) => Some (Value (sc_point x y px py))
  | ShPoint _ _ => None
  | ShMultiPoint b =>
      obind (finite_vals (sb_flat_values b)) (fun sf => Some (Value (sc_multipoint x y sf)))
  | ShLine b | ShMultiLine b =>
      obind (finite_vals (sb_buffer_values b)) (fun sv =>
        Some (sc_lines x y (rings_of sv (sb_inner_offsets b))))
  | ShPolygon b | ShMultiPolygon b =>
      obind (finite_vals (sb_buffer_values b)) (fun sv =>
        Some (Value (point_intersects_polygon x y sv (sb_inner_offsets b))))
  end.

(* PointArray._intersects(shape, inds) *)
Definition array_intersects_raw (a : fixarr) (s : shape) (inds : option (list nat))
  : option (outcome (list bool)) :=
  obind (finite_vals (fa_flat_values a)) (fun flat =>
  let n := fa_len a in
  match s with
  | ShPoint (Some px) (Some py) => Some (Value (arr_point flat n inds px py))
  | ShPoint _ _ => None
  | ShMultiPoint b =>
      obind (finite_vals (sb_flat_values b)) (fun sf => Some (Value (arr_multipoint flat n inds sf)))
  | ShLine b | ShMultiLine b =>
      obind (finite_vals (sb_buffer_values b)) (fun sv =>
        Some (arr_line flat n inds sv (sb_inner_offsets b)))
  | ShPolygon b | ShMultiPolygon b =>
      obind (finite_vals (sb_buffer_values b)) (fun sv =>
        Some (Value (arr_polygon flat n inds sv (sb_inner_offsets b))))
  end).

(* result & ~(isna if inds is None else isna[inds]), only when isna.any() *)
Definition mask_missing (isna : list bool) (inds : option (list nat)) (res : list bool) : list bool :=
  if existsb (fun b => b) isna then
    let m := match inds with
             | None => isna
             | Some l => map (fun j => nth j isna false) l
             end in
    map (fun '(r, na) => r && negb na) (combine res m)
  else res.

(* PointArray.intersects(shape, inds) *)
Definition array_intersects (a : fixarr) (s : shape) (inds : option (list nat))
  : option (outcome (list bool)) :=
  match array_intersects_raw a s inds with
  | Some (Value r) => Some (Value (mask_missing (fa_isna a) inds r))
  | other => other
  end.

(* [Point.intersects(shape)] of the array's element i (PointArray.__getitem__
   hands out a Point holding the slot's two coordinates; a missing element is
   None, not a Point) *)
Definition element_intersects (a : fixarr) (s : shape) (i : nat) : option (option (outcome bool)) :=
  if isna_at (fa_valid a) (fa_off a) i then Some None
  else
    match nth (2 * (fa_off a + i)) (fa_vals a) None,
          nth (2 * (fa_off a + i) + 1) (fa_vals a) None with
    | Some x, Some y =>
        match point_intersects x y s with
        | Some o => Some (Some o)
        | None => None
        end
    | _, _ => None
    end.

(* ------------------------------------------------------------------ *)
(* inds must address existing slots (numba does not bounds-check); the
   correspondence check (Model/PointShapeHarness.v) evaluates the three forms
   under this guard *)
Definition inds_ok (n : nat) (inds : list nat) : bool := forallb (fun j => Nat.ltb j n) inds.

Fixpoint all_some {A} (l : list (option A)) : option (list A) :=
  match l with
  | [] => Some []
  | Some a :: t => match all_some t with Some r => Some (a :: r) | None => None end
  | None :: _ => None
  end.
