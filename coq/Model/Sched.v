(* C18 — scheduling independence: three state machines.
   (a) a numba `prange` kernel as iterations that store into a shared result array
       (geometry/baselist.py _geometry_map_nested1/2/3,
        geometry/_algorithms/intersection.py multipoints_intersect_bounds,
        geometry/point.py _perform_intersects_multipoint/_line/_polygon);
   (b) the check-then-build caches as small-step thread programs over one shared cell
       (geometry/base.py GeometryArray.sindex / build_sindex -> _sindex,
        spatialindex/rtree.py HilbertRtree.numba_rtree -> _numba_rtree,
        dask.py DaskGeoSeries.partition_bounds / partition_sindex,
        dask.py DaskGeoDataFrame.partition_sindex -> _partition_sindex / _partition_bounds dicts);
   (c) the tasks of DaskGeoDataFrame.pack_partitions_to_parquet as lists of filesystem
       operations with read / write footprints, in the two phases separated by the
       dask.compute barriers the code has.
   numba's threading layer, the GIL and Dask's scheduler are NOT modelled: an execution
   is any interleaving of the atomic steps below.  No proofs in this file. *)
From Coq Require Import List Bool Arith String.
From SP Require Import Model.FS.
Import ListNotations.

(* ------------------------------------------------------------------ *)
(* generic: operations over a store of locations, interleavings          *)
(* ------------------------------------------------------------------ *)

Section Store.
  Variables Loc Val : Type.

  Definition store := Loc -> Val.

  (* an atomic operation: what it may read, what it may write, what it does *)
  Record op := mkOp { rd : Loc -> bool; wr : Loc -> bool; act : store -> store }.

  Definition run (l : list op) (s : store) : store :=
    fold_left (fun s o => act o s) l s.

  (* every interleaving of two threads (program order kept inside each) *)
  Inductive merge2 : list op -> list op -> list op -> Prop :=
  | merge2_nil_l : forall b, merge2 [] b b
  | merge2_nil_r : forall a, merge2 a [] a
  | merge2_l : forall x a b l, merge2 a b l -> merge2 (x :: a) b (x :: l)
  | merge2_r : forall y a b l, merge2 a b l -> merge2 a (y :: b) (y :: l).

  (* every interleaving of any number of threads *)
  Inductive interleave : list (list op) -> list op -> Prop :=
  | interleave_nil : interleave [] []
  | interleave_cons : forall t ts r l,
      interleave ts r -> merge2 t r l -> interleave (t :: ts) l.
End Store.

Arguments mkOp {Loc Val}.
Arguments rd {Loc Val}.
Arguments wr {Loc Val}.
Arguments act {Loc Val}.
Arguments run {Loc Val}.
Arguments merge2 {Loc Val}.
Arguments interleave {Loc Val}.

(* ------------------------------------------------------------------ *)
(* (a) prange kernels                                                    *)
(* ------------------------------------------------------------------ *)

Section Prange.
  Variable V : Type.

  (* the shared result array; a store outside it is dropped (numba would fault) *)
  Fixpoint upd (r : list V) (i : nat) (v : V) : list V :=
    match r, i with
    | [], _ => []
    | _ :: t, O => v :: t
    | x :: t, S k => x :: upd t k v
    end.

  (* result[i] = v *)
  Definition store_op (i : nat) (v : V) : op nat (option V) :=
    mkOp (fun _ => false) (fun j => Nat.eqb j i)
         (fun s j => if Nat.eqb j i then Some v else s j).

  (* One iteration of a prange loop: the stores it performs, in program order.  All the
     kernels of the repo store only into result[i] of their own iteration i, zero times
     (missing element / no hit), once, or several times (_perform_intersects_line):
       iteration i  ~>  (i, [v1; ..; vk])  *)
  Definition iteration := (nat * list V)%type.

  Definition iter_writes (it : iteration) : list (nat * V) :=
    map (fun v => (fst it, v)) (snd it).

  Definition apply_writes (ws : list (nat * V)) (r : list V) : list V :=
    fold_left (fun r w => upd r (fst w) (snd w)) ws r.

  (* the sequential loop: iterations in the given order *)
  Definition run_iterations (its : list iteration) (r : list V) : list V :=
    apply_writes (flat_map iter_writes its) r.

  (* footprint property observed by the correspondence run: distinct iterations have
     distinct cells *)
  Definition footprints_distinct (its : list iteration) : Prop := NoDup (map fst its).

  (* interleavings at the granularity of single stores *)
  Inductive wmerge2 : list (nat * V) -> list (nat * V) -> list (nat * V) -> Prop :=
  | wmerge2_nil_l : forall b, wmerge2 [] b b
  | wmerge2_nil_r : forall a, wmerge2 a [] a
  | wmerge2_l : forall x a b l, wmerge2 a b l -> wmerge2 (x :: a) b (x :: l)
  | wmerge2_r : forall y a b l, wmerge2 a b l -> wmerge2 a (y :: b) (y :: l).

  Inductive winterleave : list (list (nat * V)) -> list (nat * V) -> Prop :=
  | winterleave_nil : winterleave [] []
  | winterleave_cons : forall t ts r l,
      winterleave ts r -> wmerge2 t r l -> winterleave (t :: ts) l.
End Prange.

Arguments upd {V}.
Arguments iter_writes {V}.
Arguments apply_writes {V}.
Arguments run_iterations {V}.
Arguments footprints_distinct {V}.
Arguments wmerge2 {V}.
Arguments winterleave {V}.

(* ------------------------------------------------------------------ *)
(* (b) check-then-build caches                                           *)
(* ------------------------------------------------------------------ *)

Section Cache.
  Variable V : Type.
  Variable fx : V.      (* the value every builder computes: f is pure and deterministic *)

  (*   def sindex(self):                      def numba_rtree(self):
         if self._sindex is None:   (check)     if self._numba_rtree is None:   (check)
             self.build_sindex()                    self._numba_rtree = f(x)     (write)
         return self._sindex        (final)     return self._numba_rtree        (final)
       def build_sindex(self):
         if self._sindex is None:   (check)
             self._sindex = f(x)    (write)
     A thread is at: [Check k] k more `is None` tests before it builds (k = 1 for sindex
     entered at the top: its own test was passed, build_sindex tests again; k = 0: it
     builds next); [Write]; [Final] the returning read; [Done v] returned v. *)
  Inductive pc :=
  | Check (k : nat)
  | Write
  | Final
  | Done (v : option V).

  (* one atomic step of a thread against the shared cell *)
  Definition tstep (cell : option V) (p : pc) : option V * pc :=
    match p with
    | Check k =>
        match cell with
        | Some _ => (cell, Final)
        | None => (cell, match k with O => Write | S k' => Check k' end)
        end
    | Write => (Some fx, Final)
    | Final => (cell, Done cell)
    | Done v => (cell, Done v)
    end.

  Fixpoint set_nth (l : list pc) (i : nat) (p : pc) : list pc :=
    match l, i with
    | [], _ => []
    | _ :: t, O => p :: t
    | x :: t, S k => x :: set_nth t k p
    end.

  (* the system: shared cell + the program counters of the threads; a schedule is the
     list of thread numbers in the order they take a step (a number that names no thread
     is an idle step) *)
  Definition sys := (option V * list pc)%type.

  Definition sstep (s : sys) (i : nat) : sys :=
    match nth_error (snd s) i with
    | None => s
    | Some p => let '(c, p') := tstep (fst s) p in (c, set_nth (snd s) i p')
    end.

  Definition srun (sched : list nat) (s : sys) : sys := fold_left sstep sched s.

  (* the access entered at the top: sindex = Check 1, numba_rtree / partition_bounds /
     partition_sindex / the dict-based ones = Check 0 *)
  Definition start (checks : list nat) : sys := (None, map Check checks).
End Cache.

Arguments Check {V}.
Arguments Write {V}.
Arguments Final {V}.
Arguments Done {V}.
Arguments tstep {V}.
Arguments sstep {V}.
Arguments srun {V}.
Arguments start {V}.
Arguments set_nth {V}.

(* ------------------------------------------------------------------ *)
(* (c) pack_partitions_to_parquet: tasks as filesystem operations        *)
(* ------------------------------------------------------------------ *)

(* locations: a path of the filesystem, or the local variable `part_df` of the
   concat_parts task of output partition N *)
Inductive loc := LPath (p : path) | LReg (N : nat).

(* a file holds the rows of some (input partition, output partition) cells *)
Inductive val :=
| VNone                                  (* no such path / unset variable *)
| VDir
| VFile (rows : list (nat * nat))
| VRows (rows : list (nat * nat)).       (* value of the local variable *)

Definition fstore := store loc val.

Definition loc_is (p : path) (l : loc) : bool :=
  match l with LPath q => path_eqb p q | LReg _ => false end.

Definition loc_under (p : path) (l : loc) : bool :=
  match l with LPath q => is_prefix p q | LReg _ => false end.

Definition loc_reg (N : nat) (l : loc) : bool :=
  match l with LReg M => Nat.eqb N M | LPath _ => false end.

Definition set_loc (s : fstore) (test : loc -> bool) (v : val) : fstore :=
  fun l => if test l then v else s l.

(* filesystem.open(p, 'wb') + write: the parent must be a directory, p not a directory *)
Definition fs_write (p : path) (rows : list (nat * nat)) : op loc val :=
  mkOp (fun l => loc_is (parent p) l)
       (fun l => loc_is p l)
       (fun s => match s (LPath (parent p)), s (LPath p) with
                 | VDir, VDir => s
                 | VDir, _ => set_loc s (loc_is p) (VFile rows)
                 | _, _ => s
                 end).

(* rm_retry(p): if exists: rm(p, recursive=True) *)
Definition fs_rmtree (p : path) : op loc val :=
  mkOp (fun _ => false) (fun l => loc_under p l) (fun s => set_loc s (loc_under p) VNone).

Definition rows_of (v : val) : list (nat * nat) :=
  match v with VFile r => r | _ => [] end.

(* part_df = read_parquet(ls_res) for the verified list of sub-part files *)
Definition fs_read_files (N : nat) (files : list path) : op loc val :=
  mkOp (fun l => existsb (fun p => loc_is p l) files)
       (fun l => loc_reg N l)
       (fun s => set_loc s (loc_reg N) (VRows (flat_map (fun p => rows_of (s (LPath p))) files))).

(* write_concatted_part(part_df, part_output_path) *)
Definition fs_write_from (N : nat) (p : path) : op loc val :=
  mkOp (fun l => loc_is (parent p) l || loc_reg N l)
       (fun l => loc_is p l)
       (fun s => match s (LPath (parent p)), s (LPath p), s (LReg N) with
                 | VDir, VDir, _ => s
                 | VDir, _, VRows r => set_loc s (loc_is p) (VFile r)
                 | _, _, _ => s
                 end).

(* where the temporary directory of output partition N is:
   tempdir_format=None -> <dataset>/part.N.parquet (the same path as the final file);
   otherwise <parent>/t<N> *)
Inductive tmpmode := TInside | TExternal (parent : path).

Record layout := { l_ds : path; l_tmp : tmpmode }.

Definition out_path (L : layout) (N : nat) : path := l_ds L ++ [NPart N].
Definition tmp_path (L : layout) (N : nat) : path :=
  match l_tmp L with
  | TInside => l_ds L ++ [NPart N]
  | TExternal t => t ++ [NTmp N]
  end.

(* process_partition(df, i): for out_partition, df_part in df.groupby('_partition'):
       write_partition(df_part, tmp(out_partition)/part<i>.parquet) *)
Definition process_partition (L : layout) (i : nat) (groups : list nat) : list (op loc val) :=
  map (fun N => fs_write (tmp_path L N ++ [NSub i]) [(i, N)]) groups.

(* concat_parts(tmp(N), subpart_paths, out(N)) *)
Definition concat_parts (L : layout) (N : nat) (subs : list path) : list (op loc val) :=
  match subs with
  | [] => [fs_rmtree (tmp_path L N); fs_rmtree (out_path L N)]
  | _ => [fs_read_files N subs; fs_rmtree (tmp_path L N); fs_rmtree (out_path L N);
          fs_write_from N (out_path L N)]
  end.

(* asg[i] = the output partitions receiving rows of input partition i *)
Fixpoint phase1_from (L : layout) (asg : list (list nat)) (i : nat) : list (list (op loc val)) :=
  match asg with
  | [] => []
  | g :: t => process_partition L i g :: phase1_from L t (S i)
  end.
Definition phase1 (L : layout) (asg : list (list nat)) : list (list (op loc val)) :=
  phase1_from L asg 0.

(* subpart_paths of output partition N, from the values the phase-1 tasks returned *)
Fixpoint subparts_from (L : layout) (asg : list (list nat)) (i N : nat) : list path :=
  match asg with
  | [] => []
  | g :: t => (if existsb (Nat.eqb N) g then [tmp_path L N ++ [NSub i]] else [])
              ++ subparts_from L t (S i) N
  end.
Definition subparts (L : layout) (asg : list (list nat)) (N : nat) : list path :=
  subparts_from L asg 0 N.

Definition phase2 (L : layout) (asg : list (list nat)) (k : nat) : list (list (op loc val)) :=
  map (fun N => concat_parts L N (subparts L asg N)) (seq 0 k).

(* the external temporary parent does not lie inside the dataset directory and the
   dataset directory does not lie inside it *)
Definition layout_ok (L : layout) : bool :=
  match l_tmp L with
  | TInside => true
  | TExternal t => negb (is_prefix t (l_ds L)) && negb (is_prefix (l_ds L) t)
  end.

(* the state the phases start from: dataset directory, placeholder / temporary directories
   created by the sequential prologue (mkdirs_retry), nothing else *)
Definition initial (L : layout) (k : nat) : fstore :=
  fun l => match l with
           | LReg _ => VNone
           | LPath q =>
               if path_eqb q (l_ds L) then VDir
               else if existsb (fun N => path_eqb q (out_path L N) || path_eqb q (tmp_path L N)) (seq 0 k)
                    then VDir
                    else match l_tmp L with
                         | TExternal t => if path_eqb q t then VDir else VNone
                         | TInside => VNone
                         end
           end.

(* a finite view for the examples / correspondence: the values at the given locations *)
Definition view (s : fstore) (ls : list loc) : list val := map s ls.
