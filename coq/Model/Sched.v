(* C18 — scheduling independence: three state machines.
   (a) a numba `prange` kernel as iterations that store into a shared result array
       (geometry/baselist.py _geometry_map_nested1/2/3,
        geometry/_algorithms/intersection.py multipoints_intersect_bounds,
        geometry/point.py _perform_intersects_multipoint/_line/_polygon);
   (b) the check-then-build caches as small-step thread programs over one shared cell
       (geometry/base.py GeometryArray.sindex / build_sindex -> _sindex,
        spatialindex/rtree.py HilbertRtree.numba_rtree -> _numba_rtree,
        dask.py DaskGeoSeries.partition_bounds / partition_sindex,
        dask.py DaskGeoDataFrame.partition_sindex -> _partition_sindex / _partition_bounds dicts);
   (c) the tasks of DaskGeoDataFrame.pack_partitions_to_parquet as lists of filesystem
       operations with read / write footprints, in the two phases separated by the
       dask.compute barriers the code has.
   numba's threading layer, the GIL and Dask's scheduler are NOT modelled: an execution
   is any interleaving of the atomic steps below.  No proofs in this file. *)
From Coq Require Import ZArith List Bool Arith String.
From SP Require Import Model.FS.
Import ListNotations.

(* ------------------------------------------------------------------ *)
(* generic: operations over a store of locations, interleavings          *)
(* ------------------------------------------------------------------ *)

Section Store.
  Variables Loc Val : Type.

  Definition store := Loc -> Val.

  (* an atomic operation: what it may read, what it may write, what it does *)
  Record op := mkOp { rd : Loc -> bool; wr : Loc -> bool; act : store -> store }.

  Definition run (l : list op) (s : store) : store :=
    fold_left (fun s o => act o s) l s.

  (* every interleaving of two threads (program order kept inside each) *)
  Inductive merge2 : list op -> list op -> list op -> Prop :=
  | merge2_nil_l : forall b, merge2 [] b b
  | merge2_nil_r : forall a, merge2 a [] a
  | merge2_l : forall x a b l, merge2 a b l -> merge2 (x :: a) b (x :: l)
  | merge2_r : forall y a b l, merge2 a b l -> merge2 a (y :: b) (y :: l).

  (* every interleaving of any number of threads *)
  Inductive interleave : list (list op) -> list op -> Prop :=
  | interleave_nil : interleave [] []
  | interleave_cons : forall t ts r l,
      interleave ts r -> merge2 t r l -> interleave (t :: ts) l.
End Store.

Arguments mkOp {Loc Val}.
Arguments rd {Loc Val}.
Arguments wr {Loc Val}.
Arguments act {Loc Val}.
Arguments run {Loc Val}.
Arguments merge2 {Loc Val}.
Arguments interleave {Loc Val}.

(* ------------------------------------------------------------------ *)
(* (a) prange kernels                                                    *)
(* ------------------------------------------------------------------ *)

Section Prange.
  Variable V : Type.

  (* the shared result array; a store outside it is dropped (numba would fault) *)
  Fixpoint upd (r : list V) (i : nat) (v : V) : list V :=
    match r, i with
    | [], _ => []
    | _ :: t, O => v :: t
    | x :: t, S k => x :: upd t k v
    end.

  (* result[i] = v *)
  Definition store_op (i : nat) (v : V) : op nat (option V) :=
    mkOp (fun _ => false) (fun j => Nat.eqb j i)
         (fun s j => if Nat.eqb j i then Some v else s j).

  (* One iteration of a prange loop: the stores it performs, in program order.  All the
     kernels of the repo store only into result[i] of their own iteration i, zero times
     (missing element / no hit), once, or several times (_perform_intersects_line):
       iteration i  ~>  (i, [v1; ..; vk])  *)
  Definition iteration := (nat * list V)%type.

  Definition iter_writes (it : iteration) : list (nat * V) :=
    map (fun v => (fst it, v)) (snd it).

  Definition apply_writes (ws : list (nat * V)) (r : list V) : list V :=
    fold_left (fun r w => upd r (fst w) (snd w)) ws r.

  (* the sequential loop: iterations in the given order *)
  Definition run_iterations (its : list iteration) (r : list V) : list V :=
    apply_writes (flat_map iter_writes its) r.

  (* footprint property observed by the correspondence run: distinct iterations have
     distinct cells *)
  Definition footprints_distinct (its : list iteration) : Prop := NoDup (map fst its).

  (* interleavings at the granularity of single stores *)
  Inductive wmerge2 : list (nat * V) -> list (nat * V) -> list (nat * V) -> Prop :=
  | wmerge2_nil_l : forall b, wmerge2 [] b b
  | wmerge2_nil_r : forall a, wmerge2 a [] a
  | wmerge2_l : forall x a b l, wmerge2 a b l -> wmerge2 (x :: a) b (x :: l)
  | wmerge2_r : forall y a b l, wmerge2 a b l -> wmerge2 a (y :: b) (y :: l).

  Inductive winterleave : list (list (nat * V)) -> list (nat * V) -> Prop :=
  | winterleave_nil : winterleave [] []
  | winterleave_cons : forall t ts r l,
      winterleave ts r -> wmerge2 t r l -> winterleave (t :: ts) l.
End Prange.

Arguments upd {V}.
Arguments iter_writes {V}.
Arguments apply_writes {V}.
Arguments run_iterations {V}.
Arguments footprints_distinct {V}.
Arguments wmerge2 {V}.
Arguments winterleave {V}.

(* ------------------------------------------------------------------ *)
(* (b) check-then-build caches                                           *)
(* ------------------------------------------------------------------ *)

Section Cache.
  Variable V : Type.
  Variable fx : V.      (* the value every builder computes: f is pure and deterministic *)

  (*   def sindex(self):                      def numba_rtree(self):
         if self._sindex is None:   (check)     if self._numba_rtree is None:   (check)
             self.build_sindex()                    self._numba_rtree = f(x)     (write)
         return self._sindex        (read)      return self._numba_rtree        (read)
       def build_sindex(self):
         if self._sindex is None:   (check)   def partition_bounds(self):
             self._sindex = f(x)    (write)      if self._partition_bounds is None:        (check)
                                                     self._partition_bounds = f(x)         (write)
                                                     self._partition_bounds.index.name = .. (read)
                                                 return self._partition_bounds             (read)
     A thread is at: [Check k mw] k more `is None` tests before it builds (k = 1 for sindex
     entered at the top: build_sindex tests again; k = 0: it builds next), mw = number of
     reads of the cell between its own write and the returning read; [Write mw];
     [Read m] m more reads before the returning read; [Done v] returned v. *)
  Inductive pc :=
  | Check (k mw : nat)
  | Write (mw : nat)
  | Read (m : nat)
  | Done (v : option V).

  (* one atomic step of a thread against the shared cell *)
  Definition tstep (cell : option V) (p : pc) : option V * pc :=
    match p with
    | Check k mw =>
        match cell with
        | Some _ => (cell, Read 0)
        | None => (cell, match k with O => Write mw | S k' => Check k' mw end)
        end
    | Write mw => (Some fx, Read mw)
    | Read m => match m with O => (cell, Done cell) | S m' => (cell, Read m') end
    | Done v => (cell, Done v)
    end.

  Fixpoint set_nth (l : list pc) (i : nat) (p : pc) : list pc :=
    match l, i with
    | [], _ => []
    | _ :: t, O => p :: t
    | x :: t, S k => x :: set_nth t k p
    end.

  (* the system: shared cell + the program counters of the threads; a schedule is the
     list of thread numbers in the order they take a step (a number that names no thread
     is an idle step) *)
  Definition sys := (option V * list pc)%type.

  Definition sstep (s : sys) (i : nat) : sys :=
    match nth_error (snd s) i with
    | None => s
    | Some p => let '(c, p') := tstep (fst s) p in (c, set_nth (snd s) i p')
    end.

  Definition srun (sched : list nat) (s : sys) : sys := fold_left sstep sched s.

  (* what the scheduled thread does to the cell: 0 = reads it, 1 = writes it, 2 = nothing
     (it has returned / there is no such thread) *)
  Definition step_kind (s : sys) (i : nat) : nat :=
    match nth_error (snd s) i with
    | Some (Write _) => 1
    | Some (Done _) => 2
    | Some _ => 0
    | None => 2
    end.

  Fixpoint srun_kinds (sched : list nat) (s : sys) : list nat :=
    match sched with
    | [] => []
    | i :: t => step_kind s i :: srun_kinds t (sstep s i)
    end.

  (* the access entered at the top, per thread (k, mw): sindex = (1, 0); numba_rtree,
     partition_sindex and the dict-based caches = (0, 0); partition_bounds = (0, 1) *)
  Definition start (cfgs : list (nat * nat)) : sys :=
    (None, map (fun c => Check (fst c) (snd c)) cfgs).
End Cache.

Arguments Check {V}.
Arguments Write {V}.
Arguments Read {V}.
Arguments Done {V}.
Arguments tstep {V}.
Arguments sstep {V}.
Arguments srun {V}.
Arguments srun_kinds {V}.
Arguments step_kind {V}.
Arguments start {V}.
Arguments set_nth {V}.

(* ------------------------------------------------------------------ *)
(* (c) pack_partitions_to_parquet: tasks as filesystem operations        *)
(* ------------------------------------------------------------------ *)

(* locations: a path of the filesystem, or the local variable `part_df` of the
   concat_parts task of output partition N *)
Inductive loc := LPath (p : path) | LReg (N : nat).

(* a file holds the rows of some (input partition, output partition) cells *)
Inductive val :=
| VNone                                  (* no such path / unset variable *)
| VDir
| VFile (rows : list (nat * nat))
| VRows (rows : list (nat * nat)).       (* value of the local variable *)

Definition fstore := store loc val.

Definition loc_is (p : path) (l : loc) : bool :=
  match l with LPath q => path_eqb p q | LReg _ => false end.

Definition loc_under (p : path) (l : loc) : bool :=
  match l with LPath q => is_prefix p q | LReg _ => false end.

Definition loc_reg (N : nat) (l : loc) : bool :=
  match l with LReg M => Nat.eqb N M | LPath _ => false end.

Definition set_loc (s : fstore) (test : loc -> bool) (v : val) : fstore :=
  fun l => if test l then v else s l.

(* filesystem.open(p, 'wb') + write: the parent must be a directory, p not a directory *)
Definition fs_write (p : path) (rows : list (nat * nat)) : op loc val :=
  mkOp (fun l => loc_is (parent p) l)
       (fun l => loc_is p l)
       (fun s => match s (LPath (parent p)), s (LPath p) with
                 | VDir, VDir => s
                 | VDir, _ => set_loc s (loc_is p) (VFile rows)
                 | _, _ => s
                 end).

(* rm_retry(p): if exists: rm(p, recursive=True) *)
Definition fs_rmtree (p : path) : op loc val :=
  mkOp (fun _ => false) (fun l => loc_under p l) (fun s => set_loc s (loc_under p) VNone).

Definition rows_of (v : val) : list (nat * nat) :=
  match v with VFile r => r | _ => [] end.

(* part_df = read_parquet(ls_res) for the verified list of sub-part files *)
Definition fs_read_files (N : nat) (files : list path) : op loc val :=
  mkOp (fun l => existsb (fun p => loc_is p l) files)
       (fun l => loc_reg N l)
       (fun s => set_loc s (loc_reg N) (VRows (flat_map (fun p => rows_of (s (LPath p))) files))).

(* write_concatted_part(part_df, part_output_path) *)
Definition fs_write_from (N : nat) (p : path) : op loc val :=
  mkOp (fun l => loc_is (parent p) l || loc_reg N l)
       (fun l => loc_is p l)
       (fun s => match s (LPath (parent p)), s (LPath p), s (LReg N) with
                 | VDir, VDir, _ => s
                 | VDir, _, VRows r => set_loc s (loc_is p) (VFile r)
                 | _, _, _ => s
                 end).

(* where the temporary directory of output partition N is:
   tempdir_format=None -> <dataset>/part.N.parquet (the same path as the final file);
   otherwise <parent>/t<N> *)
Inductive tmpmode := TInside | TExternal (parent : path).

Record layout := { l_ds : path; l_tmp : tmpmode }.

Definition out_path (L : layout) (N : nat) : path := l_ds L ++ [NPart N].
Definition tmp_path (L : layout) (N : nat) : path :=
  match l_tmp L with
  | TInside => l_ds L ++ [NPart N]
  | TExternal t => t ++ [NTmp N]
  end.

(* process_partition(df, i): for out_partition, df_part in df.groupby('_partition'):
       write_partition(df_part, tmp(out_partition)/part<i>.parquet) *)
Definition process_partition (L : layout) (i : nat) (groups : list nat) : list (op loc val) :=
  map (fun N => fs_write (tmp_path L N ++ [NSub i]) [(i, N)]) groups.

(* concat_parts(tmp(N), subpart_paths, out(N)) *)
Definition concat_parts (L : layout) (N : nat) (subs : list path) : list (op loc val) :=
  match subs with
  | [] => [fs_rmtree (tmp_path L N); fs_rmtree (out_path L N)]
  | _ => [fs_read_files N subs; fs_rmtree (tmp_path L N); fs_rmtree (out_path L N);
          fs_write_from N (out_path L N)]
  end.

(* asg[i] = the output partitions receiving rows of input partition i *)
Fixpoint phase1_from (L : layout) (asg : list (list nat)) (i : nat) : list (list (op loc val)) :=
  match asg with
  | [] => []
  | g :: t => process_partition L i g :: phase1_from L t (S i)
  end.
Definition phase1 (L : layout) (asg : list (list nat)) : list (list (op loc val)) :=
  phase1_from L asg 0.

(* subpart_paths of output partition N, from the values the phase-1 tasks returned *)
Fixpoint subparts_from (L : layout) (asg : list (list nat)) (i N : nat) : list path :=
  match asg with
  | [] => []
  | g :: t => (if existsb (Nat.eqb N) g then [tmp_path L N ++ [NSub i]] else [])
              ++ subparts_from L t (S i) N
  end.
Definition subparts (L : layout) (asg : list (list nat)) (N : nat) : list path :=
  subparts_from L asg 0 N.

Definition phase2 (L : layout) (asg : list (list nat)) (k : nat) : list (list (op loc val)) :=
  map (fun N => concat_parts L N (subparts L asg N)) (seq 0 k).

(* the external temporary parent does not lie inside the dataset directory and the
   dataset directory does not lie inside it *)
Definition layout_ok (L : layout) : bool :=
  match l_tmp L with
  | TInside => true
  | TExternal t => negb (is_prefix t (l_ds L)) && negb (is_prefix (l_ds L) t)
  end.

(* the state the phases start from: dataset directory, placeholder / temporary directories
   created by the sequential prologue (mkdirs_retry), nothing else *)
Definition initial (L : layout) (k : nat) : fstore :=
  fun l => match l with
           | LReg _ => VNone
           | LPath q =>
               if path_eqb q (l_ds L) then VDir
               else if existsb (fun N => path_eqb q (out_path L N) || path_eqb q (tmp_path L N)) (seq 0 k)
                    then VDir
                    else match l_tmp L with
                         | TExternal t => if path_eqb q t then VDir else VNone
                         | TInside => VNone
                         end
           end.

(* a finite view for the examples / correspondence: the values at the given locations *)
Definition view (s : fstore) (ls : list loc) : list val := map s ls.

(* ------------------------------------------------------------------ *)
(* entry points of the correspondence run                               *)
(* ------------------------------------------------------------------ *)

(* (a) what was observed of one kernel call: per iteration (in execution order) its number
   and the stores it performed as (cell, value); the result array when the loop started *)
Definition obs_iteration := (nat * list (nat * Z))%type.

Fixpoint nodupb (l : list nat) : bool :=
  match l with
  | [] => true
  | x :: t => negb (existsb (Nat.eqb x) t) && nodupb t
  end.

(* every store of iteration i hit cell i *)
Definition own_cells (its : list obs_iteration) : bool :=
  forallb (fun it => forallb (fun w => Nat.eqb (fst w) (fst it)) (snd it)) its.

Definition to_iteration (it : obs_iteration) : nat * list Z := (fst it, map snd (snd it)).

(* (footprint property holds, result of the loop in the observed order, result with the
   iterations in the opposite order) *)
Definition prange_check (c : list obs_iteration * list Z) : bool * list Z * list Z :=
  let '(its, r0) := c in
  (own_cells its && nodupb (map fst its),
   run_iterations (map to_iteration its) r0,
   run_iterations (rev (map to_iteration its)) r0).

(* (b) a recorded schedule of the cache machine: the values returned and the final cell,
   with the value f x represented by 1 *)
Definition pc_code (p : pc Z) : option (option Z) :=
  match p with Done v => Some v | _ => None end.

(* (final cell, what each thread returned, the kind of access of every step) *)
Definition cache_check (c : list (nat * nat) * list nat)
  : option Z * list (option (option Z)) * list nat :=
  let '(cfgs, sched) := c in
  let s := srun 1%Z sched (start cfgs) in
  (fst s, map pc_code (snd s), srun_kinds 1%Z sched (start cfgs)).

(* (c) a recorded trace of filesystem operations *)
Inductive fsop :=
| FWrite (p : path) (rows : list (nat * nat))
| FRm (p : path)
| FRead (N : nat) (files : list path)
| FWriteFrom (N : nat) (p : path).

Definition denote (o : fsop) : op loc val :=
  match o with
  | FWrite p rows => fs_write p rows
  | FRm p => fs_rmtree p
  | FRead N files => fs_read_files N files
  | FWriteFrom N p => fs_write_from N p
  end.

(* None: no such path; Some None: a directory; Some (Some rows): a file with these cells *)
Definition val_code (v : val) : option (option (list (nat * nat))) :=
  match v with
  | VNone => None
  | VDir => Some None
  | VFile r => Some (Some r)
  | VRows r => Some (Some r)
  end.

(* (tree after replaying the recorded trace, tree after the sequential execution of the
   modelled tasks), both seen at the given paths *)
Definition trace_check (c : layout * list (list nat) * nat * list fsop * list path)
  : list (option (option (list (nat * nat)))) * list (option (option (list (nat * nat)))) :=
  let '(L, asg, k, tr, ps) := c in
  let locs := map LPath ps in
  (map val_code (view (run (map denote tr) (initial L k)) locs),
   map val_code (view (run (List.concat (phase1 L asg) ++ List.concat (phase2 L asg k)) (initial L k)) locs)).
